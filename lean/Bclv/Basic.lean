/-!
# Basic definitions shared by the model of wkhere/bcl

Go strings and `[]byte` are modelled as `List UInt8`: a Go string may hold any
bytes, a Lean `String` may not.
-/

namespace Bclv

abbrev Bytes := List UInt8

/-- ASCII bytes of a Lean string literal (used for keywords and message texts). -/
def str (s : String) : Bytes := s.toUTF8.toList

/-- Big-endian encoding of `x` in exactly `n` bytes (higher bytes are dropped). -/
def beBytes : Nat → Nat → Bytes
  | 0, _ => []
  | n+1, x => UInt8.ofNat (x / 256 ^ n % 256) :: beBytes n x

/-- Big-endian value of a byte string. -/
def beVal (bs : Bytes) : Nat := bs.foldl (fun a b => a * 256 + b.toNat) 0

/-- Decimal rendering of a natural number as ASCII bytes (Go `strconv.Itoa` on a
non-negative value). -/
def natDec (n : Nat) : Bytes := str (toString n)

/-- Decimal rendering of an integer as ASCII bytes (Go `strconv.Itoa`). -/
def intDec (i : Int) : Bytes := str (toString i)

/-- Lexicographic order on byte strings (Go string `<`). -/
def bytesLt : Bytes → Bytes → Bool
  | [], [] => false
  | [], _ :: _ => true
  | _ :: _, [] => false
  | a :: as, b :: bs => if a < b then true else if b < a then false else bytesLt as bs

end Bclv
