import Bclv.Proofs.LexLfs
import Bclv.Proofs.LexGhost3
/-!
# C07 — streaming parse does not depend on how the input is chunked

`Win` (`Model/Lexer.lean`) is the port of the Go lexer's sliding window, refilled from the
pending chunks exactly as `lexer.next` does (receive when the window is used up or ends in
an incomplete rune; an empty chunk is just another refill; a closed channel with an
incomplete rune left decodes what is there).  `Whole` is the same lexer on the whole input.

* `lex_tokens`: for **every** list of chunks the tokens (types, texts, error messages,
  positions) are those of the whole input — boundaries inside a token, inside a multi-byte
  rune, between the two characters of an operator or an escape, empty chunks anywhere;
* `line_table`: when the lexer reaches the end of input the line table built chunk by chunk
  is the table of the whole input;
* `parse_outcome`: for **every** list of chunks the compiled program (code, constants,
  positions, line table), the diagnostics and the statistics of `Parse` on chunks are those of
  `Parse` on the whole input — also when the lexer stops at a lexical failure long before the
  input is exhausted and the line table is only partly built: no token lies beyond what has
  been received (`tokens_within_received`), the missing entries all lie at or beyond that
  point (`line_table_prefix`), and the parser looks positions up only at its tokens
  (`parse_lfs`, a relational proof through every parser function);
* `parse_outcome_at_eof`: the earlier form with the hypothesis that the lexer reached the end.
-/
namespace Bclv.C07
open Bclv

theorem lex_tokens (chunks : List Bytes) : (lexChunks chunks).1 = lexWhole chunks.flatten :=
  lex_chunk_indep chunks

theorem line_table (chunks : List Bytes) (heof : headTyp (winRun chunks) = some .EOF) :
    (lexChunks chunks).2 = newlinesFrom 0 chunks.flatten :=
  lfs_chunk_indep chunks heof

theorem parse_outcome_at_eof (name : Bytes) (chunks : List Bytes) (heof : headTyp (winRun chunks) = some .EOF) :
    parseChunks name chunks = parseWhole name chunks.flatten :=
  parse_chunk_indep name chunks heof

/-- No token lies beyond the end of what the lexer has received. -/
theorem tokens_within_received (chunks : List Bytes) :
    ∀ t ∈ (winRun chunks).toks, t.pos ≤ WB (winRun chunks).s :=
  win_tokens_bounded chunks

/-- Wherever the lexer stopped, the line table built so far is a prefix of the table of the whole
input, and what is missing lies at or beyond the end of what was received. -/
theorem line_table_prefix (chunks : List Bytes) :
    ∃ rem, (lexChunks chunks).2 ++ rem = newlinesFrom 0 chunks.flatten ∧ ∀ x ∈ rem, WB (winRun chunks).s ≤ x :=
  win_lfs_prefix chunks

/-- **The outcome of `Parse` does not depend on the chunks — for every input.** -/
theorem parse_outcome (name : Bytes) (chunks : List Bytes) :
    parseChunks name chunks = parseWhole name chunks.flatten :=
  parse_chunk_indep_all name chunks

/-- Two deliveries of the same bytes give the same outcome. -/
theorem any_two_deliveries (name : Bytes) (c₁ c₂ : List Bytes) (h : c₁.flatten = c₂.flatten) :
    parseChunks name c₁ = parseChunks name c₂ := by
  rw [parse_outcome, parse_outcome, h]

/-- Two deliveries of the same bytes give the same tokens. -/
theorem any_two_partitions (c₁ c₂ : List Bytes) (h : c₁.flatten = c₂.flatten) :
    (lexChunks c₁).1 = (lexChunks c₂).1 := by
  rw [lex_tokens, lex_tokens, h]

/-- Zero-byte reads are ignored. -/
theorem empty_chunks_ignored (pre post : List Bytes) :
    (lexChunks (pre ++ [] :: post)).1 = (lexChunks (pre ++ post)).1 := by
  apply any_two_partitions; simp

/-- non-vacuity: `print "é"` cut inside the two-byte rune -/
example : (lexChunks [[112, 114, 105, 110, 116, 32, 34, 195], [169, 34]]).1
    = lexWhole [112, 114, 105, 110, 116, 32, 34, 195, 169, 34] := lex_tokens _

example : headTyp (winRun [[112, 114, 105, 110, 116, 32, 34, 195], [169, 34]]) = some .EOF := by decide

/-- non-vacuity of the failure case: `$` then a newline in a later chunk — the lexer stops in the
first chunk, the line table stays empty, the diagnostic is the one of the whole input -/
example : headTyp (winRun [[36], [10, 120]]) = some .FAIL ∧ (lexChunks [[36], [10, 120]]).2 = []
    ∧ newlinesFrom 0 [36, 10, 120] = [1] := by decide

end Bclv.C07
