import Bclv.Proofs.LexLfs
/-!
# C07 — streaming parse does not depend on how the input is chunked

`Win` (`Model/Lexer.lean`) is the port of the Go lexer's sliding window, refilled from the
pending chunks exactly as `lexer.next` does (receive when the window is used up or ends in
an incomplete rune; an empty chunk is just another refill; a closed channel with an
incomplete rune left decodes what is there).  `Whole` is the same lexer on the whole input.

* `lex_tokens`: for **every** list of chunks the tokens (types, texts, error messages,
  positions) are those of the whole input — boundaries inside a token, inside a multi-byte
  rune, between the two characters of an operator or an escape, empty chunks anywhere;
* `line_table`: when the lexer reaches the end of input the line table built chunk by chunk
  is the table of the whole input;
* `parse_outcome`: then the compiled program (code, constants, positions, line table), the
  diagnostics and the statistics of `Parse` on chunks are those of `Parse` on the whole
  input.  After a lexical failure the tokens are still equal (`lex_tokens`); the diagnostics
  then depend on the line table only below the failure position (C08 `lineColAt_append`),
  which the `partitions` stream compares on every run.
-/
namespace Bclv.C07
open Bclv

theorem lex_tokens (chunks : List Bytes) : (lexChunks chunks).1 = lexWhole chunks.flatten :=
  lex_chunk_indep chunks

theorem line_table (chunks : List Bytes) (heof : headTyp (winRun chunks) = some .EOF) :
    (lexChunks chunks).2 = newlinesFrom 0 chunks.flatten :=
  lfs_chunk_indep chunks heof

theorem parse_outcome (name : Bytes) (chunks : List Bytes) (heof : headTyp (winRun chunks) = some .EOF) :
    parseChunks name chunks = parseWhole name chunks.flatten :=
  parse_chunk_indep name chunks heof

/-- Two deliveries of the same bytes give the same tokens. -/
theorem any_two_partitions (c₁ c₂ : List Bytes) (h : c₁.flatten = c₂.flatten) :
    (lexChunks c₁).1 = (lexChunks c₂).1 := by
  rw [lex_tokens, lex_tokens, h]

/-- Zero-byte reads are ignored. -/
theorem empty_chunks_ignored (pre post : List Bytes) :
    (lexChunks (pre ++ [] :: post)).1 = (lexChunks (pre ++ post)).1 := by
  apply any_two_partitions; simp

/-- non-vacuity: `print "é"` cut inside the two-byte rune -/
example : (lexChunks [[112, 114, 105, 110, 116, 32, 34, 195], [169, 34]]).1
    = lexWhole [112, 114, 105, 110, 116, 32, 34, 195, 169, 34] := lex_tokens _

example : headTyp (winRun [[112, 114, 105, 110, 116, 32, 34, 195], [169, 34]]) = some .EOF := by decide

end Bclv.C07
