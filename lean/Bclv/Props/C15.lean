import Bclv.Proofs.Bind
/-!
# C15 — Bind never panics and never silently drops or coerces data

Statements about the binder model `Model/Bind.lean` (validated against `bcl.Bind` by the
`bindmodel` stream on generated types, targets and bindings).  In the model every place
where the Go code could panic — walking an index path that the value does not have, or
running out of the nesting bound — is the outcome `panic`.
-/
namespace Bclv.C15
open Bclv Bclv.Bind

/-- A target as Go can hand it to `Bind`: any non-pointer, any typed nil pointer, or a
pointer to a value of its type. -/
def Target.WellFormed : Target → Prop
  | .nonPointer _ => True
  | .nilPointer _ => True
  | .pointer ty v => HasTy v ty

theorem maxDepth_le (bs : List Block) : ∀ b ∈ bs, blockDepth b ≤ maxDepth bs := by
  unfold maxDepth
  have gen : ∀ (l : List Block) (a : Nat), a ≤ l.foldl (fun a b => max a (blockDepth b)) a
      ∧ ∀ b ∈ l, blockDepth b ≤ l.foldl (fun a b => max a (blockDepth b)) a := by
    intro l
    induction l with
    | nil => intro a; simp
    | cons x xs ih =>
      intro a
      simp only [List.foldl_cons, List.mem_cons]
      have h := ih (max a (blockDepth x))
      refine ⟨by omega, ?_⟩
      intro b hb
      rcases hb with rfl | hb
      · omega
      · exact h.2 b hb
  exact (gen bs 0).2

theorem blocksToSlice_ok (copy : Ty → GV → Block → Outcome) (D : Nat) (hc : CopyOK copy D) (elem : Ty) :
    ∀ (bs : List Block) (acc : List GV), (∀ b ∈ bs, blockDepth b ≤ D) →
      match blocksToSlice copy elem bs acc with
      | .ok _ => True
      | .error (.err _ _) => True
      | .error _ => False
  | [], acc, _ => by simp [blocksToSlice]
  | b :: rest, acc, hd => by
    unfold blocksToSlice
    have h1 := hc elem (zero elem) b (zero_hasTy elem) (hd b (by simp))
    cases hcopy : copy elem (zero elem) b with
    | ok v => simp only; exact blocksToSlice_ok copy D hc elem rest _ (fun b' h' => hd b' (by simp [h']))
    | err v e => trivial
    | panic => rw [hcopy] at h1; exact h1

/-- **Bind never panics**: for every target Go can build and every binding (none, struct,
slice; any blocks, any nesting, nil values, any keys) the outcome is a value or an error. -/
theorem bind_never_panics (t : Target) (ht : Target.WellFormed t) (b : Option Binding) :
    ∀ o, bind t b = o → o ≠ .panic := by
  intro o ho hp
  subst ho
  unfold Bclv.Bind.bind at hp
  cases b with
  | none => cases t <;> simp at hp
  | some b =>
    cases t with
    | nonPointer k => simp at hp
    | nilPointer ty => cases b <;> simp at hp
    | pointer ty v =>
      simp only at hp
      cases b with
      | struct blk =>
        simp only at hp
        cases ty with
        | struct id n fs =>
          simp only at hp
          have := copyBlock_typed (blockDepth blk) (.struct id n fs) v blk ht (Nat.le_refl _)
          rw [hp] at this; exact this
        | _ => simp at hp
      | slice blks =>
        simp only at hp
        cases ty with
        | slice elem =>
          simp only at hp
          cases elem with
          | struct id n fs =>
            simp only at hp
            have := blocksToSlice_ok (copyBlock (maxDepth blks + 1)) (maxDepth blks) (copyBlock_typed _)
              (.struct id n fs) blks [] (maxDepth_le blks)
            cases hb : blocksToSlice (copyBlock (maxDepth blks + 1)) (.struct id n fs) blks [] with
            | ok vs => rw [hb] at hp; simp at hp
            | error o =>
              rw [hb] at hp this
              cases o with
              | ok _ => exact this
              | err _ _ => simp at hp
              | panic => exact this
          | _ => simp at hp
        | _ => simp at hp

/-- **On error a slice target keeps its previous contents**: the new slice replaces the
target only when every block has been copied. -/
theorem slice_target_untouched_on_error (elem : Ty) (v v' : GV) (blks : List Block) (e : Err)
    (h : bind (.pointer (.slice elem) v) (some (.slice blks)) = .err v' e) : v' = v := by
  unfold Bclv.Bind.bind at h
  simp only at h
  cases elem with
  | struct id n fs =>
    simp only at h
    cases hb : blocksToSlice (copyBlock (maxDepth blks + 1)) (.struct id n fs) blks [] with
    | ok vs => rw [hb] at h; simp at h
    | error o =>
      rw [hb] at h
      cases o with
      | ok _ => simp at h
      | err _ _ => simp at h; exact h.1.symm
      | panic => simp at h
  | _ => simp at h; exact h.1.symm

/-- The wrong kind of target is an error, for every binding. -/
theorem wrong_target_is_error (k : List Char) (b : Binding) :
    bind (.nonPointer k) (some b) = .err .opaque (.notPointer k) := rfl

theorem nil_binding_is_error (t : Target) : ∃ v, bind t none = .err v .noBinding := by
  cases t <;> exact ⟨_, rfl⟩

theorem struct_binding_needs_struct (ty : Ty) (v : GV) (blk : Block) (h : ∀ id n fs, ty ≠ .struct id n fs) :
    bind (.pointer ty v) (some (.struct blk)) = .err v (.notStruct ty.kind) := by
  unfold Bclv.Bind.bind; cases ty <;> simp_all

theorem slice_binding_needs_slice_of_structs (ty : Ty) (v : GV) (blks : List Block) :
    (∀ e, ty ≠ .slice e) → bind (.pointer ty v) (some (.slice blks)) = .err v (.notSlice ty.kind) := by
  intro h; unfold Bclv.Bind.bind; cases ty <;> simp_all

/-! ## nil result ⇒ everything was stored, unchanged, where it belongs -/

/-- The Go value a block value becomes when stored in a field of its own kind. -/
def ofValue : Value → Option (BK × GV)
  | .int i => some (.int, .int i)
  | .float b => some (.float, .float b)
  | .str s => some (.str, .str s)
  | .bool b => some (.bool, .bool b)
  | .nil => none

/-- **No coercion**: a value is assignable only to a field of exactly its own kind
(`int`, `float64`, `string`, `bool` — the predeclared types, no named or sized variants)
or to an empty interface, and what is stored is the value itself. -/
theorem assign_faithful (x : Value) (ty : Ty) (g : GV) (h : assign x ty = some g) :
    (ty = .iface ∧ g = .boxed x ∧ x ≠ .nil) ∨ (∃ k, ofValue x = some (k, g) ∧ ty = .basic k) := by
  cases x <;> cases ty <;> simp [assign] at h <;>
    first
    | (subst h; left; exact ⟨rfl, rfl, by simp⟩)
    | (rename_i k; cases k <;> simp [assign] at h <;> subst h <;> right <;> exact ⟨_, rfl, rfl⟩)

theorem setName_ok_effect (id : Nat) (tfs : TFields) (tagged : List (List Char × Nat)) (v : GV) (bname : Bytes) (st : BState)
    (h : setName id tfs tagged v bname = .ok st) :
    (bname ≠ [] → ∃ f g, lookupField id tfs tagged "Name".toList = some f ∧ f.hdr.exported = true
        ∧ assign (.str bname) f.ty = some g ∧ Kept st [(f.index, g)])
    ∧ (bname = [] → st.stored = []) := by
  unfold setName at h
  cases hl : lookupField id tfs tagged "Name".toList with
  | none =>
    rw [hl] at h; simp only at h
    split at h
    · rename_i he
      simp only [Except.ok.injEq] at h; subst h
      exact ⟨fun hne => absurd (by simpa using he) hne, fun _ => rfl⟩
    · simp at h
  | some f =>
    rw [hl] at h; simp only at h
    split at h
    · simp at h
    · rename_i hex
      cases hg : getPath v f.index with
      | error e => rw [hg] at h; cases e <;> simp at h
      | ok old =>
        rw [hg] at h; simp only at h
        cases ha : assign (.str bname) f.ty with
        | none => rw [ha] at h; simp at h
        | some g =>
          rw [ha] at h; simp only [Except.ok.injEq] at h; subst h
          refine ⟨fun hne => ⟨f, g, rfl, by simpa using hex, ha, ?_⟩, fun he => by simp [he]⟩
          intro pg hpg
          simp only [List.mem_singleton] at hpg; subst hpg
          have hne' : bname.isEmpty = false := by cases bname <;> simp_all
          exact ⟨by simp [hne'], getPath_setPath_same f.index v g ⟨old, hg⟩⟩

/-- **`Bind` returns nil only if everything was stored.**  When binding one block into a
struct succeeds: the struct type's own name, if it has one, matches the block type under
the matching rule; a non-empty block name is in the field the rule finds for `Name`; and
for every entry of the block the rule finds an exported field, of exactly the value's kind
(or an empty interface), which in the final target holds exactly that value — for a nested
block, the result of binding it (recursively, into the field's previous value).  Nothing is
dropped, nothing is coerced, no entry overwrites another. -/
theorem copyBlock_ok_stores_everything (fuel id : Nat) (n : List Char) (tfs : TFields) (v v' : GV)
    (bt bn : Bytes) (fields : Fields)
    (h : copyBlock (fuel + 1) (.struct id n tfs) v (.mk bt bn fields) = .ok v') :
    (n = [] ∨ unsnakeEq n (chars bt) = true)
    ∧ (bn ≠ [] → ∃ f g, lookupField id tfs (taggedOf tfs 0 []) "Name".toList = some f ∧ f.hdr.exported = true
        ∧ assign (.str bn) f.ty = some g ∧ getPath v' f.index = .ok g)
    ∧ ∀ it ∈ Fields.items fields, ∃ f prev g,
        lookupField id tfs (taggedOf tfs 0 []) (chars it.key) = some f ∧ f.hdr.exported = true
        ∧ getPath v' f.index = .ok g ∧ it.Wrote (copyBlock fuel) f.ty prev g := by
  unfold copyBlock at h
  simp only at h
  split at h
  · simp at h
  · rename_i hname
    have hname' : n = [] ∨ unsnakeEq n (chars bt) = true := by
      cases n with
      | nil => exact .inl rfl
      | cons c cs =>
        right
        cases hu : unsnakeEq (c :: cs) (chars bt) with
        | true => rfl
        | false => simp [hu] at hname
    cases hs : setName id tfs (taggedOf tfs 0 []) v bn with
    | error o =>
      rw [hs] at h; simp only at h; subst h
      -- setName never fails with an `ok` outcome
      unfold setName at hs
      cases hl : lookupField id tfs (taggedOf tfs 0 []) "Name".toList with
      | none => rw [hl] at hs; simp only at hs; split at hs <;> simp at hs
      | some f =>
        rw [hl] at hs; simp only at hs
        split at hs
        · simp at hs
        · cases hg : getPath v f.index with
          | error e => rw [hg] at hs; cases e <;> simp at hs
          | ok old =>
            rw [hg] at hs; simp only at hs
            cases ha : assign (.str bn) f.ty <;> rw [ha] at hs <;> simp at hs
    | ok st =>
      rw [hs] at h; simp only at h
      obtain ⟨hN, hE⟩ := setName_ok_effect id tfs _ v bn st hs
      by_cases hbn : bn = []
      · have hk : Kept st [] := by intro pg hpg; simp at hpg
        obtain ⟨_, h2⟩ := setItems_ok_stores (copyBlock fuel) id tfs _ (sortedItems fields) st v' [] hk h
        exact ⟨hname', fun hne => absurd hbn hne, fun it hit => h2 it ((mem_sortedItems fields it).mpr hit)⟩
      · obtain ⟨f, g, hl, hex, ha, hk⟩ := hN hbn
        obtain ⟨h1, h2⟩ := setItems_ok_stores (copyBlock fuel) id tfs _ (sortedItems fields) st v' _ hk h
        exact ⟨hname', fun _ => ⟨f, g, hl, hex, ha, h1 (f.index, g) (by simp)⟩,
          fun it hit => h2 it ((mem_sortedItems fields it).mpr hit)⟩

/-! ## each way of not fitting is an error -/

/-- An entry with no counterpart, an unexported counterpart, a nil value, a value of
another type, or a nested block aimed at something that is not a struct stops the call
with an error. -/
theorem misfit_is_error (copy : Ty → GV → Block → Outcome) (id : Nat) (tfs : TFields)
    (tagged : List (List Char × Nat)) (st : BState) (k : Bytes) (x : Value) :
    (lookupField id tfs tagged (chars k) = none →
        setItem copy id tfs tagged st (.val k x) = .error (.err st.v (.notFound (cutDot (chars k)))))
    ∧ (∀ f, lookupField id tfs tagged (chars k) = some f → f.hdr.exported = false →
        setItem copy id tfs tagged st (.val k x) = .error (.err st.v .unexported))
    ∧ (∀ f, lookupField id tfs tagged (chars k) = some f → f.hdr.exported = true → x = .nil →
        setItem copy id tfs tagged st (.val k x) = .error (.err st.v .nilValue)) := by
  refine ⟨?_, ?_, ?_⟩
  · intro h; simp [setItem, Item.key, h]
  · intro f h he; simp [setItem, Item.key, h, he]
  · intro f h he hx; simp [setItem, Item.key, h, he, hx]

/-- A nested block aimed at a field that is not a struct is an error, never a panic. -/
theorem block_into_non_struct (fuel : Nat) (ty : Ty) (v : GV) (b : Block) (h : ∀ id n fs, ty ≠ .struct id n fs) :
    copyBlock (fuel + 1) ty v b = .err v .blockNotStruct := by
  cases b; unfold copyBlock; cases ty <;> simp_all

/-- A named struct type whose name does not match the block type is an error. -/
theorem type_name_mismatch (fuel id : Nat) (n : List Char) (tfs : TFields) (v : GV) (bt bn : Bytes) (fields : Fields)
    (hn : n ≠ []) (hm : unsnakeEq n (chars bt) = false) :
    copyBlock (fuel + 1) (.struct id n tfs) v (.mk bt bn fields) = .err v .typeName := by
  unfold copyBlock
  have : n.isEmpty = false := by cases n <;> simp_all
  simp [this, hm]

end Bclv.C15
