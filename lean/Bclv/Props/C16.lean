import Bclv.Proofs.Bind
/-!
# C16 — same input, same outcome

In the Lean models parsing, executing and binding are *functions*: `parseWhole`,
`execute`, `copyBlock`/`bind` have no hidden state, so repeating a call gives the same
result by construction; that these functions are what the implementation computes is what
the correspondence streams check on every run (and the `determinism`, `bindseq`, `detfile`
streams repeat real calls in one process, in fresh processes, under different `GOMAXPROCS`
and hash seeds).  What needs an argument is where the Go code consults something without
an order — the field map of a block:

* `bind_order_independent`: the outcome of binding a block (success or which error, and
  the target left behind) does not depend on the order in which the block's fields are
  enumerated.  The Go code gets this from `sort.Strings(fkeys)`; the theorem is about the
  model of that code, for every struct type, target and block.
* `Tie/Access.lean` (regenerated tables): no function reachable from `execute` assigns to
  a field of a `Prog`, and no function but `init` assigns to a package variable — calls
  made earlier in the process leave nothing behind that a later call reads.
-/
namespace Bclv.C16
open Bclv Bclv.Bind

theorem bind_order_independent (fuel : Nat) (ty : Ty) (v : GV) (bt bn : Bytes) (fs fs' : Fields)
    (hp : (Fields.items fs).Perm (Fields.items fs')) (hn : ((Fields.items fs).map Item.key).Nodup) :
    copyBlock fuel ty v (.mk bt bn fs) = copyBlock fuel ty v (.mk bt bn fs') :=
  copyBlock_order_independent fuel ty v bt bn fs fs' hp hn

/-- The first error wins deterministically: it is the error of the smallest key (in byte
order) whose entry does not fit. -/
theorem first_error_is_smallest_key (copy : Ty → GV → Block → Outcome) (id : Nat) (tfs : TFields)
    (tagged : List (List Char × Nat)) (it : Item) (rest : List Item) (st : BState) (o : Outcome)
    (h : setItem copy id tfs tagged st it = .error o) :
    setItems copy id tfs tagged (it :: rest) st = o := by
  unfold setItems; rw [h]

example : sortedItems (.val [98] (.int 1) (.val [97] (.int 2) .nil)) = sortedItems (.val [97] (.int 2) (.val [98] (.int 1) .nil)) := by
  rfl

end Bclv.C16
