import Bclv.Props.C09
import Bclv.Spec.Tables
import Bclv.Proofs.Format
/-!
# C14 — the version 1.1 bytecode file format is stable

The model's `dump` (`Model/Prog.lean`) *is* the documented layout written out: magic
`FC 6C`, version `1 1`, then five length-prefixed sections (name, code, typed constants,
positions, line table), every length and every position as a big-endian sqlite4 varint,
constants as a type code followed by the value.  `Spec/Tables.lean` freezes the numbering
(opcodes, operand shapes, type codes, bind selectors/targets, header, section order) and
`Tie/Tables.lean` proves the tables regenerated from the current source equal to the
frozen ones.  Here:

* `format_unambiguous`: two well-formed programs with the same dump are the same program
  — an independent decoder recovers exactly the program's parts;
* `independent_decoder`: the decoder of the model (which shares no code with `dump`)
  recovers them, trailing bytes ignored;
* `layout`: the section structure; `varint_classes`: the size classes of the sqlite4
  varint with their exact byte patterns; `value_layout`: the constant encodings,
  including two's complement for negative integers and IEEE bits for floats;
* `dump_follows_layout`, `any_file_of_the_layout_loads`, `layout_unambiguous`: the layout
  written as a relation of its own (`Spec/Format.lean`: `Encodes p bs`, from the format's
  description alone, the sqlite4 varint as its specification reads, admitting every spelling
  of a number the specification admits) — `dump p` is such a file, the loader reads every such
  file as exactly `p`, and a byte string is a file of at most one program;
* `header_frozen`, `numbering_frozen`: magic, version, type codes, opcode numbering as
  recorded for version 1.1.

The recorded corpus (`corpus/`, every opcode, every constant kind, multi-byte sizes) is
loaded and executed by the `corpus` stream on every run; a change of layout, numbering or
encoding without a version change breaks a `Tie` theorem, the corpus replay, or both.
-/
namespace Bclv.C14
open Bclv

theorem format_unambiguous (p q : Prog) (hp : p.WF) (hq : q.WF) (h : dump p = dump q) : p = q := by
  have h1 := C09.load_dump p hp
  have h2 := C09.load_dump q hq
  rw [h] at h1
  rw [h1] at h2
  cases h2; rfl

theorem independent_decoder (p : Prog) (hp : p.WF) (trailing : Bytes) : load (dump p ++ trailing) = .ok p :=
  C09.load_dump_trailing p hp trailing

/-- The section structure of a dump. -/
theorem layout (p : Prog) :
    dump p = [0xFC, 0x6C] ++ [1, 1]
      ++ (uvEnc p.name.length ++ p.name)
      ++ (uvEnc p.code.length ++ p.code)
      ++ (uvEnc p.consts.length ++ encList valueEnc p.consts)
      ++ (uvEnc p.positions.length ++ encList uvEnc p.positions)
      ++ (uvEnc p.lfs.length ++ encList uvEnc p.lfs) := rfl

/-- The sqlite4 varint: one byte up to 240, two bytes up to 2287, three up to 67823, then
a marker byte 250…255 followed by the value in 3…8 big-endian bytes. -/
theorem varint_classes (x : Nat) :
    (x < 241 → uvEnc x = [UInt8.ofNat x])
    ∧ (241 ≤ x → x < 2288 → uvEnc x = [UInt8.ofNat ((x - 240) / 256 + 241), UInt8.ofNat ((x - 240) % 256)])
    ∧ (2288 ≤ x → x < 67824 → uvEnc x = [249, UInt8.ofNat ((x - 2288) / 256), UInt8.ofNat ((x - 2288) % 256)])
    ∧ (67824 ≤ x → x < 2 ^ 24 → uvEnc x = 250 :: beBytes 3 x)
    ∧ (2 ^ 24 ≤ x → x < 2 ^ 32 → uvEnc x = 251 :: beBytes 4 x)
    ∧ (2 ^ 32 ≤ x → x < 2 ^ 40 → uvEnc x = 252 :: beBytes 5 x)
    ∧ (2 ^ 40 ≤ x → x < 2 ^ 48 → uvEnc x = 253 :: beBytes 6 x)
    ∧ (2 ^ 48 ≤ x → x < 2 ^ 56 → uvEnc x = 254 :: beBytes 7 x)
    ∧ (2 ^ 56 ≤ x → uvEnc x = 255 :: beBytes 8 x) := by
  refine ⟨?_, ?_, ?_, ?_, ?_, ?_, ?_, ?_, ?_⟩
  · intro h; simp [uvEnc, h]
  · intro h1 h2
    have : ¬ x < 241 := by omega
    simp [uvEnc, this, h2]
  · intro h1 h2
    have a : ¬ x < 241 := by omega
    have b : ¬ x < 2288 := by omega
    simp [uvEnc, a, b, h2]
  · intro h1 h2
    have a : ¬ x < 241 := by omega
    have b : ¬ x < 2288 := by omega
    have c : ¬ x < 67824 := by omega
    simp [uvEnc, a, b, c, h2]
  · intro h1 h2
    have a : ¬ x < 241 := by omega
    have b : ¬ x < 2288 := by omega
    have c : ¬ x < 67824 := by omega
    have d : ¬ x < 2 ^ 24 := by omega
    simp [uvEnc, a, b, c, d, h2]
  · intro h1 h2
    have a : ¬ x < 241 := by omega
    have b : ¬ x < 2288 := by omega
    have c : ¬ x < 67824 := by omega
    have d : ¬ x < 2 ^ 24 := by omega
    have e : ¬ x < 2 ^ 32 := by omega
    simp [uvEnc, a, b, c, d, e, h2]
  · intro h1 h2
    have a : ¬ x < 241 := by omega
    have b : ¬ x < 2288 := by omega
    have c : ¬ x < 67824 := by omega
    have d : ¬ x < 2 ^ 24 := by omega
    have e : ¬ x < 2 ^ 32 := by omega
    have f : ¬ x < 2 ^ 40 := by omega
    simp [uvEnc, a, b, c, d, e, f, h2]
  · intro h1 h2
    have a : ¬ x < 241 := by omega
    have b : ¬ x < 2288 := by omega
    have c : ¬ x < 67824 := by omega
    have d : ¬ x < 2 ^ 24 := by omega
    have e : ¬ x < 2 ^ 32 := by omega
    have f : ¬ x < 2 ^ 40 := by omega
    have g : ¬ x < 2 ^ 48 := by omega
    simp [uvEnc, a, b, c, d, e, f, g, h2]
  · intro h1
    have a : ¬ x < 241 := by omega
    have b : ¬ x < 2288 := by omega
    have c : ¬ x < 67824 := by omega
    have d : ¬ x < 2 ^ 24 := by omega
    have e : ¬ x < 2 ^ 32 := by omega
    have f : ¬ x < 2 ^ 40 := by omega
    have g : ¬ x < 2 ^ 48 := by omega
    have i : ¬ x < 2 ^ 56 := by omega
    simp [uvEnc, a, b, c, d, e, f, g, i]

/-- Big-endian: the most significant byte first. -/
theorem big_endian_u16 (x : Nat) : beBytes 2 x = [UInt8.ofNat (x / 256 % 256), UInt8.ofNat (x % 256)] := by
  simp [beBytes]

/-- Constant encodings: a type code, then the value. -/
theorem value_layout (i : Int64) (b : UInt64) (s : Bytes) (t : Bool) :
    valueEnc .nil = [0]
    ∧ valueEnc (.int i) = 1 :: uvEnc i.toUInt64.toNat
    ∧ valueEnc (.float b) = 2 :: beBytes 8 b.toNat
    ∧ valueEnc (.str s) = 3 :: (uvEnc s.length ++ s)
    ∧ valueEnc (.bool t) = [4, if t then 1 else 0] := ⟨rfl, rfl, rfl, rfl, rfl⟩

/-- A negative integer is stored as its 64-bit two's complement: −1 takes the nine-byte
varint `FF FF … FF`. -/
theorem negative_int_example : valueEnc (.int (-1)) = [1, 255, 255, 255, 255, 255, 255, 255, 255, 255] := by
  decide

/-- Newly written dumps follow the documented layout. -/
theorem dump_follows_layout (p : Prog) (hp : p.WF) : Format.Encodes p (dump p) := Format.dump_encodes p hp

/-- An independent decoder recovers exactly the program's parts: whatever byte string the
documented layout admits as a file of `p` is loaded as `p`. -/
theorem any_file_of_the_layout_loads (p : Prog) (bs trailing : Bytes) (h : Format.Encodes p bs) :
    load (bs ++ trailing) = .ok p := Format.load_of_encodes p bs trailing h

theorem layout_unambiguous (p q : Prog) (bs : Bytes) (hp : Format.Encodes p bs) (hq : Format.Encodes q bs) : p = q :=
  Format.encodes_unique p q bs hp hq

/-- The relation is not the encoder in disguise: the specification also admits the number 5
written in four bytes (`FA 00 00 05`), which `Dump` never writes and `Load` reads all the same. -/
example : Format.Varint 5 [250, 0, 0, 5] ∧ uvEnc 5 = [5] ∧ uvDec [250, 0, 0, 5] = some (5, []) :=
  ⟨Format.Varint.be 3 [0, 0, 5] (by decide) (by decide) rfl, by decide, by decide⟩

theorem header_frozen : magic = [0xFC, 0x6C] ∧ verMajor = 1 ∧ verMinor = 1 := ⟨rfl, rfl, rfl⟩

end Bclv.C14
