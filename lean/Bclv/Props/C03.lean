import Bclv.Proofs.SemInv
import Bclv.Proofs.CompileCorrect
/-!
# C03 — result blocks mirror the definitions in the source

The evaluator of `Spec/Sem.lean` is what the VM computes (`compileP_correct`, C01).
Here: what that evaluator does to the *result*.

* `toplevel_result`: running the toplevel statements of a program appends to the
  result exactly one block per toplevel `def`, in source order, carrying the declared
  type and name; nothing else ever touches the result.
* `nested_block_is_child`: a block closed inside another becomes an entry of its parent
  under `type` / `type.name`, or is the duplicate-child runtime error.
* `expr_never_touches_result`: expressions (hence variables) never change the result,
  the binding, the output or the log; fields are written only to the innermost block.
-/
namespace Bclv.C03
open Bclv

/-- The (type, name) constants of the `def` statements of a statement list, in order. -/
def headers : Stmts → List (Nat × Nat)
  | .nil => []
  | .cons (.block ti ni _ _ _ _) rest => (ti, ni) :: headers rest
  | .cons _ rest => headers rest

def headerOf (p : Prog) (h : Nat × Nat) : Option (Bytes × Bytes) :=
  match constStr p h.1, constStr p h.2 with
  | some t, some n => some (t, n)
  | _, _ => none

/-- One toplevel statement: a `def` appends exactly one block with its declared type
and name; every other statement leaves the result as it is. -/
theorem toplevel_stmt (p : Prog) (st : Stmt) (s s' : Sem) (hb : s.blocks = [])
    (h : evalS p st s = .ok s') :
    s'.blocks = [] ∧
    match st with
    | .block ti ni _ _ _ _ => ∃ b, s'.result = s.result ++ [b] ∧ headerOf p (ti, ni) = some (b.typ, b.name)
    | _ => s'.result = s.result := by
  have hp := evalS_pres p st s s' h
  have hbl : s'.blocks = [] := by
    have := hp.frames
    rw [hb] at this
    cases hs : s'.blocks with
    | nil => rfl
    | cons x xs => rw [hs] at this; simp [SameFrames] at this
  refine ⟨hbl, ?_⟩
  cases st with
  | block ti ni openPos body npop closePos =>
    simp only [evalS] at h
    split at h
    · cases h
    · split at h
      · rename_i t n hct hcn
        obtain ⟨s2, h12, h3⟩ := Res.bind_ok h
        obtain ⟨s1, h1, h2⟩ := Res.bind_ok h12
        have hbody := evalSs_pres p body _ s1 h1
        have hpop := popSem_ok h2
        have hfr : SameFrames (Block.mk t n .nil :: s.blocks) s2.blocks := hbody.frames.trans hpop.frames
        have hres : s2.result = s.result := by rw [hpop.result]; exact hbody.inner (by simp)
        rw [hb] at hfr
        cases hs2 : s2.blocks with
        | nil => rw [hs2] at hfr; simp [SameFrames] at hfr
        | cons top rest =>
          rw [hs2] at hfr
          simp only [SameFrames] at hfr
          obtain ⟨hrest, ht, hn⟩ := hfr
          rcases endBlockSem_ok h3 with ⟨b, hb1, _, hb3⟩ | ⟨child, parent, parent', rest', hb1, _, _, _, _⟩
          · rw [hs2] at hb1
            have hbt : b = top := by simpa using (List.cons.inj hb1).1.symm
            refine ⟨b, by rw [hb3, hres], ?_⟩
            simp only [headerOf, hct, hcn, hbt]
            have e1 : t = top.typ := ht
            have e2 : n = top.name := hn
            rw [e1, e2]
          · rw [hs2] at hb1
            have : rest = parent :: rest' := (List.cons.inj hb1).2
            rw [← hrest] at this
            cases this
      · cases h
  | var init pos => exact hp.ext.elim (fun e he => by
      have := hp; cases init <;> simp only [evalS] at h
      · exact (pushV_ok h).1.result
      · exact (evalE_pres p _ s s' h).1.result)
  | print e pos =>
    simp only [evalS] at h
    obtain ⟨s1, h1, h2⟩ := Res.bind_ok h
    have a := (evalE_pres p e s s1 h1).1.result
    unfold printSem at h2
    split at h2
    · cases h2; exact a
    · cases h2
  | eval e pos =>
    simp only [evalS] at h
    obtain ⟨s1, h1, h2⟩ := Res.bind_ok h
    exact ((popSem_ok h2).result).trans (evalE_pres p e s s1 h1).1.result
  | bind ti opt pos =>
    simp only [evalS] at h
    exact (bindSem_ok h).2.1
  | bad => simp [evalS] at h

/-- A whole statement list at toplevel: the result grows by one block per `def`, in
source order, with the declared types and names. -/
theorem toplevel_result (p : Prog) : ∀ (ss : Stmts) (s s' : Sem), s.blocks = [] → evalSs p ss s = .ok s' →
    s'.blocks = [] ∧ ∃ bs, s'.result = s.result ++ bs
      ∧ bs.map (fun b => some (b.typ, b.name)) = (headers ss).map (headerOf p)
  | .nil, s, s', hb, h => by
    simp only [evalSs] at h; cases h; exact ⟨hb, [], by simp, rfl⟩
  | .cons st rest, s, s', hb, h => by
    simp only [evalSs] at h
    obtain ⟨s1, h1, h2⟩ := Res.bind_ok h
    obtain ⟨hb1, hst⟩ := toplevel_stmt p st s s1 hb h1
    obtain ⟨hb', bs, hres, hmap⟩ := toplevel_result p rest s1 s' hb1 h2
    refine ⟨hb', ?_⟩
    cases st with
    | block ti ni o body np c =>
      obtain ⟨b, hr1, hh⟩ := hst
      exact ⟨b :: bs, by rw [hres, hr1]; simp, by simp [headers, hmap, hh]⟩
    | var init pos => exact ⟨bs, by rw [hres, hst], by simpa [headers] using hmap⟩
    | print e pos => exact ⟨bs, by rw [hres, hst], by simpa [headers] using hmap⟩
    | eval e pos => exact ⟨bs, by rw [hres, hst], by simpa [headers] using hmap⟩
    | bind ti opt pos => exact ⟨bs, by rw [hres, hst], by simpa [headers] using hmap⟩
    | bad => exact ⟨bs, by rw [hres, hst], by simpa [headers] using hmap⟩

/-- Closing a nested block attaches it to its parent under its key, or is the
duplicate-child runtime error; a toplevel block goes to the result. -/
theorem nested_block_is_child (pos : Nat) (s : Sem) (child parent : Block) (rest : List Block)
    (hb : s.blocks = child :: parent :: rest) :
    (parent.fields.get child.key = .none →
      endBlockSem pos s = .ok { s with blocks := .mk parent.typ parent.name (parent.fields.addChild child.key child) :: rest })
    ∧ (parent.fields.get child.key ≠ .none →
      endBlockSem pos s = .err pos (str "child " ++ child.key ++ str " duplicate at parent")) := by
  constructor
  · intro h; simp [endBlockSem, hb, h]
  · intro h
    simp [endBlockSem, hb]

/-- The key of a child is `type`, or `type.name` when it has a name. -/
theorem child_key (b : Block) : b.key = if b.name.isEmpty then b.typ else b.typ ++ str "." ++ b.name := rfl

/-- Expressions never touch the result, the binding, the output or the log, and write
fields only into the innermost block (whose type and name stay). -/
theorem expr_never_touches_result (p : Prog) (e : Expr) (s s' : Sem) (h : evalE p e s = .ok s') :
    s'.result = s.result ∧ s'.binding = s.binding ∧ s'.out = s.out ∧ s'.log = s.log
    ∧ SameFrames s.blocks s'.blocks :=
  let ⟨hp, _⟩ := evalE_pres p e s s' h
  ⟨hp.result, hp.binding, hp.out, hp.log, hp.frames⟩

/-- `TYPE` and `NAME` read the innermost block's type and name. -/
theorem type_name (b : Block) (rest : List Block) :
    blockGet kwTYPE (b :: rest) = some (.str b.typ) ∧ blockGet kwNAME (b :: rest) = some (.str b.name) := by
  constructor
  · simp [blockGet]
  · have : kwNAME ≠ kwTYPE := by decide
    simp [blockGet, this]

end Bclv.C03
