import Bclv.Model.Args
import Bclv.Props.C09
/-!
# C18 — the command-line tool mirrors the library (the argument parser)

Proved about the model of `parseArgs` (compared with the real binary's parsed record
by the `argsdiff` stream, and end to end by the `cli` stream):

* `args_cluster`: a cluster `-abc` of lowercase letters means `-a -b -c` in place;
* `args_perm_invariant`: for argument vectors made of the documented flags and file
  operands (no `--`, no `-h`), whose valued `--bdump=`/`--bload=` occurrences agree,
  the outcome — parsed record or usage error — is the same for every permutation:
  flags may come in any order, before or after the file;
* `exit_code`: 2 exactly after a usage error, 0 for help, otherwise 1 iff the run failed.

* `bdump_then_bload`: the file `--bdump` writes — the writes `Dump` hands to the file through its
  4096-byte buffered writer — read back by `--bload` through the buffered reader, in whatever
  non-empty pieces the file system delivers it, is the same program; executing and disassembling
  are functions of the program, so output, trace, result and error of the two runs coincide.

Process exit, stream separation and the file system are not modelled: that part of
the property rests on the end-to-end `cli` stream.
-/
namespace Bclv.C18
open Bclv.Args

/-! ## clusters -/

def alphabet : List Char := a "abcdefghijklmnopqrstuvwxyz"

/-- A single-letter flag `-c` has the effect `applyLetter c`. -/
theorem single_letter (c : Char) (hc : c ∈ alphabet) (args : List Arg) (st : St) :
    loop (['-', c] :: args) st = match applyLetter c st with
      | .go st' => loop args st'
      | r => r := by
  have key : ∀ c ∈ alphabet,
      (c = 'h' ∧ classify ['-', c] = .help) ∨ (c = 'd' ∧ classify ['-', c] = .disasm)
      ∨ (c = 't' ∧ classify ['-', c] = .trace) ∨ (c = 'r' ∧ classify ['-', c] = .result)
      ∨ (c = 's' ∧ classify ['-', c] = .stats)
      ∨ (c ≠ 'h' ∧ c ≠ 'd' ∧ c ≠ 't' ∧ c ≠ 'r' ∧ c ≠ 's' ∧ classify ['-', c] = .badFlag) := by decide
  rcases key c hc with ⟨rfl, h⟩ | ⟨rfl, h⟩ | ⟨rfl, h⟩ | ⟨rfl, h⟩ | ⟨rfl, h⟩ | ⟨h1, h2, h3, h4, h5, h⟩
  all_goals simp only [loop, h, applyLetter]
  all_goals first | rfl | simp [*]

theorem letters_as_args (letters : List Char) (hl : ∀ c ∈ letters, c ∈ alphabet) (args : List Arg) (st : St) :
    loop (letters.map (fun c => ['-', c]) ++ args) st = match applyLetters letters st with
      | .go st' => loop args st'
      | r => r := by
  induction letters generalizing st with
  | nil => rfl
  | cons c cs ih =>
    simp only [List.map_cons, List.cons_append, applyLetters]
    rw [single_letter c (hl c (by simp))]
    cases h : applyLetter c st with
    | go st' => simp only; exact ih (fun x hx => hl x (by simp [hx])) st'
    | help st' => rfl
    | err e => rfl

theorem alphabet_lower : ∀ c ∈ alphabet, isLower c = true ∧ c ≠ '-' ∧ c ≠ 'h' ∨ c = 'h' := by decide

theorem alphabet_props : ∀ c ∈ alphabet, isLower c = true ∧ c ≠ '-' := by decide

/-- A word `-c₁c₂…` of at least two lowercase letters is classified as a cluster. -/
theorem classify_cluster (c1 c2 : Char) (rest : List Char)
    (hl : ∀ c ∈ c1 :: c2 :: rest, c ∈ alphabet) :
    classify ('-' :: c1 :: c2 :: rest) = .cluster (c1 :: c2 :: rest) := by
  have h1 := alphabet_props c1 (hl c1 (by simp))
  have hall : (c1 :: c2 :: rest).all isLower = true := by
    rw [List.all_eq_true]
    intro c hc
    exact (alphabet_props c (hl c hc)).1
  have e1 : a "-h" = ['-', 'h'] := by decide
  have e2 : a "-d" = ['-', 'd'] := by decide
  have e3 : a "-t" = ['-', 't'] := by decide
  have e4 : a "-r" = ['-', 'r'] := by decide
  have e5 : a "-s" = ['-', 's'] := by decide
  have e6 : a "--disasm" = '-' :: '-' :: a "disasm" := by decide
  have e7 : a "--trace" = '-' :: '-' :: a "trace" := by decide
  have e8 : a "--result" = '-' :: '-' :: a "result" := by decide
  have e9 : a "--stats" = '-' :: '-' :: a "stats" := by decide
  have e10 : a "--bdump" = '-' :: '-' :: a "bdump" := by decide
  have e11 : a "--bload" = '-' :: '-' :: a "bload" := by decide
  have e12 : a "--" = ['-', '-'] := by decide
  unfold classify
  simp only [e1, e2, e3, e4, e5, e6, e7, e8, e9, e10, e11, e12, List.cons.injEq, List.isPrefixOf, h1.2,
    false_and, and_false, if_false, Bool.false_or, Bool.or_self, decide_false, decide_eq_true_eq, reduceCtorEq,
    Bool.false_and, Bool.and_false]
  have hne : ¬ ('-' = c1) := fun h => h1.2 h.symm
  simp [hall, hne]

/-- **Clusters.**  `-abc…` of lowercase letters is equivalent to `-a -b -c …` in its
place — anywhere before a `--` terminator (after `--` every argument is a file
operand, clusters included). -/
theorem args_cluster (pre post : List Arg) (c1 c2 : Char) (rest : List Char)
    (hl : ∀ c ∈ c1 :: c2 :: rest, c ∈ alphabet) (hpre : ∀ x ∈ pre, classify x ≠ .ddash) :
    parseArgs (pre ++ ('-' :: c1 :: c2 :: rest) :: post)
      = parseArgs (pre ++ (c1 :: c2 :: rest).map (fun c => ['-', c]) ++ post) := by
  have main : ∀ (pre : List Arg), (∀ x ∈ pre, classify x ≠ .ddash) → ∀ (st : St),
      loop (pre ++ ('-' :: c1 :: c2 :: rest) :: post) st
        = loop (pre ++ (c1 :: c2 :: rest).map (fun c => ['-', c]) ++ post) st := by
    intro pre
    induction pre with
    | nil =>
      intro _ st
      simp only [List.nil_append]
      rw [letters_as_args _ hl]
      simp only [loop, classify_cluster c1 c2 rest hl]
      first | done | rfl | (split <;> rfl)
    | cons x xs ih =>
      intro hp st
      have ih' := ih (fun y hy => hp y (by simp [hy]))
      have hx := hp x (by simp)
      simp only [List.cons_append, loop]
      cases hc : classify x with
      | ddash => exact absurd hc hx
      | bdump f => cases f <;> simp only [ih']
      | bload f => cases f <;> simp only [ih']
      | cluster ls => simp only; split <;> simp_all
      | _ => simp only [ih']
  unfold parseArgs
  rw [main pre hpre]

/-! ## order independence -/

/-- Arguments that are plain flags or file operands (no `-h`, `--`, unknown flag; a
cluster can be expanded first by `args_cluster`). -/
def Plain (x : Arg) : Prop :=
  match classify x with
  | .disasm | .trace | .result | .stats | .bdump _ | .bload _ | .operand _ => True
  | _ => False

def stepPlain (x : Arg) (st : St) : St :=
  match classify x with
  | .disasm => { st with p := { st.p with disasm := true } }
  | .trace => { st with p := { st.p with trace := true } }
  | .result => { st with p := { st.p with result := true } }
  | .stats => { st with p := { st.p with stats := true } }
  | .bdump none => { st with p := { st.p with bdump := true } }
  | .bdump (some f) => { st with p := { st.p with bdump := true, bdumpFile := f } }
  | .bload none => { st with p := { st.p with bload := true } }
  | .bload (some f) => { st with p := { st.p with bload := true, bloadFile := f } }
  | .operand s => { st with rest := st.rest ++ [s] }
  | _ => st

theorem loop_plain (args : List Arg) (h : ∀ x ∈ args, Plain x) (st : St) :
    loop args st = .go (args.foldl (fun s x => stepPlain x s) st) := by
  induction args generalizing st with
  | nil => rfl
  | cons x xs ih =>
    have hx := h x (by simp)
    have ih' := fun st => ih (fun y hy => h y (by simp [hy])) st
    unfold Plain at hx
    cases hc : classify x with
    | bdump f => cases f <;> simp only [loop, List.foldl_cons, stepPlain, hc, ih']
    | bload f => cases f <;> simp only [loop, List.foldl_cons, stepPlain, hc, ih']
    | help => rw [hc] at hx; exact hx.elim
    | badFlag => rw [hc] at hx; exact hx.elim
    | ddash => rw [hc] at hx; exact hx.elim
    | cluster l => rw [hc] at hx; exact hx.elim
    | _ => simp only [loop, List.foldl_cons, stepPlain, hc, ih']

def isTok (t : Tok) (x : Arg) : Bool := decide (classify x = t)
def isBdump (x : Arg) : Bool := match classify x with | .bdump _ => true | _ => false
def isBload (x : Arg) : Bool := match classify x with | .bload _ => true | _ => false
def bdumpVal (x : Arg) : Option Arg := match classify x with | .bdump (some f) => some f | _ => none
def bloadVal (x : Arg) : Option Arg := match classify x with | .bload (some f) => some f | _ => none
def operandOf (x : Arg) : Option Arg := match classify x with | .operand s => some s | _ => none

/-- The state after a plain vector, field by field, as functions of *which* arguments
occur: flags by presence, operands in order, a valued flag by its last occurrence. -/
theorem fold_fields (args : List Arg) (st : St) :
    let r := args.foldl (fun s x => stepPlain x s) st
    r.p.disasm = (st.p.disasm || args.any (isTok .disasm))
    ∧ r.p.trace = (st.p.trace || args.any (isTok .trace))
    ∧ r.p.result = (st.p.result || args.any (isTok .result))
    ∧ r.p.stats = (st.p.stats || args.any (isTok .stats))
    ∧ r.p.bdump = (st.p.bdump || args.any isBdump)
    ∧ r.p.bload = (st.p.bload || args.any isBload)
    ∧ r.p.bdumpFile = ((args.filterMap bdumpVal).getLast?.getD st.p.bdumpFile)
    ∧ r.p.bloadFile = ((args.filterMap bloadVal).getLast?.getD st.p.bloadFile)
    ∧ r.p.file = st.p.file
    ∧ r.rest = st.rest ++ args.filterMap operandOf := by
  induction args generalizing st with
  | nil => simp
  | cons x xs ih =>
    simp only [List.foldl_cons]
    have := ih (stepPlain x st)
    simp only at this
    obtain ⟨h1, h2, h3, h4, h5, h6, h7, h8, h9, h10⟩ := this
    rw [h1, h2, h3, h4, h5, h6, h7, h8, h9, h10]
    unfold stepPlain
    cases hc : classify x with
    | bdump f =>
      cases f <;> simp +decide [isTok, isBdump, isBload, bdumpVal, bloadVal, operandOf, hc, List.getLast?_cons]
    | bload f =>
      cases f <;> simp +decide [isTok, isBdump, isBload, bdumpVal, bloadVal, operandOf, hc, List.getLast?_cons]
    | _ => simp +decide [isTok, isBdump, isBload, bdumpVal, bloadVal, operandOf, hc]

theorem getLast_const {α} (l : List α) (v : α) (h : ∀ x ∈ l, x = v) (hne : l ≠ []) : l.getLast? = some v := by
  induction l with
  | nil => exact absurd rfl hne
  | cons x xs ih =>
    cases xs with
    | nil => simp [h x (by simp)]
    | cons y ys =>
      rw [List.getLast?_cons_cons]
      exact ih (fun z hz => h z (by simp [hz])) (by simp)

/-- The last element of a list whose elements are all equal does not depend on the order. -/
theorem getLast_perm_const {α} (l1 l2 : List α) (hp : l1.Perm l2) (v : α) (h : ∀ x ∈ l1, x = v) :
    l1.getLast? = l2.getLast? := by
  by_cases hne : l1 = []
  · subst hne; have := (List.Perm.nil_eq hp).symm; subst this; rfl
  · have hne2 : l2 ≠ [] := fun h2 => hne (by subst h2; exact hp.eq_nil)
    rw [getLast_const l1 v h hne, getLast_const l2 v (fun x hx => h x (hp.symm.mem_iff.mp hx)) hne2]

theorem finish_perm (p : Parsed) (r1 r2 : List Arg) (hp : r1.Perm r2) : finish ⟨p, r1⟩ = finish ⟨p, r2⟩ := by
  match r1, r2, hp with
  | [], r2, hp => have := (List.Perm.nil_eq hp).symm; subst this; rfl
  | [x], r2, hp => have := (List.singleton_perm.mp hp).symm; subst this; rfl
  | x :: y :: zs, r2, hp =>
    have hl := hp.length_eq
    match r2, hl with
    | u :: v :: ws, _ => simp [finish]

/-- **Flags may come in any order, before or after the file.**  For vectors of plain
flags and file operands in which every valued `--bdump=` names the same file, and
likewise `--bload=`, the outcome — the parsed record or the usage error — is the same
for every permutation of the vector. -/
theorem args_perm_invariant (args args' : List Arg) (hperm : args.Perm args')
    (hplain : ∀ x ∈ args, Plain x)
    (vd : Arg) (hd : ∀ f ∈ args.filterMap bdumpVal, f = vd)
    (vl : Arg) (hl : ∀ f ∈ args.filterMap bloadVal, f = vl) :
    parseArgs args = parseArgs args' := by
  have hplain' : ∀ x ∈ args', Plain x := fun x hx => hplain x (hperm.symm.mem_iff.mp hx)
  unfold parseArgs
  rw [loop_plain args hplain, loop_plain args' hplain']
  simp only
  obtain ⟨a1, a2, a3, a4, a5, a6, a7, a8, a9, a10⟩ := fold_fields args {}
  obtain ⟨b1, b2, b3, b4, b5, b6, b7, b8, b9, b10⟩ := fold_fields args' {}
  simp only at a1 a2 a3 a4 a5 a6 a7 a8 a9 a10 b1 b2 b3 b4 b5 b6 b7 b8 b9 b10
  have e1 : ∀ f : Arg → Bool, args.any f = args'.any f := fun f => hperm.any_eq
  have ed := getLast_perm_const _ _ (hperm.filterMap bdumpVal) vd hd
  have el := getLast_perm_const _ _ (hperm.filterMap bloadVal) vl hl
  have hr : (args.foldl (fun s x => stepPlain x s) ({} : St)).rest.Perm (args'.foldl (fun s x => stepPlain x s) ({} : St)).rest := by
    rw [a10, b10]
    exact (hperm.filterMap operandOf).append_left _
  cases hs : args.foldl (fun s x => stepPlain x s) ({} : St) with
  | mk p1 r1 =>
    cases hs' : args'.foldl (fun s x => stepPlain x s) ({} : St) with
    | mk p2 r2 =>
      rw [hs, hs'] at hr
      simp only [hs, hs'] at a1 a2 a3 a4 a5 a6 a7 a8 a9 b1 b2 b3 b4 b5 b6 b7 b8 b9
      have hp : p1 = p2 := by
        cases p1; cases p2
        simp only [Parsed.mk.injEq]
        simp only at a1 a2 a3 a4 a5 a6 a7 a8 a9 b1 b2 b3 b4 b5 b6 b7 b8 b9
        refine ⟨?_, ?_, ?_, ?_, ?_, ?_, ?_, ?_, ?_⟩
        · rw [a9, b9]
        · rw [a1, b1, e1]
        · rw [a2, b2, e1]
        · rw [a3, b3, e1]
        · rw [a4, b4, e1]
        · rw [a5, b5, e1]
        · rw [a6, b6, e1]
        · rw [a7, b7, ed]
        · rw [a8, b8, el]
      subst hp
      exact finish_perm p1 r1 r2 hr

/-! ## exit status -/

theorem exit_code (o : Outcome) (failed : Bool) :
    (exitCode o failed = 2 ↔ ∃ k, o = .usage k)
    ∧ ((∃ p, o = .help p) → exitCode o failed = 0)
    ∧ (∀ p, o = .ok p → exitCode o failed = if failed then 1 else 0) := by
  cases o <;> cases failed <;> simp [exitCode]

/-! ## concrete instances (non-vacuity, and the rules of `--bdump`/`--bload`) -/

example : parseArgs [a "-dt", a "f.bcl", a "--bdump"] = parseArgs [a "f.bcl", a "-t", a "--bdump", a "-d"] := by decide
example : parseArgs [a "--bdump", a "prog.bcl"] =
    .ok { file := a "prog.bcl", bdump := true, bdumpFile := a "prog.bcb" } := by decide
example : parseArgs [a "--bdump"] = .usage "--bdump requires knowing BFILE name" := by decide
example : parseArgs [a "--bload=x.bcb", a "y.bcb"] = .usage "conflicting BFILE and FILE" := by decide
example : parseArgs [a "--bload=x.bcb"] = .ok { file := a "x.bcb", bload := true, bloadFile := a "x.bcb" } := by decide
example : parseArgs [a "a", a "b"] = .usage "too many file args" := by decide
example : parseArgs [] = .ok { file := a "-" } := by decide
example : parseArgs [a "--", a "-d"] = .ok { file := a "-d" } := by decide
example : parseArgs [a "-x"] = .usage "unknown flag" := by decide

/-! ## `--bdump` then `--bload` -/

/-- The bytecode file written by `--bdump` and read back by `--bload` is the same program, and runs
the same: for every program the parser can build, every way the written file is delivered to the
reader, every trace setting and step budget. -/
theorem bdump_then_bload (p : Bclv.Prog) (h : p.WF) :
    ∃ file, Bclv.Buf.dumpW p = some file ∧
      ∀ chunks : List Bclv.Bytes, (∀ c ∈ chunks, c ≠ []) → chunks.flatten = file.flatten →
        Bclv.Buf.loadR chunks = .ok p
        ∧ ∀ q, Bclv.Buf.loadR chunks = .ok q → ∀ trace fuel,
            Bclv.execute q trace fuel = Bclv.execute p trace fuel ∧ Bclv.disasm q = Bclv.disasm p := by
  obtain ⟨w, e, hcat, _⟩ := Bclv.C09.dump_through_writer p
  refine ⟨w, e, fun chunks hc hf => ?_⟩
  have hl := Bclv.C09.load_dump_chunked p h chunks hc (by rw [hf, hcat])
  refine ⟨hl, fun q hq trace fuel => ?_⟩
  rw [hl] at hq
  cases hq
  exact ⟨rfl, rfl⟩

end Bclv.C18
