import Bclv.Proofs.Verifier
/-!
# C10 — compiled bytecode is well-formed along every path

`verify` is an executable bytecode verifier (exact tiling from offset 0, every
operand in range and of the required kind, local slots below the operand depth,
jump targets on instruction boundaries, one operand depth and one block depth per
boundary along all paths into it, zero/zero and end-of-code at `RET`).
`wf_sound` proves that an accepted program can never make the VM read outside its
code, constants or stack, fail a type assertion, or end in the "non-empty stack"
internal error — for every path, including the operand a given run skips, because
the check is over the map, not over one execution.

The link to the *compiler* is by translation validation: the harness runs this
verified verifier on the real dump of every program the implementation compiles
(stream `wf`); `compile_wf` for the model's own compiler is future work and is not
claimed.
-/
namespace Bclv.C10
open Bclv

/-- Soundness of the verifier, for every execution length. -/
theorem wf_sound (p : Prog) (v : VerifyOk) (h : verify p = some v) (n : Nat) :
    match execute p false n with
    | .panic _ => False
    | .done _ hlt => ∀ t, hlt ≠ .internal t
    | .timeout _ => True := by
  obtain ⟨m, hc⟩ := verify_checkMap h
  have := run_safe hc n {} (checkMap_init hc)
  unfold execute
  cases hr : vmRun p false n {} with
  | panic vm => simp [hr] at this
  | done vm hl => simpa [hr] using this
  | timeout vm => trivial

/-- The depths the verifier assigns are the depths at run time: after any number of
steps the machine is at a boundary of the map with exactly the assigned depths. -/
theorem wf_depths (p : Prog) (m : DepthMap) (hc : checkMap p m = true) (n : Nat) :
    match vmRun p false n {} with
    | .timeout vm => m.lookup vm.pc = some ⟨vm.stack.length, vm.blocks.length⟩
    | _ => True := by
  have := run_safe hc n {} (checkMap_init hc)
  cases hr : vmRun p false n {} with
  | panic vm => trivial
  | done vm hl => trivial
  | timeout vm => simpa [hr, Inv] using this

/-- Non-vacuity: a program with a short-circuit jump is accepted by the verifier. -/
def sample : Prog :=
  -- print 1 and 2   →  ONE; JFALSE +2; POP; CONST 0; PRINT; RET
  { name := [], code := [12, 27, 0, 3, 28, 9, 0, 2, 1], consts := [.int 2],
    positions := [7, 11, 11, 11, 11, 13, 13, 13, 13], lfs := [] }

example : (verify sample).isSome = true := by decide

end Bclv.C10
