import Bclv.Proofs.Verifier
import Bclv.Proofs.CompileWf3
import Bclv.Proofs.ParserFuel5
/-!
# C10 — compiled bytecode is well-formed along every path

`verify` is an executable bytecode verifier (exact tiling from offset 0, every
operand in range and of the required kind, local slots below the operand depth,
jump targets on instruction boundaries, one operand depth and one block depth per
boundary along all paths into it, zero/zero and end-of-code at `RET`).
`wf_sound` proves that an accepted program can never make the VM read outside its
code, constants or stack, fail a type assertion, or end in the "non-empty stack"
internal error — for every path, including the operand a given run skips, because
the check is over the map, not over one execution.

`compile_wf` proves the property for the model's compiler: **for every source text the
parser model accepts, the compiled program passes the checker** — with an explicit depth
map (`mapP`: one entry per instruction boundary, written down by recursion over the tree)
whose every entry is shown to decode, to have its operands in range and of the right kind,
and to flow into entries carrying the resulting depths; this covers the operand a run
would skip (`and`/`or` jump over it, its boundaries are in the map all the same).  It
rests on `parse_scoped` (the parser builds well-scoped trees) and `front_end_budgets`.

The link to the *Go* compiler is by translation validation: the harness runs the verified
checker on the real dump of every program the implementation compiles (stream `wf`), and
the model's instruction bytes are compared with the implementation's on every generated
program.
-/
namespace Bclv.C10
open Bclv

/-- **Compiled bytecode is well-formed along every path**: whatever source text the parser
model accepts, there is a depth map for the compiled program that passes the local check
at every instruction boundary (reachable in a given run or not). -/
theorem compile_wf (name input : Bytes)
    (hok : (parseTokens (lexWhole input) (newlinesFrom 0 input)).ok = true)
    (hK : (parseTokens (lexWhole input) (newlinesFrom 0 input)).consts.length < 2 ^ 64) :
    ∃ m, checkMap (parseWhole name input).prog m = true := by
  obtain ⟨hcode, hpos, hconsts⟩ := C01.parsed_is_compiled name input hok
  have hscp := parse_scoped _ _ hok (front_end_budgets input).2
  exact ⟨mapP _, compileP_wf _ _ (by rw [hconsts]; exact hK) hcode hpos (by rw [hconsts]; exact hscp)⟩

/-- …and therefore never makes the machine panic, at any step budget (the static route to
what `accepted_source_runs` shows through the evaluator). -/
theorem accepted_never_panics (name input : Bytes)
    (hok : (parseTokens (lexWhole input) (newlinesFrom 0 input)).ok = true)
    (hK : (parseTokens (lexWhole input) (newlinesFrom 0 input)).consts.length < 2 ^ 64) (n : Nat) :
    match execute (parseWhole name input).prog false n with
    | .panic _ => False
    | .done _ hlt => ∀ t, hlt ≠ .internal t
    | .timeout _ => True := by
  obtain ⟨m, hc⟩ := compile_wf name input hok hK
  have := run_safe hc n {} (checkMap_init hc)
  unfold execute
  cases hr : vmRun (parseWhole name input).prog false n {} with
  | panic vm => simp [hr] at this
  | done vm hl => simpa [hr] using this
  | timeout vm => trivial

/-- Soundness of the verifier, for every execution length. -/
theorem wf_sound (p : Prog) (v : VerifyOk) (h : verify p = some v) (n : Nat) :
    match execute p false n with
    | .panic _ => False
    | .done _ hlt => ∀ t, hlt ≠ .internal t
    | .timeout _ => True := by
  obtain ⟨m, hc⟩ := verify_checkMap h
  have := run_safe hc n {} (checkMap_init hc)
  unfold execute
  cases hr : vmRun p false n {} with
  | panic vm => simp [hr] at this
  | done vm hl => simpa [hr] using this
  | timeout vm => trivial

/-- The depths the verifier assigns are the depths at run time: after any number of
steps the machine is at a boundary of the map with exactly the assigned depths. -/
theorem wf_depths (p : Prog) (m : DepthMap) (hc : checkMap p m = true) (n : Nat) :
    match vmRun p false n {} with
    | .timeout vm => m.lookup vm.pc = some ⟨vm.stack.length, vm.blocks.length⟩
    | _ => True := by
  have := run_safe hc n {} (checkMap_init hc)
  cases hr : vmRun p false n {} with
  | panic vm => trivial
  | done vm hl => trivial
  | timeout vm => simpa [hr, Inv] using this

/-- Non-vacuity: a program with a short-circuit jump is accepted by the verifier. -/
def sample : Prog :=
  -- print 1 and 2   →  ONE; JFALSE +2; POP; CONST 0; PRINT; RET
  { name := [], code := [12, 27, 0, 3, 28, 9, 0, 2, 1], consts := [.int 2],
    positions := [7, 11, 11, 11, 11, 13, 13, 13, 13], lfs := [] }

example : (verify sample).isSome = true := by decide

end Bclv.C10
