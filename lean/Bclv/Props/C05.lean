import Bclv.Proofs.BindRT
import Bclv.Proofs.BindNest3
import Bclv.Props.C15
/-!
# C05 — Unmarshal reproduces configuration values in Go structs

`Unmarshal` = `Interpret` then `Bind`.  The interpreter half is C01–C04 (the evaluator the
VM is proved to compute builds the blocks the source defines, with the values written).
This file is the binder half, on the model of `Model/Bind.lean`:

* `roundtrip_flat` (from `Proofs/BindRT.lean`): binding a block whose entries spell distinct
  exported fields of a flat struct with values of those fields' types succeeds and leaves
  exactly those values in those fields, every other field untouched — for every such
  struct type, every value, every admitted spelling, every order of the entries;
* `roundtrip_nested` (from `Proofs/BindNest1…3`): the round trip at the strength of the
  property.  `famTy` is the family of shapes (exported fields of the four basic kinds or of
  struct types of the family again; no embedded fields, no tags, no two names alike under the
  rule); `Renders n ty g blk` says that the block writes down the value `g` — every field
  exactly once, in any order and any admitted spelling, a struct field as a child block that
  renders the field's value, the block's name being the value of the field the rule takes for
  `Name`.  Binding such a block onto *any* target of the type succeeds and leaves exactly `g`
  (so the result is deeply equal to the value written down, whatever the target held);
  `roundtrip_slice`: a slice target gets one element per block, in order, each exactly the
  rendered value, the previous elements discarded;
* `roundtrip_entries`: the same for arbitrary struct types (tags, embedded structs, …)
  stated on what the field lookup returns;
* `matching_rule`: a key matches a field name iff they are equal ignoring case and
  underscores (on both sides); `tag_takes_precedence`: a `bcl` tag equal to the key wins
  over the name rule;
* `slice_replaces`: a slice target is replaced by exactly one element per block, in order.
-/
namespace Bclv.C05
open Bclv Bclv.Bind

/-- The matching rule is an equivalence "equal ignoring case and underscores". -/
theorem matching_rule (s k : List Char) :
    unsnakeEq s k = ((s.filter (· != '_')).map foldChar == (k.filter (· != '_')).map foldChar) := rfl

theorem matching_rule_symm (s k : List Char) : unsnakeEq s k = unsnakeEq k s := by
  unfold unsnakeEq
  cases h : (unsnake s == unsnake k) <;> cases h' : (unsnake k == unsnake s) <;> simp_all

theorem matching_ignores_underscores (s k : List Char) :
    unsnakeEq ('_' :: s) k = unsnakeEq s k ∧ unsnakeEq s ('_' :: k) = unsnakeEq s k := by
  simp [unsnakeEq, unsnake]

/-- ASCII case does not matter. -/
theorem matching_ignores_case : unsnakeEq "Max_Conn".toList "maxconn".toList = true
    ∧ unsnakeEq "MaxConn".toList "MAX_CONN".toList = true
    ∧ unsnakeEq "MaxConn".toList "max_con".toList = false := by decide

/-- A `bcl` tag equal to the key takes precedence over the name rule: the tagged field
is the one found, whatever other field the name rule would have picked. -/
theorem tag_takes_precedence (id : Nat) (fs : TFields) (tagged : List (List Char × Nat)) (key : List Char) (i : Nat)
    (h : FieldHdr) (t : Ty) (hne : tagged ≠ []) (ht : tagged.lookup key = some i) (hg : fs.get? i = some (h, t)) :
    lookupField id fs tagged key = some ⟨[i], h, t⟩ := by
  unfold lookupField
  have : tagged.isEmpty = false := by cases tagged <;> simp_all
  simp [this, ht, hg]

theorem blocksToSlice_error_not_ok (copy : Ty → GV → Block → Outcome) (elem : Ty) :
    ∀ (bs : List Block) (acc : List GV) (v : GV), blocksToSlice copy elem bs acc ≠ .error (.ok v)
  | [], acc, v => by simp [blocksToSlice]
  | b :: rest, acc, v => by
    unfold blocksToSlice
    cases copy elem (zero elem) b with
    | ok v' => simp only; exact blocksToSlice_error_not_ok copy elem rest _ v
    | err v' e => simp
    | panic => simp

theorem blocksToSlice_length (copy : Ty → GV → Block → Outcome) (elem : Ty) :
    ∀ (bs : List Block) (acc vs : List GV), blocksToSlice copy elem bs acc = .ok vs → vs.length = acc.length + bs.length
  | [], acc, vs, h => by simp [blocksToSlice] at h; subst h; simp
  | b :: rest, acc, vs, h => by
    unfold blocksToSlice at h
    cases hc : copy elem (zero elem) b with
    | ok v => rw [hc] at h; simp only at h; have := blocksToSlice_length copy elem rest _ vs h; simp at this ⊢; omega
    | err v e => rw [hc] at h; simp at h
    | panic => rw [hc] at h; simp at h

theorem GVs.ofList_length : ∀ (l : List GV), (GVs.ofList l).length = l.length
  | [] => rfl
  | _ :: r => by simp [GVs.ofList, GVs.length, GVs.ofList_length r]

/-- **A slice target is replaced**: on success the new slice has exactly one element per
bound block (whatever the target held before is discarded), each element bound from a
zero value of the element type. -/
theorem slice_replaces (elem : Ty) (v v' : GV) (blks : List Block)
    (h : Bclv.Bind.bind (.pointer (.slice elem) v) (some (.slice blks)) = .ok v') :
    ∃ vs, v' = .slice vs ∧ vs.length = blks.length := by
  unfold Bclv.Bind.bind at h
  simp only at h
  cases elem with
  | struct id n fs =>
    simp only at h
    cases hb : blocksToSlice (copyBlock (maxDepth blks + 1)) (.struct id n fs) blks [] with
    | ok vs =>
      rw [hb] at h; simp only [Outcome.ok.injEq] at h; subst h
      refine ⟨_, rfl, ?_⟩
      rw [GVs.ofList_length, blocksToSlice_length _ _ blks [] vs hb]; simp
    | error o =>
      rw [hb] at h
      cases o with
      | ok x => exact absurd hb (blocksToSlice_error_not_ok _ _ _ _ x)
      | err _ _ => simp at h
      | panic => simp at h
  | _ => simp at h

/-- **Round trip, nested structs**: see the header. -/
theorem roundtrip_nested (n : Nat) (ty : Ty) (g v0 : GV) (blk : Block) (hfam : famTy ty)
    (hg : HasTy g ty) (hv0 : HasTy v0 ty) (hr : Renders n ty g blk) :
    Bclv.Bind.bind (.pointer ty v0) (some (.struct blk)) = .ok g :=
  bind_struct_roundtrip n ty g v0 blk hfam hg hv0 hr

/-- **Round trip, slice target**. -/
theorem roundtrip_slice (elem : Ty) (v0 : GV) (blks : List Block) (gs : List GV) (hfam : famTy elem)
    (hstruct : ∃ id sn fs, elem = .struct id sn fs)
    (h : Pairs (fun b g => HasTy g elem ∧ ∃ n, Renders n elem g b) blks gs) :
    Bclv.Bind.bind (.pointer (.slice elem) v0) (some (.slice blks)) = .ok (.slice (GVs.ofList gs)) :=
  bind_slice_roundtrip elem v0 blks gs hfam hstruct h

/-! non-vacuity of the nested round trip: `def srv "m" { tls { on = true }; port = 80 }` into
`struct Srv { Name string; Port int; Tls struct { On bool } }` -/

def inTy : Ty := .struct 2 [] (.cons { name := "On".toList } (.basic .bool) .nil)
def exTy : Ty := .struct 1 "Srv".toList
  (.cons { name := "Name".toList } (.basic .str) (.cons { name := "Port".toList } (.basic .int)
    (.cons { name := "Tls".toList } inTy .nil)))
def exG : GV := .struct (.cons (.str [109]) (.cons (.int 80) (.cons (.struct (.cons (.bool true) .nil)) .nil)))
-- def srv "m" { tls { on = true }; port = 80 }
def exBlk : Block := .mk [115, 114, 118] [109]
  (.child [116, 108, 115] (.mk [116, 108, 115] [] (.val [111, 110] (.bool true) .nil)) (.val [112, 111, 114, 116] (.int 80) .nil))

theorem distinct_in : DistinctNames (.cons { name := "On".toList } (.basic .bool) .nil) := by
  intro j j' h h' t t' hne hj hj'
  rcases j with _ | j <;> rcases j' with _ | j' <;> simp [TFields.get?] at hj hj' hne

theorem distinct_ex : DistinctNames (.cons { name := "Name".toList } (.basic .str) (.cons { name := "Port".toList } (.basic .int)
    (.cons { name := "Tls".toList } inTy .nil))) := by
  intro j j' h h' t t' hne hj hj'
  rcases j with _ | _ | _ | j <;> rcases j' with _ | _ | _ | j' <;> simp [TFields.get?] at hj hj' hne <;>
    (obtain ⟨rfl, _⟩ := hj; obtain ⟨rfl, _⟩ := hj'; decide)

theorem exTy_fam : famTy exTy := by
  simp only [exTy, inTy, famTy, famFs, flat]
  refine ⟨by decide, distinct_ex, ?_⟩
  simp
  exact distinct_in

def exIdx : Item → Nat | .val _ _ => 1 | .child _ _ => 2
def exVal : Item → GV | .val _ _ => .int 80 | .child _ _ => .struct (.cons (.bool true) .nil)

theorem exRenders : Renders 2 exTy exG exBlk := by
  simp only [exTy, exBlk, Renders]
  refine ⟨.inr (by decide), exIdx, exVal, by decide, by decide, ?_, ?_⟩
  · refine .inr ⟨0, { name := "Name".toList }, rfl, by decide, rfl, by decide, ?_⟩
    intro j h t hj
    rcases j with _ | _ | _ | j <;> simp [TFields.get?, Fields.items, exIdx] at hj ⊢
  · intro it hit
    simp only [Fields.items, List.mem_cons, List.not_mem_nil, or_false] at hit
    rcases hit with rfl | rfl
    · refine ⟨{ name := "Tls".toList }, inTy, rfl, by decide, rfl, ?_⟩
      simp only [inTy, exVal, Renders]
      refine ⟨by simp, fun _ => 0, fun _ => .bool true, by decide, by decide, ?_, ?_⟩
      · refine .inl ⟨?_, rfl, ?_⟩
        · intro j h t hj
          rcases j with _ | j <;> simp [TFields.get?] at hj
          obtain ⟨rfl, _⟩ := hj; decide
        · intro j h t hj
          rcases j with _ | j <;> simp [TFields.get?, Fields.items] at hj ⊢
      · intro it hit
        simp only [Fields.items, List.mem_cons, List.not_mem_nil, or_false] at hit
        subst hit
        exact ⟨{ name := "On".toList }, .basic .bool, rfl, by decide, rfl, by decide, rfl⟩
    · exact ⟨{ name := "Port".toList }, .basic .int, rfl, by decide, rfl, by decide, rfl⟩

/-- the theorem applied, and the model evaluated, on `def srv "m" { tls { on = true }; port = 80 }` -/
example : Bclv.Bind.bind (.pointer exTy (zero exTy)) (some (.struct exBlk)) = .ok exG :=
  bind_struct_roundtrip 2 exTy exG _ exBlk exTy_fam (by
    simp only [exG, exTy, inTy]
    repeat constructor) (zero_hasTy _) exRenders
example : Bclv.Bind.bind (.pointer exTy (zero exTy)) (some (.struct exBlk)) = .ok exG := by rfl


/-! non-vacuity: a concrete flat struct and block satisfy the hypotheses of the round trip -/

def exFields : TFields :=
  .cons { name := "Port".toList } (.basic .int) (.cons { name := "Host_Name".toList } (.basic .str) .nil)
def exBlock : Fields := .val [104, 111, 115, 116, 110, 97, 109, 101] (.str [120]) (.val [112, 111, 114, 116] (.int 8080) .nil)

example : copyBlock 2 (.struct 1 [] exFields) (zero (.struct 1 [] exFields)) (.mk [116] [] exBlock)
    = .ok (.struct (.cons (.int 8080) (.cons (.str [120]) .nil))) := by
  rfl

end Bclv.C05
