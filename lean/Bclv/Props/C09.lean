import Bclv.Proofs.DumpLoad
import Bclv.Model.Vm
/-!
# C09 — bytecode dump and load round trip preserves the program

Stated for every program whose lengths and offsets fit in 64 bits (`Prog.WF`), for
all constant kinds, every string length (all varint size classes are cases of
`uvDec_uvEnc`, which holds for every `x < 2^64`), every float bit pattern.
Independence from how the reader hands the bytes over is *not* proved here: `load`
is defined on the concatenation of the reads; the read-partition stream of the
harness checks the implementation against it.
-/
namespace Bclv.C09
open Bclv

/-- Loading a dump gives back exactly the program. -/
theorem load_dump (p : Prog) (h : p.WF) : load (dump p) = .ok p := by
  have := (Enc_pProg p h).1 []
  simp only [List.append_nil] at this
  unfold load
  rw [this]

/-- Trailing bytes after a dump are ignored (as in the Go code). -/
theorem load_dump_trailing (p : Prog) (h : p.WF) (r : Bytes) : load (dump p ++ r) = .ok p := by
  have := (Enc_pProg p h).1 r
  unfold load
  rw [this]

/-- Dumping the loaded program gives the same bytes again. -/
theorem dump_load_dump (p : Prog) (h : p.WF) :
    ∃ q, load (dump p) = .ok q ∧ dump q = dump p := ⟨p, load_dump p h, rfl⟩

/-- Executing and disassembling are functions of the program, so the loaded program
behaves identically: same output, blocks, binding, warnings, error and statistics. -/
theorem exec_disasm_load_dump (p : Prog) (h : p.WF) (trace : Bool) (fuel : Nat) :
    ∃ q, load (dump p) = .ok q ∧ execute q trace fuel = execute p trace fuel ∧ disasm q = disasm p :=
  ⟨p, load_dump p h, rfl, rfl⟩

/-- The unsigned varint round trip for every 64-bit value, in particular across the
size classes 240/241, 2287/2288, 67823/67824, 2^24, 2^32, … -/
theorem uvarint_roundtrip (x : Nat) (hx : x < 2 ^ 64) (rest : Bytes) :
    uvDec (uvEnc x ++ rest) = some (x, rest) := uvDec_uvEnc x hx rest

/-- Every value (every int, every float bit pattern, every string of length < 2^64,
both booleans, nil) is read back from its encoding. -/
theorem value_roundtrip (v : Value) (hv : v.WF) (rest : Bytes) :
    pValue (valueEnc v ++ rest) = .ok v rest := (Enc_pValue v hv).1 rest

/-- The signed/unsigned cast used for integer constants is a bijection. -/
theorem i64_u64_cast (i : Int64) : (UInt64.ofNat i.toUInt64.toNat).toInt64 = i := by simp

/-! Non-vacuity: a concrete program with every constant kind, a 300-byte string
(two-byte length prefix) and multi-byte offsets satisfies the hypothesis. -/
def sample : Prog :=
  { name := [105, 110], code := [9, 0, 2, 1],
    consts := [.nil, .bool true, .int (-5), .float 0x3FF8000000000000, .str (List.replicate 300 97)],
    positions := [5, 5, 70000, 70000], lfs := [3, 300, 70001] }

example : sample.WF := by
  refine ⟨by decide, by decide, by decide, ?_, by decide, ?_, by decide, ?_⟩
  · intro v hv
    simp only [sample, List.mem_cons, List.mem_nil_iff, or_false] at hv
    rcases hv with rfl | rfl | rfl | rfl | rfl
    · trivial
    · trivial
    · trivial
    · trivial
    · show (List.replicate 300 (97 : UInt8)).length < 2 ^ 64
      rw [List.length_replicate]; omega
  · intro x hx
    simp only [sample, List.mem_cons, List.mem_nil_iff, or_false] at hx
    omega
  · intro x hx
    simp only [sample, List.mem_cons, List.mem_nil_iff, or_false] at hx
    omega

end Bclv.C09
