import Bclv.Proofs.DumpLoad
import Bclv.Proofs.Bufio
import Bclv.Proofs.DumpW
import Bclv.Model.Vm
/-!
# C09 — bytecode dump and load round trip preserves the program

Stated for every program whose lengths and offsets fit in 64 bits (`Prog.WF`), for
all constant kinds, every string length (all varint size classes are cases of
`uvDec_uvEnc`, which holds for every `x < 2^64`), every float bit pattern.
`load` is defined on the concatenation of the reads; `loadR` (`Model/Bufio.lean`) is `Load`
written over the 4096-byte buffered reader, call by call as in the Go code, fed by a source
that delivers the input in pieces.  `however_the_reader_hands_over` proves the two equal for
every way of cutting the input into non-empty pieces (all at once, one byte per read,
anything between); the read-partition cases of the `dumpload` stream compare `loadR` with
the implementation piece list by piece list.
-/
namespace Bclv.C09
open Bclv Bclv.Buf

/-- Loading a dump gives back exactly the program. -/
theorem load_dump (p : Prog) (h : p.WF) : load (dump p) = .ok p := by
  have := (Enc_pProg p h).1 []
  simp only [List.append_nil] at this
  unfold load
  rw [this]

/-- Trailing bytes after a dump are ignored (as in the Go code). -/
theorem load_dump_trailing (p : Prog) (h : p.WF) (r : Bytes) : load (dump p ++ r) = .ok p := by
  have := (Enc_pProg p h).1 r
  unfold load
  rw [this]

/-- Dumping the loaded program gives the same bytes again. -/
theorem dump_load_dump (p : Prog) (h : p.WF) :
    ∃ q, load (dump p) = .ok q ∧ dump q = dump p := ⟨p, load_dump p h, rfl⟩

/-- Executing and disassembling are functions of the program, so the loaded program
behaves identically: same output, blocks, binding, warnings, error and statistics. -/
theorem exec_disasm_load_dump (p : Prog) (h : p.WF) (trace : Bool) (fuel : Nat) :
    ∃ q, load (dump p) = .ok q ∧ execute q trace fuel = execute p trace fuel ∧ disasm q = disasm p :=
  ⟨p, load_dump p h, rfl, rfl⟩

/-- **However the reader hands over the bytes**: `Load` through the buffered reader, from a
source that delivers any non-empty pieces, is `load` of their concatenation. -/
theorem however_the_reader_hands_over (chunks : List Bytes) (h : ∀ c ∈ chunks, c ≠ []) :
    loadR chunks = load chunks.flatten := loadR_eq_load chunks h

/-- The round trip through a reader that delivers the dump in pieces. -/
theorem load_dump_chunked (p : Prog) (h : p.WF) (chunks : List Bytes) (hc : ∀ c ∈ chunks, c ≠ [])
    (hcat : chunks.flatten = dump p) : loadR chunks = .ok p := by
  rw [loadR_eq_load chunks hc, hcat]; exact load_dump p h

/-- One byte per read. -/
theorem load_dump_one_byte_reads (p : Prog) (h : p.WF) : loadR ((dump p).map fun b => [b]) = .ok p := by
  apply load_dump_chunked p h
  · intro c hc
    obtain ⟨b, _, rfl⟩ := List.mem_map.mp hc
    simp
  · induction dump p with
    | nil => rfl
    | cons b bs ih => simp [ih]

/-- **Dump succeeds**: written call by call through the 4096-byte buffered writer and the
scratch slice (`Model/DumpW.lean`), `Dump` never indexes past the scratch slice — for
string constants of any length — and what the destination receives, write after write, is
exactly `dump p`. -/
theorem dump_through_writer (p : Prog) :
    ∃ writes, dumpW p = some writes ∧ writes.flatten = dump p ∧ ∀ c ∈ writes, c ≠ [] :=
  dumpW_spec p

/-- Writer and reader together: feeding `Load` the very writes `Dump` hands to its destination,
one per read, gives the program back. -/
theorem load_of_dump_writes (p : Prog) (h : p.WF) :
    ∃ writes, dumpW p = some writes ∧ loadR writes = .ok p := by
  obtain ⟨w, e, hcat, hne⟩ := dumpW_spec p
  exact ⟨w, e, load_dump_chunked p h w hne hcat⟩

/-- The unsigned varint round trip for every 64-bit value, in particular across the
size classes 240/241, 2287/2288, 67823/67824, 2^24, 2^32, … -/
theorem uvarint_roundtrip (x : Nat) (hx : x < 2 ^ 64) (rest : Bytes) :
    uvDec (uvEnc x ++ rest) = some (x, rest) := uvDec_uvEnc x hx rest

/-- Every value (every int, every float bit pattern, every string of length < 2^64,
both booleans, nil) is read back from its encoding. -/
theorem value_roundtrip (v : Value) (hv : v.WF) (rest : Bytes) :
    pValue (valueEnc v ++ rest) = .ok v rest := (Enc_pValue v hv).1 rest

/-- The signed/unsigned cast used for integer constants is a bijection. -/
theorem i64_u64_cast (i : Int64) : (UInt64.ofNat i.toUInt64.toNat).toInt64 = i := by simp

/-! Non-vacuity: a concrete program with every constant kind, a 300-byte string
(two-byte length prefix) and multi-byte offsets satisfies the hypothesis. -/
def sample : Prog :=
  { name := [105, 110], code := [9, 0, 2, 1],
    consts := [.nil, .bool true, .int (-5), .float 0x3FF8000000000000, .str (List.replicate 300 97)],
    positions := [5, 5, 70000, 70000], lfs := [3, 300, 70001] }

example : sample.WF := by
  refine ⟨by decide, by decide, by decide, ?_, by decide, ?_, by decide, ?_⟩
  · intro v hv
    simp only [sample, List.mem_cons, List.mem_nil_iff, or_false] at hv
    rcases hv with rfl | rfl | rfl | rfl | rfl
    · trivial
    · trivial
    · trivial
    · trivial
    · show (List.replicate 300 (97 : UInt8)).length < 2 ^ 64
      rw [List.length_replicate]; omega
  · intro x hx
    simp only [sample, List.mem_cons, List.mem_nil_iff, or_false] at hx
    omega
  · intro x hx
    simp only [sample, List.mem_cons, List.mem_nil_iff, or_false] at hx
    omega

/-- Non-vacuity of the piecewise statements: the 346-byte sample dump read in pieces of 1, 2,
300 and the rest (cuts inside the header, inside a varint and inside the long string). -/
example : (match loadR [(dump sample).take 1, ((dump sample).drop 1).take 2, ((dump sample).drop 3).take 300,
    (dump sample).drop 303] with | .ok p => decide (p = sample) | _ => false) = true := by decide +kernel

end Bclv.C09
