import Bclv.Proofs.SemInv
import Bclv.Proofs.CompileCorrect
/-!
# C04 — the bind statement selects exactly the designated blocks

`bindSem` (= `bindCore ∘ bindWarn`) is the meaning of the bind statement in the
evaluator the VM is proved to compute (`compileS_correct`, case `bind`).  The
theorems below read the property off that definition: the candidates are the
completed toplevel blocks of the named type in definition order; `:1`/none demands
exactly one; first/last/all; struct or slice as written; no block is a runtime
error; every bind after the first leaves exactly one warning and changes nothing
else; the binding that results depends only on this statement.
-/
namespace Bclv.C04
open Bclv

def candidates (p : Prog) (ti : Nat) (s : Sem) : List Block :=
  match constStr p ti with
  | some bt => s.result.filter (fun b => b.typ = bt)
  | none => []

/-- No completed block of that type: a runtime error. -/
theorem bind_none (p : Prog) (ti opt pos : Nat) (s : Sem) (bt : Bytes) (hc : constStr p ti = some bt)
    (h : candidates p ti s = []) :
    bindCore p ti opt pos s = .err pos (str "bind: no blocks of type " ++ bt) := by
  simp only [candidates, hc] at h
  simp [bindCore, hc, h]

/-- Selector `:1` (or none, which the parser encodes as `:1`) demands exactly one block:
with two or more candidates the statement is a runtime error that names the count. -/
theorem bind_one_demands_one (p : Prog) (ti pos opt : Nat) (s : Sem) (bt : Bytes)
    (hc : constStr p ti = some bt) (hsel : opt % 16 = selOne)
    (hne : candidates p ti s ≠ []) (hlen : (candidates p ti s).length ≠ 1) :
    bindCore p ti opt pos s = .err pos (str "bind: found " ++ natDec (candidates p ti s).length
        ++ str " blocks of type " ++ bt ++ str " but expected just 1") := by
  simp only [candidates, hc] at hne hlen ⊢
  have he : (List.filter (fun b => decide (b.typ = bt)) s.result).isEmpty = false := by
    cases hl : List.filter (fun b => decide (b.typ = bt)) s.result with
    | nil => exact absurd hl hne
    | cons _ _ => rfl
  simp [bindCore, hc, he, hlen, hsel]

/-- With at least one candidate and a well-formed option byte, the binding is the one
designated: first / last block as a struct or one-element slice, all of them as a slice
in definition order. -/
theorem bind_selects (p : Prog) (ti pos : Nat) (s : Sem) (bt : Bytes) (hc : constStr p ti = some bt)
    (b0 : Block) (bs : List Block) (hcand : candidates p ti s = b0 :: bs) :
    bindCore p ti (tgtStruct + selFirst) pos s = .ok { s with binding := some (.struct b0) }
    ∧ bindCore p ti (tgtStruct + selLast) pos s = .ok { s with binding := some (.struct ((b0 :: bs).getLastD default)) }
    ∧ bindCore p ti (tgtSlice + selAll) pos s = .ok { s with binding := some (.slice (b0 :: bs)) }
    ∧ bindCore p ti (tgtSlice + selFirst) pos s = .ok { s with binding := some (.slice [b0]) }
    ∧ bindCore p ti (tgtSlice + selLast) pos s = .ok { s with binding := some (.slice [(b0 :: bs).getLastD default]) } := by
  simp only [candidates, hc] at hcand
  refine ⟨?_, ?_, ?_, ?_, ?_⟩ <;>
    simp [bindCore, hc, hcand, tgtStruct, tgtSlice, selFirst, selLast, selAll, selOne]

/-- `:1` with exactly one candidate binds it, as a struct or as a one-element slice. -/
theorem bind_one (p : Prog) (ti pos : Nat) (s : Sem) (bt : Bytes) (hc : constStr p ti = some bt)
    (b0 : Block) (hcand : candidates p ti s = [b0]) :
    bindCore p ti (tgtStruct + selOne) pos s = .ok { s with binding := some (.struct b0) }
    ∧ bindCore p ti (tgtSlice + selOne) pos s = .ok { s with binding := some (.slice [b0]) } := by
  simp only [candidates, hc] at hcand
  constructor <;> simp [bindCore, hc, hcand, tgtStruct, tgtSlice, selOne, selFirst]

/-- The packed option byte decodes to the selector and target it was built from. -/
theorem bind_byte_roundtrip :
    ∀ sel ∈ [selOne, selFirst, selLast, selAll], ∀ tgt ∈ [tgtStruct, tgtSlice],
      (tgt + sel) % 16 = sel ∧ (tgt + sel) / 16 * 16 = tgt := by decide

/-- Every bind after the first leaves exactly one warning on the log and changes nothing
else before the selection; the first leaves none. -/
theorem bind_warning (p : Prog) (pos : Nat) (s : Sem) :
    (s.binding = none → bindWarn p pos s = s)
    ∧ (s.binding ≠ none → bindWarn p pos s = { s with log := (str "WARNING: line " ++ fmtPos p.lfs pos ++
                  str ": repeated bind statement, last one overrides\n") :: s.log }) := by
  constructor
  · intro h; simp [bindWarn, h]
  · intro h
    cases hb : s.binding with
    | none => exact absurd hb h
    | some b => simp [bindWarn, hb]

/-- The selection looks at nothing but the completed toplevel blocks: its outcome —
internal fault, runtime error with its message, or the new binding — is the same from
any two states with the same result, and a success changes the binding and nothing else. -/
theorem bindCore_shape (p : Prog) (ti opt pos : Nat) (s : Sem) :
    (∀ s' : Sem, s'.result = s.result → bindCore p ti opt pos s' = .wrong)
    ∨ (∃ msg, ∀ s' : Sem, s'.result = s.result → bindCore p ti opt pos s' = .err pos msg)
    ∨ (∃ bd, ∀ s' : Sem, s'.result = s.result → bindCore p ti opt pos s' = .ok { s' with binding := some bd }) := by
  cases hc : constStr p ti with
  | none => left; intro s' _; simp [bindCore, hc]
  | some bt =>
    right
    by_cases h1 : (s.result.filter (fun b => decide (b.typ = bt))).isEmpty = true
    · left; exact ⟨_, fun s' h => by simp only [bindCore, hc, h, h1]; rfl⟩
    by_cases h2 : ((s.result.filter (fun b => decide (b.typ = bt))).length ≠ 1 && opt % 16 = selOne) = true
    · left; exact ⟨_, fun s' h => by simp only [bindCore, hc, h, h1, h2]; rfl⟩
    by_cases h3 : (opt / 16 * 16 = tgtStruct && (opt % 16 = selOne || opt % 16 = selFirst)) = true
    · right; exact ⟨_, fun s' h => by simp only [bindCore, hc, h, h1, h2, h3]; rfl⟩
    by_cases h4 : (opt / 16 * 16 = tgtStruct && opt % 16 = selLast) = true
    · right; exact ⟨_, fun s' h => by simp only [bindCore, hc, h, h1, h2, h3, h4]; rfl⟩
    by_cases h5 : (opt / 16 * 16 = tgtSlice && opt % 16 = selAll) = true
    · right; exact ⟨_, fun s' h => by simp only [bindCore, hc, h, h1, h2, h3, h4, h5]; rfl⟩
    by_cases h6 : (opt / 16 * 16 = tgtSlice && (opt % 16 = selOne || opt % 16 = selFirst)) = true
    · right; exact ⟨_, fun s' h => by simp only [bindCore, hc, h, h1, h2, h3, h4, h5, h6]; rfl⟩
    by_cases h7 : (opt / 16 * 16 = tgtSlice && opt % 16 = selLast) = true
    · right; exact ⟨_, fun s' h => by simp only [bindCore, hc, h, h1, h2, h3, h4, h5, h6, h7]; rfl⟩
    · left; exact ⟨_, fun s' h => by simp only [bindCore, hc, h, h1, h2, h3, h4, h5, h6, h7]; rfl⟩

/-- **The last bind wins**: a repeated bind never fails *because* it is repeated, and the
binding it establishes does not depend on the previous one — the outcome is that of the
same statement with no binding before it; only the warning line differs. -/
theorem bind_overrides (p : Prog) (ti opt pos : Nat) (s : Sem) (prev : Binding) :
    match bindSem p ti opt pos { s with binding := none }, bindSem p ti opt pos { s with binding := some prev } with
    | .ok a, .ok b => b.binding = a.binding ∧ b.result = a.result ∧ b.stack = a.stack ∧ b.blocks = a.blocks
                      ∧ b.out = a.out ∧ ∃ w, b.log = w :: a.log
    | .err pa ma, .err pb mb => pa = pb ∧ ma = mb
    | .wrong, .wrong => True
    | _, _ => False := by
  simp only [bindSem, bindWarn]
  rcases bindCore_shape p ti opt pos s with h | ⟨msg, h⟩ | ⟨bd, h⟩
  · have h1 := h { s with binding := none } rfl
    have h2 := h { s with binding := some prev, log := (str "WARNING: line " ++ fmtPos p.lfs pos ++
                  str ": repeated bind statement, last one overrides\n") :: s.log } rfl
    rw [h1, h2]; trivial
  · have h1 := h { s with binding := none } rfl
    have h2 := h { s with binding := some prev, log := (str "WARNING: line " ++ fmtPos p.lfs pos ++
                  str ": repeated bind statement, last one overrides\n") :: s.log } rfl
    rw [h1, h2]; exact ⟨rfl, rfl⟩
  · have h1 := h { s with binding := none } rfl
    have h2 := h { s with binding := some prev, log := (str "WARNING: line " ++ fmtPos p.lfs pos ++
                  str ": repeated bind statement, last one overrides\n") :: s.log } rfl
    rw [h1, h2]; exact ⟨rfl, rfl, rfl, rfl, rfl, _, rfl⟩

/-- Non-vacuity: two blocks of type "t" and one of another type; `:all -> slice` binds the two. -/
def t1 : Block := .mk [116] [97] .nil
def t2 : Block := .mk [116] [98] .nil
def o1 : Block := .mk [111] [] .nil
def exProg : Prog := { name := [], code := [], consts := [.str [116]], positions := [], lfs := [] }
example : candidates exProg 0 { result := [t1, o1, t2] } = [t1, t2] := by
  simp [candidates, constStr, exProg, t1, t2, o1, List.filter, Block.typ]

end Bclv.C04
