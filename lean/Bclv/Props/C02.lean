import Bclv.Model.Parser
import Bclv.Spec.Sem
import Bclv.Props.C01
/-!
# C02 — lexical scoping and state flow of variables versus fields

Two layers.  *Resolution* is done by the parser (`Model/Parser.lean`, the port of
`parse.go`'s `resolveLocal`, `declVar`, `markInitialized`, `endScope` and the `identRef`
prefix rule): an identifier becomes a stack slot, or — only inside a block — a field name.
*State flow* is the evaluator of `Spec/Sem.lean`, which the VM is proved to compute (C01).

Resolution:
* `resolve_innermost`: `resolveLocal` returns the slot of the newest declaration of that
  name that is already initialised; older ones are shadowed;
* `initializer_sees_outer`: a declaration is invisible while its initializer is parsed
  (`var x = x+1` reads the outer `x`);
* `scope_end_forgets`: leaving a block removes exactly the locals declared in it and does
  not renumber the others;
* `unknown_at_toplevel`: a compile error;
* `redeclare_in_scope_is_error`, `declare_fresh`: a second declaration of a name in the scope
  being parsed is a compile error, however many inner blocks were opened and closed in
  between; a declaration of a name that only enclosing scopes have is accepted.

State flow:
* `read_local`, `assign_local` (C01): a read pushes the slot's value; an assignment updates
  exactly the slot, once, and yields the assigned value;
* `read_field_nearest`: a field is read from the innermost open block that has it as a
  value; `read_field_unknown`: otherwise a runtime error;
* `assign_field_current`: a field assignment creates or overwrites the field in the
  current block only, and yields the assigned value.
-/
namespace Bclv.C02
open Bclv

/-! ## resolution -/

/-- A declaration the resolver can see. -/
def Visible (name : Bytes) (l : Local) : Prop := l.name = name ∧ l.depth ≠ -1

instance (name : Bytes) (l : Local) : Decidable (Visible name l) := by unfold Visible; exact inferInstance

/-- **Innermost declaration wins.**  `locals` is newest first; the slot is the number of
older locals (its position from the bottom of the stack). -/
theorem resolve_innermost (locals : List Local) (name : Bytes) (slot : Nat) :
    resolveLocal locals name = some slot ↔
      ∃ newer l older, locals = newer ++ l :: older ∧ Visible name l ∧ slot = older.length
        ∧ ∀ l' ∈ newer, ¬ Visible name l' := by
  induction locals with
  | nil => simp [resolveLocal]
  | cons x xs ih =>
    unfold resolveLocal
    by_cases hv : (x.name == name && x.depth != -1) = true
    · simp only [hv, if_true, Option.some.injEq]
      have hx : Visible name x := by simpa [Visible] using hv
      constructor
      · intro h; exact ⟨[], x, xs, rfl, hx, h.symm, by simp⟩
      · rintro ⟨newer, l, older, heq, hl, hs, hnone⟩
        cases newer with
        | nil => simp at heq; obtain ⟨rfl, rfl⟩ := heq; exact hs.symm
        | cons n ns =>
          simp at heq; obtain ⟨rfl, _⟩ := heq
          exact absurd hx (hnone _ (by simp))
    · simp only [hv, Bool.false_eq_true, if_false]
      have hx : ¬ Visible name x := by simpa [Visible] using hv
      rw [ih]
      constructor
      · rintro ⟨newer, l, older, heq, hl, hs, hnone⟩
        exact ⟨x :: newer, l, older, by simp [heq], hl, hs, by
          intro l' hl'
          simp only [List.mem_cons] at hl'
          rcases hl' with rfl | h
          · exact hx
          · exact hnone l' h⟩
      · rintro ⟨newer, l, older, heq, hl, hs, hnone⟩
        cases newer with
        | nil => simp at heq; obtain ⟨rfl, rfl⟩ := heq; exact absurd hl hx
        | cons n ns =>
          simp at heq; obtain ⟨rfl, rfl⟩ := heq
          exact ⟨ns, l, older, rfl, hl, hs, fun l' h => hnone l' (by simp [h])⟩

/-- No visible declaration: the name does not resolve to a variable. -/
theorem resolve_none (locals : List Local) (name : Bytes) :
    resolveLocal locals name = none ↔ ∀ l ∈ locals, ¬ Visible name l := by
  induction locals with
  | nil => simp [resolveLocal]
  | cons x xs ih =>
    unfold resolveLocal
    by_cases hv : (x.name == name && x.depth != -1) = true
    · have hx : Visible name x := by simpa [Visible] using hv
      simp only [hv, if_true]
      constructor
      · intro h; cases h
      · intro h; exact absurd hx (h x (by simp))
    · have hx : ¬ Visible name x := by simpa [Visible] using hv
      simp only [hv, Bool.false_eq_true, if_false, ih]
      constructor
      · intro h l hl
        simp only [List.mem_cons] at hl
        rcases hl with rfl | hl
        · exact hx
        · exact h l hl
      · intro h l hl; exact h l (by simp [hl])

/-- **A declaration becomes visible only after its initializer**: while the initializer is
parsed the new local has depth −1 and resolution goes to the outer declaration. -/
theorem initializer_sees_outer (locals : List Local) (name : Bytes) :
    resolveLocal ({ name := name, depth := -1 } :: locals) name = resolveLocal locals name := by
  simp [resolveLocal]

/-- Once initialised it shadows the outer one: it resolves to the new top slot. -/
theorem initialised_shadows (locals : List Local) (name : Bytes) (d : Nat) :
    resolveLocal ({ name := name, depth := (d : Int) } :: locals) name = some locals.length := by
  have : ((d : Int) != -1) = true := by
    simp only [bne_iff_ne, ne_eq]; omega
  simp [resolveLocal, this]

/-- **Leaving a scope forgets its locals and nothing else**: what is dropped is the run of
newest locals deeper than the scope returned to, and every remaining local keeps its slot. -/
theorem scope_end_forgets (p : PState) :
    let (n, p') := endScope p
    p'.locals = p.locals.drop n ∧ p'.depth = p.depth - 1
    ∧ n = (p.locals.takeWhile (fun l => l.depth > ((p.depth - 1 : Nat) : Int))).length
    ∧ ∀ name slot, resolveLocal p'.locals name = some slot → slot < p'.locals.length := by
  simp only [endScope, bind, StateT.bind, get, getThe, MonadStateOf.get, StateT.get, set, StateT.set, pure, StateT.pure]
  refine ⟨by first | rfl | trivial, by first | rfl | trivial, by first | rfl | trivial, ?_⟩
  intro name slot h
  obtain ⟨newer, l, older, heq, _, hs, _⟩ := (resolve_innermost _ name slot).mp h
  rw [heq, hs]; simp; omega

/-- An unknown name at toplevel is a compile error (`identRef` with no local, depth 0). -/
theorem unknown_at_toplevel (f : Nat) (canAssign : Bool) (p : PState) (h0 : p.depth = 0)
    (hn : resolveLocal p.locals p.prev.val = none) :
    ((prefixRule .identRef canAssign (f + 1)).run p).2.hadError = true
    ∧ ((prefixRule .identRef canAssign (f + 1)).run p).1 = .bad := by
  simp [prefixRule, hn, h0, error, errorAt, bind, StateT.bind, StateT.run, get, getThe, MonadStateOf.get, StateT.get,
    modify, modifyGet, MonadStateOf.modifyGet, StateT.modifyGet, pure, StateT.pure]

/-! ## declarations -/

/-- The locals of the scope being parsed: the newest ones down to (not including) the first
that was initialised in an enclosing scope. -/
def scopeSeg (p : PState) : List Local :=
  p.locals.takeWhile (fun l => !(l.depth != -1 && l.depth < (p.depth : Int)))

def redeclMsg : Bytes := str "variable with this name already present in this scope"

/-- what the re-declaration loop of `declVar` does to the state -/
def redeclFold (name : Bytes) (ls : List Local) (p : PState) : PState :=
  ls.foldl (fun p l => if l.name == name then ((error redeclMsg : PM Unit).run p).2 else p) p

theorem forIn_redecl (name : Bytes) : ∀ (ls : List Local) (p : PState),
    (forIn ls PUnit.unit (fun l _ => do
        if l.name == name then error redeclMsg
        pure (ForInStep.yield PUnit.unit)) : PM PUnit).run p = (PUnit.unit, redeclFold name ls p) := by
  intro ls
  induction ls with
  | nil => intro p; rfl
  | cons l ls ih =>
    intro p
    rw [List.forIn_cons]
    by_cases h : (l.name == name) = true
    · simp only [h, if_true, redeclFold, List.foldl_cons]
      exact ih _
    · simp only [h, redeclFold, List.foldl_cons]
      exact ih _

theorem declVar_run (p : PState) :
    declVar.run p = (addLocal p.prev.val).run (redeclFold p.prev.val (scopeSeg p) p) := by
  have := forIn_redecl p.prev.val (scopeSeg p) p
  unfold declVar
  simp only [redeclMsg, scopeSeg] at this ⊢
  simp only [bind, StateT.bind, StateT.run, get, getThe, MonadStateOf.get, StateT.get, pure, StateT.pure] at this ⊢
  rw [this]

theorem error_run (msg : Bytes) (p : PState) :
    ((error msg : PM Unit).run p).2.hadError = true ∧ ((error msg : PM Unit).run p).2.locals = p.locals
    ∧ ((error msg : PM Unit).run p).2.log ≠ [] := by
  simp [error, errorAt, bind, StateT.bind, StateT.run, get, getThe, MonadStateOf.get, StateT.get,
    modify, modifyGet, MonadStateOf.modifyGet, StateT.modifyGet, pure, StateT.pure]

theorem redeclFold_spec (name : Bytes) : ∀ (ls : List Local) (p : PState),
    (redeclFold name ls p).locals = p.locals
    ∧ (p.hadError = true → (redeclFold name ls p).hadError = true)
    ∧ ((∀ l ∈ ls, l.name ≠ name) → redeclFold name ls p = p)
    ∧ ((∃ l ∈ ls, l.name = name) → (redeclFold name ls p).hadError = true) := by
  intro ls
  induction ls with
  | nil => intro p; simp [redeclFold]
  | cons l ls ih =>
    intro p
    unfold redeclFold
    simp only [List.foldl_cons]
    by_cases h : (l.name == name) = true
    · simp only [h, if_true]
      obtain ⟨e1, e2, e3⟩ := error_run redeclMsg p
      obtain ⟨i1, i2, _, _⟩ := ih ((error redeclMsg : PM Unit).run p).2
      refine ⟨by rw [← e2]; exact i1, fun _ => i2 e1, fun hn => ?_, fun _ => i2 e1⟩
      exact absurd (by simpa using h) (hn l (List.mem_cons_self ..))
    · simp only [h]
      obtain ⟨i1, i2, i3, i4⟩ := ih p
      refine ⟨i1, i2, fun hn => i3 (fun x hx => hn x (List.mem_cons_of_mem _ hx)), ?_⟩
      rintro ⟨x, hx, hxn⟩
      rcases List.mem_cons.mp hx with rfl | hx
      · exact absurd (by simpa using hxn) h
      · exact i4 ⟨x, hx, hxn⟩

theorem addLocal_keeps_error (name : Bytes) (p : PState) (h : p.hadError = true) :
    ((addLocal name).run p).2.hadError = true := by
  unfold addLocal
  by_cases hl : (p.locals.length == localsMaxSize) = true
  · simp [hl, error, errorAt, bind, StateT.bind, StateT.run, get, getThe, MonadStateOf.get, StateT.get,
      modify, modifyGet, MonadStateOf.modifyGet, StateT.modifyGet, pure, StateT.pure]
  · simp [hl, h, bind, StateT.bind, StateT.run, get, getThe, MonadStateOf.get, StateT.get,
      modify, modifyGet, MonadStateOf.modifyGet, StateT.modifyGet, pure, StateT.pure]

/-- **Re-declaring a name in the same scope is a compile error**: if the scope being parsed
already has a local of that name — whatever inner blocks opened and closed in between, and
whether or not they shadowed it — `declVar` reports an error. -/
theorem redeclare_in_scope_is_error (p : PState) (h : ∃ l ∈ scopeSeg p, l.name = p.prev.val) :
    (declVar.run p).2.hadError = true := by
  rw [declVar_run]
  exact addLocal_keeps_error _ _ ((redeclFold_spec _ _ p).2.2.2 h)

/-- **Declaring a name the current scope does not have is fine**, also when an enclosing scope
has it (shadowing): the local is added, not yet initialised, and nothing is reported. -/
theorem declare_fresh (p : PState) (h : ∀ l ∈ scopeSeg p, l.name ≠ p.prev.val)
    (hroom : p.locals.length ≠ localsMaxSize) :
    (declVar.run p).2 = { p with locals := { name := p.prev.val, depth := -1 } :: p.locals,
                                 localMax := max p.localMax (p.locals.length + 1) } := by
  rw [declVar_run, (redeclFold_spec _ _ p).2.2.1 h]
  have : (p.locals.length == localsMaxSize) = false := by simpa using hroom
  simp [addLocal, this, bind, StateT.bind, StateT.run, get, getThe, MonadStateOf.get, StateT.get,
    modify, modifyGet, MonadStateOf.modifyGet, StateT.modifyGet, pure, StateT.pure]

/-- The scope being parsed, spelled out on the situation `var a; def b { var a … }; var a`: back
at toplevel the first `a` is in scope again (a second `var a` is an error), while inside the block
the toplevel `a` is not part of the scope (the inner `var a` shadows it). -/
example : (scopeSeg { rest := [], depth := 0, locals := [{ name := [97], depth := 0 }] }).map (·.name) = [[97]]
    ∧ (scopeSeg { rest := [], depth := 1, locals := [{ name := [97], depth := 0 }] }).map (·.name) = [] := by decide

/-! ## state flow -/

/-- Reading a variable pushes the value of its slot (slot 0 is the bottom of the stack)
and changes nothing else. -/
theorem read_local (p : Prog) (slot pos : Nat) (s : Sem) (h : slot < s.stack.length) (hroom : s.stack.length ≠ stackSize) :
    evalE p (.getLocal slot pos) s
      = .ok { s with stack := s.stack.getD (s.stack.length - 1 - slot) .nil :: s.stack } := by
  simp [evalE, h, pushV, hroom]

/-- The innermost open block that holds the field as a value (not as a child block)
supplies it. -/
def nearest (name : Bytes) : List Block → Option Value
  | [] => none
  | b :: bs => match b.fields.get name with
    | .val v => some v
    | _ => nearest name bs

theorem blockGet_nearest (name : Bytes) (blocks : List Block) (hT : name ≠ kwTYPE) (hN : name ≠ kwNAME) (hne : blocks ≠ []) :
    blockGet name blocks = nearest name blocks := by
  cases blocks with
  | nil => exact absurd rfl hne
  | cons top rest =>
    simp only [blockGet, hT, hN, if_false]
    have : ∀ l, blockGet.look name l = nearest name l := by
      intro l
      induction l with
      | nil => rfl
      | cons b bs ih =>
        simp only [blockGet.look, nearest, ih]
        cases Fields.get name b.fields <;> rfl
    exact this _

/-- **A field is read from the current block or else the nearest enclosing block that has
it.** -/
theorem read_field_nearest (p : Prog) (idx pos : Nat) (s : Sem) (name : Bytes) (v : Value)
    (hc : constStr p idx = some name) (hT : name ≠ kwTYPE) (hN : name ≠ kwNAME)
    (hb : s.blocks ≠ []) (hv : nearest name s.blocks = some v) (hroom : s.stack.length ≠ stackSize) :
    evalE p (.getField idx pos) s = .ok { s with stack := v :: s.stack } := by
  have he : s.blocks.isEmpty = false := by cases hs : s.blocks <;> simp_all
  simp [evalE, hc, he, blockGet_nearest name s.blocks hT hN hb, hv, pushV, hroom]

/-- Reading a name no enclosing block has is a runtime error at the identifier. -/
theorem read_field_unknown (p : Prog) (idx pos : Nat) (s : Sem) (name : Bytes)
    (hc : constStr p idx = some name) (hT : name ≠ kwTYPE) (hN : name ≠ kwNAME)
    (hb : s.blocks ≠ []) (hv : nearest name s.blocks = none) :
    evalE p (.getField idx pos) s = .err pos (str "identifier '" ++ name ++ str "' not resolved as var or field") := by
  have he : s.blocks.isEmpty = false := by cases hs : s.blocks <;> simp_all
  simp [evalE, hc, he, blockGet_nearest name s.blocks hT hN hb, hv]

/-- **Assigning a field creates or overwrites it in the current block only**, once, after
the right-hand side has been evaluated, and leaves the assigned value on the stack. -/
theorem assign_field_current (p : Prog) (idx pos : Nat) (e : Expr) (s s1 : Sem) (name : Bytes)
    (top : Block) (rest : List Block) (v : Value) (st : List Value)
    (hc : constStr p idx = some name) (he : evalE p e s = .ok s1)
    (hb : s1.blocks = top :: rest) (hs : s1.stack = v :: st)
    (hnc : ∀ b, top.fields.get name ≠ .child b) :
    evalE p (.setField idx e pos) s
      = .ok { s1 with blocks := .mk top.typ top.name (top.fields.setVal name v) :: rest } := by
  simp only [evalE, he, Res.bind, hc, hb]
  rw [hs]
  -- the wildcard branch of the match: `hnc` rules the `child` pattern out
  simp only

/-- After `setVal` the field reads back the assigned value. -/
theorem setVal_get : ∀ (fs : Fields) (k : Bytes) (v : Value), (fs.setVal k v).get k = .val v
  | .nil, k, v => by simp [Fields.setVal, Fields.get]
  | .val k' v' rest, k, v => by
    unfold Fields.setVal
    by_cases h : k' = k
    · simp [h, Fields.get]
    · simp [h, Fields.get, setVal_get rest k v]
  | .child k' b rest, k, v => by
    unfold Fields.setVal
    by_cases h : k' = k
    · simp [h, Fields.get]
    · simp [h, Fields.get, setVal_get rest k v]

end Bclv.C02
