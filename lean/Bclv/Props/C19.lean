import Bclv.Proofs.Trace
import Bclv.Proofs.Verifier

/-! # C19 — introspection options only observe

The trace option is the one option that runs *inside* the machine loop; disassembly and
statistics are printed before and after it (`api.go`) from data the run does not read.
The theorems are about the VM model of `Model/Vm.lean` (`vmStep`/`vmRun`, with the trace
flag), which the `options` stream compares with `bcl.Execute` under all eight option
sets, text included. -/

namespace Bclv

/-- **Tracing only observes.**  If the tracer can print every instruction the run
reaches (`TraceOK`), the traced and the untraced run end the same way — same halt reason
and message, same stack, blocks, result, binding, log, counters — and their outputs
differ only by the trace records (`erase` drops them and keeps the program's prints in
order).  `n` is the step budget; the claim holds for every budget. -/
theorem trace_noninterference (p : Prog) (n : Nat) (vm : VM) (h : TraceOK p n vm) :
    (vmRun p true n vm).erase = (vmRun p false n vm).erase :=
  run_noninterference p n vm vm rfl h

/-- Same statement from the initial machine, as `execute` runs it. -/
theorem execute_trace_noninterference (p : Prog) (n : Nat) (h : TraceOK p n {}) :
    (execute p true n).erase = (execute p false n).erase :=
  trace_noninterference p n {} h

/-- A printable instruction has an opcode byte, and, when the byte is a known opcode,
decodes with the machine's reader: disassembly and execution agree on what is there. -/
theorem traceText_decodes (p : Prog) (vm : VM) (t : Bytes) (ht : traceText p vm = some t) :
    ∃ b, p.code[vm.pc]? = some b ∧ (Op.ofByte b = none ∨ ∃ i, decodeAt p vm.pc = some i) := by
  unfold traceText at ht
  cases hd : disasmInstr p vm.pc with
  | none => simp [hd] at ht
  | some r =>
    unfold disasmInstr at hd
    cases hb : p.code[vm.pc]? with
    | none => simp [hb] at hd
    | some b =>
      refine ⟨b, rfl, ?_⟩
      cases ho : Op.ofByte b with
      | none => exact .inl rfl
      | some o =>
        right
        simp only [hb, ho, Option.bind_eq_bind, Option.bind_some] at hd
        cases hpos : p.positions[vm.pc]? with
        | none => simp [hpos] at hd
        | some pos =>
          simp only [hpos, Option.bind_some] at hd
          unfold decodeAt
          simp only [hb, ho, Option.bind_eq_bind, Option.bind_some]
          cases o <;> simp only at hd ⊢ <;>
            first
            | exact ⟨_, rfl⟩
            | (cases h1 : readUv p (vm.pc + 1) with
               | none => simp [h1] at hd
               | some r1 =>
                 obtain ⟨x, n1⟩ := r1
                 simp only [h1, Option.bind_some] at hd ⊢
                 first
                 | exact ⟨_, rfl⟩
                 | (cases h2 : readUv p n1 with
                    | none => simp [h2] at hd
                    | some r2 => obtain ⟨y, n2⟩ := r2; simp only [h2, Option.bind_some]; exact ⟨_, rfl⟩)
                 | (cases h2 : p.code[n1]? with
                    | none => simp [h2] at hd
                    | some c => simp only [h2, Option.bind_some]; exact ⟨_, rfl⟩))
            | (cases h1 : readU16 p (vm.pc + 1) with
               | none => simp [h1] at hd
               | some r1 => obtain ⟨x, n1⟩ := r1; simp only [h1, Option.bind_some]; exact ⟨_, rfl⟩)

/-- One traced step reads exactly one instruction and writes exactly one trace record,
however the step ends (next, halt, or a fault inside the instruction). -/
theorem traced_step (p : Prog) (vm : VM) (t : Bytes) (ht : traceText p vm = some t) :
    (vmStep p true vm).vm.opsRead = vm.opsRead + 1
    ∧ traces (vmStep p true vm).vm.out = traces vm.out + 1 := by
  obtain ⟨b, hb, h⟩ := traceText_decodes p vm t ht
  rcases h with hnone | ⟨i, hi⟩
  · unfold vmStep
    simp [ht, hb, hnone, Step.vm, traces, isPrint]
  · cases ho : Op.ofByte b with
    | none =>
      unfold vmStep
      simp [ht, hb, ho, Step.vm, traces, isPrint]
    | some o => exact traced_step_counts p vm t ht i hi b hb o ho

def RunRes.vm : RunRes → VM
  | .done vm _ => vm
  | .panic vm => vm
  | .timeout vm => vm

/-- **The trace lists exactly the instructions executed, as many as the statistics
report**: over a whole traced run — ending in success, a runtime error, or the budget —
the number of trace records written equals the growth of `opsRead`, the counter
`OptStats` prints as `ops.read`. -/
theorem trace_counts_ops (p : Prog) : ∀ (n : Nat) (vm : VM), TraceOK p n vm →
    traces (vmRun p true n vm).vm.out + vm.opsRead = traces vm.out + (vmRun p true n vm).vm.opsRead := by
  intro n
  induction n with
  | zero => intro vm _; simp [vmRun, RunRes.vm]
  | succ n ih =>
    intro vm hok
    obtain ⟨hsome, hnext⟩ := hok
    obtain ⟨t, ht⟩ := Option.isSome_iff_exists.mp hsome
    obtain ⟨h1, h2⟩ := traced_step p vm t ht
    simp only [vmRun]
    cases hs : vmStep p true vm with
    | next vm' =>
      rw [hs] at h1 h2
      simp only [Step.vm] at h1 h2
      have := ih vm' (hnext vm' hs)
      simp only; omega
    | halt vm' e => rw [hs] at h1 h2; simp only [Step.vm] at h1 h2; simp only [RunRes.vm]; omega
    | panic vm' => rw [hs] at h1 h2; simp only [Step.vm] at h1 h2; simp only [RunRes.vm]; omega

/-- From the initial machine: trace records = `ops.read`. -/
theorem execute_trace_counts (p : Prog) (n : Nat) (h : TraceOK p n {}) :
    traces (execute p true n).vm.out = (execute p true n).vm.opsRead := by
  have := trace_counts_ops p n {} h
  simpa [execute, traces] using this

/-- A traced run only ever adds to the output (nothing a program printed is lost or
reordered by tracing): the print records of one step are those of the untraced step. -/
theorem trace_keeps_prints (p : Prog) (vm : VM) (t : Bytes) (ht : traceText p vm = some t) :
    (vmStep p true vm).erase = (vmStep p false vm).erase :=
  step_noninterference p vm vm rfl t ht

/-! ## programs accepted by the checker (`Verifier.lean`, C10) -/


theorem isStrConst_quote {p : Prog} {idx : Nat} (h : isStrConst p idx = true) : ∃ q, quoteConst p idx = some q := by
  unfold isStrConst constStr at h
  unfold quoteConst
  cases hc : p.consts[idx]? with
  | none => simp [hc] at h
  | some v => exact ⟨_, rfl⟩

theorem lt_quote {p : Prog} {idx : Nat} (h : idx < p.consts.length) : ∃ q, quoteConst p idx = some q := by
  unfold quoteConst
  rw [List.getElem?_eq_getElem h]; exact ⟨_, rfl⟩

theorem isStrConst_ge {p : Prog} {idx : Nat} (h : ¬ idx < p.consts.length) : isStrConst p idx = false := by
  unfold isStrConst constStr
  rw [List.getElem?_eq_none (by omega)]; rfl

/-- What the checker accepts, the disassembler can print. -/
theorem disasm_of_flow {p : Prog} {pc : Nat} {i : Instr} {s : St} {succs : List (Nat × St)}
    (hd : decodeAt p pc = some i) (hf : flow p i s = some succs)
    (hpos : p.positions.length = p.code.length) : (disasmInstr p pc).isSome = true := by
  unfold decodeAt at hd
  cases hb : p.code[pc]? with
  | none => simp [hb] at hd
  | some b =>
    have hlt : pc < p.code.length := (List.getElem?_eq_some_iff.mp hb).1
    have hp : ∃ pos, p.positions[pc]? = some pos := ⟨p.positions[pc]'(by omega), List.getElem?_eq_getElem (by omega)⟩
    obtain ⟨pos, hp⟩ := hp
    cases ho : Op.ofByte b with
    | none => simp [hb, ho] at hd
    | some o =>
      simp only [hb, ho, Option.bind_eq_bind, Option.bind_some] at hd
      unfold disasmInstr
      simp only [hb, hp, ho, Option.bind_eq_bind, Option.bind_some]
      cases o <;> simp only at hd ⊢ <;>
        first
        | rfl
        | (cases h1 : readU16 p (pc + 1) with
           | none => simp [h1] at hd
           | some r1 => rfl)
        | (cases h1 : readUv p (pc + 1) with
           | none => simp [h1] at hd
           | some r1 =>
             obtain ⟨x, n1⟩ := r1
             simp only [h1, Option.bind_some] at hd ⊢
             first
             | rfl
             | (simp only [Option.pure_def, Option.some.injEq] at hd
                subst hd
                simp only [flow] at hf
                have hq : ∃ q, quoteConst p x = some q := by
                  apply lt_quote
                  exact Classical.byContradiction (fun hh => by
                    have h2 := isStrConst_ge hh
                    simp [hh, h2] at hf)
                obtain ⟨q, hq⟩ := hq; simp [hq])
             | (cases h2 : readUv p n1 with
                | none => simp [h2] at hd
                | some r2 =>
                  obtain ⟨y, n2⟩ := r2
                  simp only [h2, Option.bind_some, Option.pure_def, Option.some.injEq] at hd ⊢
                  subst hd
                  simp only [flow] at hf
                  have hq1 : ∃ q, quoteConst p x = some q := by
                    apply isStrConst_quote; exact Classical.byContradiction (fun hh => by simp [hh] at hf)
                  have hq2 : ∃ q, quoteConst p y = some q := by
                    apply isStrConst_quote; exact Classical.byContradiction (fun hh => by simp [hh] at hf)
                  obtain ⟨q1, hq1⟩ := hq1; obtain ⟨q2, hq2⟩ := hq2; simp [hq1, hq2])
             | (cases h2 : p.code[n1]? with
                | none => simp [h2] at hd
                | some c =>
                  simp only [h2, Option.bind_some, Option.pure_def, Option.some.injEq] at hd ⊢
                  subst hd
                  simp only [flow] at hf
                  have hq1 : ∃ q, quoteConst p x = some q := by
                    apply isStrConst_quote; exact Classical.byContradiction (fun hh => by simp [hh] at hf)
                  obtain ⟨q1, hq1⟩ := hq1; simp [hq1]))

theorem Inv_erase {m : DepthMap} {a b : VM} (h : a.erase = b.erase) : Inv m a → Inv m b := by
  have h1 : a.pc = b.pc := by have := congrArg VM.pc h; simpa [VM.erase] using this
  have h2 : a.stack = b.stack := by have := congrArg VM.stack h; simpa [VM.erase] using this
  have h3 : a.blocks = b.blocks := by have := congrArg VM.blocks h; simpa [VM.erase] using this
  unfold Inv; rw [h1, h2, h3]; exact id

/-- **A program the checker accepts can be traced all the way**: at every instruction
the run reaches the tracer has something to print (so `OptTrace` cannot panic on it). -/
theorem wf_traceOK {p : Prog} {m : DepthMap} (hc : checkMap p m = true) :
    ∀ (n : Nat) (vm : VM), Inv m vm → TraceOK p n vm := by
  intro n
  induction n with
  | zero => intro vm _; trivial
  | succ n ih =>
    intro vm hinv
    obtain ⟨i, succs, hd, _, hf, _⟩ := checkMap_at hc hinv
    have hsome := disasm_of_flow hd hf (checkMap_pos hc)
    have hts : (traceText p vm).isSome = true := by
      unfold traceText; simpa using hsome
    refine ⟨hts, ?_⟩
    intro vm' hstep
    obtain ⟨t, ht⟩ := Option.isSome_iff_exists.mp hts
    have hni := step_noninterference p vm vm rfl t ht
    have hsafe := step_safe hc vm hinv
    rw [hstep] at hni
    cases h2 : vmStep p false vm with
    | next b' =>
      rw [h2] at hni hsafe
      simp only [Step.erase, Step.next.injEq] at hni
      exact ih vm' (Inv_erase hni.symm hsafe)
    | halt b' h => rw [h2] at hni; simp [Step.erase] at hni
    | panic b' => rw [h2] at hni; simp [Step.erase] at hni

/-- **C19 for checked programs, no side condition**: tracing changes nothing but the
trace records, the traced run never panics, and the records number `ops.read`. -/
theorem wf_trace_only_observes (p : Prog) (m : DepthMap) (hc : checkMap p m = true) (n : Nat) :
    (execute p true n).erase = (execute p false n).erase
    ∧ traces (execute p true n).vm.out = (execute p true n).vm.opsRead
    ∧ (∀ vm, execute p true n ≠ .panic vm) := by
  have hok := wf_traceOK hc n {} (checkMap_init hc)
  refine ⟨execute_trace_noninterference p n hok, execute_trace_counts p n hok, ?_⟩
  intro vm hp
  have h1 := execute_trace_noninterference p n hok
  have h2 := run_safe hc n {} (checkMap_init hc)
  unfold execute at h1 hp h2
  rw [hp] at h1
  cases h3 : vmRun p false n {} with
  | panic v => rw [h3] at h2; exact h2
  | done v h => rw [h3] at h1; simp [RunRes.erase] at h1
  | timeout v => rw [h3] at h1; simp [RunRes.erase] at h1

end Bclv
