import Bclv.Model.Tree
import Bclv.Model.Lexer
import Bclv.Model.Parser
import Bclv.Proofs.ParserErase4
import Bclv.Proofs.LexLayout3
import Bclv.Proofs.LexRender6
import Bclv.Proofs.LexRender9
import Bclv.Proofs.Group9
import Bclv.Proofs.LexRender10
import Bclv.Proofs.Leaves1
import Bclv.Proofs.Leaves2
import Bclv.Proofs.Compile
import Bclv.Model.Api
import Bclv.Props.C01
/-!
# C20 — layout, comments and redundant parentheses never change meaning

What decides this property on every run is the `layout` stream: each generated program is
re-rendered with random admissible separators (all eight whitespace runes, comments with
arbitrary content, optional `;`, redundant parentheses) and the instructions, constants
and run outcomes must coincide, on the implementation and on the model.  Proved here are
the pieces that do not need a theory of re-rendering:

* `parse_positions` / `parse_positions_code` (`Proofs/ParserErase1`–`4`): **source positions do
  not steer the parser** — for any two token lists that agree up to the recorded offsets
  (and any two line tables) the parser returns the same tree up to positions, the same
  constant pool, the same verdict and statistics, and the compiler emits the same
  instruction bytes.  Proved relationally through every parser function (two runs from
  states with the same erasure end in states with the same erasure; the diagnostics' text,
  which does contain line and column, is part of what is erased).  So layout can reach the
  compiled program only through the token list itself (kinds and texts), never through
  where the tokens stand;
* `leading_layout_skipped` (`Proofs/LexLayout1`–`3`, `Proofs/LexFuel`): **layout in front of
  the unread input is skipped** — dropping one separator (a run of whitespace runes, or a
  `#` comment up to its line end) from the front of *any* input leaves the lexer's tokens
  unchanged up to their offsets, hence (`leading_layout_program`) the instruction bytes,
  the constants and the verdict.  Spelled out: `leading_ascii_space` (each of the six ASCII
  whitespace bytes), `leading_nel`, `leading_nbsp` (U+0085, U+00A0), `leading_comment` with
  `dropComment_ascii` (everything before the next CR or LF).  The lexer is a function of
  its unread bytes at every start state (`lexFrom_indep`), so this is what happens at every
  token boundary the lexer reaches; what is *not* proved is that the tokens before such a
  boundary are unaffected by what follows it (that needs a lemma per token kind about its
  one-rune lookahead) — this half stays with the `layout` stream.  On the way:
  `lexWhole_budget_free` (the lexer model's result does not depend on its two budgets once
  they exceed the input length resp. `3·len + 4`), `lexRun_erase` (a run over primitives
  that report offset 0 produces the same tokens with offsets erased);
* `same_reading_same_program` (`Proofs/LexRender1`–`6`): **two source texts that read as the
  same tokens compile to the same program.**  "`a` reads as `toks`" (`Lexes`) is defined
  without the lexer: after any layout (whitespace runes, `#` comments to the line end) comes
  the text of the first token, followed by something that ends it, and so on, until only
  layout remains.  `lexWhole_of_lexes` shows the lexer returns exactly `toks` and the end
  token.  The token texts are characterised by lemmas about the state functions, each with
  the weakest condition on what follows: identifiers and keywords (`lexeme_ident`: next rune
  not a letter, digit, `_` or `"`), decimal integers (`lexeme_int`: next rune not a digit,
  `.`, `e`, `E`, letter or `"`), string literals without escapes (`lexeme_str`: the bytes
  between the quotes reach the value one for one, next rune not a letter or digit),
  one-rune punctuation (`lexeme_op1`: anything may follow), the first rune of a two-rune
  operator (`lexeme_op2first`: next rune not the second one), two-rune operators
  (`lexeme_op2`).  So any number and kind of separators between such tokens — and none at
  all where the follow condition allows it — give the same tokens, hence (by
  `parse_positions`) the same instructions, constants and verdict.  Further lexeme lemmas
  (`Proofs/LexRender7`–`9`): hexadecimal integers (`lexeme_hex`), floating-point literals
  with fraction, exponent or both and an optional sign (`lexeme_float_frac`,
  `lexeme_float_exp`, `lexeme_float_frac_exp`), and string literals with escapes
  (`lexeme_str_esc`: `StrBody` — plain bytes and a backslash followed by any byte but a line
  feed — reaches the token's text one for one: nothing between the quotes is layout).  The
  lexeme lemmas are about ASCII texts (a string literal with multi-byte characters inside is
  not covered).  Not a theorem at all: that an optional `;` or redundant parentheses
  (different token lists) give the same tree — those stay with the `layout` stream;
* `positions_do_not_reach_code_partial`: the code bytes the compiler emits for an
  expression, a statement or a program do not depend on any recorded source position —
  two trees that differ only in positions compile to the same instructions;
* `parentheses_leave_no_trace`: the syntax tree has no node for parentheses (the `parens`
  prefix rule returns the inner expression), so redundant parentheses cannot change the
  code — what they change is only where the parser looks for the operands;
* `whitespace_set`, `comment_end`: the lexer's whitespace runes are exactly the eight of
  the property, and a comment ends at CR, LF or end of input and nowhere else.
-/
namespace Bclv.C20
open Bclv

/-- Layout reaches the program only through the kinds and texts of the tokens. -/
theorem layout_only_through_tokens (toks₁ toks₂ : List Token) (lfs₁ lfs₂ : List Nat)
    (h : toks₁.map eT = toks₂.map eT) :
    (compileP (parseTokens toks₁ lfs₁).prog).map Prod.fst = (compileP (parseTokens toks₂ lfs₂).prog).map Prod.fst ∧
    (parseTokens toks₁ lfs₁).consts = (parseTokens toks₂ lfs₂).consts ∧
    (parseTokens toks₁ lfs₁).ok = (parseTokens toks₂ lfs₂).ok :=
  parse_positions_code toks₁ toks₂ lfs₁ lfs₂ h

/-- Leading layout is skipped (lexer side), as a statement about whole inputs. -/
theorem leading_layout (a : Bytes) : (lexWhole a).map eT = (lexWhole (skipSep a)).map eT :=
  leading_layout_skipped a

/-- Layout between tokens does not matter: the statement about whole source texts. -/
theorem layout_between_tokens (a b : Bytes) (toks : List Token)
    (ha : Lexes (a.length + 1) toks a) (hb : Lexes (b.length + 1) toks b) :
    (compileP (parseTokens (lexWhole a) (newlinesFrom 0 a)).prog).map Prod.fst
      = (compileP (parseTokens (lexWhole b) (newlinesFrom 0 b)).prog).map Prod.fst ∧
    (parseTokens (lexWhole a) (newlinesFrom 0 a)).consts = (parseTokens (lexWhole b) (newlinesFrom 0 b)).consts ∧
    (parseTokens (lexWhole a) (newlinesFrom 0 a)).ok = (parseTokens (lexWhole b) (newlinesFrom 0 b)).ok :=
  same_reading_same_program a b toks ha hb

/-- non-vacuity: the same three tokens at different offsets -/
example : ([⟨.PRINT, [112], [], 0⟩, ⟨.INT, [49], [], 6⟩, ⟨.EOF, [], [], 7⟩] : List Token).map eT
    = ([⟨.PRINT, [112], [], 3⟩, ⟨.INT, [49], [], 40⟩, ⟨.EOF, [], [], 90⟩] : List Token).map eT := by
  simp [eT]

/-- Forget every recorded position. -/
def eraseE : Expr → Expr
  | .lit l _ => .lit l 0
  | .const i _ => .const i 0
  | .getLocal s _ => .getLocal s 0
  | .getField i _ => .getField i 0
  | .setLocal s e _ => .setLocal s (eraseE e) 0
  | .setField i e _ => .setField i (eraseE e) 0
  | .un op e _ => .un op (eraseE e) 0
  | .bin op a b _ => .bin op (eraseE a) (eraseE b) 0
  | .and a b _ => .and (eraseE a) (eraseE b) 0
  | .or a b _ => .or (eraseE a) (eraseE b) 0
  | .bad => .bad

theorem sizeE_erase : ∀ (e : Expr), sizeE (eraseE e) = sizeE e := by
  intro e
  induction e with
  | lit l p => rfl
  | const i p => rfl
  | getLocal s p => rfl
  | getField i p => rfl
  | setLocal s e p ih => simp [eraseE, sizeE, ih]
  | setField i e p ih => simp [eraseE, sizeE, ih]
  | un op e p ih => simp [eraseE, sizeE, ih]
  | bin op a b p iha ihb => simp [eraseE, sizeE, iha, ihb]
  | and a b p iha ihb => simp [eraseE, sizeE, iha, ihb]
  | or a b p iha ihb => simp [eraseE, sizeE, iha, ihb]
  | bad => rfl

theorem map_fst_atPos (pos : Nat) (bs : Bytes) : (atPos pos bs).map Prod.fst = bs := by
  simp [atPos, List.map_map, Function.comp_def]

/-- **Only the recorded positions differ**: the instruction bytes of an expression are a
function of the tree without its positions. -/
theorem positions_do_not_reach_code_partial : ∀ (e : Expr),
    (compileE e).map Prod.fst = (compileE (eraseE e)).map Prod.fst := by
  intro e
  induction e with
  | lit l p => simp [compileE, eraseE, opAt, map_fst_atPos]
  | const i p => simp [compileE, eraseE, opArg, map_fst_atPos]
  | getLocal s p => simp [compileE, eraseE, opArg, map_fst_atPos]
  | getField i p => simp [compileE, eraseE, opArg, map_fst_atPos]
  | setLocal s e p ih => simp [compileE, eraseE, opArg, map_fst_atPos, ih]
  | setField i e p ih => simp [compileE, eraseE, opArg, map_fst_atPos, ih]
  | un op e p ih => simp [compileE, eraseE, opAt, map_fst_atPos, ih]
  | bin op a b p iha ihb => simp [compileE, eraseE, iha, ihb, List.map_map, Function.comp_def]
  | and a b p iha ihb => simp [compileE, eraseE, iha, ihb, jumpAt, opAt, map_fst_atPos, sizeE_erase]
  | or a b p iha ihb => simp [compileE, eraseE, iha, ihb, jumpAt, opAt, map_fst_atPos, sizeE_erase]
  | bad => rfl

/-- **Parentheses leave no trace**: the tree the `parens` rule returns is the tree of the
expression between the parentheses; there is no node for the parentheses themselves, so
nothing is compiled for them. -/
theorem parentheses_leave_no_trace (ca : Bool) (f : Nat) (p : PState) :
    ((prefixRule .parens ca (f + 1)).run p).1 = ((parsePrecedence precAssign f).run p).1 := by
  simp only [prefixRule, bind, StateT.bind, StateT.run, get, getThe, MonadStateOf.get, StateT.get, pure, StateT.pure]
  rcases parsePrecedence precAssign f p with ⟨a, s⟩
  rfl

/-- The lexer's whitespace: exactly space, tab, VT, FF, LF, CR, U+0085, U+00A0. -/
theorem whitespace_set (r : Rune) :
    isSpaceR r = true ↔ r = 32 ∨ r = 9 ∨ r = 11 ∨ r = 12 ∨ r = 10 ∨ r = 13 ∨ r = 0x85 ∨ r = 0xA0 := by
  simp only [isSpaceR, Bool.or_eq_true, beq_iff_eq]
  constructor
  · rintro (((((((h | h) | h) | h) | h) | h) | h) | h) <;> simp [h]
  · rintro (h | h | h | h | h | h | h | h) <;> simp [h]

/-- A comment ends at CR or LF (or at the end of the input) and nowhere else: the loop
goes on over every other rune. -/
theorem comment_end {σ : Type} (P : LexPrims σ) (f : Nat) (s : σ) :
    commentLoop P (f + 1) s =
      (if isEol (P.next s).1 || (P.next s).1 == eofR then P.ignore (P.backup (P.next s).2)
       else commentLoop P f (P.next s).2) := rfl

theorem eol_set (r : Rune) : isEol r = true ↔ r = 10 ∨ r = 13 := by simp [isEol]

/-- **Nothing between the quotes is layout, whatever the bytes**: any byte but `"`, `\` and line
feed stands for itself — multi-byte characters, invalid UTF-8, `#`, `;`, parentheses, every
whitespace character but the line feed — and a backslash takes the next ASCII byte with it;
the token's text is the literal, byte for byte. -/
theorem string_literal_any_bytes (body : Bytes) (h : StrBodyB body) :
    Lexeme (strText body) { typ := .STR, val := strText body } FStr :=
  lexeme_str_bytes body h

/-! ## the optional `;` and redundant parentheses, at the level of the tree's shape

`RdProgF` (`Proofs/Group7.lean`) is the reading relation of C01 with the side conditions on what
may follow a statement.  The token kinds of an accepted text read as the shape of the program
tree and as no other (`C01.accepted_source_has_one_reading`), so two accepted texts whose token
kinds read as one common shape are parsed to trees of that same shape — whatever differs between
them.  What may differ: a `;` after a statement (`optional_semicolon`), parentheses around
anything that reads as an expression (`C01.parentheses_read_the_same`).  The shape is the tree
without its leaves' contents (which constant, which variable) and without positions. -/

/-- two accepted texts whose token kinds read as one common shape have program trees of that shape -/
theorem same_reading_same_shape (a b : Bytes)
    (ha : (parseTokens (lexWhole a) (newlinesFrom 0 a)).ok = true)
    (hb : (parseTokens (lexWhole b) (newlinesFrom 0 b)).ok = true)
    (ss : ShSs)
    (hra : ∀ body e, lexWhole a = body ++ [e] → RdProgF ss (typs body) .EOF)
    (hrb : ∀ body e, lexWhole b = body ++ [e] → RdProgF ss (typs body) .EOF) :
    shapeSs (parseTokens (lexWhole a) (newlinesFrom 0 a)).prog.body =
    shapeSs (parseTokens (lexWhole b) (newlinesFrom 0 b)).prog.body := by
  obtain ⟨ba, ea, hla, _, _, hua⟩ := source_reads_unique a ha
  obtain ⟨bb, eb, hlb, _, _, hub⟩ := source_reads_unique b hb
  rw [← hua ss (hra ba ea hla), ← hub ss (hrb bb eb hlb)]

/-- **The optional `;`**: a `;` after a statement leaves the reading as it was (first statement
of a program; `Group9.semicolon_after_first_in_body` is the same inside a block). -/
theorem optional_semicolon (s : ShS) (ss : ShSs) (ts rest : List TokType) (c : TokType)
    (hs : RdSF false s ts (followOf rest c)) (hrest : RdProgF ss rest c) :
    RdProgF (.cons s ss) (ts ++ .SEMICOLON :: rest) c :=
  semicolon_after_first s ss ts rest c hs hrest

/-! ## redundant parentheses: the same expression, leaves included -/

theorem stripE_eq_eraseE : ∀ (e : Expr), stripE e = eraseE e := by
  intro e
  induction e with
  | lit | const | getLocal | getField | bad => rfl
  | setLocal s e p ih => simp [stripE, eraseE, ih]
  | setField i e p ih => simp [stripE, eraseE, ih]
  | un op e p ih => simp [stripE, eraseE, ih]
  | bin op a b p iha ihb => simp [stripE, eraseE, iha, ihb]
  | and a b p iha ihb => simp [stripE, eraseE, iha, ihb]
  | or a b p iha ihb => simp [stripE, eraseE, iha, ihb]

/-- the tokens consumed between two parser states are determined by the states -/
theorem skips_unique {a b : List Token} {p q : PState} (h1 : Skips a p q) (h2 : Skips b p q) : a = b := by
  unfold Skips at h1 h2
  rw [h1] at h2
  exact List.append_cancel_right h2

/-- **The operands of an expression's tree are what its operand tokens make of the state**
(`Proofs/Leaves1`): whatever `expr` consumes without reporting an error, the resolved operands of
the tree, from left to right, and the constant pool, de-duplication table, locals and depth it
ends with are `atomsE` — a fold of one function of a token's kind and text — over the literals and
names among the consumed tokens.  Operators and parentheses contribute nothing. -/
theorem operands_from_operand_tokens (f : Nat) (p : PState) (hi : GInv p) (hne : NE (expr f p).2)
    (sk : List Token) (hs : Skips sk p (expr f p).2) :
    atomsE (atomsOf sk) p.E = (ratoms (expr f p).1, (expr f p).2.E) := by
  obtain ⟨sk0, hs0, hl⟩ := (expr_leaves f p hi).2 hne
  rw [skips_unique hs hs0]
  exact hl

/-- **Redundant parentheses do not change an expression.**  Two accepted renderings of an
expression whose token kinds read as one common shape (what redundant parentheses around any
sub-expression leave unchanged: `C01.parentheses_read_the_same`) and whose operand tokens —
literals and names, in order, by kind and text — are the same, parsed from states with the
same constant pool, de-duplication table, locals and depth, give the same tree up to the recorded
positions, hence the same instruction bytes, and end with the same pool, table, locals and
depth.  (Expression level; for whole programs the shape is proved — `same_reading_same_shape` —
and the leaves are decided per input by the `layout` stream.) -/
theorem same_rendering_same_expression (f f' : Nat) (p q : PState) (hp : GInv p) (hq : GInv q)
    (hnp : NE (expr f p).2) (hnq : NE (expr f' q).2) (sk sk' : List Token)
    (hs : Skips sk p (expr f p).2) (hs' : Skips sk' q (expr f' q).2)
    (s : Sh) (h1 : Rd precAssign s (typs sk) 0) (h2 : Rd precAssign s (typs sk') 0)
    (hat : atomsOf sk = atomsOf sk') (hE : p.E = q.E) :
    eraseE (expr f p).1 = eraseE (expr f' q).1
    ∧ (compileE (expr f p).1).map Prod.fst = (compileE (expr f' q).1).map Prod.fst
    ∧ (expr f p).2.E = (expr f' q).2.E := by
  have hsh := C01.same_rendering_same_shape f f' p q hp hq hnp hnq sk sk' hs hs' s h1 h2
  have ha := operands_from_operand_tokens f p hp hnp sk hs
  have hb := operands_from_operand_tokens f' q hq hnq sk' hs'
  rw [hat, hE, hb] at ha
  have hr : ratoms (expr f' q).1 = ratoms (expr f p).1 := congrArg Prod.fst ha
  have hEE : (expr f' q).2.E = (expr f p).2.E := congrArg Prod.snd ha
  have he : eraseE (expr f p).1 = eraseE (expr f' q).1 := by
    rw [← stripE_eq_eraseE, ← stripE_eq_eraseE]
    exact strip_eq_of_shape_ratoms _ _ hsh hr.symm
  refine ⟨he, ?_, hEE.symm⟩
  rw [positions_do_not_reach_code_partial, positions_do_not_reach_code_partial (expr f' q).1, he]

/-! ## redundant parentheses and optional `;`: the same program -/

/-- an accepted text has no failure token -/
theorem accepted_no_fail (a : Bytes) (hok : (parseTokens (lexWhole a) (newlinesFrom 0 a)).ok = true) :
    ∀ t ∈ lexWhole a, t.typ ≠ .FAIL := by
  obtain ⟨body, e, hbe, he, _⟩ := source_sound a hok
  obtain ⟨pre, e0, htoks, he0, hpre, _⟩ := lexWhole_shape a
  have hsame : pre = body ∧ e0 = e := by
    have := htoks.symm.trans hbe
    have h1 := List.append_inj' this rfl
    exact ⟨h1.1, by simpa using h1.2⟩
  obtain ⟨rfl, rfl⟩ := hsame
  intro t ht
  rw [htoks] at ht
  rcases List.mem_append.mp ht with ht | ht
  · intro h; have := hpre t ht; rw [h] at this; cases this
  · simp at ht; rw [ht, he]; intro h; cases h

/-- **Layout, the optional `;` and redundant parentheses never change the compiled program.**
Two accepted source texts whose token kinds read as one common shape (`same_reading_same_shape`:
what an optional `;` after a statement and parentheses around any sub-expression leave unchanged)
and whose tokens other than `(`, `)` and `;` are the same, kind and text, in the same order —
whatever whitespace and comments stand between them — compile to the same instructions and the
same constants; the program trees differ in the recorded positions only. -/
theorem same_reading_same_compiled_program (a b : Bytes)
    (ha : (parseTokens (lexWhole a) (newlinesFrom 0 a)).ok = true)
    (hb : (parseTokens (lexWhole b) (newlinesFrom 0 b)).ok = true)
    (ss : ShSs)
    (hra : ∀ body e, lexWhole a = body ++ [e] → RdProgF ss (typs body) .EOF)
    (hrb : ∀ body e, lexWhole b = body ++ [e] → RdProgF ss (typs body) .EOF)
    (hcore : coreOf (lexWhole a) = coreOf (lexWhole b)) :
    (compileP (parseTokens (lexWhole a) (newlinesFrom 0 a)).prog).map Prod.fst
      = (compileP (parseTokens (lexWhole b) (newlinesFrom 0 b)).prog).map Prod.fst
    ∧ (parseTokens (lexWhole a) (newlinesFrom 0 a)).consts = (parseTokens (lexWhole b) (newlinesFrom 0 b)).consts
    ∧ erP (parseTokens (lexWhole a) (newlinesFrom 0 a)).prog = erP (parseTokens (lexWhole b) (newlinesFrom 0 b)).prog := by
  have hsh := same_reading_same_shape a b ha hb ss hra hrb
  obtain ⟨h1, h2, h3⟩ := same_core_same_program (lexWhole a) (lexWhole b) (newlinesFrom 0 a) (newlinesFrom 0 b)
    (lexWhole_lastEnd a) (lexWhole_lastEnd b) (accepted_no_fail a ha) (accepted_no_fail b hb) ha hb hsh hcore
  exact ⟨h3, h2, h1⟩

/-- The same at the level of `Parse`: the compiled programs of two such texts have the same code
section and the same constants section (what a dump shows of them); only positions and line table
differ. -/
theorem same_reading_same_code_and_constants (name : Bytes) (a b : Bytes)
    (ha : (parseWhole name a).ok = true) (hb : (parseWhole name b).ok = true)
    (ss : ShSs)
    (hra : ∀ body e, lexWhole a = body ++ [e] → RdProgF ss (typs body) .EOF)
    (hrb : ∀ body e, lexWhole b = body ++ [e] → RdProgF ss (typs body) .EOF)
    (hcore : coreOf (lexWhole a) = coreOf (lexWhole b)) :
    (parseWhole name a).prog.code = (parseWhole name b).prog.code
    ∧ (parseWhole name a).prog.consts = (parseWhole name b).prog.consts := by
  have ha' : (parseTokens (lexWhole a) (newlinesFrom 0 a)).ok = true := ha
  have hb' : (parseTokens (lexWhole b) (newlinesFrom 0 b)).ok = true := hb
  obtain ⟨h1, h2, _⟩ := same_reading_same_compiled_program a b ha' hb' ss hra hrb hcore
  constructor
  · simp only [parseWhole, ha', hb', if_true, compilePFast_eq]
    exact h1
  · simp only [parseWhole]
    exact h2


/-- Two such texts: `var x=2 def t{y=x*3}print x` and the same with a comment, other spacing,
parentheses and semicolons — the same core tokens, both accepted, the same code and constants. -/
def txtA : Bytes := str "var x=2 def t{y=x*3}print x"
def txtB : Bytes := str "var x = (2);\n# c\ndef t { y = ((x) * 3); }\nprint (x);"

example : coreOf (lexWhole txtA) = coreOf (lexWhole txtB)
    ∧ (parseTokens (lexWhole txtA) (newlinesFrom 0 txtA)).ok = true
    ∧ (parseTokens (lexWhole txtB) (newlinesFrom 0 txtB)).ok = true
    ∧ (compileP (parseTokens (lexWhole txtA) (newlinesFrom 0 txtA)).prog).map Prod.fst
        = (compileP (parseTokens (lexWhole txtB) (newlinesFrom 0 txtB)).prog).map Prod.fst
    ∧ (parseTokens (lexWhole txtA) (newlinesFrom 0 txtA)).consts = (parseTokens (lexWhole txtB) (newlinesFrom 0 txtB)).consts := by
  decide +kernel

/-- Non-vacuity: `2 + x * 3` and `(2) + ((x) * 3)` with a local `x` — the same operand tokens, and
the parser returns trees with the same instruction bytes and the same resolved operands. -/
def exA : List Token := [⟨.INT, [50], [], 1⟩, ⟨.PLUS, [43], [], 3⟩, ⟨.IDENT, [120], [], 5⟩, ⟨.STAR, [42], [], 7⟩,
  ⟨.INT, [51], [], 9⟩, ⟨.EOF, [], [], 9⟩]
def exB : List Token := [⟨.LPAREN, [40], [], 1⟩, ⟨.INT, [50], [], 2⟩, ⟨.RPAREN, [41], [], 3⟩, ⟨.PLUS, [43], [], 5⟩,
  ⟨.LPAREN, [40], [], 7⟩, ⟨.LPAREN, [40], [], 8⟩, ⟨.IDENT, [120], [], 9⟩, ⟨.RPAREN, [41], [], 10⟩, ⟨.STAR, [42], [], 12⟩,
  ⟨.INT, [51], [], 14⟩, ⟨.RPAREN, [41], [], 15⟩, ⟨.EOF, [], [], 15⟩]
def exStart (ts : List Token) : PState := (advance { rest := ts, locals := [{ name := [120], depth := 0 }] }).2

example : atomsOf exA.dropLast = atomsOf exB.dropLast
    ∧ ratoms (expr 40 (exStart exA)).1 = [.const 0, .loc 0, .const 1]
    ∧ ratoms (expr 40 (exStart exB)).1 = [.const 0, .loc 0, .const 1]
    ∧ (compileE (expr 40 (exStart exA)).1).map Prod.fst = (compileE (expr 40 (exStart exB)).1).map Prod.fst
    ∧ (expr 40 (exStart exA)).2.hadError = false ∧ (expr 40 (exStart exB)).2.hadError = false := by
  decide +kernel

end Bclv.C20
