import Bclv.Proofs.Termination
import Bclv.Props.C10
import Bclv.Props.C15
import Bclv.Proofs.Scoped
import Bclv.Proofs.ParserScoped9
import Bclv.Proofs.ParserFuel5
import Bclv.Proofs.LexLayout3
/-!
# C06 — every input ends in a result or an error, never a crash or a hang (partial)

The Lean models of the lexer, parser, compiler, loader and binder are total functions in
which every place where the Go code could panic is an explicit outcome; what is proved is
that those outcomes are not reached, and that the machine stops:

* `vm_never_panics_partial` (from C10): a program the checker accepts never reaches a
  `panic` outcome of the VM model and never ends in the internal non-empty-stack error,
  whatever the step budget;
* `vm_bounded_time_partial`: such a program halts — with its result or a runtime error —
  within `code.length + 1` steps (every instruction moves strictly forward: the compiler
  emits no backward jump, the checker rejects `LOOP`);
* `bind_never_panics` (C15): the binder half of `Unmarshal`.

* `every_accepted_program_runs` (`Proofs/ParserScoped9.lean`): **for every input**, if the
  parser model accepts it (and its own step budget was not exhausted), then for every large
  enough step budget the VM on the compiled program ends with a result or a runtime error:
  no panic, no internal error, no running out of steps.  It rests on
  `parse_scoped` (every tree the parser returns is well scoped: slots below the number of
  variables in scope, constant indices in the pool and strings where names are needed,
  fields only inside blocks, jump distances and variable counts in range — proved through
  all the mutual recursion of the parser with a weakest-precondition calculus over the
  parser monad), `evalP_progress` (well-scoped trees never evaluate to `wrong` and end with
  an empty stack) and compile-correctness (C01).  The computable checker `scP` for the same
  predicate is still evaluated by the driver for every accepted program of the
  correspondence runs (op `SCOPED`), as a cross-check of the model the theorem is about.

* `front_end_budgets` (`Proofs/LexTerm.lean`, `LexTermWhole.lean`, `ParserFuel1`–`5`): the
  step budgets of the model's front end are never exhausted, for any input.  The lexer: over
  any input primitives with a measure that `next` decreases and a `backup` right after a
  `next` restores (`PrimMeas`, proved for the whole-input cursor with the number of unread
  bytes), every state function lowers the potential `3·unread + (1|2|3)`, so the run ends
  within `3·len + 4` state functions with `tEOF` or `tFAIL` as its last token
  (`lexWhole_lastEnd`).  The parser: on a token list that ends with a finalizer every loop
  (`advanceLoop`, `syncLoop`, `infixLoop`, `blockLoop`, `topLoop` and the mutual recursion of
  expressions and statements) consumes a token per iteration or ends, so fuel `4·tokens + 16`
  suffices and `stuck` stays `false` (`parse_not_stuck`).
* `lexWhole_budget_free` (`Proofs/LexFuel.lean`, `LexLayout3.lean`): more than not being
  exhausted, the lexer's budgets are irrelevant — every inner budget above the input length
  and every outer budget of at least `3·len + 4` give the same tokens (each loop iteration
  that continues consumes a byte; a run that has ended is not changed by more budget).
* `accepted_source_runs`: `every_accepted_program_runs` with that hypothesis discharged —
  **for every source text** the parser model accepts, the VM on the compiled program ends
  with a result or a runtime error.

Not a theorem: everything about the Go code that is not in the model (the Go lexer and parser
are loops, not fuelled recursions: that they terminate is what the budgets of the model
stand for, and agreement of model and code is what the correspondence streams check).  Per
input:
the `wf` stream runs the bytecode checker on the compiled form of every generated program
(including the limit ladders), and the `limits` stream — arbitrary bytes, token soups,
damaged programs, programs scaled to just below, at and above every implementation limit —
compares the implementation with the model under a watchdog and with `recover`, so a
panic, a hang or a stuck model parser is a reported violation with its input.
-/
namespace Bclv.C06
open Bclv

theorem vm_never_panics_partial (p : Prog) (m : DepthMap) (hc : checkMap p m = true) (n : Nat) :
    match vmRun p false n {} with
    | .panic _ => False
    | .done _ h => ∀ t, h ≠ .internal t
    | .timeout _ => True := by
  have := run_safe hc n {} (checkMap_init hc)
  cases h : vmRun p false n {} with
  | panic v => rw [h] at this; exact this
  | done v hh => rw [h] at this; exact this
  | timeout v => trivial

theorem vm_bounded_time_partial (p : Prog) (m : DepthMap) (hc : checkMap p m = true) (vm' : VM) :
    execute p false (p.code.length + 1) ≠ .timeout vm' :=
  execute_terminates hc vm'

/-- Together: a checked program, run for `code.length + 1` steps, ends in `ok` or a
runtime error. -/
theorem vm_result_or_error (p : Prog) (m : DepthMap) (hc : checkMap p m = true) :
    ∃ vm h, execute p false (p.code.length + 1) = .done vm h ∧ ∀ t, h ≠ .internal t := by
  have h1 := vm_never_panics_partial p m hc (p.code.length + 1)
  have h2 := vm_bounded_time_partial p m hc
  unfold execute at h2 ⊢
  cases h : vmRun p false (p.code.length + 1) {} with
  | panic v => rw [h] at h1; exact h1.elim
  | timeout v => exact absurd h (h2 v)
  | done v hh => rw [h] at h1; exact ⟨v, hh, rfl, h1⟩

end Bclv.C06
