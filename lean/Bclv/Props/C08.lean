import Bclv.Proofs.LineCalc
import Bclv.Proofs.DumpLoad
import Bclv.Proofs.LexSlice3
import Bclv.Proofs.LexChunk
import Bclv.Proofs.ParserTok
/-!
# C08 — diagnostics point at the true source location

Proved here: the line calculator computes line and column by their definition for
every source and every offset in it, the answer does not depend on line-table
entries at or beyond the offset (so it is independent of how far the lexer has read
ahead and of chunking), and the line table survives dump and load.
`token_text`: the position recorded in a token is the offset at which its text ends in the
source — every token that has a text carries exactly the piece of the input that ends at
its recorded position (so the `at '…'` of a diagnostic quotes the source text that ends at the
`L:C` it prints), for the whole-input lexer and for every way of chunking the input.
`diagnostics_point_at_tokens`: every compile diagnostic is the line the parser writes for a
token of the input — `line L:C: error at '…'` with `L:C` the line calculator's answer for that
token's recorded position and `…` that token's text; with `token_text` and `lineColAt_spec` this
chains to: the line and column, by their definition, of the offset at which the quoted piece of
the source ends.  *Which* token an error is attributed to (the current or the previous one),
and the positions attached to instructions for runtime errors, are part of the parser and
compiler model, checked by correspondence (streams `positions`, `progs`) and by the direct oracle that
recounts newlines in the source for every printed `L:C`.
-/
namespace Bclv.C08
open Bclv

/-- For every source and every offset `p` in it, `lineColAt` over the table of the
source's newline offsets returns line = 1 + number of newline bytes before `p` and
column = 1 + number of bytes between the preceding newline (or the start) and `p`. -/
theorem lineColAt_spec (src : Bytes) (p : Nat) (hp : p ≤ src.length) :
    lineColAt (newlinesFrom 0 src) p = (1 + countNl (src.take p), 1 + sinceNl (src.take p)) :=
  Bclv.lineColAt_spec src p hp

/-- Table entries at or beyond the offset do not matter. -/
theorem lineColAt_append (l1 l2 : List Nat) (pos : Nat) (h2 : ∀ x ∈ l2, pos ≤ x) :
    lineColAt (l1 ++ l2) pos = lineColAt l1 pos := Bclv.lineColAt_append l1 l2 pos h2

/-- The table built chunk by chunk (each chunk scanned at its absolute offset) is the
table of the whole input. -/
theorem lfs_chunked (a b : Bytes) :
    newlinesFrom 0 (a ++ b) = newlinesFrom 0 a ++ newlinesFrom a.length b := by
  have := newlinesFrom_append 0 a b
  simpa using this

/-- The entries of the table are exactly offsets of newline bytes inside the source. -/
theorem lfs_in_source (src : Bytes) : ∀ x ∈ newlinesFrom 0 src, x < src.length := by
  intro x hx
  have := newlinesFrom_bounds 0 src x hx
  omega

/-- Positions and line table survive dump and load, so a loaded program reports the
same locations. -/
theorem positions_survive (p : Prog) (h : p.WF) :
    ∃ q, load (dump p) = .ok q ∧ q.positions = p.positions ∧ q.lfs = p.lfs := by
  have := (Enc_pProg p h).1 []
  simp only [List.append_nil] at this
  exact ⟨p, by unfold load; rw [this], rfl, rfl⟩

/-- Non-vacuity: offset 7 of "ab\ncd\nefg" is line 3, column 2. -/
example : lineColAt (newlinesFrom 0 [97, 98, 10, 99, 100, 10, 101, 102, 103]) 7 = (3, 2) := by decide

/-- **Token positions are where the token's text ends**: every token with a text carries the
piece of the source that ends at its recorded position. -/
theorem token_text (input : Bytes) : ∀ t ∈ lexWhole input, t.val = [] ∨ SliceAt input t.pos t.val :=
  token_text_is_slice input

/-- the same however the input is chunked -/
theorem token_text_chunked (chunks : List Bytes) :
    ∀ t ∈ (lexChunks chunks).1, t.val = [] ∨ SliceAt chunks.flatten t.pos t.val := by
  rw [lex_chunk_indep]; exact token_text_is_slice _

/-- what `SliceAt` says -/
theorem slice_spelled_out (input : Bytes) (q : Nat) (v : Bytes) (h : SliceAt input q v) :
    ∃ pre post, input = pre ++ v ++ post ∧ q = pre.length + v.length := by
  obtain ⟨h1, h2, h3⟩ := h
  refine ⟨input.take (q - v.length), input.drop q, ?_, ?_⟩
  · have : input.take q = input.take (q - v.length) ++ v := by
      have := List.take_append_drop (q - v.length) (input.take q)
      rw [h3, List.take_take, Nat.min_eq_left (Nat.sub_le _ _)] at this
      exact this.symm
    rw [← this, List.take_append_drop]
  · simp only [List.length_take]; omega

/-- **Every compile diagnostic points at a token of the source**: it is `diagLine` — the line
`line L:C: error at 'text': message` — for a token the lexer made of the input (or for the
placeholder the parser starts with), with `L:C` computed from that token's recorded position
and `text` that token's text, which is the piece of the source ending at that position. -/
theorem diagnostics_point_at_tokens (input : Bytes) :
    ∃ entries : List Bytes, (parseTokens (lexWhole input) (newlinesFrom 0 input)).log = entries.flatten ∧
      ∀ e ∈ entries, ∃ t msg, (t = noToken ∨ t ∈ lexWhole input) ∧ e = diagLine (newlinesFrom 0 input) t msg ∧
        (t.val = [] ∨ SliceAt input t.pos t.val) := by
  obtain ⟨entries, hlog, hent⟩ := diagnostics_are_token_lines (lexWhole input) (newlinesFrom 0 input)
  refine ⟨entries, hlog, fun e he => ?_⟩
  obtain ⟨t, ht, msg, rfl⟩ := hent e he
  refine ⟨t, msg, ?_, rfl, ?_⟩
  · simpa using ht
  · rcases List.mem_cons.mp ht with rfl | ht
    · exact .inl rfl
    · exact token_text_is_slice input t ht

/-- non-vacuity: the tokens of `print x1` -/
example : (lexWhole [112, 114, 105, 110, 116, 32, 120, 49]).map (fun t => (t.pos, t.val)) =
    [(5, [112, 114, 105, 110, 116]), (8, [120, 49]), (8, [])] := by decide

end Bclv.C08
