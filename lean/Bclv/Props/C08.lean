import Bclv.Proofs.LineCalc
import Bclv.Proofs.DumpLoad
/-!
# C08 — diagnostics point at the true source location

Proved here: the line calculator computes line and column by their definition for
every source and every offset in it, the answer does not depend on line-table
entries at or beyond the offset (so it is independent of how far the lexer has read
ahead and of chunking), and the line table survives dump and load.  That the
positions handed to it are the ends of the offending tokens is part of the parser
and compiler model, checked by correspondence (streams `positions`, `progs`) and by
the direct oracle that recounts newlines in the source for every printed `L:C`.
-/
namespace Bclv.C08
open Bclv

/-- For every source and every offset `p` in it, `lineColAt` over the table of the
source's newline offsets returns line = 1 + number of newline bytes before `p` and
column = 1 + number of bytes between the preceding newline (or the start) and `p`. -/
theorem lineColAt_spec (src : Bytes) (p : Nat) (hp : p ≤ src.length) :
    lineColAt (newlinesFrom 0 src) p = (1 + countNl (src.take p), 1 + sinceNl (src.take p)) :=
  Bclv.lineColAt_spec src p hp

/-- Table entries at or beyond the offset do not matter. -/
theorem lineColAt_append (l1 l2 : List Nat) (pos : Nat) (h2 : ∀ x ∈ l2, pos ≤ x) :
    lineColAt (l1 ++ l2) pos = lineColAt l1 pos := Bclv.lineColAt_append l1 l2 pos h2

/-- The table built chunk by chunk (each chunk scanned at its absolute offset) is the
table of the whole input. -/
theorem lfs_chunked (a b : Bytes) :
    newlinesFrom 0 (a ++ b) = newlinesFrom 0 a ++ newlinesFrom a.length b := by
  have := newlinesFrom_append 0 a b
  simpa using this

/-- The entries of the table are exactly offsets of newline bytes inside the source. -/
theorem lfs_in_source (src : Bytes) : ∀ x ∈ newlinesFrom 0 src, x < src.length := by
  intro x hx
  have := newlinesFrom_bounds 0 src x hx
  omega

/-- Positions and line table survive dump and load, so a loaded program reports the
same locations. -/
theorem positions_survive (p : Prog) (h : p.WF) :
    ∃ q, load (dump p) = .ok q ∧ q.positions = p.positions ∧ q.lfs = p.lfs := by
  have := (Enc_pProg p h).1 []
  simp only [List.append_nil] at this
  exact ⟨p, by unfold load; rw [this], rfl, rfl⟩

/-- Non-vacuity: offset 7 of "ab\ncd\nefg" is line 3, column 2. -/
example : lineColAt (newlinesFrom 0 [97, 98, 10, 99, 100, 10, 101, 102, 103]) 7 = (3, 2) := by decide

end Bclv.C08
