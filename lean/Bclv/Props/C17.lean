import Bclv.Proofs.ParserInv
/-!
# C17 — the parser reports what it rejects (partial)

The full property also says *which* sources are accepted (exactly the grammar); that half
is not a theorem here — it is decided per input by the `mutants` stream, which generates
sentences of the grammar, damages them (delete/insert/replace/transpose a token at every
position) and compares acceptance, diagnostics and recovery between the implementation,
the parser model and an independent recogniser.  What is proved, for every token sequence
and line table, about the parser model (`Model/Parser.lean`, the port of `parse.go`):

* `reject_iff_diagnostic_partial`: the result is a rejection exactly when at least one
  diagnostic was written — every rejection is diagnosed, every acceptance is silent;
* `diagnostics_form_partial`: the log is a sequence of lines each of the form
  `line L:C: error…`.

Both follow from an invariant (`DInv`: the error flag is set iff the log is non-empty, and
every entry is such a line) preserved by every function of the parser, through all the
mutual recursion of expressions and statements.
-/
namespace Bclv.C17
open Bclv

theorem reject_iff_diagnostic_partial (toks : List Token) (lfs : List Nat) :
    (parseTokens toks lfs).ok = false ↔ (parseTokens toks lfs).log ≠ [] :=
  reject_iff_diagnostic toks lfs

theorem diagnostics_form_partial (toks : List Token) (lfs : List Nat) :
    ∃ entries : List Bytes, (parseTokens toks lfs).log = entries.flatten ∧ ∀ e ∈ entries, IsDiag e :=
  diagnostics_form toks lfs

/-- Acceptance writes nothing. -/
theorem accept_is_silent (toks : List Token) (lfs : List Nat) (h : (parseTokens toks lfs).ok = true) :
    (parseTokens toks lfs).log = [] := by
  have := (reject_iff_diagnostic toks lfs)
  cases hl : (parseTokens toks lfs).log with
  | nil => rfl
  | cons x xs =>
    have h2 := this.mpr (by rw [hl]; simp)
    rw [h] at h2; cases h2

end Bclv.C17
