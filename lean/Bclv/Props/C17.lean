import Bclv.Proofs.ParserInv
import Bclv.Proofs.ParserSync
import Bclv.Proofs.Grammar6
import Bclv.Proofs.Grammar7
/-!
# C17 — the parser accepts only the grammar, and reports what it rejects

What is proved, for every token sequence and line table, about the parser model
(`Model/Parser.lean`, the port of `parse.go`):

* `accepted_is_grammatical` (`Proofs/Grammar1`–`6`): **every accepted token sequence is a
  sentence of the grammar** (`GProg`, written down in `Grammar1.lean`: `var`, `def`, `eval`,
  `print` and `bind` statements at toplevel, additionally bare expressions inside blocks, at
  most one optional `;` after a statement, and the expression grammar `unit (infix unit)*`
  with `name '='` only in front of a whole expression — the start of an expression
  statement, of a parenthesis, of an initializer or of another assignment's right side).
  Proved through every parser function with the weakest-precondition calculus: each
  function's post-condition says which tokens it consumed and which nonterminal they derive
  from, given that no error was reported; for the Pratt loop the invariant is "what has been
  consumed so far is a `cond`, and an assignment is followed by a token without precedence".
  The converse (every sentence is accepted) does not hold of the language as such — a
  sentence is also rejected for an undefined or duplicate variable, an invalid literal, more
  than 1024 variables, an operand over 64 KiB, a bad bind selector — and is decided per
  input by the `mutants` stream (sentences generated from the grammar, each damaged by one
  token at every position; implementation, parser model and an independent recogniser
  must agree).

* `reject_iff_diagnostic_partial`: the result is a rejection exactly when at least one
  diagnostic was written — every rejection is diagnosed, every acceptance is silent;
* `diagnostics_form_partial`: the log is a sequence of lines each of the form
  `line L:C: error…`.

* `recovery_lands_on_next_statement` (`Proofs/ParserSync.lean`): the recovery step `sync`
  — which `decl` runs exactly when a statement left the parser in panic mode at toplevel —
  skips tokens up to, and never past, the first token that starts a statement (`var`,
  `def`, `print`, `eval`) or the end of the input, and leaves panic mode off, so that
  statement is parsed afresh; with `every_error_is_logged` (each error report appends one
  line, unconditionally) an error in it gets a diagnostic of its own.

The first two follow from an invariant (`DInv`: the error flag is set iff the log is non-empty, and
every entry is such a line) preserved by every function of the parser, through all the
mutual recursion of expressions and statements.
-/
namespace Bclv.C17
open Bclv

theorem reject_iff_diagnostic_partial (toks : List Token) (lfs : List Nat) :
    (parseTokens toks lfs).ok = false ↔ (parseTokens toks lfs).log ≠ [] :=
  reject_iff_diagnostic toks lfs

theorem diagnostics_form_partial (toks : List Token) (lfs : List Nat) :
    ∃ entries : List Bytes, (parseTokens toks lfs).log = entries.flatten ∧ ∀ e ∈ entries, IsDiag e :=
  diagnostics_form toks lfs

/-- Acceptance writes nothing. -/
theorem accept_is_silent (toks : List Token) (lfs : List Nat) (h : (parseTokens toks lfs).ok = true) :
    (parseTokens toks lfs).log = [] := by
  have := (reject_iff_diagnostic toks lfs)
  cases hl : (parseTokens toks lfs).log with
  | nil => rfl
  | cons x xs =>
    have h2 := this.mpr (by rw [hl]; simp)
    rw [h] at h2; cases h2

/-- Recovery after a toplevel syntax error: where `sync` stops. -/
theorem recovery_lands_on_next_statement (f : Nat) (p : PState) (hte : TE p) (hf : Fuel 1 f p) :
    wp (sync f) (fun _ p' =>
      (p'.cur.typ.isEnd = true ∨ isStmtKw p'.cur.typ = true) ∧
      ∃ sk, Skips sk p p' ∧ (∀ t ∈ sk, t.typ.isEnd = false ∧ isStmtKw t.typ = false) ∧
        ((∀ t ∈ sk, t.typ ≠ .ERR) → p'.panicMode = false)) p :=
  sync_lands f p hte hf

theorem stmt_keywords (t : TokType) : isStmtKw t = true ↔ t = .VAR ∨ t = .DEF ∨ t = .PRINT ∨ t = .EVAL := by
  cases t <;> simp [isStmtKw]

/-- Every error report appends exactly one line to the log and raises the error flag,
whether or not the parser is already in panic mode. -/
theorem every_error_is_logged (t : Token) (msg : Bytes) (p : PState) :
    (errorAt t msg p).2.log.length = p.log.length + 1 ∧ (errorAt t msg p).2.hadError = true :=
  ⟨rfl, rfl⟩

/-- non-vacuity of the hypotheses of `recovery_lands_on_next_statement` -/
example : TE ({ rest := [⟨.EOF, [], [], 3⟩], cur := ⟨.INT, [49], [], 0⟩ } : PState)
    ∧ Fuel 1 5 ({ rest := [⟨.EOF, [], [], 3⟩], cur := ⟨.INT, [49], [], 0⟩ } : PState) := by
  constructor
  · rfl
  · unfold Fuel tm; simp

/-- **Accepted ⇒ derivable from the grammar.**  The token kinds up to the first finalizer of
an accepted token list form a program of the grammar. -/
theorem accepted_is_grammatical (toks : List Token) (lfs : List Nat) (hend : lastEnd toks = true)
    (hnf : ∀ t ∈ toks, t.typ ≠ .FAIL) (hok : (parseTokens toks lfs).ok = true) :
    ∃ body e rest, toks = body ++ e :: rest ∧ e.typ.isEnd = true ∧ GProg (typs body) :=
  parse_sound toks lfs hend hnf hok

/-- The same from source text: what the lexer makes of an accepted input is a program of the
grammar followed by `tEOF` — in particular the lexer reported no failure (`Proofs/Grammar7`:
the lexer's output has no finalizer before its last token and a final `tFAIL` directly
follows a `tERR`; a token list of that shape with a `tERR` in it is rejected). -/
theorem accepted_source_is_grammatical (a : Bytes)
    (hok : (parseTokens (lexWhole a) (newlinesFrom 0 a)).ok = true) :
    ∃ body e, lexWhole a = body ++ [e] ∧ e.typ = .EOF ∧ GProg (typs body) :=
  source_sound a hok

/-- non-vacuity: `print 1` followed by the end token is a program of the grammar -/
example : GProg [.PRINT, .INT] := by
  have h : GStmt false (.PRINT :: [.INT]) := GS.print false [.INT] (G.cond _ (G.unit _ (G.atom .INT (by simp [isAtom]))))
  simpa using GProg.cons _ [] h GProg.nil

end Bclv.C17
