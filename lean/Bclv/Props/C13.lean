import Bclv.Proofs.DumpLoad
import Bclv.Proofs.Bufio
/-!
# C13 — truncated bytecode is rejected with an error
-/
namespace Bclv.C13
open Bclv Bclv.Buf

/-- Every proper prefix of a valid dump is rejected with an error: never accepted,
never a panic. -/
theorem load_prefix_rejected (p : Prog) (h : p.WF) (k : Nat) (hk : k < (dump p).length) :
    ∃ m, load ((dump p).take k) = .err m := by
  have hsplit : dump p = (dump p).take k ++ (dump p).drop k := (List.take_append_drop k _).symm
  have hne : (dump p).drop k ≠ [] := by
    intro h0
    have := congrArg List.length h0
    simp at this
    omega
  obtain ⟨m, hm⟩ := (Enc_pProg p h).2 _ _ hsplit hne
  exact ⟨m, by unfold load; rw [hm]⟩

/-- The same through the buffered reader, whatever non-empty pieces the interrupted file is
read in. -/
theorem load_prefix_rejected_chunked (p : Prog) (h : p.WF) (chunks : List Bytes) (hc : ∀ c ∈ chunks, c ≠ [])
    (k : Nat) (hk : k < (dump p).length) (hcat : chunks.flatten = (dump p).take k) :
    ∃ m, loadR chunks = .err m := by
  rw [loadR_eq_load chunks hc, hcat]; exact load_prefix_rejected p h k hk

theorem bind_fail {α β} {p : P α} {f : α → P β} {bs : Bytes} {m : String} (h : p bs = .fail m) :
    (p >>= f) bs = .fail m := by
  show P.bind p f bs = _
  unfold P.bind; rw [h]

theorem load_of_header_fail {bs : Bytes} {m : String} (h : pHeader bs = .fail m) : load bs = .err m := by
  unfold load pProg
  rw [bind_fail h]

/-- Input that does not start with the magic bytes is rejected, for all 2^16 - 1 wrong
magic values. -/
theorem load_bad_magic (a b : UInt8) (rest : Bytes) (h : [a, b] ≠ magic) :
    ∃ m, load (a :: b :: rest) = .err m :=
  ⟨"invalid magic header", load_of_header_fail (by unfold pHeader; simp [h])⟩

/-- Input shorter than the magic is rejected. -/
theorem load_no_magic (bs : Bytes) (h : bs.length < 2) : ∃ m, load bs = .err m :=
  ⟨"missing magic header", load_of_header_fail (by unfold pHeader; simp [h])⟩

/-- An unsupported version is rejected: any major other than 1, any minor above 1. -/
theorem load_bad_version (ma mi : UInt8) (rest : Bytes) (h : ma ≠ verMajor ∨ mi > verMinor) :
    ∃ m, load (magic ++ ma :: mi :: rest) = .err m := by
  by_cases h1 : ma ≠ verMajor
  · exact ⟨"invalid bcode major version", load_of_header_fail (by unfold pHeader; simp [magic, h1])⟩
  · have h2 : mi > verMinor := by
      rcases h with h | h
      · exact absurd h h1
      · exact h
    exact ⟨"invalid bcode minor version", load_of_header_fail (by unfold pHeader; simp [magic, h1, h2])⟩

/-- Non-vacuity: the sample dump is 300+ bytes long, so hundreds of cut points exist. -/
example : (dump { name := [105], code := [1], consts := [.str [97, 98]], positions := [7], lfs := [] }).length = 16 := by
  decide

end Bclv.C13
