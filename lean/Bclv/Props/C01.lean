import Bclv.Proofs.CompileCorrect
import Bclv.Model.Api
/-!
# C01 — expression evaluation conforms to the language definition

* `Spec/Sem.lean` (`evalE`, `binop`, `isFalsey`) is the definition of the documented
  rules; the lemmas of the first section restate the README sentence by sentence.
* `compile_correct_expr` / `compile_correct_prog`: the stack machine running the
  compiled code computes exactly that definition — for every tree, any nesting
  depth, with the 1024-value stack limit and every runtime error (message and
  position) included.
* `parsed_is_compiled`: what the model's parser hands to the VM *is* `compile` of the
  tree it built, so the theorem applies to every program the model accepts.  That the
  tree is the right reading of the text (precedence, associativity) is covered by
  the regenerated rule tables (`Tie`) and by the correspondence; the parser
  round-trip theorem `parse_pretty` is not proved.
-/
namespace Bclv.C01
open Bclv

/-! ## the documented rules, as theorems about the definition -/

/-- "if any of the operands is float, the int part is transparently converted to float" -/
theorem int_float_promotion (op : ArOp) (nm : String) (x : Int64) (y : UInt64) :
    binop op nm (.int x) (.float y) = .ok (binopFloat op (i2f x) y)
    ∧ (op ≠ .div ∨ x ≠ 0 → binop op nm (.float y) (.int x) = .ok (binopFloat op y (i2f x))) := by
  refine ⟨rfl, ?_⟩
  intro h
  simp only [binop]
  split
  · rename_i hc
    simp only [Bool.and_eq_true, decide_eq_true_eq, beq_iff_eq] at hc
    rcases h with h | h
    · exact absurd hc.1 h
    · exact absurd hc.2 h
  · rfl

/-- int arithmetic stays int (64-bit, wrapping); division by int zero is a runtime error -/
theorem int_arith (x y : Int64) :
    binop .add "ADD" (.int x) (.int y) = .ok (.int (x + y))
    ∧ binop .mul "MUL" (.int x) (.int y) = .ok (.int (x * y))
    ∧ (y ≠ 0 → binop .div "DIV" (.int x) (.int y) = .ok (.int (x / y)))
    ∧ binop .div "DIV" (.int x) (.int 0) = .err (str "division by int zero") := by
  refine ⟨rfl, rfl, ?_, rfl⟩
  intro hy
  simp [binop, binopInt, hy]

/-- "Strings can be concatenated with the plus" -/
theorem str_concat (a b : Bytes) : binop .add "ADD" (.str a) (.str b) = .ok (.str (a ++ b)) := rfl

/-- "If the right side of such plus is a number, it will be transparently converted to
string. However, the number plus string is an error." -/
theorem str_plus_number (a : Bytes) (n : Int64) (f : UInt64) :
    binop .add "ADD" (.str a) (.int n) = .ok (.str (a ++ intDec n.toInt))
    ∧ binop .add "ADD" (.str a) (.float f) = .ok (.str (a ++ formatFloatF f))
    ∧ binop .add "ADD" (.int n) (.str a) = .err (str "ADD" ++ str ": invalid types: " ++ str "int" ++ str ", " ++ str "string") :=
  ⟨rfl, rfl, rfl⟩

/-- "the left side must be a string and right side just an int; the result is repeating
the string given times" (a negative count is a runtime error) -/
theorem str_repeat (a : Bytes) (n : Int64) :
    (¬ n < 0 → binop .mul "MUL" (.str a) (.int n) = .ok (.str (repeatBytes a n.toInt.toNat)))
    ∧ (n < 0 → binop .mul "MUL" (.str a) (.int n) = .err (str "MUL: negative repeat count")) := by
  constructor <;> intro h <;> simp [binop, h]

/-- "Equality comparisons are allowed between all types, including mixing them.
Obviously values of different non-number types are not equal." -/
theorem eq_any (a b : Value) (h : ¬ (a.isNumber ∧ b.isNumber)) (nm : String) :
    binop .eq nm a b = .ok (.bool (a = b)) := by
  cases a <;> cases b <;> simp_all [binop, Value.isNumber, Value.isInt, Value.isFloat]

/-- "Order comparisons are allowed between numbers and between strings, but not between
mixed types." -/
theorem order_strings (a b : Bytes) :
    binop .lt "LT" (.str a) (.str b) = .ok (.bool (bytesLt a b))
    ∧ binop .gt "GT" (.str a) (.str b) = .ok (.bool (bytesLt b a))
    ∧ binop .lt "LT" (.str a) (.int 1) = .err (str "LT" ++ str ": invalid types: " ++ str "string" ++ str ", " ++ str "int") :=
  ⟨rfl, rfl, rfl⟩

/-- "what is considered falsey: false, nil, empty string, and zero" -/
theorem falsey_set (v : Value) :
    isFalsey v = true ↔
      v = .bool false ∨ v = .nil ∨ v = .str [] ∨ v = .int 0 ∨ (∃ b, v = .float b ∧ (fOf b == 0.0) = true) := by
  cases v with
  | nil => simp [isFalsey]
  | bool b => cases b <;> simp [isFalsey]
  | int i => simp [isFalsey]
  | float b => simp [isFalsey]
  | str s => cases s <;> simp [isFalsey]

/-- `and` / `or` are short-circuit and return an operand: the left one decides by the
falsey set; the right one is evaluated only when needed, on the state the left one
left behind. -/
theorem and_or_def (p : Prog) (a b : Expr) (pos : Nat) (s : Sem) :
    evalE p (.and a b pos) s = (evalE p a s).bind (fun s1 =>
      match s1.stack with
      | v :: rest => if isFalsey v then .ok s1 else evalE p b { s1 with stack := rest }
      | [] => .wrong)
    ∧ evalE p (.or a b pos) s = (evalE p a s).bind (fun s1 =>
      match s1.stack with
      | v :: rest => if isFalsey v then evalE p b { s1 with stack := rest } else .ok s1
      | [] => .wrong) := ⟨rfl, rfl⟩

/-- `!=`, `<=`, `>=` are the negations of `==`, `>`, `<`. -/
theorem negated_ops : BinOp.prim .ne = (.eq, true, "EQ") ∧ BinOp.prim .le = (.gt, true, "GT")
    ∧ BinOp.prim .ge = (.lt, true, "LT") := ⟨rfl, rfl, rfl⟩

/-- An assignment yields the assigned value (it stays on the stack) and updates exactly
the resolved variable. -/
theorem assign_local (p : Prog) (slot : Nat) (e : Expr) (pos : Nat) (s s1 : Sem) (v : Value) (rest : List Value)
    (he : evalE p e s = .ok s1) (hst : s1.stack = v :: rest) (hslot : slot < s1.stack.length) :
    evalE p (.setLocal slot e pos) s = .ok { s1 with stack := setNth s1.stack (s1.stack.length - 1 - slot) v } := by
  simp [evalE, he, Res.bind, hst] at hslot ⊢
  simp [hslot]

/-! ## the machine computes the definition -/

/-- Expressions, placed anywhere in a program. -/
theorem compile_correct_expr (p : Prog) (e : Expr) (hwf : e.WF) (pre post : PCode) (vm : VM)
    (hpl : Placed p pre (compileE e) post) (hpc : vm.pc = pre.length) :
    Sim p vm (pre.length + sizeE e) (evalE p e vm.sem) :=
  compileE_correct p e hwf pre post vm hpl hpc

/-- Whole programs: for every sufficiently large step budget the VM ends with the
evaluator's outcome. -/
theorem compile_correct_prog (p : Prog) (t : Program) (hwf : t.body.WF) (hnp : t.npop < 2 ^ 64)
    (hcode : p.code = (compileP t).map Prod.fst) (hpos : p.positions = (compileP t).map Prod.snd) :
    ∃ n, ∀ m, n ≤ m →
      match evalP p t with
      | .ok s => ∃ vm', vm'.sem = s ∧ execute p false m = .done vm' (if s.stack.isEmpty then .ok
            else .internal (str "internal error: non-empty stack on prog end; tos=" ++ natDec s.stack.length))
      | .err pos msg => ∃ vm', execute p false m = .done vm' (.rt (rtText p pos msg))
      | .wrong => True := by
  obtain ⟨n, h⟩ := compileP_correct p t hwf hnp hcode hpos
  refine ⟨n, fun m hm => ?_⟩
  cases hr : evalP p t with
  | wrong => trivial
  | err pos msg =>
    simp only [hr] at h
    obtain ⟨vm', hrun⟩ := h
    exact ⟨vm', vmRun_of_runN_halt n _ _ _ hrun m hm⟩
  | ok s =>
    simp only [hr] at h
    obtain ⟨vm', hs, hrun⟩ := h
    exact ⟨vm', hs, vmRun_of_runN_halt n _ _ _ hrun m hm⟩

/-- What the model's `Parse` produces for an accepted input is `compile` of the tree
its parser built (with that parser's constant pool). -/
theorem parsed_is_compiled (name input : Bytes) :
    let r := parseTokens (lexWhole input) (newlinesFrom 0 input)
    r.ok = true →
      (parseWhole name input).prog.code = (compileP r.prog).map Prod.fst
      ∧ (parseWhole name input).prog.positions = (compileP r.prog).map Prod.snd
      ∧ (parseWhole name input).prog.consts = r.consts := by
  intro r hok
  simp only [parseWhole]
  simp [r, hok, compilePFast_eq] at *

/-! ## non-vacuity: the README's example `1==1 and 42` evaluates to 42 -/

def ex : Expr := .and (.bin .eq (.lit .one 7) (.lit .one 10) 10) (.const 0 17) 14
def exProg : Prog := { name := [], code := [], consts := [.int 42], positions := [], lfs := [] }

example : (match evalE exProg ex {} with | .ok s => s.stack | _ => []) = [.int 42] := by decide
example : ex.WF := by simp [ex, Expr.WF, sizeE, uvEnc]

end Bclv.C01
