import Bclv.Proofs.CompileCorrect
import Bclv.Model.Api
import Bclv.Proofs.Group2
import Bclv.Proofs.Group6
/-!
# C01 — expression evaluation conforms to the language definition

* `Spec/Sem.lean` (`evalE`, `binop`, `isFalsey`) is the definition of the documented
  rules; the lemmas of the first section restate the README sentence by sentence.
* `compile_correct_expr` / `compile_correct_prog`: the stack machine running the
  compiled code computes exactly that definition — for every tree, any nesting
  depth, with the 1024-value stack limit and every runtime error (message and
  position) included.
* `parsed_is_compiled`: what the model's parser hands to the VM *is* `compile` of the
  tree it built, so the theorem applies to every program the model accepts.
* `groups_by_precedence`: the tree is the right reading of the text.  Whatever the
  expression parser consumes without reporting an error *reads as* the shape of the tree it
  returns, where "reads as" (`Rd`, `Proofs/Group1.lean`) is written from the documented
  precedence table alone: a binary operator takes on its left what stands at its own level
  (equal precedence groups to the left) and on its right what stands one level higher, an
  operand is as long as it can be, parentheses make anything an operand, assignment stands
  only at the lowest level.  (`and`/`or` chains are grouped to the right by the parser; the
  value of a short-circuit chain does not depend on that.)
  `C01.accepted_source_reads_as_its_tree` (in `Props/C01Source.lean`, which sits above the
  lexer and grammar proofs) lifts this to whole source texts: the tokens of an
  accepted text read as the shape of the program tree that `compile_correct_prog` is about.
  `reading_is_unique`: the relation gives a token sequence at most one shape (every `Rd`
  derivation is a run of a small deterministic precedence-climbing reader over token kinds,
  `Proofs/Group5.lean`), so `the_tree_is_the_only_reading`: any shape the consumed tokens read
  as is the shape of the tree the parser returned.  Not proved: the converse (`parse_pretty`:
  every rendering of a tree is accepted); the precedence numbers themselves are tied to the
  source by the regenerated rule table (`Tie`).
-/
namespace Bclv.C01
open Bclv

/-! ## the documented rules, as theorems about the definition -/

/-- "if any of the operands is float, the int part is transparently converted to float" -/
theorem int_float_promotion (op : ArOp) (nm : String) (x : Int64) (y : UInt64) :
    binop op nm (.int x) (.float y) = .ok (binopFloat op (i2f x) y)
    ∧ (op ≠ .div ∨ x ≠ 0 → binop op nm (.float y) (.int x) = .ok (binopFloat op y (i2f x))) := by
  refine ⟨rfl, ?_⟩
  intro h
  simp only [binop]
  split
  · rename_i hc
    simp only [Bool.and_eq_true, decide_eq_true_eq, beq_iff_eq] at hc
    rcases h with h | h
    · exact absurd hc.1 h
    · exact absurd hc.2 h
  · rfl

/-- int arithmetic stays int (64-bit, wrapping); division by int zero is a runtime error -/
theorem int_arith (x y : Int64) :
    binop .add "ADD" (.int x) (.int y) = .ok (.int (x + y))
    ∧ binop .mul "MUL" (.int x) (.int y) = .ok (.int (x * y))
    ∧ (y ≠ 0 → binop .div "DIV" (.int x) (.int y) = .ok (.int (x / y)))
    ∧ binop .div "DIV" (.int x) (.int 0) = .err (str "division by int zero") := by
  refine ⟨rfl, rfl, ?_, rfl⟩
  intro hy
  simp [binop, binopInt, hy]

/-- Two ints are compared as 64-bit integers, exactly — also beyond 2^53, where neighbouring
integers are not distinct `float64` values: no promotion takes place unless one operand is a
float. -/
theorem int_compare_exact (x y : Int64) :
    binop .eq "EQ" (.int x) (.int y) = .ok (.bool (x == y))
    ∧ binop .lt "LT" (.int x) (.int y) = .ok (.bool (x < y))
    ∧ binop .gt "GT" (.int x) (.int y) = .ok (.bool (x > y)) := ⟨rfl, rfl, rfl⟩

/-- … for instance 2^53 and 2^53 + 1 are different and ordered. -/
example : ((9007199254740992 : Int64) == 9007199254740993) = false
    ∧ decide ((9007199254740992 : Int64) < 9007199254740993) = true := by decide

/-- "Strings can be concatenated with the plus" -/
theorem str_concat (a b : Bytes) : binop .add "ADD" (.str a) (.str b) = .ok (.str (a ++ b)) := rfl

/-- "If the right side of such plus is a number, it will be transparently converted to
string. However, the number plus string is an error." -/
theorem str_plus_number (a : Bytes) (n : Int64) (f : UInt64) :
    binop .add "ADD" (.str a) (.int n) = .ok (.str (a ++ intDec n.toInt))
    ∧ binop .add "ADD" (.str a) (.float f) = .ok (.str (a ++ formatFloatF f))
    ∧ binop .add "ADD" (.int n) (.str a) = .err (str "ADD" ++ str ": invalid types: " ++ str "int" ++ str ", " ++ str "string") :=
  ⟨rfl, rfl, rfl⟩

/-- "the left side must be a string and right side just an int; the result is repeating
the string given times" (a negative count is a runtime error) -/
theorem str_repeat (a : Bytes) (n : Int64) :
    (¬ n < 0 → binop .mul "MUL" (.str a) (.int n) = .ok (.str (repeatBytes a n.toInt.toNat)))
    ∧ (n < 0 → binop .mul "MUL" (.str a) (.int n) = .err (str "MUL: negative repeat count")) := by
  constructor <;> intro h <;> simp [binop, h]

/-- "Equality comparisons are allowed between all types, including mixing them.
Obviously values of different non-number types are not equal." -/
theorem eq_any (a b : Value) (h : ¬ (a.isNumber ∧ b.isNumber)) (nm : String) :
    binop .eq nm a b = .ok (.bool (a = b)) := by
  cases a <;> cases b <;> simp_all [binop, Value.isNumber, Value.isInt, Value.isFloat]

/-- "Order comparisons are allowed between numbers and between strings, but not between
mixed types." -/
theorem order_strings (a b : Bytes) :
    binop .lt "LT" (.str a) (.str b) = .ok (.bool (bytesLt a b))
    ∧ binop .gt "GT" (.str a) (.str b) = .ok (.bool (bytesLt b a))
    ∧ binop .lt "LT" (.str a) (.int 1) = .err (str "LT" ++ str ": invalid types: " ++ str "string" ++ str ", " ++ str "int") :=
  ⟨rfl, rfl, rfl⟩

/-- "what is considered falsey: false, nil, empty string, and zero" -/
theorem falsey_set (v : Value) :
    isFalsey v = true ↔
      v = .bool false ∨ v = .nil ∨ v = .str [] ∨ v = .int 0 ∨ (∃ b, v = .float b ∧ (fOf b == 0.0) = true) := by
  cases v with
  | nil => simp [isFalsey]
  | bool b => cases b <;> simp [isFalsey]
  | int i => simp [isFalsey]
  | float b => simp [isFalsey]
  | str s => cases s <;> simp [isFalsey]

/-- `and` / `or` are short-circuit and return an operand: the left one decides by the
falsey set; the right one is evaluated only when needed, on the state the left one
left behind. -/
theorem and_or_def (p : Prog) (a b : Expr) (pos : Nat) (s : Sem) :
    evalE p (.and a b pos) s = (evalE p a s).bind (fun s1 =>
      match s1.stack with
      | v :: rest => if isFalsey v then .ok s1 else evalE p b { s1 with stack := rest }
      | [] => .wrong)
    ∧ evalE p (.or a b pos) s = (evalE p a s).bind (fun s1 =>
      match s1.stack with
      | v :: rest => if isFalsey v then evalE p b { s1 with stack := rest } else .ok s1
      | [] => .wrong) := ⟨rfl, rfl⟩

/-- `!=`, `<=`, `>=` are the negations of `==`, `>`, `<`. -/
theorem negated_ops : BinOp.prim .ne = (.eq, true, "EQ") ∧ BinOp.prim .le = (.gt, true, "GT")
    ∧ BinOp.prim .ge = (.lt, true, "LT") := ⟨rfl, rfl, rfl⟩

/-- An assignment yields the assigned value (it stays on the stack) and updates exactly
the resolved variable. -/
theorem assign_local (p : Prog) (slot : Nat) (e : Expr) (pos : Nat) (s s1 : Sem) (v : Value) (rest : List Value)
    (he : evalE p e s = .ok s1) (hst : s1.stack = v :: rest) (hslot : slot < s1.stack.length) :
    evalE p (.setLocal slot e pos) s = .ok { s1 with stack := setNth s1.stack (s1.stack.length - 1 - slot) v } := by
  simp [evalE, he, Res.bind, hst] at hslot ⊢
  simp [hslot]

/-! ## the machine computes the definition -/

/-- Expressions, placed anywhere in a program. -/
theorem compile_correct_expr (p : Prog) (e : Expr) (hwf : e.WF) (pre post : PCode) (vm : VM)
    (hpl : Placed p pre (compileE e) post) (hpc : vm.pc = pre.length) :
    Sim p vm (pre.length + sizeE e) (evalE p e vm.sem) :=
  compileE_correct p e hwf pre post vm hpl hpc

/-- Whole programs: for every sufficiently large step budget the VM ends with the
evaluator's outcome. -/
theorem compile_correct_prog (p : Prog) (t : Program) (hwf : t.body.WF) (hnp : t.npop < 2 ^ 64)
    (hcode : p.code = (compileP t).map Prod.fst) (hpos : p.positions = (compileP t).map Prod.snd) :
    ∃ n, ∀ m, n ≤ m →
      match evalP p t with
      | .ok s => ∃ vm', vm'.sem = s ∧ execute p false m = .done vm' (if s.stack.isEmpty then .ok
            else .internal (str "internal error: non-empty stack on prog end; tos=" ++ natDec s.stack.length))
      | .err pos msg => ∃ vm', execute p false m = .done vm' (.rt (rtText p pos msg))
      | .wrong => True := by
  obtain ⟨n, h⟩ := compileP_correct p t hwf hnp hcode hpos
  refine ⟨n, fun m hm => ?_⟩
  cases hr : evalP p t with
  | wrong => trivial
  | err pos msg =>
    simp only [hr] at h
    obtain ⟨vm', hrun⟩ := h
    exact ⟨vm', vmRun_of_runN_halt n _ _ _ hrun m hm⟩
  | ok s =>
    simp only [hr] at h
    obtain ⟨vm', hs, hrun⟩ := h
    exact ⟨vm', hs, vmRun_of_runN_halt n _ _ _ hrun m hm⟩

/-- What the model's `Parse` produces for an accepted input is `compile` of the tree
its parser built (with that parser's constant pool). -/
theorem parsed_is_compiled (name input : Bytes) :
    let r := parseTokens (lexWhole input) (newlinesFrom 0 input)
    r.ok = true →
      (parseWhole name input).prog.code = (compileP r.prog).map Prod.fst
      ∧ (parseWhole name input).prog.positions = (compileP r.prog).map Prod.snd
      ∧ (parseWhole name input).prog.consts = r.consts := by
  intro r hok
  simp only [parseWhole]
  simp [r, hok, compilePFast_eq] at *

/-- **Operators group by the documented precedence.**  From any parser state that satisfies the
parser's invariant: if `expr` reports no error, the token kinds it consumed read, by the
precedence table, as the shape of the tree it returns, and the token that follows is not an
operator the expression could have taken. -/
theorem groups_by_precedence (f : Nat) (p : PState) (hi : GInv p) (hne : NE (expr f p).2) :
    ∃ sk, Skips sk p (expr f p).2 ∧ Rd precAssign (shape (expr f p).1) (typs sk) 0 ∧ fprec (expr f p).2 = 0 := by
  obtain ⟨sk, hs, hr, hlt⟩ := (expr_rd f p hi).2 hne
  have hz : fprec (expr f p).2 = 0 := by unfold precAssign at hlt; omega
  exact ⟨sk, hs, by rw [hz] at hr; exact hr, hz⟩

/-- **The reading relation determines the shape**: at a level `n`, followed by a token `c` that
binds less tightly than `n` (and is not `=` where an assignment could stand), a token sequence
reads as at most one shape. -/
theorem reading_is_unique {n : Nat} {s s' : Sh} {ts : List TokType} {k : Nat} (h : Rd n s ts k) (h' : Rd n s' ts k)
    (hn : 1 ≤ n) (hk : k < n) (c : TokType) (hc : opPrec c = k) (hceq : n ≤ precAssign → c ≠ .EQ) : s = s' :=
  rd_unique h h' hn hk c hc hceq

/-- **The parser's tree is the only reading** of what it consumed. -/
theorem the_tree_is_the_only_reading (f : Nat) (p : PState) (hi : GInv p) (hne : NE (expr f p).2)
    (sk : List Token) (hs : Skips sk p (expr f p).2) (s' : Sh) (hr : Rd precAssign s' (typs sk) 0) :
    s' = shape (expr f p).1 :=
  expr_shape_unique f p hi hne sk hs s' hr

/-- **Two renderings of one shape are parsed to trees of that shape**: whatever differs between
them — redundant parentheses around any sub-expression (`parentheses_read_the_same`) — does not
change the grouping. -/
theorem same_rendering_same_shape (f f' : Nat) (p q : PState) (hp : GInv p) (hq : GInv q)
    (hnp : NE (expr f p).2) (hnq : NE (expr f' q).2) (sk sk' : List Token)
    (hs : Skips sk p (expr f p).2) (hs' : Skips sk' q (expr f' q).2)
    (s : Sh) (h1 : Rd precAssign s (typs sk) 0) (h2 : Rd precAssign s (typs sk') 0) :
    shape (expr f p).1 = shape (expr f' q).1 := by
  rw [← expr_shape_unique f p hp hnp sk hs s h1, ← expr_shape_unique f' q hq hnq sk' hs' s h2]

/-- parentheses around anything that reads as a shape read as that shape, at any level and
whatever follows -/
theorem parentheses_read_the_same {m : Nat} {s : Sh} {ts : List TokType} {k : Nat} (h : Rd m s ts k) (hm : 1 ≤ m)
    (n k' : Nat) : Rd n s (.LPAREN :: (ts ++ [.RPAREN])) k' :=
  rd_paren_any h hm n k'

/-- what the table says, read off `Rd`: the right operand of a binary operator stands one level
above the operator, the left operand at the operator's level -/
theorem binary_levels (o : TokType) (h : (getRule o).inf = some .binary) : lp o = opPrec o ∧ rp o = opPrec o + 1 := by
  have := (binary_not_logic o h).1
  simp [lp, rp, this]

/-- the documented order: assignment < or < and < not < equality < ordering < additive <
multiplicative < unary sign -/
theorem precedence_order :
    precAssign < opPrec .OR ∧ opPrec .OR < opPrec .AND ∧ opPrec .AND < pp .NOT ∧ pp .NOT < opPrec .EE
    ∧ opPrec .EE = opPrec .BE ∧ opPrec .EE < opPrec .LT ∧ opPrec .LT = opPrec .LE ∧ opPrec .LT = opPrec .GT
    ∧ opPrec .LT = opPrec .GE ∧ opPrec .LT < opPrec .PLUS ∧ opPrec .PLUS = opPrec .MINUS
    ∧ opPrec .PLUS < opPrec .STAR ∧ opPrec .STAR = opPrec .SLASH ∧ opPrec .STAR < pp .MINUS ∧ pp .MINUS = pp .PLUS := by
  decide

/-- non-vacuity: the state after the first `advance` of a parse satisfies what the theorem asks, and
`true - nil - true * nil` (token kinds `a - b - c * d`) is read as `(a - b) - (c * d)` -/
def exToks : List Token :=
  [{ typ := .TRUE, pos := 1 }, { typ := .MINUS, pos := 3 }, { typ := .NIL, pos := 5 },
   { typ := .MINUS, pos := 7 }, { typ := .TRUE, pos := 9 }, { typ := .STAR, pos := 11 },
   { typ := .NIL, pos := 13 }, { typ := .EOF, pos := 13 }]
example : shape (expr 40 (advance { rest := exToks }).2).1
    = .bin .MINUS (.bin .MINUS .atom .atom) (.bin .STAR .atom .atom) := by rfl
example : NE (expr 40 (advance { rest := exToks }).2).2 := ⟨by rfl, by rfl⟩
example : GInv (advance { rest := exToks }).2 where
  te := by rfl
  pm := fun h => by
    have : (advance { rest := exToks }).2.panicMode = false := by rfl
    rw [this] at h; cases h
  lf := by rfl
  nofail := by
    have : (advance { rest := exToks }).2.rest = exToks.tail := by rfl
    rw [this]
    decide

/-! ## non-vacuity: the README's example `1==1 and 42` evaluates to 42 -/

def ex : Expr := .and (.bin .eq (.lit .one 7) (.lit .one 10) 10) (.const 0 17) 14
def exProg : Prog := { name := [], code := [], consts := [.int 42], positions := [], lfs := [] }

example : (match evalE exProg ex {} with | .ok s => s.stack | _ => []) = [.int 42] := by decide
example : ex.WF := by simp [ex, Expr.WF, sizeE, uvEnc]

end Bclv.C01
