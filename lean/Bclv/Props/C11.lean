import Bclv.Proofs.Proto
/-!
# C11 — ParseFile terminates, closes its input exactly once, leaks nothing

Statements about the transition system of `Model/Proto.lean`: every script of `Read`
results (any sizes, zero-byte reads, data together with EOF, an error at any read), every
lexer behaviour per chunk (any number of tokens, failure in any chunk or at the end),
every parser outcome (an error flagged at any token or none), every token-buffer capacity
≥ 1 and **every interleaving** (a path is any sequence of `step` successors).
-/
namespace Bclv.C11
open Bclv.Proto

/-- A path: each state is one move after the previous one. -/
inductive Path : St → List St → Prop
  | nil (s : St) : Path s []
  | cons {s s' : St} {rest : List St} : s' ∈ step s → Path s' rest → Path s (s' :: rest)

inductive Reach (s0 : St) : St → Prop
  | refl : Reach s0 s0
  | step {s s' : St} : Reach s0 s → s' ∈ step s → Reach s0 s'

theorem reach_inv {s0 s : St} (h0 : Inv s0) (h : Reach s0 s) : Inv s := by
  induction h with
  | refl => exact h0
  | step _ hs ih => exact inv_step _ _ ih hs

/-- **Bounded time.**  Every path from a state has at most `mu` moves: no schedule, no
reader behaviour and no parser outcome makes the call run forever. -/
theorem path_bounded : ∀ (p : List St) (s : St), Path s p → p.length ≤ mu s := by
  intro p
  induction p with
  | nil => intro s _; exact Nat.zero_le _
  | cons x xs ih =>
    intro s hp
    cases hp with
    | cons hs hrest =>
      have h1 := step_mu s x hs
      have h2 := ih x hrest
      simp only [List.length_cons]; omega

/-- The bound from the initial state, written out: linear in the number of reads and of
tokens. -/
theorem init_bound (script : List Rd) (tail : Nat) (tailFail : Bool) (cap : Nat) :
    mu (init script tail tailFail cap) = 3 * tail + 17 + scriptW script := by
  simp [mu, init, muR, muL, muP, muM, wRecv]; omega

theorem terminates (script : List Rd) (tail : Nat) (tailFail : Bool) (cap : Nat) (p : List St)
    (hp : Path (init script tail tailFail cap) p) : p.length ≤ 3 * tail + 17 + scriptW script := by
  have := path_bounded p _ hp
  rwa [init_bound] at this

/-- **It returns and leaks nothing.**  Wherever a run from the initial state cannot
continue, the caller has returned and the reader, lexer and parser goroutines have all
ended (none is blocked on a channel). -/
theorem maximal_is_final (script : List Rd) (tail : Nat) (tailFail : Bool) (cap : Nat) (hcap : 1 ≤ cap)
    (s : St) (hr : Reach (init script tail tailFail cap) s) (hstuck : step s = []) : Final s :=
  no_deadlock s (reach_inv (inv_init script tail tailFail cap hcap) hr) hstuck

/-- **Close exactly once.**  Along every run `Close` has been called at most once; it has
been called exactly once when the reader goroutine has ended (in particular in every final
state); and no `Read` is issued after it. -/
theorem close_once (script : List Rd) (tail : Nat) (tailFail : Bool) (cap : Nat) (hcap : 1 ≤ cap)
    (s : St) (hr : Reach (init script tail tailFail cap) s) :
    s.closes ≤ 1 ∧ (Final s → s.closes = 1) ∧ (s.closes = 1 → aRead s = []) := by
  have hi := reach_inv (inv_init script tail tailFail cap hcap) hr
  have hk := hi.k
  refine ⟨by rw [hk]; split <;> omega, ?_, ?_⟩
  · intro hf; rw [hk, if_pos hf.1]
  · intro hc
    have : s.r = .fin := by
      rw [hk] at hc
      split at hc
      · assumption
      · omega
    simp [aRead, this]

/-- **After a lexical failure the reader stops within one `Read`**, however much input
remains: the lexer takes no chunk after the one it failed in, so the reader completes at
most one more `Read` and its hand-over is abandoned when the parser closes `done`. -/
theorem reads_after_lex_failure (script : List Rd) (tail : Nat) (tailFail : Bool) (cap : Nat) (hcap : 1 ≤ cap)
    (s : St) (hr : Reach (init script tail tailFail cap) s) : s.readsAfterFail ≤ 1 :=
  (reach_inv (inv_init script tail tailFail cap hcap) hr).m2

/-- **A read error is returned in preference to parse errors**: once the caller has the
reader's verdict — in particular when it returns — the result is the read error exactly
when some `Read` returned one, whatever the parser found. -/
theorem read_error_preferred (script : List Rd) (tail : Nat) (tailFail : Bool) (cap : Nat) (hcap : 1 ≤ cap)
    (s : St) (hr : Reach (init script tail tailFail cap) s) (hm : s.m ≠ .recvRerr) :
    (s.ret = .readError ↔ s.sawErr = true) := by
  have hi := reach_inv (inv_init script tail tailFail cap hcap) hr
  have := hi.n3 hm
  unfold St.ret
  rw [this]
  cases s.sawErr <;> simp
  split <;> simp

/-- After an error-free read side, the result is the parser's: an error exactly when the
parser flagged one (and a lexical failure always flags one). -/
theorem parse_result (script : List Rd) (tail : Nat) (tailFail : Bool) (cap : Nat) (hcap : 1 ≤ cap)
    (s : St) (hr : Reach (init script tail tailFail cap) s) (hm : s.m ≠ .recvRerr) (hne : s.sawErr = false) :
    s.ret = if s.hadErr then .parseError else .ok := by
  have hi := reach_inv (inv_init script tail tailFail cap hcap) hr
  have := hi.n3 hm
  unfold St.ret
  rw [this, hne]; simp

/-- `done` is closed only by a parser that has an error to report, and only after the
lexer has sent its last token: the reader is never cut off from a lexer that still wants
input on a parse that will succeed. -/
theorem done_only_on_error (script : List Rd) (tail : Nat) (tailFail : Bool) (cap : Nat) (hcap : 1 ≤ cap)
    (s : St) (hr : Reach (init script tail tailFail cap) s) (hd : s.doneClosed = true) :
    s.hadErr = true ∧ s.l.done = true := by
  have hi := reach_inv (inv_init script tail tailFail cap hcap) hr
  have h1 := hi.d hd
  refine ⟨h1.2, (hi.g ?_).1⟩
  rcases h1.1 with h | h <;> simp [h]

/-! ## non-vacuity: concrete runs reach the final state -/

instance (s : St) : Decidable (Final s) := by unfold Final; exact inferInstance

/-- A scheduler that always takes the first enabled move. -/
def runFirst : Nat → St → St
  | 0, s => s
  | n+1, s => match step s with
    | [] => s
    | s' :: _ => runFirst n s'

/-- A scheduler that always takes the last enabled move. -/
def runLast : Nat → St → St
  | 0, s => s
  | n+1, s => match (step s).getLast? with
    | none => s
    | some s' => runLast n s'

def ex1 : St := init [.data 3 false, .zero, .dataEof 2 false, .eof] 1 false 2
def ex2 : St := init [.data 3 false, .data 1 true, .data 5 false, .data 5 false, .err] 0 false 10
def ex3 : St := init [.data 2 false, .err, .data 1 false] 0 false 1

example : Final (runFirst 200 ex1) ∧ (runFirst 200 ex1).closes = 1 ∧ (runFirst 200 ex1).ret = .ok := by decide
example : Final (runLast 200 ex1) ∧ (runLast 200 ex1).closes = 1 := by decide
example : Final (runFirst 200 ex2) ∧ (runFirst 200 ex2).ret = .parseError ∧ (runFirst 200 ex2).reads = 3 := by decide
example : Final (runLast 200 ex2) ∧ (runLast 200 ex2).ret = .parseError ∧ (runLast 200 ex2).readsAfterFail = 1 := by decide
example : Final (runFirst 200 ex3) ∧ (runFirst 200 ex3).ret = .readError := by decide

end Bclv.C11
