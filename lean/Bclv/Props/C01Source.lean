import Bclv.Props.C01
import Bclv.Proofs.Group4
/-!
# C01, grouping clause, from source text

`Props/C01.lean` states the grouping theorem for the expression parser.  This file, which sits
above the lexer, grammar and budget proofs, lifts it to whole source texts.
-/
namespace Bclv.C01
open Bclv

/-- **From source text to tree**: if the parser accepts a source text, the token kinds the lexer
made of it (before the final `tEOF`) read as the shape of the program tree that is then
compiled — statement by statement, with every expression grouped by the precedence table
(`RdProg`, `RdS`, `Rd`). -/
theorem accepted_source_reads_as_its_tree (a : Bytes)
    (hok : (parseTokens (lexWhole a) (newlinesFrom 0 a)).ok = true) :
    ∃ body e, lexWhole a = body ++ [e] ∧ e.typ = .EOF ∧
      RdProg (shapeSs (parseTokens (lexWhole a) (newlinesFrom 0 a)).prog.body) (typs body) :=
  source_reads a hok

/-- the same for a token list (ending with a finalizer, without lexical failure) -/
theorem accepted_tokens_read_as_their_tree (toks : List Token) (lfs : List Nat) (hend : lastEnd toks = true)
    (hnf : ∀ t ∈ toks, t.typ ≠ .FAIL) (hok : (parseTokens toks lfs).ok = true) :
    ∃ body e rest, toks = body ++ e :: rest ∧ e.typ.isEnd = true ∧
      RdProg (shapeSs (parseTokens toks lfs).prog.body) (typs body) :=
  parse_reads toks lfs hend hnf hok

end Bclv.C01
