import Bclv.Props.C01
import Bclv.Proofs.Group4
import Bclv.Proofs.Group9
/-!
# C01, grouping clause, from source text

`Props/C01.lean` states the grouping theorem for the expression parser.  This file, which sits
above the lexer, grammar and budget proofs, lifts it to whole source texts.
-/
namespace Bclv.C01
open Bclv

/-- **From source text to tree**: if the parser accepts a source text, the token kinds the lexer
made of it (before the final `tEOF`) read as the shape of the program tree that is then
compiled — statement by statement, with every expression grouped by the precedence table
(`RdProg`, `RdS`, `Rd`). -/
theorem accepted_source_reads_as_its_tree (a : Bytes)
    (hok : (parseTokens (lexWhole a) (newlinesFrom 0 a)).ok = true) :
    ∃ body e, lexWhole a = body ++ [e] ∧ e.typ = .EOF ∧
      RdProg (shapeSs (parseTokens (lexWhole a) (newlinesFrom 0 a)).prog.body) (typs body) :=
  source_reads a hok

/-- the same for a token list (ending with a finalizer, without lexical failure) -/
theorem accepted_tokens_read_as_their_tree (toks : List Token) (lfs : List Nat) (hend : lastEnd toks = true)
    (hnf : ∀ t ∈ toks, t.typ ≠ .FAIL) (hok : (parseTokens toks lfs).ok = true) :
    ∃ body e rest, toks = body ++ e :: rest ∧ e.typ.isEnd = true ∧
      RdProg (shapeSs (parseTokens toks lfs).prog.body) (typs body) :=
  parse_reads toks lfs hend hnf hok

/-- **…and as no other**: with the side conditions on what may follow a statement (`RdProgF`:
an expression is followed by a token that cannot continue it, `var x` not by `=`, a statement
without `;` by the first token of the next), the token kinds of an accepted text read as the
shape of the program tree and as no other shape. -/
theorem accepted_source_has_one_reading (a : Bytes)
    (hok : (parseTokens (lexWhole a) (newlinesFrom 0 a)).ok = true) :
    ∃ body e, lexWhole a = body ++ [e] ∧ e.typ = .EOF ∧
      RdProgF (shapeSs (parseTokens (lexWhole a) (newlinesFrom 0 a)).prog.body) (typs body) .EOF ∧
      ∀ ss', RdProgF ss' (typs body) .EOF → ss' = shapeSs (parseTokens (lexWhole a) (newlinesFrom 0 a)).prog.body :=
  source_reads_unique a hok

/-- a token list reads as at most one program shape -/
theorem program_reading_unique (ss ss' : ShSs) (ts : List TokType) (c : TokType)
    (h : RdProgF ss ts c) (h' : RdProgF ss' ts c) : ss = ss' :=
  reading_of_program_unique ss ss' ts c h h'

end Bclv.C01
