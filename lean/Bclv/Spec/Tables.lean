import Bclv.Model.Token
import Bclv.Model.Tree
import Bclv.Model.Lexer
import Bclv.Model.Parser
import Bclv.Model.Prog
import Bclv.Model.Vm
/-!
# Frozen tables of bytecode format v1.1 and of the language

These are the tables the model and all theorems are stated over, written out as
plain data.  `Bclv/Gen/*.lean` is regenerated from `/repo` on every run and
`Bclv/Tie/*.lean` proves `Gen.X = Spec.X`; this file additionally proves that the
model's own definitions agree with the same data, so a table changed in the source
breaks a `Tie` theorem and a table changed in the model breaks a theorem here.
-/
namespace Bclv.Spec

/-- opcode numbering (`opcode.go`), name without the `op` prefix. -/
def opcodes : List (String × Nat) :=
  [("NOP", 0), ("RET", 1), ("PRINT", 2), ("SETLOCAL", 3), ("GETLOCAL", 4), ("DEFBLOCK", 5),
   ("ENDBLOCK", 6), ("SETFIELD", 7), ("GETFIELD", 8), ("CONST", 9), ("NIL", 10), ("ZERO", 11),
   ("ONE", 12), ("TRUE", 13), ("FALSE", 14), ("NOT", 15), ("EQ", 16), ("LT", 17), ("GT", 18),
   ("ADD", 19), ("SUB", 20), ("MUL", 21), ("DIV", 22), ("NEG", 23), ("UNPLUS", 24), ("JUMP", 25),
   ("LOOP", 26), ("JFALSE", 27), ("POP", 28), ("POPN", 29), ("BIND", 30)]

def allOps : List Op :=
  [.NOP, .RET, .PRINT, .SETLOCAL, .GETLOCAL, .DEFBLOCK, .ENDBLOCK, .SETFIELD, .GETFIELD, .CONST,
   .NIL, .ZERO, .ONE, .TRUE, .FALSE, .NOT, .EQ, .LT, .GT, .ADD, .SUB, .MUL, .DIV, .NEG, .UNPLUS,
   .JUMP, .LOOP, .JFALSE, .POP, .POPN, .BIND]

theorem opcodes_model : allOps.map (fun o => (o.name, o.toByte.toNat)) = opcodes := by decide

/-- Operands each opcode reads in `vm.run`, in order: `uv` = uvarint, `u16`, `byte`. -/
def operands : List (String × List String) :=
  [("NOP", []), ("RET", []), ("PRINT", []), ("SETLOCAL", ["uv"]), ("GETLOCAL", ["uv"]),
   ("DEFBLOCK", ["uv", "uv"]), ("ENDBLOCK", []), ("SETFIELD", ["uv"]), ("GETFIELD", ["uv"]),
   ("CONST", ["uv"]), ("NIL", []), ("ZERO", []), ("ONE", []), ("TRUE", []), ("FALSE", []),
   ("NOT", []), ("EQ", []), ("LT", []), ("GT", []), ("ADD", []), ("SUB", []), ("MUL", []),
   ("DIV", []), ("NEG", []), ("UNPLUS", []), ("JUMP", ["u16"]), ("LOOP", ["u16"]),
   ("JFALSE", ["u16"]), ("POP", []), ("POPN", ["uv"]), ("BIND", ["uv", "byte"])]

/-- type codes of constants (`typecode.go`). -/
def typecodes : List (String × Nat) :=
  [("NIL", 0), ("INT", 1), ("FLOAT", 2), ("STR", 3), ("BOOL", 4)]

theorem typecodes_model :
    (valueEnc .nil).head? = some 0 ∧ (valueEnc (.int 0)).head? = some 1
    ∧ (valueEnc (.float 0)).head? = some 2 ∧ (valueEnc (.str [])).head? = some 3
    ∧ (valueEnc (.bool false)).head? = some 4 := by decide

/-- bind selector and target nibbles (`bind.go`). -/
def bindSelectors : List (String × Nat) := [("bindOne", 1), ("bindFirst", 2), ("bindLast", 3), ("bindAll", 15)]
def bindTargets : List (String × Nat) := [("bindStruct", 16), ("bindSlice", 32)]

theorem bind_model : selOne = 1 ∧ selFirst = 2 ∧ selLast = 3 ∧ selAll = 15 ∧ tgtStruct = 16 ∧ tgtSlice = 32 := by decide

/-- header of a dump (`prog.go`). -/
def magicBytes : List Nat := [0xFC, 0x6C]
def versionMajor : Nat := 1
def versionMinor : Nat := 1

theorem header_model : magic.map UInt8.toNat = magicBytes ∧ verMajor.toNat = versionMajor ∧ verMinor.toNat = versionMinor := by decide

/-- sections of a dump in order, as written by `Prog.Dump`. -/
def dumpSections : List String := ["magic+version", "name", "code", "constants", "positions", "lfs"]

/-- implementation limits. -/
def limits : List (String × Nat) :=
  [("stackSize", 1024), ("blockStackSize", 16), ("localsMaxSize", 1024), ("jumpByteLength", 2),
   ("tokensBufSize", 10), ("readPageSize", 4096)]

theorem limits_model : stackSize = 1024 ∧ blockStackSize = 16 ∧ localsMaxSize = 1024 ∧ jumpMax = 256 ^ 2 - 1 := by decide

/-- token type numbering (`token.go`). -/
def tokenTypes : List (String × Nat) :=
  [("tFAIL", 0), ("tEOF", 1), ("tERR", 2), ("tINT", 3), ("tFLOAT", 4), ("tSTR", 5), ("tIDENT", 6),
   ("tVAR", 7), ("tDEF", 8), ("tEVAL", 9), ("tPRINT", 10), ("tBIND", 11), ("tTRUE", 12),
   ("tFALSE", 13), ("tNIL", 14), ("tEQ", 15), ("tLCURLY", 16), ("tRCURLY", 17), ("tLPAREN", 18),
   ("tRPAREN", 19), ("tOR", 20), ("tAND", 21), ("tNOT", 22), ("tEE", 23), ("tBE", 24), ("tLT", 25),
   ("tLE", 26), ("tGT", 27), ("tGE", 28), ("tPLUS", 29), ("tMINUS", 30), ("tSTAR", 31),
   ("tSLASH", 32), ("tCOLON", 33), ("tARROW", 34), ("tSEMICOLON", 35)]

def allTokTypes : List TokType :=
  [.FAIL, .EOF, .ERR, .INT, .FLOAT, .STR, .IDENT, .VAR, .DEF, .EVAL, .PRINT, .BIND, .TRUE, .FALSE,
   .NIL, .EQ, .LCURLY, .RCURLY, .LPAREN, .RPAREN, .OR, .AND, .NOT, .EE, .BE, .LT, .LE, .GT, .GE,
   .PLUS, .MINUS, .STAR, .SLASH, .COLON, .ARROW, .SEMICOLON]

theorem tokenTypes_model : allTokTypes.map (fun t => (t.name, t.toNat)) = tokenTypes := by decide

/-- keywords (`lex.go`), each word as its bytes, sorted by word. -/
def keywords : List (List Nat × String) :=
  [([97, 110, 100], "tAND") /- and -/,
   ([98, 105, 110, 100], "tBIND") /- bind -/,
   ([100, 101, 102], "tDEF") /- def -/,
   ([101, 118, 97, 108], "tEVAL") /- eval -/,
   ([102, 97, 108, 115, 101], "tFALSE") /- false -/,
   ([110, 105, 108], "tNIL") /- nil -/,
   ([110, 111, 116], "tNOT") /- not -/,
   ([111, 114], "tOR") /- or -/,
   ([112, 114, 105, 110, 116], "tPRINT") /- print -/,
   ([116, 114, 117, 101], "tTRUE") /- true -/,
   ([118, 97, 114], "tVAR") /- var -/]

/-- two-rune tokens: first rune, second rune, token. -/
def twoRune : List (Nat × Nat × String) :=
  [(33, 61, "tBE"), (45, 62, "tARROW"), (60, 61, "tLE"), (61, 61, "tEE"), (62, 61, "tGE")]

/-- one-rune tokens. -/
def oneRune : List (Nat × String) :=
  [(40, "tLPAREN"), (41, "tRPAREN"), (42, "tSTAR"), (43, "tPLUS"), (45, "tMINUS"), (47, "tSLASH"),
   (58, "tCOLON"), (59, "tSEMICOLON"), (60, "tLT"), (61, "tEQ"), (62, "tGT"), (123, "tLCURLY"), (125, "tRCURLY")]

/-- whitespace runes, end-of-line runes, comment rune. -/
def spaceRunes : List Nat := [9, 10, 11, 12, 13, 32, 133, 160]
def eolRunes : List Nat := [10, 13]
def commentRune : Nat := 35

/-- precedence levels (`parse.go`). -/
def precedences : List (String × Nat) :=
  [("precNone", 0), ("precAssign", 1), ("precOr", 2), ("precAnd", 3), ("precNot", 4), ("precEq", 5),
   ("precCmp", 6), ("precTerm", 7), ("precFactor", 8), ("precUnary", 9), ("precCall", 10), ("precPrimary", 11)]

/-- the rule table: token, prefix function, infix function, precedence ("" = nil). -/
def rules : List (String × String × String × String) :=
  [("tLPAREN", "parens", "", "precNone"), ("tRPAREN", "", "", "precNone"), ("tLCURLY", "", "", "precNone"),
   ("tRCURLY", "", "", "precNone"), ("tEQ", "", "", "precNone"),
   ("tMINUS", "unary", "binary", "precTerm"), ("tPLUS", "unary", "binary", "precTerm"),
   ("tSLASH", "", "binary", "precFactor"), ("tSTAR", "", "binary", "precFactor"),
   ("tOR", "", "boolOr", "precOr"), ("tAND", "", "boolAnd", "precAnd"), ("tNOT", "boolNot", "", "precNone"),
   ("tBE", "", "binary", "precEq"), ("tEE", "", "binary", "precEq"), ("tGT", "", "binary", "precCmp"),
   ("tGE", "", "binary", "precCmp"), ("tLT", "", "binary", "precCmp"), ("tLE", "", "binary", "precCmp"),
   ("tIDENT", "identRef", "", "precNone"), ("tSTR", "stringLit", "", "precNone"),
   ("tINT", "intLit", "", "precNone"), ("tFLOAT", "floatLit", "", "precNone"),
   ("tFALSE", "boolLit", "", "precNone"), ("tTRUE", "boolLit", "", "precNone"), ("tNIL", "nilLit", "", "precNone"),
   ("tVAR", "", "", "precNone"), ("tSEMICOLON", "", "", "precNone"), ("tERR", "", "", "precNone"),
   ("tEOF", "", "", "precNone"), ("tFAIL", "", "", "precNone")]

/-- precedence argument of the recursive `parsePrecedence` call in each parse function. -/
def recursion : List (String × String) :=
  [("expr", "precAssign"), ("binary", "rule.prec + 1"), ("boolAnd", "precAnd"), ("boolOr", "precOr"),
   ("boolNot", "precNot"), ("unary", "precUnary")]

/-- opcodes emitted by `binary` per operator token. -/
def binaryEmit : List (String × List String) :=
  [("tEE", ["EQ"]), ("tBE", ["EQ", "NOT"]), ("tLT", ["LT"]), ("tLE", ["GT", "NOT"]), ("tGT", ["GT"]),
   ("tGE", ["LT", "NOT"]), ("tPLUS", ["ADD"]), ("tMINUS", ["SUB"]), ("tSTAR", ["MUL"]), ("tSLASH", ["DIV"])]

/-- tokens at which `sync` stops, and the dispatch order of `stmt`. -/
def syncTokens : List String := ["tVAR", "tDEF", "tPRINT", "tEVAL"]
def stmtDispatch : List String := ["tPRINT", "tEVAL", "tDEF", "tBIND"]

/-! model agreement for the lexer and parser tables -/

theorem keywords_model :
    keywords.all (fun (w, t) => (keywordOf (w.map UInt8.ofNat)).map TokType.name == some t) = true
    ∧ keywordTable.length = keywords.length := by decide

theorem twoRune_model :
    twoRune.all (fun (a, b, t) => (twoRuneOf (a : Int)).map (fun p => (p.1, p.2.name)) == some (b, t)) = true
    ∧ twoRuneTable.length = twoRune.length := by decide

theorem oneRune_model :
    oneRune.all (fun (a, t) => (oneRuneOf (a : Int)).map TokType.name == some t) = true
    ∧ oneRuneTable.length = oneRune.length := by decide

theorem space_model :
    spaceRunes.all (fun r => isSpaceR (r : Int)) = true ∧ eolRunes.all (fun r => isEol (r : Int)) = true := by decide

def prefixName : Option Prefix → String
  | none => "" | some .parens => "parens" | some .unary => "unary" | some .boolNot => "boolNot"
  | some .identRef => "identRef" | some .stringLit => "stringLit" | some .intLit => "intLit"
  | some .floatLit => "floatLit" | some .boolLit => "boolLit" | some .nilLit => "nilLit"
def infixName : Option Infix → String
  | none => "" | some .binary => "binary" | some .boolOr => "boolOr" | some .boolAnd => "boolAnd"

def precOf (n : String) : Nat := (precedences.lookup n).getD 99

theorem rules_model :
    allTokTypes.all (fun t =>
      let r := getRule t
      match rules.find? (fun e => e.1 == t.name) with
      | some (_, p, i, pr) => prefixName r.pre == p && infixName r.inf == i && r.prec == precOf pr
      | none => r.pre.isNone && r.inf.isNone && r.prec == 0) = true := by decide

theorem recursion_model :
    precAssign = precOf "precAssign" ∧ precAnd = precOf "precAnd" ∧ precOr = precOf "precOr"
    ∧ precNot = precOf "precNot" ∧ precUnary = precOf "precUnary" := by decide

def tokOfName (n : String) : Option TokType := allTokTypes.find? (fun t => t.name == n)

theorem binaryEmit_model :
    binaryEmit.all (fun (t, ops) =>
      match tokOfName t with
      | some tt => (binOpOf tt).map (fun o => o.ops.map Op.name) == some ops
      | none => false) = true := by decide

end Bclv.Spec
