import Bclv.Model.Proto
/-!
# The concurrency skeleton `Model/Proto.lean` was written from

`concSkeleton` lists, per function of the pipeline, its goroutine / channel / select /
close / defer / loop / exit structure in source order, in the token language of the
extractor (`extract/conc.go`).  `Tie/Proto.lean` proves that the skeleton regenerated from
the current source equals this one.  How the transition system reads it:

* `ParseFile`, first `go{…}` = the **reader**: `RLoc.read` is `call f.Read`; the two `if`s
  lead to `sendErr`/`sendNil` (`send rerr; break`) and on to `closeInp` (`close inpc`);
  the `select` is `RLoc.sel` with its two arms (`aHandoff`: `case send inpc`, `continue`;
  `aDone`: `case recv done`, `send rerr`, `return` = `sendNilDone`); `defer f.Close()` is
  the move `aClose` taken on every exit.
* second `go{…}` = the **parser goroutine**: `call parseWithOpts` is `PLoc.run`
  (`parse` → `newLexer` starts the lexer goroutine; `parser.advance` receives tokens via
  `lexer.nextToken`); `if err != nil { close done }` is `pNext`/`aCloseDone`; `set prog`
  then `send perr` is `PLoc.publish`/`aPerr` — the program is written before the send
  that hands it over (C12).
* the tail `recv rerr; recv perr; return` = the **caller** (`MLoc`).
* `lexer.next` receives a chunk only in its refill loop (`LLoc.recv`, `aHandoff` /
  `aRecvClosed`); `lexer.emit`/`emitError` are the only sends on `l.tokens` (`aEmit`);
  `lexer.run` closes `l.tokens` after its state loop (`aCloseTok`).
* all four channels of `ParseFile` are unbuffered (`makechan 0`), `l.tokens` has
  `tokensBufSize` slots (`St.cap`).
* `chanUsers = []`: no other function of the package starts a goroutine or touches a channel.
-/
namespace Bclv.Spec

def tokensBufSize : Nat := 10

def concSkeleton : List (String × List String) :=
  [("ParseFile", ["makechan 0", "makechan 0", "makechan 0", "makechan 0", "go{", "defer f.Close()", "for {", "call f.Read", "if err != nil && err != io.EOF {", "send rerr", "break", "}", "if err == io.EOF && n == 0 {", "send rerr", "break", "}", "select{", "case send inpc:", "continue", "case recv done:", "send rerr", "return", "}", "}", "close inpc", "}", "go{", "call parseWithOpts", "if err != nil {", "close done", "}", "set prog", "send perr", "}", "recv rerr", "recv perr", "return"]),
   ("Parse", ["makechan 1", "send c", "close c", "call parseWithOpts", "return"]),
   ("parse", ["call newLexer", "for !p.matchEnd() {", "}", "if p.hadError {", "return", "}", "return"]),
   ("newLexer", ["makechan tokensBufSize", "go{", "call l.run", "}", "return"]),
   ("lexer.run", ["for state != nil {", "}", "close l.tokens"]),
   ("lexer.emit", ["send l.tokens"]),
   ("lexer.emitError", ["send l.tokens"]),
   ("lexer.next", ["for l.pos >= len(l.input) || !utf8.FullRuneInString(l.input[l.pos:]) {", "recv l.inputs", "if !ok {", "if l.pos < len(l.input) {", "break", "}", "if l.pos == l.start {", "return", "}", "}", "call l.lpUpd", "if !ok {", "break", "}", "}", "if l.width == 0 {", "return", "}", "return"]),
   ("lexer.nextToken", ["recv l.tokens", "return"]),
   ("parser.advance", ["for {", "call p.lexer.nextToken", "if !ok {", "return", "}", "if p.current.typ != tERR {", "break", "}", "}"])]

def chanUsers : List String := []

/-- The theorems of `Props/C11.lean` need a token buffer of at least one slot. -/
theorem cap_ok : 1 ≤ tokensBufSize := by decide

end Bclv.Spec
