import Bclv.Model.Prog
/-!
# The version 1.1 bytecode file format, as a relation (C14)

`Encodes p bs`: the byte string `bs` is a version 1.1 file for the program `p`, written from
the format's description alone, without reference to the model's encoder (`uvEnc`, `valueEnc`,
`dump`) or decoder:

    file      = FC 6C  01 01  name code constants positions linetable
    name      = varint(len) bytes            code      = varint(len) bytes
    constants = varint(count) value*         positions = varint(count) varint*
    linetable = varint(count) varint*
    value     = 00                         (nil)
              | 01 varint(two's complement of the int, as an unsigned 64-bit number)
              | 02 b7 … b0                 (IEEE-754 bits of the float, most significant byte first)
              | 03 varint(len) bytes       (string)
              | 04 (00 | 01)               (false | true)

and the sqlite4 variable-length integer as its specification reads (`A0` the first byte):
`A0 ≤ 240`: the value is `A0`; `241 ≤ A0 ≤ 248`: `240 + 256·(A0−241) + A1`; `A0 = 249`:
`2288 + 256·A1 + A2`; `A0 = 250 … 255`: the following 3 … 8 bytes as a big-endian integer.

`Proofs/Format.lean`: `dump p` is such a file (`dump_encodes`); the loader reads every such
file as exactly `p`, whatever follows it (`load_of_encodes`); hence a file is a file of at most
one program (`encodes_unique`).
-/
namespace Bclv.Format
open Bclv

/-- `Varint x bs`: the bytes `bs` denote `x` as a sqlite4 varint. -/
inductive Varint : Nat → Bytes → Prop
  | one (a0 : UInt8) : a0 ≤ 240 → Varint a0.toNat [a0]
  | two (a0 a1 : UInt8) : 241 ≤ a0 → a0 ≤ 248 → Varint (240 + 256 * (a0.toNat - 241) + a1.toNat) [a0, a1]
  | three (a1 a2 : UInt8) : Varint (2288 + 256 * a1.toNat + a2.toNat) [249, a1, a2]
  | be (n : Nat) (bs : Bytes) : 3 ≤ n → n ≤ 8 → bs.length = n → Varint (beVal bs) (UInt8.ofNat (247 + n) :: bs)

/-- A sequence of items, each written by `R`, one after the other. -/
inductive Many {α : Type} (R : α → Bytes → Prop) : List α → Bytes → Prop
  | nil : Many R [] []
  | cons (a : α) (as : List α) (e es : Bytes) : R a e → Many R as es → Many R (a :: as) (e ++ es)

/-- A typed constant. -/
inductive Val : Value → Bytes → Prop
  | nil : Val .nil [0]
  | int (i : Int64) (e : Bytes) : Varint i.toUInt64.toNat e → Val (.int i) (1 :: e)
  | float (b : UInt64) (e : Bytes) : e.length = 8 → beVal e = b.toNat → Val (.float b) (2 :: e)
  | str (s e : Bytes) : Varint s.length e → Val (.str s) (3 :: (e ++ s))
  | bool (b : Bool) : Val (.bool b) [4, if b then 1 else 0]

/-- A count followed by that many items. -/
def Counted {α : Type} (R : α → Bytes → Prop) (xs : List α) (bs : Bytes) : Prop :=
  ∃ ec es, Varint xs.length ec ∧ Many R xs es ∧ bs = ec ++ es

/-- A length followed by that many bytes. -/
def Sized (s : Bytes) (bs : Bytes) : Prop := ∃ el, Varint s.length el ∧ bs = el ++ s

/-- The file. -/
def Encodes (p : Prog) (bs : Bytes) : Prop :=
  ∃ n c k ps ls, Sized p.name n ∧ Sized p.code c ∧ Counted Val p.consts k
    ∧ Counted Varint p.positions ps ∧ Counted Varint p.lfs ls
    ∧ bs = [0xFC, 0x6C, 1, 1] ++ n ++ c ++ k ++ ps ++ ls

end Bclv.Format
