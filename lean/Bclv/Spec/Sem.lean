import Bclv.Model.Vm
/-!
# The meaning of resolved programs (the language definition on trees)

A big-step evaluator over the resolved trees of `Bclv.Model.Tree`, written directly
from the documented rules: numeric tower with int→float promotion, the string cases
of `+` and `*`, equality across all types, ordering within numbers and within
strings, Python-style `and`/`or`/`not` returning an operand and using the falsey set
(false, nil, "", 0, 0.0), assignment yielding the assigned value, left-to-right
evaluation, blocks, fields, `bind`.  The state is machine independent: the operand
stack (locals at the bottom, in declaration order), the open blocks, the completed
toplevel blocks, the binding, the output and the warning log.

`Bclv/Proofs/CompileCorrect.lean` proves that the stack machine running the compiled
code computes exactly this.
-/
namespace Bclv

/-- Machine-independent state. -/
structure Sem where
  stack : List Value := []        -- top first; the variables are the bottom elements
  blocks : List Block := []       -- innermost first
  result : List Block := []
  binding : Option Binding := none
  out : List OutEv := []          -- newest first
  log : List Bytes := []          -- newest first

def VM.sem (vm : VM) : Sem :=
  { stack := vm.stack, blocks := vm.blocks, result := vm.result, binding := vm.binding, out := vm.out, log := vm.log }

/-- Outcome of evaluating a tree: a new state, a runtime error with the source offset
it is reported at, or `wrong` for trees that are not well-resolved (never produced by
the parser: a slot or constant index out of range, a field access outside a block). -/
inductive Res where
  | ok (s : Sem)
  | err (pos : Nat) (msg : Bytes)
  | wrong

def Res.bind (r : Res) (f : Sem → Res) : Res :=
  match r with
  | .ok s => f s
  | .err pos msg => .err pos msg
  | .wrong => .wrong

/-- The text of a runtime error. -/
def rtText (p : Prog) (pos : Nat) (msg : Bytes) : Bytes :=
  str "runtime error: line " ++ fmtPos p.lfs pos ++ str ": " ++ msg

/-- Push a value; the operand stack holds at most 1024 values. -/
def pushV (s : Sem) (v : Value) (pos : Nat) : Res :=
  if s.stack.length = stackSize then .err pos (str "stack overflow")
  else .ok { s with stack := v :: s.stack }

def Lit.value : Lit → Value
  | .zero => .int 0 | .one => .int 1 | .tru => .bool true | .fls => .bool false | .nil => .nil

/-- Unary operators: sign on numbers, `not` on anything (by the falsey set). -/
def unopSem (op : UnOp) (pos : Nat) (s : Sem) : Res :=
  match op, s.stack with
  | _, [] => .wrong
  | .not, v :: rest => .ok { s with stack := .bool (isFalsey v) :: rest }
  | .neg, .int x :: rest => .ok { s with stack := .int (-x) :: rest }
  | .neg, .float f :: rest => .ok { s with stack := .float (fBits (-(fOf f))) :: rest }
  | .neg, v :: _ => .err pos (str "NEG: invalid type: " ++ str (vtype v) ++ str ", expected number")
  | .plus, v :: _ =>
    if v.isNumber then .ok s
    else .err pos (str "UNPLUS: invalid type: " ++ str (vtype v) ++ str ", expected number")

/-- The arithmetic/comparison primitive a binary operator is built on, whether its
result is negated, and the name used in error messages. -/
def BinOp.prim : BinOp → ArOp × Bool × String
  | .eq => (.eq, false, "EQ") | .ne => (.eq, true, "EQ") | .lt => (.lt, false, "LT")
  | .le => (.gt, true, "GT") | .gt => (.gt, false, "GT") | .ge => (.lt, true, "LT")
  | .add => (.add, false, "ADD") | .sub => (.sub, false, "SUB") | .mul => (.mul, false, "MUL")
  | .div => (.div, false, "DIV")

/-- Binary operators on the two topmost values (`a` below `b`). -/
def binSem (op : BinOp) (pos : Nat) (s : Sem) : Res :=
  match s.stack with
  | bv :: av :: rest =>
    let (ar, negated, name) := op.prim
    match binop ar name av bv with
    | .ok v => .ok { s with stack := (if negated then .bool (isFalsey v) else v) :: rest }
    | .err msg => .err pos msg
  | _ => .wrong

def evalE (p : Prog) : Expr → Sem → Res
  | .lit l pos, s => pushV s l.value pos
  | .const idx pos, s =>
    match p.consts[idx]? with
    | some v => pushV s v pos
    | none => .wrong
  | .getLocal slot pos, s =>
    if slot < s.stack.length then pushV s (s.stack.getD (s.stack.length - 1 - slot) .nil) pos else .wrong
  | .getField idx pos, s =>
    match constStr p idx with
    | some name =>
      if s.blocks.isEmpty then .wrong else
      match blockGet name s.blocks with
      | some v => pushV s v pos
      | none => .err pos (str "identifier '" ++ name ++ str "' not resolved as var or field")
    | none => .wrong
  | .setLocal slot e _, s =>
    (evalE p e s).bind fun s1 =>
      match s1.stack with
      | top :: _ =>
        if slot < s1.stack.length then .ok { s1 with stack := setNth s1.stack (s1.stack.length - 1 - slot) top }
        else .wrong
      | [] => .wrong
  | .setField idx e pos, s =>
    (evalE p e s).bind fun s1 =>
      match constStr p idx, s1.blocks, s1.stack with
      | some name, top :: rest, v :: _ =>
        match top.fields.get name with
        | .child _ => .err pos (str "field " ++ name ++ str " duplicates child block")
        | _ => .ok { s1 with blocks := .mk top.typ top.name (top.fields.setVal name v) :: rest }
      | _, _, _ => .wrong
  | .un op e pos, s => (evalE p e s).bind (unopSem op pos)
  | .bin op a b pos, s => ((evalE p a s).bind (evalE p b)).bind (binSem op pos)
  | .and a b _, s =>
    (evalE p a s).bind fun s1 =>
      match s1.stack with
      | v :: rest => if isFalsey v then .ok s1 else evalE p b { s1 with stack := rest }
      | [] => .wrong
  | .or a b _, s =>
    (evalE p a s).bind fun s1 =>
      match s1.stack with
      | v :: rest => if isFalsey v then evalE p b { s1 with stack := rest } else .ok s1
      | [] => .wrong
  | .bad, _ => .wrong

/-- Drop `n` values (leaving a scope). -/
def popSem (n : Nat) (s : Sem) : Res :=
  if n ≤ s.stack.length then .ok { s with stack := s.stack.drop n } else .wrong

/-- Close the innermost block: a toplevel block is appended to the result, a nested
one becomes an entry of its parent under `type` or `type.name`. -/
def endBlockSem (pos : Nat) (s : Sem) : Res :=
  match s.blocks with
  | [] => .wrong
  | [b] => .ok { s with blocks := [], result := s.result ++ [b] }
  | child :: parent :: rest =>
    let k := child.key
    match parent.fields.get k with
    | .none => .ok { s with blocks := .mk parent.typ parent.name (parent.fields.addChild k child) :: rest }
    | _ => .err pos (str "child " ++ k ++ str " duplicate at parent")

/-- Every bind after the first leaves a warning on the log (and does not fail). -/
def bindWarn (p : Prog) (pos : Nat) (s0 : Sem) : Sem :=
  match s0.binding with
  | some _ => { s0 with log := (str "WARNING: line " ++ fmtPos p.lfs pos ++
                  str ": repeated bind statement, last one overrides\n") :: s0.log }
  | none => s0

/-- Selecting the blocks of the named type among the completed toplevel blocks. -/
def bindCore (p : Prog) (ti : Nat) (opt : Nat) (pos : Nat) (s : Sem) : Res :=
  match constStr p ti with
  | some bt =>
    let sel := opt % 16
    let tgt := opt / 16 * 16
    let blocks := s.result.filter (fun b => b.typ = bt)
    if blocks.isEmpty then .err pos (str "bind: no blocks of type " ++ bt)
    else if blocks.length ≠ 1 && sel = selOne then
      .err pos (str "bind: found " ++ natDec blocks.length ++ str " blocks of type " ++ bt
                    ++ str " but expected just 1")
    else
      let first := blocks.headD default
      let last := blocks.getLastD default
      if tgt = tgtStruct && (sel = selOne || sel = selFirst) then .ok { s with binding := some (.struct first) }
      else if tgt = tgtStruct && sel = selLast then .ok { s with binding := some (.struct last) }
      else if tgt = tgtSlice && sel = selAll then .ok { s with binding := some (.slice blocks) }
      else if tgt = tgtSlice && (sel = selOne || sel = selFirst) then .ok { s with binding := some (.slice [first]) }
      else if tgt = tgtSlice && sel = selLast then .ok { s with binding := some (.slice [last]) }
      else .err pos (str "invalid bind target and selector :0x" ++ padLeft 2 32 (hexLower opt))
  | none => .wrong

/-- The bind statement. -/
def bindSem (p : Prog) (ti : Nat) (opt : Nat) (pos : Nat) (s0 : Sem) : Res :=
  bindCore p ti opt pos (bindWarn p pos s0)

/-- `print`: the topmost value is removed and written as a line. -/
def printSem (s : Sem) : Res :=
  match s.stack with
  | v :: rest => .ok { s with stack := rest, out := .print (fmtValue v ++ str "\n") :: s.out }
  | [] => .wrong

mutual
def evalS (p : Prog) : Stmt → Sem → Res
  | .var (some e) _, s => evalE p e s
  | .var none pos, s => pushV s .nil pos
  | .print e _, s => (evalE p e s).bind printSem
  | .eval e _, s => (evalE p e s).bind (popSem 1)
  | .block ti ni openPos body npop closePos, s =>
    if s.blocks.length = blockStackSize then .err openPos (str "blocks nested too deep")
    else
      match constStr p ti, constStr p ni with
      | some t, some n =>
        (((evalSs p body { s with blocks := .mk t n .nil :: s.blocks }).bind (popSem npop)).bind (endBlockSem closePos))
      | _, _ => .wrong
  | .bind ti opt pos, s => bindSem p ti opt.toNat pos s
  | .bad, _ => .wrong
def evalSs (p : Prog) : Stmts → Sem → Res
  | .nil, s => .ok s
  | .cons st rest, s => (evalS p st s).bind (evalSs p rest)
end

/-- Outcome of a whole program. -/
inductive ProgRes where
  | done (s : Sem)                       -- ran to completion
  | err (s? : Unit) (text : Bytes)       -- a runtime error
  | wrong

/-- A whole program: its statements, then the toplevel variables are dropped. -/
def evalP (p : Prog) (t : Program) : Res :=
  ((evalSs p t.body {}).bind (popSem t.npop))

end Bclv
