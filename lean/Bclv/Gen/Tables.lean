/-!
# Tables extracted from the Go sources by `bclx` -- GENERATED, DO NOT EDIT

Regenerate with `bclx -repo <repo> -out Bclv/Gen/Tables.lean`.  Each definition has the
type and ordering of the definition of the same name in `Bclv.Spec`; `Bclv/Tie/Tables.lean`
proves them equal.  A fact that could not be extracted is an empty/zero placeholder.
-/
namespace Bclv.Gen

/- source: opcode.go:5 -/
def opcodes : List (String × Nat) :=
  [("NOP", 0),
   ("RET", 1),
   ("PRINT", 2),
   ("SETLOCAL", 3),
   ("GETLOCAL", 4),
   ("DEFBLOCK", 5),
   ("ENDBLOCK", 6),
   ("SETFIELD", 7),
   ("GETFIELD", 8),
   ("CONST", 9),
   ("NIL", 10),
   ("ZERO", 11),
   ("ONE", 12),
   ("TRUE", 13),
   ("FALSE", 14),
   ("NOT", 15),
   ("EQ", 16),
   ("LT", 17),
   ("GT", 18),
   ("ADD", 19),
   ("SUB", 20),
   ("MUL", 21),
   ("DIV", 22),
   ("NEG", 23),
   ("UNPLUS", 24),
   ("JUMP", 25),
   ("LOOP", 26),
   ("JFALSE", 27),
   ("POP", 28),
   ("POPN", 29),
   ("BIND", 30)]

/- source: machine.go:129 -/
def operands : List (String × List String) :=
  [("NOP", []),
   ("RET", []),
   ("PRINT", []),
   ("SETLOCAL", ["uv"]),
   ("GETLOCAL", ["uv"]),
   ("DEFBLOCK", ["uv", "uv"]),
   ("ENDBLOCK", []),
   ("SETFIELD", ["uv"]),
   ("GETFIELD", ["uv"]),
   ("CONST", ["uv"]),
   ("NIL", []),
   ("ZERO", []),
   ("ONE", []),
   ("TRUE", []),
   ("FALSE", []),
   ("NOT", []),
   ("EQ", []),
   ("LT", []),
   ("GT", []),
   ("ADD", []),
   ("SUB", []),
   ("MUL", []),
   ("DIV", []),
   ("NEG", []),
   ("UNPLUS", []),
   ("JUMP", ["u16"]),
   ("LOOP", ["u16"]),
   ("JFALSE", ["u16"]),
   ("POP", []),
   ("POPN", ["uv"]),
   ("BIND", ["uv", "byte"])]

/- source: typecode.go:5 -/
def typecodes : List (String × Nat) :=
  [("NIL", 0),
   ("INT", 1),
   ("FLOAT", 2),
   ("STR", 3),
   ("BOOL", 4)]

/- source: bind.go:5 -/
def bindSelectors : List (String × Nat) :=
  [("bindOne", 1),
   ("bindFirst", 2),
   ("bindLast", 3),
   ("bindAll", 15)]

/- source: bind.go:15 -/
def bindTargets : List (String × Nat) :=
  [("bindStruct", 16),
   ("bindSlice", 32)]

/- source: prog.go:59 -/
def magicBytes : List Nat :=
  [252, 108]

/- source: prog.go:60 -/
def versionMajor : Nat :=
  1

/- source: prog.go:61 -/
def versionMinor : Nat :=
  1

/- source: prog.go:64 -/
def dumpSections : List String :=
  ["magic+version", "name", "code", "constants", "positions", "lfs"]

/- source: machine.go:45, machine.go:46, parse.go:70, parse.go:724, lex.go:32, api.go:56 -/
def limits : List (String × Nat) :=
  [("stackSize", 1024),
   ("blockStackSize", 16),
   ("localsMaxSize", 1024),
   ("jumpByteLength", 2),
   ("tokensBufSize", 10),
   ("readPageSize", 4096)]

/- source: token.go:14 -/
def tokenTypes : List (String × Nat) :=
  [("tFAIL", 0),
   ("tEOF", 1),
   ("tERR", 2),
   ("tINT", 3),
   ("tFLOAT", 4),
   ("tSTR", 5),
   ("tIDENT", 6),
   ("tVAR", 7),
   ("tDEF", 8),
   ("tEVAL", 9),
   ("tPRINT", 10),
   ("tBIND", 11),
   ("tTRUE", 12),
   ("tFALSE", 13),
   ("tNIL", 14),
   ("tEQ", 15),
   ("tLCURLY", 16),
   ("tRCURLY", 17),
   ("tLPAREN", 18),
   ("tRPAREN", 19),
   ("tOR", 20),
   ("tAND", 21),
   ("tNOT", 22),
   ("tEE", 23),
   ("tBE", 24),
   ("tLT", 25),
   ("tLE", 26),
   ("tGT", 27),
   ("tGE", 28),
   ("tPLUS", 29),
   ("tMINUS", 30),
   ("tSTAR", 31),
   ("tSLASH", 32),
   ("tCOLON", 33),
   ("tARROW", 34),
   ("tSEMICOLON", 35)]

/- source: lex.go:210 -/
def keywords : List (List Nat × String) :=
  [([97, 110, 100], "tAND"),
   ([98, 105, 110, 100], "tBIND"),
   ([100, 101, 102], "tDEF"),
   ([101, 118, 97, 108], "tEVAL"),
   ([102, 97, 108, 115, 101], "tFALSE"),
   ([110, 105, 108], "tNIL"),
   ([110, 111, 116], "tNOT"),
   ([111, 114], "tOR"),
   ([112, 114, 105, 110, 116], "tPRINT"),
   ([116, 114, 117, 101], "tTRUE"),
   ([118, 97, 114], "tVAR")]

/- source: lex.go:229 -/
def twoRune : List (Nat × Nat × String) :=
  [(33, 61, "tBE"),
   (45, 62, "tARROW"),
   (60, 61, "tLE"),
   (61, 61, "tEE"),
   (62, 61, "tGE")]

/- source: lex.go:237 -/
def oneRune : List (Nat × String) :=
  [(40, "tLPAREN"),
   (41, "tRPAREN"),
   (42, "tSTAR"),
   (43, "tPLUS"),
   (45, "tMINUS"),
   (47, "tSLASH"),
   (58, "tCOLON"),
   (59, "tSEMICOLON"),
   (60, "tLT"),
   (61, "tEQ"),
   (62, "tGT"),
   (123, "tLCURLY"),
   (125, "tRCURLY")]

/- source: lex.go:179 -/
def spaceRunes : List Nat :=
  [9, 10, 11, 12, 13, 32, 133, 160]

/- source: lex.go:175 -/
def eolRunes : List Nat :=
  [10, 13]

/- source: lex.go:258 -/
def commentRune : Nat :=
  35

/- source: parse.go:265 -/
def precedences : List (String × Nat) :=
  [("precNone", 0),
   ("precAssign", 1),
   ("precOr", 2),
   ("precAnd", 3),
   ("precNot", 4),
   ("precEq", 5),
   ("precCmp", 6),
   ("precTerm", 7),
   ("precFactor", 8),
   ("precUnary", 9),
   ("precCall", 10),
   ("precPrimary", 11)]

/- source: parse.go:283 -/
def rules : List (String × String × String × String) :=
  [("tLPAREN", "parens", "", "precNone"),
   ("tRPAREN", "", "", "precNone"),
   ("tLCURLY", "", "", "precNone"),
   ("tRCURLY", "", "", "precNone"),
   ("tEQ", "", "", "precNone"),
   ("tMINUS", "unary", "binary", "precTerm"),
   ("tPLUS", "unary", "binary", "precTerm"),
   ("tSLASH", "", "binary", "precFactor"),
   ("tSTAR", "", "binary", "precFactor"),
   ("tOR", "", "boolOr", "precOr"),
   ("tAND", "", "boolAnd", "precAnd"),
   ("tNOT", "boolNot", "", "precNone"),
   ("tBE", "", "binary", "precEq"),
   ("tEE", "", "binary", "precEq"),
   ("tGT", "", "binary", "precCmp"),
   ("tGE", "", "binary", "precCmp"),
   ("tLT", "", "binary", "precCmp"),
   ("tLE", "", "binary", "precCmp"),
   ("tIDENT", "identRef", "", "precNone"),
   ("tSTR", "stringLit", "", "precNone"),
   ("tINT", "intLit", "", "precNone"),
   ("tFLOAT", "floatLit", "", "precNone"),
   ("tFALSE", "boolLit", "", "precNone"),
   ("tTRUE", "boolLit", "", "precNone"),
   ("tNIL", "nilLit", "", "precNone"),
   ("tVAR", "", "", "precNone"),
   ("tSEMICOLON", "", "", "precNone"),
   ("tERR", "", "", "precNone"),
   ("tEOF", "", "", "precNone"),
   ("tFAIL", "", "", "precNone")]

/- source: parse.go:253, parse.go:343, parse.go:374, parse.go:392, parse.go:402, parse.go:413 -/
def recursion : List (String × String) :=
  [("expr", "precAssign"),
   ("binary", "rule.prec + 1"),
   ("boolAnd", "precAnd"),
   ("boolOr", "precOr"),
   ("boolNot", "precNot"),
   ("unary", "precUnary")]

/- source: parse.go:345 -/
def binaryEmit : List (String × List String) :=
  [("tEE", ["EQ"]),
   ("tBE", ["EQ", "NOT"]),
   ("tLT", ["LT"]),
   ("tLE", ["GT", "NOT"]),
   ("tGT", ["GT"]),
   ("tGE", ["LT", "NOT"]),
   ("tPLUS", ["ADD"]),
   ("tMINUS", ["SUB"]),
   ("tSTAR", ["MUL"]),
   ("tSLASH", ["DIV"])]

/- source: parse.go:531 -/
def syncTokens : List String :=
  ["tVAR", "tDEF", "tPRINT", "tEVAL"]

/- source: parse.go:121 -/
def stmtDispatch : List String :=
  ["tPRINT", "tEVAL", "tDEF", "tBIND"]

/- source: lex.go:32 -/
def tokensBufSize : Nat :=
  10

/- source: api.go:48, api.go:38, parse.go:7, lex.go:14, lex.go:46, lex.go:53, lex.go:62, lex.go:79, lex.go:25, parse.go:474 -/
def concSkeleton : List (String × List String) :=
  [("ParseFile", ["makechan 0", "makechan 0", "makechan 0", "makechan 0", "go{", "defer f.Close()", "for {", "call f.Read", "if err != nil && err != io.EOF {", "send rerr", "break", "}", "if err == io.EOF && n == 0 {", "send rerr", "break", "}", "select{", "case send inpc:", "continue", "case recv done:", "send rerr", "return", "}", "}", "close inpc", "}", "go{", "call parseWithOpts", "if err != nil {", "close done", "}", "set prog", "send perr", "}", "recv rerr", "recv perr", "return"]),
   ("Parse", ["makechan 1", "send c", "close c", "call parseWithOpts", "return"]),
   ("parse", ["call newLexer", "for !p.matchEnd() {", "}", "if p.hadError {", "return", "}", "return"]),
   ("newLexer", ["makechan tokensBufSize", "go{", "call l.run", "}", "return"]),
   ("lexer.run", ["for state != nil {", "}", "close l.tokens"]),
   ("lexer.emit", ["send l.tokens"]),
   ("lexer.emitError", ["send l.tokens"]),
   ("lexer.next", ["for l.pos >= len(l.input) || !utf8.FullRuneInString(l.input[l.pos:]) {", "recv l.inputs", "if !ok {", "if l.pos < len(l.input) {", "break", "}", "if l.pos == l.start {", "return", "}", "}", "call l.lpUpd", "if !ok {", "break", "}", "}", "if l.width == 0 {", "return", "}", "return"]),
   ("lexer.nextToken", ["recv l.tokens", "return"]),
   ("parser.advance", ["for {", "call p.lexer.nextToken", "if !ok {", "return", "}", "if p.current.typ != tERR {", "break", "}", "}"])]

/- source: all functions of package bcl (175) -/
def chanUsers : List String :=
  []

/- source: every function of package bcl mentioning lfs -/
def lfsAccess : List (String × String) :=
  [("Prog.Dump", "bare"),
   ("Prog.Load", "bare"),
   ("lineCalc.add", "locked"),
   ("lineCalc.lineColAt", "locked"),
   ("newLineCalc", "new")]

/- source: every function of package bcl (175) -/
def progWriters : List String :=
  ["Prog.Load", "Prog.addConst", "Prog.initForParse", "Prog.write", "parser.end"]

/- source: every function of package bcl (175) -/
def pkgVarWriters : List String :=
  ["init"]

/- source: syntactic call graph from execute -/
def execReach : List String :=
  ["Block.key", "Prog.disasmInstr", "SliceBinding.binding", "StructBinding.binding", "_", "bindInstr", "binopNumeric", "binopString", "blockInstr", "constInstr", "execute", "isAlpha", "isAlphaNum", "isDigit", "isEol", "isFalsey", "isFloat", "isInt", "isNumber", "isSpace", "isString", "jumpInstr", "lexFloat", "lexHex", "lexKeywordOrIdent", "lexLineComment", "lexNumber", "lexQuote", "lexSpace", "lexStart", "lexer.accept", "lexer.acceptRun", "lexer.acceptRunFunc", "lexer.backup", "lexer.current", "lexer.emit", "lexer.emitError", "lexer.fail", "lexer.ignore", "lexer.next", "lexer.peek", "lexer.run", "lexer.unbackup", "lineCalc.format", "lineCalc.lineColAt", "opcode.String", "printStack", "simpleInstr", "token.String", "tokenType.String", "typecode.String", "u16FromBytes", "unopNumeric", "uvarintFromBytes", "varbyteargInstr", "vm.run", "vm.runtimeError", "vm.warning", "vtype"]

/- source: syntactic call graph from ParseFile -/
def pipelineReach : List String :=
  ["Block.key", "ParseFile", "Prog.addConst", "Prog.count", "Prog.disasm", "Prog.disasmInstr", "Prog.initForParse", "Prog.write", "SliceBinding.binding", "StructBinding.binding", "_", "bindInstr", "bindStmt", "binopNumeric", "binopString", "blockInstr", "blockStmt", "constInstr", "decl", "errCombined.Error", "errInvalidType.Error", "errInvalidValue.Error", "expr", "exprStmt", "fieldMappingErr.Error", "getRule", "isAlpha", "isAlphaNum", "isDigit", "isEol", "isFalsey", "isFloat", "isInt", "isNumber", "isSpace", "isString", "jumpInstr", "lexFloat", "lexHex", "lexKeywordOrIdent", "lexLineComment", "lexNumber", "lexQuote", "lexSpace", "lexStart", "lexer.accept", "lexer.acceptRun", "lexer.acceptRunFunc", "lexer.backup", "lexer.current", "lexer.emit", "lexer.emitError", "lexer.fail", "lexer.ignore", "lexer.next", "lexer.nextToken", "lexer.peek", "lexer.run", "lexer.unbackup", "lineCalc.add", "lineCalc.format", "lineCalc.lineColAt", "logger.Print", "logger.Printf", "makeConfig", "newLexer", "newLineCalc", "newProg", "opcode.String", "parse", "parseWithOpts", "parser.addLocal", "parser.advance", "parser.beginScope", "parser.check", "parser.checkEnd", "parser.consume", "parser.currentProg", "parser.declVar", "parser.defBlock", "parser.defVar", "parser.emitByte", "parser.emitBytes", "parser.emitOp", "parser.emitUvarint", "parser.end", "parser.endBlock", "parser.endScope", "parser.error", "parser.errorAt", "parser.errorAtCurrent", "parser.finishStats", "parser.identConst", "parser.makeConst", "parser.markInitialized", "parser.match", "parser.matchEnd", "parser.parsePrecedence", "parser.popN", "parser.sync", "printPStats", "printStack", "printStmt", "runtimeErr.Error", "simpleInstr", "stmt", "token.String", "tokenType.String", "typecode.String", "u16FromBytes", "unopNumeric", "uvarintFromBytes", "uvarintToBytes", "varDecl", "varbyteargInstr", "vm.run", "vm.runtimeError", "vm.warning", "vtype"]

end Bclv.Gen
