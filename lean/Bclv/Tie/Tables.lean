import Bclv.Gen.Tables
import Bclv.Spec.Tables
/-!
# Tie: the tables extracted from the Go sources equal the frozen spec tables

`Bclv/Gen/Tables.lean` is regenerated from the working tree of the repository by
`/verif/extract` (`bclx`).  Each theorem below is a separate obligation, so a table
that changed in the source breaks exactly the theorem named after it.  A fact the
extractor could not recognise is emitted as an empty/zero placeholder, which also
fails its theorem here.

Build with `lake build Bclv.Tie.Tables`.
-/
namespace Bclv.Tie

/-- opcode numbering (`opcode.go`) -/
theorem tie_opcodes : Bclv.Gen.opcodes = Bclv.Spec.opcodes := by decide

/-- operand reads per opcode in `vm.run` (`machine.go`) -/
theorem tie_operands : Bclv.Gen.operands = Bclv.Spec.operands := by decide

/-- constant type codes (`typecode.go`) -/
theorem tie_typecodes : Bclv.Gen.typecodes = Bclv.Spec.typecodes := by decide

/-- bind selector nibbles (`bind.go`) -/
theorem tie_bindSelectors : Bclv.Gen.bindSelectors = Bclv.Spec.bindSelectors := by decide

/-- bind target nibbles (`bind.go`) -/
theorem tie_bindTargets : Bclv.Gen.bindTargets = Bclv.Spec.bindTargets := by decide

/-- dump magic (`prog.go`) -/
theorem tie_magicBytes : Bclv.Gen.magicBytes = Bclv.Spec.magicBytes := by decide

/-- bytecode major version (`prog.go`) -/
theorem tie_versionMajor : Bclv.Gen.versionMajor = Bclv.Spec.versionMajor := by decide

/-- bytecode minor version (`prog.go`) -/
theorem tie_versionMinor : Bclv.Gen.versionMinor = Bclv.Spec.versionMinor := by decide

/-- order of sections written by `Prog.Dump` (`prog.go`) -/
theorem tie_dumpSections : Bclv.Gen.dumpSections = Bclv.Spec.dumpSections := by decide

/-- implementation limits (`machine.go`, `parse.go`, `lex.go`, `api.go`) -/
theorem tie_limits : Bclv.Gen.limits = Bclv.Spec.limits := by decide

/-- token type numbering (`token.go`) -/
theorem tie_tokenTypes : Bclv.Gen.tokenTypes = Bclv.Spec.tokenTypes := by decide

/-- keyword table (`lex.go`) -/
theorem tie_keywords : Bclv.Gen.keywords = Bclv.Spec.keywords := by decide

/-- two-rune tokens (`lex.go`) -/
theorem tie_twoRune : Bclv.Gen.twoRune = Bclv.Spec.twoRune := by decide

/-- one-rune tokens (`lex.go`) -/
theorem tie_oneRune : Bclv.Gen.oneRune = Bclv.Spec.oneRune := by decide

/-- `isSpace` (`lex.go`) -/
theorem tie_spaceRunes : Bclv.Gen.spaceRunes = Bclv.Spec.spaceRunes := by decide

/-- `isEol` (`lex.go`) -/
theorem tie_eolRunes : Bclv.Gen.eolRunes = Bclv.Spec.eolRunes := by decide

/-- `lineComment` (`lex.go`) -/
theorem tie_commentRune : Bclv.Gen.commentRune = Bclv.Spec.commentRune := by decide

/-- precedence levels (`parse.go`) -/
theorem tie_precedences : Bclv.Gen.precedences = Bclv.Spec.precedences := by decide

/-- Pratt rule table (`parse.go`, `init`) -/
theorem tie_rules : Bclv.Gen.rules = Bclv.Spec.rules := by decide

/-- `parsePrecedence` argument of each parse function (`parse.go`) -/
theorem tie_recursion : Bclv.Gen.recursion = Bclv.Spec.recursion := by decide

/-- opcodes emitted by `binary` per operator (`parse.go`) -/
theorem tie_binaryEmit : Bclv.Gen.binaryEmit = Bclv.Spec.binaryEmit := by decide

/-- tokens at which `parser.sync` stops (`parse.go`) -/
theorem tie_syncTokens : Bclv.Gen.syncTokens = Bclv.Spec.syncTokens := by decide

/-- dispatch order of `stmt` (`parse.go`) -/
theorem tie_stmtDispatch : Bclv.Gen.stmtDispatch = Bclv.Spec.stmtDispatch := by decide

end Bclv.Tie
