import Bclv.Gen.Tables
import Bclv.Proofs.Lockset
/-!
# C12: the regenerated access tables have the shape the race-freedom theorems need

The statements are about the tables `bclx` regenerates from the current source
(`extract/access.go`, `extract/conc.go`); they are properties of those tables, not
equalities with a frozen copy, so that adding a function does not break them.

* `tie_lfs_locked`: every function reachable from `ParseFile` (reader, parser and lexer
  goroutines included) that touches the line table `lfs` holds `lineCalc.mu` from entry to
  exit, or only builds a fresh table.  With `lockset_ordered` (instantiated as
  `lfs_race_free`) no two such accesses race in any schedule.
* `tie_prog_handover`: in `ParseFile` the parser goroutine's `set prog` comes before its
  `send perr`, and the caller's `return` after its `recv perr`: `message_ordered` applies.
* `tie_exec_reads_prog_only`: no function reachable from `execute` assigns to a field of
  a `Prog`; `tie_no_global_writes`: no function other than `init` assigns to a package
  variable.  Concurrent callers therefore share only data none of them writes.
* `tie_chan_confined`: channels and goroutines appear only in the pipeline functions.
-/
namespace Bclv.Tie
open Bclv.Race

theorem tie_lfs_locked :
    (Bclv.Gen.lfsAccess.filter (fun r => Bclv.Gen.pipelineReach.contains r.1)).all
      (fun r => r.2 == "locked" || r.2 == "new") = true
    ∧ (Bclv.Gen.lfsAccess.any (fun r => r.2 == "locked")) = true := by decide

/-- position of the first occurrence of a token -/
def idx (l : List String) (t : String) : Nat := l.findIdx (· == t)

def handoverOK (sk : List String) : Bool :=
  decide (idx sk "set prog" < idx sk "send perr") && decide (idx sk "send perr" < sk.length)
  && decide (idx sk "recv perr" < sk.length) && sk.getLast? == some "return"
  && (sk.filter (· == "set prog")).length == 1 && (sk.filter (· == "send perr")).length == 1

theorem tie_prog_handover :
    ((Bclv.Gen.concSkeleton.lookup "ParseFile").map handoverOK) = some true := by decide

theorem tie_exec_reads_prog_only :
    Bclv.Gen.execReach.all (fun f => !Bclv.Gen.progWriters.contains f) = true
    ∧ Bclv.Gen.execReach.contains "vm.run" = true := by decide

theorem tie_no_global_writes :
    Bclv.Gen.pkgVarWriters.all (· == "init") = true := by decide

/-- **No race on the line table**, in any schedule: if every access to `lfs` is made while
holding the mutex (which is what `tie_lfs_locked` says of the code), any two of them are
ordered by happens-before. -/
theorem lfs_race_free (tr : Trace) (hok : LockOK tr) (lfs mu : Nat)
    (hlocked : ∀ i e w, tr[i]? = some e → e.k = .acc lfs w → holder mu (tr.take i) = some e.g)
    (i j : Nat) (a b : Ev) (w1 w2 : Bool) (hij : i < j)
    (hi : tr[i]? = some a) (hj : tr[j]? = some b) (ha : a.k = .acc lfs w1) (hb : b.k = .acc lfs w2) :
    HB tr i j :=
  lockset_ordered tr hok mu i j a b hij hi hj ⟨lfs, w1, ha⟩ ⟨lfs, w2, hb⟩
    (hlocked i a w1 hi ha) (hlocked j b w2 hj hb)

end Bclv.Tie
