import Bclv.Gen.Tables
import Bclv.Spec.ProtoSkel
/-!
# Tie: the regenerated concurrency skeleton is the one the protocol model was written from
-/
namespace Bclv.Tie

/-- goroutine/channel/select/close/defer structure of the pipeline functions (`api.go`, `lex.go`, `parse.go`) -/
theorem tie_concSkeleton : Bclv.Gen.concSkeleton = Bclv.Spec.concSkeleton := by decide

/-- `tokensBufSize` (`lex.go`) -/
theorem tie_tokensBufSize : Bclv.Gen.tokensBufSize = Bclv.Spec.tokensBufSize := by decide

/-- no other function of the package uses goroutines or channels -/
theorem tie_chanUsers : Bclv.Gen.chanUsers = Bclv.Spec.chanUsers := by decide

end Bclv.Tie
