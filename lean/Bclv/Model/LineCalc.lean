import Bclv.Basic
/-!
# Line calculator (`linecalc.go`)
-/
namespace Bclv

/-- `lineCalc.add` for one chunk placed at absolute offset `prefix`: the offsets of
its `\n` bytes.  (Go ranges over runes; an ASCII byte is always a rune of its own,
so this is the set of `0x0A` bytes.) -/
def newlinesFrom : Nat → Bytes → List Nat
  | _, [] => []
  | off, b :: bs => if b = 10 then off :: newlinesFrom (off + 1) bs else newlinesFrom (off + 1) bs

/-- `sort.SearchInts lfs pos`: least index whose entry is `≥ pos` (length if none). -/
def searchGE : List Nat → Nat → Nat
  | [], _ => 0
  | x :: xs, pos => if pos ≤ x then 0 else searchGE xs pos + 1

/-- `lineCalc.lineColAt`. -/
def lineColAt (lfs : List Nat) (pos : Nat) : Nat × Nat :=
  let j := searchGE lfs pos
  if j = 0 then (1, pos + 1)
  else (j + 1, pos - lfs.getD (j - 1) 0)

/-- `lineCalc.format`. -/
def fmtPos (lfs : List Nat) (pos : Nat) : Bytes :=
  let (l, c) := lineColAt lfs pos
  natDec l ++ str ":" ++ natDec c

end Bclv
