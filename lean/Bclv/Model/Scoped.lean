import Bclv.Model.Tree
import Bclv.Model.Value
/-!
# A checker for well-scoped trees (executable; used by the driver op `SCOPED`)

`Proofs/Scoped.lean` proves it sound for the predicate `ScP` of `Proofs/Progress.lean`, and
that a program which passes it runs to a result or a runtime error.
-/
namespace Bclv

def isStrAtB (K : List Value) (i : Nat) : Bool := match K[i]? with | some (.str _) => true | _ => false

def scE (K : List Value) (L : Nat) (B : Bool) : Expr → Bool
  | .lit _ _ => true
  | .const idx _ => decide (idx < K.length)
  | .getLocal slot _ => decide (slot < L)
  | .getField idx _ => isStrAtB K idx && B
  | .setLocal slot e _ => decide (slot < L) && scE K L B e
  | .setField idx e _ => isStrAtB K idx && B && scE K L B e
  | .un _ e _ => scE K L B e
  | .bin _ a b _ => scE K L B a && scE K L B b
  | .and a b _ => scE K L B a && scE K L B b && decide (1 + sizeE b < 65536)
  | .or a b _ => scE K L B a && scE K L B b && decide (1 + sizeE b < 65536)
  | .bad => false

mutual
/-- the number of variables in scope after the statement, or `none` if it is not well scoped -/
def scS (K : List Value) (B : Bool) (L : Nat) : Stmt → Option Nat
  | .var (some e) _ => if scE K L B e && decide (L + 1 ≤ 1024) then some (L + 1) else none
  | .var none _ => if L + 1 ≤ 1024 then some (L + 1) else none
  | .print e _ => if scE K L B e then some L else none
  | .eval e _ => if scE K L B e then some L else none
  | .block ti ni _ body npop _ =>
    if isStrAtB K ti && isStrAtB K ni then
      match scSs K true L body with
      | some L2 => if L2 = L + npop then some L else none
      | none => none
    else none
  | .bind ti _ _ => if isStrAtB K ti then some L else none
  | .bad => none
def scSs (K : List Value) (B : Bool) (L : Nat) : Stmts → Option Nat
  | .nil => some L
  | .cons s rest => match scS K B L s with
    | some L1 => scSs K B L1 rest
    | none => none
end

/-- The checker for whole programs. -/
def scP (K : List Value) (t : Program) : Bool := scSs K false 0 t.body == some t.npop


end Bclv
