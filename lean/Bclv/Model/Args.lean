import Bclv.Basic
/-!
# The argument parser of the command-line tool (`cmd/bcl/args.go`, `parseArgs`)

Arguments are lists of characters (so that the kernel can evaluate every test).
The Go loop replaces a cluster `-abc` in place by `-a -b -c` and goes on; since a
single-letter argument is never a cluster itself, that is the same as applying the
letters one after the other, which is how the model is written (structurally, no
fuel).
-/
namespace Bclv.Args

abbrev Arg := List Char

def a (s : String) : Arg := s.toList

structure Parsed where
  file : Arg := []
  disasm : Bool := false
  trace : Bool := false
  result : Bool := false
  stats : Bool := false
  bdump : Bool := false
  bload : Bool := false
  bdumpFile : Arg := []
  bloadFile : Arg := []
  deriving DecidableEq, Repr

inductive Outcome where
  | ok (p : Parsed)
  | help (p : Parsed)          -- `-h`: parsing stops there
  | usage (kind : String)      -- exit status 2
  deriving DecidableEq, Repr

def isLower (c : Char) : Bool := 'a' ≤ c && c ≤ 'z'

/-- What one argument is. -/
inductive Tok where
  | help | disasm | trace | result | stats
  | bdump (file : Option Arg) | bload (file : Option Arg)
  | badFlag | ddash | cluster (letters : List Char) | operand (s : Arg)
  deriving DecidableEq, Repr

/-- Classification of an argument, in the order of the `switch` in `parseArgs`. -/
def classify (arg : Arg) : Tok :=
  if arg = a "-h" then .help
  else if arg = a "-d" || arg = a "--disasm" then .disasm
  else if arg = a "-t" || arg = a "--trace" then .trace
  else if arg = a "-r" || arg = a "--result" then .result
  else if arg = a "-s" || arg = a "--stats" then .stats
  else if (a "--bdump").isPrefixOf arg then
    match arg.drop 7 with
    | [] => .bdump none
    | '=' :: rest => .bdump (some rest)
    | _ => .badFlag
  else if (a "--bload").isPrefixOf arg then
    match arg.drop 7 with
    | [] => .bload none
    | '=' :: rest => .bload (some rest)
    | _ => .badFlag
  else if arg = a "--" then .ddash
  else if arg.length > 2 && arg.head? == some '-' then
    let letters := arg.drop 1
    if letters.all isLower then .cluster letters else .badFlag
  else if arg.length > 1 && arg.head? == some '-' then .badFlag
  else .operand arg

structure St where
  p : Parsed := {}
  rest : List Arg := []     -- operands, in order
  deriving DecidableEq, Repr

/-- The result of consuming arguments. -/
inductive LoopRes where
  | go (st : St)               -- continue
  | help (st : St)             -- `-h` seen
  | err (kind : String)
  deriving DecidableEq, Repr

/-- The effect of a single-letter flag `-c`. -/
def applyLetter (c : Char) (st : St) : LoopRes :=
  if c == 'h' then .help st
  else if c == 'd' then .go { st with p := { st.p with disasm := true } }
  else if c == 't' then .go { st with p := { st.p with trace := true } }
  else if c == 'r' then .go { st with p := { st.p with result := true } }
  else if c == 's' then .go { st with p := { st.p with stats := true } }
  else .err "unknown flag"

def applyLetters : List Char → St → LoopRes
  | [], st => .go st
  | c :: cs, st =>
    match applyLetter c st with
    | .go st' => applyLetters cs st'
    | r => r

/-- The flag loop. -/
def loop : List Arg → St → LoopRes
  | [], st => .go st
  | arg :: args, st =>
    match classify arg with
    | .help => .help st
    | .disasm => loop args { st with p := { st.p with disasm := true } }
    | .trace => loop args { st with p := { st.p with trace := true } }
    | .result => loop args { st with p := { st.p with result := true } }
    | .stats => loop args { st with p := { st.p with stats := true } }
    | .bdump none => loop args { st with p := { st.p with bdump := true } }
    | .bdump (some file) => loop args { st with p := { st.p with bdump := true, bdumpFile := file } }
    | .bload none => loop args { st with p := { st.p with bload := true } }
    | .bload (some file) => loop args { st with p := { st.p with bload := true, bloadFile := file } }
    | .badFlag => .err "unknown flag"
    | .ddash => .go { st with rest := st.rest ++ args }
    | .cluster letters =>
      match applyLetters letters st with
      | .go st' => loop args st'
      | r => r
    | .operand s => loop args { st with rest := st.rest ++ [s] }

/-- After the loop: the file operand, the derived dump file, the load conflict, the default. -/
def finish (st : St) : Outcome :=
  match st.rest with
  | _ :: _ :: _ => .usage "too many file args"
  | rest =>
    let p := { st.p with file := rest.headD [] }
    let p? : Except String Parsed :=
      if p.bdump && p.bdumpFile.isEmpty then
        if (a ".bcl").isSuffixOf p.file then
          .ok { p with bdumpFile := p.file.take (p.file.length - 4) ++ a ".bcb" }
        else .error "--bdump requires knowing BFILE name"
      else .ok p
    match p? with
    | .error e => .usage e
    | .ok p =>
      let p? : Except String Parsed :=
        if p.bload then
          if !p.file.isEmpty && !p.bloadFile.isEmpty then .error "conflicting BFILE and FILE"
          else if p.file.isEmpty && !p.bloadFile.isEmpty then .ok { p with file := p.bloadFile }
          else .ok p
        else .ok p
      match p? with
      | .error e => .usage e
      | .ok p => .ok (if p.file.isEmpty then { p with file := a "-" } else p)

/-- `parseArgs`. -/
def parseArgs (args : List Arg) : Outcome :=
  match loop args {} with
  | .err e => .usage e
  | .help st => .help st.p
  | .go st => finish st

/-- Exit status decision of `main`: 2 after a usage error, 0 for help, else 1 iff the run failed. -/
def exitCode (o : Outcome) (runFailed : Bool) : Nat :=
  match o with
  | .usage _ => 2
  | .help _ => 0
  | .ok _ => if runFailed then 1 else 0

end Bclv.Args
