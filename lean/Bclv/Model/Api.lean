import Bclv.Model.Lexer
import Bclv.Model.Parser
import Bclv.Model.Vm
/-!
# The public entry points as pure compositions (`api.go`)
-/
namespace Bclv

structure Compiled where
  ok : Bool
  prog : Prog
  log : Bytes
  pstats : List Nat     -- tokens localMax depthMax constants opsCreated codeBytes
  stuck : Bool

/-- Number of opcodes (not operand bytes) in emitted code: `parseStats.opsCreated`. -/
def countOpsE : Expr → Nat
  | .lit .. | .const .. | .getLocal .. | .getField .. => 1
  | .setLocal _ e _ | .setField _ e _ | .un _ e _ => countOpsE e + 1
  | .bin op a b _ => countOpsE a + countOpsE b + op.ops.length
  | .and a b _ => countOpsE a + countOpsE b + 2
  | .or a b _ => countOpsE a + countOpsE b + 3
  | .bad => 0

mutual
def countOpsS : Stmt → Nat
  | .var (some e) _ => countOpsE e
  | .var none _ => 1
  | .print e _ | .eval e _ => countOpsE e + 1
  | .block _ _ _ body npop _ => 1 + countOpsSs body + (if npop = 0 then 0 else 1) + 1
  | .bind .. => 1
  | .bad => 0
def countOpsSs : Stmts → Nat
  | .nil => 0
  | .cons s r => countOpsS s + countOpsSs r
end

/-- `Parse` on input delivered as the given chunks (`[input]` for `Parse` itself). -/
def parseChunks (name : Bytes) (chunks : List Bytes) : Compiled :=
  let (toks, lfs) := lexChunks chunks
  -- the parser formats positions with the newlines of everything received;
  -- all of them below the position asked for are present at that time
  let r := parseTokens toks lfs
  let pc := if r.ok then compilePFast r.prog else compileSsAcc r.prog.body []
  let prog : Prog := { name, code := pc.map (·.1), consts := r.consts,
                       positions := pc.map (·.2), lfs := if r.ok then lfs else [] }
  let ops := countOpsSs r.prog.body + (if r.ok then (if r.prog.npop = 0 then 0 else 1) + 1 else 0)
  { ok := r.ok, prog, log := r.log,
    pstats := [r.tokens, r.localMax, r.depthMax, r.consts.length, ops, prog.code.length],
    stuck := r.stuck }

def parseWhole (name : Bytes) (input : Bytes) : Compiled :=
  let toks := lexWhole input
  let lfs := newlinesFrom 0 input
  let r := parseTokens toks lfs
  let pc := if r.ok then compilePFast r.prog else compileSsAcc r.prog.body []
  let prog : Prog := { name, code := pc.map (·.1), consts := r.consts,
                       positions := pc.map (·.2), lfs := if r.ok then lfs else [] }
  let ops := countOpsSs r.prog.body + (if r.ok then (if r.prog.npop = 0 then 0 else 1) + 1 else 0)
  { ok := r.ok, prog, log := r.log,
    pstats := [r.tokens, r.localMax, r.depthMax, r.consts.length, ops, prog.code.length],
    stuck := r.stuck }

end Bclv
