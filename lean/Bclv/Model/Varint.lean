import Bclv.Basic
/-!
# sqlite4 variable-length integers (port of `github.com/mohae/uvarint` as used by
`encoding.go`), over unbounded `Nat` restricted to `x < 2^64`.
-/
namespace Bclv

/-- `uvarint.Encode` (`PutUvarint`). -/
def uvEnc (x : Nat) : Bytes :=
  if x < 241 then [UInt8.ofNat x]
  else if x < 2288 then [UInt8.ofNat ((x - 240) / 256 + 241), UInt8.ofNat ((x - 240) % 256)]
  else if x < 67824 then [249, UInt8.ofNat ((x - 2288) / 256), UInt8.ofNat ((x - 2288) % 256)]
  else if x < 2 ^ 24 then 250 :: beBytes 3 x
  else if x < 2 ^ 32 then 251 :: beBytes 4 x
  else if x < 2 ^ 40 then 252 :: beBytes 5 x
  else if x < 2 ^ 48 then 253 :: beBytes 6 x
  else if x < 2 ^ 56 then 254 :: beBytes 7 x
  else 255 :: beBytes 8 x

/-- Encoded length announced by the first byte (`uvarintLen` in `encoding.go`). -/
def uvLen (b0 : UInt8) : Nat :=
  if b0 ≤ 240 then 1 else if b0 ≤ 248 then 2 else b0.toNat - 246

/-- `uvarint.Decode` guarded by the length check of `uvarintFromBuf`: the value and
the remaining bytes, or `none` when fewer bytes are present than the first byte
announces (the unguarded Go decoder indexes out of range there). -/
def uvDec : Bytes → Option (Nat × Bytes)
  | [] => none
  | b0 :: rest =>
    let n := uvLen b0
    if rest.length + 1 < n then none
    else if b0 ≤ 240 then some (b0.toNat, rest)
    else if b0 ≤ 248 then
      match rest with
      | a1 :: r => some (240 + 256 * (b0.toNat - 241) + a1.toNat, r)
      | _ => none
    else if b0 = 249 then
      match rest with
      | a1 :: a2 :: r => some (2288 + 256 * a1.toNat + a2.toNat, r)
      | _ => none
    else some (beVal (rest.take (n - 1)), rest.drop (n - 1))

end Bclv
