import Bclv.Model.Token
import Bclv.Model.Tree
import Bclv.Model.Literals
import Bclv.Model.LineCalc
/-!
# The parser (`parse.go`)

A port of the single-pass Pratt parser with its scope table, constant pool,
diagnostics and panic-mode recovery.  Instead of raw bytes it returns a resolved
tree (`Bclv.Program`); `compileP` of that tree is the emitted code.
Every function takes a fuel argument; running out of fuel sets `stuck`.
-/
namespace Bclv

structure Local where
  name : Bytes
  depth : Int        -- -1 while the initializer is being parsed
  deriving Repr

structure PState where
  rest : List Token
  prev : Token := { typ := .FAIL }
  cur : Token := { typ := .FAIL }
  hadError : Bool := false
  hadLexFail : Bool := false
  panicMode : Bool := false
  identRefs : List (Bytes × Nat) := []
  consts : Array Value := #[]
  locals : List Local := []        -- newest first
  depth : Nat := 0
  log : List Bytes := []           -- diagnostics, newest first
  lfs : List Nat := []
  tokens : Nat := 0
  localMax : Nat := 0
  depthMax : Nat := 0
  stuck : Bool := false

abbrev PM := StateM PState

def localsMaxSize : Nat := 1024
def jumpMax : Nat := 65535

/-! ## diagnostics -/

def errorAt (t : Token) (msg : Bytes) : PM Unit := modify fun p =>
  let at_ : Bytes := match t.typ with
    | .EOF => str " at end"
    | .ERR | .FAIL => []
    | _ => str " at '" ++ t.val ++ str "'"
  { p with panicMode := true, hadError := true,
           log := (str "line " ++ fmtPos p.lfs t.pos ++ str ": error" ++ at_ ++ str ": " ++ msg ++ str "\n") :: p.log }

def errorAtCurrent (msg : Bytes) : PM Unit := do errorAt (← get).cur msg
def error (msg : Bytes) : PM Unit := do errorAt (← get).prev msg

/-! ## token handling -/

def advanceLoop : List Token → PM Unit
  | [] => modify fun p => { p with rest := [] }
  | t :: ts => do
    modify fun p => { p with cur := t, rest := ts, tokens := p.tokens + 1,
                             hadLexFail := p.hadLexFail || t.typ == .FAIL }
    if t.typ == .ERR then
      errorAtCurrent t.err
      advanceLoop ts

def advance : PM Unit := do
  modify fun p => { p with prev := p.cur }
  advanceLoop (← get).rest

def check (t : TokType) : PM Bool := do return (← get).cur.typ == t
def checkEnd : PM Bool := do return (← get).cur.typ.isEnd

def consume (t : TokType) (msg : Bytes) : PM Unit := do
  if ← check t then advance else errorAtCurrent msg

def «match» (t : TokType) : PM Bool := do
  if ← check t then advance; return true else return false

def matchEnd : PM Bool := do
  if ← checkEnd then advance; return true else return false

def syncLoop : Nat → PM Unit
  | 0 => modify fun p => { p with stuck := true }
  | f+1 => do
    if ← checkEnd then return
    let t := (← get).cur.typ
    if t == .VAR || t == .DEF || t == .PRINT || t == .EVAL then return
    advance
    syncLoop f

def sync (fuel : Nat) : PM Unit := do
  modify fun p => { p with panicMode := false }
  syncLoop fuel

/-! ## constants and scopes -/

def addConst (v : Value) : PM Nat := do
  let p ← get
  set { p with consts := p.consts.push v }
  return p.consts.size

def makeConst (v : Value) : PM Nat := do
  if v = .str [] then
    match (← get).identRefs.lookup [] with
    | some idx => return idx
    | none =>
      let idx ← addConst v
      modify fun p => { p with identRefs := ([], idx) :: p.identRefs }
      return idx
  else addConst v

def identConst (name : Bytes) : PM Nat := do
  match (← get).identRefs.lookup name with
  | some idx => return idx
  | none =>
    let idx ← makeConst (.str name)
    modify fun p => { p with identRefs := (name, idx) :: p.identRefs }
    return idx

def beginScope : PM Unit := modify fun p =>
  { p with depth := p.depth + 1, depthMax := max p.depthMax (p.depth + 1) }

/-- Pops the locals of the scope being left; returns how many. -/
def endScope : PM Nat := do
  let p ← get
  let d := p.depth - 1
  let gone := p.locals.takeWhile (fun l => l.depth > (d : Int))
  set { p with depth := d, locals := p.locals.drop gone.length }
  return gone.length

def addLocal (name : Bytes) : PM Unit := do
  if (← get).locals.length == localsMaxSize then
    error (str "too many local variables")
  else
    modify fun p => { p with locals := { name, depth := -1 } :: p.locals,
                             localMax := max p.localMax (p.locals.length + 1) }

def declVar : PM Unit := do
  let p ← get
  let name := p.prev.val
  let inScope := p.locals.takeWhile (fun l => !(l.depth != -1 && l.depth < (p.depth : Int)))
  for l in inScope do
    if l.name == name then error (str "variable with this name already present in this scope")
  addLocal name

def markInitialized : PM Unit := modify fun p =>
  match p.locals with
  | l :: ls => { p with locals := { l with depth := p.depth } :: ls }
  | [] => p

/-- Slot of the innermost initialised local of that name. -/
def resolveLocal (locals : List Local) (name : Bytes) : Option Nat :=
  match locals with
  | [] => none
  | l :: ls => if l.name == name && l.depth != -1 then some ls.length else resolveLocal ls name

/-! ## rule table -/

inductive Prefix where | parens | unary | boolNot | identRef | stringLit | intLit | floatLit | boolLit | nilLit
  deriving DecidableEq, Repr
inductive Infix where | binary | boolOr | boolAnd
  deriving DecidableEq, Repr

def precAssign : Nat := 1
def precOr : Nat := 2
def precAnd : Nat := 3
def precNot : Nat := 4
def precUnary : Nat := 9

structure Rule where
  pre : Option Prefix
  inf : Option Infix
  prec : Nat
  deriving DecidableEq, Repr

def getRule : TokType → Rule
  | .LPAREN => ⟨some .parens, none, 0⟩
  | .MINUS => ⟨some .unary, some .binary, 7⟩
  | .PLUS => ⟨some .unary, some .binary, 7⟩
  | .SLASH => ⟨none, some .binary, 8⟩
  | .STAR => ⟨none, some .binary, 8⟩
  | .OR => ⟨none, some .boolOr, 2⟩
  | .AND => ⟨none, some .boolAnd, 3⟩
  | .NOT => ⟨some .boolNot, none, 0⟩
  | .BE => ⟨none, some .binary, 5⟩
  | .EE => ⟨none, some .binary, 5⟩
  | .GT => ⟨none, some .binary, 6⟩
  | .GE => ⟨none, some .binary, 6⟩
  | .LT => ⟨none, some .binary, 6⟩
  | .LE => ⟨none, some .binary, 6⟩
  | .IDENT => ⟨some .identRef, none, 0⟩
  | .STR => ⟨some .stringLit, none, 0⟩
  | .INT => ⟨some .intLit, none, 0⟩
  | .FLOAT => ⟨some .floatLit, none, 0⟩
  | .FALSE => ⟨some .boolLit, none, 0⟩
  | .TRUE => ⟨some .boolLit, none, 0⟩
  | .NIL => ⟨some .nilLit, none, 0⟩
  | _ => ⟨none, none, 0⟩

def binOpOf : TokType → Option BinOp
  | .EE => some .eq | .BE => some .ne | .LT => some .lt | .LE => some .le | .GT => some .gt
  | .GE => some .ge | .PLUS => some .add | .MINUS => some .sub | .STAR => some .mul
  | .SLASH => some .div | _ => none

def setStuck : PM Unit := modify fun p => { p with stuck := true }

/-! ## bind statement (no recursion) -/

/-- The optional `:selector` of a bind statement (1 = one, 2 = first, 3 = last, 15 = all). -/
def bindSel : PM Nat := do
  let mut sel : Nat := 1
  let errmsg := str "expected 1,first,last,all as a block selector"
  if ← «match» .COLON then
    if ← «match» .INT then
      if (← get).prev.val != str "1" then error errmsg
      sel := 1
    else if ← «match» .IDENT then
      let v := (← get).prev.val
      if v == str "first" then sel := 2
      else if v == str "last" then sel := 3
      else if v == str "all" then sel := 15
      else error errmsg
    else errorAtCurrent errmsg
  return sel

/-- The target word of a bind statement, just consumed (16 = struct, 32 = slice). -/
def bindTarget (errmsg : Bytes) : PM Nat := do
  let v := (← get).prev.val
  let mut target : Nat := 0
  if v == str "struct" then target := 16
  else if v == str "slice" then target := 32
  else error errmsg
  return target

def bindStmt : PM Stmt := do
  consume .IDENT (str "expected block type")
  if (← get).panicMode then return .bad
  let blockType := (← get).prev.val
  let sel ← bindSel
  consume .ARROW (str "expected '->'")
  if (← get).panicMode then return .bad
  let errmsg := str "expected bind target ('struct' or 'slice')"
  consume .IDENT errmsg
  if (← get).panicMode then return .bad
  let target ← bindTarget errmsg
  if sel == 15 && target != 32 then error (str "bind of multiple blocks requires slice target")
  if (← get).panicMode then return .bad
  let idx ← identConst blockType
  return .bind idx (UInt8.ofNat (target % 256 / 16 * 16 + sel % 16)) (← get).prev.pos

/-! ## expressions and statements -/

mutual

def parsePrecedence (prec : Nat) : Nat → PM Expr
  | 0 => do setStuck; return .bad
  | f+1 => do
    advance
    match (getRule (← get).prev.typ).pre with
    | none => error (str "expected expression"); return .bad
    | some rule =>
      let canAssign := prec ≤ precAssign
      let e ← prefixRule rule canAssign f
      let e ← infixLoop prec e f
      if canAssign then
        if ← «match» .EQ then error (str "invalid assignment target")
      return e

def infixLoop (prec : Nat) (left : Expr) : Nat → PM Expr
  | 0 => do setStuck; return left
  | f+1 => do
    if prec ≤ (getRule (← get).cur.typ).prec then
      advance
      let opTyp := (← get).prev.typ
      let e ← match (getRule opTyp).inf with
        | some .binary => do
          let rhs ← parsePrecedence ((getRule opTyp).prec + 1) f
          match binOpOf opTyp with
          | some op => pure (Expr.bin op left rhs (← get).prev.pos)
          | none => pure left
        | some .boolAnd => do
          let pos := (← get).prev.pos
          let rhs ← parsePrecedence precAnd f
          if 1 + sizeE rhs > jumpMax then error (str "jump too long")
          pure (Expr.and left rhs pos)
        | some .boolOr => do
          let pos := (← get).prev.pos
          let rhs ← parsePrecedence precOr f
          if 1 + sizeE rhs > jumpMax then error (str "jump too long")
          pure (Expr.or left rhs pos)
        | none => pure left
      infixLoop prec e f
    else return left

def prefixRule (rule : Prefix) (canAssign : Bool) : Nat → PM Expr
  | 0 => do setStuck; return .bad
  | f+1 => do
    let tok := (← get).prev
    match rule with
    | .parens =>
      let e ← parsePrecedence precAssign f
      consume .RPAREN (str "expected ')' after expression")
      return e
    | .unary =>
      let e ← parsePrecedence precUnary f
      return .un (if tok.typ == .MINUS then .neg else .plus) e (← get).prev.pos
    | .boolNot =>
      let e ← parsePrecedence precNot f
      return .un .not e (← get).prev.pos
    | .intLit =>
      match parseIntLit tok.val with
      | none => error (str "invalid int literal"); return .bad
      | some 0 => return .lit .zero tok.pos
      | some 1 => return .lit .one tok.pos
      | some n => return .const (← makeConst (.int (Int64.ofNat n))) tok.pos
    | .floatLit =>
      match parseFloatLit tok.val with
      | none => error (str "invalid float literal"); return .bad
      | some b => return .const (← makeConst (.float b)) tok.pos
    | .stringLit =>
      match unquote tok.val with
      | none => error (str "invalid string literal"); return .bad
      | some s => return .const (← makeConst (.str s)) tok.pos
    | .boolLit => return .lit (if tok.typ == .TRUE then .tru else .fls) tok.pos
    | .nilLit => return .lit .nil tok.pos
    | .identRef =>
      let p ← get
      match resolveLocal p.locals tok.val with
      | some slot =>
        if canAssign then
          if ← «match» .EQ then
            let e ← parsePrecedence precAssign f
            return .setLocal slot e (← get).prev.pos
        return .getLocal slot tok.pos
      | none =>
        if p.depth == 0 then
          error (str "undefined variable"); return .bad
        let idx ← identConst tok.val
        if canAssign then
          if ← «match» .EQ then
            let e ← parsePrecedence precAssign f
            return .setField idx e (← get).prev.pos
        return .getField idx tok.pos

end

def expr (fuel : Nat) : PM Expr := parsePrecedence precAssign fuel

def varDecl (fuel : Nat) : PM Stmt := do
  consume .IDENT (str "expected variable name")
  if (← get).panicMode then return .bad
  declVar
  let s ← if ← «match» .EQ then do
      let e ← expr fuel
      pure (Stmt.var (some e) 0)
    else pure (Stmt.var none (← get).prev.pos)
  markInitialized
  return s

mutual

def decl : Nat → PM Stmt
  | 0 => do setStuck; return .bad
  | f+1 => do
    let s ← if ← «match» .VAR then varDecl f else stmt f
    let p ← get
    if p.panicMode && p.depth == 0 then sync f
    return s

def stmt : Nat → PM Stmt
  | 0 => do setStuck; return .bad
  | f+1 => do
    if ← «match» .PRINT then
      let e ← expr f; return .print e (← get).prev.pos
    else if ← «match» .EVAL then
      let e ← expr f; return .eval e (← get).prev.pos
    else if ← «match» .DEF then blockStmt f
    else if ← «match» .BIND then bindStmt
    else if (← get).depth > 0 then
      let e ← expr f; return .eval e (← get).prev.pos
    else
      errorAtCurrent (str "expected statement"); return .bad

def blockStmt : Nat → PM Stmt
  | 0 => do setStuck; return .bad
  | f+1 => do
    consume .IDENT (str "expected block type")
    if (← get).panicMode then return .bad
    let blockType := (← get).prev.val
    let mut blockName : Bytes := []
    if ← «match» .STR then
      match unquote (← get).prev.val with
      | some s => blockName := s
      | none => error (str "invalid string literal")
    consume .LCURLY (str "expected '{'")
    let ti ← identConst blockType
    let ni ← makeConst (.str blockName)
    let openPos := (← get).prev.pos
    beginScope
    let body ← blockLoop f
    if !(← get).hadLexFail then consume .RCURLY (str "expected '}'")
    let closePos := (← get).prev.pos
    let npop ← endScope
    return .block ti ni openPos body npop closePos

def blockLoop : Nat → PM Stmts
  | 0 => do setStuck; return .nil
  | f+1 => do
    if (← check .RCURLY) || (← checkEnd) then return .nil
    let s ← decl f
    if (← get).panicMode then advance
    let _ ← «match» .SEMICOLON
    let rest ← blockLoop f
    return .cons s rest

end

def topLoop : Nat → PM Stmts
  | 0 => do setStuck; return .nil
  | f+1 => do
    if ← matchEnd then return .nil
    let s ← decl f
    let _ ← «match» .SEMICOLON
    let rest ← topLoop f
    return .cons s rest

structure ParseResult where
  prog : Program
  consts : List Value
  ok : Bool                 -- no error reported
  log : Bytes               -- all diagnostics
  tokens : Nat
  localMax : Nat
  depthMax : Nat
  stuck : Bool

/-- `parse`: tokens (ending in a finalizer) and the line table of the input. -/
def parseTokens (toks : List Token) (lfs : List Nat) : ParseResult :=
  let fuel := 4 * toks.length + 16
  let run : PM Program := do
    advance
    let body ← topLoop fuel
    let p ← get
    return { body, npop := p.locals.length, endPos := p.prev.pos }
  let (prog, p) := run.run { rest := toks, lfs := lfs }
  { prog, consts := p.consts.toList, ok := !p.hadError,
    log := (p.log.reverse).flatten, tokens := p.tokens, localMax := p.localMax,
    depthMax := p.depthMax, stuck := p.stuck }

end Bclv
