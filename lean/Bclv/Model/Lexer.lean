import Bclv.Model.Utf8
import Bclv.Model.Token
import Bclv.Model.LineCalc
/-!
# The lexer (`lex.go`)

The state functions are written once over a record of input primitives
(`next backup unbackup ignore current endPos`).  Two instantiations:

* `Whole` — the whole input is present (what `Parse` gives the lexer);
* `Win`   — a faithful port of the Go sliding window `input/start/pos/posShift/width`
  refilled from a list of pending chunks (what `ParseFile` gives the lexer), which
  also produces the line table exactly as `lineCalc.add` is called.
-/
namespace Bclv

structure LexPrims (σ : Type) where
  next : σ → Rune × σ
  backup : σ → σ
  unbackup : σ → σ
  ignore : σ → σ
  current : σ → Bytes
  endPos : σ → Nat

/-! ## rune predicates and tables -/

def isEol (r : Rune) : Bool := r == 10 || r == 13
def isSpaceR (r : Rune) : Bool :=
  r == 32 || r == 9 || r == 11 || r == 12 || r == 10 || r == 13 || r == 0x85 || r == 0xA0
def isDigitR (r : Rune) : Bool := 48 ≤ r && r ≤ 57
def isAlphaR (r : Rune) : Bool := (97 ≤ r && r ≤ 122) || (65 ≤ r && r ≤ 90)
def isAlphaNumR (r : Rune) : Bool := isAlphaR r || isDigitR r
def isHexDigitR (r : Rune) : Bool := isDigitR r || (97 ≤ r && r ≤ 102) || (65 ≤ r && r ≤ 70)

/-- `keywords`, each word as its ASCII bytes (kept as literal bytes so that the
kernel can evaluate lookups). -/
def keywordTable : List (Bytes × TokType) :=
  [([118, 97, 114], .VAR) /- var -/,
   ([100, 101, 102], .DEF) /- def -/,
   ([101, 118, 97, 108], .EVAL) /- eval -/,
   ([112, 114, 105, 110, 116], .PRINT) /- print -/,
   ([98, 105, 110, 100], .BIND) /- bind -/,
   ([116, 114, 117, 101], .TRUE) /- true -/,
   ([102, 97, 108, 115, 101], .FALSE) /- false -/,
   ([110, 105, 108], .NIL) /- nil -/,
   ([110, 111, 116], .NOT) /- not -/,
   ([97, 110, 100], .AND) /- and -/,
   ([111, 114], .OR) /- or -/]

def keywordOf (w : Bytes) : Option TokType :=
  (keywordTable.find? (fun p => p.1 == w)).map (·.2)

/-- `twoRuneTokens`: first rune ↦ (second rune, token). -/
def twoRuneTable : List (Nat × Nat × TokType) :=
  [(61, 61, .EE), (33, 61, .BE), (60, 61, .LE), (62, 61, .GE), (45, 62, .ARROW)]

/-- `oneRuneTokens`. -/
def oneRuneTable : List (Nat × TokType) :=
  [(61, .EQ), (123, .LCURLY), (125, .RCURLY), (40, .LPAREN), (41, .RPAREN), (60, .LT), (62, .GT),
   (43, .PLUS), (45, .MINUS), (42, .STAR), (47, .SLASH), (58, .COLON), (59, .SEMICOLON)]

def twoRuneOf (r : Rune) : Option (Nat × TokType) :=
  (twoRuneTable.find? (fun p => (p.1 : Int) == r)).map (·.2)
def oneRuneOf (r : Rune) : Option TokType :=
  (oneRuneTable.find? (fun p => (p.1 : Int) == r)).map (·.2)

/-- Upper-case hexadecimal, at least four digits (Go's `%U`). -/
def hex4 (n : Nat) : Bytes :=
  let ds := (Nat.toDigits 16 n).map Char.toUpper
  str (String.ofList (List.replicate (4 - ds.length) '0' ++ ds))

/-! ## generic engine -/

structure LexSt (σ : Type) where
  s : σ
  toks : List Token    -- emitted so far, newest first

inductive LState where
  | start | space | comment | ident | number | hex | float | quote | done
  deriving DecidableEq, Repr

section generic
variable {σ : Type} (P : LexPrims σ)

def emit (t : TokType) (l : LexSt σ) : LexSt σ :=
  { s := P.ignore l.s, toks := { typ := t, val := P.current l.s, pos := P.endPos l.s } :: l.toks }

/-- `fail`: an error token at the cursor, then `tFAIL` with empty text. -/
def failWith (msg : Bytes) (l : LexSt σ) : LState × LexSt σ :=
  let e : Token := { typ := .ERR, err := msg, pos := P.endPos l.s }
  let s := P.ignore l.s
  (.done, { s := s, toks := { typ := .FAIL, val := P.current s, pos := P.endPos s } :: e :: l.toks })

def invalidSyntax (l : LexSt σ) : LState × LexSt σ :=
  failWith P (str "invalid syntax `" ++ P.current l.s ++ str "`") l

def peekR (s : σ) : Rune × σ :=
  let (r, s) := P.next s
  (r, P.backup s)

def accept (valid : Rune → Bool) (s : σ) : Bool × σ :=
  let (r, s) := P.next s
  if valid r then (true, s) else (false, P.backup s)

/-- `acceptRun`/`acceptRunFunc`: consume while the predicate holds; reports whether
anything was accepted.  `fuel` bounds the iterations (every iteration but the last
consumes at least one byte). -/
def acceptRun (pred : Rune → Bool) : Nat → Bool → σ → Bool × σ
  | 0, acc, s => (acc, s)
  | f+1, acc, s =>
    let (r, s') := P.next s
    if pred r then acceptRun pred f true s' else (acc, P.backup s')

def commentLoop : Nat → σ → σ
  | 0, s => s
  | f+1, s =>
    let (r, s') := P.next s
    if isEol r || r == eofR then P.ignore (P.backup s') else commentLoop f s'

/-- The scanning loop of `lexQuote`: `some s` after the closing quote, `none` when
the string is unterminated (the state to fail from is returned as well). -/
def quoteLoop : Nat → σ → Bool × σ
  | 0, s => (false, s)
  | f+1, s =>
    let (r, s1) := P.next s
    if r == 92 then
      let (r2, s2) := P.next s1
      if r2 != eofR && r2 != 10 then quoteLoop f s2 else (false, s2)
    else if r == eofR || r == 10 then (false, s1)
    else if r == 34 then (true, s1)
    else quoteLoop f s1

def identLoop : Nat → σ → σ
  | 0, s => s
  | f+1, s =>
    let (r, s') := P.next s
    if isAlphaNumR r || r == 95 then identLoop f s' else P.backup s'

/-- One state function. -/
def lexStep (fuel : Nat) : LState → LexSt σ → LState × LexSt σ
  | .done, l => (.done, l)
  | .start, l =>
    let (r, s) := P.next l.s
    let l := { l with s := s }
    if r == eofR then (.done, emit P .EOF l)
    else match twoRuneOf r with
      | some (r2want, t2) =>
        let (r2, s2) := P.next l.s
        if r2 == (r2want : Int) then (.start, emit P t2 { l with s := s2 })
        else
          let l := { l with s := P.backup s2 }
          match oneRuneOf r with
          | some t1 => (.start, emit P t1 l)
          | none => failWith P (str "expected char '!' to start token \"!=\"") l
      | none =>
        match oneRuneOf r with
        | some t1 => (.start, emit P t1 l)
        | none =>
          if isSpaceR r then (.space, l)
          else if r == 35 then (.comment, l)
          else if r == 34 then (.quote, l)
          else if isAlphaR r || r == 95 then (.ident, l)
          else if isDigitR r then (.number, l)
          else failWith P (str "unknown char U+" ++ hex4 r.toNat) l
  | .space, l =>
    let (_, s) := acceptRun P isSpaceR fuel false l.s
    (.start, { l with s := P.ignore s })
  | .comment, l => (.start, { l with s := commentLoop P fuel l.s })
  | .ident, l =>
    let s := identLoop P fuel l.s
    let (r, s) := peekR P s
    if r == 34 then invalidSyntax P { l with s := P.unbackup s }
    else
      let l := { l with s := s }
      match keywordOf (P.current s) with
      | some k => (.start, emit P k l)
      | none => (.start, emit P .IDENT l)
  | .number, l =>
    let s := P.backup l.s
    let (z, s) := accept P (· == 48) s
    let (x, s) := if z then accept P (fun r => r == 120 || r == 88) s else (false, s)
    if z && x then (.hex, { l with s := s })
    else
      let (_, s) := acceptRun P isDigitR fuel false s
      let (r, s) := peekR P s
      if r == 46 || r == 101 || r == 69 then (.float, { l with s := s })
      else if r == 34 || isAlphaR r then invalidSyntax P { l with s := P.unbackup s }
      else (.start, emit P .INT { l with s := s })
  | .hex, l =>
    let (_, s) := acceptRun P isHexDigitR fuel false l.s
    let (r, s) := peekR P s
    if r == 46 || r == 34 || isAlphaR r then invalidSyntax P { l with s := P.unbackup s }
    else (.start, emit P .INT { l with s := s })
  | .float, l =>
    let (dot, s) := accept P (· == 46) l.s
    let (ok1, s) := if dot then acceptRun P isDigitR fuel false s else (true, s)
    if !ok1 then failWith P (str "need more digits after a dot") { l with s := s }
    else
      let (e, s) := accept P (fun r => r == 101 || r == 69) s
      let (ok2, s) :=
        if e then
          let (_, s) := accept P (fun r => r == 43 || r == 45) s
          acceptRun P isDigitR fuel false s
        else (true, s)
      if !ok2 then failWith P (str "need more digits for an exponent") { l with s := s }
      else
        let (r, s) := peekR P s
        if r == 34 || isAlphaR r then invalidSyntax P { l with s := P.unbackup s }
        else (.start, emit P .FLOAT { l with s := s })
  | .quote, l =>
    let (closed, s) := quoteLoop P fuel l.s
    if !closed then failWith P (str "unterminated quoted string") { l with s := s }
    else
      let (r, s) := peekR P s
      if isAlphaNumR r then invalidSyntax P { l with s := P.unbackup s }
      else (.start, emit P .STR { l with s := s })

/-- `lexer.run`: iterate state functions until one returns `nil`.  The step budget is
never used up on real inputs (every state function consumes input or ends the run); if it
were, the token list would say so. -/
def lexRun (fuel : Nat) : Nat → LState → LexSt σ → LexSt σ
  | 0, _, l => { l with toks := { typ := .ERR, err := str "lexer model out of fuel" } :: l.toks }
  | n+1, st, l =>
    match lexStep P fuel st l with
    | (.done, l') => l'
    | (st', l') => lexRun fuel n st' l'

end generic

/-! ## whole-input instantiation -/

/-- Cursor over the whole input: `cur` is the pending token text (reversed), `rest`
the unread bytes, `pos` the absolute offset of the cursor. -/
structure Whole where
  pos : Nat
  cur : Bytes
  rest : Bytes
  width : Nat
  deriving Repr

def moveFwd : Nat → Bytes → Bytes → Bytes × Bytes
  | 0, cur, rest => (cur, rest)
  | _+1, cur, [] => (cur, [])
  | n+1, cur, b :: rest => moveFwd n (b :: cur) rest

def Whole.prims : LexPrims Whole where
  next s :=
    let (r, w) := decodeRune s.rest
    if w = 0 then (eofR, { s with width := 0 })
    else
      let (c, rs) := moveFwd w s.cur s.rest
      (r, { pos := s.pos + w, cur := c, rest := rs, width := w })
  backup s :=
    let (rs, c) := moveFwd s.width s.rest s.cur
    { s with pos := s.pos - s.width, cur := c, rest := rs }
  unbackup s :=
    let (c, rs) := moveFwd s.width s.cur s.rest
    { s with pos := s.pos + s.width, cur := c, rest := rs }
  ignore s := { s with cur := [] }
  current s := s.cur.reverse
  endPos s := s.pos

/-- Tokens of a whole input, in order. -/
def lexWhole (input : Bytes) : List Token :=
  let fuel := input.length + 2
  (lexRun Whole.prims fuel (3 * input.length + 4) .start
    { s := { pos := 0, cur := [], rest := input, width := 0 }, toks := [] }).toks.reverse

/-! ## sliding-window instantiation (port of the Go fields) -/

structure Win where
  input : Bytes
  start : Nat
  pos : Nat
  posShift : Nat
  width : Nat
  pending : List Bytes      -- chunks not yet received; `[]` = channel closed
  lfs : List Nat            -- line table built so far by `lpUpd`
  deriving Repr

/-- The refill loop at the head of `lexer.next`. -/
def Win.refill : Nat → Win → Win
  | 0, s => s
  | f+1, s =>
    if s.pos ≥ s.input.length || !fullRune (s.input.drop s.pos) then
      match s.pending with
      | [] =>
        if s.pos < s.input.length then s
        else if s.pos = s.start then s
        else
          { s with input := s.input.drop s.start, posShift := s.posShift + s.start,
                   pos := s.pos - s.start, start := 0 }
      | c :: cs =>
        let rest := s.input.length - s.start
        let shift := s.posShift + s.start
        Win.refill f
          { s with input := s.input.drop s.start ++ c, posShift := shift,
                   lfs := s.lfs ++ newlinesFrom (shift + rest) c,
                   pos := s.pos - s.start, start := 0, pending := cs }
    else s

def Win.prims : LexPrims Win where
  next s :=
    let s := Win.refill (s.pending.length + 1) s
    let (r, w) := decodeRune (s.input.drop s.pos)
    if w = 0 then (eofR, { s with width := 0 })
    else (r, { s with pos := s.pos + w, width := w })
  backup s := { s with pos := s.pos - s.width }
  unbackup s := { s with pos := s.pos + s.width }
  ignore s := { s with start := s.pos }
  current s := (s.input.drop s.start).take (s.pos - s.start)
  endPos s := s.pos + s.posShift

/-- Tokens and line table when the input arrives as the given chunks. -/
def lexChunks (chunks : List Bytes) : List Token × List Nat :=
  let total := (chunks.map List.length).sum
  let fuel := total + 2
  let r := lexRun Win.prims fuel (3 * total + 4) .start
    { s := { input := [], start := 0, pos := 0, posShift := 0, width := 0, pending := chunks, lfs := [] },
      toks := [] }
  (r.toks.reverse, r.s.lfs)

end Bclv
