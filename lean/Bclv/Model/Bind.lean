import Bclv.Model.Vm
import Bclv.Model.Utf8
/-!
# The reflection binder (`reflect.go`: `copyBlocks`, `copyBlock`, `setField`)

Go types and values are modelled as far as the binder can tell them apart:

* a type is `int`/`float64`/`string`/`bool` (the four kinds a block field can hold), the
  empty interface (anything is assignable), a struct (with an identity, a name — empty for
  an anonymous struct type — and fields carrying name, `bcl` tag, exportedness and
  embeddedness), a pointer (relevant as an embedded `*T`), or `other`: any type nothing a
  block holds is assignable to (named basic types, `int64`, maps, slices, non-empty
  interfaces, …), with its `reflect.Kind` name for the messages;
* a value mirrors the type; an `other` value is opaque and can only stay as it is.

`reflect.Type.FieldByNameFunc` (breadth-first through embedded structs, a name matching
twice at the shallowest depth cancels out) and `reflect.Value.FieldByIndexErr` (a nil
embedded pointer is an error) are ported with the binder.  Every place where the Go code
could panic is the outcome `Outcome.panic`; `Props/C15.lean` shows it is never produced.
-/
namespace Bclv.Bind
open Bclv

inductive BK where | int | float | str | bool
  deriving DecidableEq, Repr

structure FieldHdr where
  name : List Char
  tag : List Char := []
  exported : Bool := true
  embedded : Bool := false
  deriving DecidableEq, Repr

mutual
inductive Ty where
  | basic (k : BK)
  | iface
  | other (kind : List Char)
  | struct (id : Nat) (name : List Char) (fields : TFields)
  | ptr (elem : Ty)
  | slice (elem : Ty)
inductive TFields where
  | nil
  | cons (h : FieldHdr) (ty : Ty) (rest : TFields)
end

mutual
inductive GV where
  | int (i : Int64)
  | float (b : UInt64)
  | str (s : Bytes)
  | bool (b : Bool)
  | boxed (v : Value)            -- contents of an interface field (`nil` value = nil interface)
  | opaque                       -- a value of an `other` type
  | struct (vals : GVs)
  | nilptr
  | ptr (v : GV)
  | slice (vals : GVs)
inductive GVs where
  | nil
  | cons (v : GV) (rest : GVs)
end

instance : Inhabited GV := ⟨.opaque⟩

def TFields.length : TFields → Nat
  | .nil => 0
  | .cons _ _ r => r.length + 1

def TFields.get? : TFields → Nat → Option (FieldHdr × Ty)
  | .nil, _ => none
  | .cons h t _, 0 => some (h, t)
  | .cons _ _ r, n+1 => r.get? n

def GVs.get? : GVs → Nat → Option GV
  | .nil, _ => none
  | .cons v _, 0 => some v
  | .cons _ r, n+1 => r.get? n

def GVs.set : GVs → Nat → GV → GVs
  | .nil, _, _ => .nil
  | .cons _ r, 0, x => .cons x r
  | .cons v r, n+1, x => .cons v (r.set n x)

def GVs.length : GVs → Nat
  | .nil => 0
  | .cons _ r => r.length + 1

def GVs.ofList : List GV → GVs
  | [] => .nil
  | v :: r => .cons v (GVs.ofList r)

mutual
/-- The zero value of a type. -/
def zero : Ty → GV
  | .basic .int => .int 0
  | .basic .float => .float 0
  | .basic .str => .str []
  | .basic .bool => .bool false
  | .iface => .boxed .nil
  | .other _ => .opaque
  | .struct _ _ fs => .struct (zeros fs)
  | .ptr _ => .nilptr
  | .slice _ => .slice .nil
def zeros : TFields → GVs
  | .nil => .nil
  | .cons _ t r => .cons (zero t) (zeros r)
end

/-- `reflect.Kind` names, for the messages. -/
def Ty.kind : Ty → List Char
  | .basic .int => "int".toList | .basic .float => "float64".toList | .basic .str => "string".toList
  | .basic .bool => "bool".toList | .iface => "interface".toList | .other k => k
  | .struct _ _ _ => "struct".toList | .ptr _ => "ptr".toList | .slice _ => "slice".toList

/-! ## the name-matching rule -/

/-- `strings.EqualFold` against an ASCII string: simple case folding, including the two
non-ASCII runes whose fold orbit contains an ASCII letter (U+212A KELVIN SIGN ~ k,
U+017F LONG S ~ s). -/
def foldChar (c : Char) : Char :=
  if 'A' ≤ c ∧ c ≤ 'Z' then Char.ofNat (c.toNat + 32)
  else if c.toNat = 0x212A then 'k'
  else if c.toNat = 0x17F then 's'
  else c

def unsnake (s : List Char) : List Char := (s.filter (· != '_')).map foldChar

/-- `unsnakeMatcher(snake)(s)`: equal ignoring case and underscores on both sides. -/
def unsnakeEq (s snake : List Char) : Bool := unsnake s == unsnake snake

/-- `strings.Cut(name, ".")`: the part before the first dot. -/
def cutDot : List Char → List Char
  | [] => []
  | c :: r => if c = '.' then [] else c :: cutDot r

/-! ## `FieldByNameFunc` -/

structure Found where
  index : List Nat
  hdr : FieldHdr
  ty : Ty

structure Scan where
  id : Nat
  fields : TFields
  index : List Nat

structure Acc where
  res : Option Found := none
  next : List Scan := []
  nextCount : List (Nat × Nat) := []

def cnt (m : List (Nat × Nat)) (id : Nat) : Nat := (m.lookup id).getD 0
def setCnt (m : List (Nat × Nat)) (id n : Nat) : List (Nat × Nat) := (id, n) :: m.filter (·.1 != id)

/-- The struct an embedded field leads to (through one pointer). -/
def embeddedStruct : Ty → Option (Nat × TFields)
  | .struct id _ fs => some (id, fs)
  | .ptr (.struct id _ fs) => some (id, fs)
  | _ => none

/-- The fields of one struct at the current depth.  `none` = the name matched twice at
this depth: the lookup is annihilated. -/
def scanFields (m : List Char → Bool) (tcount : Nat) (pfx : List Nat) : TFields → Nat → Acc → Option Acc
  | .nil, _, acc => some acc
  | .cons h ty rest, i, acc =>
    if m h.name then
      if tcount > 1 || acc.res.isSome then none
      else scanFields m tcount pfx rest (i + 1) { acc with res := some ⟨pfx ++ [i], h, ty⟩ }
    else
      match (if h.embedded then embeddedStruct ty else none) with
      | none => scanFields m tcount pfx rest (i + 1) acc
      | some (sid, sf) =>
        if acc.res.isSome then scanFields m tcount pfx rest (i + 1) acc
        else if cnt acc.nextCount sid > 0 then
          scanFields m tcount pfx rest (i + 1) { acc with nextCount := setCnt acc.nextCount sid 2 }
        else
          scanFields m tcount pfx rest (i + 1)
            { acc with nextCount := setCnt acc.nextCount sid (if tcount > 1 then 2 else 1),
                       next := acc.next ++ [⟨sid, sf, pfx ++ [i]⟩] }

/-- All structs of one depth. -/
def scanLevel (m : List Char → Bool) (count : List (Nat × Nat)) : List Scan → List Nat → Acc → Option (Acc × List Nat)
  | [], visited, acc => some (acc, visited)
  | s :: rest, visited, acc =>
    if visited.contains s.id then scanLevel m count rest visited acc
    else
      match scanFields m (cnt count s.id) s.index s.fields 0 acc with
      | none => none
      | some acc' => scanLevel m count rest (s.id :: visited) acc'

def fieldByNameLoop (m : List Char → Bool) : Nat → List Scan → List (Nat × Nat) → List Nat → Option Found
  | 0, _, _, _ => none
  | fuel+1, current, count, visited =>
    if current.isEmpty then none else
    match scanLevel m count current visited {} with
    | none => none
    | some (acc, visited') =>
      match acc.res with
      | some r => some r
      | none => fieldByNameLoop m fuel acc.next acc.nextCount visited'

/-- `t.FieldByNameFunc(match)` on a struct type. -/
def fieldByNameFunc (id : Nat) (fs : TFields) (m : List Char → Bool) (depthFuel : Nat := 64) : Option Found :=
  fieldByNameLoop m depthFuel [⟨id, fs, []⟩] [] []

/-! ## values at index paths (`FieldByIndexErr`, `Set`) -/

inductive PathErr where | nilEmbedded | bad
  deriving DecidableEq, Repr

/-- `v.FieldByIndexErr(index)`. -/
def getPath : GV → List Nat → Except PathErr GV
  | v, [] => .ok v
  | .struct vals, i :: rest =>
    match vals.get? i with
    | none => .error .bad
    | some fv =>
      match rest with
      | [] => .ok fv
      | _ =>
        -- stepping further: through an embedded struct, or an embedded pointer to one
        match fv with
        | .nilptr => .error .nilEmbedded
        | .ptr inner => getPath inner rest
        | other => getPath other rest
  | _, _ => .error .bad

/-- Store `x` at the path (the path is known to be walkable). -/
def setPath : GV → List Nat → GV → GV
  | _, [], x => x
  | .struct vals, i :: rest, x =>
    match vals.get? i with
    | none => .struct vals
    | some fv =>
      match rest with
      | [] => .struct (vals.set i x)
      | _ =>
        match fv with
        | .ptr inner => .struct (vals.set i (.ptr (setPath inner rest x)))
        | other => .struct (vals.set i (setPath other rest x))
  | v, _, _ => v

/-! ## the binder -/

inductive Err where
  | noBinding | notPointer (kind : List Char) | notStruct (kind : List Char) | notSlice (kind : List Char)
  | elemNotStruct (kind : List Char)
  | blockNotStruct | typeName | notFound (name : List Char) | unexported | nilValue | collision | nilEmbedded
  | mismatch
  deriving DecidableEq, Repr

inductive Outcome where
  | ok (v : GV)
  | err (v : GV) (e : Err)       -- the target as the failed call left it
  | panic

/-- The Go value of a block field value, and whether it is assignable to a field type. -/
def assign : Value → Ty → Option GV
  | .int i, .basic .int => some (.int i)
  | .float b, .basic .float => some (.float b)
  | .str s, .basic .str => some (.str s)
  | .bool b, .basic .bool => some (.bool b)
  | .nil, _ => none
  | v, .iface => some (.boxed v)
  | _, _ => none

def overlaps : List Nat → List Nat → Bool
  | [], _ => true
  | _, [] => true
  | a :: as, b :: bs => a == b && overlaps as bs

/-- The runes of a Go string (`for _, r := range s`): invalid bytes decode to U+FFFD. -/
def charsFuel : Nat → Bytes → List Char
  | 0, _ => []
  | _, [] => []
  | f+1, b =>
    let (r, w) := decodeRune b
    Char.ofNat r.toNat :: charsFuel f (b.drop (max w 1))

def chars (b : Bytes) : List Char := charsFuel b.length b

/-- tag → field position, last one wins (`tagged[tagv] = i`). -/
def taggedOf : TFields → Nat → List (List Char × Nat) → List (List Char × Nat)
  | .nil, _, m => m
  | .cons h _ rest, i, m =>
    if h.tag.isEmpty then taggedOf rest (i + 1) m
    else taggedOf rest (i + 1) ((h.tag, i) :: m.filter (·.1 != h.tag))

/-- Field lookup of `setField`: the tag table first (when there is one), then the name rule. -/
def lookupField (id : Nat) (fs : TFields) (tagged : List (List Char × Nat)) (name : List Char) : Option Found :=
  match (if tagged.isEmpty then none else tagged.lookup name) with
  | some i => (fs.get? i).map (fun (h, t) => ⟨[i], h, t⟩)
  | none => fieldByNameFunc id fs (fun s => unsnakeEq s (cutDot name))

/-- insertion sort of the keys (`sort.Strings`: bytewise order). -/
def bytesLt : Bytes → Bytes → Bool
  | [], [] => false
  | [], _ :: _ => true
  | _ :: _, [] => false
  | a :: as, b :: bs => a < b || (a == b && bytesLt as bs)

inductive Item where
  | val (k : Bytes) (v : Value)
  | child (k : Bytes) (b : Block)

def Item.key : Item → Bytes | .val k _ => k | .child k _ => k

def insertItem (x : Item) : List Item → List Item
  | [] => [x]
  | y :: ys => if bytesLt y.key x.key then y :: insertItem x ys else x :: y :: ys

def Fields.items : Fields → List Item
  | .nil => []
  | .val k v rest => .val k v :: Fields.items rest
  | .child k b rest => .child k b :: Fields.items rest

def sortedItems (fs : Fields) : List Item := (Fields.items fs).foldr insertItem []

structure BState where
  v : GV
  stored : List (List Nat) := []

/-- `setField(key, value, false)` for one entry of the block.  `copy` is the binder for a
nested block (one level of nesting less). -/
def setItem (copy : Ty → GV → Block → Outcome) (id : Nat) (tfs : TFields) (tagged : List (List Char × Nat))
    (st : BState) (it : Item) : Except Outcome BState :=
  match lookupField id tfs tagged (chars it.key) with
  | none => .error (.err st.v (.notFound (cutDot (chars it.key))))
  | some f =>
    if !f.hdr.exported then .error (.err st.v .unexported)
    else
      match it with
      | .val _ x =>
        if x = .nil then .error (.err st.v .nilValue)
        else if st.stored.any (fun p => overlaps p f.index) then .error (.err st.v .collision)
        else
          match getPath st.v f.index with
          | .error .nilEmbedded => .error (.err st.v .nilEmbedded)
          | .error .bad => .error .panic
          | .ok _ =>
            match assign x f.ty with
            | none => .error (.err st.v .mismatch)
            | some gx => .ok { v := setPath st.v f.index gx, stored := st.stored ++ [f.index] }
      | .child _ b =>
        if st.stored.any (fun p => overlaps p f.index) then .error (.err st.v .collision)
        else
          match getPath st.v f.index with
          | .error .nilEmbedded => .error (.err st.v .nilEmbedded)
          | .error .bad => .error .panic
          | .ok fv =>
            match copy f.ty fv b with
            | .ok fv' => .ok { v := setPath st.v f.index fv', stored := st.stored ++ [f.index] }
            | .err fv' e => .error (.err (setPath st.v f.index fv') e)
            | .panic => .error .panic

/-- The entries in key order; the first error ends the call. -/
def setItems (copy : Ty → GV → Block → Outcome) (id : Nat) (tfs : TFields) (tagged : List (List Char × Nat)) :
    List Item → BState → Outcome
  | [], st => .ok st.v
  | it :: rest, st =>
    match setItem copy id tfs tagged st it with
    | .error o => o
    | .ok st' => setItems copy id tfs tagged rest st'

/-- `setField("Name", block.Name, true)` and the tolerance for unnamed blocks. -/
def setName (id : Nat) (tfs : TFields) (tagged : List (List Char × Nat)) (v : GV) (bname : Bytes) : Except Outcome BState :=
  match lookupField id tfs tagged "Name".toList with
  | none => if bname.isEmpty then .ok { v } else .error (.err v (.notFound "Name".toList))
  | some f =>
    if !f.hdr.exported then .error (.err v .unexported)
    else
      match getPath v f.index with
      | .error .nilEmbedded => .error (.err v .nilEmbedded)
      | .error .bad => .error .panic
      | .ok _ =>
        match assign (.str bname) f.ty with
        | none => .error (.err v .mismatch)
        | some gx => .ok { v := setPath v f.index gx, stored := if bname.isEmpty then [] else [f.index] }

/-- `copyBlock(v, block)`; the first argument bounds the nesting depth of the block. -/
def copyBlock : Nat → Ty → GV → Block → Outcome
  | 0, _, _, _ => .panic
  | fuel+1, ty, v, .mk btyp bname fields =>
    match ty with
    | .struct id sname tfs =>
      if !sname.isEmpty && !unsnakeEq sname (chars btyp) then .err v .typeName
      else
        let tagged := taggedOf tfs 0 []
        match setName id tfs tagged v bname with
        | .error o => o
        | .ok st => setItems (copyBlock fuel) id tfs tagged (sortedItems fields) st
    | _ => .err v .blockNotStruct

mutual
def blockDepth : Block → Nat
  | .mk _ _ fs => fieldsDepth fs + 1
def fieldsDepth : Fields → Nat
  | .nil => 0
  | .val _ _ r => fieldsDepth r
  | .child _ b r => max (blockDepth b) (fieldsDepth r)
end

/-- What `Bind` is given as its target: `nil`, a non-pointer, or a pointer to a value. -/
inductive Target where
  | nonPointer (kind : List Char)      -- including the nil interface ("invalid")
  | nilPointer (ty : Ty)               -- a typed nil pointer
  | pointer (ty : Ty) (v : GV)

def blocksToSlice (copy : Ty → GV → Block → Outcome) (elem : Ty) : List Block → List GV → Except Outcome (List GV)
  | [], acc => .ok acc.reverse
  | b :: rest, acc =>
    match copy elem (zero elem) b with
    | .ok v => blocksToSlice copy elem rest (v :: acc)
    | .err _ e => .error (.err .opaque e)
    | .panic => .error .panic

def maxDepth (bs : List Block) : Nat := bs.foldl (fun a b => max a (blockDepth b)) 0

/-- `copyBlocks(target, binding)` = `Bind`.  On an error the outcome carries the target
as the call left it: a slice target is untouched (the new slice replaces it only when
complete), a struct target may have been partly written. -/
def bind (t : Target) (b : Option Binding) : Outcome :=
  match b with
  | none => match t with
    | .nonPointer _ => .err .opaque .noBinding
    | .nilPointer _ => .err .opaque .noBinding
    | .pointer _ v => .err v .noBinding
  | some b =>
    match t with
    | .nonPointer k => .err .opaque (.notPointer k)
    | .nilPointer _ =>
      -- `targetPtr.Elem()` of a nil pointer is the zero Value: kind "invalid"
      match b with
      | .struct _ => .err .opaque (.notStruct "invalid".toList)
      | .slice _ => .err .opaque (.notSlice "invalid".toList)
    | .pointer ty v =>
      match b with
      | .struct blk =>
        match ty with
        | .struct .. => copyBlock (blockDepth blk + 1) ty v blk
        | _ => .err v (.notStruct ty.kind)
      | .slice blks =>
        match ty with
        | .slice elem =>
          match elem with
          | .struct .. =>
            match blocksToSlice (copyBlock (maxDepth blks + 1)) elem blks [] with
            | .ok vs => .ok (.slice (GVs.ofList vs))
            | .error (.err _ e) => .err v e
            | .error o => o
          | _ => .err v (.elemNotStruct elem.kind)
        | _ => .err v (.notSlice ty.kind)

end Bclv.Bind
