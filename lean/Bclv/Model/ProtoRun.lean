import Bclv.Model.Proto
import Bclv.Model.Api
import Std.Data.HashSet
/-!
# Driver side of the protocol model: every outcome of a concrete script

`outcomes` explores *all* interleavings of the transition system of `Model/Proto.lean`
for one concrete script and returns the observations of its final states.  The `proto`
stream asks for them (driver op `PROTO`) and checks that what `ParseFile` did — value
class returned, number of `Read`s, number of `Close`s — is one of them.  The lexer's side
of the script (which chunk it fails in, if any) and the parser's verdict are computed by
the lexer and parser models from the bytes.
-/
namespace Bclv.Proto
open Bclv

deriving instance Hashable for Rd, RLoc, LLoc, PLoc, MLoc, St

structure Obs where
  ret : Ret
  reads : Nat
  closes : Nat
  readsAfterFail : Nat
  deriving DecidableEq, Repr

def St.obs (s : St) : Obs := ⟨s.ret, s.reads, s.closes, s.readsAfterFail⟩

/-- Breadth-first exploration; `stuck` collects the states without a successor. -/
partial def explore (front : List St) (seen : Std.HashSet St) (stuck : List St) : List St :=
  match front with
  | [] => stuck
  | s :: rest =>
    let succ := step s
    if succ.isEmpty then explore rest seen (s :: stuck)
    else
      let (front', seen') := succ.foldl (fun (acc : List St × Std.HashSet St) s' =>
        if acc.2.contains s' then acc else (s' :: acc.1, acc.2.insert s')) (rest, seen)
      explore front' seen' stuck

def insertObs (o : Obs) (l : List Obs) : List Obs := if l.contains o then l else o :: l

/-- Observations of all terminal states, and whether all of them are `Final`. -/
def outcomes (s0 : St) (parseErr : Bool) : List Obs × Bool :=
  let stuck := explore [s0] (Std.HashSet.emptyWithCapacity.insert s0) []
  let ok := stuck.all (fun s => decide (s.r = .fin ∧ s.l = .fin ∧ s.p = .fin ∧ s.m = .ret))
  -- the parser's verdict is known for a concrete input: keep the runs that agree with it
  let sel := stuck.filter (fun s => s.rdErr || s.hadErr == parseErr)
  (sel.foldl (fun acc s => insertObs s.obs acc) [], ok)

/-- One scripted `Read`, with its bytes. -/
inductive Item where
  | data (b : Bytes) | dataEof (b : Bytes) | zero | eof | err

/-- The chunks the reader would forward, in order, up to the first EOF or error. -/
def forwarded : List Item → List Bytes
  | [] => []
  | .data b :: r => b :: forwarded r
  | .dataEof b :: r => b :: forwarded r
  | .zero :: r => [] :: forwarded r
  | .eof :: _ => []
  | .err :: _ => []

/-- How many chunks the lexer model receives, and whether it ends in `tFAIL`. -/
def lexInfo (chunks : List Bytes) : Nat × Bool × Bool :=
  let total := (chunks.map List.length).sum
  let fuel := total + 2
  let r := lexRun Win.prims fuel (3 * total + 4) .start
    { s := { input := [], start := 0, pos := 0, posShift := 0, width := 0, pending := chunks, lfs := [] },
      toks := [] }
  (chunks.length - r.s.pending.length, (match r.toks with | t :: _ => t.typ == .FAIL | [] => false),
   !(parseTokens r.toks.reverse r.s.lfs).ok)

/-- The abstract script: chunk `failAt` (if any) is the one the lexer fails in. -/
def abstract (items : List Item) (failAt : Option Nat) : List Rd :=
  let rec go : List Item → Nat → List Rd
    | [], _ => []
    | .data _ :: r, i => .data 1 (failAt == some i) :: go r (i + 1)
    | .dataEof _ :: r, i => .dataEof 1 (failAt == some i) :: go r (i + 1)
    | .zero :: r, i => (if failAt == some i then .data 0 true else .zero) :: go r (i + 1)
    | .eof :: r, i => .eof :: go r i
    | .err :: r, i => .err :: go r i
  go items 0

def fmtRet : Ret → String
  | .readError => "readerr" | .parseError => "parseerr" | .ok => "ok"

def fmtObs (o : Obs) : String := s!"{fmtRet o.ret}/{o.reads}/{o.closes}/{o.readsAfterFail}"

/-- The `PROTO` answer: all observations the model allows for this script. -/
def protoAnswer (cap : Nat) (_name : Bytes) (items : List Item) : String :=
  let chunks := forwarded items
  let (received, failed, perr) := lexInfo chunks
  let variants : List St :=
    if failed then
      if received = 0 then [init (abstract items none) 0 true cap]
      else if received = chunks.length then
        -- failed in the last chunk, or after seeing the channel closed: both are possible readings
        [init (abstract items (some (received - 1))) 0 false cap, init (abstract items none) 0 true cap]
      else [init (abstract items (some (received - 1))) 0 false cap]
    else [init (abstract items none) 1 false cap]
  let rs := variants.map (fun s0 => outcomes s0 perr)
  let obs := rs.foldl (fun acc r => r.1.foldl (fun a o => insertObs o a) acc) []
  let allFinal := rs.all (·.2)
  s!"final={if allFinal then 1 else 0} received={received} lexfail={if failed then 1 else 0} perr={if perr then 1 else 0} obs={" ".intercalate (obs.map fmtObs)}"

end Bclv.Proto
