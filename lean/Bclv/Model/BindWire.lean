import Bclv.Model.Bind
/-!
# Wire format of the `BIND` driver op (tokens separated by commas, prefix notation)

    Ty      := i | f | s | b | a | o <hexkind> | S <id> <hexname> <n> Field^n | p Ty | l Ty
    Field   := <hexname> <hextag> <exported 0/1> <embedded 0/1> Ty
    GV      := I <int> | F <bits> | T <hex> | B <0/1> | X Value | O | R <n> GV^n | N | P GV | L <n> GV^n
    Value   := n | i <int> | f <bits> | s <hex> | b <0/1>
    Block   := K <hextype> <hexname> <n> Entry^n ;  Entry := v <hexkey> Value | c <hexkey> Block
    Binding := none | struct Block | slice <n> Block^n
    Target  := np <hexkind> | nilp Ty | ptr Ty GV
-/
namespace Bclv.Bind
open Bclv

abbrev Toks := List String

def hexVal (c : Char) : Nat :=
  if '0' ≤ c ∧ c ≤ '9' then c.toNat - 48 else if 'a' ≤ c ∧ c ≤ 'f' then c.toNat - 87 else 0

def unhex (s : String) : Bytes :=
  if s == "-" then [] else
  let rec go : List Char → Bytes
    | a :: b :: r => UInt8.ofNat (hexVal a * 16 + hexVal b) :: go r
    | _ => []
  go s.toList

def unhexChars (s : String) : List Char := chars (unhex s)

def toInt64 (s : String) : Int64 := Int64.ofInt (s.toInt?.getD 0)

def parseValue : Toks → Option (Value × Toks)
  | "n" :: r => some (.nil, r)
  | "i" :: x :: r => some (.int (toInt64 x), r)
  | "f" :: x :: r => some (.float (UInt64.ofNat x.toNat!), r)
  | "s" :: x :: r => some (.str (unhex x), r)
  | "b" :: x :: r => some (.bool (x == "1"), r)
  | _ => none

mutual
partial def parseTy : Toks → Option (Ty × Toks)
  | "i" :: r => some (.basic .int, r)
  | "f" :: r => some (.basic .float, r)
  | "s" :: r => some (.basic .str, r)
  | "b" :: r => some (.basic .bool, r)
  | "a" :: r => some (.iface, r)
  | "o" :: k :: r => some (.other (unhexChars k), r)
  | "p" :: r => (parseTy r).map (fun (t, r') => (.ptr t, r'))
  | "l" :: r => (parseTy r).map (fun (t, r') => (.slice t, r'))
  | "S" :: id :: nm :: n :: r =>
    (parseFields n.toNat! r).map (fun (fs, r') => (.struct id.toNat! (unhexChars nm) fs, r'))
  | _ => none
partial def parseFields : Nat → Toks → Option (TFields × Toks)
  | 0, r => some (.nil, r)
  | n+1, nm :: tag :: ex :: em :: r =>
    match parseTy r with
    | some (t, r') =>
      (parseFields n r').map (fun (fs, r'') =>
        (.cons { name := unhexChars nm, tag := unhexChars tag, exported := ex == "1", embedded := em == "1" } t fs, r''))
    | none => none
  | _, _ => none
end

mutual
partial def parseGV : Toks → Option (GV × Toks)
  | "I" :: x :: r => some (.int (toInt64 x), r)
  | "F" :: x :: r => some (.float (UInt64.ofNat x.toNat!), r)
  | "T" :: x :: r => some (.str (unhex x), r)
  | "B" :: x :: r => some (.bool (x == "1"), r)
  | "X" :: r => (parseValue r).map (fun (v, r') => (.boxed v, r'))
  | "O" :: r => some (.opaque, r)
  | "N" :: r => some (.nilptr, r)
  | "P" :: r => (parseGV r).map (fun (v, r') => (.ptr v, r'))
  | "R" :: n :: r => (parseGVs n.toNat! r).map (fun (vs, r') => (.struct vs, r'))
  | "L" :: n :: r => (parseGVs n.toNat! r).map (fun (vs, r') => (.slice vs, r'))
  | _ => none
partial def parseGVs : Nat → Toks → Option (GVs × Toks)
  | 0, r => some (.nil, r)
  | n+1, r =>
    match parseGV r with
    | some (v, r') => (parseGVs n r').map (fun (vs, r'') => (.cons v vs, r''))
    | none => none
end

mutual
partial def parseBlock : Toks → Option (Block × Toks)
  | "K" :: ty :: nm :: n :: r =>
    (parseEntries n.toNat! r).map (fun (fs, r') => (.mk (unhex ty) (unhex nm) fs, r'))
  | _ => none
partial def parseEntries : Nat → Toks → Option (Fields × Toks)
  | 0, r => some (.nil, r)
  | n+1, "v" :: k :: r =>
    match parseValue r with
    | some (v, r') => (parseEntries n r').map (fun (fs, r'') => (.val (unhex k) v fs, r''))
    | none => none
  | n+1, "c" :: k :: r =>
    match parseBlock r with
    | some (b, r') => (parseEntries n r').map (fun (fs, r'') => (.child (unhex k) b fs, r''))
    | none => none
  | _, _ => none
end

partial def parseBlocks : Nat → Toks → Option (List Block × Toks)
  | 0, r => some ([], r)
  | n+1, r =>
    match parseBlock r with
    | some (b, r') => (parseBlocks n r').map (fun (bs, r'') => (b :: bs, r''))
    | none => none

def parseBinding : Toks → Option (Option Binding × Toks)
  | "none" :: r => some (none, r)
  | "struct" :: r => (parseBlock r).map (fun (b, r') => (some (.struct b), r'))
  | "slice" :: n :: r => (parseBlocks n.toNat! r).map (fun (bs, r') => (some (.slice bs), r'))
  | _ => none

def parseTarget : Toks → Option (Target × Toks)
  | "np" :: k :: r => some (.nonPointer (unhexChars k), r)
  | "nilp" :: r => (parseTy r).map (fun (t, r') => (.nilPointer t, r'))
  | "ptr" :: r =>
    match parseTy r with
    | some (t, r') => (parseGV r').map (fun (v, r'') => (.pointer t v, r''))
    | none => none
  | _ => none

def hexOf (b : Bytes) : String :=
  if b.isEmpty then "-" else
  String.ofList (b.foldr (fun x acc =>
    let d (n : Nat) : Char := if n < 10 then Char.ofNat (48 + n) else Char.ofNat (87 + n)
    d (x.toNat / 16) :: d (x.toNat % 16) :: acc) [])

def showValue : Value → List String
  | .nil => ["n"]
  | .int i => ["i", toString i.toInt]
  | .float b => ["f", toString b.toNat]
  | .str s => ["s", hexOf s]
  | .bool b => ["b", if b then "1" else "0"]

mutual
def showGV : GV → List String
  | .int i => ["I", toString i.toInt]
  | .float b => ["F", toString b.toNat]
  | .str s => ["T", hexOf s]
  | .bool b => ["B", if b then "1" else "0"]
  | .boxed v => "X" :: showValue v
  | .opaque => ["O"]
  | .nilptr => ["N"]
  | .ptr v => "P" :: showGV v
  | .struct vs => "R" :: toString vs.length :: showGVs vs
  | .slice vs => "L" :: toString vs.length :: showGVs vs
def showGVs : GVs → List String
  | .nil => []
  | .cons v r => showGV v ++ showGVs r
end

def showErr : Err → String
  | .noBinding => "noBinding"
  | .notPointer k => "notPointer:" ++ String.ofList k
  | .notStruct k => "notStruct:" ++ String.ofList k
  | .notSlice k => "notSlice:" ++ String.ofList k
  | .elemNotStruct k => "elemNotStruct:" ++ String.ofList k
  | .blockNotStruct => "blockNotStruct"
  | .typeName => "typeName"
  | .notFound _ => "notFound"
  | .unexported => "unexported"
  | .nilValue => "nilValue"
  | .collision => "collision"
  | .nilEmbedded => "nilEmbedded"
  | .mismatch => "mismatch"

/-- Answer of the `BIND` op. -/
def bindAnswer (payload : String) : String :=
  let toks := payload.splitOn ","
  match parseTarget toks with
  | none => "bad-target"
  | some (t, r) =>
    match parseBinding r with
    | none => "bad-binding"
    | some (b, _) =>
      match bind t b with
      | .ok v => "ok " ++ ",".intercalate (showGV v)
      | .err v e => "err " ++ showErr e ++ " " ++ ",".intercalate (showGV v)
      | .panic => "panic"

end Bclv.Bind
