import Bclv.Model.Utf8
/-!
# Literal readers: `strconv.ParseInt(s, 0, 0)`, `strconv.ParseFloat(s, 64)` and
`strconv.Unquote` restricted to the spellings the lexer can produce.
Standard library, modelled and validated by correspondence only.
-/
namespace Bclv

def digitVal (b : UInt8) : Option Nat :=
  if 48 ≤ b && b ≤ 57 then some (b.toNat - 48)
  else if 97 ≤ b && b ≤ 102 then some (b.toNat - 87)
  else if 65 ≤ b && b ≤ 70 then some (b.toNat - 55)
  else none

/-- Digits in a base; `none` on an empty string or a digit out of range. -/
def parseBase (base : Nat) (ds : Bytes) : Option Nat :=
  if ds.isEmpty then none else
  ds.foldlM (fun acc b => match digitVal b with
    | some d => if d < base then some (acc * base + d) else none
    | none => none) 0

/-- `strconv.ParseInt(s, 0, 0)` on an unsigned spelling `digits+` or `0[xX]hex*`:
the value if it is valid and below `2^63`. -/
def parseIntLit (s : Bytes) : Option Nat :=
  let v :=
    match s with
    | 48 :: x :: rest =>
      if x = 120 || x = 88 then parseBase 16 rest
      else parseBase 8 (x :: rest)
    | _ => parseBase 10 s
  match v with
  | some n => if n < 2 ^ 63 then some n else none
  | none => none

/-- Round the positive rational `num / den` to the nearest binary64 (ties to even);
`none` on overflow (Go reports a range error). Result is the bit pattern. -/
def ratToF64 (num den : Nat) : Option UInt64 :=
  if num = 0 then some 0 else
  -- e such that 2^e ≤ num/den < 2^(e+1)
  let lb : Int := (Nat.log2 num : Int) - (Nat.log2 den : Int)
  let ge (e : Int) : Bool := -- 2^e ≤ num/den
    if e ≥ 0 then den * 2 ^ e.toNat ≤ num else den ≤ num * 2 ^ (-e).toNat
  let e : Int := if ge lb then (if ge (lb + 1) then lb + 1 else lb) else lb - 1
  -- unit in the last place: 2^(e-52), but not below 2^-1074
  let u : Int := max (e - 52) (-1074)
  -- q = floor(num/den / 2^u), with remainder comparison for rounding
  let (n', d') : Nat × Nat := if u ≥ 0 then (num, den * 2 ^ u.toNat) else (num * 2 ^ (-u).toNat, den)
  let q := n' / d'
  let r := n' % d'
  let q := if 2 * r > d' || (2 * r = d' && q % 2 = 1) then q + 1 else q
  -- q < 2^53 or q = 2^53 (carry)
  let (q, u) := if q = 2 ^ 53 then (2 ^ 52, u + 1) else (q, u)
  if q < 2 ^ 52 then some (UInt64.ofNat q)      -- subnormal (or zero): exponent field 0
  else
    let ef : Int := u + 1075          -- biased exponent
    if ef ≥ 2047 then none
    else some (UInt64.ofNat (ef.toNat * 2 ^ 52 + (q - 2 ^ 52)))

/-- `strconv.ParseFloat(s, 64)` on `digits[.digits][(e|E)[+-]digits]`. -/
def parseFloatLit (s : Bytes) : Option UInt64 :=
  let isD (b : UInt8) := 48 ≤ b && b ≤ 57
  let ip := s.takeWhile isD
  let r := s.dropWhile isD
  let (fp, r) := match r with
    | 46 :: r' => (r'.takeWhile isD, r'.dropWhile isD)
    | _ => ([], r)
  let (neg, ep) : Bool × Bytes := match r with
    | c :: r' => if c = 101 || c = 69 then
        (match r' with
         | 45 :: r'' => (true, r'')
         | 43 :: r'' => (false, r'')
         | _ => (false, r'))
      else (false, [])
    | [] => (false, [])
  let mant : Nat := (ip ++ fp).foldl (fun a b => a * 10 + (b.toNat - 48)) 0
  let ex : Nat := ep.foldl (fun a b => a * 10 + (b.toNat - 48)) 0
  -- value = mant * 10^(±ex - |fp|)
  let e10 : Int := (if neg then -(ex : Int) else (ex : Int)) - (fp.length : Int)
  if mant = 0 then some 0
  else if e10 > 400 then none
  else if e10 + ((ip ++ fp).length : Int) < -330 then some 0
  else if e10 ≥ 0 then ratToF64 (mant * 10 ^ e10.toNat) 1
  else ratToF64 mant (10 ^ (-e10).toNat)

def unhex (b : UInt8) : Option Nat := digitVal b

/-- `strconv.UnquoteChar(s, '"')`: the bytes to append and the tail. -/
def unquoteChar : Bytes → Option (Bytes × Bytes)
  | [] => none
  | c :: s =>
    if c = 34 then none
    else if c ≥ 0x80 then
      let (r, w) := decodeRune (c :: s)
      some (encodeRune r.toNat, (c :: s).drop w)
    else if c ≠ 92 then some ([c], s)
    else match s with
      | [] => none
      | e :: s =>
        let simple (b : UInt8) := some ([b], s)
        if e = 97 then simple 7 else if e = 98 then simple 8 else if e = 102 then simple 12
        else if e = 110 then simple 10 else if e = 114 then simple 13 else if e = 116 then simple 9
        else if e = 118 then simple 11 else if e = 92 then simple 92 else if e = 34 then simple 34
        else if e = 120 || e = 117 || e = 85 then
          let n := if e = 120 then 2 else if e = 117 then 4 else 8
          if s.length < n then none else
          match (s.take n).foldlM (fun acc b => (unhex b).map (acc * 16 + ·)) 0 with
          | none => none
          | some v =>
            if e = 120 then some ([UInt8.ofNat v], s.drop n)
            else if (0xD800 ≤ v && v ≤ 0xDFFF) || v > 0x10FFFF then none
            else some (encodeRune v, s.drop n)
        else if 48 ≤ e && e ≤ 55 then
          match s with
          | d1 :: d2 :: s' =>
            if 48 ≤ d1 && d1 ≤ 55 && 48 ≤ d2 && d2 ≤ 55 then
              let v := (e.toNat - 48) * 64 + (d1.toNat - 48) * 8 + (d2.toNat - 48)
              if v > 255 then none else some ([UInt8.ofNat v], s')
            else none
          | _ => none
        else none

def unquoteBody : Nat → Bytes → Bytes → Option Bytes
  | 0, _, _ => none
  | _+1, [], _ => none                       -- no closing quote
  | f+1, c :: s, acc =>
    if c = 34 then (if s.isEmpty then some acc.reverse else none)
    else if c = 10 then none
    else match unquoteChar (c :: s) with
      | none => none
      | some (bs, tail) => unquoteBody f tail (bs.reverse ++ acc)

/-- `strconv.Unquote` of a double-quoted token. -/
def unquote (s : Bytes) : Option Bytes :=
  match s with
  | 34 :: body => if body.isEmpty then none else unquoteBody (body.length + 1) body []
  | _ => none

end Bclv
