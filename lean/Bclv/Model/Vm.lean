import Bclv.Model.Prog
import Bclv.Model.Tree
import Bclv.Model.LineCalc
import Bclv.Model.FloatFmt
/-!
# The stack machine (`machine.go`, `oplogic.go`, `value.go`, `disasm.go`)

Every place where the Go code would index out of range, fail a type assertion or
run off the end of the code is the explicit outcome `panic`; the theorems of
`Props/C10` show that compiled programs never reach it.
-/
namespace Bclv

/-! ## blocks -/

mutual
inductive Block where
  | mk (typ name : Bytes) (fields : Fields)
inductive Fields where
  | nil
  | val (k : Bytes) (v : Value) (rest : Fields)
  | child (k : Bytes) (b : Block) (rest : Fields)
end

instance : Inhabited Block := ⟨.mk [] [] .nil⟩

def Block.typ : Block → Bytes | .mk t _ _ => t
def Block.name : Block → Bytes | .mk _ n _ => n
def Block.fields : Block → Fields | .mk _ _ f => f

/-- `Block.key`. -/
def Block.key (b : Block) : Bytes :=
  if b.name.isEmpty then b.typ else b.typ ++ str "." ++ b.name

inductive Entry where
  | none | val (v : Value) | child (b : Block)

def Fields.get (k : Bytes) : Fields → Entry
  | .nil => .none
  | .val k' v rest => if k' = k then .val v else rest.get k
  | .child k' b rest => if k' = k then .child b else rest.get k

/-- map store: replace the entry of that key or add one. -/
def Fields.setVal (k : Bytes) (v : Value) : Fields → Fields
  | .nil => .val k v .nil
  | .val k' v' rest => if k' = k then .val k v rest else .val k' v' (rest.setVal k v)
  | .child k' b rest => if k' = k then .val k v rest else .child k' b (rest.setVal k v)

def Fields.addChild (k : Bytes) (b : Block) : Fields → Fields
  | .nil => .child k b .nil
  | .val k' v' rest => .val k' v' (rest.addChild k b)
  | .child k' b' rest => .child k' b' (rest.addChild k b)

inductive Binding where
  | struct (b : Block)
  | slice (bs : List Block)

/-! ## values -/

def Value.isInt : Value → Bool | .int _ => true | _ => false
def Value.isFloat : Value → Bool | .float _ => true | _ => false
def Value.isNumber (v : Value) : Bool := v.isInt || v.isFloat
def Value.isString : Value → Bool | .str _ => true | _ => false

def fOf (b : UInt64) : Float := Float.ofBits b
def fBits (f : Float) : UInt64 := f.toBits

/-- `isFalsey`. -/
def isFalsey : Value → Bool
  | .bool b => !b
  | .int i => i == 0
  | .float b => fOf b == 0.0
  | .str s => s.isEmpty
  | .nil => true

/-- `vtype`. -/
def vtype : Value → String
  | .int _ => "int" | .float _ => "float" | .str _ => "string" | .bool _ => "bool" | .nil => "nil"

/-- `fmt`'s `%v` of a value (what `print` shows). -/
def fmtValue : Value → Bytes
  | .nil => str "<nil>"
  | .bool b => str (if b then "true" else "false")
  | .int i => intDec i.toInt
  | .float b => formatFloatV b
  | .str s => s

inductive ArOp where | eq | lt | gt | add | sub | mul | div
  deriving DecidableEq, Repr

def ArOp.ofOp : Op → Option ArOp
  | .EQ => some .eq | .LT => some .lt | .GT => some .gt | .ADD => some .add
  | .SUB => some .sub | .MUL => some .mul | .DIV => some .div | _ => none

def binopInt (op : ArOp) (a b : Int64) : Value :=
  match op with
  | .eq => .bool (a == b) | .lt => .bool (a < b) | .gt => .bool (a > b)
  | .add => .int (a + b) | .sub => .int (a - b) | .mul => .int (a * b) | .div => .int (a / b)

def binopFloat (op : ArOp) (a b : UInt64) : Value :=
  let x := fOf a; let y := fOf b
  match op with
  | .eq => .bool (x == y) | .lt => .bool (x < y) | .gt => .bool (x > y)
  | .add => .float (fBits (x + y)) | .sub => .float (fBits (x - y))
  | .mul => .float (fBits (x * y)) | .div => .float (fBits (x / y))

def i2f (i : Int64) : UInt64 := fBits i.toFloat

/-- `strings.Repeat` for a non-negative count. -/
def repeatAcc (s : Bytes) : Nat → Bytes → Bytes
  | 0, acc => acc
  | n+1, acc => repeatAcc s n (s ++ acc)

def repeatBytes (s : Bytes) (n : Nat) : Bytes := repeatAcc s n []

inductive BinRes where
  | ok (v : Value)
  | err (msg : Bytes)

/-- The `opEQ … opDIV` case of `vm.run`; `name` is the opcode's printed name. -/
def binop (op : ArOp) (name : String) (a b : Value) : BinRes :=
  match a, b with
  | .int x, .int y => if op = .div && y == 0 then .err (str "division by int zero") else .ok (binopInt op x y)
  | .int x, .float y => .ok (binopFloat op (i2f x) y)
  | .float x, .int y => if op = .div && y == 0 then .err (str "division by int zero") else .ok (binopFloat op x (i2f y))
  | .float x, .float y => .ok (binopFloat op x y)
  | _, _ =>
    let invalid : BinRes := .err (str name ++ str ": invalid types: " ++ str (vtype a) ++ str ", " ++ str (vtype b))
    match op, a, b with
    | .lt, .str x, .str y => .ok (.bool (bytesLt x y))
    | .gt, .str x, .str y => .ok (.bool (bytesLt y x))
    | .add, .str x, .str y => .ok (.str (x ++ y))
    | .add, .str x, .int y => .ok (.str (x ++ intDec y.toInt))
    | .add, .str x, .float y => .ok (.str (x ++ formatFloatF y))
    | .add, .str x, .nil => .ok (.str x)
    | .mul, .str x, .int y =>
      if y < 0 then .err (str "MUL: negative repeat count") else .ok (.str (repeatBytes x y.toInt.toNat))
    | .eq, _, _ => .ok (.bool (a = b))
    | _, _, _ => invalid

/-! ## machine state -/

inductive OutEv where
  | print (line : Bytes)     -- a line written by `print`
  | trace (text : Bytes)     -- text written by the trace option
  deriving Repr

structure VM where
  pc : Nat := 0
  stack : List Value := []        -- top first
  blocks : List Block := []       -- innermost first
  result : List Block := []       -- completed toplevel blocks, in order
  binding : Option Binding := none
  out : List OutEv := []          -- newest first
  log : List Bytes := []          -- warnings, newest first
  tosMax : Nat := 0
  blockTosMax : Nat := 0
  opsRead : Nat := 0

def stackSize : Nat := 1024
def blockStackSize : Nat := 16

/-- How a run ends. -/
inductive Halt where
  | ok                          -- `RET` on an empty stack
  | rt (text : Bytes)           -- a runtime error (`runtimeErr`), with its position
  | internal (text : Bytes)     -- "internal error: non-empty stack on prog end"
  deriving Repr

def Halt.err : Halt → Option Bytes
  | .ok => none
  | .rt t => some t
  | .internal t => some t

inductive Step where
  | next (vm : VM)
  | halt (vm : VM) (h : Halt)
  | panic (vm : VM)

def rtError (p : Prog) (vm : VM) (msg : Bytes) : Step :=
  match p.positions[vm.pc - 1]? with
  | some pos => .halt vm (.rt (str "runtime error: line " ++ fmtPos p.lfs pos ++ str ": " ++ msg))
  | none => .panic vm

def push (p : Prog) (vm : VM) (v : Value) : Step :=
  if vm.stack.length = stackSize then rtError p vm (str "stack overflow")
  else .next { vm with stack := v :: vm.stack, tosMax := max vm.tosMax (vm.stack.length + 1) }

def readUv (p : Prog) (pc : Nat) : Option (Nat × Nat) :=
  match uvDec (p.code.drop pc) with
  | some (x, rest) => some (x, p.code.length - rest.length)
  | none => none

def readU16 (p : Prog) (pc : Nat) : Option (Nat × Nat) :=
  match p.code.drop pc with
  | a :: b :: _ => some (a.toNat * 256 + b.toNat, pc + 2)
  | _ => none

def constStr (p : Prog) (idx : Nat) : Option Bytes :=
  match p.consts[idx]? with
  | some (.str s) => some s
  | _ => none

/-- The read-only pseudo-fields, as literal bytes (so that the kernel can compare them). -/
def kwTYPE : Bytes := [84, 89, 80, 69]
def kwNAME : Bytes := [78, 65, 77, 69]

/-- `blockGet`. -/
def blockGet (name : Bytes) (blocks : List Block) : Option Value :=
  match blocks with
  | [] => none
  | top :: _ =>
    if name = kwTYPE then some (.str top.typ)
    else if name = kwNAME then some (.str top.name)
    else
      let rec look : List Block → Option Value
        | [] => none
        | b :: bs => match b.fields.get name with
          | .val v => some v
          | _ => look bs
      look blocks

/-! ## disassembly text (`disasm.go`) -/

def padLeft (n : Nat) (c : UInt8) (s : Bytes) : Bytes := List.replicate (n - s.length) c ++ s
def padRight (n : Nat) (s : Bytes) : Bytes := s ++ List.replicate (n - s.length) 32

def hexUpper (n : Nat) : Bytes := str (String.ofList ((Nat.toDigits 16 n).map Char.toUpper))
def hexLower (n : Nat) : Bytes := str (String.ofList (Nat.toDigits 16 n))

def quoteConst (p : Prog) (idx : Nat) : Option Bytes :=
  (p.consts[idx]?).map (fun v => str "'" ++ fmtValue v ++ str "'")

/-- `disasmInstr`: the text and the next offset; `none` where the Go code panics. -/
def disasmInstr (p : Prog) (offset : Nat) : Option (Bytes × Nat) := do
  let b ← p.code[offset]?
  let pos ← p.positions[offset]?
  let same : Bool := offset > 0 && p.positions[offset - 1]? == some pos
  let head := padLeft 4 48 (natDec offset) ++ str " " ++
    (if same then str "     |  " else padLeft 6 32 (fmtPos p.lfs pos) ++ str "  ")
  let opName (o : Op) : Bytes := padRight 10 (str o.name)
  let num (n : Nat) : Bytes := padLeft 4 32 (natDec n)
  match Op.ofByte b with
  | none => some (head ++ str "unknown opcode opcode(" ++ natDec b.toNat ++ str ")\n", offset + 1)
  | some o =>
    match o with
    | .CONST | .GETFIELD | .SETFIELD =>
      let (idx, nx) ← readUv p (offset + 1)
      some (head ++ opName o ++ str " " ++ num idx ++ str " " ++ (← quoteConst p idx) ++ str "\n", nx)
    | .GETLOCAL | .SETLOCAL | .POPN =>
      let (arg, nx) ← readUv p (offset + 1)
      some (head ++ opName o ++ str " " ++ num arg ++ str "\n", nx)
    | .DEFBLOCK =>
      let (ti, n1) ← readUv p (offset + 1)
      let (ni, n2) ← readUv p n1
      some (head ++ opName o ++ str " " ++ num ti ++ str " " ++ (← quoteConst p ti) ++ str "\t"
            ++ num ni ++ str " " ++ (← quoteConst p ni) ++ str "\n", n2)
    | .JUMP | .JFALSE =>
      let (j, nx) ← readU16 p (offset + 1)
      some (head ++ opName o ++ str " " ++ num j ++ str " -> " ++ padLeft 4 48 (natDec (nx + j)) ++ str "\n", nx)
    | .LOOP =>
      let (j, nx) ← readU16 p (offset + 1)
      let tgt : Int := (nx : Int) - (j : Int)
      let t := if tgt < 0 then str "-" ++ padLeft 3 48 (natDec tgt.natAbs) else padLeft 4 48 (natDec tgt.toNat)
      some (head ++ opName o ++ str " " ++ num j ++ str " -> " ++ t ++ str "\n", nx)
    | .BIND =>
      let (idx, n1) ← readUv p (offset + 1)
      let arg ← p.code[n1]?
      some (head ++ opName o ++ str " " ++ num idx ++ str " " ++ (← quoteConst p idx) ++ str "\t0x"
            ++ padLeft 2 32 (hexUpper arg.toNat) ++ str "\n", n1 + 1)
    | _ => some (head ++ str o.name ++ str "\n", offset + 1)

/-- `Prog.disasm`. -/
def disasm (p : Prog) : Option Bytes :=
  let header := if p.name.isEmpty then [] else str "== " ++ p.name ++ str " ==\n"
  let rec go : Nat → Nat → Bytes → Option Bytes
    | 0, _, acc => some acc
    | f+1, off, acc =>
      if off < p.code.length then
        match disasmInstr p off with
        | some (t, nx) => go f nx (acc ++ t)
        | none => none
      else some acc
  go (p.code.length + 1) 0 header

/-- `printStack`. -/
def printStack (stack : List Value) : Bytes :=
  str "             " ++ natDec stack.length ++ str ": " ++
    (stack.reverse.map (fun v => str "[ " ++ fmtValue v ++ str " ]")).flatten ++ str "\n"

/-! ## one instruction -/

def selOne : Nat := 1
def selFirst : Nat := 2
def selLast : Nat := 3
def selAll : Nat := 15
def tgtStruct : Nat := 16
def tgtSlice : Nat := 32

def setNth {α} : List α → Nat → α → List α
  | [], _, _ => []
  | _ :: xs, 0, a => a :: xs
  | x :: xs, n+1, a => x :: setNth xs n a

/-- One decoded instruction: opcode, operands, offset of the next instruction. -/
structure Instr where
  op : Op
  a : Nat := 0        -- first operand (index, slot, count, jump distance)
  b : Nat := 0        -- second operand (DEFBLOCK name index, BIND option byte)
  next : Nat
  deriving Repr

/-- Decode the instruction at `pc` the way `vm.run` reads it: the opcode byte, then
its operands (`readUvarint`, `readU16`, `readByte`).  `none` where a read runs off
the end of the code (the Go code panics there) or the opcode is unknown. -/
def decodeAt (p : Prog) (pc : Nat) : Option Instr := do
  let byte ← p.code[pc]?
  let o ← Op.ofByte byte
  match o with
  | .CONST | .GETLOCAL | .SETLOCAL | .GETFIELD | .SETFIELD | .POPN =>
    let (x, nx) ← readUv p (pc + 1)
    pure { op := o, a := x, next := nx }
  | .DEFBLOCK =>
    let (x, n1) ← readUv p (pc + 1)
    let (y, n2) ← readUv p n1
    pure { op := o, a := x, b := y, next := n2 }
  | .JUMP | .JFALSE | .LOOP =>
    let (j, nx) ← readU16 p (pc + 1)
    pure { op := o, a := j, next := nx }
  | .BIND =>
    let (x, n1) ← readUv p (pc + 1)
    let opt ← p.code[n1]?
    pure { op := o, a := x, b := opt.toNat, next := n1 + 1 }
  | _ => pure { op := o, next := pc + 1 }

/-- The selection part of the `BIND` instruction (after the repeated-bind warning):
`idx` is the constant index of the block type, `opt` the packed selector/target byte. -/
def bindStep (p : Prog) (idx opt : Nat) (vm : VM) : Step :=
  match constStr p idx with
  | some bt =>
    let sel := opt % 16
    let tgt := opt / 16 * 16
    let blocks := vm.result.filter (fun b => b.typ = bt)
    if blocks.isEmpty then rtError p vm (str "bind: no blocks of type " ++ bt)
    else if blocks.length ≠ 1 && sel = selOne then
      rtError p vm (str "bind: found " ++ natDec blocks.length ++ str " blocks of type " ++ bt
                    ++ str " but expected just 1")
    else
      let first := blocks.headD default
      let last := blocks.getLastD default
      if tgt = tgtStruct && (sel = selOne || sel = selFirst) then .next { vm with binding := some (.struct first) }
      else if tgt = tgtStruct && sel = selLast then .next { vm with binding := some (.struct last) }
      else if tgt = tgtSlice && sel = selAll then .next { vm with binding := some (.slice blocks) }
      else if tgt = tgtSlice && (sel = selOne || sel = selFirst) then .next { vm with binding := some (.slice [first]) }
      else if tgt = tgtSlice && sel = selLast then .next { vm with binding := some (.slice [last]) }
      else rtError p vm (str "invalid bind target and selector :0x" ++ padLeft 2 32 (hexLower opt))
  | none => .panic vm

/-- Execute a decoded instruction.  `vm.pc` is still the offset of the opcode. -/
def exec (p : Prog) (i : Instr) (vm0 : VM) : Step :=
  -- after the opcode byte has been read
  let vm1 := { vm0 with pc := vm0.pc + 1, opsRead := vm0.opsRead + 1 }
  -- after all operands have been read
  let vm := { vm1 with pc := i.next }
  match i.op with
  | .NOP => .next vm
  | .CONST =>
    match p.consts[i.a]? with
    | some v => push p vm v
    | none => .panic vm
  | .ZERO => push p vm (.int 0)
  | .ONE => push p vm (.int 1)
  | .TRUE => push p vm (.bool true)
  | .FALSE => push p vm (.bool false)
  | .NIL => push p vm .nil
  | .EQ | .LT | .GT | .ADD | .SUB | .MUL | .DIV =>
    match vm.stack, ArOp.ofOp i.op with
    | bv :: av :: rest, some op =>
      match binop op i.op.name av bv with
      | .ok v => .next { vm with stack := v :: rest }
      | .err msg => rtError p vm msg
    | _, _ => .panic vm
  | .NEG =>
    match vm.stack with
    | .int x :: rest => .next { vm with stack := .int (-x) :: rest }
    | .float f :: rest => .next { vm with stack := .float (fBits (-(fOf f))) :: rest }
    | v :: _ => rtError p vm (str "NEG: invalid type: " ++ str (vtype v) ++ str ", expected number")
    | [] => .panic vm
  | .UNPLUS =>
    match vm.stack with
    | v :: _ => if v.isNumber then .next vm
                else rtError p vm (str "UNPLUS: invalid type: " ++ str (vtype v) ++ str ", expected number")
    | [] => .panic vm
  | .NOT =>
    match vm.stack with
    | v :: rest => .next { vm with stack := .bool (isFalsey v) :: rest }
    | [] => .panic vm
  | .JUMP => .next { vm with pc := i.next + i.a }
  | .LOOP => if i.a ≤ i.next then .next { vm with pc := i.next - i.a } else .panic vm
  | .JFALSE =>
    match vm.stack with
    | v :: _ => .next { vm with pc := if isFalsey v then i.next + i.a else i.next }
    | [] => .panic vm
  | .POP =>
    match vm.stack with
    | _ :: rest => .next { vm with stack := rest }
    | [] => .panic vm
  | .POPN =>
    if i.a ≤ vm.stack.length then .next { vm with stack := vm.stack.drop i.a } else .panic vm
  | .PRINT =>
    match vm.stack with
    | v :: rest => .next { vm with stack := rest, out := .print (fmtValue v ++ str "\n") :: vm.out }
    | [] => .panic vm
  | .GETLOCAL =>
    if i.a < vm.stack.length then push p vm (vm.stack.getD (vm.stack.length - 1 - i.a) .nil)
    else .panic vm
  | .SETLOCAL =>
    match vm.stack with
    | top :: _ =>
      if i.a < vm.stack.length then .next { vm with stack := setNth vm.stack (vm.stack.length - 1 - i.a) top }
      else .panic vm
    | [] => .panic vm
  | .DEFBLOCK =>
    if vm.blocks.length = blockStackSize then rtError p vm1 (str "blocks nested too deep")
    else
      match constStr p i.a, constStr p i.b with
      | some t, some n =>
        .next { vm with blocks := .mk t n .nil :: vm.blocks,
                        blockTosMax := max vm.blockTosMax (vm.blocks.length + 1) }
      | _, _ => .panic vm
  | .ENDBLOCK =>
    match vm.blocks with
    | [] => .panic vm
    | [b] => .next { vm with blocks := [], result := vm.result ++ [b] }
    | child :: parent :: rest =>
      let k := child.key
      match parent.fields.get k with
      | .none =>
        .next { vm with blocks := .mk parent.typ parent.name (parent.fields.addChild k child) :: rest }
      | _ => rtError p { vm with blocks := parent :: rest } (str "child " ++ k ++ str " duplicate at parent")
  | .GETFIELD =>
    match constStr p i.a with
    | some name =>
      if vm.blocks.isEmpty then .panic vm else
      match blockGet name vm.blocks with
      | some v => push p vm v
      | none => rtError p vm (str "identifier '" ++ name ++ str "' not resolved as var or field")
    | none => .panic vm
  | .SETFIELD =>
    match constStr p i.a, vm.blocks, vm.stack with
    | some name, top :: rest, v :: _ =>
      match top.fields.get name with
      | .child _ => rtError p vm (str "field " ++ name ++ str " duplicates child block")
      | _ => .next { vm with blocks := .mk top.typ top.name (top.fields.setVal name v) :: rest }
    | _, _, _ => .panic vm
  | .BIND =>
    let warned : Option VM :=
      match vm.binding with
      | some _ =>
        match p.positions[vm1.pc - 1]? with
        | some pos => some { vm with log := (str "WARNING: line " ++ fmtPos p.lfs pos ++
                                str ": repeated bind statement, last one overrides\n") :: vm.log }
        | none => none
      | none => some vm
    match warned with
    | none => .panic vm
    | some vm => bindStep p i.a i.b vm
  | .RET =>
    if vm.stack.isEmpty then .halt vm .ok
    else .halt vm (.internal (str "internal error: non-empty stack on prog end; tos=" ++ natDec vm.stack.length))

/-- The text the trace option writes before an instruction: the stack, then the
disassembled instruction. -/
def traceText (p : Prog) (vm : VM) : Option Bytes :=
  (disasmInstr p vm.pc).map (fun t => printStack vm.stack ++ t.1)

/-- One iteration of the loop in `vm.run`. -/
def vmStep (p : Prog) (trace : Bool) (vm0 : VM) : Step :=
  -- trace output happens before the instruction is read
  let traced : Option VM :=
    if trace then (traceText p vm0).map (fun t => { vm0 with out := .trace t :: vm0.out })
    else some vm0
  match traced with
  | none => .panic vm0
  | some vm =>
  match p.code[vm.pc]? with
  | none => .panic vm
  | some b =>
    match Op.ofByte b with
    | none => .next { vm with pc := vm.pc + 1, opsRead := vm.opsRead + 1 }   -- no case matches: nothing happens
    | some _ =>
      match decodeAt p vm.pc with
      | some i => exec p i vm
      | none => .panic vm

inductive RunRes where
  | done (vm : VM) (h : Halt)
  | panic (vm : VM)
  | timeout (vm : VM)

def vmRun (p : Prog) (trace : Bool) : Nat → VM → RunRes
  | 0, vm => .timeout vm
  | f+1, vm =>
    match vmStep p trace vm with
    | .next vm' => vmRun p trace f vm'
    | .halt vm' e => .done vm' e
    | .panic vm' => .panic vm'

/-- `execute`. -/
def execute (p : Prog) (trace : Bool) (fuel : Nat) : RunRes := vmRun p trace fuel {}

end Bclv
