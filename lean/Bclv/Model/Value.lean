import Bclv.Model.Varint
/-!
# Values and their binary encoding (`value.go`, `encoding.go`)
-/
namespace Bclv

/-- A BCL value.  `int` is Go's 64-bit `int`; a float is its IEEE-754 bit pattern. -/
inductive Value where
  | nil
  | bool (b : Bool)
  | int (i : Int64)
  | float (bits : UInt64)
  | str (s : Bytes)
  deriving DecidableEq, Repr, Inhabited

/-- `valueToBytes`: type code, then the payload. -/
def valueEnc : Value → Bytes
  | .nil => [0]
  | .int i => 1 :: uvEnc i.toUInt64.toNat
  | .float b => 2 :: beBytes 8 b.toNat
  | .str s => 3 :: (uvEnc s.length ++ s)
  | .bool b => [4, if b then 1 else 0]

/-- Outcome of a decoder: value and remaining input, a failure with a message
(input ended early or was rejected), or `panic` where the Go code panics. -/
inductive Dec (α : Type) where
  | ok (a : α) (rest : Bytes)
  | fail (msg : String)
  | panic
  deriving Repr

/-- A decoder over the remaining bytes. -/
abbrev P (α : Type) := Bytes → Dec α

def P.pure {α} (a : α) : P α := fun bs => .ok a bs
def P.bind {α β} (p : P α) (f : α → P β) : P β := fun bs =>
  match p bs with
  | .ok a r => f a r
  | .fail m => .fail m
  | .panic => .panic

instance : Monad P where
  pure := P.pure
  bind := P.bind

/-- Replace the message of a failure (the Go code wraps the error with the section name). -/
def label {α} (msg : String) (p : P α) : P α := fun bs =>
  match p bs with
  | .fail _ => .fail msg
  | r => r

/-- `uvarintFromBuf`. -/
def pUv : P Nat := fun bs =>
  match uvDec bs with
  | some (x, r) => .ok x r
  | none => .fail "unexpected EOF"

/-- `io.ReadFull` of exactly `n` bytes. -/
def pTake (n : Nat) : P Bytes := fun bs =>
  if bs.length < n then .fail "unexpected EOF" else .ok (bs.take n) (bs.drop n)

/-- `valueFromBuf`. -/
def pValue : P Value := fun bs =>
  match bs with
  | [] => .fail "EOF"
  | c :: rest =>
    if c = 0 then .ok .nil rest
    else if c = 1 then (do let x ← pUv; pure (Value.int (UInt64.ofNat x).toInt64)) rest
    else if c = 2 then (do let b ← pTake 8; pure (Value.float (UInt64.ofNat (beVal b)))) rest
    else if c = 3 then (do let k ← pUv; let s ← pTake k; pure (Value.str s)) rest
    else if c = 4 then (do let b ← pTake 1; pure (Value.bool (b != [0]))) rest
    else .panic

end Bclv
