import Bclv.Model.Varint
/-!
# Values and their binary encoding (`value.go`, `encoding.go`)
-/
namespace Bclv

/-- A BCL value.  `int` is Go's 64-bit `int`; a float is its IEEE-754 bit pattern. -/
inductive Value where
  | nil
  | bool (b : Bool)
  | int (i : Int64)
  | float (bits : UInt64)
  | str (s : Bytes)
  deriving DecidableEq, Repr, Inhabited

/-- `valueToBytes`: type code, then the payload. -/
def valueEnc : Value → Bytes
  | .nil => [0]
  | .int i => 1 :: uvEnc i.toUInt64.toNat
  | .float b => 2 :: beBytes 8 b.toNat
  | .str s => 3 :: (uvEnc s.length ++ s)
  | .bool b => [4, if b then 1 else 0]

/-- Outcome of decoding one section. -/
inductive Dec (α : Type) where
  | ok (a : α) (rest : Bytes)
  | short            -- input ended early (`io.ErrUnexpectedEOF` / `io.EOF`)
  | panic            -- the Go code panics (unknown type code)
  deriving Repr

/-- `valueFromBuf`. -/
def valueDec : Bytes → Dec Value
  | [] => .short
  | c :: rest =>
    if c = 0 then .ok .nil rest
    else if c = 1 then
      match uvDec rest with
      | some (x, r) => .ok (.int (UInt64.ofNat x).toInt64) r
      | none => .short
    else if c = 2 then
      if rest.length < 8 then .short
      else .ok (.float (UInt64.ofNat (beVal (rest.take 8)))) (rest.drop 8)
    else if c = 3 then
      match uvDec rest with
      | some (k, r) => if r.length < k then .short else .ok (.str (r.take k)) (r.drop k)
      | none => .short
    else if c = 4 then
      match rest with
      | b :: r => .ok (.bool (b != 0)) r
      | [] => .short
    else .panic

end Bclv
