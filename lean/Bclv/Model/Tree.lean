import Bclv.Model.Value
/-!
# Resolved syntax trees and their compilation to bytecode

The parser model returns a resolved tree: identifiers carry the slot or constant
index the parser chose, and every node carries the source offset that the Go parser
attaches to the bytes it emits for it (`p.prev.pos` at the time of emission).
`compile` is the structural emission; `compile ∘ parse` is what is compared byte for
byte with `Prog.Dump` of the real compiler.
-/
namespace Bclv

/-- Opcodes in the order of `opcode.go` (`toByte` is the Go value). -/
inductive Op where
  | NOP | RET | PRINT | SETLOCAL | GETLOCAL | DEFBLOCK | ENDBLOCK | SETFIELD | GETFIELD
  | CONST | NIL | ZERO | ONE | TRUE | FALSE | NOT | EQ | LT | GT
  | ADD | SUB | MUL | DIV | NEG | UNPLUS | JUMP | LOOP | JFALSE | POP | POPN | BIND
  deriving DecidableEq, Repr, Inhabited

def Op.toByte : Op → UInt8
  | .NOP => 0 | .RET => 1 | .PRINT => 2 | .SETLOCAL => 3 | .GETLOCAL => 4 | .DEFBLOCK => 5
  | .ENDBLOCK => 6 | .SETFIELD => 7 | .GETFIELD => 8 | .CONST => 9 | .NIL => 10 | .ZERO => 11
  | .ONE => 12 | .TRUE => 13 | .FALSE => 14 | .NOT => 15 | .EQ => 16 | .LT => 17 | .GT => 18
  | .ADD => 19 | .SUB => 20 | .MUL => 21 | .DIV => 22 | .NEG => 23 | .UNPLUS => 24 | .JUMP => 25
  | .LOOP => 26 | .JFALSE => 27 | .POP => 28 | .POPN => 29 | .BIND => 30

def Op.ofByte (b : UInt8) : Option Op :=
  [Op.NOP, .RET, .PRINT, .SETLOCAL, .GETLOCAL, .DEFBLOCK, .ENDBLOCK, .SETFIELD, .GETFIELD,
   .CONST, .NIL, .ZERO, .ONE, .TRUE, .FALSE, .NOT, .EQ, .LT, .GT, .ADD, .SUB, .MUL, .DIV,
   .NEG, .UNPLUS, .JUMP, .LOOP, .JFALSE, .POP, .POPN, .BIND][b.toNat]?

/-- Names as printed by the generated `opcode.String()`. -/
def Op.name : Op → String
  | .NOP => "NOP" | .RET => "RET" | .PRINT => "PRINT" | .SETLOCAL => "SETLOCAL"
  | .GETLOCAL => "GETLOCAL" | .DEFBLOCK => "DEFBLOCK" | .ENDBLOCK => "ENDBLOCK"
  | .SETFIELD => "SETFIELD" | .GETFIELD => "GETFIELD" | .CONST => "CONST" | .NIL => "NIL"
  | .ZERO => "ZERO" | .ONE => "ONE" | .TRUE => "TRUE" | .FALSE => "FALSE" | .NOT => "NOT"
  | .EQ => "EQ" | .LT => "LT" | .GT => "GT" | .ADD => "ADD" | .SUB => "SUB" | .MUL => "MUL"
  | .DIV => "DIV" | .NEG => "NEG" | .UNPLUS => "UNPLUS" | .JUMP => "JUMP" | .LOOP => "LOOP"
  | .JFALSE => "JFALSE" | .POP => "POP" | .POPN => "POPN" | .BIND => "BIND"

inductive Lit where | zero | one | tru | fls | nil
  deriving DecidableEq, Repr
inductive UnOp where | neg | plus | not
  deriving DecidableEq, Repr
inductive BinOp where | eq | ne | lt | le | gt | ge | add | sub | mul | div
  deriving DecidableEq, Repr

/-- Resolved expressions.  `pos` is the offset attached to the node's own bytes. -/
inductive Expr where
  | lit (l : Lit) (pos : Nat)
  | const (idx : Nat) (pos : Nat)
  | getLocal (slot : Nat) (pos : Nat)
  | getField (idx : Nat) (pos : Nat)
  | setLocal (slot : Nat) (e : Expr) (pos : Nat)
  | setField (idx : Nat) (e : Expr) (pos : Nat)
  | un (op : UnOp) (e : Expr) (pos : Nat)
  | bin (op : BinOp) (a b : Expr) (pos : Nat)
  | and (a b : Expr) (pos : Nat)
  | or (a b : Expr) (pos : Nat)
  | bad                       -- a place where the Go parser reported an error and emitted nothing
  deriving Repr, Inhabited

mutual
inductive Stmt where
  | var (init : Option Expr) (nilPos : Nat)
  | print (e : Expr) (pos : Nat)
  | eval (e : Expr) (pos : Nat)
  | block (typeIdx nameIdx : Nat) (openPos : Nat) (body : Stmts) (npop : Nat) (closePos : Nat)
  | bind (typeIdx : Nat) (opt : UInt8) (pos : Nat)
  | bad
inductive Stmts where
  | nil
  | cons (s : Stmt) (rest : Stmts)
end

structure Program where
  body : Stmts
  npop : Nat        -- locals alive at the end (popped before RET)
  endPos : Nat      -- offset of the end-of-input token

/-- Code with the source offset of every byte. -/
abbrev PCode := List (UInt8 × Nat)

def atPos (pos : Nat) (bs : Bytes) : PCode := bs.map (·, pos)
def opAt (o : Op) (pos : Nat) : PCode := [(o.toByte, pos)]
def opArg (o : Op) (arg : Nat) (pos : Nat) : PCode := atPos pos (o.toByte :: uvEnc arg)
def jumpAt (o : Op) (dist : Nat) (pos : Nat) : PCode :=
  atPos pos [o.toByte, UInt8.ofNat (dist / 256), UInt8.ofNat (dist % 256)]

/-- `popN`. -/
def popNCode (n : Nat) (pos : Nat) : PCode :=
  if n = 0 then [] else if n = 1 then opAt .POP pos else opArg .POPN n pos

def Lit.op : Lit → Op
  | .zero => .ZERO | .one => .ONE | .tru => .TRUE | .fls => .FALSE | .nil => .NIL
def UnOp.op : UnOp → Op
  | .neg => .NEG | .plus => .UNPLUS | .not => .NOT
/-- The opcodes `binary` emits for each operator. -/
def BinOp.ops : BinOp → List Op
  | .eq => [.EQ] | .ne => [.EQ, .NOT] | .lt => [.LT] | .le => [.GT, .NOT] | .gt => [.GT]
  | .ge => [.LT, .NOT] | .add => [.ADD] | .sub => [.SUB] | .mul => [.MUL] | .div => [.DIV]

/-- Number of bytes `compileE` emits (computed without building the code). -/
def sizeE : Expr → Nat
  | .lit _ _ => 1
  | .const idx _ => 1 + (uvEnc idx).length
  | .getLocal slot _ => 1 + (uvEnc slot).length
  | .getField idx _ => 1 + (uvEnc idx).length
  | .setLocal slot e _ => sizeE e + (1 + (uvEnc slot).length)
  | .setField idx e _ => sizeE e + (1 + (uvEnc idx).length)
  | .un _ e _ => sizeE e + 1
  | .bin op a b _ => sizeE a + (sizeE b + op.ops.length)
  | .and a b _ => sizeE a + (3 + (1 + sizeE b))
  | .or a b _ => sizeE a + (3 + (3 + (1 + sizeE b)))
  | .bad => 0

def compileE : Expr → PCode
  | .lit l pos => opAt l.op pos
  | .const idx pos => opArg .CONST idx pos
  | .getLocal slot pos => opArg .GETLOCAL slot pos
  | .getField idx pos => opArg .GETFIELD idx pos
  | .setLocal slot e pos => compileE e ++ opArg .SETLOCAL slot pos
  | .setField idx e pos => compileE e ++ opArg .SETFIELD idx pos
  | .un op e pos => compileE e ++ opAt op.op pos
  | .bin op a b pos => compileE a ++ (compileE b ++ (op.ops.map (fun o => (o.toByte, pos))))
  | .and a b pos =>
    compileE a ++ (jumpAt .JFALSE (1 + sizeE b) pos ++ (opAt .POP pos ++ compileE b))
  | .or a b pos =>
    compileE a ++ (jumpAt .JFALSE 3 pos ++ (jumpAt .JUMP (1 + sizeE b) pos ++ (opAt .POP pos ++ compileE b)))
  | .bad => []

mutual
def compileS : Stmt → PCode
  | .var (some e) _ => compileE e
  | .var none pos => opAt .NIL pos
  | .print e pos => compileE e ++ opAt .PRINT pos
  | .eval e pos => compileE e ++ opAt .POP pos
  | .block ti ni openPos body npop closePos =>
    atPos openPos (Op.DEFBLOCK.toByte :: (uvEnc ti ++ uvEnc ni))
      ++ compileSs body ++ popNCode npop closePos ++ opAt .ENDBLOCK closePos
  | .bind ti opt pos => atPos pos (Op.BIND.toByte :: (uvEnc ti ++ [opt]))
  | .bad => []
def compileSs : Stmts → PCode
  | .nil => []
  | .cons s rest => compileS s ++ compileSs rest
end

def compileP (p : Program) : PCode :=
  compileSs p.body ++ popNCode p.npop p.endPos ++ opAt .RET p.endPos

end Bclv

namespace Bclv

/-! ## accumulator versions (linear time), proved equal to the definitions above in
`Bclv/Proofs/Compile.lean`; the driver runs these. -/

def compileEAcc : Expr → PCode → PCode
  | .lit l pos, acc => opAt l.op pos ++ acc
  | .const idx pos, acc => opArg .CONST idx pos ++ acc
  | .getLocal slot pos, acc => opArg .GETLOCAL slot pos ++ acc
  | .getField idx pos, acc => opArg .GETFIELD idx pos ++ acc
  | .setLocal slot e pos, acc => compileEAcc e (opArg .SETLOCAL slot pos ++ acc)
  | .setField idx e pos, acc => compileEAcc e (opArg .SETFIELD idx pos ++ acc)
  | .un op e pos, acc => compileEAcc e (opAt op.op pos ++ acc)
  | .bin op a b pos, acc => compileEAcc a (compileEAcc b ((op.ops.map (fun o => (o.toByte, pos))) ++ acc))
  | .and a b pos, acc =>
    compileEAcc a (jumpAt .JFALSE (1 + sizeE b) pos ++ (opAt .POP pos ++ compileEAcc b acc))
  | .or a b pos, acc =>
    compileEAcc a (jumpAt .JFALSE 3 pos ++ (jumpAt .JUMP (1 + sizeE b) pos ++ (opAt .POP pos ++ compileEAcc b acc)))
  | .bad, acc => acc

mutual
def compileSAcc : Stmt → PCode → PCode
  | .var (some e) _, acc => compileEAcc e acc
  | .var none pos, acc => opAt .NIL pos ++ acc
  | .print e pos, acc => compileEAcc e (opAt .PRINT pos ++ acc)
  | .eval e pos, acc => compileEAcc e (opAt .POP pos ++ acc)
  | .block ti ni openPos body npop closePos, acc =>
    atPos openPos (Op.DEFBLOCK.toByte :: (uvEnc ti ++ uvEnc ni))
      ++ compileSsAcc body (popNCode npop closePos ++ (opAt .ENDBLOCK closePos ++ acc))
  | .bind ti opt pos, acc => atPos pos (Op.BIND.toByte :: (uvEnc ti ++ [opt])) ++ acc
  | .bad, acc => acc
def compileSsAcc : Stmts → PCode → PCode
  | .nil, acc => acc
  | .cons s rest, acc => compileSAcc s (compileSsAcc rest acc)
end

def compilePFast (p : Program) : PCode :=
  compileSsAcc p.body (popNCode p.npop p.endPos ++ opAt .RET p.endPos)

end Bclv
