import Bclv.Model.Prog
/-!
# `Prog.Load` over a `bufio.Reader` fed by successive reads (`prog.go`, `encoding.go`)

`Model/Prog.lean` defines `load` on the concatenation of everything the source hands
over.  Here the same function is written the way the Go code is: over the state of a
`bufio.Reader` of 4096 bytes whose underlying reader delivers the input in pieces, with
the calls the Go code makes — `io.ReadFull`, `Peek(9)`/`Peek(8)` followed by `Discard`.
`Proofs/Bufio.lean` proves `loadR chunks = load chunks.flatten`.

The underlying reader is a list of pieces: a `Read(p)` returns the first piece, or its
first `len(p)` bytes (the remainder stays in front); an empty piece is a read of zero
bytes with a nil error; the empty list is `(0, io.EOF)`, again and again.

Ported from the standard library (Go 1.26 `bufio`, `io`), for the calls `Load` makes:
* `fill` reads once into the free part of the buffer, retrying up to 100 times while
  reads return nothing, then `io.ErrNoProgress`;
* `Peek(n)` (`n ≤ 4096`) fills until `n` bytes are buffered, the buffer is full or a read
  fails;
* `Discard(n)` with `n` at most what `Peek` returned drops buffered bytes;
* `Read(p)` hands out buffered bytes if there are any; otherwise it performs *one* read
  — directly into `p` when `len(p) ≥ 4096`, else into the buffer — and a read of zero
  bytes makes it return `(0, nil)`;
* `io.ReadFull` calls `Read` until the slice is full or an error comes back.
-/
namespace Bclv.Buf
open Bclv

def rdCap : Nat := 4096
def maxEmptyReads : Nat := 100

/-- State of the buffered reader: the unread part of the buffer and what the underlying
reader has yet to deliver. -/
structure BufRd where
  buf : Bytes
  src : List Bytes
  deriving Repr

/-- Everything still to be read. -/
def BufRd.rest (rd : BufRd) : Bytes := rd.buf ++ rd.src.flatten

inductive RDec (α : Type) where
  | ok (a : α) (rd : BufRd)
  | fail (msg : String)
  | panic
  deriving Repr

abbrev R (α : Type) := BufRd → RDec α

def R.pure {α} (a : α) : R α := fun rd => .ok a rd
def R.bind {α β} (r : R α) (f : α → R β) : R β := fun rd =>
  match r rd with
  | .ok a rd' => f a rd'
  | .fail m => .fail m
  | .panic => .panic

instance : Monad R where
  pure := R.pure
  bind := R.bind

def rlabel {α} (msg : String) (r : R α) : R α := fun rd =>
  match r rd with
  | .fail _ => .fail msg
  | x => x

inductive FillSt where
  | ok | eof | noProgress
  deriving DecidableEq, Repr

/-- The loop of `Peek(n)`: `k` counts the reads of zero bytes since the last read that
delivered something (each `fill` gives up after `maxEmptyReads` of them). -/
def peekLoop (n : Nat) : (k : Nat) → (buf : Bytes) → (src : List Bytes) → Bytes × List Bytes × FillSt
  | _, buf, [] => (buf, [], if n ≤ buf.length then .ok else .eof)
  | k, buf, c :: rest =>
    if n ≤ buf.length then (buf, c :: rest, .ok)
    else if c = [] then
      if maxEmptyReads ≤ k + 1 then (buf, rest, .noProgress) else peekLoop n (k + 1) buf rest
    else
      let free := rdCap - buf.length
      if c.length ≤ free then peekLoop n 0 (buf ++ c) rest
      else (buf ++ c.take free, c.drop free :: rest, .ok)

/-- `uvarintFromBuf`: `Peek(9)`, the length check, `Decode`, `Discard`. -/
def rUv : R Nat := fun rd =>
  match peekLoop 9 0 rd.buf rd.src with
  | (b, s, st) =>
    if st = .noProgress then .fail "multiple Read calls return no data or error"
    else
      let p := b.take 9
      match uvDec p with
      | none => .fail "unexpected EOF"
      | some (x, r) => .ok x ⟨b.drop (p.length - r.length), s⟩

/-- `Peek(n)`, fewer than `n` bytes is `io.ErrUnexpectedEOF`, `Discard(n)` (the float case
of `valueFromBuf`). -/
def rPeekTake (n : Nat) : R Bytes := fun rd =>
  match peekLoop n 0 rd.buf rd.src with
  | (b, s, _) =>
    if b.length < n then .fail "unexpected EOF" else .ok (b.take n) ⟨b.drop n, s⟩

/-- `io.ReadFull` once the buffer is empty: `need > 0` bytes are still wanted, `acc` has
been collected. -/
def rfSrc : (need : Nat) → (acc : Bytes) → List Bytes → RDec Bytes
  | _, _, [] => .fail "unexpected EOF"
  | need, acc, c :: rest =>
    if rdCap ≤ need then
      -- large read, empty buffer: straight into the caller's slice
      if c.length < need then rfSrc (need - c.length) (acc ++ c) rest
      else .ok (acc ++ c.take need) ⟨[], if c.length = need then rest else c.drop need :: rest⟩
    else
      -- one read into the buffer, then copy
      let b := c.take rdCap
      if b.length < need then rfSrc (need - b.length) (acc ++ b) rest
      else .ok (acc ++ b.take need) ⟨b.drop need, if c.length ≤ rdCap then rest else c.drop rdCap :: rest⟩

/-- `io.ReadFull(r, p)` with `len(p) = m`. -/
def rReadFull (m : Nat) : R Bytes := fun rd =>
  if m ≤ rd.buf.length then .ok (rd.buf.take m) ⟨rd.buf.drop m, rd.src⟩
  else rfSrc (m - rd.buf.length) rd.buf rd.src

/-- `valueFromBuf`. -/
def rValue : R Value := fun rd =>
  match rReadFull 1 rd with
  | .fail _ => .fail "EOF"
  | .panic => .panic
  | .ok [c] rd' =>
    if c = 0 then .ok .nil rd'
    else if c = 1 then (do let x ← rUv; pure (Value.int (UInt64.ofNat x).toInt64)) rd'
    else if c = 2 then (do let b ← rPeekTake 8; pure (Value.float (UInt64.ofNat (beVal b)))) rd'
    else if c = 3 then (do let k ← rUv; let s ← rReadFull k; pure (Value.str s)) rd'
    else if c = 4 then (do let b ← rReadFull 1; pure (Value.bool (b != [0]))) rd'
    else .panic
  | .ok _ _ => .panic

def rMany {α} (what : String) (r : R α) : (n : Nat) → (i : Nat) → R (List α)
  | 0, _ => pure []
  | n+1, i => do
    let a ← rlabel s!"{what}[{i}]" r
    let as ← rMany what r n (i+1)
    pure (a :: as)

/-- Magic and version: two `io.ReadFull` of two bytes. -/
def rHeader : R Unit := fun rd =>
  match rReadFull 2 rd with
  | .ok m rd1 =>
    if m ≠ magic then .fail "invalid magic header"
    else
      match rReadFull 2 rd1 with
      | .ok [ma, mi] rd2 =>
        if ma ≠ verMajor then .fail "invalid bcode major version"
        else if mi > verMinor then .fail "invalid bcode minor version"
        else .ok () rd2
      | .ok _ _ => .panic
      | _ => .fail "missing bcode major/minor version"
  | _ => .fail "missing magic header"

/-- The body of `Prog.Load` over the buffered reader.  (The final one-byte `Read`, whose
only effect is to pass on an error other than `io.EOF`, has no counterpart here: the
pieces carry no errors.) -/
def rProg : R Prog := do
  rHeader
  let n ← rlabel "name size" rUv
  let name ← rlabel "name too short" (rReadFull n)
  let n ← rlabel "code size" rUv
  let code ← rlabel "code too short" (rReadFull n)
  let n ← rlabel "constants size" rUv
  let consts ← rMany "constant" rValue n 0
  let n ← rlabel "positions size" rUv
  let positions ← rMany "position" rUv n 0
  let n ← rlabel "lfs size" rUv
  let lfs ← rMany "lfs" rUv n 0
  pure { name, code, consts, positions, lfs }

/-- `Prog.Load` reading from a source that hands over `chunks`, one piece per read. -/
def loadR (chunks : List Bytes) : LoadRes :=
  match rProg ⟨[], chunks⟩ with
  | .ok p _ => .ok p
  | .fail m => .err m
  | .panic => .panic

end Bclv.Buf
