import Bclv.Basic
/-!
# Tokens (`token.go`)
-/
namespace Bclv

/-- Token types in the order of the Go enumeration (`toNat` is the Go value). -/
inductive TokType where
  | FAIL | EOF | ERR
  | INT | FLOAT | STR | IDENT
  | VAR | DEF | EVAL | PRINT | BIND | TRUE | FALSE | NIL
  | EQ | LCURLY | RCURLY | LPAREN | RPAREN
  | OR | AND | NOT
  | EE | BE | LT | LE | GT | GE | PLUS | MINUS | STAR | SLASH
  | COLON | ARROW | SEMICOLON
  deriving DecidableEq, Repr, Inhabited

def TokType.toNat : TokType → Nat
  | .FAIL => 0 | .EOF => 1 | .ERR => 2 | .INT => 3 | .FLOAT => 4 | .STR => 5 | .IDENT => 6
  | .VAR => 7 | .DEF => 8 | .EVAL => 9 | .PRINT => 10 | .BIND => 11 | .TRUE => 12 | .FALSE => 13
  | .NIL => 14 | .EQ => 15 | .LCURLY => 16 | .RCURLY => 17 | .LPAREN => 18 | .RPAREN => 19
  | .OR => 20 | .AND => 21 | .NOT => 22 | .EE => 23 | .BE => 24 | .LT => 25 | .LE => 26
  | .GT => 27 | .GE => 28 | .PLUS => 29 | .MINUS => 30 | .STAR => 31 | .SLASH => 32
  | .COLON => 33 | .ARROW => 34 | .SEMICOLON => 35

/-- Names as printed by the generated `tokenType.String()`. -/
def TokType.name : TokType → String
  | .FAIL => "tFAIL" | .EOF => "tEOF" | .ERR => "tERR" | .INT => "tINT" | .FLOAT => "tFLOAT"
  | .STR => "tSTR" | .IDENT => "tIDENT" | .VAR => "tVAR" | .DEF => "tDEF" | .EVAL => "tEVAL"
  | .PRINT => "tPRINT" | .BIND => "tBIND" | .TRUE => "tTRUE" | .FALSE => "tFALSE" | .NIL => "tNIL"
  | .EQ => "tEQ" | .LCURLY => "tLCURLY" | .RCURLY => "tRCURLY" | .LPAREN => "tLPAREN"
  | .RPAREN => "tRPAREN" | .OR => "tOR" | .AND => "tAND" | .NOT => "tNOT" | .EE => "tEE"
  | .BE => "tBE" | .LT => "tLT" | .LE => "tLE" | .GT => "tGT" | .GE => "tGE" | .PLUS => "tPLUS"
  | .MINUS => "tMINUS" | .STAR => "tSTAR" | .SLASH => "tSLASH" | .COLON => "tCOLON"
  | .ARROW => "tARROW" | .SEMICOLON => "tSEMICOLON"

/-- Finalizers: `typ <= tEOF`. -/
def TokType.isEnd (t : TokType) : Bool := t.toNat ≤ 1

structure Token where
  typ : TokType
  val : Bytes := []
  err : Bytes := []     -- message of a `tERR` token
  pos : Nat := 0
  deriving DecidableEq, Repr, Inhabited

end Bclv
