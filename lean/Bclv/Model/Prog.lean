import Bclv.Model.Value
/-!
# Programs, `Dump` and `Load` (`prog.go`)

`Load` is modelled on the concatenation of the reads: after the `fix:` commits it
uses only `io.ReadFull`, `Peek` of at most 9 bytes and `Discard`, whose results do
not depend on how the underlying reader hands the bytes over (that independence is
checked against the implementation by the read-partition stream, not proved).
-/
namespace Bclv

structure Prog where
  name : Bytes
  code : Bytes
  consts : List Value
  positions : List Nat
  lfs : List Nat
  deriving DecidableEq, Repr, Inhabited

def magic : Bytes := [0xFC, 0x6C]
def verMajor : UInt8 := 1
def verMinor : UInt8 := 1

def encList {α} (enc : α → Bytes) : List α → Bytes
  | [] => []
  | a :: as => enc a ++ encList enc as

/-- `Prog.Dump`. -/
def dump (p : Prog) : Bytes :=
  magic ++ [verMajor, verMinor]
  ++ (uvEnc p.name.length ++ p.name)
  ++ (uvEnc p.code.length ++ p.code)
  ++ (uvEnc p.consts.length ++ encList valueEnc p.consts)
  ++ (uvEnc p.positions.length ++ encList uvEnc p.positions)
  ++ (uvEnc p.lfs.length ++ encList uvEnc p.lfs)

/-- Result of `Prog.Load`; errors are identified by the leading part of the Go
message (up to the first colon). -/
inductive LoadRes where
  | ok (p : Prog)
  | err (msg : String)
  | panic
  deriving Repr

/-- Decode `n` items; the index of the failing item is reported. -/
def decN {α} (dec : Bytes → Dec α) : (n : Nat) → (i : Nat) → Bytes → List α → Except (Nat × Bool) (List α × Bytes)
  | 0, _, bs, acc => .ok (acc.reverse, bs)
  | n+1, i, bs, acc =>
    match dec bs with
    | .ok a r => decN dec n (i+1) r (a :: acc)
    | .short => .error (i, false)
    | .panic => .error (i, true)

def uvDecD (bs : Bytes) : Dec Nat :=
  match uvDec bs with
  | some (x, r) => .ok x r
  | none => .short

/-- `Prog.Load` on the concatenated input. -/
def load (bs : Bytes) : LoadRes :=
  if bs.length < 2 then .err "missing magic header"
  else if bs.take 2 ≠ magic then .err "invalid magic header"
  else
    let bs := bs.drop 2
    if bs.length < 2 then .err "missing bcode major/minor version" else
    match bs with
    | ma :: mi :: bs =>
      if ma ≠ verMajor then .err "invalid bcode major version"
      else if mi > verMinor then .err "invalid bcode minor version"
      else
        match uvDec bs with
        | none => .err "name size"
        | some (m, bs) =>
          if bs.length < m then .err "name too short" else
          let name := bs.take m
          let bs := bs.drop m
          match uvDec bs with
          | none => .err "code size"
          | some (m, bs) =>
            if bs.length < m then .err "code too short" else
            let code := bs.take m
            let bs := bs.drop m
            match uvDec bs with
            | none => .err "constants size"
            | some (m, bs) =>
              match decN valueDec m 0 bs [] with
              | .error (i, false) => .err s!"constant[{i}]"
              | .error (_, true) => .panic
              | .ok (consts, bs) =>
                match uvDec bs with
                | none => .err "positions size"
                | some (m, bs) =>
                  match decN uvDecD m 0 bs [] with
                  | .error (i, _) => .err s!"position[{i}]"
                  | .ok (positions, bs) =>
                    match uvDec bs with
                    | none => .err "lfs size"
                    | some (m, bs) =>
                      match decN uvDecD m 0 bs [] with
                      | .error (i, _) => .err s!"lfs[{i}]"
                      | .ok (lfs, _) => .ok { name, code, consts, positions, lfs }
    | _ => .err "missing bcode major/minor version"

end Bclv
