import Bclv.Model.Value
/-!
# Programs, `Dump` and `Load` (`prog.go`)

`Load` is modelled on the concatenation of the reads: after the `fix:` commits it
uses only `io.ReadFull`, `Peek` of at most 9 bytes and `Discard`, whose results do
not depend on how the underlying reader hands the bytes over (that independence is
checked against the implementation by the read-partition stream, not proved).
-/
namespace Bclv

structure Prog where
  name : Bytes
  code : Bytes
  consts : List Value
  positions : List Nat
  lfs : List Nat
  deriving DecidableEq, Repr, Inhabited

def magic : Bytes := [0xFC, 0x6C]
def verMajor : UInt8 := 1
def verMinor : UInt8 := 1

def encList {α} (enc : α → Bytes) : List α → Bytes
  | [] => []
  | a :: as => enc a ++ encList enc as

/-- `Prog.Dump`. -/
def dump (p : Prog) : Bytes :=
  magic ++ [verMajor, verMinor]
  ++ (uvEnc p.name.length ++ p.name)
  ++ (uvEnc p.code.length ++ p.code)
  ++ (uvEnc p.consts.length ++ encList valueEnc p.consts)
  ++ (uvEnc p.positions.length ++ encList uvEnc p.positions)
  ++ (uvEnc p.lfs.length ++ encList uvEnc p.lfs)

/-- Result of `Prog.Load`; errors are identified by the leading part of the Go
message (up to the first colon). -/
inductive LoadRes where
  | ok (p : Prog)
  | err (msg : String)
  | panic
  deriving Repr

/-- Decode `n` items; a failure names the index of the failing item. -/
def pMany {α} (what : String) (p : P α) : (n : Nat) → (i : Nat) → P (List α)
  | 0, _ => pure []
  | n+1, i => do
    let a ← label s!"{what}[{i}]" p
    let as ← pMany what p n (i+1)
    pure (a :: as)

/-- Magic and version. -/
def pHeader : P Unit := fun bs =>
  if bs.length < 2 then .fail "missing magic header"
  else if bs.take 2 ≠ magic then .fail "invalid magic header"
  else
    match bs.drop 2 with
    | ma :: mi :: r =>
      if ma ≠ verMajor then .fail "invalid bcode major version"
      else if mi > verMinor then .fail "invalid bcode minor version"
      else .ok () r
    | _ => .fail "missing bcode major/minor version"

/-- The body of `Prog.Load`. -/
def pProg : P Prog := do
  pHeader
  let n ← label "name size" pUv
  let name ← label "name too short" (pTake n)
  let n ← label "code size" pUv
  let code ← label "code too short" (pTake n)
  let n ← label "constants size" pUv
  let consts ← pMany "constant" pValue n 0
  let n ← label "positions size" pUv
  let positions ← pMany "position" pUv n 0
  let n ← label "lfs size" pUv
  let lfs ← pMany "lfs" pUv n 0
  pure { name, code, consts, positions, lfs }

/-- `Prog.Load` on the concatenated input (trailing bytes are accepted, as in Go). -/
def load (bs : Bytes) : LoadRes :=
  match pProg bs with
  | .ok p _ => .ok p
  | .fail m => .err m
  | .panic => .panic

end Bclv
