import Bclv.Basic
/-!
# UTF-8 decoding (port of Go `unicode/utf8`: `DecodeRuneInString`, `FullRuneInString`,
`AppendRune`).  Standard library, modelled and validated by correspondence only.
-/
namespace Bclv

abbrev Rune := Int
def eofR : Rune := -1
def runeError : Rune := 0xFFFD

/-- (size, lo, hi) of the second byte for a leading byte, or `none` for ASCII/invalid. -/
def utf8First (b : UInt8) : Option (Nat × UInt8 × UInt8) :=
  if b < 0xC2 then none
  else if b ≤ 0xDF then some (2, 0x80, 0xBF)
  else if b = 0xE0 then some (3, 0xA0, 0xBF)
  else if b ≤ 0xEC then some (3, 0x80, 0xBF)
  else if b = 0xED then some (3, 0x80, 0x9F)
  else if b ≤ 0xEF then some (3, 0x80, 0xBF)
  else if b = 0xF0 then some (4, 0x90, 0xBF)
  else if b ≤ 0xF3 then some (4, 0x80, 0xBF)
  else if b = 0xF4 then some (4, 0x80, 0x8F)
  else none

def isCont (b : UInt8) : Bool := 0x80 ≤ b && b ≤ 0xBF

/-- `utf8.DecodeRuneInString`: rune and width; width 0 only for empty input. -/
def decodeRune : Bytes → Rune × Nat
  | [] => (runeError, 0)
  | b0 :: rest =>
    match utf8First b0 with
    | none => if b0 < 0x80 then (b0.toNat, 1) else (runeError, 1)
    | some (sz, lo, hi) =>
      match rest with
      | [] => (runeError, 1)
      | b1 :: r1 =>
        if rest.length + 1 < sz then (runeError, 1)
        else if b1 < lo || hi < b1 then (runeError, 1)
        else if sz = 2 then (((b0.toNat % 32) * 64 + b1.toNat % 64 : Nat), 2)
        else match r1 with
          | [] => (runeError, 1)
          | b2 :: r2 =>
            if !isCont b2 then (runeError, 1)
            else if sz = 3 then (((b0.toNat % 16) * 4096 + (b1.toNat % 64) * 64 + b2.toNat % 64 : Nat), 3)
            else match r2 with
              | [] => (runeError, 1)
              | b3 :: _ =>
                if !isCont b3 then (runeError, 1)
                else (((b0.toNat % 8) * 262144 + (b1.toNat % 64) * 4096 + (b2.toNat % 64) * 64 + b3.toNat % 64 : Nat), 4)

/-- `utf8.FullRuneInString`. -/
def fullRune : Bytes → Bool
  | [] => false
  | b0 :: rest =>
    match utf8First b0 with
    | none => true
    | some (sz, lo, hi) =>
      if rest.length + 1 ≥ sz then true
      else match rest with
        | [] => false
        | b1 :: r1 =>
          if b1 < lo || hi < b1 then true
          else match r1 with
            | [] => false
            | b2 :: _ => !isCont b2

/-- `utf8.AppendRune` for a valid rune (invalid ones encode U+FFFD). -/
def encodeRune (r : Nat) : Bytes :=
  if r < 0x80 then [UInt8.ofNat r]
  else if r < 0x800 then [UInt8.ofNat (0xC0 + r / 64), UInt8.ofNat (0x80 + r % 64)]
  else if (0xD800 ≤ r && r ≤ 0xDFFF) || r > 0x10FFFF then [0xEF, 0xBF, 0xBD]
  else if r < 0x10000 then
    [UInt8.ofNat (0xE0 + r / 4096), UInt8.ofNat (0x80 + r / 64 % 64), UInt8.ofNat (0x80 + r % 64)]
  else
    [UInt8.ofNat (0xF0 + r / 262144), UInt8.ofNat (0x80 + r / 4096 % 64),
     UInt8.ofNat (0x80 + r / 64 % 64), UInt8.ofNat (0x80 + r % 64)]

end Bclv
