import Bclv.Model.Prog
/-!
# `Prog.Dump` through a `bufio.Writer` and a scratch buffer (`prog.go`)

`Model/Prog.lean` defines `dump` as the bytes of the file.  Here `Dump` is written the
way the Go code is: a sequence of `Write` calls on a `bufio.Writer` of 4096 bytes — header,
then for each section the length and the items, each item first encoded into the scratch
slice `p` (96 bytes, grown to `10 + len(s)` before a string constant that needs it) — and a
final `Flush`.  The result is the list of `Write` calls the destination receives.
`Proofs/DumpW.lean` proves that their concatenation is `dump p`, that the scratch slice is
always large enough (the Go code would panic with an index out of range otherwise) and that
no write to the destination is empty.

Ported from Go 1.26 `bufio.Writer.Write`: while `len(p)` exceeds the free space, either
write `p` straight to the destination (buffer empty) or fill the buffer up and flush it;
then copy the rest into the buffer.
-/
namespace Bclv.Buf
open Bclv

def wrCap : Nat := 4096
def scratchSize : Nat := 96

/-- The buffered writer: bytes not yet flushed, and the writes the destination has seen. -/
structure Wr where
  buf : Bytes := []
  out : List Bytes := []
  deriving Repr, DecidableEq

/-- Everything written so far, in order. -/
def Wr.total (w : Wr) : Bytes := w.out.flatten ++ w.buf

/-- `bufio.Writer.Write` (the loop runs at most twice: after a flush the buffer is empty). -/
def Wr.write (w : Wr) (p : Bytes) : Wr :=
  let avail := wrCap - w.buf.length
  if p.length ≤ avail then { w with buf := w.buf ++ p }
  else if w.buf = [] then { w with out := w.out ++ [p] }
  else
    let out1 := w.out ++ [w.buf ++ p.take avail]
    let p1 := p.drop avail
    if p1.length ≤ wrCap then { buf := p1, out := out1 } else { buf := [], out := out1 ++ [p1] }

/-- `bufio.Writer.Flush`. -/
def Wr.flush (w : Wr) : Wr :=
  if w.buf = [] then w else { buf := [], out := w.out ++ [w.buf] }

/-- State of `Dump`: the writer and the length of the scratch slice `p`. -/
structure DumpSt where
  w : Wr := {}
  plen : Nat := scratchSize
  deriving Repr

/-- Encode into the scratch slice and write: `none` where the Go code would index past the
end of `p`. -/
def DumpSt.put (s : DumpSt) (enc : Bytes) : Option DumpSt :=
  if enc.length ≤ s.plen then some { s with w := s.w.write enc } else none

def DumpSt.putAll (enc : α → Bytes) : DumpSt → List α → Option DumpSt
  | s, [] => some s
  | s, a :: as => (s.put (enc a)).bind (fun s' => DumpSt.putAll enc s' as)

/-- Before a string constant that would not fit, the scratch slice is replaced by one of
`10 + len(s)` bytes. -/
def DumpSt.grow (s : DumpSt) : Value → DumpSt
  | .str b => if 10 + b.length > s.plen then { s with plen := 10 + b.length } else s
  | _ => s

/-- The constants loop. -/
def DumpSt.putConsts : DumpSt → List Value → Option DumpSt
  | s, [] => some s
  | s, v :: vs => ((s.grow v).put (valueEnc v)).bind (fun s' => DumpSt.putConsts s' vs)

/-- `Prog.Dump`: the writes the destination receives, or `none` for a panic. -/
def dumpW (p : Prog) : Option (List Bytes) := do
  let s : DumpSt := {}
  let s := { s with w := s.w.write (magic ++ [verMajor, verMinor]) }
  let s ← s.put (uvEnc p.name.length)
  let s := { s with w := s.w.write p.name }
  let s ← s.put (uvEnc p.code.length)
  let s := { s with w := s.w.write p.code }
  let s ← s.put (uvEnc p.consts.length)
  let s ← s.putConsts p.consts
  let s ← s.put (uvEnc p.positions.length)
  let s ← s.putAll uvEnc p.positions
  let s ← s.put (uvEnc p.lfs.length)
  let s ← s.putAll uvEnc p.lfs
  pure s.w.flush.out

end Bclv.Buf
