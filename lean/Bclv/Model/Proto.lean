/-!
# The ParseFile pipeline as a labelled transition system (C11, C12, C16)

`api.go: ParseFile` starts a *reader* goroutine (Read loop, `defer f.Close()`), a
*parser* goroutine (`parseWithOpts`, which starts the *lexer* goroutine of `lex.go`) and
then, as the *caller*, receives from `rerr` and `perr`.  The channels `inpc`, `rerr`,
`perr` are unbuffered (a send and a receive happen together), `done` is only ever
closed, `tokens` has a buffer of `cap` (= `tokensBufSize`) slots.

The model keeps what the protocol can see:

* a **script**: what every `Read` will return — bytes (with what the lexer will make of
  them: how many tokens it emits while consuming the chunk, and whether it fails in it),
  bytes together with `io.EOF`, nothing (`0, nil`), `io.EOF`, or an error;
* the **tail**: what the lexer emits once the input channel is closed (left-over tokens,
  then `tEOF`, or `tFAIL` for e.g. an unterminated string);
* the parser as a consumer of tokens that may flag an error at any token and must flag
  one at `tFAIL`.

`step s` lists every state one goroutine move (or one rendezvous) can lead to: all
interleavings are all paths.  Nothing here is executed by the checks except `outcome`
(the schedule-independent part of a run); the theorems are in `Proofs/Proto.lean`.
-/
namespace Bclv.Proto

/-- One `Read`.  `toks`/`fail`: what the lexer does with these bytes if it gets them. -/
inductive Rd where
  | data (toks : Nat) (fail : Bool)      -- n > 0, err = nil
  | dataEof (toks : Nat) (fail : Bool)   -- n > 0, err = io.EOF
  | zero                                  -- n = 0, err = nil  (an empty chunk is forwarded)
  | eof                                   -- n = 0, err = io.EOF
  | err                                   -- err ≠ nil, err ≠ io.EOF (bytes, if any, are dropped)
  deriving Repr, DecidableEq

inductive RLoc where
  | read                                   -- `f.Read(b[:])`
  | sel (toks : Nat) (fail : Bool)         -- `select { case inpc <- chunk: … case <-done: … }`
  | sendErr                                -- `rerr <- err; break`
  | sendNil                                -- `rerr <- nil; break`
  | sendNilDone                            -- `rerr <- nil; return`   (after `<-done`)
  | closeInp                               -- `close(inpc)`
  | ret                                    -- deferred `f.Close()`
  | fin
  deriving Repr, DecidableEq

inductive LLoc where
  | recv                                   -- `<-l.inputs` in `next`
  | emit (n : Nat) (final : Option Bool)   -- `n` more tokens, then (if `final`) tEOF (`false`) / tFAIL (`true`)
  | closeTok                               -- `close(l.tokens)`
  | fin
  deriving Repr, DecidableEq

inductive PLoc where
  | run                                    -- the parse loop, receiving tokens
  | closeDone                              -- `close(done)`   (only when err ≠ nil)
  | publish                                -- `prog = p; perr <- err`
  | fin
  deriving Repr, DecidableEq

inductive MLoc where
  | recvRerr | recvPerr | ret
  deriving Repr, DecidableEq

structure St where
  script : List Rd
  tail : Nat                 -- tokens the lexer still emits after the input is closed
  tailFail : Bool            -- … ending in tFAIL instead of tEOF
  cap : Nat                  -- tokensBufSize
  r : RLoc := .read
  l : LLoc := .recv
  p : PLoc := .run
  m : MLoc := .recvRerr
  tb : Nat := 0              -- ordinary tokens in the buffer
  finalTok : Option Bool := none   -- the final token, always last in the buffer
  inpClosed : Bool := false
  doneClosed : Bool := false
  tokClosed : Bool := false
  hadErr : Bool := false     -- parser: hadError
  rdErr : Bool := false      -- what the caller received from `rerr` (true = the read error)
  -- ghost state (never read by a guard)
  closes : Nat := 0
  reads : Nat := 0
  lexFailed : Bool := false
  readsAfterFail : Nat := 0
  sawErr : Bool := false
  deriving Repr, DecidableEq

def init (script : List Rd) (tail : Nat) (tailFail : Bool) (cap : Nat) : St :=
  { script, tail, tailFail, cap }

def RLoc.pre : RLoc → Bool          -- before the reader has handed its verdict to the caller
  | .read | .sel _ _ | .sendErr | .sendNil | .sendNilDone => true
  | _ => false

def LLoc.done : LLoc → Bool
  | .closeTok | .fin => true
  | _ => false

def bufUsed (s : St) : Nat := s.tb + (if s.finalTok.isSome then 1 else 0)

/-- Ghost: reads counted after the lexer has failed. -/
def raf (s : St) : Nat := if s.lexFailed then s.readsAfterFail + 1 else s.readsAfterFail

/-- The final token a failing chunk ends in (none for a chunk the lexer gets through). -/
def failFin (f : Bool) : Option Bool := if f then some true else none

/-- Where the parser goes after the final token: `if err != nil { close(done) }`. -/
def pNext (e : Bool) : PLoc := if e then .closeDone else .publish

/-! ## the moves -/

/-- `n, err := f.Read(b[:])` and the two tests that follow. -/
def aRead (s : St) : List St :=
  match s.r with
  | .read =>
    match s.script with
    | [] => [{ s with reads := s.reads + 1, readsAfterFail := raf s, r := .sendNil }]   -- past the script: io.EOF
    | .data k f :: rest => [{ s with reads := s.reads + 1, readsAfterFail := raf s, script := rest, r := .sel k f }]
    | .dataEof k f :: rest => [{ s with reads := s.reads + 1, readsAfterFail := raf s, script := rest, r := .sel k f }]
    | .zero :: rest => [{ s with reads := s.reads + 1, readsAfterFail := raf s, script := rest, r := .sel 0 false }]
    | .eof :: rest => [{ s with reads := s.reads + 1, readsAfterFail := raf s, script := rest, r := .sendNil }]
    | .err :: rest => [{ s with reads := s.reads + 1, readsAfterFail := raf s, script := rest, r := .sendErr, sawErr := true }]
  | _ => []

/-- `case inpc <- chunk` meeting the lexer's `<-l.inputs`. -/
def aHandoff (s : St) : List St :=
  match s.r, s.l with
  | .sel k f, .recv =>
    [{ s with r := .read, l := .emit k (failFin f),
              lexFailed := s.lexFailed || f }]
  | _, _ => []

/-- `case <-done`. -/
def aDone (s : St) : List St :=
  match s.r with
  | .sel _ _ => if s.doneClosed then [{ s with r := .sendNilDone }] else []
  | _ => []

/-- `rerr <- …` meeting the caller's `<-rerr`. -/
def aRerr (s : St) : List St :=
  match s.m with
  | .recvRerr =>
    match s.r with
    | .sendErr => [{ s with r := .closeInp, m := .recvPerr, rdErr := true }]
    | .sendNil => [{ s with r := .closeInp, m := .recvPerr, rdErr := false }]
    | .sendNilDone => [{ s with r := .ret, m := .recvPerr, rdErr := false }]
    | _ => []
  | _ => []

def aCloseInp (s : St) : List St :=
  match s.r with
  | .closeInp => [{ s with r := .ret, inpClosed := true }]
  | _ => []

/-- The deferred `f.Close()`. -/
def aClose (s : St) : List St :=
  match s.r with
  | .ret => [{ s with r := .fin, closes := s.closes + 1 }]
  | _ => []

/-- The lexer's receive on a closed input channel. -/
def aRecvClosed (s : St) : List St :=
  match s.l with
  | .recv => if s.inpClosed then [{ s with l := .emit s.tail (some s.tailFail),
                                            lexFailed := s.lexFailed || s.tailFail }] else []
  | _ => []

/-- `l.tokens <- token{…}`: needs a free slot. -/
def aEmit (s : St) : List St :=
  match s.l with
  | .emit (n+1) fin => if bufUsed s < s.cap then [{ s with l := .emit n fin, tb := s.tb + 1 }] else []
  | .emit 0 (some f) => if bufUsed s < s.cap then [{ s with l := .closeTok, finalTok := some f }] else []
  | .emit 0 none => [{ s with l := .recv }]
  | _ => []

def aCloseTok (s : St) : List St :=
  match s.l with
  | .closeTok => [{ s with l := .fin, tokClosed := true }]
  | _ => []

/-- `<-l.tokens` in the parser: an ordinary token (which may or may not raise a
diagnostic), or the final one. -/
def aTake (s : St) : List St :=
  match s.p with
  | .run =>
    if s.tb > 0 then
      [{ s with tb := s.tb - 1 }, { s with tb := s.tb - 1, hadErr := true }]
    else
      match s.finalTok with
      | some f =>
        [{ s with finalTok := none, hadErr := s.hadErr || f, p := pNext (s.hadErr || f) }]
      | none => []
  | _ => []

def aCloseDone (s : St) : List St :=
  match s.p with
  | .closeDone => [{ s with p := .publish, doneClosed := true }]
  | _ => []

/-- `perr <- err` meeting the caller's `<-perr`. -/
def aPerr (s : St) : List St :=
  match s.p, s.m with
  | .publish, .recvPerr => [{ s with p := .fin, m := .ret }]
  | _, _ => []

/-- Every state one move away. -/
def step (s : St) : List St :=
  aRead s ++ aHandoff s ++ aDone s ++ aRerr s ++ aCloseInp s ++ aClose s
  ++ aRecvClosed s ++ aEmit s ++ aCloseTok s ++ aTake s ++ aCloseDone s ++ aPerr s

/-- All goroutines have ended and the caller has returned. -/
def Final (s : St) : Prop := s.r = .fin ∧ s.l = .fin ∧ s.p = .fin ∧ s.m = .ret

/-- What `ParseFile` returns, as a class. -/
inductive Ret where
  | readError | parseError | ok
  deriving Repr, DecidableEq

def St.ret (s : St) : Ret := if s.rdErr then .readError else if s.hadErr then .parseError else .ok

/-! ## the schedule-independent part of a run, as a function of the script

Used by the `proto` correspondence stream: for a given script the implementation's
observation must be the one computed here (`Proofs/Proto.lean` shows every terminal
state of the transition system agrees with it). -/

/-- Does the reader meet an error before an end-of-input?  (Only while the lexer keeps
accepting chunks; `none` = the reader reaches EOF.) -/
def firstEnd : List Rd → Option Bool
  | [] => none
  | .eof :: _ => some false
  | .err :: _ => some true
  | _ :: rest => firstEnd rest

end Bclv.Proto
