import Bclv.Basic
/-!
# Float formatting: `strconv.FormatFloat(x, 'f', -1, 64)` and `fmt`'s `%v`
(shortest round-trip digits, exact arithmetic on naturals).
Standard library, modelled and validated by correspondence only.
-/
namespace Bclv

/-- `a/b < 10^p`. -/
def ltPow10 (a b : Nat) (p : Int) : Bool :=
  if p ≥ 0 then a < b * 10 ^ p.toNat else a * 10 ^ (-p).toNat < b

/-- least `p` with `a/b < 10^p`, searched from an estimate. -/
def decExp (a b : Nat) : Int :=
  let est : Int := ((Nat.log2 a : Int) - (Nat.log2 b : Int)) * 30103 / 100000
  let rec up : Nat → Int → Int
    | 0, p => p
    | f+1, p => if ltPow10 a b p then p else up f (p + 1)
  let rec down : Nat → Int → Int
    | 0, p => p
    | f+1, p => if ltPow10 a b (p - 1) then down f (p - 1) else p
  down 8 (up 8 (est - 2))

/-- Shortest decimal digits that round-trip: digits (no trailing zeros) and the
decimal point position `dp` (value = 0.d1d2… × 10^dp).  `mant`, `e`: value =
`mant * 2^e`; `lowerHalf`: the gap below is half the gap above. -/
def shortestDigits (mant : Nat) (e : Int) (lowerHalf : Bool) : List Nat × Int :=
  if mant = 0 then ([], 0) else
  -- common scale 2^(e-2)
  let s : Int := e - 2
  let (mul, den) : Nat × Nat := if s ≥ 0 then (2 ^ s.toNat, 1) else (1, 2 ^ (-s).toNat)
  let v := mant * 4 * mul
  let u := (mant * 4 + 2) * mul
  let l := (if lowerHalf then mant * 4 - 1 else mant * 4 - 2) * mul
  let incl := mant % 2 == 0
  let dpU := decExp u den
  -- position i keeps digits down to weight 10^k, k = dpU - i
  let rec go : Nat → Nat → List Nat × Int
    | 0, _ => ([], 0)
    | f+1, i =>
      let k : Int := dpU - (i : Int)
      -- value / 10^k = v * a / (den * b)
      let (a, b) : Nat × Nat := if k ≥ 0 then (1, 10 ^ k.toNat) else (10 ^ (-k).toNat, 1)
      let c : Nat := v * a / (den * b)
      let rem : Nat := v * a % (den * b)
      -- c * 10^k compared with l/den:  c * den * b  vs  l * a
      let down := c * den * b
      let okdown := down > l * a || (incl && down == l * a)
      let upv := (c + 1) * den * b
      let okup := upv < u * a || (incl && upv == u * a)
      let exact := rem == 0
      if okdown || okup || exact then
        let c' : Nat :=
          if exact then c
          else if okdown && okup then
            (if 2 * rem > den * b || (2 * rem == den * b && c % 2 == 1) then c + 1 else c)
          else if okdown then c else c + 1
        -- digits of c' without trailing zeros
        let rec strip : Nat → Nat → Int → Nat × Int
          | 0, (c : Nat), k => (c, k)
          | g+1, (c : Nat), k => if c ≠ 0 && c % 10 == (0 : Nat) then strip g (c / 10) (k + 1) else (c, k)
        let (c'', k') := strip 400 c' k
        let ds := (Nat.toDigits 10 c'').map (fun ch => ch.toNat - 48)
        (ds, k' + ds.length)
      else go f (i + 1)
  go 800 1

structure FloatParts where
  neg : Bool
  nan : Bool
  inf : Bool
  digits : List Nat
  dp : Int

def floatParts (bits : UInt64) : FloatParts :=
  let b := bits.toNat
  let neg := b / 2 ^ 63 == 1
  let ef : Nat := b / 2 ^ 52 % 2048
  let frac : Nat := b % 2 ^ 52
  if ef == 2047 then { neg, nan := frac != 0, inf := frac == 0, digits := [], dp := 0 }
  else
    let (mant, e) : Nat × Int := if ef == 0 then (frac, -1074) else (frac + 2 ^ 52, (ef : Int) - 1075)
    let (ds, dp) := shortestDigits mant e (frac == 0 && ef > 1)
    { neg, nan := false, inf := false, digits := ds, dp }

def digitBytes (ds : List Nat) : Bytes := ds.map (fun d => UInt8.ofNat (48 + d))

/-- `%f` with precision `max(nd - dp, 0)` (`fmtF`). -/
def fmtF (ds : List Nat) (dp : Int) : Bytes :=
  let nd := ds.length
  let ip : Bytes :=
    if dp > 0 then digitBytes (ds.take dp.toNat) ++ List.replicate (dp.toNat - nd) 48
    else [48]
  let prec : Nat := ((nd : Int) - dp).toNat
  let fp : Bytes :=
    if prec > 0 then
      46 :: (List.range prec).map (fun (i : Nat) =>
        let j : Int := dp + (i : Int)
        if j ≥ 0 && j.toNat < nd then UInt8.ofNat (48 + ds.getD j.toNat 0) else 48)
    else []
  ip ++ fp

/-- `%e` with all the digits (`fmtE`). -/
def fmtE (ds : List Nat) (dp : Int) : Bytes :=
  let first : UInt8 := match ds with | d :: _ => UInt8.ofNat (48 + d) | [] => 48
  let tail := digitBytes (ds.drop 1)
  let exp : Int := if ds.isEmpty then 0 else dp - 1
  let es := natDec exp.natAbs
  [first] ++ (if tail.isEmpty then [] else 46 :: tail) ++ [101, if exp < 0 then 45 else 43]
    ++ (if es.length < 2 then 48 :: es else es)

def fmtSpecial (p : FloatParts) : Option Bytes :=
  if p.nan then some (str "NaN")
  else if p.inf then some (if p.neg then str "-Inf" else str "+Inf")
  else none

/-- `strconv.FormatFloat(x, 'f', -1, 64)`. -/
def formatFloatF (bits : UInt64) : Bytes :=
  let p := floatParts bits
  match fmtSpecial p with
  | some s => s
  | none => (if p.neg then [45] else []) ++ fmtF p.digits p.dp

/-- `fmt`'s `%v` of a `float64` (`%g` with the shortest representation). -/
def formatFloatV (bits : UInt64) : Bytes :=
  let p := floatParts bits
  match fmtSpecial p with
  | some s => s
  | none =>
    let exp := p.dp - 1
    (if p.neg then [45] else []) ++
      (if exp < -4 || exp ≥ 6 then fmtE p.digits p.dp else fmtF p.digits p.dp)

end Bclv
