import Bclv.Proofs.Grammar3
namespace Bclv

/-! ## block depth is restored by everything but `beginScope`/`endScope` -/

structure DP {α : Type} (m : PM α) : Prop where
  h : ∀ p, (m p).2.depth = p.depth

theorem DP.pure {α} (a : α) : DP (pure a : PM α) := ⟨fun _ => rfl⟩
theorem DP.bind {α β} {m : PM α} {f : α → PM β} (hm : DP m) (hf : ∀ a, DP (f a)) : DP (m >>= f) :=
  ⟨fun p => ((hf (m p).1).h (m p).2).trans (hm.h p)⟩
theorem DP.get : DP (get : PM PState) := ⟨fun _ => rfl⟩
theorem DP.ite {α} {c : Prop} [Decidable c] {x y : PM α} (hx : DP x) (hy : DP y) : DP (if c then x else y) := by
  split <;> assumption
theorem DP.modify_frame {g : PState → PState} (h1 : ∀ p, (g p).depth = p.depth) : DP (_root_.modify g : PM Unit) := ⟨h1⟩
theorem DP.forIn {α β : Type} (l : List α) (f : α → β → PM (ForInStep β)) (hf : ∀ a b, DP (f a b)) :
    ∀ (init : β), DP (forIn l init f) := by
  induction l with
  | nil => intro init; simp only [List.forIn_nil]; exact DP.pure _
  | cons x xs ih =>
    intro init
    simp only [List.forIn_cons]
    apply DP.bind (hf x init)
    intro r
    cases r with
    | done b => exact DP.pure _
    | yield b => exact ih b

syntax "dp_known" : tactic
macro_rules | `(tactic| dp_known) => `(tactic| with_reducible exact DP.pure _)
macro_rules | `(tactic| dp_known) => `(tactic| with_reducible exact DP.get)
macro "dp" : tactic => `(tactic| repeat' (first
  | assumption
  | dp_known
  | with_reducible apply DP.bind
  | with_reducible apply DP.ite
  | with_reducible apply DP.forIn
  | ((with_reducible apply DP.modify_frame) <;> intro _ <;> rfl)
  | intro _
  | split
  | dsimp only))

theorem errorAt_dp (t : Token) (msg : Bytes) : DP (errorAt t msg) := ⟨fun _ => rfl⟩
macro_rules | `(tactic| dp_known) => `(tactic| with_reducible exact errorAt_dp _ _)
theorem errorAtCurrent_dp (msg : Bytes) : DP (errorAtCurrent msg) := by unfold errorAtCurrent; dp
macro_rules | `(tactic| dp_known) => `(tactic| with_reducible exact errorAtCurrent_dp _)
theorem error_dp (msg : Bytes) : DP (error msg) := by unfold error; dp
macro_rules | `(tactic| dp_known) => `(tactic| with_reducible exact error_dp _)
theorem setStuck_dp : DP setStuck := ⟨fun _ => rfl⟩
macro_rules | `(tactic| dp_known) => `(tactic| with_reducible exact setStuck_dp)
theorem advanceLoop_dp : ∀ (ts : List Token), DP (advanceLoop ts)
  | [] => by unfold advanceLoop; dp
  | t :: ts => by have := advanceLoop_dp ts; unfold advanceLoop; dp
macro_rules | `(tactic| dp_known) => `(tactic| with_reducible exact advanceLoop_dp _)
theorem advance_dp : DP advance := by unfold advance; dp
macro_rules | `(tactic| dp_known) => `(tactic| with_reducible exact advance_dp)
theorem check_dp (t : TokType) : DP (check t) := by unfold check; dp
macro_rules | `(tactic| dp_known) => `(tactic| with_reducible exact check_dp _)
theorem checkEnd_dp : DP checkEnd := by unfold checkEnd; dp
macro_rules | `(tactic| dp_known) => `(tactic| with_reducible exact checkEnd_dp)
theorem consume_dp (t : TokType) (msg : Bytes) : DP (consume t msg) := by unfold consume; dp
macro_rules | `(tactic| dp_known) => `(tactic| with_reducible exact consume_dp _ _)
theorem match_dp (t : TokType) : DP («match» t) := by unfold «match»; dp
macro_rules | `(tactic| dp_known) => `(tactic| with_reducible exact match_dp _)
theorem matchEnd_dp : DP matchEnd := by unfold matchEnd; dp
macro_rules | `(tactic| dp_known) => `(tactic| with_reducible exact matchEnd_dp)
theorem addConst_dp (v : Value) : DP (addConst v) := ⟨fun _ => rfl⟩
macro_rules | `(tactic| dp_known) => `(tactic| with_reducible exact addConst_dp _)
theorem makeConst_dp (v : Value) : DP (makeConst v) := by unfold makeConst; dp
macro_rules | `(tactic| dp_known) => `(tactic| with_reducible exact makeConst_dp _)
theorem identConst_dp (n : Bytes) : DP (identConst n) := by unfold identConst; dp
macro_rules | `(tactic| dp_known) => `(tactic| with_reducible exact identConst_dp _)
theorem addLocal_dp (n : Bytes) : DP (addLocal n) := by unfold addLocal; dp
macro_rules | `(tactic| dp_known) => `(tactic| with_reducible exact addLocal_dp _)
theorem declVar_dp : DP declVar := by unfold declVar; dp
macro_rules | `(tactic| dp_known) => `(tactic| with_reducible exact declVar_dp)
theorem markInitialized_dp : DP markInitialized := by
  refine ⟨fun p => ?_⟩
  unfold markInitialized
  simp only [modify, modifyGet, MonadStateOf.modifyGet, StateT.modifyGet, pure]
  cases p.locals <;> rfl
macro_rules | `(tactic| dp_known) => `(tactic| with_reducible exact markInitialized_dp)
set_option maxHeartbeats 1000000 in
theorem bindSel_dp : DP bindSel := by unfold bindSel; dp
macro_rules | `(tactic| dp_known) => `(tactic| with_reducible exact bindSel_dp)
theorem bindTarget_dp (m : Bytes) : DP (bindTarget m) := by unfold bindTarget; dp
macro_rules | `(tactic| dp_known) => `(tactic| with_reducible exact bindTarget_dp _)
set_option maxHeartbeats 1000000 in
theorem bindStmt_dp : DP bindStmt := by unfold bindStmt; dp
macro_rules | `(tactic| dp_known) => `(tactic| with_reducible exact bindStmt_dp)
theorem syncLoop_dp : ∀ (f : Nat), DP (syncLoop f)
  | 0 => by unfold syncLoop; dp
  | f+1 => by have := syncLoop_dp f; unfold syncLoop; dp
macro_rules | `(tactic| dp_known) => `(tactic| with_reducible exact syncLoop_dp _)
theorem sync_dp (f : Nat) : DP (sync f) := by unfold sync; dp
macro_rules | `(tactic| dp_known) => `(tactic| with_reducible exact sync_dp _)

set_option hygiene false in
macro_rules | `(tactic| dp_known) => `(tactic| exact h1 _)
set_option hygiene false in
macro_rules | `(tactic| dp_known) => `(tactic| exact h2 _ _)
set_option hygiene false in
macro_rules | `(tactic| dp_known) => `(tactic| exact h3 _ _)

theorem exprs_dp : ∀ (f : Nat),
    (∀ prec, DP (parsePrecedence prec f)) ∧ (∀ prec left, DP (infixLoop prec left f)) ∧ (∀ rule ca, DP (prefixRule rule ca f))
  | 0 => by
    refine ⟨?_, ?_, ?_⟩
    · intro prec; unfold parsePrecedence; dp
    · intro prec left; unfold infixLoop; dp
    · intro rule ca; unfold prefixRule; dp
  | f+1 => by
    obtain ⟨h1, h2, h3⟩ := exprs_dp f
    refine ⟨?_, ?_, ?_⟩
    · intro prec; unfold parsePrecedence; dp
    · intro prec left; unfold infixLoop; dp
    · intro rule ca; unfold prefixRule; dp
theorem expr_dp (f : Nat) : DP (expr f) := by unfold expr; exact (exprs_dp f).1 _
theorem varDecl_dp (f : Nat) : DP (varDecl f) := by have := expr_dp f; unfold varDecl; dp

theorem bindSel_g (p : PState) (hi : GInv p) :
    wp bindSel (fun _ p' => GM p p' ∧ (NE p' → ∃ sk, Skips sk p p' ∧
      (typs sk = [] ∨ typs sk = [.COLON, .INT] ∨ typs sk = [.COLON, .IDENT]))) p := by
  unfold bindSel
  simp only [wp_bind]
  -- an error report ends the claim
  have bad : ∀ (q : PState) (n : Nat), GM p q →
      wp (do error (str "expected 1,first,last,all as a block selector"); pure n)
        (fun _ p' => GM p p' ∧ (NE p' → ∃ sk, Skips sk p p' ∧
          (typs sk = [] ∨ typs sk = [.COLON, .INT] ∨ typs sk = [.COLON, .IDENT]))) q := by
    intro q n hg
    rw [wp_bind]
    apply wp_mono (error_wp _ q hg.inv)
    intro _ q' h
    rw [wp_pure]
    exact ⟨hg.trans h.1, fun hne => absurd hne (ne_false_of_err h.2)⟩
  apply wp_mono (match_cons .COLON (by decide) p hi)
  intro b1 p1 hq1
  obtain ⟨hg1, hf1, ht1⟩ := hq1
  split
  · rename_i hb1
    obtain ⟨hc1, _, hs1⟩ := ht1 hb1
    rw [wp_bind]
    apply wp_mono (match_cons .INT (by decide) p1 hg1.inv)
    intro b2 p2 hq2
    obtain ⟨hg2, hf2, ht2⟩ := hq2
    split
    · rename_i hb2
      obtain ⟨hc2, _, hs2⟩ := ht2 hb2
      rw [wp_bind, wp_get]
      have fin : GM p p2 ∧ (NE p2 → ∃ sk, Skips sk p p2 ∧
          (typs sk = [] ∨ typs sk = [.COLON, .INT] ∨ typs sk = [.COLON, .IDENT])) := by
        refine ⟨hg1.trans hg2, fun hne => ⟨[p.cur] ++ [p1.cur], (hs1 (hg2.ne hne).1).trans (hs2 hne.1), .inr (.inl ?_)⟩⟩
        simp [hc1, hc2]
      split
      · exact bad p2 1 (hg1.trans hg2)
      · rw [wp_pure]; exact fin
    · rename_i hb2
      obtain ⟨rfl, _⟩ := hf2 (by simpa using hb2)
      rw [wp_bind]
      apply wp_mono (match_cons .IDENT (by decide) p2 hg1.inv)
      intro b3 p3 hq3
      obtain ⟨hg3, hf3, ht3⟩ := hq3
      split
      · rename_i hb3
        obtain ⟨hc3, _, hs3⟩ := ht3 hb3
        rw [wp_bind, wp_get]
        have fin : GM p p3 ∧ (NE p3 → ∃ sk, Skips sk p p3 ∧
            (typs sk = [] ∨ typs sk = [.COLON, .INT] ∨ typs sk = [.COLON, .IDENT])) := by
          refine ⟨hg1.trans hg3, fun hne => ⟨[p.cur] ++ [p2.cur], (hs1 (hg3.ne hne).1).trans (hs3 hne.1), .inr (.inr ?_)⟩⟩
          simp [hc1, hc3]
        repeat' split
        · rw [wp_pure]; exact fin
        · rw [wp_pure]; exact fin
        · rw [wp_pure]; exact fin
        · exact bad p3 1 (hg1.trans hg3)
      · rename_i hb3
        obtain ⟨rfl, _⟩ := hf3 (by simpa using hb3)
        rw [wp_bind]
        apply wp_mono (errorAtCurrent_wp _ p3 hg1.inv)
        intro _ q' h
        rw [wp_pure]
        exact ⟨hg1.trans h.1, fun hne => absurd hne (ne_false_of_err h.2)⟩
  · rename_i hb1
    obtain ⟨rfl, _⟩ := hf1 (by simpa using hb1)
    rw [wp_pure]
    exact ⟨GM.refl hi, fun _ => ⟨[], rfl, .inl rfl⟩⟩

theorem ne_false_of_panic {p : PState} (hi : GInv p) (h : p.panicMode = true) : ¬ NE p :=
  ne_false_of_err (hi.pm h)

/-- tokens of a `bind` statement after the keyword -/
def isBindTail (ts : List TokType) : Prop :=
  ∃ sel, (sel = [] ∨ sel = [.COLON, .INT] ∨ sel = [.COLON, .IDENT]) ∧ ts = .IDENT :: (sel ++ [.ARROW, .IDENT])

theorem bindStmt_g (p : PState) (hi : GInv p) :
    wp bindStmt (fun _ p' => GM p p' ∧ (NE p' → ∃ sk, Skips sk p p' ∧ isBindTail (typs sk))) p := by
  unfold bindStmt
  rw [wp_bind]
  apply wp_mono (consume_cons .IDENT _ (by decide) p hi)
  intro _ p1 hq1
  obtain ⟨hg1, hc1⟩ := hq1
  rw [wp_bind, wp_get]
  split
  · rename_i hpm
    rw [wp_pure]
    exact ⟨hg1, fun hne => absurd hne (ne_false_of_panic hg1.inv hpm)⟩
  · rw [wp_bind, wp_get, wp_bind]
    apply wp_mono (bindSel_g p1 hg1.inv)
    intro sel p2 hq2
    obtain ⟨hg2, hsel⟩ := hq2
    rw [wp_bind]
    apply wp_mono (consume_cons .ARROW _ (by decide) p2 hg2.inv)
    intro _ p3 hq3
    obtain ⟨hg3, hc3⟩ := hq3
    rw [wp_bind, wp_get]
    split
    · rename_i hpm
      rw [wp_pure]
      exact ⟨(hg1.trans hg2).trans hg3, fun hne => absurd hne (ne_false_of_panic hg3.inv hpm)⟩
    · rw [wp_bind]
      apply wp_mono (consume_cons .IDENT _ (by decide) p3 hg3.inv)
      intro _ p4 hq4
      obtain ⟨hg4, hc4⟩ := hq4
      rw [wp_bind, wp_get]
      have hg04 : GM p p4 := ((hg1.trans hg2).trans hg3).trans hg4
      split
      · rename_i hpm
        rw [wp_pure]
        exact ⟨hg04, fun hne => absurd hne (ne_false_of_panic hg4.inv hpm)⟩
      · rw [wp_bind]
        apply wp_tf (bindTarget_gr _) (bindTarget_tf _) hg4.inv
        intro tgt p5 hg5 hcur5 hrest5 _
        -- the tokens consumed so far, if all went well
        have toks : ∀ q, GM p5 q → q.cur = p5.cur → q.rest = p5.rest → NE q →
            ∃ sk, Skips sk p q ∧ isBindTail (typs sk) := by
          intro q hgq hcq hrq hne
          have hne5 : NE p5 := hgq.ne hne
          have hne4 : NE p4 := hg5.ne hne5
          have hne3 : NE p3 := hg4.ne hne4
          have hne2 : NE p2 := hg3.ne hne3
          have hne1 : NE p1 := hg2.ne hne2
          obtain ⟨ht1, _, hs1⟩ := hc1 hne1.1
          obtain ⟨sk2, hs2, hsel2⟩ := hsel hne2
          obtain ⟨ht3, _, hs3⟩ := hc3 hne3.1
          obtain ⟨ht4, _, hs4⟩ := hc4 hne4.1
          refine ⟨[p.cur] ++ sk2 ++ [p2.cur] ++ [p3.cur], ?_, typs sk2, hsel2, ?_⟩
          · have := ((hs1.trans hs2).trans hs3).trans hs4
            unfold Skips at this ⊢
            rw [this, hcq, hrq, hcur5, hrest5]
          · simp [ht1, ht3, ht4]
        have fin : ∀ q, GM p5 q → q.cur = p5.cur → q.rest = p5.rest →
            wp (do
              if (← get).panicMode = true then return Stmt.bad
              let idx ← identConst p1.prev.val
              return Stmt.bind idx (UInt8.ofNat (tgt % 256 / 16 * 16 + sel % 16)) (← get).prev.pos)
              (fun _ p' => GM p p' ∧ (NE p' → ∃ sk, Skips sk p p' ∧ isBindTail (typs sk))) q := by
          intro q hgq hcq hrq
          rw [wp_bind, wp_get]
          split
          · rename_i hpm
            rw [wp_pure]
            exact ⟨(hg04.trans hg5).trans hgq, fun hne => absurd hne (ne_false_of_panic hgq.inv hpm)⟩
          · rw [wp_bind]
            apply wp_tf (identConst_gr _) (identConst_tf _) hgq.inv
            intro idx q2 hgq2 hc2 hr2 _
            rw [wp_bind, wp_get, wp_pure]
            exact ⟨((hg04.trans hg5).trans hgq).trans hgq2,
              toks q2 (hgq.trans hgq2) (hc2.trans hcq) (hr2.trans hrq)⟩
        split
        · rw [wp_bind]
          apply wp_tf (error_gr _) (error_tf _) hg5.inv
          intro _ q hgq hcq hrq _
          exact fin q hgq hcq hrq
        · exact fin p5 (GM.refl hg5.inv) rfl rfl

theorem varDecl_g (f : Nat) (p : PState) (hi : GInv p) :
    wp (varDecl f) (fun _ p' => GM p p' ∧ (NE p' → ∃ sk, Skips sk p p' ∧
      (typs sk = [.IDENT] ∨ ∃ e, typs sk = .IDENT :: .EQ :: e ∧ GExpr e))) p := by
  unfold varDecl
  rw [wp_bind]
  apply wp_mono (consume_cons .IDENT _ (by decide) p hi)
  intro _ p1 hq1
  obtain ⟨hg1, hc1⟩ := hq1
  rw [wp_bind, wp_get]
  split
  · rename_i hpm
    rw [wp_pure]
    exact ⟨hg1, fun hne => absurd hne (ne_false_of_panic hg1.inv hpm)⟩
  · rw [wp_bind]
    apply wp_tf declVar_gr declVar_tf hg1.inv
    intro _ p2 hg2 hcur2 hrest2 _
    rw [wp_bind]
    apply wp_mono (match_cons .EQ (by decide) p2 hg2.inv)
    intro b p3 hq3
    obtain ⟨hg3, hf3, ht3⟩ := hq3
    split
    · rename_i hb
      obtain ⟨heq, _, hs3⟩ := ht3 hb
      rw [wp_bind]
      apply wp_mono (expr_g f p3 hg3.inv)
      intro e p4 hq4
      rw [wp_bind, wp_pure, wp_bind]
      apply wp_tf markInitialized_gr markInitialized_tf hq4.1.inv
      intro _ p5 hg5 hcur5 hrest5 _
      rw [wp_pure]
      refine ⟨(((hg1.trans hg2).trans hg3).trans hq4.1).trans hg5, fun hne => ?_⟩
      have hne4 : NE p4 := hg5.ne hne
      have hne3 : NE p3 := hq4.1.ne hne4
      have hne1 : NE p1 := hg2.ne (hg3.ne hne3)
      obtain ⟨ht1, _, hs1⟩ := hc1 hne1.1
      obtain ⟨sk4, hs4, hk4, _⟩ := hq4.2 hne4
      rw [kindOf_expr] at hk4
      refine ⟨[p.cur] ++ [p2.cur] ++ sk4, ?_, .inr ⟨typs sk4, by simp [ht1, heq], hk4⟩⟩
      have h23 := hs3 hne3.1
      unfold Skips at hs1 h23 hs4 ⊢
      rw [hs1, ← hcur2, ← hrest2, h23, hs4, hcur5, hrest5]; simp
    · rename_i hb
      obtain ⟨rfl, _⟩ := hf3 (by simpa using hb)
      rw [wp_bind, wp_get, wp_bind, wp_pure, wp_bind]
      apply wp_tf markInitialized_gr markInitialized_tf hg2.inv
      intro _ p5 hg5 hcur5 hrest5 _
      rw [wp_pure]
      refine ⟨(hg1.trans hg2).trans hg5, fun hne => ?_⟩
      have hne1 : NE p1 := hg2.ne (hg5.ne hne)
      obtain ⟨ht1, _, hs1⟩ := hc1 hne1.1
      refine ⟨[p.cur], ?_, .inl (by simp [ht1])⟩
      unfold Skips at hs1 ⊢
      rw [hs1, hcur5, hrest5, hcur2, hrest2]

end Bclv
