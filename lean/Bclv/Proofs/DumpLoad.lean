import Bclv.Model.Prog
import Bclv.Proofs.Varint
/-!
# Dump / Load: round trip and rejection of every proper prefix

`Enc p e a` says: the decoder `p` reads the encoding `e` back as `a` whatever
follows it, and fails (never succeeds, never panics) on every proper prefix of `e`.
It composes along `bind`, so the statement for a whole dump is assembled from the
statements for its sections.
-/
namespace Bclv

def Enc {α} (p : P α) (e : Bytes) (a : α) : Prop :=
  (∀ r, p (e ++ r) = .ok a r) ∧ (∀ t u, e = t ++ u → u ≠ [] → ∃ m, p t = .fail m)

theorem Enc.pure {α} (a : α) : Enc (pure a : P α) [] a := by
  constructor
  · intro r; rfl
  · intro t u h hu
    have : t ++ u = [] := h.symm
    simp at this
    exact absurd this.2 hu

/-- A proper prefix of `e1 ++ e2` is a proper prefix of `e1`, or `e1` followed by a
proper prefix of `e2`. -/
theorem prefix_split (e1 e2 t u : Bytes) (h : e1 ++ e2 = t ++ u) (hu : u ≠ []) :
    (∃ u1, e1 = t ++ u1 ∧ u1 ≠ []) ∨ (∃ t2, t = e1 ++ t2 ∧ e2 = t2 ++ u) := by
  rcases List.append_eq_append_iff.mp h with ⟨a', h1, h2⟩ | ⟨c', h1, h2⟩
  · -- t = e1 ++ a', e2 = a' ++ u
    right; exact ⟨a', h1, h2⟩
  · -- e1 = t ++ c', u = c' ++ e2
    cases c' with
    | nil =>
      right
      refine ⟨[], ?_, ?_⟩
      · simp at h1; simp [h1]
      · simp at h2; simp [h2]
    | cons x xs => left; exact ⟨x :: xs, h1, by simp⟩

theorem Enc.bind {α β} {p : P α} {f : α → P β} {e1 e2 : Bytes} {a : α} {b : β}
    (h1 : Enc p e1 a) (h2 : Enc (f a) e2 b) : Enc (p >>= f) (e1 ++ e2) b := by
  constructor
  · intro r
    show P.bind p f (e1 ++ e2 ++ r) = _
    unfold P.bind
    rw [List.append_assoc, h1.1]
    exact h2.1 r
  · intro t u h hu
    show ∃ m, P.bind p f t = _
    unfold P.bind
    rcases prefix_split e1 e2 t u h hu with ⟨u1, he, hne⟩ | ⟨t2, ht, he⟩
    · obtain ⟨m, hm⟩ := h1.2 t u1 he hne
      exact ⟨m, by rw [hm]⟩
    · subst ht
      rw [h1.1]
      exact h2.2 t2 u he hu

theorem Enc.label {α} {p : P α} {e : Bytes} {a : α} (msg : String) (h : Enc p e a) :
    Enc (label msg p) e a := by
  constructor
  · intro r; unfold Bclv.label; rw [h.1]
  · intro t u he hu
    obtain ⟨m, hm⟩ := h.2 t u he hu
    exact ⟨msg, by unfold Bclv.label; rw [hm]⟩

theorem Enc.map {α β} {p : P α} {e : Bytes} {a : α} (g : α → β) (h : Enc p e a) :
    Enc (do let x ← p; Pure.pure (g x)) e (g a) := by
  have := Enc.bind (f := fun x => (Pure.pure (g x) : P β)) h (Enc.pure (g a))
  simpa using this

theorem Enc_pUv (x : Nat) (hx : x < 2 ^ 64) : Enc pUv (uvEnc x) x := by
  constructor
  · intro r; unfold pUv; rw [uvDec_uvEnc x hx]
  · intro t u h hu
    exact ⟨_, by unfold pUv; rw [uvDec_prefix x hx t u h hu]⟩

theorem Enc_pTake (bs : Bytes) : Enc (pTake bs.length) bs bs := by
  constructor
  · intro r
    unfold pTake
    simp
  · intro t u h hu
    refine ⟨"unexpected EOF", ?_⟩
    unfold pTake
    have : t.length < bs.length := by
      rw [h, List.length_append]
      have : u.length > 0 := List.length_pos_iff.mpr hu
      omega
    simp [this]

/-- Values the compiler can produce: strings shorter than 2^64 bytes. -/
def Value.WF : Value → Prop
  | .str s => s.length < 2 ^ 64
  | _ => True

theorem cons_prefix {c : UInt8} {e t u : Bytes} (h : c :: e = t ++ u) :
    t = [] ∨ ∃ t', t = c :: t' ∧ e = t' ++ u := by
  cases t with
  | nil => left; rfl
  | cons x xs =>
    right
    simp only [List.cons_append, List.cons.injEq] at h
    exact ⟨xs, by rw [h.1], h.2⟩

/-- Prepending the type code: if the decoder dispatches on a leading byte `c` to `q`. -/
theorem Enc_tag {α} (p : P α) (q : P α) (c : UInt8) (e : Bytes) (a : α)
    (hp : ∀ bs, p (c :: bs) = q bs) (hnil : ∃ m, p [] = .fail m) (hq : Enc q e a) :
    Enc p (c :: e) a := by
  constructor
  · intro r; rw [List.cons_append, hp]; exact hq.1 r
  · intro t u h hu
    rcases cons_prefix h with ht | ⟨t', ht, he⟩
    · subst ht; exact hnil
    · subst ht; rw [hp]; exact hq.2 t' u he hu

theorem be8_toNat (b : UInt64) : UInt64.ofNat (beVal (beBytes 8 b.toNat)) = b := by
  rw [beVal_beBytes 8 b.toNat (by have := b.toNat_lt; omega)]
  simp

theorem Enc_pValue (v : Value) (hv : v.WF) : Enc pValue (valueEnc v) v := by
  have hnil : ∃ m, pValue [] = .fail m := ⟨_, rfl⟩
  cases v with
  | nil =>
    refine Enc_tag pValue (Pure.pure Value.nil) 0 [] _ (fun bs => rfl) hnil (Enc.pure _)
  | int i =>
    refine Enc_tag pValue (do let x ← pUv; Pure.pure (Value.int (UInt64.ofNat x).toInt64)) 1 _ _
      (fun bs => rfl) hnil ?_
    have := Enc.map (fun x => Value.int (UInt64.ofNat x).toInt64)
      (Enc_pUv i.toUInt64.toNat (by have := i.toUInt64.toNat_lt; omega))
    simpa using this
  | float b =>
    refine Enc_tag pValue (do let x ← pTake 8; Pure.pure (Value.float (UInt64.ofNat (beVal x)))) 2 _ _
      (fun bs => rfl) hnil ?_
    have h8 := Enc_pTake (beBytes 8 b.toNat)
    rw [beBytes_length] at h8
    have := Enc.map (fun x => Value.float (UInt64.ofNat (beVal x))) h8
    simpa [be8_toNat] using this
  | str s =>
    refine Enc_tag pValue (do let k ← pUv; let s ← pTake k; Pure.pure (Value.str s)) 3 _ _
      (fun bs => rfl) hnil ?_
    have h1 := Enc_pUv s.length hv
    have h2 := Enc.map (fun x => Value.str x) (Enc_pTake s)
    exact Enc.bind (f := fun k => (do let s ← pTake k; Pure.pure (Value.str s))) h1 h2
  | bool b =>
    refine Enc_tag pValue (do let x ← pTake 1; Pure.pure (Value.bool (x != [0]))) 4 _ _
      (fun bs => rfl) hnil ?_
    have h1 := Enc_pTake [if b then (1 : UInt8) else 0]
    have := Enc.map (fun x => Value.bool (x != [0])) h1
    cases b
    · exact this
    · have e : Value.bool (([1] : Bytes) != [0]) = Value.bool true := by decide
      rw [← e]; exact this

theorem Enc_pMany {α} (what : String) (p : P α) (enc : α → Bytes) (xs : List α) (i : Nat)
    (h : ∀ x ∈ xs, Enc p (enc x) x) : Enc (pMany what p xs.length i) (encList enc xs) xs := by
  induction xs generalizing i with
  | nil => exact Enc.pure []
  | cons x xs ih =>
    simp only [List.length_cons, pMany, encList]
    have hx := Enc.label (s!"{what}[{i}]") (h x (by simp))
    have hrest := ih (i + 1) (fun y hy => h y (by simp [hy]))
    have h2 := Enc.map (fun as => x :: as) hrest
    exact Enc.bind hx h2

def headerBytes : Bytes := magic ++ [verMajor, verMinor]

theorem Enc_pHeader : Enc pHeader headerBytes () := by
  constructor
  · intro r; rfl
  · intro t u h hu
    have hlen : t.length < 4 := by
      have : (t ++ u).length = 4 := by rw [← h]; rfl
      rw [List.length_append] at this
      have : u.length > 0 := List.length_pos_iff.mpr hu
      omega
    have ht : t = headerBytes.take t.length := by
      have := congrArg (List.take t.length) h
      simp at this
      exact this.symm
    match t, hlen, ht with
    | [], _, _ => exact ⟨_, rfl⟩
    | [_], _, _ => exact ⟨_, rfl⟩
    | [a, b], _, ht =>
      have : [a, b] = [0xFC, 0x6C] := ht
      rw [this]; exact ⟨_, rfl⟩
    | [a, b, c], _, ht =>
      have : [a, b, c] = [0xFC, 0x6C, 1] := ht
      rw [this]; exact ⟨_, rfl⟩

/-- Programs whose sizes and offsets fit in 64 bits (anything the parser can build). -/
structure Prog.WF (p : Prog) : Prop where
  name : p.name.length < 2 ^ 64
  code : p.code.length < 2 ^ 64
  nconsts : p.consts.length < 2 ^ 64
  consts : ∀ v ∈ p.consts, v.WF
  npos : p.positions.length < 2 ^ 64
  pos : ∀ x ∈ p.positions, x < 2 ^ 64
  nlfs : p.lfs.length < 2 ^ 64
  lfs : ∀ x ∈ p.lfs, x < 2 ^ 64

theorem dump_eq (p : Prog) :
    dump p = headerBytes ++ (uvEnc p.name.length ++ (p.name ++ (uvEnc p.code.length ++ (p.code
      ++ (uvEnc p.consts.length ++ (encList valueEnc p.consts ++ (uvEnc p.positions.length
      ++ (encList uvEnc p.positions ++ (uvEnc p.lfs.length ++ (encList uvEnc p.lfs ++ [])))))))))) := by
  simp [dump, headerBytes]

theorem Enc_pProg (p : Prog) (h : p.WF) : Enc pProg (dump p) p := by
  rw [dump_eq]
  unfold pProg
  refine Enc.bind Enc_pHeader ?_
  refine Enc.bind (Enc.label _ (Enc_pUv _ h.name)) ?_
  refine Enc.bind (Enc.label _ (Enc_pTake _)) ?_
  refine Enc.bind (Enc.label _ (Enc_pUv _ h.code)) ?_
  refine Enc.bind (Enc.label _ (Enc_pTake _)) ?_
  refine Enc.bind (Enc.label _ (Enc_pUv _ h.nconsts)) ?_
  refine Enc.bind (Enc_pMany _ _ _ _ 0 (fun v hv => Enc_pValue v (h.consts v hv))) ?_
  refine Enc.bind (Enc.label _ (Enc_pUv _ h.npos)) ?_
  refine Enc.bind (Enc_pMany _ _ _ _ 0 (fun x hx => Enc_pUv x (h.pos x hx))) ?_
  refine Enc.bind (Enc.label _ (Enc_pUv _ h.nlfs)) ?_
  refine Enc.bind (Enc_pMany _ _ _ _ 0 (fun x hx => Enc_pUv x (h.lfs x hx))) ?_
  exact Enc.pure _

end Bclv
