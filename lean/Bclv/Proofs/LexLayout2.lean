import Bclv.Proofs.LexLayout1
import Bclv.Proofs.LexTermWhole
namespace Bclv

theorem PrimMeas.noPos {σ : Type} {P : LexPrims σ} {μ : σ → Nat} (h : PrimMeas P μ) : PrimMeas P.noPos μ :=
  ⟨h.next_le, h.next_lt, h.backup_next, h.renext_rune, h.renext_mu, h.unbackup_le, h.ignore_eq⟩

theorem Pf.meas : PrimMeas Pf (fun s => s.rest.length) := Whole.meas.noPos

/-- a larger outer budget changes nothing once the budget covers the potential -/
theorem lexRun_more {σ : Type} {P : LexPrims σ} {μ : σ → Nat} (hP : PrimMeas P μ) (f k : Nat) :
    ∀ (n : Nat) (st : LState) (l : LexSt σ), st ≠ .done → NumInv P st l → lexPot st (μ l.s) ≤ n →
      lexRun P (f+1) (n + k) st l = lexRun P (f+1) n st l
  | 0, st, l, hst, _, hn => by
    exfalso; cases st <;> simp [lexPot] at hn hst
  | n+1, st, l, hst, hJ, hn => by
    rw [show n + 1 + k = (n + k) + 1 by omega]
    unfold lexRun
    have hp := step_potential hP f st l hst hJ
    rcases h1 : lexStep P (f+1) st l with ⟨st1, o1⟩
    rw [h1] at hp
    dsimp only at hp
    have rec_ : st1 ≠ .done → lexRun P (f+1) (n + k) st1 o1 = lexRun P (f+1) n st1 o1 := by
      intro hne
      rcases hp with hp | ⟨hlt, hJ1⟩
      · exact absurd hp hne
      · exact lexRun_more hP f k n st1 o1 hne hJ1 (by omega)
    cases st1 with
    | done => rfl
    | start => exact rec_ (by simp)
    | space => exact rec_ (by simp)
    | comment => exact rec_ (by simp)
    | ident => exact rec_ (by simp)
    | number => exact rec_ (by simp)
    | hex => exact rec_ (by simp)
    | float => exact rec_ (by simp)
    | quote => exact rec_ (by simp)

/-! ## whitespace in front of the remaining input -/

/-- drop leading whitespace runes, at most `k` of them -/
def stripSp : Nat → Bytes → Bytes
  | 0, b => b
  | k+1, b =>
    if (decodeRune b).2 ≠ 0 ∧ isSpaceR (decodeRune b).1 = true then stripSp k (b.drop (decodeRune b).2) else b

theorem Pf_next_rune (s : Whole) :
    (Pf.next s).1 = if (decodeRune s.rest).2 = 0 then eofR else (decodeRune s.rest).1 := Whole.next_rune s
theorem Pf_next_rest (s : Whole) : (Pf.next s).2.rest = s.rest.drop (decodeRune s.rest).2 := Whole.next_rest s
theorem Pf_backup_next_rest (s : Whole) : (Pf.backup (Pf.next s).2).rest = s.rest := Whole.backup_next_rest s

theorem acceptRun_spaces : ∀ (f : Nat) (acc : Bool) (s : Whole),
    (acceptRun Pf isSpaceR f acc s).2.rest = stripSp f s.rest
  | 0, _, _ => rfl
  | f+1, acc, s => by
    unfold acceptRun stripSp
    have hr := Pf_next_rune s
    have hn := Pf_next_rest s
    have hb := Pf_backup_next_rest s
    rcases h : Pf.next s with ⟨r, s'⟩
    rw [h] at hr hn hb
    dsimp only at hr hn hb ⊢
    by_cases hw : (decodeRune s.rest).2 = 0
    · rw [if_pos hw] at hr
      have : isSpaceR r = false := by rw [hr]; decide
      simp only [this, Bool.false_eq_true, if_false, hw, ne_eq, not_true_eq_false, false_and]
      exact hb
    · rw [if_neg hw] at hr
      by_cases hsp : isSpaceR r = true
      · have hc : (decodeRune s.rest).2 ≠ 0 ∧ isSpaceR (decodeRune s.rest).1 = true := ⟨hw, by rw [← hr]; exact hsp⟩
        rw [if_pos hsp, if_pos hc, acceptRun_spaces f true s', hn]
      · have hc : ¬((decodeRune s.rest).2 ≠ 0 ∧ isSpaceR (decodeRune s.rest).1 = true) := by
          intro hc; apply hsp; rw [hr]; exact hc.2
        rw [if_neg hsp, if_neg hc]
        exact hb

theorem space_tables (r : Rune) (h : isSpaceR r = true) : (r == eofR) = false ∧ twoRuneOf r = none ∧ oneRuneOf r = none := by
  simp only [isSpaceR, Bool.or_eq_true, beq_iff_eq] at h
  rcases h with ((((((h | h) | h) | h) | h) | h) | h) | h <;> subst h <;> decide

/-- the start state on a whitespace rune hands over to `lexSpace` -/
theorem start_on_space (f : Nat) (s : Whole) (T : List Token)
    (hw : (decodeRune s.rest).2 ≠ 0) (hsp : isSpaceR (decodeRune s.rest).1 = true) :
    lexStep Pf f .start ⟨s, T⟩ = (.space, ⟨(Pf.next s).2, T⟩) := by
  have hr := Pf_next_rune s
  rw [if_neg hw] at hr
  have hsp' : isSpaceR (Pf.next s).1 = true := by rw [hr]; exact hsp
  obtain ⟨h1, h2, h3⟩ := space_tables _ hsp'
  simp only [lexStep, h1, h2, h3, hsp', Bool.false_eq_true, if_false, if_true]

/-! ## a comment in front of the remaining input -/

/-- drop runes up to the next CR or LF (not included) or the end, at most `k` of them -/
def dropComment : Nat → Bytes → Bytes
  | 0, b => b
  | k+1, b =>
    if (decodeRune b).2 = 0 ∨ isEol (decodeRune b).1 = true then b else dropComment k (b.drop (decodeRune b).2)

theorem commentLoop_rest : ∀ (f : Nat) (s : Whole), (commentLoop Pf f s).rest = dropComment f s.rest
  | 0, _ => rfl
  | f+1, s => by
    unfold commentLoop dropComment
    have hr := Pf_next_rune s
    have hn := Pf_next_rest s
    have hb := Pf_backup_next_rest s
    rcases h : Pf.next s with ⟨r, s'⟩
    rw [h] at hr hn hb
    dsimp only at hr hn hb ⊢
    by_cases hw : (decodeRune s.rest).2 = 0
    · rw [if_pos hw] at hr
      have : (isEol r || r == eofR) = true := by rw [hr]; decide
      rw [if_pos this, if_pos (.inl hw)]
      exact hb
    · rw [if_neg hw] at hr
      have hne : (r == eofR) = false := by
        rw [hr]
        have := decodeRune_ne_eof s.rest
        simpa using this
      by_cases he : isEol r = true
      · rw [if_pos (by rw [he]; rfl), if_pos (.inr (by rw [← hr]; exact he))]
        exact hb
      · have he' : isEol r = false := by simpa using he
        rw [if_neg (by rw [he', hne]; decide), if_neg (by
          intro hc
          rcases hc with hc | hc
          · exact hw hc
          · rw [← hr] at hc; exact he hc)]
        rw [commentLoop_rest f s', hn]

theorem commentLoop_cur : ∀ (f : Nat) (s : Whole), s.rest.length < f → (commentLoop Pf f s).cur = []
  | 0, _, h => by omega
  | f+1, s, hlt => by
    unfold commentLoop
    have hr := Pf_next_rune s
    have hn := Pf_next_rest s
    have hw := decodeRune_width_le s.rest
    rcases h : Pf.next s with ⟨r, s'⟩
    rw [h] at hr hn
    dsimp only at hr hn ⊢
    split
    · rfl
    · rename_i hc
      have hw0 : (decodeRune s.rest).2 ≠ 0 := by
        intro h0; rw [if_pos h0] at hr; apply hc; rw [hr]; decide
      apply commentLoop_cur f s'
      rw [hn, List.length_drop]; omega

/-- the start state on `#` hands over to `lexLineComment` -/
theorem start_on_hash (f : Nat) (s : Whole) (T : List Token)
    (hw : (decodeRune s.rest).2 ≠ 0) (hh : (decodeRune s.rest).1 = 35) :
    lexStep Pf f .start ⟨s, T⟩ = (.comment, ⟨(Pf.next s).2, T⟩) := by
  have hr := Pf_next_rune s
  rw [if_neg hw, hh] at hr
  simp only [lexStep, hr]
  rfl

/-! ## leading layout is skipped -/

theorem stripSp_le : ∀ (k : Nat) (b : Bytes), (stripSp k b).length ≤ b.length
  | 0, _ => Nat.le_refl _
  | k+1, b => by
    unfold stripSp
    split
    · exact Nat.le_trans (stripSp_le k _) (by simp)
    · exact Nat.le_refl _

theorem dropComment_le : ∀ (k : Nat) (b : Bytes), (dropComment k b).length ≤ b.length
  | 0, _ => Nat.le_refl _
  | k+1, b => by
    unfold dropComment
    split
    · exact Nat.le_refl _
    · exact Nat.le_trans (dropComment_le k _) (by simp)

/-- one separator: a run of whitespace, or a `#` comment up to its line end -/
def skip1 (f : Nat) (a : Bytes) : Bytes :=
  if (decodeRune a).2 ≠ 0 ∧ isSpaceR (decodeRune a).1 = true then stripSp f (a.drop (decodeRune a).2)
  else if (decodeRune a).2 ≠ 0 ∧ (decodeRune a).1 = 35 then dropComment f (a.drop (decodeRune a).2)
  else a

theorem skip1_le (f : Nat) (a : Bytes) : (skip1 f a).length ≤ a.length := by
  unfold skip1
  split
  · exact Nat.le_trans (stripSp_le _ _) (by simp)
  · split
    · exact Nat.le_trans (dropComment_le _ _) (by simp)
    · exact Nat.le_refl _

/-- tokens (newest first, positions 0) lexed from the start state with `a` unread -/
def toksFrom (f n : Nat) (a : Bytes) : List Token :=
  (lexRun Pf f n .start ⟨⟨0, [], a, 0⟩, []⟩).toks

theorem toksFrom_more (f k n : Nat) (a : Bytes) (hn : 3 * a.length + 1 ≤ n) :
    toksFrom (f+1) (n + k) a = toksFrom (f+1) n a := by
  unfold toksFrom
  rw [lexRun_more Pf.meas f k n .start _ (by simp) (fun h => by cases h) (by simp only [lexPot]; exact hn)]

/-- **One separator in front of the remaining input produces no token** and leaves the
lexer in its start state behind it. -/
theorem skip1_toks (f n : Nat) (a : Bytes) (hn : 3 * a.length + 1 ≤ n) (hf : a.length ≤ f) :
    toksFrom (f+1) (n + 2) a = toksFrom (f+1) (n + 2) (skip1 (f+1) a) := by
  have hle := skip1_le (f+1) a
  rw [toksFrom_more f 2 n (skip1 (f+1) a) (by omega)]
  unfold skip1 at hle ⊢
  by_cases hsp : (decodeRune a).2 ≠ 0 ∧ isSpaceR (decodeRune a).1 = true
  · rw [if_pos hsp] at hle ⊢
    unfold toksFrom
    rw [lexRun, start_on_space (f+1) ⟨0, [], a, 0⟩ [] hsp.1 hsp.2]
    dsimp only
    rw [lexRun]
    simp only [lexStep]
    have hrest := acceptRun_spaces (f+1) false (Pf.next ⟨0, [], a, 0⟩).2
    rw [Pf_next_rest] at hrest
    dsimp only at hrest
    exact lexFrom_indep (f+1) n _ _ [] ⟨rfl, hrest⟩
  · rw [if_neg hsp] at hle ⊢
    by_cases hh : (decodeRune a).2 ≠ 0 ∧ (decodeRune a).1 = 35
    · rw [if_pos hh] at hle ⊢
      unfold toksFrom
      rw [lexRun, start_on_hash (f+1) ⟨0, [], a, 0⟩ [] hh.1 hh.2]
      dsimp only
      rw [lexRun]
      simp only [lexStep]
      have hrest := commentLoop_rest (f+1) (Pf.next ⟨0, [], a, 0⟩).2
      rw [Pf_next_rest] at hrest
      dsimp only at hrest
      have hcur : (commentLoop Pf (f+1) (Pf.next ⟨0, [], a, 0⟩).2).cur = [] := by
        apply commentLoop_cur
        rw [Pf_next_rest]; simp only [List.length_drop]; omega
      exact lexFrom_indep (f+1) n _ _ [] ⟨hcur, hrest⟩
    · rw [if_neg hh]
      exact toksFrom_more f 2 n a hn

end Bclv
