import Bclv.Proofs.ParserScoped3
/-!
# The parser never runs out of its step budget (fuel `4·tokens + 16`)

Measure: the number of tokens not yet loaded (`rest.length`).  Every loop of the parser
consumes a token per iteration or ends, provided the token list ends with a finalizer
(`tEOF`/`tFAIL`), which the lexer always appends.
-/
namespace Bclv

/-- the last token of a non-empty list is a finalizer -/
def lastEnd : List Token → Bool
  | [] => false
  | [t] => t.typ.isEnd
  | _ :: ts => lastEnd ts

/-- the tokens still to come (current one included) end with a finalizer -/
def TE (p : PState) : Prop := lastEnd (p.cur :: p.rest) = true

def tm (p : PState) : Nat := p.rest.length

theorem lastEnd_cons_cons (a b : Token) (ts : List Token) : lastEnd (a :: b :: ts) = lastEnd (b :: ts) := rfl

/-- what the token-consuming helpers do to the measure -/
structure Tk (p p' : PState) : Prop where
  te : TE p'
  le : tm p' ≤ tm p
  stuck : p'.stuck = p.stuck

theorem Tk.refl {p : PState} (h : TE p) : Tk p p := ⟨h, Nat.le_refl _, rfl⟩
theorem Tk.trans {a b c : PState} (h1 : Tk a b) (h2 : Tk b c) : Tk a c :=
  ⟨h2.te, Nat.le_trans h2.le h1.le, h2.stuck.trans h1.stuck⟩

/-- `m` never loads tokens back, keeps the finalizer at the end and does not touch `stuck` -/
structure TkR {α : Type} (m : PM α) : Prop where
  h : ∀ p, TE p → Tk p (m p).2

theorem TkR.pure {α} (a : α) : TkR (pure a : PM α) := ⟨fun _ h => Tk.refl h⟩
theorem TkR.bind {α β} {m : PM α} {f : α → PM β} (hm : TkR m) (hf : ∀ a, TkR (f a)) : TkR (m >>= f) :=
  ⟨fun p hp => (hm.h p hp).trans ((hf _).h _ (hm.h p hp).te)⟩
theorem TkR.get : TkR (get : PM PState) := ⟨fun _ h => Tk.refl h⟩
theorem TkR.ite {α} {c : Prop} [Decidable c] {x y : PM α} (hx : TkR x) (hy : TkR y) : TkR (if c then x else y) := by
  split <;> assumption
theorem TkR.modify_frame {g : PState → PState}
    (h1 : ∀ p, (g p).rest = p.rest) (h2 : ∀ p, (g p).cur = p.cur) (h3 : ∀ p, (g p).stuck = p.stuck) :
    TkR (_root_.modify g : PM Unit) := by
  refine ⟨fun p hp => ?_⟩
  show Tk p (g p)
  refine ⟨?_, ?_, h3 p⟩
  · unfold TE; rw [h1, h2]; exact hp
  · unfold tm; rw [h1]; exact Nat.le_refl _
theorem TkR.forIn {α β : Type} (l : List α) (f : α → β → PM (ForInStep β)) (hf : ∀ a b, TkR (f a b)) :
    ∀ (init : β), TkR (forIn l init f) := by
  induction l with
  | nil => intro init; simp only [List.forIn_nil]; exact TkR.pure _
  | cons x xs ih =>
    intro init
    simp only [List.forIn_cons]
    apply TkR.bind (hf x init)
    intro r
    cases r with
    | done b => exact TkR.pure _
    | yield b => exact ih b

theorem wp_tk {α} {m : PM α} (hs : TkR m) {p : PState} {Q : α → PState → Prop} (hte : TE p)
    (k : ∀ a p', Tk p p' → Q a p') : wp m Q p := k _ _ (hs.h p hte)

theorem wp_seq {α β} (m : PM α) (k : α → PM β) (Q : β → PState → Prop) (p : PState)
    (h : wp (k (m p).1) Q (m p).2) : wp m (fun a p' => wp (k a) Q p') p := h

syntax "tkr_known" : tactic
macro_rules | `(tactic| tkr_known) => `(tactic| exact TkR.pure _)
macro_rules | `(tactic| tkr_known) => `(tactic| exact TkR.get)

macro "tkr" : tactic => `(tactic| repeat' (first
  | assumption
  | tkr_known
  | apply TkR.bind
  | apply TkR.ite
  | apply TkR.forIn
  | (apply TkR.modify_frame <;> intro _ <;> rfl)
  | intro _
  | split
  | dsimp only))

theorem errorAt_tkr (t : Token) (msg : Bytes) : TkR (errorAt t msg) := by unfold errorAt; tkr
macro_rules | `(tactic| tkr_known) => `(tactic| exact errorAt_tkr _ _)
theorem errorAtCurrent_tkr (msg : Bytes) : TkR (errorAtCurrent msg) := by
  unfold errorAtCurrent; exact TkR.bind TkR.get (fun _ => errorAt_tkr _ _)
macro_rules | `(tactic| tkr_known) => `(tactic| exact errorAtCurrent_tkr _)
theorem error_tkr (msg : Bytes) : TkR (error msg) := by
  unfold error; exact TkR.bind TkR.get (fun _ => errorAt_tkr _ _)
macro_rules | `(tactic| tkr_known) => `(tactic| exact error_tkr _)

/-- `advanceLoop ts`: the new current token and rest are a suffix of `ts`. -/
theorem advanceLoop_wp : ∀ (ts : List Token) (q : PState), (ts = [] → lastEnd [q.cur] = true) → (ts ≠ [] → lastEnd ts = true) →
    wp (advanceLoop ts) (fun _ q' => TE q' ∧ q'.rest.length ≤ ts.length - 1 ∧ q'.stuck = q.stuck ∧ q'.prev = q.prev) q
  | [], q, h1, _ => by
    unfold advanceLoop
    rw [wp_modify]
    exact ⟨h1 rfl, by simp, rfl, rfl⟩
  | t :: ts, q, _, h2 => by
    have hl := h2 (by simp)
    unfold advanceLoop
    rw [wp_bind, wp_modify]
    split
    · rename_i herr
      have hts : ts ≠ [] := by
        intro hnil; subst hnil
        simp only [lastEnd] at hl
        have : t.typ = .ERR := by simpa using herr
        rw [this] at hl
        exact absurd hl (by decide)
      have hl' : lastEnd ts = true := by
        cases ts with
        | nil => exact absurd rfl hts
        | cons a as => exact hl
      rw [wp_bind]
      have hprev : ∀ (q0 : PState), (errorAtCurrent t.err q0).2.prev = q0.prev := fun _ => rfl
      have hk := (errorAtCurrent_tkr t.err).h
        { q with cur := t, rest := ts, tokens := q.tokens + 1, hadLexFail := q.hadLexFail || t.typ == .FAIL }
        (by unfold TE; exact hl)
      apply wp_seq
      apply wp_mono (advanceLoop_wp ts _ (fun h => absurd h hts) (fun _ => hl'))
      intro _ q' hq
      refine ⟨hq.1, ?_, ?_, ?_⟩
      · have := hq.2.1; simp only [List.length_cons]; omega
      · rw [hq.2.2.1, hk.stuck]
      · rw [hq.2.2.2, hprev]
    · rw [wp_pure]
      exact ⟨by unfold TE; exact hl, by simp, rfl, rfl⟩

/-- **`advance`** loads the next token: the measure does not grow, and it shrinks when the
current token is not a finalizer. -/
theorem advance_wp (p : PState) (hte : TE p) :
    wp advance (fun _ p' => Tk p p' ∧ (p.cur.typ.isEnd = false → tm p' < tm p) ∧ p'.prev = p.cur) p := by
  unfold advance
  rw [wp_bind, wp_modify, wp_bind, wp_get]
  have h1 : p.rest = [] → lastEnd [p.cur] = true := by
    intro h; unfold TE at hte; rw [h] at hte; exact hte
  have h2 : p.rest ≠ [] → lastEnd p.rest = true := by
    intro h; unfold TE at hte
    cases hr : p.rest with
    | nil => exact absurd hr h
    | cons a as => rw [hr] at hte; exact hte
  apply wp_mono (advanceLoop_wp p.rest { p with prev := p.cur } h1 h2)
  intro _ p' hq
  refine ⟨⟨hq.1, by unfold tm; have := hq.2.1; omega, hq.2.2.1⟩, ?_, hq.2.2.2⟩
  intro hne
  have hne' : p.rest ≠ [] := by
    intro h
    have := h1 h
    simp only [lastEnd] at this
    rw [hne] at this; cases this
  unfold tm
  have := hq.2.1
  have hpos : 0 < p.rest.length := by cases hr : p.rest with | nil => exact absurd hr hne' | cons a as => simp
  omega

theorem advance_tkr : TkR advance := ⟨fun p hp => (advance_wp p hp).1⟩
macro_rules | `(tactic| tkr_known) => `(tactic| exact advance_tkr)

end Bclv
