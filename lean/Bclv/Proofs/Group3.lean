import Bclv.Proofs.Group2
import Bclv.Proofs.Grammar5
/-!
# Statements and programs read as the tree the parser returns

`RdS`/`RdB`/`RdProg` extend the reading relation of `Group1` from expressions to statements,
block bodies and whole programs: which statement each keyword starts, where the optional `;`
may stand, and every expression inside read by the precedence table.  `stmts_rd`/`topLoop_rd`
prove that what the statement parser consumes without reporting an error reads as the shape
of the tree it returns.
-/
namespace Bclv

mutual
inductive ShS where
  | var0 | var1 (e : Sh) | print (e : Sh) | eval (e : Sh) | block (body : ShSs) | bind | bad
inductive ShSs where
  | nil | cons (s : ShS) (rest : ShSs)
end

mutual
def shapeS : Stmt → ShS
  | .var none _ => .var0
  | .var (some e) _ => .var1 (shape e)
  | .print e _ => .print (shape e)
  | .eval e _ => .eval (shape e)
  | .block _ _ _ body _ _ => .block (shapeSs body)
  | .bind .. => .bind
  | .bad => .bad
def shapeSs : Stmts → ShSs
  | .nil => .nil
  | .cons s rest => .cons (shapeS s) (shapeSs rest)
end

/-! Statements and block bodies; the flag says whether a bare expression may stand as a statement
(inside a block, where it is the same statement as `eval e`). -/
mutual
inductive RdS : Bool → ShS → List TokType → Prop
  | var0 (b : Bool) : RdS b .var0 [.VAR, .IDENT]
  | var1 (b : Bool) (s : Sh) (e : List TokType) : Rd precAssign s e 0 → RdS b (.var1 s) (.VAR :: .IDENT :: .EQ :: e)
  | print (b : Bool) (s : Sh) (e : List TokType) : Rd precAssign s e 0 → RdS b (.print s) (.PRINT :: e)
  | eval (b : Bool) (s : Sh) (e : List TokType) : Rd precAssign s e 0 → RdS b (.eval s) (.EVAL :: e)
  | block (b : Bool) (ss : ShSs) (nm body : List TokType) : (nm = [] ∨ nm = [.STR]) → RdB ss body →
      RdS b (.block ss) (.DEF :: .IDENT :: (nm ++ .LCURLY :: (body ++ [.RCURLY])))
  | bind (b : Bool) (sel : List TokType) : (sel = [] ∨ sel = [.COLON, .INT] ∨ sel = [.COLON, .IDENT]) →
      RdS b .bind (.BIND :: .IDENT :: (sel ++ [.ARROW, .IDENT]))
  | expr (s : Sh) (e : List TokType) : Rd precAssign s e 0 → RdS true (.eval s) e
inductive RdB : ShSs → List TokType → Prop
  | nil : RdB .nil []
  | cons (s : ShS) (ss : ShSs) (ts rest : List TokType) : RdS true s ts → RdB ss rest → RdB (.cons s ss) (ts ++ rest)
  | consSemi (s : ShS) (ss : ShSs) (ts rest : List TokType) : RdS true s ts → RdB ss rest →
      RdB (.cons s ss) (ts ++ .SEMICOLON :: rest)
end

/-- a whole program: toplevel statements, each optionally followed by `;` -/
inductive RdProg : ShSs → List TokType → Prop
  | nil : RdProg .nil []
  | cons (s : ShS) (ss : ShSs) (ts rest : List TokType) : RdS false s ts → RdProg ss rest → RdProg (.cons s ss) (ts ++ rest)
  | consSemi (s : ShS) (ss : ShSs) (ts rest : List TokType) : RdS false s ts → RdProg ss rest →
      RdProg (.cons s ss) (ts ++ .SEMICOLON :: rest)

/-- an expression where the statement parser asks for one -/
theorem expr_rd0 (f : Nat) (p : PState) (hi : GInv p) :
    wp (expr f) (fun e p' => GM p p' ∧ (NE p' → ∃ sk, Skips sk p p' ∧ Rd precAssign (shape e) (typs sk) 0)) p := by
  apply wp_mono (expr_rd f p hi)
  intro e p' hq
  refine ⟨hq.1, fun hne => ?_⟩
  obtain ⟨sk, hs, hr, hlt⟩ := hq.2 hne
  have hz : fprec p' = 0 := by unfold precAssign at hlt; omega
  rw [hz] at hr
  exact ⟨sk, hs, hr⟩

theorem varDecl_rd (f : Nat) (p : PState) (hi : GInv p) :
    wp (varDecl f) (fun st p' => GM p p' ∧ (NE p' → ∃ sk, Skips sk p p' ∧
      ((typs sk = [.IDENT] ∧ shapeS st = .var0) ∨
       ∃ e s, typs sk = .IDENT :: .EQ :: e ∧ shapeS st = .var1 s ∧ Rd precAssign s e 0))) p := by
  unfold varDecl
  rw [wp_bind]
  apply wp_mono (consume_cons .IDENT _ (by decide) p hi)
  intro _ p1 hq1
  obtain ⟨hg1, hc1⟩ := hq1
  rw [wp_bind, wp_get]
  split
  · rename_i hpm
    rw [wp_pure]
    exact ⟨hg1, fun hne => absurd hne (ne_false_of_panic hg1.inv hpm)⟩
  · rw [wp_bind]
    apply wp_tf declVar_gr declVar_tf hg1.inv
    intro _ p2 hg2 hcur2 hrest2 _
    rw [wp_bind]
    apply wp_mono (match_cons .EQ (by decide) p2 hg2.inv)
    intro b p3 hq3
    obtain ⟨hg3, hf3, ht3⟩ := hq3
    split
    · rename_i hb
      obtain ⟨heq, _, hs3⟩ := ht3 hb
      rw [wp_bind]
      apply wp_mono (expr_rd0 f p3 hg3.inv)
      intro e p4 hq4
      rw [wp_bind, wp_pure, wp_bind]
      apply wp_tf markInitialized_gr markInitialized_tf hq4.1.inv
      intro _ p5 hg5 hcur5 hrest5 _
      rw [wp_pure]
      refine ⟨(((hg1.trans hg2).trans hg3).trans hq4.1).trans hg5, fun hne => ?_⟩
      have hne4 : NE p4 := hg5.ne hne
      have hne3 : NE p3 := hq4.1.ne hne4
      have hne1 : NE p1 := hg2.ne (hg3.ne hne3)
      obtain ⟨ht1, _, hs1⟩ := hc1 hne1.1
      obtain ⟨sk4, hs4, hk4⟩ := hq4.2 hne4
      refine ⟨[p.cur] ++ [p2.cur] ++ sk4, ?_, .inr ⟨typs sk4, shape e, by simp [ht1, heq], rfl, hk4⟩⟩
      have h23 := hs3 hne3.1
      unfold Skips at hs1 h23 hs4 ⊢
      rw [hs1, ← hcur2, ← hrest2, h23, hs4, hcur5, hrest5]; simp
    · rename_i hb
      obtain ⟨rfl, _⟩ := hf3 (by simpa using hb)
      rw [wp_bind, wp_get, wp_bind, wp_pure, wp_bind]
      apply wp_tf markInitialized_gr markInitialized_tf hg2.inv
      intro _ p5 hg5 hcur5 hrest5 _
      rw [wp_pure]
      refine ⟨(hg1.trans hg2).trans hg5, fun hne => ?_⟩
      have hne1 : NE p1 := hg2.ne (hg5.ne hne)
      obtain ⟨ht1, _, hs1⟩ := hc1 hne1.1
      refine ⟨[p.cur], ?_, .inl ⟨by simp [ht1], rfl⟩⟩
      unfold Skips at hs1 ⊢
      rw [hs1, hcur5, hrest5, hcur2, hrest2]

def SPostT (p : PState) : Stmt → PState → Prop := fun st p' =>
  GM p p' ∧ p'.depth = p.depth ∧ (NE p' → ∃ sk, Skips sk p p' ∧ RdS (inBlk p) (shapeS st) (typs sk))

/-- tokens of a block definition after the `def` keyword, with the body's shape -/
def isDefTailT (ss : ShSs) (ts : List TokType) : Prop :=
  ∃ nm body, (nm = [] ∨ nm = [.STR]) ∧ RdB ss body ∧ ts = .IDENT :: (nm ++ .LCURLY :: (body ++ [.RCURLY]))

def BPostT (p : PState) : Stmt → PState → Prop := fun st p' =>
  GM p p' ∧ p'.depth = p.depth ∧ (NE p' → ∃ sk ss, Skips sk p p' ∧ shapeS st = .block ss ∧ isDefTailT ss (typs sk))

def LPostT (p : PState) : Stmts → PState → Prop := fun sts p' =>
  GM p p' ∧ p'.depth = p.depth ∧ (NE p' → ∃ sk, Skips sk p p' ∧ RdB (shapeSs sts) (typs sk) ∧
    (p'.cur.typ = .RCURLY ∨ p'.cur.typ.isEnd = true))

theorem wp_any {α} (m : PM α) (p : PState) (Q : α → PState → Prop) (h : ∀ a p', Q a p') : wp m Q p := h _ _

theorem bindStmt_shape0 (p : PState) : wp bindStmt (fun st p' => shapeS st = .bind ∨ p'.panicMode = true) p := by
  unfold bindStmt
  rw [wp_bind]
  apply wp_any; intro _ p1
  rw [wp_bind, wp_get]
  split
  · rename_i h; rw [wp_pure]; right; simpa using h
  · rw [wp_bind, wp_get, wp_bind]
    apply wp_any; intro sel p2
    rw [wp_bind]
    apply wp_any; intro _ p3
    rw [wp_bind, wp_get]
    split
    · rename_i h; rw [wp_pure]; right; simpa using h
    · rw [wp_bind]
      apply wp_any; intro _ p4
      rw [wp_bind, wp_get]
      split
      · rename_i h; rw [wp_pure]; right; simpa using h
      · rw [wp_bind]
        apply wp_any; intro target p5
        have fin : ∀ (p6 : PState), wp (do
            let q ← get
            if q.panicMode = true then pure Stmt.bad
              else do
                let idx ← identConst p1.prev.val
                let q2 ← get
                pure (Stmt.bind idx (UInt8.ofNat (target % 256 / 16 * 16 + sel % 16)) q2.prev.pos) : PM Stmt)
            (fun st p' => shapeS st = .bind ∨ p'.panicMode = true) p6 := by
          intro p6
          rw [wp_bind, wp_get]
          split
          · rename_i h; rw [wp_pure]; right; simpa using h
          · rw [wp_bind]
            apply wp_any; intro idx p7
            rw [wp_bind, wp_get, wp_pure]
            left; rfl
        dsimp only
        split
        · rw [wp_bind]
          apply wp_any; intro _ p6
          exact fin p6
        · exact fin p5

theorem bindStmt_sh (p : PState) (hi : GInv p) :
    wp bindStmt (fun st p' => GM p p' ∧ (NE p' → ∃ sk, Skips sk p p' ∧ isBindTail (typs sk) ∧ shapeS st = .bind)) p := by
  have h1 := bindStmt_g p hi
  have h2 := bindStmt_shape0 p
  refine ⟨h1.1, fun hne => ?_⟩
  obtain ⟨sk, hs, hb⟩ := h1.2 hne
  refine ⟨sk, hs, hb, ?_⟩
  rcases h2 with h | h
  · exact h
  · exact absurd hne (ne_false_of_panic h1.1.inv h)

theorem stmt_t_step (f : Nat)
    (ihB : ∀ p, GInv p → wp (blockStmt f) (BPostT p) p)
    (p : PState) (hi : GInv p) : wp (stmt (f+1)) (SPostT p) p := by
  unfold stmt
  rw [wp_bind]
  apply wp_mono (wp_dp (match_cons .PRINT (by decide) p hi) (match_dp _))
  intro b1 p1 hq1
  obtain ⟨⟨hg1, hf1, ht1⟩, hd1⟩ := hq1
  -- `kw expr`
  have kwexpr : ∀ (kw : TokType) (mk : Expr → Nat → Stmt) (q : PState), GM p q → q.depth = p.depth →
      p.cur.typ = kw → (q.hadError = false → Skips [p.cur] p q) →
      (∀ e n ts, Rd precAssign (shape e) ts 0 → RdS (inBlk p) (shapeS (mk e n)) (kw :: ts)) →
      wp (do let e ← expr f; return mk e (← get).prev.pos) (SPostT p) q := by
    intro kw mk q hgq hdq hkw hsq hG
    rw [wp_bind]
    have hd := (expr_dp f).h q
    apply wp_mono (show wp (expr f) (fun e p' => (GM q p' ∧ (NE p' → ∃ sk, Skips sk q p' ∧ Rd precAssign (shape e) (typs sk) 0)) ∧ p'.depth = q.depth) q from ⟨expr_rd0 f q hgq.inv, hd⟩)
    intro e p2 hq2
    rw [wp_bind, wp_get, wp_pure]
    refine ⟨hgq.trans hq2.1.1, hq2.2.trans hdq, fun hne => ?_⟩
    obtain ⟨sk, hs, hk⟩ := hq2.1.2 hne
    have hneq : NE q := hq2.1.1.ne hne
    refine ⟨[p.cur] ++ sk, (hsq hneq.1).trans hs, ?_⟩
    simpa [hkw] using hG e _ _ hk
  split
  · rename_i hb
    obtain ⟨hc, _, hs⟩ := ht1 hb
    exact kwexpr .PRINT _ p1 hg1 hd1 hc hs (fun e n ts he => RdS.print _ _ ts he)
  · rename_i hb
    obtain ⟨rfl, _⟩ := hf1 (by simpa using hb)
    rw [wp_bind]
    apply wp_mono (wp_dp (match_cons .EVAL (by decide) p1 hi) (match_dp _))
    intro b2 p2 hq2
    obtain ⟨⟨hg2, hf2, ht2⟩, hd2⟩ := hq2
    split
    · rename_i hb
      obtain ⟨hc, _, hs⟩ := ht2 hb
      exact kwexpr .EVAL _ p2 hg2 hd2 hc hs (fun e n ts he => RdS.eval _ _ ts he)
    · rename_i hb
      obtain ⟨rfl, _⟩ := hf2 (by simpa using hb)
      rw [wp_bind]
      apply wp_mono (wp_dp (match_cons .DEF (by decide) p2 hi) (match_dp _))
      intro b3 p3 hq3
      obtain ⟨⟨hg3, hf3, ht3⟩, hd3⟩ := hq3
      split
      · rename_i hb
        obtain ⟨hc, _, hs⟩ := ht3 hb
        apply wp_mono (ihB p3 hg3.inv)
        intro st p4 hq4
        refine ⟨hg3.trans hq4.1, hq4.2.1.trans hd3, fun hne => ?_⟩
        obtain ⟨sk, ss, hs4, hsh, nm, body, hnm, hbody, htoks⟩ := hq4.2.2 hne
        have hne3 : NE p3 := hq4.1.ne hne
        refine ⟨[p2.cur] ++ sk, (hs hne3.1).trans hs4, ?_⟩
        rw [hsh]
        have := RdS.block (inBlk p2) ss nm body hnm hbody
        simpa [hc, htoks] using this
      · rename_i hb
        obtain ⟨rfl, _⟩ := hf3 (by simpa using hb)
        rw [wp_bind]
        apply wp_mono (wp_dp (match_cons .BIND (by decide) p3 hi) (match_dp _))
        intro b4 p4 hq4
        obtain ⟨⟨hg4, hf4, ht4⟩, hd4⟩ := hq4
        split
        · rename_i hb
          obtain ⟨hc, _, hs⟩ := ht4 hb
          have hd := bindStmt_dp.h p4
          apply wp_mono (show wp bindStmt (fun st p' => (GM p4 p' ∧ (NE p' → ∃ sk, Skips sk p4 p' ∧ isBindTail (typs sk) ∧ shapeS st = .bind)) ∧ p'.depth = p4.depth) p4 from ⟨bindStmt_sh p4 hg4.inv, hd⟩)
          intro st p5 hq5
          refine ⟨hg4.trans hq5.1.1, hq5.2.trans hd4, fun hne => ?_⟩
          obtain ⟨sk, hs5, ⟨sel, hsel, htoks⟩, hsh⟩ := hq5.1.2 hne
          have hne4 : NE p4 := hq5.1.1.ne hne
          refine ⟨[p3.cur] ++ sk, (hs hne4.1).trans hs5, ?_⟩
          rw [hsh]
          have := RdS.bind (inBlk p3) sel hsel
          simpa [hc, htoks] using this
        · rename_i hb
          obtain ⟨rfl, _⟩ := hf4 (by simpa using hb)
          rw [wp_bind, wp_get]
          split
          · rename_i hdepth
            rw [wp_bind]
            have hd := (expr_dp f).h p4
            apply wp_mono (show wp (expr f) (fun e p' => (GM p4 p' ∧ (NE p' → ∃ sk, Skips sk p4 p' ∧ Rd precAssign (shape e) (typs sk) 0)) ∧ p'.depth = p4.depth) p4 from ⟨expr_rd0 f p4 hi, hd⟩)
            intro e p5 hq5
            rw [wp_bind, wp_get, wp_pure]
            refine ⟨hq5.1.1, hq5.2, fun hne => ?_⟩
            obtain ⟨sk, hs, hk⟩ := hq5.1.2 hne
            refine ⟨sk, hs, ?_⟩
            have hin : inBlk p4 = true := by unfold inBlk; simpa using hdepth
            rw [hin]
            exact RdS.expr _ _ hk
          · rw [wp_bind]
            apply wp_mono (wp_dp (errorAtCurrent_wp _ p4 hi) (errorAtCurrent_dp _))
            intro _ p5 hq5
            rw [wp_pure]
            exact ⟨hq5.1.1, hq5.2, fun hne => absurd hne (ne_false_of_err hq5.1.2)⟩

theorem decl_t_step (f : Nat)
    (ihS : ∀ p, GInv p → wp (stmt f) (SPostT p) p)
    (p : PState) (hi : GInv p) : wp (decl (f+1)) (SPostT p) p := by
  have fin : ∀ (st : Stmt) (p2 : PState), SPostT p st p2 →
      wp (do
        let q ← get
        if (q.panicMode && q.depth == 0) = true then sync f
        return st : PM Stmt) (SPostT p) p2 := by
    intro st p2 hq
    rw [wp_bind, wp_get]
    dsimp only
    split
    · rename_i hc
      have hpm : p2.panicMode = true := by
        cases h : p2.panicMode
        · rw [h] at hc; simp at hc
        · rfl
      rw [wp_bind]
      apply wp_mono (wp_dp (show wp (sync f) (fun _ p' => GM p2 p') p2 from (sync_gr f).h p2 hq.1.inv) (sync_dp f))
      intro _ p3 hq3
      rw [wp_pure]
      exact ⟨hq.1.trans hq3.1, hq3.2.trans hq.2.1, fun hne =>
        absurd (hq3.1.ne hne) (ne_false_of_panic hq.1.inv hpm)⟩
    · rw [wp_pure]; exact hq
  unfold decl
  rw [wp_bind]
  apply wp_mono (wp_dp (match_cons .VAR (by decide) p hi) (match_dp _))
  intro b1 p1 hq1
  obtain ⟨⟨hg1, hf1, ht1⟩, hd1⟩ := hq1
  dsimp only
  split
  · rename_i hb
    obtain ⟨hc, _, hs⟩ := ht1 hb
    rw [wp_bind]
    apply wp_mono (wp_dp (varDecl_rd f p1 hg1.inv) (varDecl_dp f))
    intro st p2 hq2
    apply fin
    refine ⟨hg1.trans hq2.1.1, hq2.2.trans hd1, fun hne => ?_⟩
    obtain ⟨sk, hs2, hk⟩ := hq2.1.2 hne
    have hne1 : NE p1 := hq2.1.1.ne hne
    refine ⟨[p.cur] ++ sk, (hs hne1.1).trans hs2, ?_⟩
    rcases hk with ⟨hk, hsh⟩ | ⟨e, s', hk, hsh, he⟩
    · rw [hsh]; simpa [hc, hk] using RdS.var0 (inBlk p)
    · rw [hsh]; simpa [hc, hk] using RdS.var1 (inBlk p) s' e he
  · rename_i hb
    obtain ⟨rfl, _⟩ := hf1 (by simpa using hb)
    rw [wp_bind]
    apply wp_mono (ihS p1 hi)
    intro st p2 hq2
    exact fin st p2 hq2

theorem blockLoop_t_step (f : Nat)
    (ihD : ∀ p, GInv p → wp (decl f) (SPostT p) p)
    (ihL : ∀ p, GInv p → 0 < p.depth → wp (blockLoop f) (LPostT p) p)
    (p : PState) (hi : GInv p) (hdep : 0 < p.depth) : wp (blockLoop (f+1)) (LPostT p) p := by
  unfold blockLoop check checkEnd
  rw [wp_bind, wp_bind, wp_get, wp_pure, wp_bind, wp_bind, wp_get, wp_pure]
  split
  · rename_i hc
    rw [wp_pure]
    refine ⟨GM.refl hi, rfl, fun _ => ⟨[], rfl, RdB.nil, ?_⟩⟩
    simp only [Bool.or_eq_true, beq_iff_eq] at hc
    exact hc
  · rw [wp_bind]
    apply wp_mono (ihD p hi)
    intro s p3 hq3
    obtain ⟨hg3, hd3, hs3⟩ := hq3
    have hin : inBlk p = true := by unfold inBlk; simpa using hdep
    have tail : ∀ p4, GM p3 p4 → p4.depth = p3.depth → (NE p4 → p4 = p3) →
        wp (do let _ ← «match» .SEMICOLON; let rest ← blockLoop f; return Stmts.cons s rest) (LPostT p) p4 := by
      intro p4 hg4 hd4 heq4
      rw [wp_bind]
      apply wp_mono (wp_dp (match_cons .SEMICOLON (by decide) p4 hg4.inv) (match_dp _))
      intro b p5 hq5
      obtain ⟨⟨hg5, hf5, ht5⟩, hd5⟩ := hq5
      rw [wp_bind]
      apply wp_mono (ihL p5 hg5.inv (by rw [hd5, hd4, hd3]; exact hdep))
      intro rest p6 hq6
      rw [wp_pure]
      refine ⟨((hg3.trans hg4).trans hg5).trans hq6.1, by rw [hq6.2.1, hd5, hd4, hd3], fun hne => ?_⟩
      obtain ⟨sk6, hs6, hb6, hend⟩ := hq6.2.2 hne
      have hne5 : NE p5 := hq6.1.ne hne
      have hne4 : NE p4 := hg5.ne hne5
      have h43 := heq4 hne4
      subst h43
      obtain ⟨sk3, hsk3, hst3⟩ := hs3 hne4
      rw [hin] at hst3
      cases b with
      | true =>
        obtain ⟨hc5, _, hs5⟩ := ht5 rfl
        refine ⟨sk3 ++ [p4.cur] ++ sk6, (hsk3.trans (hs5 hne5.1)).trans hs6, ?_, hend⟩
        have := RdB.consSemi _ _ _ _ hst3 hb6
        simpa [hc5, shapeSs] using this
      | false =>
        obtain ⟨rfl, _⟩ := hf5 rfl
        refine ⟨sk3 ++ sk6, hsk3.trans hs6, ?_, hend⟩
        have := RdB.cons _ _ _ _ hst3 hb6
        simpa [shapeSs] using this
    rw [wp_bind, wp_get]
    dsimp only
    split
    · rename_i hpm
      rw [wp_bind]
      apply wp_mono (wp_dp (show wp advance (fun _ p' => GM p3 p') p3 from advance_gr.h p3 hg3.inv) advance_dp)
      intro _ p4 hq4
      exact tail p4 hq4.1 hq4.2 (fun hne => absurd (hq4.1.ne hne) (ne_false_of_panic hg3.inv hpm))
    · exact tail p3 (GM.refl hg3.inv) rfl (fun _ => rfl)

theorem blockStmt_t_step (f : Nat)
    (ihL : ∀ p, GInv p → 0 < p.depth → wp (blockLoop f) (LPostT p) p)
    (p : PState) (hi : GInv p) : wp (blockStmt (f+1)) (BPostT p) p := by
  unfold blockStmt
  rw [wp_bind]
  apply wp_mono (wp_dp (consume_cons .IDENT _ (by decide) p hi) (consume_dp _ _))
  intro _ p1 hq1
  obtain ⟨⟨hg1, hc1⟩, hd1⟩ := hq1
  rw [wp_bind, wp_get]
  split
  · rename_i hpm
    rw [wp_pure]
    exact ⟨hg1, hd1, fun hne => absurd hne (ne_false_of_panic hg1.inv hpm)⟩
  · rw [wp_bind, wp_get]
    -- everything from the opening brace on; `nm` is what the optional name consumed
    have tail : ∀ (blockName : Bytes) (nm : List Token) (p2 : PState), GM p1 p2 → p2.depth = p1.depth →
        (NE p2 → Skips nm p1 p2 ∧ (typs nm = [] ∨ typs nm = [.STR])) →
        wp (do
          consume .LCURLY (str "expected '{'")
          let ti ← identConst p1.prev.val
          let ni ← makeConst (.str blockName)
          let openPos := (← get).prev.pos
          beginScope
          let body ← blockLoop f
          if !(← get).hadLexFail then consume .RCURLY (str "expected '}'")
          let closePos := (← get).prev.pos
          let npop ← endScope
          return Stmt.block ti ni openPos body npop closePos) (BPostT p) p2 := by
      intro blockName nm p2 hg2 hd2 hnm
      rw [wp_bind]
      apply wp_mono (wp_dp (consume_cons .LCURLY _ (by decide) p2 hg2.inv) (consume_dp _ _))
      intro _ p3 hq3
      obtain ⟨⟨hg3, hc3⟩, hd3⟩ := hq3
      rw [wp_bind]
      apply wp_mono (wp_dp (show wp (identConst p1.prev.val) (fun _ p' => GM p3 p' ∧ p'.cur = p3.cur ∧ p'.rest = p3.rest) p3 from
        ⟨(identConst_gr _).h p3 hg3.inv, ((identConst_tf _).h p3).1, ((identConst_tf _).h p3).2.1⟩) (identConst_dp _))
      intro ti p4 hq4
      obtain ⟨⟨hg4, hcur4, hrest4⟩, hd4⟩ := hq4
      rw [wp_bind]
      apply wp_mono (wp_dp (show wp (makeConst (.str blockName)) (fun _ p' => GM p4 p' ∧ p'.cur = p4.cur ∧ p'.rest = p4.rest) p4 from
        ⟨(makeConst_gr _).h p4 hg4.inv, ((makeConst_tf _).h p4).1, ((makeConst_tf _).h p4).2.1⟩) (makeConst_dp _))
      intro ni p5 hq5
      obtain ⟨⟨hg5, hcur5, hrest5⟩, hd5⟩ := hq5
      rw [wp_bind, wp_get, wp_bind]
      -- enter the scope
      have hbs : wp beginScope (fun _ q0 => GM p5 q0 ∧ q0.cur = p5.cur ∧ q0.rest = p5.rest ∧ q0.depth = p5.depth + 1) p5 :=
        ⟨beginScope_gr.h p5 hg5.inv, rfl, rfl, rfl⟩
      apply wp_mono hbs
      intro _ q0 hq0
      obtain ⟨hg6, hcur6, hrest6, hd6⟩ := hq0
      rw [wp_bind]
      apply wp_mono (ihL q0 hg6.inv (by omega))
      intro body q1 hq1
      obtain ⟨hg7, hd7, hbody⟩ := hq1
      have hg07 : GM p q1 := (((((hg1.trans hg2).trans hg3).trans hg4).trans hg5).trans hg6).trans hg7
      rw [wp_bind, wp_get]
      have hlf : q1.hadLexFail = false := hg7.inv.lf
      simp only [hlf, Bool.not_false, if_true]
      rw [wp_bind]
      apply wp_mono (wp_dp (consume_cons .RCURLY _ (by decide) q1 hg7.inv) (consume_dp _ _))
      intro _ q2 hq2
      obtain ⟨⟨hg8, hc8⟩, hd8⟩ := hq2
      rw [wp_bind, wp_get, wp_bind]
      have hes : wp endScope (fun _ q3 => GM q2 q3 ∧ q3.cur = q2.cur ∧ q3.rest = q2.rest ∧ q3.depth = q2.depth - 1) q2 :=
        ⟨endScope_gr.h q2 hg8.inv, rfl, rfl, rfl⟩
      apply wp_mono hes
      intro npop q3 hq3'
      obtain ⟨hg9, hcur9, hrest9, hd9⟩ := hq3'
      rw [wp_pure]
      refine ⟨(hg07.trans hg8).trans hg9, by rw [hd9, hd8, hd7, hd6, hd5, hd4, hd3, hd2, hd1]; omega, fun hne => ?_⟩
      have hne8 : NE q2 := hg9.ne hne
      have hne7 : NE q1 := hg8.ne hne8
      have hne3 : NE p3 := hg4.ne (hg5.ne (hg6.ne (hg7.ne hne7)))
      have hne2 : NE p2 := hg3.ne hne3
      have hne1 : NE p1 := hg2.ne hne2
      obtain ⟨ht1, _, hs1⟩ := hc1 hne1.1
      obtain ⟨hsnm, htnm⟩ := hnm hne2
      obtain ⟨ht3, _, hs3⟩ := hc3 hne3.1
      obtain ⟨skb, hsb, hgb, _⟩ := hbody hne7
      obtain ⟨ht8, _, hs8⟩ := hc8 hne8.1
      refine ⟨[p.cur] ++ nm ++ [p2.cur] ++ skb ++ [q1.cur], shapeSs body, ?_, rfl, typs nm, typs skb, htnm, hgb, ?_⟩
      · unfold Skips at hs1 hsnm hs3 hsb hs8 ⊢
        rw [hs1, hsnm, hs3, ← hcur4, ← hrest4, ← hcur5, ← hrest5, ← hcur6, ← hrest6, hsb, hs8, hcur9, hrest9]
        simp
      · simp [ht1, ht3, ht8]
    rw [wp_bind]
    apply wp_mono (wp_dp (match_cons .STR (by decide) p1 hg1.inv) (match_dp _))
    intro b p2 hq2
    obtain ⟨⟨hg2, hf2, ht2⟩, hd2⟩ := hq2
    dsimp only
    split
    · rename_i hb
      obtain ⟨hct, _, hs2⟩ := ht2 hb
      have hnm : NE p2 → Skips [p1.cur] p1 p2 ∧ (typs [p1.cur] = [] ∨ typs [p1.cur] = [.STR]) :=
        fun hne => ⟨hs2 hne.1, .inr (by simp [hct])⟩
      rw [wp_bind, wp_get]
      split
      · exact tail _ [p1.cur] p2 hg2 hd2 hnm
      · rw [wp_bind]
        apply wp_mono (wp_dp (error_wp _ p2 hg2.inv) (error_dp _))
        intro _ p3 hq3
        exact tail _ [] p3 (hg2.trans hq3.1.1) (hq3.2.trans hd2) (fun hne => absurd hne (ne_false_of_err hq3.1.2))
    · rename_i hb
      obtain ⟨rfl, _⟩ := hf2 (by simpa using hb)
      exact tail _ [] p2 hg2 hd2 (fun _ => ⟨rfl, .inl rfl⟩)

/-- **Statements are sentences of the statement grammar.** -/
theorem stmts_rd : ∀ (f : Nat),
    (∀ p, GInv p → wp (decl f) (SPostT p) p) ∧
    (∀ p, GInv p → wp (stmt f) (SPostT p) p) ∧
    (∀ p, GInv p → wp (blockStmt f) (BPostT p) p) ∧
    (∀ p, GInv p → 0 < p.depth → wp (blockLoop f) (LPostT p) p)
  | 0 => by
    refine ⟨?_, ?_, ?_, ?_⟩
    · intro p hi; unfold decl; rw [wp_bind]
      apply wp_mono (stuck_wp p hi); intro _ p1 h; rw [wp_pure]
      exact ⟨h.1, h.2.1, fun hne => absurd hne (ne_false_of_stuck h.2.2)⟩
    · intro p hi; unfold stmt; rw [wp_bind]
      apply wp_mono (stuck_wp p hi); intro _ p1 h; rw [wp_pure]
      exact ⟨h.1, h.2.1, fun hne => absurd hne (ne_false_of_stuck h.2.2)⟩
    · intro p hi; unfold blockStmt; rw [wp_bind]
      apply wp_mono (stuck_wp p hi); intro _ p1 h; rw [wp_pure]
      exact ⟨h.1, h.2.1, fun hne => absurd hne (ne_false_of_stuck h.2.2)⟩
    · intro p hi _; unfold blockLoop; rw [wp_bind]
      apply wp_mono (stuck_wp p hi); intro _ p1 h; rw [wp_pure]
      exact ⟨h.1, h.2.1, fun hne => absurd hne (ne_false_of_stuck h.2.2)⟩
  | f+1 => by
    obtain ⟨ihD, ihS, ihB, ihL⟩ := stmts_rd f
    exact ⟨decl_t_step f ihS, stmt_t_step f ihB, blockStmt_t_step f ihL, blockLoop_t_step f ihD ihL⟩

def TPostT (p : PState) : Stmts → PState → Prop := fun sts p' =>
  GM p p' ∧ (NE p' → ∃ body e rest, p.cur :: p.rest = body ++ e :: rest ∧ e.typ.isEnd = true ∧ RdProg (shapeSs sts) (typs body))

theorem topLoop_rd : ∀ (f : Nat) (p : PState), GInv p → p.depth = 0 → wp (topLoop f) (TPostT p) p
  | 0, p, hi, _ => by
    unfold topLoop; rw [wp_bind]
    apply wp_mono (stuck_wp p hi); intro _ p1 h; rw [wp_pure]
    exact ⟨h.1, fun hne => absurd hne (ne_false_of_stuck h.2.2)⟩
  | f+1, p, hi, hd0 => by
    unfold topLoop matchEnd checkEnd
    rw [wp_bind, wp_bind, wp_bind, wp_get, wp_pure]
    split
    · rename_i hend
      rw [wp_bind]
      apply wp_mono (show wp advance (fun _ p' => GM p p') p from advance_gr.h p hi)
      intro _ p1 hg1
      rw [wp_pure]
      simp only [if_true]
      rw [wp_pure]
      exact ⟨hg1, fun _ => ⟨[], p.cur, p.rest, rfl, hend, RdProg.nil⟩⟩
    · rename_i hend
      rw [wp_pure]
      simp only [Bool.false_eq_true, if_false]
      rw [wp_bind]
      apply wp_mono ((stmts_rd f).1 p hi)
      intro s p2 hq2
      obtain ⟨hg2, hd2, hs2⟩ := hq2
      rw [wp_bind]
      apply wp_mono (wp_dp (match_cons .SEMICOLON (by decide) p2 hg2.inv) (match_dp _))
      intro b p3 hq3
      obtain ⟨⟨hg3, hf3, ht3⟩, hd3⟩ := hq3
      rw [wp_bind]
      apply wp_mono (topLoop_rd f p3 hg3.inv (by rw [hd3, hd2, hd0]))
      intro rest p4 hq4
      rw [wp_pure]
      refine ⟨(hg2.trans hg3).trans hq4.1, fun hne => ?_⟩
      obtain ⟨body, e, rest', htoks, he, hprog⟩ := hq4.2 hne
      have hne3 : NE p3 := hq4.1.ne hne
      have hne2 : NE p2 := hg3.ne hne3
      obtain ⟨sk2, hsk2, hst2⟩ := hs2 hne2
      have hin : inBlk p = false := by unfold inBlk; simp [hd0]
      rw [hin] at hst2
      cases b with
      | true =>
        obtain ⟨hc3, _, hs3⟩ := ht3 rfl
        have h23 := hs3 hne3.1
        refine ⟨sk2 ++ [p2.cur] ++ body, e, rest', ?_, he, ?_⟩
        · unfold Skips at hsk2 h23
          rw [hsk2, h23, htoks]; simp
        · have := RdProg.consSemi _ _ _ _ hst2 hprog
          simpa [hc3, shapeSs] using this
      | false =>
        obtain ⟨rfl, _⟩ := hf3 rfl
        refine ⟨sk2 ++ body, e, rest', ?_, he, ?_⟩
        · unfold Skips at hsk2
          rw [hsk2, htoks]; simp
        · have := RdProg.cons _ _ _ _ hst2 hprog
          simpa [shapeSs] using this


end Bclv
