import Bclv.Proofs.ParserFuel4
/-!
# Error recovery lands on the next statement (C17)

After a syntax error at toplevel, `sync` skips tokens up to — and not beyond — the next
token that starts a statement (`var`, `def`, `print`, `eval`) or the end of the input, and
clears panic mode, so that statement is parsed afresh and an error in it is reported.
-/
namespace Bclv

/-- `q` is reached from `p` by dropping the tokens `sk` from the front of what is to come -/
def Skips (sk : List Token) (p q : PState) : Prop := p.cur :: p.rest = sk ++ (q.cur :: q.rest)

theorem advanceLoop_skips : ∀ (ts : List Token) (q : PState),
    wp (advanceLoop ts) (fun _ q' => (∃ errs, ts = errs ++ (q'.cur :: q'.rest) ∧ (∀ t ∈ errs, t.typ = .ERR) ∧
        (errs = [] → q'.panicMode = q.panicMode)) ∨
      (q'.rest = [] ∧ ∀ t ∈ ts, t.typ = .ERR)) q
  | [], q => by
    unfold advanceLoop
    rw [wp_modify]
    exact .inr ⟨rfl, by simp⟩
  | t :: ts, q => by
    unfold advanceLoop
    rw [wp_bind, wp_modify]
    split
    · rename_i herr
      have ht : t.typ = .ERR := by simpa using herr
      rw [wp_bind]
      apply wp_seq
      apply wp_mono (advanceLoop_skips ts _)
      intro _ q' hq
      rcases hq with ⟨errs, he, hall, _⟩ | ⟨hr, hall⟩
      · left
        refine ⟨t :: errs, by rw [he]; rfl, ?_, by simp⟩
        intro x hx
        rcases List.mem_cons.mp hx with rfl | hx
        · exact ht
        · exact hall x hx
      · right
        refine ⟨hr, ?_⟩
        intro x hx
        rcases List.mem_cons.mp hx with rfl | hx
        · exact ht
        · exact hall x hx
    · rw [wp_pure]
      exact .inl ⟨[], rfl, by simp, fun _ => rfl⟩

theorem lastEnd_mem : ∀ (ts : List Token), lastEnd ts = true → ∃ t ∈ ts, t.typ.isEnd = true
  | [], h => by cases h
  | [t], h => ⟨t, by simp, h⟩
  | _ :: b :: ts, h => by
    obtain ⟨t, ht, he⟩ := lastEnd_mem (b :: ts) h
    exact ⟨t, List.mem_cons_of_mem _ ht, he⟩

/-- `advance` from a token that is not a finalizer: the new current token is the next one
that is not an error token. -/
theorem advance_skips (p : PState) (hte : TE p) (hne : p.cur.typ.isEnd = false) :
    wp advance (fun _ p' => ∃ errs, p.rest = errs ++ (p'.cur :: p'.rest) ∧ (∀ t ∈ errs, t.typ = .ERR) ∧
      (errs = [] → p'.panicMode = p.panicMode)) p := by
  unfold advance
  rw [wp_bind, wp_modify, wp_bind, wp_get]
  have hr : lastEnd p.rest = true := by
    unfold TE at hte
    cases hrest : p.rest with
    | nil => rw [hrest] at hte; simp only [lastEnd] at hte; rw [hte] at hne; cases hne
    | cons a as => rw [hrest] at hte; exact hte
  apply wp_mono (advanceLoop_skips p.rest { p with prev := p.cur })
  intro _ p' hq
  rcases hq with h | ⟨_, hall⟩
  · exact h
  · exfalso
    obtain ⟨t, ht, he⟩ := lastEnd_mem _ hr
    have := hall t ht
    rw [this] at he; cases he

def SyncPost (p : PState) (p' : PState) : Prop :=
  (p'.cur.typ.isEnd = true ∨ isStmtKw p'.cur.typ = true) ∧
  ∃ sk, Skips sk p p' ∧ (∀ t ∈ sk, t.typ.isEnd = false ∧ isStmtKw t.typ = false) ∧
    ((∀ t ∈ sk, t.typ ≠ .ERR) → p'.panicMode = p.panicMode)

theorem syncLoop_lands : ∀ (f : Nat) (p : PState), TE p → Fuel 1 f p → wp (syncLoop f) (fun _ p' => SyncPost p p') p
  | 0, p, _, hf => by unfold Fuel at hf; omega
  | f+1, p, hte, hf => by
    unfold syncLoop checkEnd
    rw [wp_bind, wp_bind, wp_get, wp_pure]
    split
    · rename_i hend
      rw [wp_pure]
      exact ⟨.inl hend, [], rfl, by simp, fun _ => rfl⟩
    · rename_i hend
      have hne : p.cur.typ.isEnd = false := by simpa using hend
      rw [wp_bind, wp_get]
      dsimp only
      split
      · rename_i hkw
        rw [wp_pure]
        exact ⟨.inr (by simpa [isStmtKw] using hkw), [], rfl, by simp, fun _ => rfl⟩
      · rename_i hkw
        have hnk : isStmtKw p.cur.typ = false := by
          cases h : isStmtKw p.cur.typ
          · rfl
          · exfalso; apply hkw; simpa [isStmtKw] using h
        rw [wp_bind]
        have ha := advance_wp p hte
        have hs := advance_skips p hte hne
        -- both facts about the same run of `advance`
        have both : wp advance (fun _ p1 => (Tk p p1 ∧ tm p1 < tm p) ∧
            ∃ errs, p.rest = errs ++ (p1.cur :: p1.rest) ∧ (∀ t ∈ errs, t.typ = .ERR) ∧
              (errs = [] → p1.panicMode = p.panicMode)) p := ⟨⟨ha.1, ha.2.1 hne⟩, hs⟩
        apply wp_mono both
        intro _ p1 hq1
        obtain ⟨⟨hk1, hlt⟩, errs, hrest, herrs, hpm⟩ := hq1
        unfold Fuel at hf
        apply wp_mono (syncLoop_lands f p1 hk1.te (by unfold Fuel; omega))
        intro _ p2 hq2
        obtain ⟨hland, sk, hsk, hall, hpm2⟩ := hq2
        refine ⟨hland, p.cur :: errs ++ sk, ?_, ?_, ?_⟩
        · unfold Skips at hsk ⊢
          rw [hrest, hsk]; simp
        · intro t ht
          simp only [List.cons_append, List.mem_cons, List.mem_append] at ht
          rcases ht with rfl | ht | ht
          · exact ⟨hne, hnk⟩
          · rw [herrs t ht]; exact ⟨rfl, rfl⟩
          · exact hall t ht
        · intro hno
          have herr0 : errs = [] := by
            cases errs with
            | nil => rfl
            | cons e es =>
              exfalso
              exact hno e (by simp) (herrs e (by simp))
          rw [hpm2 (fun t ht => hno t (by simp [ht])), hpm herr0]

/-- **Recovery lands on the next statement**: `sync` stops at the first token that starts a
statement (or at the end of the input), skips nothing that does, and leaves panic mode off
(unless it had to skip a lexical error token, which the lexer only emits right before its
final `tFAIL`). -/
theorem sync_lands (f : Nat) (p : PState) (hte : TE p) (hf : Fuel 1 f p) :
    wp (sync f) (fun _ p' =>
      (p'.cur.typ.isEnd = true ∨ isStmtKw p'.cur.typ = true) ∧
      ∃ sk, Skips sk p p' ∧ (∀ t ∈ sk, t.typ.isEnd = false ∧ isStmtKw t.typ = false) ∧
        ((∀ t ∈ sk, t.typ ≠ .ERR) → p'.panicMode = false)) p := by
  unfold sync
  rw [wp_bind, wp_modify]
  apply wp_mono (syncLoop_lands f { p with panicMode := false } hte hf)
  intro _ p' hq
  exact hq

end Bclv
