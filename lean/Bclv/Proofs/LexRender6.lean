import Bclv.Proofs.LexRender5
namespace Bclv

/-- **What a source text reads as is what the lexer returns**: if `a` reads as `toks`
(`Lexes`: layout, a token text, something that ends it, …), the lexer's tokens are `toks`
followed by the end token — whatever layout stands between the token texts. -/
theorem lexWhole_of_lexes (a : Bytes) (toks : List Token) (h : Lexes (a.length + 1) toks a) :
    (lexWhole a).map eT = toks ++ [eofTok] := by
  rw [lexWhole_erased a a.length (3 * a.length + 4) (Nat.le_refl _) (Nat.le_refl _)]
  have : toksFrom (a.length + 1) (3 * a.length + 4) a = runT (a.length + 1) (3 * a.length + 4) a [] := rfl
  rw [this, lexes_runT a.length toks a h [] _ (Nat.le_refl _) (Nat.le_refl _)]
  simp

/-- **Layout does not matter**: two source texts that read as the same tokens give the same
tokens (up to offsets), hence the same instructions, constants and verdict. -/
theorem same_reading_same_tokens (a b : Bytes) (toks : List Token)
    (ha : Lexes (a.length + 1) toks a) (hb : Lexes (b.length + 1) toks b) :
    (lexWhole a).map eT = (lexWhole b).map eT := by
  rw [lexWhole_of_lexes a toks ha, lexWhole_of_lexes b toks hb]

theorem same_reading_same_program (a b : Bytes) (toks : List Token)
    (ha : Lexes (a.length + 1) toks a) (hb : Lexes (b.length + 1) toks b) :
    (compileP (parseTokens (lexWhole a) (newlinesFrom 0 a)).prog).map Prod.fst
      = (compileP (parseTokens (lexWhole b) (newlinesFrom 0 b)).prog).map Prod.fst ∧
    (parseTokens (lexWhole a) (newlinesFrom 0 a)).consts = (parseTokens (lexWhole b) (newlinesFrom 0 b)).consts ∧
    (parseTokens (lexWhole a) (newlinesFrom 0 a)).ok = (parseTokens (lexWhole b) (newlinesFrom 0 b)).ok :=
  parse_positions_code _ _ _ _ (same_reading_same_tokens a b toks ha hb)

/-! ### non-vacuity: `x=1` and ` x  =  1 # c` + LF read as the same three tokens -/

def exToks : List Token := [identTok [120], { typ := .EQ, val := [61] }, intTok [49]]

theorem ex_ident : Lexeme [120] (identTok [120]) FIdent :=
  lexeme_ident [120] ⟨120, [], rfl, by decide, by simp⟩
theorem ex_eq : Lexeme [61] { typ := .EQ, val := [61] } (fun x => (firstRune x == ((61 : Nat) : Int)) = false) :=
  lexeme_op2first 61 61 .EE .EQ (by decide) (by decide) (by decide)
theorem ex_int : Lexeme [49] (intTok [49]) FInt :=
  lexeme_int [49] ⟨by simp, by intro b hb; simp at hb; subst hb; unfold digitByte; decide⟩

example : Lexes 4 exToks [120, 61, 49] := by
  refine Lexes.tok _ 0 [120] [61, 49] _ _ _ ex_ident rfl (by unfold FIdent; decide) ?_
  refine Lexes.tok _ 0 [61] [49] _ _ _ ex_eq rfl (by decide) ?_
  refine Lexes.tok _ 0 [49] [] _ _ _ ex_int rfl (by unfold FInt; decide) ?_
  exact Lexes.done [] 0 rfl

def exSpaced : Bytes := [32, 120, 32, 32, 61, 32, 32, 49, 32, 35, 32, 99, 10]

example : Lexes (exSpaced.length + 1) exToks exSpaced := by
  refine Lexes.tok _ 1 [120] [32, 32, 61, 32, 32, 49, 32, 35, 32, 99, 10] _ _ _ ex_ident (by decide) (by unfold FIdent; decide) ?_
  refine Lexes.tok _ 1 [61] [32, 32, 49, 32, 35, 32, 99, 10] _ _ _ ex_eq (by decide) (by decide) ?_
  refine Lexes.tok _ 1 [49] [32, 35, 32, 99, 10] _ _ _ ex_int (by decide) (by unfold FInt; decide) ?_
  exact Lexes.done _ 3 (by decide)

/-- so the two texts compile to the same program -/
example : (lexWhole [120, 61, 49]).map eT = (lexWhole exSpaced).map eT := by
  apply same_reading_same_tokens _ _ exToks
  · refine Lexes.tok _ 0 [120] [61, 49] _ _ _ ex_ident rfl (by unfold FIdent; decide) ?_
    refine Lexes.tok _ 0 [61] [49] _ _ _ ex_eq rfl (by decide) ?_
    refine Lexes.tok _ 0 [49] [] _ _ _ ex_int rfl (by unfold FInt; decide) ?_
    exact Lexes.done [] 0 rfl
  · refine Lexes.tok _ 1 [120] [32, 32, 61, 32, 32, 49, 32, 35, 32, 99, 10] _ _ _ ex_ident (by decide) (by unfold FIdent; decide) ?_
    refine Lexes.tok _ 1 [61] [32, 32, 49, 32, 35, 32, 99, 10] _ _ _ ex_eq (by decide) (by decide) ?_
    refine Lexes.tok _ 1 [49] [32, 35, 32, 99, 10] _ _ _ ex_int (by decide) (by unfold FInt; decide) ?_
    exact Lexes.done _ 3 (by decide)

end Bclv
