import Bclv.Spec.Sem
/-!
# Invariants of the evaluator: what expressions and statements can and cannot change
-/
namespace Bclv

/-- Same block frames: same depth, same enclosing blocks, and the innermost block
keeps its type and name (only its fields may have changed). -/
def SameFrames (a b : List Block) : Prop :=
  match a, b with
  | [], [] => True
  | x :: xs, y :: ys => xs = ys ∧ x.typ = y.typ ∧ x.name = y.name
  | _, _ => False

theorem SameFrames.refl (a : List Block) : SameFrames a a := by
  cases a <;> simp [SameFrames]

theorem SameFrames.trans {a b c : List Block} (h1 : SameFrames a b) (h2 : SameFrames b c) : SameFrames a c := by
  cases a <;> cases b <;> cases c <;> simp_all [SameFrames]

/-- What an expression leaves untouched. -/
structure Pres (s s' : Sem) : Prop where
  result : s'.result = s.result
  binding : s'.binding = s.binding
  out : s'.out = s.out
  log : s'.log = s.log
  frames : SameFrames s.blocks s'.blocks

theorem Pres.refl (s : Sem) : Pres s s := ⟨rfl, rfl, rfl, rfl, SameFrames.refl _⟩

theorem Pres.trans {a b c : Sem} (h1 : Pres a b) (h2 : Pres b c) : Pres a c :=
  ⟨h2.result.trans h1.result, h2.binding.trans h1.binding, h2.out.trans h1.out, h2.log.trans h1.log,
   h1.frames.trans h2.frames⟩

theorem pushV_ok {s s' : Sem} {v : Value} {pos : Nat} (h : pushV s v pos = .ok s') :
    Pres s s' ∧ s'.stack = v :: s.stack := by
  unfold pushV at h
  split at h
  · cases h
  · cases h; exact ⟨⟨rfl, rfl, rfl, rfl, SameFrames.refl _⟩, rfl⟩

theorem setNth_length' {α} (l : List α) (n : Nat) (a : α) : (setNth l n a).length = l.length := by
  induction l generalizing n with
  | nil => rfl
  | cons x xs ih => cases n <;> simp [setNth, ih]

theorem unopSem_ok {op : UnOp} {pos : Nat} {s s' : Sem} (h : unopSem op pos s = .ok s') :
    Pres s s' ∧ s'.stack.length = s.stack.length := by
  unfold unopSem at h
  split at h
  · cases h
  · rename_i hst; cases h; exact ⟨⟨rfl, rfl, rfl, rfl, SameFrames.refl _⟩, by simp [hst]⟩
  · rename_i hst; cases h; exact ⟨⟨rfl, rfl, rfl, rfl, SameFrames.refl _⟩, by simp [hst]⟩
  · rename_i hst; cases h; exact ⟨⟨rfl, rfl, rfl, rfl, SameFrames.refl _⟩, by simp [hst]⟩
  · cases h
  · split at h
    · cases h; exact ⟨Pres.refl _, rfl⟩
    · cases h

theorem binSem_ok {op : BinOp} {pos : Nat} {s s' : Sem} (h : binSem op pos s = .ok s') :
    Pres s s' ∧ s'.stack.length + 1 = s.stack.length := by
  unfold binSem at h
  split at h
  · rename_i bv av rest hst
    simp only at h
    split at h
    · cases h; exact ⟨⟨rfl, rfl, rfl, rfl, SameFrames.refl _⟩, by simp [hst]⟩
    · cases h
  · cases h

theorem Res.bind_ok {r : Res} {f : Sem → Res} {s' : Sem} (h : r.bind f = .ok s') :
    ∃ s1, r = .ok s1 ∧ f s1 = .ok s' := by
  cases r with
  | ok s1 => exact ⟨s1, rfl, h⟩
  | err pos msg => cases h
  | wrong => cases h

/-- An expression pushes exactly one value and changes nothing but the operand stack
and the fields of the innermost block. -/
theorem evalE_pres (p : Prog) (e : Expr) : ∀ (s s' : Sem), evalE p e s = .ok s' →
    Pres s s' ∧ s'.stack.length = s.stack.length + 1 := by
  induction e with
  | lit l pos => intro s s' h; have := pushV_ok h; exact ⟨this.1, by simp [this.2]⟩
  | const idx pos =>
    intro s s' h
    simp only [evalE] at h
    split at h
    · have := pushV_ok h; exact ⟨this.1, by simp [this.2]⟩
    · cases h
  | getLocal slot pos =>
    intro s s' h
    simp only [evalE] at h
    split at h
    · have := pushV_ok h; exact ⟨this.1, by simp [this.2]⟩
    · cases h
  | getField idx pos =>
    intro s s' h
    simp only [evalE] at h
    split at h
    · split at h
      · cases h
      · split at h
        · have := pushV_ok h; exact ⟨this.1, by simp [this.2]⟩
        · cases h
    · cases h
  | setLocal slot e pos ih =>
    intro s s' h
    simp only [evalE] at h
    obtain ⟨s1, h1, h2⟩ := Res.bind_ok h
    have := ih s s1 h1
    split at h2
    · split at h2
      · cases h2
        exact ⟨this.1.trans ⟨rfl, rfl, rfl, rfl, SameFrames.refl _⟩, by simp [setNth_length', this.2]⟩
      · cases h2
    · cases h2
  | setField idx e pos ih =>
    intro s s' h
    simp only [evalE] at h
    obtain ⟨s1, h1, h2⟩ := Res.bind_ok h
    have := ih s s1 h1
    split at h2
    · rename_i name top rest v _ hc hb hst
      split at h2
      · cases h2
      · cases h2
        refine ⟨this.1.trans ⟨rfl, rfl, rfl, rfl, ?_⟩, by simp [this.2]⟩
        simp [hb, SameFrames, Block.typ, Block.name]
    · cases h2
  | un op e pos ih =>
    intro s s' h
    simp only [evalE] at h
    obtain ⟨s1, h1, h2⟩ := Res.bind_ok h
    have a := ih s s1 h1
    have b := unopSem_ok h2
    exact ⟨a.1.trans b.1, by omega⟩
  | bin op a b pos iha ihb =>
    intro s s' h
    simp only [evalE] at h
    obtain ⟨s2, h12, h3⟩ := Res.bind_ok h
    obtain ⟨s1, h1, h2⟩ := Res.bind_ok h12
    have x := iha s s1 h1
    have y := ihb s1 s2 h2
    have z := binSem_ok h3
    exact ⟨(x.1.trans y.1).trans z.1, by omega⟩
  | and a b pos iha ihb =>
    intro s s' h
    simp only [evalE] at h
    obtain ⟨s1, h1, h2⟩ := Res.bind_ok h
    have x := iha s s1 h1
    split at h2
    · rename_i v rest hst
      split at h2
      · cases h2; exact x
      · have y := ihb _ s' h2
        refine ⟨x.1.trans ⟨y.1.result, y.1.binding, y.1.out, y.1.log, y.1.frames⟩, ?_⟩
        have := y.2
        simp only at this
        rw [this]; have := x.2; rw [hst] at this; simp at this; omega
    · cases h2
  | or a b pos iha ihb =>
    intro s s' h
    simp only [evalE] at h
    obtain ⟨s1, h1, h2⟩ := Res.bind_ok h
    have x := iha s s1 h1
    split at h2
    · rename_i v rest hst
      split at h2
      · have y := ihb _ s' h2
        refine ⟨x.1.trans ⟨y.1.result, y.1.binding, y.1.out, y.1.log, y.1.frames⟩, ?_⟩
        have := y.2
        simp only at this
        rw [this]; have := x.2; rw [hst] at this; simp at this; omega
      · cases h2; exact x
    · cases h2
  | bad => intro s s' h; cases h

end Bclv

namespace Bclv

/-- What a statement can change besides the operand stack: output, log, binding,
the fields of the innermost open block, and — only at toplevel — the result, by
appending. -/
structure PresS (s s' : Sem) : Prop where
  frames : SameFrames s.blocks s'.blocks
  inner : s.blocks ≠ [] → s'.result = s.result
  ext : ∃ e, s'.result = s.result ++ e

theorem PresS.refl (s : Sem) : PresS s s := ⟨SameFrames.refl _, fun _ => rfl, [], by simp⟩

theorem sameFrames_ne {a b : List Block} (h : SameFrames a b) : a ≠ [] → b ≠ [] := by
  cases a <;> cases b <;> simp_all [SameFrames]

theorem PresS.trans {a b c : Sem} (h1 : PresS a b) (h2 : PresS b c) : PresS a c := by
  refine ⟨h1.frames.trans h2.frames, ?_, ?_⟩
  · intro hne
    rw [h2.inner (sameFrames_ne h1.frames hne), h1.inner hne]
  · obtain ⟨e1, he1⟩ := h1.ext
    obtain ⟨e2, he2⟩ := h2.ext
    exact ⟨e1 ++ e2, by rw [he2, he1, List.append_assoc]⟩

theorem Pres.toS {s s' : Sem} (h : Pres s s') : PresS s s' :=
  ⟨h.frames, fun _ => h.result, [], by simp [h.result]⟩

theorem popSem_ok {n : Nat} {s s' : Sem} (h : popSem n s = .ok s') : Pres s s' := by
  unfold popSem at h
  split at h
  · cases h; exact ⟨rfl, rfl, rfl, rfl, SameFrames.refl _⟩
  · cases h

theorem printSem_ok {s s' : Sem} (h : printSem s = .ok s') : PresS s s' := by
  unfold printSem at h
  split at h
  · cases h; exact ⟨SameFrames.refl _, fun _ => rfl, [], by simp⟩
  · cases h

theorem bindCore_ok {p : Prog} {ti opt pos : Nat} {s s' : Sem} (h : bindCore p ti opt pos s = .ok s') :
    s'.blocks = s.blocks ∧ s'.result = s.result ∧ s'.stack = s.stack ∧ s'.log = s.log ∧ s'.out = s.out := by
  unfold bindCore at h
  split at h
  · simp only at h
    repeat' split at h
    all_goals first
      | (cases h; exact ⟨rfl, rfl, rfl, rfl, rfl⟩)
      | cases h
  · cases h

theorem bindWarn_fields (p : Prog) (pos : Nat) (s : Sem) :
    (bindWarn p pos s).blocks = s.blocks ∧ (bindWarn p pos s).result = s.result ∧ (bindWarn p pos s).stack = s.stack
    ∧ (bindWarn p pos s).out = s.out := by
  unfold bindWarn; split <;> exact ⟨rfl, rfl, rfl, rfl⟩

theorem bindSem_ok {p : Prog} {ti opt pos : Nat} {s s' : Sem} (h : bindSem p ti opt pos s = .ok s') :
    s'.blocks = s.blocks ∧ s'.result = s.result ∧ s'.stack = s.stack := by
  unfold bindSem at h
  obtain ⟨a, b, c, _, _⟩ := bindCore_ok h
  obtain ⟨a', b', c', _⟩ := bindWarn_fields p pos s
  exact ⟨a.trans a', b.trans b', c.trans c'⟩

/-- Closing a block: at toplevel the block is appended to the result; a nested one is
attached to its parent, which keeps its type and name. -/
theorem endBlockSem_ok {pos : Nat} {s s' : Sem} (h : endBlockSem pos s = .ok s') :
    (∃ b, s.blocks = [b] ∧ s'.blocks = [] ∧ s'.result = s.result ++ [b])
    ∨ (∃ child parent parent' rest, s.blocks = child :: parent :: rest ∧ s'.blocks = parent' :: rest
        ∧ parent'.typ = parent.typ ∧ parent'.name = parent.name ∧ s'.result = s.result) := by
  unfold endBlockSem at h
  split at h
  · cases h
  · rename_i b hb; cases h; exact Or.inl ⟨b, hb, rfl, rfl⟩
  · rename_i child parent rest hb
    simp only at h
    split at h
    · cases h; exact Or.inr ⟨child, parent, _, rest, hb, rfl, rfl, rfl, rfl⟩
    · cases h

mutual
theorem evalS_pres (p : Prog) (st : Stmt) : ∀ (s s' : Sem), evalS p st s = .ok s' → PresS s s' := by
  intro s s' h
  cases st with
  | bad => simp [evalS] at h
  | var init pos =>
    cases init with
    | some e => simp only [evalS] at h; exact (evalE_pres p e s s' h).1.toS
    | none => simp only [evalS] at h; exact (pushV_ok h).1.toS
  | print e pos =>
    simp only [evalS] at h
    obtain ⟨s1, h1, h2⟩ := Res.bind_ok h
    exact (evalE_pres p e s s1 h1).1.toS.trans (printSem_ok h2)
  | eval e pos =>
    simp only [evalS] at h
    obtain ⟨s1, h1, h2⟩ := Res.bind_ok h
    exact (evalE_pres p e s s1 h1).1.toS.trans (popSem_ok h2).toS
  | bind ti opt pos =>
    simp only [evalS] at h
    obtain ⟨hb, hr, _⟩ := bindSem_ok h
    exact ⟨by rw [hb]; exact SameFrames.refl _, fun _ => hr, [], by simp [hr]⟩
  | block ti ni openPos body npop closePos =>
    simp only [evalS] at h
    split at h
    · cases h
    · split at h
      · rename_i t n _ _
        obtain ⟨s2, h12, h3⟩ := Res.bind_ok h
        obtain ⟨s1, h1, h2⟩ := Res.bind_ok h12
        have hb := evalSs_pres p body _ s1 h1
        have hp := popSem_ok h2
        -- frames after the body: the new block on top of the old ones
        have hfr : SameFrames (Block.mk t n .nil :: s.blocks) s2.blocks := hb.frames.trans hp.frames
        have hres : s2.result = s.result := by
          rw [hp.result]; exact hb.inner (by simp)
        cases hs2 : s2.blocks with
        | nil => rw [hs2] at hfr; simp [SameFrames] at hfr
        | cons top rest =>
          rw [hs2] at hfr
          simp only [SameFrames] at hfr
          obtain ⟨hrest, _, _⟩ := hfr
          rcases endBlockSem_ok h3 with ⟨b, hb1, hb2, hb3⟩ | ⟨child, parent, parent', rest', hb1, hb2, ht, hn, hb3⟩
          · -- toplevel
            rw [hs2] at hb1
            have : rest = [] := by simpa using (List.cons.inj hb1).2
            refine ⟨?_, ?_, ?_⟩
            · rw [hb2, hrest, this]; simp [SameFrames]
            · intro hne; exact absurd (by rw [hrest, this]) hne
            · exact ⟨[b], by rw [hb3, hres]⟩
          · rw [hs2] at hb1
            obtain ⟨_, hrst⟩ := List.cons.inj hb1
            refine ⟨?_, ?_, ?_⟩
            · rw [hb2, hrest, hrst]; simp [SameFrames, ht, hn]
            · intro _; rw [hb3, hres]
            · exact ⟨[], by simp [hb3, hres]⟩
      · cases h
theorem evalSs_pres (p : Prog) (ss : Stmts) : ∀ (s s' : Sem), evalSs p ss s = .ok s' → PresS s s' := by
  intro s s' h
  cases ss with
  | nil => simp only [evalSs] at h; cases h; exact PresS.refl _
  | cons st rest =>
    simp only [evalSs] at h
    obtain ⟨s1, h1, h2⟩ := Res.bind_ok h
    exact (evalS_pres p st s s1 h1).trans (evalSs_pres p rest s1 s' h2)
end

end Bclv
