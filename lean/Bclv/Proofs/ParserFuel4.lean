import Bclv.Proofs.ParserFuel3
namespace Bclv

/-! ## statements -/

def isStmtKw (t : TokType) : Bool := t == .VAR || t == .DEF || t == .PRINT || t == .EVAL

/-- `syncLoop` skips tokens up to the next statement keyword or finalizer. -/
theorem syncLoop_fuel : ∀ (f : Nat) (p : PState), TE p → Fuel 1 f p →
    wp (syncLoop f) (fun _ p' => Tk p p' ∧ (p.cur.typ.isEnd = false → isStmtKw p.cur.typ = false → tm p' < tm p)) p
  | 0, p, _, hf => by unfold Fuel at hf; omega
  | f+1, p, hte, hf => by
    unfold syncLoop checkEnd
    rw [wp_bind, wp_bind, wp_get, wp_pure]
    split
    · rename_i hend
      rw [wp_pure]
      refine ⟨Tk.refl hte, ?_⟩
      intro hne; rw [hne] at hend; cases hend
    · rename_i hend
      have hne : p.cur.typ.isEnd = false := by simpa using hend
      rw [wp_bind, wp_get]
      dsimp only
      split
      · rename_i hkw
        rw [wp_pure]
        refine ⟨Tk.refl hte, ?_⟩
        intro _ hk
        have : isStmtKw p.cur.typ = true := by simpa [isStmtKw] using hkw
        rw [hk] at this; cases this
      · rw [wp_bind]
        apply wp_mono (advance_wp p hte)
        intro _ p1 hq1
        obtain ⟨hk1, hlt1, _⟩ := hq1
        have hlt := hlt1 hne
        unfold Fuel at hf
        apply wp_mono (syncLoop_fuel f p1 hk1.te (by unfold Fuel; omega))
        intro _ p2 hq2
        exact ⟨hk1.trans hq2.1, fun _ _ => by have := hq2.1.le; omega⟩

theorem sync_fuel (f : Nat) (p : PState) (hte : TE p) (hf : Fuel 1 f p) :
    wp (sync f) (fun _ p' => Tk p p' ∧ (p.cur.typ.isEnd = false → isStmtKw p.cur.typ = false → tm p' < tm p)) p := by
  unfold sync
  rw [wp_bind, wp_modify]
  apply wp_mono (syncLoop_fuel f { p with panicMode := false } hte hf)
  intro _ p' h
  exact ⟨⟨h.1.te, h.1.le, h.1.stuck⟩, h.2⟩

theorem varDecl_fuel (f : Nat) (p : PState) (hte : TE p) (hf : Fuel 1 f p) :
    wp (varDecl f) (fun _ p' => Tk p p') p := by
  unfold varDecl
  rw [wp_bind]
  apply wp_tk (consume_tkr _ _) hte
  intro _ p1 hk1
  rw [wp_bind, wp_get]
  split
  · rw [wp_pure]; exact hk1
  · rw [wp_bind]
    apply wp_tk declVar_tkr hk1.te
    intro _ p2 hk2
    rw [wp_bind]
    apply wp_tk (match_tkr _) hk2.te
    intro b p3 hk3
    have hk03 := (hk1.trans hk2).trans hk3
    split
    · rw [wp_bind]
      apply wp_mono (expr_fuel f p3 hk3.te (by unfold Fuel at hf ⊢; have := hk03.le; omega))
      intro e p4 hq4
      rw [wp_bind, wp_pure, wp_bind]
      apply wp_tk markInitialized_tkr hq4.1.te
      intro _ p5 hk5
      rw [wp_pure]
      exact (hk03.trans hq4.1).trans hk5
    · rw [wp_bind, wp_get, wp_bind, wp_pure, wp_bind]
      apply wp_tk markInitialized_tkr hk3.te
      intro _ p5 hk5
      rw [wp_pure]
      exact hk03.trans hk5

/-- what a statement does to the measure: it consumes something, or it has just reported
"expected statement" at toplevel without consuming (then `decl` synchronises) -/
def StmtPost (p : PState) : Stmt → PState → Prop := fun _ p' =>
  Tk p p' ∧ (p.cur.typ.isEnd = false →
    tm p' < tm p ∨ (p'.rest = p.rest ∧ p'.cur = p.cur ∧ p'.panicMode = true ∧ p'.depth = 0
      ∧ p.cur.typ ≠ .PRINT ∧ p.cur.typ ≠ .EVAL ∧ p.cur.typ ≠ .DEF))

theorem stmt_fuel_step (f : Nat)
    (ihB : ∀ p, TE p → Fuel 5 f p → wp (blockStmt f) (fun _ p' => Tk p p') p)
    (p : PState) (hte : TE p) (hf : Fuel 2 (f+1) p) : wp (stmt (f+1)) (StmtPost p) p := by
  unfold Fuel at hf
  unfold stmt
  rw [wp_bind]
  apply wp_mono (match_wp .PRINT p hte)
  intro b1 p1 hq1
  obtain ⟨hk1, hf1, ht1⟩ := hq1
  split
  · rename_i hb
    obtain ⟨_, hlt⟩ := ht1 hb
    have hlt := hlt (by decide)
    rw [wp_bind]
    apply wp_mono (expr_fuel f p1 hk1.te (by unfold Fuel; omega))
    intro e p2 hq2
    rw [wp_bind, wp_get, wp_pure]
    exact ⟨hk1.trans hq2.1, fun _ => .inl (by have := hq2.1.le; omega)⟩
  · rename_i hb
    obtain ⟨rfl, hn1⟩ := hf1 (by simpa using hb)
    rw [wp_bind]
    apply wp_mono (match_wp .EVAL p1 hte)
    intro b2 p2 hq2
    obtain ⟨hk2, hf2, ht2⟩ := hq2
    split
    · rename_i hb
      obtain ⟨_, hlt⟩ := ht2 hb
      have hlt := hlt (by decide)
      rw [wp_bind]
      apply wp_mono (expr_fuel f p2 hk2.te (by unfold Fuel; omega))
      intro e p3 hq3
      rw [wp_bind, wp_get, wp_pure]
      exact ⟨hk2.trans hq3.1, fun _ => .inl (by have := hq3.1.le; omega)⟩
    · rename_i hb
      obtain ⟨rfl, hn2⟩ := hf2 (by simpa using hb)
      rw [wp_bind]
      apply wp_mono (match_wp .DEF p2 hte)
      intro b3 p3 hq3
      obtain ⟨hk3, hf3, ht3⟩ := hq3
      split
      · rename_i hb
        obtain ⟨_, hlt⟩ := ht3 hb
        have hlt := hlt (by decide)
        apply wp_mono (ihB p3 hk3.te (by unfold Fuel; omega))
        intro st p4 hk4
        exact ⟨hk3.trans hk4, fun _ => .inl (by have := hk4.le; omega)⟩
      · rename_i hb
        obtain ⟨rfl, hn3⟩ := hf3 (by simpa using hb)
        rw [wp_bind]
        apply wp_mono (match_wp .BIND p3 hte)
        intro b4 p4 hq4
        obtain ⟨hk4, hf4, ht4⟩ := hq4
        split
        · rename_i hb
          obtain ⟨_, hlt⟩ := ht4 hb
          have hlt := hlt (by decide)
          apply wp_tk bindStmt_tkr hk4.te
          intro st p5 hk5
          exact ⟨hk4.trans hk5, fun _ => .inl (by have := hk5.le; omega)⟩
        · rename_i hb
          obtain ⟨rfl, _⟩ := hf4 (by simpa using hb)
          rw [wp_bind, wp_get]
          split
          · rw [wp_bind]
            apply wp_mono (expr_fuel f p4 hte (by unfold Fuel; omega))
            intro e p5 hq5
            rw [wp_bind, wp_get, wp_pure]
            exact ⟨hq5.1, fun hne => .inl (hq5.2 hne)⟩
          · rename_i hdepth
            rw [wp_bind]
            have hd0 : p4.depth = 0 := by omega
            -- `errorAtCurrent` only touches the diagnostics
            show StmtPost p4 Stmt.bad (errorAtCurrent (str "expected statement") p4).2
            have hk := (errorAtCurrent_tkr (str "expected statement")).h p4 hte
            refine ⟨hk, fun _ => .inr ⟨rfl, rfl, rfl, hd0, hn1, hn2, hn3⟩⟩

/-- a declaration always consumes when it starts at a token that is not a finalizer -/
def DeclPost (p : PState) : Stmt → PState → Prop := fun _ p' =>
  Tk p p' ∧ (p.cur.typ.isEnd = false → tm p' < tm p)

theorem decl_fuel_step (f : Nat)
    (ihS : ∀ p, TE p → Fuel 2 f p → wp (stmt f) (StmtPost p) p)
    (p : PState) (hte : TE p) (hf : Fuel 3 (f+1) p) : wp (decl (f+1)) (DeclPost p) p := by
  unfold Fuel at hf
  have fin : ∀ (st : Stmt) (p2 : PState), Tk p p2 →
      (p.cur.typ.isEnd = false → tm p2 < tm p ∨ (p2.rest = p.rest ∧ p2.cur = p.cur ∧ p2.panicMode = true ∧ p2.depth = 0
        ∧ isStmtKw p.cur.typ = false)) →
      wp (do
        let q ← get
        if (q.panicMode && q.depth == 0) = true then sync f
        return st : PM Stmt) (DeclPost p) p2 := by
    intro st p2 hk H
    rw [wp_bind, wp_get]
    dsimp only
    split
    · rw [wp_bind]
      apply wp_mono (sync_fuel f p2 hk.te (by unfold Fuel; have := hk.le; omega))
      intro _ p3 hq3
      rw [wp_pure]
      refine ⟨hk.trans hq3.1, fun hne => ?_⟩
      rcases H hne with hA | ⟨hr, hc, _, _, hkw⟩
      · have := hq3.1.le; omega
      · have h3 := hq3.2 (by rw [hc]; exact hne) (by rw [hc]; exact hkw)
        have : tm p2 = tm p := by unfold tm; rw [hr]
        omega
    · rename_i hcond
      rw [wp_pure]
      refine ⟨hk, fun hne => ?_⟩
      rcases H hne with hA | ⟨_, _, hpm, hd, _⟩
      · exact hA
      · exfalso; apply hcond; rw [hpm, hd]; rfl
  unfold decl
  rw [wp_bind]
  apply wp_mono (match_wp .VAR p hte)
  intro b1 p1 hq1
  obtain ⟨hk1, hf1, ht1⟩ := hq1
  dsimp only
  split
  · rename_i hb
    obtain ⟨_, hlt⟩ := ht1 hb
    have hlt := hlt (by decide)
    rw [wp_bind]
    apply wp_mono (varDecl_fuel f p1 hk1.te (by unfold Fuel; omega))
    intro st p2 hk2
    apply fin st p2 (hk1.trans hk2)
    intro _; exact .inl (by have := hk2.le; omega)
  · rename_i hb
    obtain ⟨rfl, hn1⟩ := hf1 (by simpa using hb)
    rw [wp_bind]
    apply wp_mono (ihS p1 hte (by unfold Fuel; omega))
    intro st p2 hq2
    apply fin st p2 hq2.1
    intro hne
    rcases hq2.2 hne with hA | ⟨hr, hc, hpm, hd, h1, h2, h3⟩
    · exact .inl hA
    · refine .inr ⟨hr, hc, hpm, hd, ?_⟩
      unfold isStmtKw
      cases ht : p1.cur.typ <;> simp_all

theorem blockLoop_fuel_step (f : Nat)
    (ihD : ∀ p, TE p → Fuel 3 f p → wp (decl f) (DeclPost p) p)
    (ihL : ∀ p, TE p → Fuel 4 f p → wp (blockLoop f) (fun _ p' => Tk p p') p)
    (p : PState) (hte : TE p) (hf : Fuel 4 (f+1) p) : wp (blockLoop (f+1)) (fun _ p' => Tk p p') p := by
  unfold Fuel at hf
  unfold blockLoop check checkEnd
  rw [wp_bind, wp_bind, wp_get, wp_pure, wp_bind, wp_bind, wp_get, wp_pure]
  split
  · rw [wp_pure]; exact Tk.refl hte
  · rename_i hc
    have hne : p.cur.typ.isEnd = false := by
      cases h : p.cur.typ.isEnd
      · rfl
      · exfalso; apply hc; rw [h]; simp
    rw [wp_bind]
    apply wp_mono (ihD p hte (by unfold Fuel; omega))
    intro s p3 hq3
    have hlt := hq3.2 hne
    have tail : ∀ p4, Tk p3 p4 →
        wp (do let _ ← «match» .SEMICOLON; let rest ← blockLoop f; return Stmts.cons s rest) (fun _ p' => Tk p p') p4 := by
      intro p4 hk4
      rw [wp_bind]
      apply wp_tk (match_tkr _) hk4.te
      intro _ p5 hk5
      rw [wp_bind]
      apply wp_mono (ihL p5 hk5.te (by unfold Fuel; have := hk4.le; have := hk5.le; omega))
      intro rest p6 hk6
      rw [wp_pure]
      exact ((hq3.1.trans hk4).trans hk5).trans hk6
    rw [wp_bind, wp_get]
    dsimp only
    split
    · rw [wp_bind]
      apply wp_mono (advance_wp p3 hq3.1.te)
      intro _ p4 hq4
      exact tail p4 hq4.1
    · exact tail p3 (Tk.refl hq3.1.te)

theorem blockStmt_fuel_step (f : Nat)
    (ihL : ∀ p, TE p → Fuel 4 f p → wp (blockLoop f) (fun _ p' => Tk p p') p)
    (p : PState) (hte : TE p) (hf : Fuel 5 (f+1) p) : wp (blockStmt (f+1)) (fun _ p' => Tk p p') p := by
  unfold Fuel at hf
  unfold blockStmt
  rw [wp_bind]
  apply wp_tk (consume_tkr _ _) hte
  intro _ p1 hk1
  rw [wp_bind, wp_get]
  split
  · rw [wp_pure]; exact hk1
  · rw [wp_bind, wp_get]
    have tail : ∀ (blockName : Bytes) (p2 : PState), Tk p p2 →
        wp (do
          consume .LCURLY (str "expected '{'")
          let ti ← identConst p1.prev.val
          let ni ← makeConst (.str blockName)
          let openPos := (← get).prev.pos
          beginScope
          let body ← blockLoop f
          if !(← get).hadLexFail then consume .RCURLY (str "expected '}'")
          let closePos := (← get).prev.pos
          let npop ← endScope
          return Stmt.block ti ni openPos body npop closePos) (fun _ p' => Tk p p') p2 := by
      intro blockName p2 hk2
      rw [wp_bind]
      apply wp_tk (consume_tkr _ _) hk2.te
      intro _ p3 hk3
      rw [wp_bind]
      apply wp_tk (identConst_tkr _) hk3.te
      intro ti p4 hk4
      rw [wp_bind]
      apply wp_tk (makeConst_tkr _) hk4.te
      intro ni p5 hk5
      rw [wp_bind, wp_get, wp_bind]
      apply wp_tk beginScope_tkr hk5.te
      intro _ q0 hk6
      have hk06 := (((hk2.trans hk3).trans hk4).trans hk5).trans hk6
      rw [wp_bind]
      apply wp_mono (ihL q0 hk6.te (by unfold Fuel; have := hk06.le; omega))
      intro body q1 hk7
      rw [wp_bind, wp_get]
      have fin : ∀ q2, Tk q1 q2 →
          wp (do
            let closePos := (← get).prev.pos
            let npop ← endScope
            return Stmt.block ti ni p5.prev.pos body npop closePos) (fun _ p' => Tk p p') q2 := by
        intro q2 hk8
        rw [wp_bind, wp_get, wp_bind]
        apply wp_tk endScope_tkr hk8.te
        intro _ q3 hk9
        rw [wp_pure]
        exact ((hk06.trans hk7).trans hk8).trans hk9
      split
      · rw [wp_bind]
        apply wp_tk (consume_tkr _ _) hk7.te
        intro _ q2 hk8
        exact fin q2 hk8
      · exact fin q1 (Tk.refl hk7.te)
    rw [wp_bind]
    apply wp_tk (match_tkr _) hk1.te
    intro b p2 hk2
    dsimp only
    split
    · rw [wp_bind, wp_get]
      split
      · exact tail _ p2 (hk1.trans hk2)
      · rw [wp_bind]
        apply wp_tk (error_tkr _) hk2.te
        intro _ p3 hk3
        exact tail _ p3 ((hk1.trans hk2).trans hk3)
    · exact tail _ p2 (hk1.trans hk2)

/-- all statement parsers at once, by induction on the budget -/
theorem stmts_fuel : ∀ (f : Nat),
    (∀ p, TE p → Fuel 2 f p → wp (stmt f) (StmtPost p) p) ∧
    (∀ p, TE p → Fuel 3 f p → wp (decl f) (DeclPost p) p) ∧
    (∀ p, TE p → Fuel 4 f p → wp (blockLoop f) (fun _ p' => Tk p p') p) ∧
    (∀ p, TE p → Fuel 5 f p → wp (blockStmt f) (fun _ p' => Tk p p') p)
  | 0 => ⟨fun p _ hf => by unfold Fuel at hf; omega, fun p _ hf => by unfold Fuel at hf; omega,
          fun p _ hf => by unfold Fuel at hf; omega, fun p _ hf => by unfold Fuel at hf; omega⟩
  | f+1 => by
    obtain ⟨ihS, ihD, ihL, ihB⟩ := stmts_fuel f
    exact ⟨stmt_fuel_step f ihB, decl_fuel_step f ihS, blockLoop_fuel_step f ihD ihL, blockStmt_fuel_step f ihL⟩

theorem topLoop_fuel : ∀ (f : Nat) (p : PState), TE p → Fuel 4 f p → wp (topLoop f) (fun _ p' => Tk p p') p
  | 0, p, _, hf => by unfold Fuel at hf; omega
  | f+1, p, hte, hf => by
    unfold Fuel at hf
    unfold topLoop
    rw [wp_bind]
    apply wp_mono (matchEnd_wp p hte)
    intro b p1 hq1
    split
    · rw [wp_pure]; exact hq1.1
    · rename_i hb
      obtain ⟨rfl, hne⟩ := hq1.2 (by simpa using hb)
      rw [wp_bind]
      apply wp_mono ((stmts_fuel f).2.1 p1 hte (by unfold Fuel; omega))
      intro s p2 hq2
      have hlt := hq2.2 hne
      rw [wp_bind]
      apply wp_tk (match_tkr _) hq2.1.te
      intro _ p3 hk3
      rw [wp_bind]
      apply wp_mono (topLoop_fuel f p3 hk3.te (by unfold Fuel; have := hk3.le; omega))
      intro rest p4 hk4
      rw [wp_pure]
      exact (hq2.1.trans hk3).trans hk4

end Bclv
