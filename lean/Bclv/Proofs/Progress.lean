import Bclv.Proofs.SemInv
/-!
# Progress: well-scoped trees never evaluate to `wrong`

`ScE K L B e`: every constant index of `e` is in the pool `K` (and is a string where a name
is needed), every slot is below `L` (the number of variables in scope) and fields are used
only inside a block (`B`).  `ScS`/`ScSs` follow the variables through statements.  On such
trees the evaluator of `Spec/Sem.lean` never returns `wrong`, and a program ends with an
empty stack — so by `compile_correct` the VM neither panics nor ends in its internal error.
-/
namespace Bclv

def isStrAt (K : List Value) (i : Nat) : Prop := ∃ s, K[i]? = some (.str s)

def ScE (K : List Value) (L : Nat) (B : Bool) : Expr → Prop
  | .lit _ _ => True
  | .const idx _ => idx < K.length
  | .getLocal slot _ => slot < L
  | .getField idx _ => isStrAt K idx ∧ B = true
  | .setLocal slot e _ => slot < L ∧ ScE K L B e
  | .setField idx e _ => isStrAt K idx ∧ B = true ∧ ScE K L B e
  | .un _ e _ => ScE K L B e
  | .bin _ a b _ => ScE K L B a ∧ ScE K L B b
  | .and a b _ => ScE K L B a ∧ ScE K L B b ∧ 1 + sizeE b < 65536
  | .or a b _ => ScE K L B a ∧ ScE K L B b ∧ 1 + sizeE b < 65536
  | .bad => False

mutual
/-- `ScS K B L st L'`: statement `st` is well scoped with `L` variables in scope and leaves `L'`. -/
def ScS (K : List Value) (B : Bool) (L : Nat) : Stmt → Nat → Prop
  | .var (some e) _, L' => ScE K L B e ∧ L' = L + 1 ∧ L' ≤ 1024
  | .var none _, L' => L' = L + 1 ∧ L' ≤ 1024
  | .print e _, L' => ScE K L B e ∧ L' = L
  | .eval e _, L' => ScE K L B e ∧ L' = L
  | .block ti ni _ body npop _, L' => isStrAt K ti ∧ isStrAt K ni ∧ L' = L ∧ ScSs K true L body (L + npop)
  | .bind ti _ _, L' => isStrAt K ti ∧ L' = L
  | .bad, _ => False
def ScSs (K : List Value) (B : Bool) (L : Nat) : Stmts → Nat → Prop
  | .nil, L' => L' = L
  | .cons s rest, L' => ∃ L1, ScS K B L s L1 ∧ ScSs K B L1 rest L'
end

def ScP (K : List Value) (t : Program) : Prop := ScSs K false 0 t.body t.npop

theorem constStr_of_isStrAt {p : Prog} {i : Nat} (h : isStrAt p.consts i) : ∃ s, constStr p i = some s := by
  obtain ⟨s, hs⟩ := h
  exact ⟨s, by simp [constStr, hs]⟩

theorem pushV_not_wrong (s : Sem) (v : Value) (pos : Nat) : pushV s v pos ≠ .wrong := by
  unfold pushV; split <;> simp

theorem Res.bind_not_wrong {r : Res} {f : Sem → Res} (hr : r ≠ .wrong) (hf : ∀ s, r = .ok s → f s ≠ .wrong) :
    r.bind f ≠ .wrong := by
  cases r with
  | ok s => exact hf s rfl
  | err pos msg => simp [Res.bind]
  | wrong => exact absurd rfl hr

theorem frames_nonempty {s s' : Sem} (h : SameFrames s.blocks s'.blocks) (hne : s.blocks ≠ []) : s'.blocks ≠ [] :=
  sameFrames_ne h hne

/-- **Expressions**: a well-scoped expression never goes wrong. -/
theorem evalE_progress (p : Prog) (B : Bool) (L : Nat) : ∀ (e : Expr) (s : Sem), ScE p.consts L B e →
    L ≤ s.stack.length → (B = true → s.blocks ≠ []) → evalE p e s ≠ .wrong := by
  intro e
  induction e with
  | lit l pos => intro s _ _ _; exact pushV_not_wrong _ _ _
  | const idx pos =>
    intro s hsc _ _
    simp only [ScE] at hsc
    simp only [evalE, List.getElem?_eq_getElem hsc]
    exact pushV_not_wrong _ _ _
  | getLocal slot pos =>
    intro s hsc hl _
    simp only [ScE] at hsc
    have : slot < s.stack.length := by omega
    simp only [evalE, this, if_true]
    exact pushV_not_wrong _ _ _
  | getField idx pos =>
    intro s hsc _ hb
    obtain ⟨hstr, hB⟩ := hsc
    obtain ⟨name, hn⟩ := constStr_of_isStrAt hstr
    have hne : s.blocks.isEmpty = false := by
      have := hb hB
      cases hs : s.blocks <;> simp_all
    simp only [evalE, hn, hne]
    simp only [Bool.false_eq_true, if_false]
    split
    · exact pushV_not_wrong _ _ _
    · simp
  | setLocal slot e pos ih =>
    intro s hsc hl hb
    obtain ⟨hslot, he⟩ := hsc
    simp only [evalE]
    apply Res.bind_not_wrong (ih s he hl hb)
    intro s1 h1
    have hp := evalE_pres p e s s1 h1
    cases hs1 : s1.stack with
    | nil => rw [hs1] at hp; simp at hp
    | cons top rest =>
      simp only
      have : slot < rest.length + 1 := by
        have h2 := hp.2; rw [hs1] at h2; simp at h2; omega
      simp [this]
  | setField idx e pos ih =>
    intro s hsc hl hb
    obtain ⟨hstr, hB, he⟩ := hsc
    obtain ⟨name, hn⟩ := constStr_of_isStrAt hstr
    simp only [evalE]
    apply Res.bind_not_wrong (ih s he hl hb)
    intro s1 h1
    have hp := evalE_pres p e s s1 h1
    have hb1 : s1.blocks ≠ [] := frames_nonempty hp.1.frames (hb hB)
    cases hs1 : s1.stack with
    | nil => rw [hs1] at hp; simp at hp
    | cons v rest =>
      cases hbl : s1.blocks with
      | nil => exact absurd hbl hb1
      | cons top brest =>
        simp only [hn]
        split <;> simp
  | un op e pos ih =>
    intro s hsc hl hb
    simp only [evalE]
    apply Res.bind_not_wrong (ih s hsc hl hb)
    intro s1 h1
    have hp := evalE_pres p e s s1 h1
    cases hs1 : s1.stack with
    | nil => rw [hs1] at hp; simp at hp
    | cons v rest =>
      unfold unopSem
      rw [hs1]
      cases op with
      | not => simp
      | plus => simp only; split <;> simp
      | neg => cases v <;> simp
  | bin op a b pos iha ihb =>
    intro s hsc hl hb
    obtain ⟨ha, hbb⟩ := hsc
    simp only [evalE]
    apply Res.bind_not_wrong
    · apply Res.bind_not_wrong (iha s ha hl hb)
      intro s1 h1
      have hp := evalE_pres p a s s1 h1
      exact ihb s1 hbb (by rw [hp.2]; omega) (fun hB => frames_nonempty hp.1.frames (hb hB))
    · intro s2 h2
      obtain ⟨s1, h1, h12⟩ := Res.bind_ok h2
      have hp1 := evalE_pres p a s s1 h1
      have hp2 := evalE_pres p b s1 s2 h12
      unfold binSem
      match hs2 : s2.stack with
      | [] => rw [hs2] at hp2; simp at hp2
      | [x] =>
        have h2' := hp2.2; have h1' := hp1.2
        rw [hs2] at h2'; simp only [List.length_cons, List.length_nil] at h2'; omega
      | bv :: av :: rest =>
        simp only
        split <;> simp
  | and a b pos iha ihb =>
    intro s hsc hl hb
    obtain ⟨ha, hbb, _⟩ := hsc
    simp only [evalE]
    apply Res.bind_not_wrong (iha s ha hl hb)
    intro s1 h1
    have hp := evalE_pres p a s s1 h1
    cases hs1 : s1.stack with
    | nil => rw [hs1] at hp; simp at hp
    | cons v rest =>
      simp only
      split
      · simp
      · apply ihb
        · exact hbb
        · have := hp.2; rw [hs1] at this; simp at this; simp; omega
        · intro hB; exact frames_nonempty hp.1.frames (hb hB)
  | or a b pos iha ihb =>
    intro s hsc hl hb
    obtain ⟨ha, hbb, _⟩ := hsc
    simp only [evalE]
    apply Res.bind_not_wrong (iha s ha hl hb)
    intro s1 h1
    have hp := evalE_pres p a s s1 h1
    cases hs1 : s1.stack with
    | nil => rw [hs1] at hp; simp at hp
    | cons v rest =>
      simp only
      split
      · apply ihb
        · exact hbb
        · have := hp.2; rw [hs1] at this; simp at this; simp; omega
        · intro hB; exact frames_nonempty hp.1.frames (hb hB)
      · simp
  | bad => intro s hsc; exact hsc.elim

theorem popSem_not_wrong {n : Nat} {s : Sem} (h : n ≤ s.stack.length) : popSem n s ≠ .wrong := by
  unfold popSem; simp [h]

theorem popSem_stack {n : Nat} {s s' : Sem} (h : popSem n s = .ok s') : s'.stack.length = s.stack.length - n ∧ s'.blocks = s.blocks := by
  unfold popSem at h
  split at h
  · cases h; simp
  · cases h

theorem endBlockSem_not_wrong {pos : Nat} {s : Sem} (h : s.blocks ≠ []) : endBlockSem pos s ≠ .wrong := by
  unfold endBlockSem
  split
  · rename_i hb; exact absurd hb h
  · simp
  · simp only; split <;> simp

theorem endBlockSem_stack {pos : Nat} {s s' : Sem} (h : endBlockSem pos s = .ok s') :
    s'.stack = s.stack ∧ s'.blocks.length + 1 = s.blocks.length := by
  unfold endBlockSem at h
  split at h
  · cases h
  · rename_i b hb; cases h; simp [hb]
  · rename_i c pa r hb
    simp only at h
    split at h
    · cases h; simp [hb]
    · cases h

theorem bindSem_not_wrong {p : Prog} {ti opt pos : Nat} {s : Sem} (h : isStrAt p.consts ti) : bindSem p ti opt pos s ≠ .wrong := by
  obtain ⟨bt, hbt⟩ := constStr_of_isStrAt h
  unfold bindSem bindCore
  simp only [hbt]
  repeat' split
  all_goals simp

theorem printSem_not_wrong {s : Sem} (h : s.stack ≠ []) : printSem s ≠ .wrong := by
  unfold printSem; cases hs : s.stack with
  | nil => exact absurd hs h
  | cons v r => simp

theorem printSem_stack {s s' : Sem} (h : printSem s = .ok s') : s'.stack.length + 1 = s.stack.length ∧ s'.blocks = s.blocks := by
  unfold printSem at h
  split at h
  · rename_i v rest hs; cases h; simp [hs]
  · cases h

theorem sameFrames_length {a b : List Block} (h : SameFrames a b) : a.length = b.length := by
  cases a <;> cases b <;> simp_all [SameFrames]

/-- What a run of statements guarantees when it succeeds. -/
structure After (B : Bool) (L' : Nat) (s s' : Sem) : Prop where
  stack : s'.stack.length = L'
  blocks : s'.blocks.length = s.blocks.length

mutual
/-- **Statements**: a well-scoped statement never goes wrong, and leaves as many values on
the stack as there are variables in scope after it, with the same open blocks. -/
theorem evalS_progress (p : Prog) : ∀ (st : Stmt) (B : Bool) (L L' : Nat) (s : Sem), ScS p.consts B L st L' →
    s.stack.length = L → (B = true → s.blocks ≠ []) →
    evalS p st s ≠ .wrong ∧ ∀ s', evalS p st s = .ok s' → After B L' s s'
  | .bad, B, L, L', s, hsc, _, _ => by simp [ScS] at hsc
  | .var (some e) pos, B, L, L', s, hsc, hl, hb => by
    simp only [ScS] at hsc
    obtain ⟨he, rfl, _⟩ := hsc
    simp only [evalS]
    refine ⟨evalE_progress p B L e s he (by omega) hb, fun s' h => ?_⟩
    have hp := evalE_pres p e s s' h
    exact ⟨by rw [hp.2, hl], (sameFrames_length hp.1.frames).symm⟩
  | .var none pos, B, L, L', s, hsc, hl, hb => by
    simp only [ScS] at hsc
    obtain ⟨rfl, _⟩ := hsc
    simp only [evalS]
    refine ⟨pushV_not_wrong _ _ _, fun s' h => ?_⟩
    have hp := pushV_ok h
    exact ⟨by rw [hp.2]; simp [hl], (sameFrames_length hp.1.frames).symm⟩
  | .print e pos, B, L, L', s, hsc, hl, hb => by
    simp only [ScS] at hsc
    obtain ⟨he, rfl⟩ := hsc
    simp only [evalS]
    constructor
    · apply Res.bind_not_wrong (evalE_progress p B _ e s he (by omega) hb)
      intro s1 h1
      have hp := evalE_pres p e s s1 h1
      apply printSem_not_wrong
      intro hnil; have := hp.2; rw [hnil] at this; simp at this
    · intro s' h
      obtain ⟨s1, h1, h2⟩ := Res.bind_ok h
      have hp := evalE_pres p e s s1 h1
      have hq := printSem_stack h2
      exact ⟨by omega, by rw [hq.2]; exact (sameFrames_length hp.1.frames).symm⟩
  | .eval e pos, B, L, L', s, hsc, hl, hb => by
    simp only [ScS] at hsc
    obtain ⟨he, rfl⟩ := hsc
    simp only [evalS]
    constructor
    · apply Res.bind_not_wrong (evalE_progress p B _ e s he (by omega) hb)
      intro s1 h1
      have hp := evalE_pres p e s s1 h1
      exact popSem_not_wrong (by omega)
    · intro s' h
      obtain ⟨s1, h1, h2⟩ := Res.bind_ok h
      have hp := evalE_pres p e s s1 h1
      have hq := popSem_stack h2
      exact ⟨by omega, by rw [hq.2]; exact (sameFrames_length hp.1.frames).symm⟩
  | .bind ti opt pos, B, L, L', s, hsc, hl, hb => by
    simp only [ScS] at hsc
    obtain ⟨hstr, rfl⟩ := hsc
    simp only [evalS]
    refine ⟨bindSem_not_wrong hstr, fun s' h => ?_⟩
    obtain ⟨h1, _, h3⟩ := bindSem_ok h
    exact ⟨by rw [h3, hl], by rw [h1]⟩
  | .block ti ni openPos body npop closePos, B, L, L', s, hsc, hl, hb => by
    simp only [ScS] at hsc
    obtain ⟨ht, hn, rfl, hbody⟩ := hsc
    obtain ⟨t, htc⟩ := constStr_of_isStrAt ht
    obtain ⟨n, hnc⟩ := constStr_of_isStrAt hn
    simp only [evalS]
    split
    · exact ⟨by simp, fun s' h => by cases h⟩
    · simp only [htc, hnc]
      have hin := evalSs_progress p body true L' (L' + npop) { s with blocks := .mk t n .nil :: s.blocks } hbody hl (by simp)
      constructor
      · apply Res.bind_not_wrong
        · apply Res.bind_not_wrong hin.1
          intro s1 h1
          have ha := hin.2 s1 h1
          exact popSem_not_wrong (by rw [ha.stack]; omega)
        · intro s2 h2
          obtain ⟨s1, h1, h12⟩ := Res.bind_ok h2
          have ha := hin.2 s1 h1
          have hq := popSem_stack h12
          apply endBlockSem_not_wrong
          intro hnil
          have := ha.blocks
          rw [hq.2] at hnil
          rw [hnil] at this; simp at this
      · intro s' h
        obtain ⟨s2, h2, h3⟩ := Res.bind_ok h
        obtain ⟨s1, h1, h12⟩ := Res.bind_ok h2
        have ha := hin.2 s1 h1
        have hq := popSem_stack h12
        have he := endBlockSem_stack h3
        refine ⟨by rw [he.1, hq.1, ha.stack]; omega, ?_⟩
        have := ha.blocks
        simp only [List.length_cons] at this
        rw [hq.2] at he
        omega
theorem evalSs_progress (p : Prog) : ∀ (ss : Stmts) (B : Bool) (L L' : Nat) (s : Sem), ScSs p.consts B L ss L' →
    s.stack.length = L → (B = true → s.blocks ≠ []) →
    evalSs p ss s ≠ .wrong ∧ ∀ s', evalSs p ss s = .ok s' → After B L' s s'
  | .nil, B, L, L', s, hsc, hl, hb => by
    simp only [ScSs] at hsc
    subst hsc
    simp only [evalSs]
    exact ⟨by simp, fun s' h => by cases h; exact ⟨hl, rfl⟩⟩
  | .cons st rest, B, L, L', s, hsc, hl, hb => by
    simp only [ScSs] at hsc
    obtain ⟨L1, h1, h2⟩ := hsc
    have hs := evalS_progress p st B L L1 s h1 hl hb
    simp only [evalSs]
    constructor
    · apply Res.bind_not_wrong hs.1
      intro s1 hs1
      have ha := hs.2 s1 hs1
      exact (evalSs_progress p rest B L1 L' s1 h2 ha.stack (fun hB => by
        intro hnil; have := ha.blocks; rw [hnil] at this
        have hne := hb hB
        cases hbl : s.blocks with
        | nil => exact hne hbl
        | cons x xs => rw [hbl] at this; simp at this)).1
    · intro s' h
      obtain ⟨s1, hs1, hs2⟩ := Res.bind_ok h
      have ha := hs.2 s1 hs1
      have hr := (evalSs_progress p rest B L1 L' s1 h2 ha.stack (fun hB => by
        intro hnil; have := ha.blocks; rw [hnil] at this
        have hne := hb hB
        cases hbl : s.blocks with
        | nil => exact hne hbl
        | cons x xs => rw [hbl] at this; simp at this)).2 s' hs2
      exact ⟨hr.stack, by rw [hr.blocks, ha.blocks]⟩
end

/-- **Programs**: a well-scoped program ends with a result (and an empty operand stack) or
a runtime error — never `wrong`. -/
theorem evalP_progress (p : Prog) (t : Program) (h : ScP p.consts t) :
    evalP p t ≠ .wrong ∧ ∀ s, evalP p t = .ok s → s.stack = [] := by
  unfold ScP at h
  have hs := evalSs_progress p t.body false 0 t.npop {} h rfl (by simp)
  unfold evalP
  constructor
  · apply Res.bind_not_wrong hs.1
    intro s1 h1
    exact popSem_not_wrong (by rw [(hs.2 s1 h1).stack]; omega)
  · intro s hok
    obtain ⟨s1, h1, h2⟩ := Res.bind_ok hok
    have ha := hs.2 s1 h1
    have hq := popSem_stack h2
    have : s.stack.length = 0 := by rw [hq.1, ha.stack]; omega
    exact List.length_eq_zero_iff.mp this

end Bclv
