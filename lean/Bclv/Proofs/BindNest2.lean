import Bclv.Proofs.BindNest1
/-!
# Round trip for nested structs (C05)

`famTy`: the family of struct shapes of the property — exported fields of the four basic kinds
or of struct types of the family again, no embedded fields, no tags, no two names alike under
the matching rule.  `Renders n ty g blk`: the block `blk` (of nesting depth at most `n`) writes
down the value `g` of type `ty` — every field exactly once, in any order and any admitted
spelling, a basic field as a plain entry, a struct field as a child block that renders the
field's value, the block's name being the value of the field the rule takes for `Name` (if
there is one).  `renders_bind`: binding such a block onto *any* value of the type succeeds and
gives exactly `g`.
-/
namespace Bclv.Bind
open Bclv

def nameRule (s : List Char) : Bool := unsnakeEq s "Name".toList

mutual
def famTy : Ty → Prop
  | .basic _ => True
  | .struct _ _ fs => flat fs = true ∧ DistinctNames fs ∧ famFs fs
  | _ => False
def famFs : TFields → Prop
  | .nil => True
  | .cons h t r => h.exported = true ∧ famTy t ∧ famFs r
end

theorem famFs_get : ∀ (fs : TFields), famFs fs → ∀ j h t, fs.get? j = some (h, t) → h.exported = true ∧ famTy t
  | .nil, _, j, h, t, hg => by simp [TFields.get?] at hg
  | .cons h0 t0 r, hf, j, h, t, hg => by
    simp only [famFs] at hf
    cases j with
    | zero => simp only [TFields.get?, Option.some.injEq, Prod.mk.injEq] at hg; obtain ⟨rfl, rfl⟩ := hg; exact ⟨hf.1, hf.2.1⟩
    | succ j => exact famFs_get r hf.2.2 j h t hg

/-- the name part of a rendering, and that every field is written exactly once -/
def NameOK (fs : TFields) (g : GV) (bname : Bytes) (idxs : List Nat) : Prop :=
  (NoMatch nameRule fs ∧ bname = [] ∧ ∀ j h t, fs.get? j = some (h, t) → j ∈ idxs) ∨
  (∃ iN hd, fs.get? iN = some (hd, .basic .str) ∧ nameRule hd.name = true ∧ getPath g [iN] = .ok (.str bname) ∧
    iN ∉ idxs ∧ ∀ j h t, fs.get? j = some (h, t) → j = iN ∨ j ∈ idxs)

def Renders : Nat → Ty → GV → Block → Prop
  | 0, _, _, _ => False
  | n+1, .struct _ sn fs, g, .mk bt bname fields =>
      (sn = [] ∨ unsnakeEq sn (chars bt) = true) ∧
      ∃ (idx : Item → Nat) (val : Item → GV),
        ((Fields.items fields).map Item.key).Nodup ∧ ((Fields.items fields).map idx).Nodup ∧
        NameOK fs g bname ((Fields.items fields).map idx) ∧
        ∀ it ∈ Fields.items fields, ∃ h t, fs.get? (idx it) = some (h, t) ∧
          unsnakeEq h.name (cutDot (chars it.key)) = true ∧ getPath g [idx it] = .ok (val it) ∧
          match it with
          | .val _ x => x ≠ .nil ∧ assign x t = some (val it)
          | .child _ b => Renders n t (val it) b
  | _+1, _, _, _ => False

theorem hasTys_get_none : ∀ (vals : GVs) (fs : TFields), HasTys vals fs → ∀ j, fs.get? j = none → vals.get? j = none
  | .nil, .nil, _, _, _ => rfl
  | .nil, .cons _ _ _, h, _, _ => by cases h
  | .cons _ _, .nil, h, _, _ => by cases h
  | .cons v vs, .cons h0 t0 fs, h, j, hg => by
    cases h with
    | cons _ hv hvs =>
      cases j with
      | zero => simp [TFields.get?] at hg
      | succ j => simp only [TFields.get?] at hg; simpa [GVs.get?] using hasTys_get_none vs fs hvs j hg

theorem lookup_flat (id : Nat) (fs : TFields) (hflat : flat fs = true) (hdist : DistinctNames fs)
    (name : List Char) (i : Nat) (h : FieldHdr) (t : Ty) (hg : fs.get? i = some (h, t))
    (hm : unsnakeEq h.name (cutDot name) = true) :
    lookupField id fs [] name = some ⟨[i], h, t⟩ := by
  unfold lookupField
  simp only [List.isEmpty_nil, if_true]
  apply fieldByNameFunc_flat id fs _ 63 _ h t hflat hg hm
  intro j h' t' hj hgj
  cases hu : unsnakeEq h'.name (cutDot name) with
  | false => rfl
  | true =>
    exfalso
    apply hdist j i h' h t' t hj hgj hg
    simp only [unsnakeEq, beq_iff_eq] at hu hm
    rw [hu, hm]

/-- **Round trip, nested.**  A block that renders a value of a type of the family binds onto any
value of that type to exactly the rendered value. -/
theorem renders_bind : ∀ (n : Nat) (ty : Ty) (g : GV) (blk : Block), famTy ty → HasTy g ty → Renders n ty g blk →
    ∀ fuel, n ≤ fuel → ∀ v0, HasTy v0 ty → copyBlock fuel ty v0 blk = .ok g
  | 0, _, _, _, _, _, hr, _, _, _, _ => by simp [Renders] at hr
  | n+1, .basic _, _, _, _, _, hr, _, _, _, _ => by simp [Renders] at hr
  | n+1, .iface, _, _, hf, _, _, _, _, _, _ => by simp [famTy] at hf
  | n+1, .other _, _, _, hf, _, _, _, _, _, _ => by simp [famTy] at hf
  | n+1, .ptr _, _, _, hf, _, _, _, _, _, _ => by simp [famTy] at hf
  | n+1, .slice _, _, _, hf, _, _, _, _, _, _ => by simp [famTy] at hf
  | n+1, .struct id sn fs, g, .mk bt bname fields, hfam, hg, hr, fuel, hfuel, v0, hv0 => by
    simp only [famTy] at hfam
    obtain ⟨hflat, hdist, hfs⟩ := hfam
    simp only [Renders] at hr
    obtain ⟨htn, idx, val, hkeys, hidx, hname, hent⟩ := hr
    obtain ⟨fuel', rfl⟩ : ∃ f', fuel = f' + 1 := ⟨fuel - 1, by omega⟩
    have htag : taggedOf fs 0 [] = [] := taggedOf_flat fs 0 [] hflat
    -- every entry fits
    have hfit : ∀ it ∈ sortedItems fields, EntryFitsG (copyBlock fuel') id fs [] it (idx it) (val it) := by
      intro it hit
      obtain ⟨h, t, hgt, hm, hgv, hcase⟩ := hent it ((mem_sortedItems fields it).mp hit)
      have hft := famFs_get fs hfs _ h t hgt
      refine ⟨h, t, lookup_flat id fs hflat hdist _ _ h t hgt hm, hft.1, ?_⟩
      cases it with
      | val k x => exact .inl ⟨k, x, rfl, hcase.1, hcase.2⟩
      | child k b =>
        have hgty : HasTy (val (.child k b)) t := by
          cases hg with
          | struct _ _ hvals =>
            obtain ⟨v, hv, hvt⟩ := hasTys_get _ _ hvals _ h t hgt
            rw [getPath_one, hv] at hgv
            simp only [Except.ok.injEq] at hgv
            rw [← hgv]; exact hvt
        refine .inr ⟨k, b, rfl, hgty, fun old hold => ?_⟩
        exact renders_bind n t _ b hft.2 hgty hcase fuel' (by omega) old hold
    have hperm := foldr_insert_perm (Fields.items fields)
    have hnd : ((sortedItems fields).map idx).Nodup := (hperm.map idx).symm.nodup hidx
    have hmemidx : ∀ j, j ∈ (sortedItems fields).map idx ↔ j ∈ (Fields.items fields).map idx := by
      intro j
      constructor
      · intro hj; obtain ⟨it, hit, rfl⟩ := List.mem_map.mp hj
        exact List.mem_map.mpr ⟨it, (mem_sortedItems fields it).mp hit, rfl⟩
      · intro hj; obtain ⟨it, hit, rfl⟩ := List.mem_map.mp hj
        exact List.mem_map.mpr ⟨it, (mem_sortedItems fields it).mpr hit, rfl⟩
    unfold copyBlock
    simp only
    have hnm : (!sn.isEmpty && !unsnakeEq sn (chars bt)) = false := by
      rcases htn with rfl | h
      · rfl
      · rw [h]; simp
    rw [hnm, htag]
    simp only [Bool.false_eq_true, if_false]
    -- the name, then the entries; afterwards every field holds what `g` holds
    have finish : ∀ (st : BState), HasTy st.v (.struct id sn fs) →
        (∀ p ∈ st.stored, ∃ j, p = [j] ∧ j ∉ (sortedItems fields).map idx) →
        (∀ j h t, fs.get? j = some (h, t) → j ∉ (Fields.items fields).map idx → getPath st.v [j] = getPath g [j]) →
        (∀ j h t, fs.get? j = some (h, t) → j ∈ (Fields.items fields).map idx ∨ getPath st.v [j] = getPath g [j]) →
        setItems (copyBlock fuel') id fs [] (sortedItems fields) st = .ok g := by
      intro st hst hstored _ hcov
      obtain ⟨v', hrun, hty, hall, hframe⟩ := setItems_succeeds_g (copyBlock fuel') id sn fs [] (sortedItems fields) idx val st hst hfit hnd hstored
      rw [hrun]
      obtain ⟨vals', hv'eq, hvals'⟩ : ∃ vals', v' = .struct vals' ∧ HasTys vals' fs := by
        cases hty with | struct _ _ h => exact ⟨_, rfl, h⟩
      obtain ⟨gvals, hgeq, hgvals⟩ : ∃ gv, g = .struct gv ∧ HasTys gv fs := by
        cases hg with | struct _ _ h => exact ⟨_, rfl, h⟩
      rw [hv'eq, hgeq]
      congr 2
      apply gvs_ext
      intro j
      cases hfj : fs.get? j with
      | none => rw [hasTys_get_none _ _ hvals' j hfj, hasTys_get_none _ _ hgvals j hfj]
      | some ht =>
        obtain ⟨h, t⟩ := ht
        obtain ⟨a, ha, _⟩ := hasTys_get _ _ hvals' j h t hfj
        obtain ⟨b, hb, _⟩ := hasTys_get _ _ hgvals j h t hfj
        have key : getPath v' [j] = getPath g [j] → a = b := by
          intro hh
          rw [hv'eq, hgeq, getPath_one, getPath_one, ha, hb] at hh
          simpa using hh
        rw [ha, hb]
        congr 1
        apply key
        by_cases hj : j ∈ (Fields.items fields).map idx
        · obtain ⟨it, hit, rfl⟩ := List.mem_map.mp hj
          obtain ⟨_, _, _, _, hgv, _⟩ := hent it hit
          rw [hall it ((mem_sortedItems fields it).mpr hit), hgv]
        · rw [hframe j (fun hh => hj ((hmemidx j).mp hh))]
          rcases hcov j h t hfj with hc | hc
          · exact absurd hc hj
          · exact hc
    rcases hname with ⟨hno, rfl, hcover⟩ | ⟨iN, hd, hgN, hmN, hgvN, hnotin, hcover⟩
    · have hsn : setName id fs [] v0 [] = .ok { v := v0 } := by
        unfold setName lookupField
        simp only [List.isEmpty_nil, if_true]
        rw [fieldByNameFunc_flat_none id fs _ 63 hflat (by
          intro j h t hgj
          have := hno j h t hgj
          simpa [nameRule, cutDot] using this)]
      rw [hsn]
      simp only
      exact finish { v := v0 } hv0 (by intro p hp; simp at hp)
        (fun j h t hfj hj => absurd (hcover j h t hfj) hj) (fun j h t hfj => .inl (hcover j h t hfj))
    · have hftN := famFs_get fs hfs _ hd _ hgN
      have hlk : lookupField id fs [] "Name".toList = some ⟨[iN], hd, .basic .str⟩ :=
        lookup_flat id fs hflat hdist _ iN hd _ hgN (by simpa [nameRule, cutDot] using hmN)
      have hvalid := lookupField_valid id sn fs [] _ _ hlk
      simp only at hvalid
      have hget : ∃ old, getPath v0 [iN] = .ok old := by
        rcases getPath_valid hvalid v0 hv0 with ⟨fv, hgg, _⟩ | hgg
        · exact ⟨fv, hgg⟩
        · cases hsv : v0 with
          | struct vals => rw [hsv, getPath_one] at hgg; cases hh : vals.get? iN <;> rw [hh] at hgg <;> cases hgg
          | _ => rw [hsv] at hv0; cases hv0
      obtain ⟨old, hold⟩ := hget
      obtain ⟨hv1, hread⟩ := setPath_valid hvalid v0 (.str bname) hv0 (HasTy.str _) ⟨old, hold⟩
      have hsn : setName id fs [] v0 bname = .ok { v := setPath v0 [iN] (.str bname), stored := if bname.isEmpty then [] else [[iN]] } := by
        unfold setName
        simp only [hlk, hftN.1, hold, assign]
        simp
      rw [hsn]
      simp only
      apply finish _ hv1
      · intro p hp
        simp only at hp
        split at hp
        · simp at hp
        · simp only [List.mem_singleton] at hp
          exact ⟨iN, hp, fun hh => hnotin ((hmemidx iN).mp hh)⟩
      · intro j h t hfj hj
        rcases hcover j h t hfj with rfl | hc
        · rw [hread, hgvN]
        · exact absurd hc hj
      · intro j h t hfj
        rcases hcover j h t hfj with rfl | hc
        · right; rw [hread, hgvN]
        · exact .inl hc

end Bclv.Bind
