import Bclv.Model.Tree
/-!
# Basic facts about `compile`: sizes, and the linear-time versions the driver runs
-/
namespace Bclv

theorem atPos_length (pos : Nat) (bs : Bytes) : (atPos pos bs).length = bs.length := by
  simp [atPos]

theorem opArg_length (o : Op) (arg pos : Nat) : (opArg o arg pos).length = 1 + (uvEnc arg).length := by
  simp [opArg, atPos]; omega

theorem jumpAt_length (o : Op) (d pos : Nat) : (jumpAt o d pos).length = 3 := by
  simp [jumpAt, atPos]

/-- `sizeE` is the length of the compiled code. -/
theorem compileE_length (e : Expr) : (compileE e).length = sizeE e := by
  induction e with
  | lit l pos => simp [compileE, sizeE, opAt]
  | const idx pos => simp [compileE, sizeE, opArg_length]
  | getLocal s pos => simp [compileE, sizeE, opArg_length]
  | getField i pos => simp [compileE, sizeE, opArg_length]
  | setLocal s e pos ih => simp [compileE, sizeE, opArg_length, ih]
  | setField i e pos ih => simp [compileE, sizeE, opArg_length, ih]
  | un op e pos ih => simp [compileE, sizeE, opAt, ih]
  | bin op a b pos iha ihb => simp [compileE, sizeE, iha, ihb]
  | and a b pos iha ihb => simp [compileE, sizeE, iha, ihb, jumpAt_length, opAt]; omega
  | or a b pos iha ihb => simp [compileE, sizeE, iha, ihb, jumpAt_length, opAt]; omega
  | bad => simp [compileE, sizeE]

theorem compileEAcc_eq (e : Expr) (acc : PCode) : compileEAcc e acc = compileE e ++ acc := by
  induction e generalizing acc with
  | lit l pos => simp [compileEAcc, compileE]
  | const idx pos => simp [compileEAcc, compileE]
  | getLocal s pos => simp [compileEAcc, compileE]
  | getField i pos => simp [compileEAcc, compileE]
  | setLocal s e pos ih => simp [compileEAcc, compileE, ih]
  | setField i e pos ih => simp [compileEAcc, compileE, ih]
  | un op e pos ih => simp [compileEAcc, compileE, ih]
  | bin op a b pos iha ihb => simp [compileEAcc, compileE, iha, ihb]
  | and a b pos iha ihb => simp [compileEAcc, compileE, iha, ihb]
  | or a b pos iha ihb => simp [compileEAcc, compileE, iha, ihb]
  | bad => simp [compileEAcc, compileE]

mutual
theorem compileSAcc_eq (s : Stmt) (acc : PCode) : compileSAcc s acc = compileS s ++ acc := by
  cases s with
  | var init pos =>
    cases init with
    | none => simp [compileSAcc, compileS]
    | some e => simp [compileSAcc, compileS, compileEAcc_eq]
  | print e pos => simp [compileSAcc, compileS, compileEAcc_eq]
  | eval e pos => simp [compileSAcc, compileS, compileEAcc_eq]
  | block ti ni op body np cp =>
    simp [compileSAcc, compileS, compileSsAcc_eq body]
  | bind ti opt pos => simp [compileSAcc, compileS]
  | bad => simp [compileSAcc, compileS]
theorem compileSsAcc_eq (ss : Stmts) (acc : PCode) : compileSsAcc ss acc = compileSs ss ++ acc := by
  cases ss with
  | nil => simp [compileSsAcc, compileSs]
  | cons s rest => simp [compileSsAcc, compileSs, compileSAcc_eq s, compileSsAcc_eq rest]
end

/-- The driver's linear-time compiler is the definition the theorems are about. -/
theorem compilePFast_eq (p : Program) : compilePFast p = compileP p := by
  simp [compilePFast, compileP, compileSsAcc_eq]

end Bclv
