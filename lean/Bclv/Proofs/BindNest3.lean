import Bclv.Proofs.BindNest2
namespace Bclv.Bind
open Bclv

theorem renders_mono : ∀ (n : Nat) (ty : Ty) (g : GV) (blk : Block), Renders n ty g blk → ∀ m, n ≤ m → Renders m ty g blk
  | 0, _, _, _, hr, _, _ => by simp [Renders] at hr
  | n+1, .basic _, _, _, hr, _, _ => by simp [Renders] at hr
  | n+1, .iface, _, _, hr, _, _ => by simp [Renders] at hr
  | n+1, .other _, _, _, hr, _, _ => by simp [Renders] at hr
  | n+1, .ptr _, _, _, hr, _, _ => by simp [Renders] at hr
  | n+1, .slice _, _, _, hr, _, _ => by simp [Renders] at hr
  | n+1, .struct id sn fs, g, .mk bt bname fields, hr, m, hm => by
    obtain ⟨m', rfl⟩ : ∃ m', m = m' + 1 := ⟨m - 1, by omega⟩
    simp only [Renders] at hr ⊢
    obtain ⟨htn, idx, val, hkeys, hidx, hname, hent⟩ := hr
    refine ⟨htn, idx, val, hkeys, hidx, hname, fun it hit => ?_⟩
    obtain ⟨h, t, hgt, hmm, hgv, hcase⟩ := hent it hit
    refine ⟨h, t, hgt, hmm, hgv, ?_⟩
    cases it with
    | val k x => exact hcase
    | child k b => exact renders_mono n t _ b hcase m' (by omega)

/-- a rendering never needs more depth than the block has -/
theorem renders_depth : ∀ (n : Nat) (ty : Ty) (g : GV) (blk : Block), Renders n ty g blk → Renders (blockDepth blk) ty g blk
  | 0, _, _, _, hr => by simp [Renders] at hr
  | n+1, .basic _, _, _, hr => by simp [Renders] at hr
  | n+1, .iface, _, _, hr => by simp [Renders] at hr
  | n+1, .other _, _, _, hr => by simp [Renders] at hr
  | n+1, .ptr _, _, _, hr => by simp [Renders] at hr
  | n+1, .slice _, _, _, hr => by simp [Renders] at hr
  | n+1, .struct id sn fs, g, .mk bt bname fields, hr => by
    simp only [blockDepth]
    simp only [Renders] at hr ⊢
    obtain ⟨htn, idx, val, hkeys, hidx, hname, hent⟩ := hr
    refine ⟨htn, idx, val, hkeys, hidx, hname, fun it hit => ?_⟩
    obtain ⟨h, t, hgt, hmm, hgv, hcase⟩ := hent it hit
    refine ⟨h, t, hgt, hmm, hgv, ?_⟩
    cases it with
    | val k x => exact hcase
    | child k b =>
      have hd := items_depth fields _ hit
      simp only [Item.depthLe] at hd
      exact renders_mono _ t _ b (renders_depth n t _ b hcase) _ hd

/-- **`Bind` into a struct target**: a block that renders `g` gives exactly `g`, whatever the
target held. -/
theorem bind_struct_roundtrip (n : Nat) (ty : Ty) (g v0 : GV) (blk : Block) (hfam : famTy ty)
    (hg : HasTy g ty) (hv0 : HasTy v0 ty) (hr : Renders n ty g blk) :
    bind (.pointer ty v0) (some (.struct blk)) = .ok g := by
  have hr' := renders_depth n ty g blk hr
  cases ty with
  | struct id sn fs =>
    simp only [bind]
    exact renders_bind _ _ g blk hfam hg hr' _ (Nat.le_succ _) v0 hv0
  | basic _ => cases n <;> simp [Renders] at hr
  | iface => simp [famTy] at hfam
  | other _ => simp [famTy] at hfam
  | ptr _ => simp [famTy] at hfam
  | slice _ => simp [famTy] at hfam

/-- two lists related element by element -/
inductive Pairs {α β : Type} (R : α → β → Prop) : List α → List β → Prop
  | nil : Pairs R [] []
  | cons {a b as bs} : R a b → Pairs R as bs → Pairs R (a :: as) (b :: bs)

theorem foldl_max_ge (bs : List Block) : ∀ (a : Nat), a ≤ bs.foldl (fun a b => max a (blockDepth b)) a ∧
    ∀ b ∈ bs, blockDepth b ≤ bs.foldl (fun a b => max a (blockDepth b)) a := by
  induction bs with
  | nil => intro a; exact ⟨Nat.le_refl _, by simp⟩
  | cons x xs ih =>
    intro a
    simp only [List.foldl_cons]
    obtain ⟨h1, h2⟩ := ih (max a (blockDepth x))
    refine ⟨Nat.le_trans (Nat.le_max_left _ _) h1, fun b hb => ?_⟩
    rcases List.mem_cons.mp hb with rfl | hb
    · exact Nat.le_trans (Nat.le_max_right _ _) h1
    · exact h2 b hb

theorem blocksToSlice_renders (fuel : Nat) (elem : Ty) (hfam : famTy elem) :
    ∀ (blks : List Block) (gs : List GV) (acc : List GV),
      Pairs (fun b g => HasTy g elem ∧ ∃ n, Renders n elem g b ∧ blockDepth b ≤ fuel) blks gs →
      blocksToSlice (copyBlock (fuel + 1)) elem blks acc = .ok (acc.reverse ++ gs)
  | [], _, acc, h => by cases h; simp [blocksToSlice]
  | b :: rest, _, acc, h => by
    cases h with
    | cons hb hrest =>
      obtain ⟨hg, n, hr, hd⟩ := hb
      unfold blocksToSlice
      have := renders_bind _ elem _ b hfam hg (renders_depth n elem _ b hr) (fuel + 1) (by omega) (zero elem) (zero_hasTy elem)
      rw [this]
      simp only
      rw [blocksToSlice_renders fuel elem hfam rest _ _ hrest]
      simp

/-- **`Bind` into a slice target**: one element per block, in order, each exactly the rendered
value; what the slice held before is discarded. -/
theorem bind_slice_roundtrip (elem : Ty) (v0 : GV) (blks : List Block) (gs : List GV) (hfam : famTy elem)
    (hstruct : ∃ id sn fs, elem = .struct id sn fs)
    (h : Pairs (fun b g => HasTy g elem ∧ ∃ n, Renders n elem g b) blks gs) :
    bind (.pointer (.slice elem) v0) (some (.slice blks)) = .ok (.slice (GVs.ofList gs)) := by
  obtain ⟨id, sn, fs, rfl⟩ := hstruct
  simp only [bind]
  have hmax : ∀ b ∈ blks, blockDepth b ≤ maxDepth blks := (foldl_max_ge blks 0).2
  have h' : Pairs (fun b g => HasTy g (.struct id sn fs) ∧ ∃ n, Renders n (.struct id sn fs) g b ∧ blockDepth b ≤ maxDepth blks) blks gs := by
    clear hfam
    generalize maxDepth blks = D at hmax
    induction h with
    | nil => exact .nil
    | cons hb _ ih =>
      refine .cons ⟨hb.1, ?_⟩ (ih (fun b hb' => hmax b (by simp [hb'])))
      obtain ⟨n, hr⟩ := hb.2
      exact ⟨n, hr, hmax _ (by simp)⟩
  rw [blocksToSlice_renders (maxDepth blks) _ hfam blks gs [] h']
  simp

end Bclv.Bind
