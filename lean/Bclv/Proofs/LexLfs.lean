import Bclv.Proofs.LexChunk
import Bclv.Proofs.LineCalc
import Bclv.Model.Api
namespace Bclv

/-- The line table built so far plus the newlines of what is still pending is the table
of the whole input. -/
def LI (T : List Nat) (w : Win) : Prop :=
  w.lfs ++ newlinesFrom (w.posShift + w.input.length) w.pending.flatten = T

theorem li_refill (T : List Nat) : ∀ (f : Nat) (w : Win), w.start ≤ w.input.length → LI T w → LI T (Win.refill f w)
  | 0, w, _, h => h
  | f+1, w, hs, h => by
    unfold Win.refill
    split
    · cases hp : w.pending with
      | nil =>
        simp only
        split
        · exact h
        · split
          · exact h
          · unfold LI at h ⊢
            simp only [hp, List.flatten_nil, newlinesFrom, List.append_nil, List.length_drop] at h ⊢
            exact h
      | cons c cs =>
        simp only
        apply li_refill T f _ (Nat.zero_le _)
        unfold LI at h ⊢
        simp only [hp, List.flatten_cons, List.length_append, List.length_drop] at h ⊢
        rw [newlinesFrom_append] at h
        rw [← h, List.append_assoc]
        congr 2
        · congr 1; omega
        · congr 1; omega
    · exact h

def WR' (T : List Nat) (w : Win) (h : Whole) : Prop := WR w h ∧ LI T w
def WRp' (T : List Nat) (w : Win) (h : Whole) : Prop := WRp w h ∧ LI T w
def WRm' (T : List Nat) (w : Win) (h : Whole) : Prop := WRm w h ∧ LI T w

theorem li_next (T : List Nat) (w : Win) (hs : w.start ≤ w.input.length) (h : LI T w) : LI T (Win.prims.next w).2 := by
  have := li_refill T (w.pending.length + 1) w hs h
  simp only [Win.prims]
  split <;> exact this

theorem winWholeSim' (T : List Nat) : PrimSim Win.prims Whole.prims (WR' T) (WRp' T) (WRm' T) where
  rp_r := fun _ _ h => ⟨h.1.1, h.2⟩
  rm_r := fun _ _ h => ⟨h.1.1, h.2⟩
  next := fun w h hr => ⟨(wr_next w h hr.1).1, (wr_next w h hr.1).2, li_next T w (by have := hr.1.1; have := hr.1.2.1; omega) hr.2⟩
  backup := fun w h hr => ⟨wr_backup w h hr.1, hr.2⟩
  unbackup := fun w h hr => ⟨wr_unbackup w h hr.1, hr.2⟩
  ignore := fun w h hr => ⟨wr_ignore w h hr.1, hr.2⟩
  ignore_m := fun w h hr => ⟨winWholeSim.ignore_m w h hr.1, hr.2⟩
  current := fun w h hr => wr_current w h hr.1
  endPos := fun w h hr => wr_endPos w h hr.1

theorem decodeRune_nonneg (b : Bytes) : 0 ≤ (decodeRune b).1 := by
  unfold decodeRune
  repeat' split
  all_goals first | (simp [runeError]; done) | (simp only; omega) | (simp only; exact Int.natCast_nonneg _)

/-- The window lexer reports end of input only when nothing is pending. -/
theorem win_eof_pending (w : Win) (h : (Win.prims.next w).1 = eofR) : (Win.prims.next w).2.pending = [] := by
  have hdone := refill_done (w.pending.length + 1) w (Nat.lt_succ_self _)
  simp only [Win.prims] at h ⊢
  generalize Win.refill (w.pending.length + 1) w = w' at h hdone
  by_cases hz : (decodeRune (w'.input.drop w'.pos)).2 = 0
  · simp only [hz, if_true]
    rcases hdone with hp | ⟨hlt, _⟩
    · exact hp
    · have := (decodeRune_width_zero _).mp hz
      have hl := congrArg List.length this
      simp at hl; omega
  · simp only [hz, if_false] at h
    have := decodeRune_nonneg (w'.input.drop w'.pos)
    rw [h] at this
    simp [eofR] at this

/-- the final states of the two lexers -/
def winRun (chunks : List Bytes) : LexSt Win :=
  let total := (chunks.map List.length).sum
  lexRun Win.prims (total + 2) (3 * total + 4) .start
    { s := { input := [], start := 0, pos := 0, posShift := 0, width := 0, pending := chunks, lfs := [] }, toks := [] }

theorem lexChunks_eq (chunks : List Bytes) : lexChunks chunks = ((winRun chunks).toks.reverse, (winRun chunks).s.lfs) := rfl

/-- **When the lexer reaches the end of the input the line table is complete**: built
chunk by chunk it is the table of the whole input. -/
theorem lfs_chunk_indep (chunks : List Bytes) (heof : headTyp (winRun chunks) = some .EOF) :
    (lexChunks chunks).2 = newlinesFrom 0 chunks.flatten := by
  rw [lexChunks_eq]
  simp only
  -- the invariant along the run
  have hrel := lexRun_sim (winWholeSim' (newlinesFrom 0 chunks.flatten)) ((chunks.map List.length).sum + 2)
    (3 * (chunks.map List.length).sum + 4) .start
    { s := { input := [], start := 0, pos := 0, posShift := 0, width := 0, pending := chunks, lfs := [] }, toks := [] }
    { s := { pos := 0, cur := [], rest := chunks.flatten, width := 0 }, toks := [] }
    ⟨⟨⟨Nat.le_refl _, Nat.zero_le _, rfl, rfl, rfl, rfl⟩, by simp [LI]⟩, rfl⟩
  have hli : LI (newlinesFrom 0 chunks.flatten) (winRun chunks).s := hrel.1.2
  -- at the end nothing is pending
  obtain ⟨s, hs1, hs2⟩ := lexRun_eof Win.prims _ _ .start _ (by simp) heof
  have hp : (winRun chunks).s.pending = [] := by
    unfold winRun
    rw [hs2]
    have := win_eof_pending s hs1
    simpa [Win.prims] using this
  unfold LI at hli
  rw [hp] at hli
  simpa [newlinesFrom] using hli

/-- **Chunk independence of `Parse`** (no lexical failure): the compiled program — code,
constants, positions, line table —, the diagnostics and the statistics are the same
however the input is delivered. -/
theorem parse_chunk_indep (name : Bytes) (chunks : List Bytes) (heof : headTyp (winRun chunks) = some .EOF) :
    parseChunks name chunks = parseWhole name chunks.flatten := by
  have h1 := lex_chunk_indep chunks
  have h2 := lfs_chunk_indep chunks heof
  unfold parseChunks parseWhole
  rcases hl : lexChunks chunks with ⟨toks, lfs⟩
  rw [hl] at h1 h2
  simp only at h1 h2
  subst h1 h2
  rfl

end Bclv
