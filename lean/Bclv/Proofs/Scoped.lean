import Bclv.Proofs.Progress
import Bclv.Model.Scoped
import Bclv.Proofs.CompileCorrect
import Bclv.Model.Api
import Bclv.Props.C01
namespace Bclv

/-! ## a checker for well-scopedness, and its soundness -/

theorem isStrAtB_sound {K : List Value} {i : Nat} (h : isStrAtB K i = true) : isStrAt K i := by
  unfold isStrAtB at h
  split at h
  · rename_i s hs; exact ⟨s, hs⟩
  · cases h

theorem scE_sound (K : List Value) (L : Nat) (B : Bool) : ∀ (e : Expr), scE K L B e = true → ScE K L B e := by
  intro e
  induction e with
  | lit l p => intro _; trivial
  | const i p => intro h; simpa [scE, ScE] using h
  | getLocal s p => intro h; simpa [scE, ScE] using h
  | getField i p => intro h; simp [scE] at h; exact ⟨isStrAtB_sound h.1, h.2⟩
  | setLocal s e p ih => intro h; simp [scE] at h; exact ⟨h.1, ih h.2⟩
  | setField i e p ih => intro h; simp [scE] at h; exact ⟨isStrAtB_sound h.1.1, h.1.2, ih h.2⟩
  | un op e p ih => intro h; exact ih h
  | bin op a b p iha ihb => intro h; simp [scE] at h; exact ⟨iha h.1, ihb h.2⟩
  | and a b p iha ihb => intro h; simp [scE] at h; exact ⟨iha h.1.1, ihb h.1.2, h.2⟩
  | or a b p iha ihb => intro h; simp [scE] at h; exact ⟨iha h.1.1, ihb h.1.2, h.2⟩
  | bad => intro h; cases h

mutual
theorem scS_sound (K : List Value) : ∀ (st : Stmt) (B : Bool) (L L' : Nat), scS K B L st = some L' → ScS K B L st L'
  | .var (some e) pos, B, L, L', h => by
    simp only [scS] at h
    split at h
    · rename_i hc; simp at hc; cases h; exact ⟨scE_sound K L B e hc.1, rfl, by omega⟩
    · cases h
  | .var none pos, B, L, L', h => by
    simp only [scS] at h
    split at h
    · rename_i hc; cases h; exact ⟨rfl, hc⟩
    · cases h
  | .print e pos, B, L, L', h => by
    simp only [scS] at h
    split at h
    · rename_i hc; cases h; exact ⟨scE_sound K L B e hc, rfl⟩
    · cases h
  | .eval e pos, B, L, L', h => by
    simp only [scS] at h
    split at h
    · rename_i hc; cases h; exact ⟨scE_sound K L B e hc, rfl⟩
    · cases h
  | .block ti ni op body npop cp, B, L, L', h => by
    simp only [scS] at h
    split at h
    · rename_i hc
      simp at hc
      split at h
      · rename_i L2 hb
        split at h
        · rename_i hL; cases h
          exact ⟨isStrAtB_sound hc.1, isStrAtB_sound hc.2, rfl, by rw [← hL]; exact scSs_sound K body true L L2 hb⟩
        · cases h
      · cases h
    · cases h
  | .bind ti opt pos, B, L, L', h => by
    simp only [scS] at h
    split at h
    · rename_i hc; cases h; exact ⟨isStrAtB_sound hc, rfl⟩
    · cases h
  | .bad, B, L, L', h => by simp [scS] at h
theorem scSs_sound (K : List Value) : ∀ (ss : Stmts) (B : Bool) (L L' : Nat), scSs K B L ss = some L' → ScSs K B L ss L'
  | .nil, B, L, L', h => by simp [scSs] at h; exact h.symm
  | .cons st rest, B, L, L', h => by
    simp only [scSs] at h
    split at h
    · rename_i L1 h1
      exact ⟨L1, scS_sound K st B L L1 h1, scSs_sound K rest B L1 L' h⟩
    · cases h
end

theorem scP_sound {K : List Value} {t : Program} (h : scP K t = true) : ScP K t := by
  unfold scP at h
  exact scSs_sound K t.body false 0 t.npop (by simpa using h)

/-! ## well-scoped trees are within the compiler's ranges -/

theorem ScE_WF (K : List Value) (L : Nat) (B : Bool) (hK : K.length < 2 ^ 64) (hL : L ≤ 1024) :
    ∀ (e : Expr), ScE K L B e → e.WF := by
  intro e
  induction e with
  | lit l p => intro _; trivial
  | const i p => intro h; simp only [ScE] at h; simp only [Expr.WF]; omega
  | getLocal s p => intro h; simp only [ScE] at h; simp only [Expr.WF]; omega
  | getField i p =>
    intro h
    obtain ⟨⟨s, hs⟩, _⟩ := h
    have := (List.getElem?_eq_some_iff.mp hs).1
    simp only [Expr.WF]; omega
  | setLocal s e p ih => intro h; exact ⟨by have := h.1; omega, ih h.2⟩
  | setField i e p ih =>
    intro h
    obtain ⟨⟨s, hs⟩, _, he⟩ := h
    have := (List.getElem?_eq_some_iff.mp hs).1
    exact ⟨by omega, ih he⟩
  | un op e p ih => intro h; exact ih h
  | bin op a b p iha ihb => intro h; exact ⟨iha h.1, ihb h.2⟩
  | and a b p iha ihb => intro h; exact ⟨iha h.1, ihb h.2.1, h.2.2⟩
  | or a b p iha ihb => intro h; exact ⟨iha h.1, ihb h.2.1, h.2.2⟩
  | bad => intro h; exact h.elim

mutual
theorem ScS_bound (K : List Value) : ∀ (st : Stmt) (B : Bool) (L L' : Nat), ScS K B L st L' → L ≤ 1024 → L' ≤ 1024
  | .var (some e) _, B, L, L', h, _ => by simp only [ScS] at h; exact h.2.2
  | .var none _, B, L, L', h, _ => by simp only [ScS] at h; exact h.2
  | .print e _, B, L, L', h, hl => by simp only [ScS] at h; omega
  | .eval e _, B, L, L', h, hl => by simp only [ScS] at h; omega
  | .block _ _ _ _ _ _, B, L, L', h, hl => by simp only [ScS] at h; omega
  | .bind _ _ _, B, L, L', h, hl => by simp only [ScS] at h; omega
  | .bad, B, L, L', h, _ => by simp [ScS] at h
theorem ScSs_bound (K : List Value) : ∀ (ss : Stmts) (B : Bool) (L L' : Nat), ScSs K B L ss L' → L ≤ 1024 → L' ≤ 1024
  | .nil, B, L, L', h, hl => by simp only [ScSs] at h; omega
  | .cons st rest, B, L, L', h, hl => by
    simp only [ScSs] at h
    obtain ⟨L1, h1, h2⟩ := h
    exact ScSs_bound K rest B L1 L' h2 (ScS_bound K st B L L1 h1 hl)
end

mutual
theorem ScS_WF (K : List Value) (hK : K.length < 2 ^ 64) : ∀ (st : Stmt) (B : Bool) (L L' : Nat),
    ScS K B L st L' → L ≤ 1024 → st.WF
  | .var (some e) _, B, L, L', h, hl => by simp only [ScS] at h; exact ScE_WF K L B hK hl e h.1
  | .var none _, B, L, L', h, _ => trivial
  | .print e _, B, L, L', h, hl => by simp only [ScS] at h; exact ScE_WF K L B hK hl e h.1
  | .eval e _, B, L, L', h, hl => by simp only [ScS] at h; exact ScE_WF K L B hK hl e h.1
  | .block ti ni _ body npop _, B, L, L', h, hl => by
    simp only [ScS] at h
    obtain ⟨⟨s1, h1⟩, ⟨s2, h2⟩, _, hb⟩ := h
    have b1 := (List.getElem?_eq_some_iff.mp h1).1
    have b2 := (List.getElem?_eq_some_iff.mp h2).1
    have hbound := ScSs_bound K body true L (L + npop) hb hl
    exact ⟨by omega, by omega, by omega, ScSs_WF K hK body true L (L + npop) hb hl⟩
  | .bind ti _ _, B, L, L', h, _ => by
    simp only [ScS] at h
    obtain ⟨⟨s1, h1⟩, _⟩ := h
    have b1 := (List.getElem?_eq_some_iff.mp h1).1
    simp only [Stmt.WF]; omega
  | .bad, B, L, L', h, _ => trivial
theorem ScSs_WF (K : List Value) (hK : K.length < 2 ^ 64) : ∀ (ss : Stmts) (B : Bool) (L L' : Nat),
    ScSs K B L ss L' → L ≤ 1024 → ss.WF
  | .nil, B, L, L', h, _ => trivial
  | .cons st rest, B, L, L', h, hl => by
    simp only [ScSs] at h
    obtain ⟨L1, h1, h2⟩ := h
    exact ⟨ScS_WF K hK st B L L1 h1 hl, ScSs_WF K hK rest B L1 L' h2 (ScS_bound K st B L L1 h1 hl)⟩
end

/-- **End to end, for one input**: if the parser model accepts the input and the tree it
built passes the scoping checker (a computable test, evaluated by the driver for every
program of the correspondence runs), then for every sufficiently large step budget the VM
on the compiled program ends with a result or a runtime error — it does not panic, does
not end in the internal non-empty-stack error, and does not run out of steps. -/
theorem accepted_program_runs (name input : Bytes)
    (hok : (parseTokens (lexWhole input) (newlinesFrom 0 input)).ok = true)
    (hsc : scP (parseTokens (lexWhole input) (newlinesFrom 0 input)).consts
               (parseTokens (lexWhole input) (newlinesFrom 0 input)).prog = true)
    (hK : (parseTokens (lexWhole input) (newlinesFrom 0 input)).consts.length < 2 ^ 64) :
    ∃ n, ∀ m, n ≤ m →
      (∃ vm', execute (parseWhole name input).prog false m = .done vm' .ok)
      ∨ (∃ vm' text, execute (parseWhole name input).prog false m = .done vm' (.rt text)) := by
  obtain ⟨hcode, hpos, hconsts⟩ := C01.parsed_is_compiled name input hok
  have hscp := scP_sound hsc
  have hnp : (parseTokens (lexWhole input) (newlinesFrom 0 input)).prog.npop ≤ 1024 :=
    ScSs_bound _ _ false 0 _ hscp (by omega)
  have hwf := ScSs_WF _ hK _ false 0 _ hscp (by omega)
  obtain ⟨n, hn⟩ := C01.compile_correct_prog (parseWhole name input).prog
    (parseTokens (lexWhole input) (newlinesFrom 0 input)).prog hwf (by omega) hcode hpos
  have hprog := evalP_progress (parseWhole name input).prog
    (parseTokens (lexWhole input) (newlinesFrom 0 input)).prog (by rw [hconsts]; exact hscp)
  refine ⟨n, fun m hm => ?_⟩
  have h := hn m hm
  cases hr : evalP (parseWhole name input).prog (parseTokens (lexWhole input) (newlinesFrom 0 input)).prog with
  | wrong => exact absurd hr hprog.1
  | err pos msg =>
    rw [hr] at h
    obtain ⟨vm', hrun⟩ := h
    exact .inr ⟨vm', _, hrun⟩
  | ok s =>
    rw [hr] at h
    obtain ⟨vm', _, hrun⟩ := h
    have hemp := hprog.2 s hr
    rw [hemp] at hrun
    exact .inl ⟨vm', by simpa using hrun⟩

end Bclv
