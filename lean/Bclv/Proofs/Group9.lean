import Bclv.Proofs.Group8
import Bclv.Proofs.Group4
namespace Bclv

/-- whole programs -/
theorem prog_unique : ∀ (N : Nat) (ss ss' : ShSs) (ts ts' : List TokType) (c c' : TokType) (r r' : List TokType),
    RdProgF ss ts c → RdProgF ss' ts' c' → ts ++ c :: r = ts' ++ c' :: r' → (ts ++ c :: r).length ≤ N → ss = ss' ∧ ts = ts'
  | 0, _, _, ts, _, c, _, r, _, _, _, _, hl => by simp at hl
  | N+1, ss, ss', ts, ts', c, c', r, r', h, h', heq, hl => by
    have hS := (stmt_body_unique (N + 1)).1
    have noclose : ∀ {s0 : ShS} {t0 : List TokType} {f0 : TokType}, RdSF false s0 t0 f0 → ∀ (cc : TokType) {x y : List TokType},
        cc.isEnd = true → cc :: x = t0 ++ y → False := by
      intro s0 t0 f0 hs cc x y hcc hx
      obtain ⟨t, rest, rfl, _, _, h3⟩ := rdsf_head hs
      simp at hx
      rw [hx.1] at hcc; rw [hcc] at h3; cases h3
    cases h with
    | nil c hc =>
      cases h' with
      | nil => exact ⟨rfl, rfl⟩
      | cons s1 ss1 t1 rest1 _ hs1 _ _ => exact absurd heq (fun hx => noclose hs1 c hc (by simpa [List.append_assoc] using hx))
      | consSemi s1 ss1 t1 rest1 _ hs1 _ => exact absurd heq (fun hx => noclose hs1 c hc (by simpa [List.append_assoc] using hx))
    | cons s0 ss0 t0 rest0 c hs0 hns0 hb0 =>
      obtain ⟨tl0, hsplit0⟩ := follow_split rest0 c r
      cases h' with
      | nil _ hc' => exact absurd heq.symm (fun hx => noclose hs0 c' hc' (by simpa [List.append_assoc] using hx))
      | cons s1 ss1 t1 rest1 _ hs1 hns1 hb1 =>
        obtain ⟨tl1, hsplit1⟩ := follow_split rest1 c' r'
        have heq2 : t0 ++ followOf rest0 c :: tl0 = t1 ++ followOf rest1 c' :: tl1 := by
          rw [← hsplit0, ← hsplit1]; simpa [List.append_assoc] using heq
        have hl2 : (t0 ++ followOf rest0 c :: tl0).length ≤ N + 1 := by
          rw [← hsplit0]; simpa [List.append_assoc] using hl
        obtain ⟨rfl, rfl⟩ := hS false s0 s1 t0 t1 _ _ tl0 tl1 hs0 hs1 heq2 hl2
        have heq3 : rest0 ++ c :: r = rest1 ++ c' :: r' := by
          have := heq; simp only [List.append_assoc] at this; exact List.append_cancel_left this
        obtain ⟨t, trest, rfl, _⟩ := rdsf_head hs0
        have hl3 : (rest0 ++ c :: r).length ≤ N := by
          simp only [List.length_append, List.length_cons] at hl ⊢; omega
        obtain ⟨rfl, rfl⟩ := prog_unique N ss0 ss1 rest0 rest1 c c' r r' hb0 hb1 heq3 hl3
        exact ⟨rfl, rfl⟩
      | consSemi s1 ss1 t1 rest1 _ hs1 hb1 =>
        have heq2 : t0 ++ followOf rest0 c :: tl0 = t1 ++ .SEMICOLON :: (rest1 ++ c' :: r') := by
          rw [← hsplit0]; simpa [List.append_assoc] using heq
        have hl2 : (t0 ++ followOf rest0 c :: tl0).length ≤ N + 1 := by
          rw [← hsplit0]; simpa [List.append_assoc] using hl
        obtain ⟨_, rfl⟩ := hS false s0 s1 t0 t1 _ _ tl0 _ hs0 hs1 heq2 hl2
        have := List.append_cancel_left heq2
        simp only [List.cons.injEq] at this
        exact absurd this.1 hns0
    | consSemi s0 ss0 t0 rest0 c hs0 hb0 =>
      cases h' with
      | nil _ hc' => exact absurd heq.symm (fun hx => noclose hs0 c' hc' (by simpa [List.append_assoc] using hx))
      | cons s1 ss1 t1 rest1 _ hs1 hns1 hb1 =>
        obtain ⟨tl1, hsplit1⟩ := follow_split rest1 c' r'
        have heq2 : t0 ++ .SEMICOLON :: (rest0 ++ c :: r) = t1 ++ followOf rest1 c' :: tl1 := by
          rw [← hsplit1]; simpa [List.append_assoc] using heq
        have hl2 : (t0 ++ .SEMICOLON :: (rest0 ++ c :: r)).length ≤ N + 1 := by
          simpa [List.append_assoc] using hl
        obtain ⟨_, rfl⟩ := hS false s0 s1 t0 t1 _ _ _ tl1 hs0 hs1 heq2 hl2
        have := List.append_cancel_left heq2
        simp only [List.cons.injEq] at this
        exact absurd this.1.symm hns1
      | consSemi s1 ss1 t1 rest1 _ hs1 hb1 =>
        have heq2 : t0 ++ .SEMICOLON :: (rest0 ++ c :: r) = t1 ++ .SEMICOLON :: (rest1 ++ c' :: r') := by
          simpa [List.append_assoc] using heq
        have hl2 : (t0 ++ .SEMICOLON :: (rest0 ++ c :: r)).length ≤ N + 1 := by
          simpa [List.append_assoc] using hl
        obtain ⟨rfl, rfl⟩ := hS false s0 s1 t0 t1 _ _ _ _ hs0 hs1 heq2 hl2
        have heq3 : rest0 ++ c :: r = rest1 ++ c' :: r' := by
          have := List.append_cancel_left heq2
          simpa using this
        obtain ⟨t, trest, rfl, _⟩ := rdsf_head hs0
        have hl3 : (rest0 ++ c :: r).length ≤ N := by
          simp only [List.length_append, List.length_cons] at hl ⊢; omega
        obtain ⟨rfl, rfl⟩ := prog_unique N ss0 ss1 rest0 rest1 c c' r r' hb0 hb1 heq3 hl3
        exact ⟨rfl, rfl⟩

/-- **A token list reads as at most one program shape.** -/
theorem reading_of_program_unique (ss ss' : ShSs) (ts : List TokType) (c : TokType)
    (h : RdProgF ss ts c) (h' : RdProgF ss' ts c) : ss = ss' :=
  (prog_unique _ ss ss' ts ts c c [] [] h h' rfl (Nat.le_refl _)).1

/-- a statement may always be followed by `;` -/
theorem rdsf_semicolon {b : Bool} {s : ShS} {ts : List TokType} {c : TokType} (h : RdSF b s ts c) : RdSF b s ts .SEMICOLON := by
  have he : endsExpr .SEMICOLON := ⟨rfl, by decide⟩
  cases h with
  | var0 => exact RdSF.var0 _ _ (by decide)
  | var1 _ _ _ _ hr _ => exact RdSF.var1 _ _ _ _ hr he
  | print _ _ _ _ hr _ => exact RdSF.print _ _ _ _ hr he
  | eval _ _ _ _ hr _ => exact RdSF.eval _ _ _ _ hr he
  | block _ _ _ _ _ hn hb => exact RdSF.block _ _ _ _ _ hn hb
  | bind _ _ _ hs => exact RdSF.bind _ _ _ hs
  | expr _ _ _ hr _ => exact RdSF.expr _ _ _ hr he

/-- **The optional `;` is layout**: a `;` put after the first statement of a program leaves the
reading — the shape — as it was. -/
theorem semicolon_after_first (s : ShS) (ss : ShSs) (ts rest : List TokType) (c : TokType)
    (hs : RdSF false s ts (followOf rest c)) (hrest : RdProgF ss rest c) :
    RdProgF (.cons s ss) (ts ++ .SEMICOLON :: rest) c :=
  RdProgF.consSemi s ss ts rest c (rdsf_semicolon hs) hrest

/-- the same inside a block body -/
theorem semicolon_after_first_in_body (s : ShS) (ss : ShSs) (ts rest : List TokType) (c : TokType)
    (hs : RdSF true s ts (followOf rest c)) (hrest : RdBF ss rest c) :
    RdBF (.cons s ss) (ts ++ .SEMICOLON :: rest) c :=
  RdBF.consSemi s ss ts rest c (rdsf_semicolon hs) hrest

/-- redundant parentheses around a whole expression statement's expression, `print`/`eval`/`var`
operand: same shape -/
theorem paren_whole_expr {s : Sh} {ts : List TokType} (h : Rd precAssign s ts 0) :
    Rd precAssign s (.LPAREN :: (ts ++ [.RPAREN])) 0 := Rd.paren _ s ts 0 h

/-- the tokens of an accepted list read, with the side conditions on what follows, as the
returned program's shape -/
theorem parse_reads_f (toks : List Token) (lfs : List Nat) (hend : lastEnd toks = true)
    (hnf : ∀ t ∈ toks, t.typ ≠ .FAIL) (hok : (parseTokens toks lfs).ok = true) :
    ∃ body e rest, toks = body ++ e :: rest ∧ e.typ.isEnd = true ∧
      RdProgF (shapeSs (parseTokens toks lfs).prog.body) (typs body) e.typ := by
  have hns := parse_not_stuck toks lfs hend
  have hi0 : GInv ({ rest := toks, lfs := lfs } : PState) :=
    ⟨TE_init toks lfs hend, fun h => Bool.noConfusion h, rfl, hnf⟩
  have hne0 : toks ≠ [] := by intro h; rw [h] at hend; cases hend
  have hrun : wp (do advance; let body ← topLoop (4 * toks.length + 16); let p ← get
                     return ({ body, npop := p.locals.length, endPos := p.prev.pos } : Program))
      (fun prog p' => NE p' → ∃ body e rest, toks = body ++ e :: rest ∧ e.typ.isEnd = true ∧
        RdProgF (shapeSs prog.body) (typs body) e.typ)
      ({ rest := toks, lfs := lfs } : PState) := by
    rw [wp_bind]
    have h1 : wp advance (fun _ p1 => GM ({ rest := toks, lfs := lfs } : PState) p1 ∧ p1.depth = 0 ∧
        (p1.hadError = false → toks = p1.cur :: p1.rest)) ({ rest := toks, lfs := lfs } : PState) := by
      refine ⟨advance_gr.h _ hi0, advance_dp.h _, ?_⟩
      have : wp advance (fun _ p' => p'.hadError = false → toks ≠ [] → toks = p'.cur :: p'.rest)
          ({ rest := toks, lfs := lfs } : PState) := by
        unfold advance
        rw [wp_bind, wp_modify, wp_bind, wp_get]
        exact advanceLoop_noerr toks _
      intro h; exact this h hne0
    apply wp_mono h1
    intro _ p1 hq1
    obtain ⟨hg1, hd1, ht1⟩ := hq1
    rw [wp_bind]
    apply wp_mono (topLoop_rdf _ p1 hg1.inv hd1)
    intro body p2 hq2
    rw [wp_bind, wp_get, wp_pure]
    intro hne
    obtain ⟨b, e, r, htoks, he, hp⟩ := hq2.2 hne
    have hne1 : NE p1 := hq2.1.ne hne
    exact ⟨b, e, r, by rw [ht1 hne1.1, htoks], he, hp⟩
  unfold parseTokens at hok hns ⊢
  simp only [StateT.run] at hok hns ⊢
  unfold wp at hrun
  revert hok hns hrun
  generalize ((advance >>= fun _ => do
    let body ← topLoop (4 * toks.length + 16)
    let p ← get
    pure ({ body := body, npop := p.locals.length, endPos := p.prev.pos } : Program) : PM Program)
    { rest := toks, lfs := lfs }) = r
  obtain ⟨a, q⟩ := r
  intro hok hns hrun
  apply hrun
  constructor
  · show q.hadError = false
    have : (!q.hadError) = true := hok
    cases h : q.hadError <;> simp_all
  · exact hns

/-- **From source text, and uniquely**: the token kinds of an accepted text read as the shape of
the program tree, and as no other shape. -/
theorem source_reads_unique (a : Bytes) (hok : (parseTokens (lexWhole a) (newlinesFrom 0 a)).ok = true) :
    ∃ body e, lexWhole a = body ++ [e] ∧ e.typ = .EOF ∧
      RdProgF (shapeSs (parseTokens (lexWhole a) (newlinesFrom 0 a)).prog.body) (typs body) .EOF ∧
      ∀ ss', RdProgF ss' (typs body) .EOF → ss' = shapeSs (parseTokens (lexWhole a) (newlinesFrom 0 a)).prog.body := by
  obtain ⟨body, e, hbe, he, _⟩ := source_sound a hok
  obtain ⟨pre, e0, htoks, he0, hpre, _⟩ := lexWhole_shape a
  have hlast := lexWhole_lastEnd a
  have hsame : pre = body ∧ e0 = e := by
    have := htoks.symm.trans hbe
    have h1 := List.append_inj' this rfl
    exact ⟨h1.1, by simpa using h1.2⟩
  obtain ⟨rfl, rfl⟩ := hsame
  have hnf : ∀ t ∈ lexWhole a, t.typ ≠ .FAIL := by
    intro t ht
    rw [htoks] at ht
    rcases List.mem_append.mp ht with ht | ht
    · intro h; have := hpre t ht; rw [h] at this; cases this
    · simp at ht; rw [ht, he]; intro h; cases h
  obtain ⟨body', e', rest, hsplit, he', hprog⟩ := parse_reads_f (lexWhole a) (newlinesFrom 0 a) hlast hnf hok
  rw [htoks] at hsplit
  obtain ⟨hb, hee, _⟩ := split_at_first_end pre e0 body' e' rest hpre he' hsplit
  subst hb
  rw [hee, he] at hprog
  exact ⟨body', e0, htoks, he, hprog, fun ss' h' => reading_of_program_unique _ _ _ _ h' hprog⟩

end Bclv
