import Bclv.Proofs.LexGhost2
import Bclv.Proofs.LexLfs
import Bclv.Proofs.ParserLfs3
import Bclv.Proofs.Grammar7
/-!
# Chunk independence of the diagnostics after a lexical failure

When the lexer stops at a lexical failure the line table has been built only for the chunks
read so far.  Every token lies at or below the end of what has been read (`win_tokens_bounded`,
through a ghost counter on the whole-input side of the simulation), the missing entries all
lie at or beyond it, and the parser looks up only positions of tokens (`parse_lfs`): so the
diagnostics are the ones `Parse` gives on the whole input.
-/
namespace Bclv

/-- the absolute offset of the end of what the window has received -/
def WB (w : Win) : Nat := w.posShift + w.input.length

theorem refill_wb : ∀ (f : Nat) (w : Win), WB w ≤ WB (Win.refill f w)
  | 0, _ => Nat.le_refl _
  | f+1, w => by
    unfold Win.refill
    split
    · cases hp : w.pending with
      | nil =>
        simp only
        split
        · exact Nat.le_refl _
        · split
          · exact Nat.le_refl _
          · simp only [WB, List.length_drop]; omega
      | cons c cs =>
        simp only
        refine Nat.le_trans ?_ (refill_wb f _)
        simp only [WB, List.length_append, List.length_drop]; omega
    · exact Nat.le_refl _

theorem next_wb (w : Win) : WB w ≤ WB (Win.prims.next w).2 := by
  have := refill_wb (w.pending.length + 1) w
  simp only [Win.prims]
  split <;> exact this

def GhR (T : List Nat) (w : Win) (b : Whole × Nat) : Prop := WR' T w b.1 ∧ b.2 ≤ WB w
def GhRp (T : List Nat) (w : Win) (b : Whole × Nat) : Prop := WRp' T w b.1 ∧ b.2 ≤ WB w
def GhRm (T : List Nat) (w : Win) (b : Whole × Nat) : Prop := WRm' T w b.1 ∧ b.2 ≤ WB w

theorem wr_end_le (w : Win) (h : Whole) (hr : WR w h) : Whole.prims.endPos h ≤ WB w := by
  obtain ⟨h1, h2, h3, _⟩ := hr
  show h.pos ≤ w.posShift + w.input.length
  omega

theorem winGhostSim (T : List Nat) : PrimSim Win.prims (ghost Whole.prims) (GhR T) (GhRp T) (GhRm T) where
  rp_r := fun a b h => ⟨(winWholeSim' T).rp_r a b.1 h.1, h.2⟩
  rm_r := fun a b h => ⟨(winWholeSim' T).rm_r a b.1 h.1, h.2⟩
  next := fun a b h => ⟨((winWholeSim' T).next a b.1 h.1).1, ((winWholeSim' T).next a b.1 h.1).2,
    Nat.le_trans h.2 (next_wb a)⟩
  backup := fun a b h => ⟨(winWholeSim' T).backup a b.1 h.1, h.2⟩
  unbackup := fun a b h => ⟨(winWholeSim' T).unbackup a b.1 h.1, h.2⟩
  ignore := fun a b h => ⟨(winWholeSim' T).ignore a b.1 h.1,
    Nat.max_le.mpr ⟨h.2, wr_end_le a b.1 h.1.1⟩⟩
  ignore_m := fun a b h => ⟨(winWholeSim' T).ignore_m a b.1 h.1,
    Nat.max_le.mpr ⟨h.2, wr_end_le a b.1 h.1.1.1⟩⟩
  current := fun a b h => (winWholeSim' T).current a b.1 h.1
  endPos := fun a b h => (winWholeSim' T).endPos a b.1 h.1

/-- **No token lies beyond what the lexer has received**, whatever the chunks and wherever the
lexer stopped. -/
theorem win_tokens_bounded (chunks : List Bytes) : ∀ t ∈ (winRun chunks).toks, t.pos ≤ WB (winRun chunks).s := by
  have hrel := lexRun_sim (winGhostSim (newlinesFrom 0 chunks.flatten)) ((chunks.map List.length).sum + 2)
    (3 * (chunks.map List.length).sum + 4) .start
    { s := { input := [], start := 0, pos := 0, posShift := 0, width := 0, pending := chunks, lfs := [] }, toks := [] }
    { s := ({ pos := 0, cur := [], rest := chunks.flatten, width := 0 }, 0), toks := [] }
    ⟨⟨⟨⟨Nat.le_refl _, Nat.zero_le _, rfl, rfl, rfl, rfl⟩, by simp [LI]⟩, Nat.zero_le _⟩, rfl⟩
  have htg := lexRun_tg Whole.prims (fun _ => rfl) ((chunks.map List.length).sum + 2)
    (3 * (chunks.map List.length).sum + 4) .start
    { s := ({ pos := 0, cur := [], rest := chunks.flatten, width := 0 }, 0), toks := [] }
    (by intro t ht; cases ht)
  intro t ht
  unfold winRun at ht ⊢
  rw [hrel.2] at ht
  exact Nat.le_trans (htg t ht) hrel.1.2

/-- the line table built by the time the lexer stopped, plus entries at or beyond the end of
what was received, is the table of the whole input -/
theorem win_lfs_prefix (chunks : List Bytes) :
    ∃ rem, (winRun chunks).s.lfs ++ rem = newlinesFrom 0 chunks.flatten ∧ ∀ x ∈ rem, WB (winRun chunks).s ≤ x := by
  have hrel := lexRun_sim (winWholeSim' (newlinesFrom 0 chunks.flatten)) ((chunks.map List.length).sum + 2)
    (3 * (chunks.map List.length).sum + 4) .start
    { s := { input := [], start := 0, pos := 0, posShift := 0, width := 0, pending := chunks, lfs := [] }, toks := [] }
    { s := { pos := 0, cur := [], rest := chunks.flatten, width := 0 }, toks := [] }
    ⟨⟨⟨Nat.le_refl _, Nat.zero_le _, rfl, rfl, rfl, rfl⟩, by simp [LI]⟩, rfl⟩
  have hli : LI (newlinesFrom 0 chunks.flatten) (winRun chunks).s := hrel.1.2
  exact ⟨_, hli, fun x hx => (newlinesFrom_bounds _ _ x hx).1⟩

/-- **Chunk independence of `Parse`, for every input**: the compiled program, the diagnostics
and the statistics are the same however the input is delivered — also when the lexer stops at
a lexical failure, long before the input is exhausted. -/
theorem parse_chunk_indep_all (name : Bytes) (chunks : List Bytes) :
    parseChunks name chunks = parseWhole name chunks.flatten := by
  have htoks := lex_chunk_indep chunks
  obtain ⟨rem, hrem, hge⟩ := win_lfs_prefix chunks
  have hb := win_tokens_bounded chunks
  have hpar : parseTokens (lexWhole chunks.flatten) (winRun chunks).s.lfs =
      parseTokens (lexWhole chunks.flatten) (newlinesFrom 0 chunks.flatten) := by
    apply parse_lfs _ _ _ (WB (winRun chunks).s)
    · intro t ht
      rw [← htoks, lexChunks_eq] at ht
      exact hb t (by simpa using ht)
    · intro x hx
      rw [← hrem]
      unfold fmtPos
      rw [lineColAt_append _ _ _ (fun y hy => Nat.le_trans hx (hge y hy))]
  by_cases hok : (parseTokens (lexWhole chunks.flatten) (newlinesFrom 0 chunks.flatten)).ok = true
  · -- accepted: the lexer reached the end of the input, the table is complete
    obtain ⟨body, e, hbe, he, _⟩ := source_sound chunks.flatten hok
    apply parse_chunk_indep
    rw [lexChunks_eq] at htoks
    simp only at htoks
    have : (winRun chunks).toks = e :: body.reverse := by
      have := congrArg List.reverse htoks
      rw [List.reverse_reverse, hbe] at this
      simpa using this
    simp [headTyp, this, he]
  · have hok' : (parseTokens (lexWhole chunks.flatten) (newlinesFrom 0 chunks.flatten)).ok = false := by
      simpa using hok
    unfold parseChunks parseWhole
    rw [lexChunks_eq]
    simp only
    rw [lexChunks_eq] at htoks
    simp only at htoks
    rw [htoks, hpar]
    simp only [hok']
    rfl

end Bclv
