import Bclv.Model.Parser
/-!
# The parser uses the line table only below the positions of its tokens

`LF B p₁ p₂`: two parser states that agree in everything but the line table, whose two line
tables give the same `line:col` for every offset up to `B`, and whose tokens all lie at
offsets up to `B`.  Every parser function maps `LF`-related states to `LF`-related states and
returns the same result (`HomL`).  Hence the diagnostics, the tree and the verdict are the
same whether the parser is given the line table of the whole input or only the part of it
that had been built when the lexer stopped (chunked reading after a lexical failure).
-/
set_option linter.unusedSimpArgs false
namespace Bclv

structure LF (B : Nat) (p₁ p₂ : PState) : Prop where
  rest : p₁.rest = p₂.rest
  prev : p₁.prev = p₂.prev
  cur : p₁.cur = p₂.cur
  hadError : p₁.hadError = p₂.hadError
  hadLexFail : p₁.hadLexFail = p₂.hadLexFail
  panicMode : p₁.panicMode = p₂.panicMode
  identRefs : p₁.identRefs = p₂.identRefs
  consts : p₁.consts = p₂.consts
  locals : p₁.locals = p₂.locals
  depth : p₁.depth = p₂.depth
  log : p₁.log = p₂.log
  tokens : p₁.tokens = p₂.tokens
  localMax : p₁.localMax = p₂.localMax
  depthMax : p₁.depthMax = p₂.depthMax
  stuck : p₁.stuck = p₂.stuck
  agree : ∀ x, x ≤ B → fmtPos p₁.lfs x = fmtPos p₂.lfs x
  bprev : p₂.prev.pos ≤ B
  bcur : p₂.cur.pos ≤ B
  brest : ∀ t ∈ p₂.rest, t.pos ≤ B

/-- two runs from `LF`-related states: related afterwards, same result -/
structure HomL (B : Nat) {α : Type} (m₁ m₂ : PM α) : Prop where
  h : ∀ p₁ p₂, LF B p₁ p₂ → LF B (m₁ p₁).2 (m₂ p₂).2 ∧ (m₁ p₁).1 = (m₂ p₂).1

variable {B : Nat}

theorem HomL.pure {α} (a : α) : HomL B (pure a : PM α) (pure a) := ⟨fun _ _ hp => ⟨hp, rfl⟩⟩
theorem HomL.bind {α β} {m₁ m₂ : PM α} {k₁ k₂ : α → PM β}
    (hm : HomL B m₁ m₂) (hk : ∀ a, HomL B (k₁ a) (k₂ a)) : HomL B (m₁ >>= k₁) (m₂ >>= k₂) :=
  ⟨fun p₁ p₂ hp => by
    have h1 := hm.h p₁ p₂ hp
    have h2 := (hk (m₁ p₁).1).h _ _ h1.1
    show LF B (k₁ (m₁ p₁).1 (m₁ p₁).2).2 (k₂ (m₂ p₂).1 (m₂ p₂).2).2 ∧ (k₁ (m₁ p₁).1 (m₁ p₁).2).1 = (k₂ (m₂ p₂).1 (m₂ p₂).2).1
    rw [← h1.2]; exact h2⟩
theorem HomL.get_bind {β} {k₁ k₂ : PState → PM β}
    (hk : ∀ q₁ q₂, LF B q₁ q₂ → HomL B (k₁ q₁) (k₂ q₂)) : HomL B (get >>= k₁) (get >>= k₂) :=
  ⟨fun p₁ p₂ hp => (hk p₁ p₂ hp).h p₁ p₂ hp⟩
theorem HomL.modify {g₁ g₂ : PState → PState} (h : ∀ p₁ p₂, LF B p₁ p₂ → LF B (g₁ p₁) (g₂ p₂)) :
    HomL B (modify g₁ : PM Unit) (modify g₂) :=
  ⟨fun p₁ p₂ hp => ⟨h p₁ p₂ hp, rfl⟩⟩
theorem HomL.ite {α} {c : Prop} [Decidable c] {x₁ y₁ x₂ y₂ : PM α}
    (hx : HomL B x₁ x₂) (hy : HomL B y₁ y₂) : HomL B (if c then x₁ else y₁) (if c then x₂ else y₂) := by
  split <;> assumption

set_option hygiene false in
/-- rewrite every field of the first state into the field of the second (`hq : LF B q₁ q₂`) -/
macro "lf_rw" : tactic => `(tactic| try simp only [hq.rest, hq.prev, hq.cur, hq.hadError, hq.hadLexFail, hq.panicMode,
  hq.identRefs, hq.consts, hq.locals, hq.depth, hq.log, hq.tokens, hq.localMax, hq.depthMax, hq.stuck])

set_option hygiene false in
/-- `LF (update of q₁) (update of q₂)` for the same update that leaves the tokens and the line table alone -/
macro "leq" : tactic => `(tactic| (
  constructor <;> (try dsimp only) <;> first
    | exact hq.agree | exact hq.bprev | exact hq.bcur | exact hq.brest
    | rfl
    | (simp only [hq.rest, hq.prev, hq.cur, hq.hadError, hq.hadLexFail, hq.panicMode,
        hq.identRefs, hq.consts, hq.locals, hq.depth, hq.log, hq.tokens, hq.localMax, hq.depthMax, hq.stuck]; done)))

syntax "homl_known" : tactic
macro_rules | `(tactic| homl_known) => `(tactic| with_reducible exact HomL.pure _)

set_option hygiene false in
macro "homl" : tactic => `(tactic| repeat' (first
  | assumption
  | homl_known
  | with_reducible apply HomL.ite
  | ((with_reducible apply HomL.get_bind); intro q₁ q₂ hq; lf_rw)
  | with_reducible apply HomL.bind
  | intro _))

theorem errorAt_homl (t : Token) (ht : t.pos ≤ B) (m : Bytes) : HomL B (errorAt t m) (errorAt t m) := by
  unfold errorAt
  apply HomL.modify; intro q₁ q₂ hq
  constructor <;> (try dsimp only) <;> first
    | exact hq.agree | exact hq.bprev | exact hq.bcur | exact hq.brest
    | rfl
    | (simp only [hq.rest, hq.prev, hq.cur, hq.hadError, hq.hadLexFail, hq.panicMode,
        hq.identRefs, hq.consts, hq.locals, hq.depth, hq.tokens, hq.localMax, hq.depthMax, hq.stuck]; done)
    | (rw [hq.agree t.pos ht, hq.log])

theorem errorAtCurrent_homl (m : Bytes) : HomL B (errorAtCurrent m) (errorAtCurrent m) := by
  unfold errorAtCurrent
  apply HomL.get_bind; intro q₁ q₂ hq; lf_rw
  exact errorAt_homl _ hq.bcur _
macro_rules | `(tactic| homl_known) => `(tactic| with_reducible exact errorAtCurrent_homl _)
theorem error_homl (m : Bytes) : HomL B (error m) (error m) := by
  unfold error
  apply HomL.get_bind; intro q₁ q₂ hq; lf_rw
  exact errorAt_homl _ hq.bprev _
macro_rules | `(tactic| homl_known) => `(tactic| with_reducible exact error_homl _)

theorem advanceLoop_homl : ∀ (ts : List Token), (∀ t ∈ ts, t.pos ≤ B) → HomL B (advanceLoop ts) (advanceLoop ts)
  | [], _ => by
    unfold advanceLoop
    apply HomL.modify; intro q₁ q₂ hq
    constructor <;> (try dsimp only) <;> first
      | exact hq.agree | exact hq.bprev | exact hq.bcur
      | rfl
      | (simp only [hq.prev, hq.cur, hq.hadError, hq.hadLexFail, hq.panicMode,
          hq.identRefs, hq.consts, hq.locals, hq.depth, hq.log, hq.tokens, hq.localMax, hq.depthMax, hq.stuck]; done)
      | (intro t ht; cases ht)
  | t :: ts, hb => by
    have ih := advanceLoop_homl ts (fun x hx => hb x (by simp [hx]))
    unfold advanceLoop
    apply HomL.bind
    · apply HomL.modify; intro q₁ q₂ hq
      constructor <;> (try dsimp only) <;> first
        | exact hq.agree | exact hq.bprev
        | rfl
        | (simp only [hq.prev, hq.cur, hq.hadError, hq.hadLexFail, hq.panicMode,
            hq.identRefs, hq.consts, hq.locals, hq.depth, hq.log, hq.tokens, hq.localMax, hq.depthMax, hq.stuck]; done)
        | exact hb t (by simp)
        | (intro x hx; exact hb x (by simp [hx]))
    · homl

theorem advance_homl : HomL B advance advance := by
  unfold advance
  apply HomL.bind
  · apply HomL.modify; intro q₁ q₂ hq
    constructor <;> (try dsimp only) <;> first
      | exact hq.agree | exact hq.bcur | exact hq.brest
      | rfl
      | (simp only [hq.rest, hq.prev, hq.cur, hq.hadError, hq.hadLexFail, hq.panicMode,
          hq.identRefs, hq.consts, hq.locals, hq.depth, hq.log, hq.tokens, hq.localMax, hq.depthMax, hq.stuck]; done)
  · intro _
    apply HomL.get_bind; intro q₁ q₂ hq
    rw [hq.rest]
    exact advanceLoop_homl _ hq.brest
macro_rules | `(tactic| homl_known) => `(tactic| with_reducible exact advance_homl)
theorem check_homl (t : TokType) : HomL B (check t) (check t) := by unfold check; homl
macro_rules | `(tactic| homl_known) => `(tactic| with_reducible exact check_homl _)
theorem checkEnd_homl : HomL B checkEnd checkEnd := by unfold checkEnd; homl
macro_rules | `(tactic| homl_known) => `(tactic| with_reducible exact checkEnd_homl)
theorem consume_homl (t : TokType) (m : Bytes) : HomL B (consume t m) (consume t m) := by unfold consume; homl
macro_rules | `(tactic| homl_known) => `(tactic| with_reducible exact consume_homl _ _)
theorem match_homl (t : TokType) : HomL B («match» t) («match» t) := by unfold «match»; homl
macro_rules | `(tactic| homl_known) => `(tactic| with_reducible exact match_homl _)
theorem matchEnd_homl : HomL B matchEnd matchEnd := by unfold matchEnd; homl
macro_rules | `(tactic| homl_known) => `(tactic| with_reducible exact matchEnd_homl)

end Bclv
