import Bclv.Proofs.ParserScoped5
namespace Bclv

/-- a statement that failed: nothing is claimed about the tree -/
theorem QS_of_pm {p0 p' : PState} (st : Stmt) (hpi : PI p') (he : Ext p0 p') (hinit : AllInit p0) (hpm : p'.panicMode = true) : QS p0 st p' :=
  ⟨hpi, he.toS, by intro l hl; rw [he.locals] at hl; exact hinit l hl,
   fun hne => by have := hpi.pm hpm; rw [hne.1] at this; cases this⟩

theorem QS_of_err {p0 p' : PState} (st : Stmt) (hpi : PI p') (he : Ext p0 p') (hinit : AllInit p0) (herr : p'.hadError = true) : QS p0 st p' :=
  ⟨hpi, he.toS, by intro l hl; rw [he.locals] at hl; exact hinit l hl,
   fun hne => by rw [hne.1] at herr; cases herr⟩

set_option maxHeartbeats 1000000 in
theorem bindSel_presR : PresR bindSel := by unfold bindSel; presr
theorem bindTarget_presR (m : Bytes) : PresR (bindTarget m) := by unfold bindTarget; presr

theorem bindStmt_wp (p : PState) (hpi : PI p) (hinit : AllInit p) : wp bindStmt (QS p) p := by
  unfold bindStmt
  rw [wp_bind]
  apply wp_pres (consume_presR _ _) hpi (Ext.refl p)
  intro _ p1 hpi1 he1 _
  rw [wp_bind, wp_get]
  split
  · rename_i hpm; rw [wp_pure]; exact QS_of_pm _ hpi1 he1 hinit hpm
  · rw [wp_bind, wp_get, wp_bind]
    apply wp_pres bindSel_presR hpi1 he1
    intro sel p2 hpi2 he2 _
    rw [wp_bind]
    apply wp_pres (consume_presR _ _) hpi2 he2
    intro _ p3 hpi3 he3 _
    rw [wp_bind, wp_get]
    split
    · rename_i hpm; rw [wp_pure]; exact QS_of_pm _ hpi3 he3 hinit hpm
    · rw [wp_bind]
      apply wp_pres (consume_presR _ _) hpi3 he3
      intro _ p4 hpi4 he4 _
      rw [wp_bind, wp_get]
      split
      · rename_i hpm; rw [wp_pure]; exact QS_of_pm _ hpi4 he4 hinit hpm
      · rw [wp_bind]
        apply wp_pres (bindTarget_presR _) hpi4 he4
        intro target p5 hpi5 he5 _
        -- the last check, the constant, the statement
        have tail : ∀ p6, PI p6 → Ext p p6 →
            wp (do
              if (← get).panicMode then return Stmt.bad
              let idx ← identConst p1.prev.val
              return Stmt.bind idx (UInt8.ofNat (target % 256 / 16 * 16 + sel % 16)) (← get).prev.pos) (QS p) p6 := by
          intro p6 hpi6 he6
          rw [wp_bind, wp_get]
          split
          · rename_i hpm; rw [wp_pure]; exact QS_of_pm _ hpi6 he6 hinit hpm
          · rw [wp_bind]
            apply wp_spec (identConst_spec _) hpi6 he6
            intro idx p7 hpi7 he7 _ hidx
            rw [wp_bind, wp_get, wp_pure]
            refine ⟨hpi7, he7.toS, by intro l hl; rw [he7.locals] at hl; exact hinit l hl, fun _ => ⟨⟨_, hidx⟩, by rw [he7.locals]⟩⟩
        dsimp only
        split
        · rw [wp_bind]
          apply wp_pres (error_presR _) hpi5 he5
          intro _ p6 hpi6 he6 _
          exact tail p6 hpi6 he6
        · exact tail p5 hpi5 he5

theorem ExtS.trans_ext {a b c : PState} (h1 : ExtS a b) (h2 : Ext b c) : ExtS a c := h1.trans h2.toS

theorem QS_ext {p0 p p' : PState} {st : Stmt} (h : QS p0 st p) (hpi : PI p') (he : Ext p p') : QS p0 st p' := by
  refine ⟨hpi, h.2.1.trans_ext he, ?_, ?_⟩
  · intro l hl; rw [he.locals] at hl; exact h.2.2.1 l hl
  · intro hne
    have := h.2.2.2 (NE.of_ext he hne)
    rw [he.locals]
    exact ScS_mono he.consts _ _ _ _ this

theorem allInit_count {p : PState} (h : AllInit p) : initCount p.locals = p.locals.length := initCount_allInit h

/-- `print e`, `eval e` and bare expressions in blocks -/
theorem exprStmt_wp (f : Nat) (p0 p : PState) (hpi : PI p) (he : Ext p0 p) (hinit : AllInit p0)
    (mk : Expr → Nat → Stmt)
    (hmk : ∀ K L B e pos L', ScE K L B e → L' = L → ScS K B L (mk e pos) L') :
    wp (do let e ← expr f; return mk e (← get).prev.pos) (QS p0) p := by
  rw [wp_bind]
  apply wp_mono (expr_scoped f p p hpi (Ext.refl _))
  intro e p1 hq1
  rw [wp_bind, wp_get, wp_pure]
  have he1 : Ext p0 p1 := he.trans hq1.2.1
  refine ⟨hq1.1, he1.toS, by intro l hl; rw [he1.locals] at hl; exact hinit l hl, fun hne => ?_⟩
  have hsc := hq1.2.2 hne
  rw [he.locals, he.depth, allInit_count hinit] at hsc
  exact hmk _ _ _ _ _ _ hsc (by rw [he1.locals])

theorem stmt_step (f : Nat) (p : PState) (hpi : PI p) (hinit : AllInit p)
    (ihb : ∀ p, PI p → AllInit p → wp (blockStmt f) (QS p) p) :
    wp (stmt (f+1)) (QS p) p := by
  unfold stmt
  rw [wp_bind]
  apply wp_pres (match_presR _) hpi (Ext.refl p)
  intro b1 p1 hpi1 he1 _
  have hinit1 : AllInit p1 := by intro l hl; rw [he1.locals] at hl; exact hinit l hl
  split
  · exact exprStmt_wp f p p1 hpi1 he1 hinit (fun e pos => .print e pos)
      (fun K L B e pos L' h1 h2 => ⟨h1, h2⟩)
  · rw [wp_bind]
    apply wp_pres (match_presR _) hpi1 he1
    intro b2 p2 hpi2 he2 _
    split
    · exact exprStmt_wp f p p2 hpi2 he2 hinit (fun e pos => .eval e pos)
        (fun K L B e pos L' h1 h2 => ⟨h1, h2⟩)
    · rw [wp_bind]
      apply wp_pres (match_presR _) hpi2 he2
      intro b3 p3 hpi3 he3 _
      have hinit3 : AllInit p3 := by intro l hl; rw [he3.locals] at hl; exact hinit l hl
      split
      · -- a block
        apply wp_mono (ihb p3 hpi3 hinit3)
        intro st p4 hq4
        refine ⟨hq4.1, he3.toS.trans hq4.2.1, hq4.2.2.1, fun hne => ?_⟩
        have := hq4.2.2.2 hne
        rw [he3.locals, he3.depth] at this
        exact this
      · rw [wp_bind]
        apply wp_pres (match_presR _) hpi3 he3
        intro b4 p4 hpi4 he4 _
        have hinit4 : AllInit p4 := by intro l hl; rw [he4.locals] at hl; exact hinit l hl
        split
        · -- bind
          apply wp_mono (bindStmt_wp p4 hpi4 hinit4)
          intro st p5 hq5
          refine ⟨hq5.1, he4.toS.trans hq5.2.1, hq5.2.2.1, fun hne => ?_⟩
          have := hq5.2.2.2 hne
          rw [he4.locals, he4.depth] at this
          exact this
        · rw [wp_bind, wp_get]
          split
          · exact exprStmt_wp f p p4 hpi4 he4 hinit (fun e pos => .eval e pos)
              (fun K L B e pos L' h1 h2 => ⟨h1, h2⟩)
          · rw [wp_bind]
            apply wp_spec (errorAtCurrent_spec _) hpi4 he4
            intro _ p5 hpi5 he5 _ herr
            rw [wp_pure]
            exact QS_of_err _ hpi5 he5 hinit herr

theorem decl_step (f : Nat) (p : PState) (hpi : PI p) (hinit : AllInit p)
    (ihs : ∀ p, PI p → AllInit p → wp (stmt f) (QS p) p) :
    wp (decl (f+1)) (QS p) p := by
  unfold decl
  rw [wp_bind]
  apply wp_pres (match_presR _) hpi (Ext.refl p)
  intro b1 p1 hpi1 he1 _
  have hinit1 : AllInit p1 := by intro l hl; rw [he1.locals] at hl; exact hinit l hl
  have fin : ∀ (st : Stmt) (p2 : PState), QS p st p2 →
      wp (do
        let q ← get
        if (q.panicMode && q.depth == 0) = true then sync f
        return st : PM Stmt) (QS p) p2 := by
    intro st p2 hq
    rw [wp_bind, wp_get]
    dsimp only
    split
    · rw [wp_bind]
      apply wp_pres (sync_presR f) hq.1 (Ext.refl p2)
      intro _ p3 hpi3 he3 _
      rw [wp_pure]
      exact QS_ext hq hpi3 he3
    · rw [wp_pure]; exact hq
  dsimp only
  split
  · rw [wp_bind]
    apply wp_mono (varDecl_wp f p1 hpi1 hinit1)
    intro st p2 hq2
    apply fin
    refine ⟨hq2.1, he1.toS.trans hq2.2.1, hq2.2.2.1, fun hne => ?_⟩
    have := hq2.2.2.2 hne
    rw [he1.locals, he1.depth] at this
    exact this
  · rw [wp_bind]
    apply wp_mono (ihs p1 hpi1 hinit1)
    intro st p2 hq2
    apply fin
    refine ⟨hq2.1, he1.toS.trans hq2.2.1, hq2.2.2.1, fun hne => ?_⟩
    have := hq2.2.2.2 hne
    rw [he1.locals, he1.depth] at this
    exact this

end Bclv
