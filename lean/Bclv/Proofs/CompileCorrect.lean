import Bclv.Spec.Sem
import Bclv.Proofs.Varint
import Bclv.Proofs.Compile
import Bclv.Proofs.Verifier
/-!
# The stack machine running compiled code computes the meaning of the tree

Code-at-offset style: `Placed p pre c post` says the program's code and positions
are `pre ++ c ++ post`.  For every expression, statement list and program placed in
this way, running the VM from the start of `c` reaches the end of `c` in the state
the evaluator of `Spec/Sem.lean` gives, or halts with the evaluator's runtime error.
-/
namespace Bclv

/-! ## running a number of steps -/

def runN (p : Prog) : Nat → VM → Step
  | 0, vm => .next vm
  | n+1, vm =>
    match vmStep p false vm with
    | .next vm' => runN p n vm'
    | s => s

theorem runN_add (p : Prog) (a b : Nat) (vm : VM) :
    runN p (a + b) vm = match runN p a vm with
      | .next vm' => runN p b vm'
      | s => s := by
  induction a generalizing vm with
  | zero => simp [runN]
  | succ a ih =>
    rw [Nat.add_right_comm]
    simp only [runN]
    cases h : vmStep p false vm with
    | next vm' => simp only [ih]
    | halt vm' hl => rfl
    | panic vm' => rfl

theorem runN_next_then {p : Prog} {a : Nat} {vm vm1 : VM} (h : runN p a vm = .next vm1) (b : Nat) :
    runN p (a + b) vm = runN p b vm1 := by
  rw [runN_add, h]

theorem runN_halt_then {p : Prog} {a : Nat} {vm vm1 : VM} {hl : Halt} (h : runN p a vm = .halt vm1 hl) (b : Nat) :
    runN p (a + b) vm = .halt vm1 hl := by
  rw [runN_add, h]

theorem vmRun_of_runN_halt {p : Prog} : ∀ (n : Nat) (vm vm1 : VM) (hl : Halt),
    runN p n vm = .halt vm1 hl → ∀ m, n ≤ m → vmRun p false m vm = .done vm1 hl := by
  intro n
  induction n with
  | zero => intro vm vm1 hl h; simp [runN] at h
  | succ n ih =>
    intro vm vm1 hl h m hm
    cases m with
    | zero => omega
    | succ m =>
      simp only [runN] at h
      simp only [vmRun]
      cases hs : vmStep p false vm with
      | next vm' => rw [hs] at h; simp only at h ⊢; exact ih vm' vm1 hl h m (by omega)
      | halt vm' h' => rw [hs] at h; simp only at h ⊢; cases h; rfl
      | panic vm' => rw [hs] at h; cases h

/-! ## code placement -/

structure Placed (p : Prog) (pre c post : PCode) : Prop where
  code : p.code = (pre ++ c ++ post).map Prod.fst
  pos : p.positions = (pre ++ c ++ post).map Prod.snd

theorem Placed.left {p : Prog} {pre a b post : PCode} (h : Placed p pre (a ++ b) post) :
    Placed p pre a (b ++ post) := by
  constructor
  · rw [h.code]; simp [List.append_assoc]
  · rw [h.pos]; simp [List.append_assoc]

theorem Placed.right {p : Prog} {pre a b post : PCode} (h : Placed p pre (a ++ b) post) :
    Placed p (pre ++ a) b post := by
  constructor
  · rw [h.code]; simp [List.append_assoc]
  · rw [h.pos]; simp [List.append_assoc]

theorem atPos_fst (pos : Nat) (bs : Bytes) : (atPos pos bs).map Prod.fst = bs := by
  simp [atPos, Function.comp_def]

theorem atPos_snd (pos : Nat) (bs : Bytes) : (atPos pos bs).map Prod.snd = List.replicate bs.length pos := by
  induction bs with
  | nil => rfl
  | cons b bs ih => simp [atPos, List.replicate_succ] at ih ⊢; exact ih

/-- Byte-level view of a placement. -/
theorem Placed.bytes {p : Prog} {pre c post : PCode} (h : Placed p pre c post) :
    p.code = pre.map Prod.fst ++ (c.map Prod.fst ++ post.map Prod.fst)
    ∧ p.positions = pre.map Prod.snd ++ (c.map Prod.snd ++ post.map Prod.snd) := by
  constructor
  · rw [h.code]; simp [List.append_assoc]
  · rw [h.pos]; simp [List.append_assoc]

theorem get_at {α} (A B : List α) (k : Nat) : (A ++ B)[A.length + k]? = B[k]? := by
  rw [List.getElem?_append_right (by omega)]
  congr 1; omega

/-! ## decoding placed instructions -/

theorem ofByte_toByte (o : Op) : Op.ofByte o.toByte = some o := by cases o <;> rfl

theorem readUv_at {p : Prog} {A B : Bytes} {x : Nat} (hx : x < 2 ^ 64) (hc : p.code = A ++ (uvEnc x ++ B)) :
    readUv p A.length = some (x, A.length + (uvEnc x).length) := by
  unfold readUv
  have : p.code.drop A.length = uvEnc x ++ B := by
    rw [hc]; have := List.drop_length_add_append (l₁ := A) (l₂ := uvEnc x ++ B) 0; simpa using this
  rw [this, uvDec_uvEnc x hx]
  simp only [Option.some.injEq, Prod.mk.injEq, true_and]
  rw [hc]; simp; omega

theorem readU16_at {p : Prog} {A B : Bytes} {b1 b2 : UInt8} (hc : p.code = A ++ (b1 :: b2 :: B)) :
    readU16 p A.length = some (b1.toNat * 256 + b2.toNat, A.length + 2) := by
  unfold readU16
  have : p.code.drop A.length = b1 :: b2 :: B := by
    rw [hc]; have := List.drop_length_add_append (l₁ := A) (l₂ := b1 :: b2 :: B) 0; simpa using this
  rw [this]

theorem code_at {p : Prog} {A B : Bytes} {b : UInt8} (hc : p.code = A ++ (b :: B)) : p.code[A.length]? = some b := by
  rw [hc]; have := get_at A (b :: B) 0; simpa using this

/-- operand kinds -/
def Op.kind : Op → Nat
  | .CONST | .GETLOCAL | .SETLOCAL | .GETFIELD | .SETFIELD | .POPN => 1
  | .DEFBLOCK => 2
  | .JUMP | .JFALSE | .LOOP => 3
  | .BIND => 4
  | _ => 0

theorem decode0 {p : Prog} {A B : Bytes} (o : Op) (hk : o.kind = 0) (hc : p.code = A ++ (o.toByte :: B)) :
    decodeAt p A.length = some { op := o, next := A.length + 1 } := by
  unfold decodeAt
  rw [code_at hc]
  simp only [Option.bind_eq_bind, Option.bind_some, ofByte_toByte]
  cases o <;> simp [Op.kind] at hk <;> rfl

theorem decode1 {p : Prog} {A B : Bytes} (o : Op) (x : Nat) (hk : o.kind = 1) (hx : x < 2 ^ 64)
    (hc : p.code = A ++ (o.toByte :: (uvEnc x ++ B))) :
    decodeAt p A.length = some { op := o, a := x, next := A.length + 1 + (uvEnc x).length } := by
  unfold decodeAt
  rw [code_at hc]
  have hr : readUv p (A.length + 1) = some (x, A.length + 1 + (uvEnc x).length) := by
    have hc' : p.code = (A ++ [o.toByte]) ++ (uvEnc x ++ B) := by rw [hc]; simp
    have := readUv_at hx hc'
    simpa using this
  simp only [Option.bind_eq_bind, Option.bind_some, ofByte_toByte]
  cases o <;> simp [Op.kind] at hk <;> simp [hr]

theorem decode3 {p : Prog} {A B : Bytes} (o : Op) (d : Nat) (hk : o.kind = 3) (hd : d < 65536)
    (hc : p.code = A ++ (o.toByte :: UInt8.ofNat (d / 256) :: UInt8.ofNat (d % 256) :: B)) :
    decodeAt p A.length = some { op := o, a := d, next := A.length + 3 } := by
  unfold decodeAt
  rw [code_at hc]
  have hr : readU16 p (A.length + 1) = some (d, A.length + 3) := by
    have hc' : p.code = (A ++ [o.toByte]) ++ (UInt8.ofNat (d / 256) :: UInt8.ofNat (d % 256) :: B) := by rw [hc]; simp
    have := readU16_at hc'
    simp only [List.length_append, List.length_cons, List.length_nil] at this
    rw [this]
    have h1 : (UInt8.ofNat (d / 256)).toNat = d / 256 := u8_toNat_ofNat _ (by omega)
    have h2 : (UInt8.ofNat (d % 256)).toNat = d % 256 := u8_toNat_ofNat _ (by omega)
    rw [h1, h2]
    simp only [Option.some.injEq, Prod.mk.injEq]
    omega
  simp only [Option.bind_eq_bind, Option.bind_some, ofByte_toByte]
  cases o <;> simp [Op.kind] at hk <;> simp [hr]

theorem decode2 {p : Prog} {A B : Bytes} (x y : Nat) (hx : x < 2 ^ 64) (hy : y < 2 ^ 64)
    (hc : p.code = A ++ (Op.DEFBLOCK.toByte :: (uvEnc x ++ (uvEnc y ++ B)))) :
    decodeAt p A.length = some { op := .DEFBLOCK, a := x, b := y, next := A.length + 1 + (uvEnc x).length + (uvEnc y).length } := by
  unfold decodeAt
  rw [code_at hc]
  have hr : readUv p (A.length + 1) = some (x, A.length + 1 + (uvEnc x).length) := by
    have hc' : p.code = (A ++ [Op.DEFBLOCK.toByte]) ++ (uvEnc x ++ (uvEnc y ++ B)) := by rw [hc]; simp
    have := readUv_at hx hc'
    simpa using this
  have hr2 : readUv p (A.length + 1 + (uvEnc x).length) = some (y, A.length + 1 + (uvEnc x).length + (uvEnc y).length) := by
    have hc' : p.code = (A ++ [Op.DEFBLOCK.toByte] ++ uvEnc x) ++ (uvEnc y ++ B) := by rw [hc]; simp
    have := readUv_at hy hc'
    simpa using this
  simp [ofByte_toByte, hr, hr2]

theorem decode4 {p : Prog} {A B : Bytes} (x : Nat) (opt : UInt8) (hx : x < 2 ^ 64)
    (hc : p.code = A ++ (Op.BIND.toByte :: (uvEnc x ++ (opt :: B)))) :
    decodeAt p A.length = some { op := .BIND, a := x, b := opt.toNat, next := A.length + 1 + (uvEnc x).length + 1 } := by
  unfold decodeAt
  rw [code_at hc]
  have hr : readUv p (A.length + 1) = some (x, A.length + 1 + (uvEnc x).length) := by
    have hc' : p.code = (A ++ [Op.BIND.toByte]) ++ (uvEnc x ++ (opt :: B)) := by rw [hc]; simp
    have := readUv_at hx hc'
    simpa using this
  have hb : p.code[A.length + 1 + (uvEnc x).length]? = some opt := by
    have hc' : p.code = (A ++ [Op.BIND.toByte] ++ uvEnc x) ++ (opt :: B) := by rw [hc]; simp
    have := code_at hc'
    simpa using this
  simp [ofByte_toByte, hr, hb]

theorem vmStep_exec {p : Prog} {vm : VM} {i : Instr} (hd : decodeAt p vm.pc = some i) :
    vmStep p false vm = exec p i vm := by
  obtain ⟨⟨b, hb, ho⟩, _⟩ := decodeAt_facts hd
  unfold vmStep
  simp only [Bool.false_eq_true, if_false, hb, ho, hd]

end Bclv
