import Bclv.Spec.Sem
import Bclv.Proofs.Varint
import Bclv.Proofs.Compile
import Bclv.Proofs.Verifier
/-!
# The stack machine running compiled code computes the meaning of the tree

Code-at-offset style: `Placed p pre c post` says the program's code and positions
are `pre ++ c ++ post`.  For every expression, statement list and program placed in
this way, running the VM from the start of `c` reaches the end of `c` in the state
the evaluator of `Spec/Sem.lean` gives, or halts with the evaluator's runtime error.
-/
namespace Bclv

/-! ## running a number of steps -/

def runN (p : Prog) : Nat → VM → Step
  | 0, vm => .next vm
  | n+1, vm =>
    match vmStep p false vm with
    | .next vm' => runN p n vm'
    | s => s

theorem runN_add (p : Prog) (a b : Nat) (vm : VM) :
    runN p (a + b) vm = match runN p a vm with
      | .next vm' => runN p b vm'
      | s => s := by
  induction a generalizing vm with
  | zero => simp [runN]
  | succ a ih =>
    rw [Nat.add_right_comm]
    simp only [runN]
    cases h : vmStep p false vm with
    | next vm' => simp only [ih]
    | halt vm' hl => rfl
    | panic vm' => rfl

theorem runN_next_then {p : Prog} {a : Nat} {vm vm1 : VM} (h : runN p a vm = .next vm1) (b : Nat) :
    runN p (a + b) vm = runN p b vm1 := by
  rw [runN_add, h]

theorem runN_halt_then {p : Prog} {a : Nat} {vm vm1 : VM} {hl : Halt} (h : runN p a vm = .halt vm1 hl) (b : Nat) :
    runN p (a + b) vm = .halt vm1 hl := by
  rw [runN_add, h]

theorem vmRun_of_runN_halt {p : Prog} : ∀ (n : Nat) (vm vm1 : VM) (hl : Halt),
    runN p n vm = .halt vm1 hl → ∀ m, n ≤ m → vmRun p false m vm = .done vm1 hl := by
  intro n
  induction n with
  | zero => intro vm vm1 hl h; simp [runN] at h
  | succ n ih =>
    intro vm vm1 hl h m hm
    cases m with
    | zero => omega
    | succ m =>
      simp only [runN] at h
      simp only [vmRun]
      cases hs : vmStep p false vm with
      | next vm' => rw [hs] at h; simp only at h ⊢; exact ih vm' vm1 hl h m (by omega)
      | halt vm' h' => rw [hs] at h; simp only at h ⊢; cases h; rfl
      | panic vm' => rw [hs] at h; cases h

/-! ## code placement -/

structure Placed (p : Prog) (pre c post : PCode) : Prop where
  code : p.code = (pre ++ c ++ post).map Prod.fst
  pos : p.positions = (pre ++ c ++ post).map Prod.snd

theorem Placed.left {p : Prog} {pre a b post : PCode} (h : Placed p pre (a ++ b) post) :
    Placed p pre a (b ++ post) := by
  constructor
  · rw [h.code]; simp [List.append_assoc]
  · rw [h.pos]; simp [List.append_assoc]

theorem Placed.right {p : Prog} {pre a b post : PCode} (h : Placed p pre (a ++ b) post) :
    Placed p (pre ++ a) b post := by
  constructor
  · rw [h.code]; simp [List.append_assoc]
  · rw [h.pos]; simp [List.append_assoc]

theorem atPos_fst (pos : Nat) (bs : Bytes) : (atPos pos bs).map Prod.fst = bs := by
  simp [atPos, Function.comp_def]

theorem atPos_snd (pos : Nat) (bs : Bytes) : (atPos pos bs).map Prod.snd = List.replicate bs.length pos := by
  induction bs with
  | nil => rfl
  | cons b bs ih => simp [atPos, List.replicate_succ] at ih ⊢; exact ih

/-- Byte-level view of a placement. -/
theorem Placed.bytes {p : Prog} {pre c post : PCode} (h : Placed p pre c post) :
    p.code = pre.map Prod.fst ++ (c.map Prod.fst ++ post.map Prod.fst)
    ∧ p.positions = pre.map Prod.snd ++ (c.map Prod.snd ++ post.map Prod.snd) := by
  constructor
  · rw [h.code]; simp [List.append_assoc]
  · rw [h.pos]; simp [List.append_assoc]

theorem get_at {α} (A B : List α) (k : Nat) : (A ++ B)[A.length + k]? = B[k]? := by
  rw [List.getElem?_append_right (by omega)]
  congr 1; omega

/-! ## decoding placed instructions -/

theorem ofByte_toByte (o : Op) : Op.ofByte o.toByte = some o := by cases o <;> rfl

theorem readUv_at {p : Prog} {A B : Bytes} {x : Nat} (hx : x < 2 ^ 64) (hc : p.code = A ++ (uvEnc x ++ B)) :
    readUv p A.length = some (x, A.length + (uvEnc x).length) := by
  unfold readUv
  have : p.code.drop A.length = uvEnc x ++ B := by
    rw [hc]; have := List.drop_length_add_append (l₁ := A) (l₂ := uvEnc x ++ B) 0; simpa using this
  rw [this, uvDec_uvEnc x hx]
  simp only [Option.some.injEq, Prod.mk.injEq, true_and]
  rw [hc]; simp; omega

theorem readU16_at {p : Prog} {A B : Bytes} {b1 b2 : UInt8} (hc : p.code = A ++ (b1 :: b2 :: B)) :
    readU16 p A.length = some (b1.toNat * 256 + b2.toNat, A.length + 2) := by
  unfold readU16
  have : p.code.drop A.length = b1 :: b2 :: B := by
    rw [hc]; have := List.drop_length_add_append (l₁ := A) (l₂ := b1 :: b2 :: B) 0; simpa using this
  rw [this]

theorem code_at {p : Prog} {A B : Bytes} {b : UInt8} (hc : p.code = A ++ (b :: B)) : p.code[A.length]? = some b := by
  rw [hc]; have := get_at A (b :: B) 0; simpa using this

/-- operand kinds -/
def Op.kind : Op → Nat
  | .CONST | .GETLOCAL | .SETLOCAL | .GETFIELD | .SETFIELD | .POPN => 1
  | .DEFBLOCK => 2
  | .JUMP | .JFALSE | .LOOP => 3
  | .BIND => 4
  | _ => 0

theorem decode0 {p : Prog} {A B : Bytes} (o : Op) (hk : o.kind = 0) (hc : p.code = A ++ (o.toByte :: B)) :
    decodeAt p A.length = some { op := o, next := A.length + 1 } := by
  unfold decodeAt
  rw [code_at hc]
  simp only [Option.bind_eq_bind, Option.bind_some, ofByte_toByte]
  cases o <;> simp [Op.kind] at hk <;> rfl

theorem decode1 {p : Prog} {A B : Bytes} (o : Op) (x : Nat) (hk : o.kind = 1) (hx : x < 2 ^ 64)
    (hc : p.code = A ++ (o.toByte :: (uvEnc x ++ B))) :
    decodeAt p A.length = some { op := o, a := x, next := A.length + 1 + (uvEnc x).length } := by
  unfold decodeAt
  rw [code_at hc]
  have hr : readUv p (A.length + 1) = some (x, A.length + 1 + (uvEnc x).length) := by
    have hc' : p.code = (A ++ [o.toByte]) ++ (uvEnc x ++ B) := by rw [hc]; simp
    have := readUv_at hx hc'
    simpa using this
  simp only [Option.bind_eq_bind, Option.bind_some, ofByte_toByte]
  cases o <;> simp [Op.kind] at hk <;> simp [hr]

theorem decode3 {p : Prog} {A B : Bytes} (o : Op) (d : Nat) (hk : o.kind = 3) (hd : d < 65536)
    (hc : p.code = A ++ (o.toByte :: UInt8.ofNat (d / 256) :: UInt8.ofNat (d % 256) :: B)) :
    decodeAt p A.length = some { op := o, a := d, next := A.length + 3 } := by
  unfold decodeAt
  rw [code_at hc]
  have hr : readU16 p (A.length + 1) = some (d, A.length + 3) := by
    have hdrop : p.code.drop (A.length + 1) = UInt8.ofNat (d / 256) :: UInt8.ofNat (d % 256) :: B := by
      rw [hc]
      have := List.drop_length_add_append (l₁ := A) (l₂ := o.toByte :: UInt8.ofNat (d / 256) :: UInt8.ofNat (d % 256) :: B) 1
      simpa using this
    unfold readU16
    rw [hdrop]
    have h1 : (UInt8.ofNat (d / 256)).toNat = d / 256 := u8_toNat_ofNat _ (by omega)
    have h2 : (UInt8.ofNat (d % 256)).toNat = d % 256 := u8_toNat_ofNat _ (by omega)
    have hd2 := Nat.div_add_mod d 256
    simp only [h1, h2, Option.some.injEq, Prod.mk.injEq]
    clear h1 h2
    exact ⟨by omega, trivial⟩
  simp only [Option.bind_eq_bind, Option.bind_some, ofByte_toByte]
  cases o <;> simp [Op.kind] at hk <;> simp [hr]

theorem decode2 {p : Prog} {A B : Bytes} (x y : Nat) (hx : x < 2 ^ 64) (hy : y < 2 ^ 64)
    (hc : p.code = A ++ (Op.DEFBLOCK.toByte :: (uvEnc x ++ (uvEnc y ++ B)))) :
    decodeAt p A.length = some { op := .DEFBLOCK, a := x, b := y, next := A.length + 1 + (uvEnc x).length + (uvEnc y).length } := by
  unfold decodeAt
  rw [code_at hc]
  have hr : readUv p (A.length + 1) = some (x, A.length + 1 + (uvEnc x).length) := by
    have hc' : p.code = (A ++ [Op.DEFBLOCK.toByte]) ++ (uvEnc x ++ (uvEnc y ++ B)) := by rw [hc]; simp
    have := readUv_at hx hc'
    simpa using this
  have hr2 : readUv p (A.length + 1 + (uvEnc x).length) = some (y, A.length + 1 + (uvEnc x).length + (uvEnc y).length) := by
    have hc' : p.code = (A ++ [Op.DEFBLOCK.toByte] ++ uvEnc x) ++ (uvEnc y ++ B) := by rw [hc]; simp
    have := readUv_at hy hc'
    simp only [List.length_append, List.length_cons, List.length_nil] at this
    rw [show A.length + 1 + (uvEnc x).length = A.length + (0 + 1) + (uvEnc x).length by omega]
    exact this
  simp [ofByte_toByte, hr, hr2]

theorem decode4 {p : Prog} {A B : Bytes} (x : Nat) (opt : UInt8) (hx : x < 2 ^ 64)
    (hc : p.code = A ++ (Op.BIND.toByte :: (uvEnc x ++ (opt :: B)))) :
    decodeAt p A.length = some { op := .BIND, a := x, b := opt.toNat, next := A.length + 1 + (uvEnc x).length + 1 } := by
  unfold decodeAt
  rw [code_at hc]
  have hr : readUv p (A.length + 1) = some (x, A.length + 1 + (uvEnc x).length) := by
    have hc' : p.code = (A ++ [Op.BIND.toByte]) ++ (uvEnc x ++ (opt :: B)) := by rw [hc]; simp
    have := readUv_at hx hc'
    simpa using this
  have hb : p.code[A.length + 1 + (uvEnc x).length]? = some opt := by
    have hc' : p.code = (A ++ [Op.BIND.toByte] ++ uvEnc x) ++ (opt :: B) := by rw [hc]; simp
    have := code_at hc'
    simp only [List.length_append, List.length_cons, List.length_nil] at this
    rw [show A.length + 1 + (uvEnc x).length = A.length + (0 + 1) + (uvEnc x).length by omega]
    exact this
  simp [ofByte_toByte, hr, hb]

theorem vmStep_exec {p : Prog} {vm : VM} {i : Instr} (hd : decodeAt p vm.pc = some i) :
    vmStep p false vm = exec p i vm := by
  obtain ⟨⟨b, hb, ho⟩, _⟩ := decodeAt_facts hd
  unfold vmStep
  simp only [Bool.false_eq_true, if_false, hb, ho, hd]

end Bclv

namespace Bclv

theorem runN_one (p : Prog) (vm : VM) : runN p 1 vm = vmStep p false vm := by
  simp only [runN]
  cases vmStep p false vm <;> rfl

/-- The VM started at `vm` reaches offset `target` in the state the evaluator gives,
or halts with the evaluator's runtime error. -/
def Sim (p : Prog) (vm : VM) (target : Nat) (r : Res) : Prop :=
  ∃ n, match r with
    | .ok s' => ∃ vm', runN p n vm = .next vm' ∧ vm'.sem = s' ∧ vm'.pc = target
    | .err pos msg => ∃ vm', runN p n vm = .halt vm' (.rt (rtText p pos msg))
    | .wrong => True

theorem Sim.bind {p : Prog} {vm : VM} {t1 t2 : Nat} {r : Res} {f : Sem → Res}
    (h1 : Sim p vm t1 r)
    (h2 : ∀ vm1 s1, r = .ok s1 → vm1.sem = s1 → vm1.pc = t1 → Sim p vm1 t2 (f s1)) :
    Sim p vm t2 (r.bind f) := by
  obtain ⟨n1, h1⟩ := h1
  cases r with
  | ok s1 =>
    obtain ⟨vm1, hr, hs, hpc⟩ := h1
    obtain ⟨n2, h2'⟩ := h2 vm1 s1 rfl hs hpc
    refine ⟨n1 + n2, ?_⟩
    simp only [Res.bind]
    cases hf : f s1 with
    | ok s2 =>
      simp only [hf] at h2'
      obtain ⟨vm2, hr2, hs2, hpc2⟩ := h2'
      exact ⟨vm2, by rw [runN_next_then hr]; exact hr2, hs2, hpc2⟩
    | err pos msg =>
      simp only [hf] at h2'
      obtain ⟨vm2, hr2⟩ := h2'
      exact ⟨vm2, by rw [runN_next_then hr]; exact hr2⟩
    | wrong => trivial
  | err pos msg =>
    obtain ⟨vm1, hr⟩ := h1
    exact ⟨n1, vm1, hr⟩
  | wrong => exact ⟨0, trivial⟩

/-- One instruction. -/
theorem Sim.one {p : Prog} {vm : VM} {target : Nat} {r : Res} {i : Instr}
    (hd : decodeAt p vm.pc = some i)
    (h : match r with
      | .ok s' => ∃ vm', exec p i vm = .next vm' ∧ vm'.sem = s' ∧ vm'.pc = target
      | .err pos msg => ∃ vm', exec p i vm = .halt vm' (.rt (rtText p pos msg))
      | .wrong => True) : Sim p vm target r := by
  refine ⟨1, ?_⟩
  cases r with
  | ok s' => simp only [runN_one, vmStep_exec hd]; exact h
  | err pos msg => simp only [runN_one, vmStep_exec hd]; exact h
  | wrong => trivial

theorem rtError_eq {p : Prog} {vm : VM} {pos : Nat} (msg : Bytes) (h : p.positions[vm.pc - 1]? = some pos) :
    rtError p vm msg = .halt vm (.rt (rtText p pos msg)) := by
  simp [rtError, h, rtText]

/-- Positions of a placed instruction whose bytes all carry `pos`. -/
theorem Placed.pos_at {p : Prog} {pre post : PCode} {pos : Nat} {bs : Bytes} (h : Placed p pre (atPos pos bs) post)
    (k : Nat) (hk : k < bs.length) : p.positions[pre.length + k]? = some pos := by
  have := h.bytes.2
  rw [this, atPos_snd]
  have e : pre.length = (List.map Prod.snd pre).length := by simp
  rw [e, get_at]
  rw [List.getElem?_append_left (by simpa using hk)]
  simp [hk]

theorem Placed.code_eq {p : Prog} {pre post : PCode} {pos : Nat} {bs : Bytes} (h : Placed p pre (atPos pos bs) post) :
    p.code = pre.map Prod.fst ++ (bs ++ post.map Prod.fst) := by
  have := h.bytes.1
  rw [this, atPos_fst]

end Bclv

namespace Bclv

def Expr.WF : Expr → Prop
  | .lit _ _ => True
  | .const idx _ => idx < 2 ^ 64
  | .getLocal slot _ => slot < 2 ^ 64
  | .getField idx _ => idx < 2 ^ 64
  | .setLocal slot e _ => slot < 2 ^ 64 ∧ e.WF
  | .setField idx e _ => idx < 2 ^ 64 ∧ e.WF
  | .un _ e _ => e.WF
  | .bin _ a b _ => a.WF ∧ b.WF
  | .and a b _ => a.WF ∧ b.WF ∧ 1 + sizeE b < 65536
  | .or a b _ => a.WF ∧ b.WF ∧ 1 + sizeE b < 65536
  | .bad => True

theorem sem_stack {vm1 vm2 : VM} (h : vm1.sem = vm2.sem) : vm1.stack = vm2.stack := congrArg Sem.stack h
theorem sem_blocks {vm1 vm2 : VM} (h : vm1.sem = vm2.sem) : vm1.blocks = vm2.blocks := congrArg Sem.blocks h

/-- What `Sim.one` asks of a single instruction. -/
def StepSim (p : Prog) (st : Step) (target : Nat) (r : Res) : Prop :=
  match r with
  | .ok s' => ∃ vm', st = .next vm' ∧ vm'.sem = s' ∧ vm'.pc = target
  | .err pos msg => ∃ vm', st = .halt vm' (.rt (rtText p pos msg))
  | .wrong => True

theorem Sim.one' {p : Prog} {vm : VM} {target : Nat} {r : Res} {i : Instr}
    (hd : decodeAt p vm.pc = some i) (h : StepSim p (exec p i vm) target r) : Sim p vm target r := by
  apply Sim.one hd
  cases r <;> exact h

theorem push_sim {p : Prog} {s : Sem} {v : Value} {pos target : Nat} (vm2 : VM)
    (hs : vm2.sem = s) (hpc : vm2.pc = target) (hp : p.positions[target - 1]? = some pos) :
    StepSim p (push p vm2 v) target (pushV s v pos) := by
  subst hs
  unfold push pushV StepSim
  by_cases hfull : vm2.stack.length = stackSize
  · have : (vm2.sem).stack.length = stackSize := hfull
    simp only [hfull, this, if_true]
    exact ⟨vm2, rtError_eq _ (by rw [hpc]; exact hp)⟩
  · have : ¬ (vm2.sem).stack.length = stackSize := hfull
    simp only [hfull, this, if_false]
    exact ⟨_, rfl, by simp [VM.sem], by simpa using hpc⟩

theorem opAt_eq (o : Op) (pos : Nat) : opAt o pos = atPos pos [o.toByte] := rfl
theorem opArg_eq (o : Op) (x pos : Nat) : opArg o x pos = atPos pos (o.toByte :: uvEnc x) := rfl

theorem Sim.after {p : Prog} {vm vm' : VM} {k t : Nat} {r : Res} (h : runN p k vm = .next vm')
    (hs : Sim p vm' t r) : Sim p vm t r := by
  obtain ⟨n, hn⟩ := hs
  refine ⟨k + n, ?_⟩
  cases r with
  | ok s' => obtain ⟨v2, h2, h3, h4⟩ := hn; exact ⟨v2, by rw [runN_next_then h]; exact h2, h3, h4⟩
  | err pos msg => obtain ⟨v2, h2⟩ := hn; exact ⟨v2, by rw [runN_next_then h]; exact h2⟩
  | wrong => trivial

theorem Sim.done {p : Prog} {vm : VM} {t : Nat} (hpc : vm.pc = t) : Sim p vm t (.ok vm.sem) :=
  ⟨0, vm, rfl, rfl, hpc⟩

theorem jumpAt_eq (o : Op) (d pos : Nat) :
    jumpAt o d pos = atPos pos [o.toByte, UInt8.ofNat (d / 256), UInt8.ofNat (d % 256)] := rfl

/-- exact effect of one placed instruction -/
theorem step_jfalse {p : Prog} {pre post : PCode} {d pos : Nat} {vm : VM} {v : Value} {rest : List Value}
    (hpl : Placed p pre (jumpAt .JFALSE d pos) post) (hd : d < 65536) (hpc : vm.pc = pre.length)
    (hst : vm.stack = v :: rest) :
    ∃ vm', runN p 1 vm = .next vm' ∧ vm'.sem = vm.sem
      ∧ vm'.pc = (if isFalsey v then pre.length + 3 + d else pre.length + 3) := by
  rw [jumpAt_eq] at hpl
  have hc := hpl.code_eq
  have hdec : decodeAt p vm.pc = some { op := .JFALSE, a := d, next := pre.length + 3 } := by
    rw [hpc]
    have := decode3 (A := pre.map Prod.fst) .JFALSE d rfl hd (by simpa using hc)
    simpa using this
  rw [runN_one, vmStep_exec hdec]
  simp only [exec, hst]
  exact ⟨_, rfl, by simp [VM.sem, hst], rfl⟩

theorem step_jump {p : Prog} {pre post : PCode} {d pos : Nat} {vm : VM}
    (hpl : Placed p pre (jumpAt .JUMP d pos) post) (hd : d < 65536) (hpc : vm.pc = pre.length) :
    ∃ vm', runN p 1 vm = .next vm' ∧ vm'.sem = vm.sem ∧ vm'.pc = pre.length + 3 + d := by
  rw [jumpAt_eq] at hpl
  have hc := hpl.code_eq
  have hdec : decodeAt p vm.pc = some { op := .JUMP, a := d, next := pre.length + 3 } := by
    rw [hpc]
    have := decode3 (A := pre.map Prod.fst) .JUMP d rfl hd (by simpa using hc)
    simpa using this
  rw [runN_one, vmStep_exec hdec]
  simp only [exec]
  exact ⟨_, rfl, by simp [VM.sem], rfl⟩

theorem step_pop {p : Prog} {pre post : PCode} {pos : Nat} {vm : VM} {v : Value} {rest : List Value}
    (hpl : Placed p pre (opAt .POP pos) post) (hpc : vm.pc = pre.length) (hst : vm.stack = v :: rest) :
    ∃ vm', runN p 1 vm = .next vm' ∧ vm'.sem = { vm.sem with stack := rest } ∧ vm'.pc = pre.length + 1 := by
  rw [opAt_eq] at hpl
  have hc := hpl.code_eq
  have hdec : decodeAt p vm.pc = some { op := .POP, next := pre.length + 1 } := by
    rw [hpc]
    have := decode0 (A := pre.map Prod.fst) .POP rfl (by simpa using hc)
    simpa using this
  rw [runN_one, vmStep_exec hdec]
  simp only [exec, hst]
  exact ⟨_, rfl, by simp [VM.sem], rfl⟩

theorem sim_unop {p : Prog} {pre post : PCode} {op : UnOp} {pos : Nat} {vm : VM}
    (hpl : Placed p pre (opAt op.op pos) post) (hpc : vm.pc = pre.length) :
    Sim p vm (pre.length + 1) (unopSem op pos vm.sem) := by
  rw [opAt_eq] at hpl
  have hc := hpl.code_eq
  have hp := hpl.pos_at 0 (by simp)
  have hdec : decodeAt p vm.pc = some { op := op.op, next := pre.length + 1 } := by
    rw [hpc]
    have := decode0 (A := pre.map Prod.fst) op.op (by cases op <;> rfl) (by simpa using hc)
    simpa using this
  apply Sim.one' hdec
  have hstk : (vm.sem).stack = vm.stack := rfl
  cases op <;> simp only [UnOp.op, exec, unopSem, hstk]
  · cases hst : vm.stack with
    | nil => trivial
    | cons v rest =>
      cases v <;> simp only [StepSim]
      all_goals first
        | exact ⟨_, rfl, by simp [VM.sem], rfl⟩
        | exact ⟨_, rtError_eq _ (by simpa using hp)⟩
  · cases hst : vm.stack with
    | nil => trivial
    | cons v rest =>
      simp only
      by_cases hnum : v.isNumber = true
      · simp only [hnum, if_true, StepSim]
        exact ⟨_, rfl, by simp [VM.sem, hst], rfl⟩
      · simp only [hnum, if_false, StepSim]
        exact ⟨_, rtError_eq _ (by simpa using hp)⟩
  · cases hst : vm.stack with
    | nil => trivial
    | cons v rest =>
      simp only [StepSim]
      exact ⟨_, rfl, by simp [VM.sem], rfl⟩

theorem step_arith {p : Prog} {pre post : PCode} {o : Op} {ar : ArOp} {pos : Nat} {vm : VM}
    {bv av : Value} {rest : List Value}
    (hpl : Placed p pre (opAt o pos) post) (hk : o.kind = 0) (har : ArOp.ofOp o = some ar)
    (hpc : vm.pc = pre.length) (hst : vm.stack = bv :: av :: rest) :
    match binop ar o.name av bv with
    | .ok v => ∃ vm', runN p 1 vm = .next vm' ∧ vm'.sem = { vm.sem with stack := v :: rest } ∧ vm'.pc = pre.length + 1
    | .err msg => ∃ vm', runN p 1 vm = .halt vm' (.rt (rtText p pos msg)) := by
  rw [opAt_eq] at hpl
  have hc := hpl.code_eq
  have hp := hpl.pos_at 0 (by simp)
  have hdec : decodeAt p vm.pc = some { op := o, next := pre.length + 1 } := by
    rw [hpc]
    have := decode0 (A := pre.map Prod.fst) o hk (by simpa using hc)
    simpa using this
  rw [runN_one, vmStep_exec hdec]
  have hex : exec p { op := o, next := pre.length + 1 } vm =
      match binop ar o.name av bv with
      | .ok v => .next { vm with pc := pre.length + 1, opsRead := vm.opsRead + 1, stack := v :: rest }
      | .err msg => rtError p { vm with pc := pre.length + 1, opsRead := vm.opsRead + 1 } msg := by
    cases o <;> simp [ArOp.ofOp] at har <;> subst har <;> simp only [exec, hst, ArOp.ofOp] <;> rfl
  rw [hex]
  cases binop ar o.name av bv with
  | ok v => exact ⟨_, rfl, by simp [VM.sem], rfl⟩
  | err msg => exact ⟨_, rtError_eq _ (by simpa using hp)⟩

theorem step_not {p : Prog} {pre post : PCode} {pos : Nat} {vm : VM} {v : Value} {rest : List Value}
    (hpl : Placed p pre (opAt .NOT pos) post) (hpc : vm.pc = pre.length) (hst : vm.stack = v :: rest) :
    ∃ vm', runN p 1 vm = .next vm' ∧ vm'.sem = { vm.sem with stack := .bool (isFalsey v) :: rest }
      ∧ vm'.pc = pre.length + 1 := by
  rw [opAt_eq] at hpl
  have hc := hpl.code_eq
  have hdec : decodeAt p vm.pc = some { op := .NOT, next := pre.length + 1 } := by
    rw [hpc]
    have := decode0 (A := pre.map Prod.fst) .NOT rfl (by simpa using hc)
    simpa using this
  rw [runN_one, vmStep_exec hdec]
  simp only [exec, hst]
  exact ⟨_, rfl, by simp [VM.sem], rfl⟩

theorem binop_prim (op : BinOp) :
    ∃ o, op.ops.head? = some o ∧ o.kind = 0 ∧ ArOp.ofOp o = some op.prim.1 ∧ o.name = op.prim.2.2
      ∧ op.ops = (if op.prim.2.1 then [o, .NOT] else [o]) := by
  cases op <;> exact ⟨_, rfl, rfl, rfl, rfl, rfl⟩

theorem sim_bin {p : Prog} {pre post : PCode} {op : BinOp} {pos : Nat} {vm : VM}
    (hpl : Placed p pre (op.ops.map (fun o => (o.toByte, pos))) post) (hpc : vm.pc = pre.length) :
    Sim p vm (pre.length + op.ops.length) (binSem op pos vm.sem) := by
  obtain ⟨o, _, hk, har, hname, hops⟩ := binop_prim op
  have hstk : (vm.sem).stack = vm.stack := rfl
  unfold binSem
  rw [hstk]
  match hst : vm.stack with
  | [] => exact ⟨0, trivial⟩
  | [_] => exact ⟨0, trivial⟩
  | bv :: av :: rest =>
    simp only
    by_cases hneg : op.prim.2.1 = true
    · -- two instructions: the primitive, then NOT
      rw [hops] at hpl ⊢
      simp only [hneg, if_true, List.map_cons, List.map_nil, List.length_cons, List.length_nil] at hpl ⊢
      have hpl1 : Placed p pre (opAt o pos) (opAt .NOT pos ++ post) := by
        have : [(o.toByte, pos), (Op.NOT.toByte, pos)] = opAt o pos ++ opAt .NOT pos := rfl
        rw [this] at hpl; exact hpl.left
      have hpl2 : Placed p (pre ++ opAt o pos) (opAt .NOT pos) post := by
        have : [(o.toByte, pos), (Op.NOT.toByte, pos)] = opAt o pos ++ opAt .NOT pos := rfl
        rw [this] at hpl; exact hpl.right
      have h1 := step_arith hpl1 hk har hpc hst
      rw [hname] at h1
      cases hb : binop op.prim.1 op.prim.2.2 av bv with
      | ok v =>
        simp only [hb] at h1
        obtain ⟨vm1, hr1, hs1, hpc1⟩ := h1
        have hst1 : vm1.stack = v :: rest := by have := congrArg Sem.stack hs1; simpa [VM.sem] using this
        obtain ⟨vm2, hr2, hs2, hpc2⟩ := step_not hpl2 (by simpa [opAt] using hpc1) hst1
        refine ⟨2, vm2, ?_, ?_, ?_⟩
        · rw [show (2 : Nat) = 1 + 1 from rfl, runN_next_then hr1]; exact hr2
        · rw [hs2, hs1]
        · simpa [opAt] using hpc2
      | err msg =>
        simp only [hb] at h1
        obtain ⟨vm1, hr1⟩ := h1
        exact ⟨1, vm1, hr1⟩
    · rw [hops] at hpl ⊢
      simp only [hneg, if_false, List.map_cons, List.map_nil, List.length_cons, List.length_nil] at hpl ⊢
      have hpl1 : Placed p pre (opAt o pos) post := hpl
      have h1 := step_arith hpl1 hk har hpc hst
      rw [hname] at h1
      cases hb : binop op.prim.1 op.prim.2.2 av bv with
      | ok v =>
        simp only [hb] at h1
        obtain ⟨vm1, hr1, hs1, hpc1⟩ := h1
        exact ⟨1, vm1, hr1, by rw [hs1]; simp [hneg], hpc1⟩
      | err msg =>
        simp only [hb] at h1
        obtain ⟨vm1, hr1⟩ := h1
        exact ⟨1, vm1, hr1⟩

theorem compileE_correct (p : Prog) (e : Expr) (hwf : e.WF) :
    ∀ (pre post : PCode) (vm : VM), Placed p pre (compileE e) post → vm.pc = pre.length →
      Sim p vm (pre.length + sizeE e) (evalE p e vm.sem) := by
  induction e with
  | lit l pos =>
    intro pre post vm hpl hpc
    simp only [compileE, opAt_eq] at hpl
    have hc := hpl.code_eq
    have hp := hpl.pos_at 0 (by simp)
    have hd : decodeAt p vm.pc = some { op := l.op, next := pre.length + 1 } := by
      rw [hpc]
      have := decode0 (A := pre.map Prod.fst) l.op (by cases l <;> rfl) (by simpa using hc)
      simpa using this
    apply Sim.one' hd
    have := push_sim (p := p) (s := vm.sem) (v := l.value) (pos := pos) (target := pre.length + 1)
      { vm with pc := pre.length + 1, opsRead := vm.opsRead + 1 } rfl rfl (by simpa using hp)
    cases l <;> simpa [exec, Lit.op, Lit.value, evalE, sizeE] using this
  | const idx pos =>
    intro pre post vm hpl hpc
    simp only [compileE, opArg_eq] at hpl
    have hc := hpl.code_eq
    have hp := hpl.pos_at (uvEnc idx).length (by simp)
    have hd : decodeAt p vm.pc = some { op := .CONST, a := idx, next := pre.length + 1 + (uvEnc idx).length } := by
      rw [hpc]
      have := decode1 (A := pre.map Prod.fst) .CONST idx rfl hwf (by simpa using hc)
      simpa using this
    apply Sim.one' hd
    simp only [exec, evalE, sizeE]
    cases hci : p.consts[idx]? with
    | none => trivial
    | some v =>
      have := push_sim (p := p) (s := vm.sem) (v := v) (pos := pos) (target := pre.length + (1 + (uvEnc idx).length))
        { vm with pc := pre.length + 1 + (uvEnc idx).length, opsRead := vm.opsRead + 1 } rfl (by simp; omega)
        (by rw [← hp]; congr 1; omega)
      simpa [Nat.add_assoc] using this
  | getLocal slot pos =>
    intro pre post vm hpl hpc
    simp only [compileE, opArg_eq] at hpl
    have hc := hpl.code_eq
    have hp := hpl.pos_at (uvEnc slot).length (by simp)
    have hd : decodeAt p vm.pc = some { op := .GETLOCAL, a := slot, next := pre.length + 1 + (uvEnc slot).length } := by
      rw [hpc]
      have := decode1 (A := pre.map Prod.fst) .GETLOCAL slot rfl hwf (by simpa using hc)
      simpa using this
    apply Sim.one' hd
    simp only [exec, evalE, sizeE]
    by_cases hlt : slot < vm.stack.length
    · have hlt' : slot < (vm.sem).stack.length := hlt
      simp only [hlt, hlt', if_true]
      have := push_sim (p := p) (s := vm.sem) (v := vm.stack.getD (vm.stack.length - 1 - slot) .nil) (pos := pos)
        (target := pre.length + (1 + (uvEnc slot).length))
        { vm with pc := pre.length + 1 + (uvEnc slot).length, opsRead := vm.opsRead + 1 } rfl (by simp; omega)
        (by rw [← hp]; congr 1; omega)
      simpa [Nat.add_assoc, VM.sem] using this
    · have hlt' : ¬ slot < (vm.sem).stack.length := hlt
      simp only [hlt', if_false]
      trivial
  | getField idx pos =>
    intro pre post vm hpl hpc
    simp only [compileE, opArg_eq] at hpl
    have hc := hpl.code_eq
    have hp := hpl.pos_at (uvEnc idx).length (by simp)
    have hd : decodeAt p vm.pc = some { op := .GETFIELD, a := idx, next := pre.length + 1 + (uvEnc idx).length } := by
      rw [hpc]
      have := decode1 (A := pre.map Prod.fst) .GETFIELD idx rfl hwf (by simpa using hc)
      simpa using this
    apply Sim.one' hd
    simp only [exec, evalE, sizeE]
    cases hn : constStr p idx with
    | none => trivial
    | some name =>
      simp only
      by_cases hbe : vm.blocks.isEmpty = true
      · have : (vm.sem).blocks.isEmpty = true := hbe
        simp only [this, if_true]; trivial
      · have hbe' : ¬ (vm.sem).blocks.isEmpty = true := hbe
        simp only [hbe, hbe', if_false]
        have hbl : (vm.sem).blocks = vm.blocks := rfl
        rw [hbl]
        cases hg : blockGet name vm.blocks with
        | some v =>
          have := push_sim (p := p) (s := vm.sem) (v := v) (pos := pos)
            (target := pre.length + (1 + (uvEnc idx).length))
            { vm with pc := pre.length + 1 + (uvEnc idx).length, opsRead := vm.opsRead + 1 } rfl (by simp; omega)
            (by rw [← hp]; congr 1; omega)
          simpa [Nat.add_assoc] using this
        | none =>
          simp only [StepSim]
          exact ⟨_, rtError_eq _ (by simp only []; rw [← hp]; congr 1; omega)⟩
  | bad => intro pre post vm _ _; exact ⟨0, trivial⟩
  | un op e pos ih =>
    intro pre post vm hpl hpc
    simp only [compileE] at hpl
    simp only [evalE, sizeE]
    refine Sim.bind (ih hwf pre _ vm hpl.left hpc) ?_
    intro vm1 s1 _ hs1 hpc1
    subst hs1
    have := sim_unop (op := op) hpl.right (by simpa [compileE_length] using hpc1)
    simpa [compileE_length, Nat.add_assoc] using this
  | bin op a b pos iha ihb =>
    intro pre post vm hpl hpc
    simp only [compileE] at hpl
    simp only [evalE, sizeE]
    refine Sim.bind (t1 := pre.length + sizeE a + sizeE b) (Sim.bind (iha hwf.1 pre _ vm hpl.left hpc) ?_) ?_
    · intro vm1 s1 _ hs1 hpc1
      subst hs1
      have := ihb hwf.2 (pre ++ compileE a) _ vm1 hpl.right.left (by simpa [compileE_length] using hpc1)
      simpa [compileE_length] using this
    · intro vm2 s2 _ hs2 hpc2
      subst hs2
      have hpl3 : Placed p (pre ++ compileE a ++ compileE b) (op.ops.map (fun o => (o.toByte, pos))) post := by
        have := hpl.right.right
        simpa [List.append_assoc] using this
      have := sim_bin (op := op) (vm := vm2) hpl3 (by simp [compileE_length]; omega)
      simpa [compileE_length, Nat.add_assoc] using this
  | setLocal slot e pos ih =>
    intro pre post vm hpl hpc
    simp only [compileE, opArg_eq] at hpl
    simp only [evalE, sizeE]
    refine Sim.bind (ih hwf.2 pre _ vm hpl.left hpc) ?_
    intro vm1 s1 _ hs1 hpc1
    subst hs1
    have hpl2 := hpl.right
    have hc := hpl2.code_eq
    have hdec : decodeAt p vm1.pc = some { op := .SETLOCAL, a := slot, next := (pre ++ compileE e).length + 1 + (uvEnc slot).length } := by
      rw [hpc1]
      have := decode1 (A := (pre ++ compileE e).map Prod.fst) .SETLOCAL slot rfl hwf.1 (by simpa using hc)
      simpa [compileE_length] using this
    apply Sim.one' hdec
    have hstk : (vm1.sem).stack = vm1.stack := rfl
    simp only [exec, hstk]
    cases hst : vm1.stack with
    | nil => trivial
    | cons top rest =>
      simp only
      by_cases hlt : slot < (top :: rest).length
      · simp only [hlt, if_true, StepSim]
        exact ⟨_, rfl, by simp [VM.sem, hst], by simp [compileE_length]; omega⟩
      · simp only [hlt, if_false]; trivial
  | setField idx e pos ih =>
    intro pre post vm hpl hpc
    simp only [compileE, opArg_eq] at hpl
    simp only [evalE, sizeE]
    refine Sim.bind (ih hwf.2 pre _ vm hpl.left hpc) ?_
    intro vm1 s1 _ hs1 hpc1
    subst hs1
    have hpl2 := hpl.right
    have hc := hpl2.code_eq
    have hp := hpl2.pos_at (uvEnc idx).length (by simp)
    have hdec : decodeAt p vm1.pc = some { op := .SETFIELD, a := idx, next := (pre ++ compileE e).length + 1 + (uvEnc idx).length } := by
      rw [hpc1]
      have := decode1 (A := (pre ++ compileE e).map Prod.fst) .SETFIELD idx rfl hwf.1 (by simpa using hc)
      simpa [compileE_length] using this
    apply Sim.one' hdec
    have hstk : (vm1.sem).stack = vm1.stack := rfl
    have hblk : (vm1.sem).blocks = vm1.blocks := rfl
    simp only [exec, hstk, hblk]
    cases hn : constStr p idx with
    | none => trivial
    | some name =>
      cases hbl : vm1.blocks with
      | nil => trivial
      | cons top brest =>
        cases hst : vm1.stack with
        | nil => trivial
        | cons v srest =>
          simp only
          cases hg : top.fields.get name with
          | child c =>
            simp only [StepSim]
            exact ⟨_, rtError_eq _ (by simp only []; rw [← hp]; congr 1; omega)⟩
          | none =>
            simp only [StepSim]
            exact ⟨_, rfl, by simp [VM.sem, hst, hbl], by simp [compileE_length]; omega⟩
          | val x =>
            simp only [StepSim]
            exact ⟨_, rfl, by simp [VM.sem, hst, hbl], by simp [compileE_length]; omega⟩
  | and a b pos iha ihb =>
    intro pre post vm hpl hpc
    simp only [compileE] at hpl
    simp only [evalE, sizeE]
    obtain ⟨hwa, hwb, hj⟩ := hwf
    refine Sim.bind (iha hwa pre _ vm hpl.left hpc) ?_
    intro vm1 s1 _ hs1 hpc1
    subst hs1
    have hstk : (vm1.sem).stack = vm1.stack := rfl
    rw [hstk]
    cases hst : vm1.stack with
    | nil => exact ⟨0, trivial⟩
    | cons v rest =>
      simp only
      have hplJ : Placed p (pre ++ compileE a) (jumpAt .JFALSE (1 + sizeE b) pos) (opAt .POP pos ++ compileE b ++ post) := by
        have := hpl.right.left
        simpa [List.append_assoc] using this
      obtain ⟨vm2, hr2, hs2, hpc2⟩ := step_jfalse hplJ hj (by simpa [compileE_length] using hpc1) hst
      by_cases hf : isFalsey v = true
      · simp only [hf, if_true] at hpc2 ⊢
        refine Sim.after hr2 ?_
        rw [← hs2]
        exact Sim.done (by simp [compileE_length] at hpc2; omega)
      · simp only [hf, if_false] at hpc2 ⊢
        have hplP : Placed p (pre ++ compileE a ++ jumpAt .JFALSE (1 + sizeE b) pos) (opAt .POP pos) (compileE b ++ post) := by
          have := hpl.right.right.left
          simpa [List.append_assoc] using this
        have hst2 : vm2.stack = v :: rest := by have := congrArg Sem.stack hs2; simpa [VM.sem, hst] using this
        obtain ⟨vm3, hr3, hs3, hpc3⟩ := step_pop hplP (by simp [compileE_length, jumpAt_length] at hpc2 ⊢; omega) hst2
        have hplB : Placed p (pre ++ compileE a ++ jumpAt .JFALSE (1 + sizeE b) pos ++ opAt .POP pos) (compileE b) post := by
          have := hpl.right.right.right
          simpa [List.append_assoc] using this
        have hB := ihb hwb _ _ vm3 hplB (by simp [compileE_length, jumpAt_length, opAt] at hpc3 ⊢; omega)
        refine Sim.after hr2 (Sim.after hr3 ?_)
        have hsem : vm3.sem = { vm1.sem with stack := rest } := by rw [hs3, hs2]
        rw [hsem] at hB
        have htgt : (pre ++ compileE a ++ jumpAt .JFALSE (1 + sizeE b) pos ++ opAt .POP pos).length + sizeE b
            = pre.length + (sizeE a + (3 + (1 + sizeE b))) := by
          simp [compileE_length, jumpAt_length, opAt]; omega
        rw [htgt] at hB
        exact hB
  | or a b pos iha ihb =>
    intro pre post vm hpl hpc
    simp only [compileE] at hpl
    simp only [evalE, sizeE]
    obtain ⟨hwa, hwb, hj⟩ := hwf
    refine Sim.bind (iha hwa pre _ vm hpl.left hpc) ?_
    intro vm1 s1 _ hs1 hpc1
    subst hs1
    have hstk : (vm1.sem).stack = vm1.stack := rfl
    rw [hstk]
    cases hst : vm1.stack with
    | nil => exact ⟨0, trivial⟩
    | cons v rest =>
      simp only
      have hplJ : Placed p (pre ++ compileE a) (jumpAt .JFALSE 3 pos)
          (jumpAt .JUMP (1 + sizeE b) pos ++ opAt .POP pos ++ compileE b ++ post) := by
        have := hpl.right.left
        simpa [List.append_assoc] using this
      obtain ⟨vm2, hr2, hs2, hpc2⟩ := step_jfalse hplJ (by omega) (by simpa [compileE_length] using hpc1) hst
      have hst2 : vm2.stack = v :: rest := by have := congrArg Sem.stack hs2; simpa [VM.sem, hst] using this
      have hplP : Placed p (pre ++ compileE a ++ jumpAt .JFALSE 3 pos ++ jumpAt .JUMP (1 + sizeE b) pos) (opAt .POP pos) (compileE b ++ post) := by
        have := hpl.right.right.right.left
        simpa [List.append_assoc] using this
      have hplB : Placed p (pre ++ compileE a ++ jumpAt .JFALSE 3 pos ++ jumpAt .JUMP (1 + sizeE b) pos ++ opAt .POP pos) (compileE b) post := by
        have := hpl.right.right.right.right
        simpa [List.append_assoc] using this
      by_cases hf : isFalsey v = true
      · simp only [hf, if_true] at hpc2 ⊢
        obtain ⟨vm3, hr3, hs3, hpc3⟩ := step_pop hplP (by simp [compileE_length, jumpAt_length] at hpc2 ⊢; omega) hst2
        have hB := ihb hwb _ _ vm3 hplB (by simp [compileE_length, jumpAt_length, opAt] at hpc3 ⊢; omega)
        refine Sim.after hr2 (Sim.after hr3 ?_)
        have hsem : vm3.sem = { vm1.sem with stack := rest } := by rw [hs3, hs2]
        rw [hsem] at hB
        have htgt : (pre ++ compileE a ++ jumpAt .JFALSE 3 pos ++ jumpAt .JUMP (1 + sizeE b) pos ++ opAt .POP pos).length + sizeE b
            = pre.length + (sizeE a + (3 + (3 + (1 + sizeE b)))) := by
          simp [compileE_length, jumpAt_length, opAt]; omega
        rw [htgt] at hB
        exact hB
      · simp only [hf, if_false] at hpc2 ⊢
        have hplK : Placed p (pre ++ compileE a ++ jumpAt .JFALSE 3 pos) (jumpAt .JUMP (1 + sizeE b) pos)
            (opAt .POP pos ++ compileE b ++ post) := by
          have := hpl.right.right.left
          simpa [List.append_assoc] using this
        obtain ⟨vm3, hr3, hs3, hpc3⟩ := step_jump (vm := vm2) hplK hj (by simp [compileE_length, jumpAt_length] at hpc2 ⊢; omega)
        refine Sim.after hr2 (Sim.after hr3 ?_)
        have hsem : vm3.sem = vm1.sem := by rw [hs3, hs2]
        rw [← hsem]
        exact Sim.done (by simp [compileE_length, jumpAt_length] at hpc3 ⊢; omega)

end Bclv

namespace Bclv

/-! ## statements -/

mutual
def Stmt.WF : Stmt → Prop
  | .var (some e) _ => e.WF
  | .var none _ => True
  | .print e _ => e.WF
  | .eval e _ => e.WF
  | .block ti ni _ body npop _ => ti < 2 ^ 64 ∧ ni < 2 ^ 64 ∧ npop < 2 ^ 64 ∧ body.WF
  | .bind ti _ _ => ti < 2 ^ 64
  | .bad => True
def Stmts.WF : Stmts → Prop
  | .nil => True
  | .cons s rest => s.WF ∧ rest.WF
end

theorem popNCode_length (n pos : Nat) :
    (popNCode n pos).length = if n = 0 then 0 else if n = 1 then 1 else 1 + (uvEnc n).length := by
  unfold popNCode
  split
  · simp [*]
  · split
    · simp [*, opAt]
    · simp [*, opArg_length]

theorem sim_popN {p : Prog} {pre post : PCode} {n pos : Nat} {vm : VM} (hn : n < 2 ^ 64)
    (hpl : Placed p pre (popNCode n pos) post) (hpc : vm.pc = pre.length) :
    Sim p vm (pre.length + (popNCode n pos).length) (popSem n vm.sem) := by
  have hstk : (vm.sem).stack = vm.stack := rfl
  unfold popSem
  rw [hstk]
  by_cases h0 : n = 0
  · subst h0
    simp only [popNCode, if_true, List.length_nil, Nat.add_zero, Nat.zero_le, List.drop_zero]
    exact Sim.done hpc
  · by_cases h1 : n = 1
    · subst h1
      simp only [popNCode] at hpl ⊢
      simp only [Nat.succ_ne_zero, if_false, if_true] at hpl ⊢
      cases hst : vm.stack with
      | nil => simp; exact ⟨0, trivial⟩
      | cons v rest =>
        obtain ⟨vm1, hr, hs, hpc1⟩ := step_pop hpl hpc hst
        have : 1 ≤ (v :: rest).length := by simp
        simp only [this, if_true, List.drop_succ_cons, List.drop_zero]
        exact ⟨1, vm1, hr, hs, by simpa [opAt] using hpc1⟩
    · simp only [popNCode, h0, h1, if_false, opArg_eq] at hpl ⊢
      have hc := hpl.code_eq
      have hdec : decodeAt p vm.pc = some { op := .POPN, a := n, next := pre.length + 1 + (uvEnc n).length } := by
        rw [hpc]
        have := decode1 (A := pre.map Prod.fst) .POPN n rfl hn (by simpa using hc)
        simpa using this
      apply Sim.one' hdec
      simp only [exec]
      by_cases hle : n ≤ vm.stack.length
      · simp only [hle, if_true, StepSim]
        exact ⟨_, rfl, by simp [VM.sem], by simp [atPos_length]; omega⟩
      · simp only [hle, if_false]; trivial

theorem sim_endblock {p : Prog} {pre post : PCode} {pos : Nat} {vm : VM}
    (hpl : Placed p pre (opAt .ENDBLOCK pos) post) (hpc : vm.pc = pre.length) :
    Sim p vm (pre.length + 1) (endBlockSem pos vm.sem) := by
  rw [opAt_eq] at hpl
  have hc := hpl.code_eq
  have hp := hpl.pos_at 0 (by simp)
  have hdec : decodeAt p vm.pc = some { op := .ENDBLOCK, next := pre.length + 1 } := by
    rw [hpc]
    have := decode0 (A := pre.map Prod.fst) .ENDBLOCK rfl (by simpa using hc)
    simpa using this
  apply Sim.one' hdec
  have hblk : (vm.sem).blocks = vm.blocks := rfl
  simp only [exec, endBlockSem, hblk]
  match hbl : vm.blocks with
  | [] => trivial
  | [b] => exact ⟨_, rfl, by simp [VM.sem], rfl⟩
  | child :: parent :: rest =>
    simp only
    cases hg : parent.fields.get child.key with
    | none => exact ⟨_, rfl, by simp [VM.sem], rfl⟩
    | val x => exact ⟨_, rtError_eq _ (by simpa using hp)⟩
    | child c => exact ⟨_, rtError_eq _ (by simpa using hp)⟩

theorem sim_print {p : Prog} {pre post : PCode} {pos : Nat} {vm : VM}
    (hpl : Placed p pre (opAt .PRINT pos) post) (hpc : vm.pc = pre.length) :
    Sim p vm (pre.length + 1) (printSem vm.sem) := by
  rw [opAt_eq] at hpl
  have hc := hpl.code_eq
  have hdec : decodeAt p vm.pc = some { op := .PRINT, next := pre.length + 1 } := by
    rw [hpc]
    have := decode0 (A := pre.map Prod.fst) .PRINT rfl (by simpa using hc)
    simpa using this
  apply Sim.one' hdec
  have hstk : (vm.sem).stack = vm.stack := rfl
  simp only [exec, printSem, hstk]
  cases hst : vm.stack with
  | nil => trivial
  | cons v rest => exact ⟨_, rfl, by simp [VM.sem], rfl⟩

end Bclv

namespace Bclv

theorem sim_defblock {p : Prog} {pre post : PCode} {ti ni pos : Nat} {vm : VM}
    (hti : ti < 2 ^ 64) (hni : ni < 2 ^ 64)
    (hpl : Placed p pre (atPos pos (Op.DEFBLOCK.toByte :: (uvEnc ti ++ uvEnc ni))) post) (hpc : vm.pc = pre.length) :
    Sim p vm (pre.length + (1 + (uvEnc ti).length + (uvEnc ni).length))
      (if (vm.sem).blocks.length = blockStackSize then .err pos (str "blocks nested too deep")
       else match constStr p ti, constStr p ni with
        | some t, some n => .ok { vm.sem with blocks := .mk t n .nil :: (vm.sem).blocks }
        | _, _ => .wrong) := by
  have hc := hpl.code_eq
  have hp := hpl.pos_at 0 (by simp)
  have hdec : decodeAt p vm.pc = some { op := .DEFBLOCK, a := ti, b := ni, next := pre.length + 1 + (uvEnc ti).length + (uvEnc ni).length } := by
    rw [hpc]
    have := decode2 (A := pre.map Prod.fst) ti ni hti hni (by simpa using hc)
    simpa using this
  apply Sim.one' hdec
  have hblk : (vm.sem).blocks = vm.blocks := rfl
  simp only [exec, hblk]
  by_cases hfull : vm.blocks.length = blockStackSize
  · simp only [hfull, if_true, StepSim]
    exact ⟨_, rtError_eq _ (by simp only []; rw [hpc]; simpa using hp)⟩
  · simp only [hfull, if_false]
    cases constStr p ti with
    | none => trivial
    | some t =>
      cases constStr p ni with
      | none => trivial
      | some n => exact ⟨_, rfl, by simp [VM.sem], by simp; omega⟩

theorem sim_bind {p : Prog} {pre post : PCode} {ti pos : Nat} {opt : UInt8} {vm : VM} (hti : ti < 2 ^ 64)
    (hpl : Placed p pre (atPos pos (Op.BIND.toByte :: (uvEnc ti ++ [opt]))) post) (hpc : vm.pc = pre.length) :
    Sim p vm (pre.length + (1 + (uvEnc ti).length + 1)) (bindSem p ti opt.toNat pos vm.sem) := by
  have hc := hpl.code_eq
  have hp0 := hpl.pos_at 0 (by simp)
  have hpL := hpl.pos_at ((uvEnc ti).length + 1) (by simp)
  have hdec : decodeAt p vm.pc = some { op := .BIND, a := ti, b := opt.toNat, next := pre.length + 1 + (uvEnc ti).length + 1 } := by
    rw [hpc]
    have := decode4 (A := pre.map Prod.fst) ti opt hti (by simpa using hc)
    simpa using this
  apply Sim.one' hdec
  have hp0' : p.positions[vm.pc + 1 - 1]? = some pos := by rw [hpc]; simpa using hp0
  have hpL' : p.positions[pre.length + 1 + (uvEnc ti).length + 1 - 1]? = some pos := by
    rw [← hpL]; congr 1; omega
  have main : ∀ (vm' : VM) (s : Sem), vm'.sem = s → vm'.pc = pre.length + 1 + (uvEnc ti).length + 1 →
      StepSim p (bindStep p ti opt.toNat vm') (pre.length + (1 + (uvEnc ti).length + 1))
        (bindCore p ti opt.toNat pos s) := by
    intro vm' s hs hpc'
    subst hs
    have hres : (vm'.sem).result = vm'.result := rfl
    have hrt : ∀ msg, rtError p vm' msg = .halt vm' (.rt (rtText p pos msg)) :=
      fun msg => rtError_eq msg (by rw [hpc']; exact hpL')
    unfold bindCore bindStep
    cases constStr p ti with
    | none => trivial
    | some bt =>
      simp only [hres, hrt]
      repeat' split
      all_goals first
        | exact ⟨_, rfl⟩
        | exact ⟨_, rfl, by simp [VM.sem], by simp [hpc']; omega⟩
  cases hb : vm.binding with
  | none =>
    have hb' : (vm.sem).binding = none := hb
    simp only [exec, bindSem, bindWarn, hp0', hb, hb']
    exact main _ _ (by simp [VM.sem, hb]) rfl
  | some bnd =>
    have hb' : (vm.sem).binding = some bnd := hb
    simp only [exec, bindSem, bindWarn, hp0', hb, hb']
    exact main _ _ (by simp [VM.sem, hb]) rfl

end Bclv

namespace Bclv

mutual
theorem compileS_correct (p : Prog) (st : Stmt) (hwf : st.WF) :
    ∀ (pre post : PCode) (vm : VM), Placed p pre (compileS st) post → vm.pc = pre.length →
      Sim p vm (pre.length + (compileS st).length) (evalS p st vm.sem) := by
  intro pre post vm hpl hpc
  cases st with
  | bad => exact ⟨0, trivial⟩
  | var init pos =>
    cases init with
    | some e =>
      simp only [compileS] at hpl ⊢
      simp only [evalS, compileE_length]
      exact compileE_correct p e hwf pre post vm hpl hpc
    | none =>
      have h := compileE_correct p (.lit .nil pos) trivial pre post vm (by simpa [compileS, compileE, Lit.op] using hpl) hpc
      simpa [compileS, evalS, evalE, Lit.value, sizeE, opAt] using h
  | print e pos =>
    simp only [compileS] at hpl ⊢
    simp only [evalS, List.length_append, compileE_length]
    refine Sim.bind (compileE_correct p e hwf pre _ vm hpl.left hpc) ?_
    intro vm1 s1 _ hs1 hpc1
    subst hs1
    have := sim_print hpl.right (vm := vm1) (by simpa [compileE_length] using hpc1)
    simpa [compileE_length, opAt, Nat.add_assoc] using this
  | eval e pos =>
    simp only [compileS] at hpl ⊢
    simp only [evalS, List.length_append, compileE_length]
    refine Sim.bind (compileE_correct p e hwf pre _ vm hpl.left hpc) ?_
    intro vm1 s1 _ hs1 hpc1
    subst hs1
    have hpl2 : Placed p (pre ++ compileE e) (popNCode 1 pos) post := by
      have := hpl.right; simpa [popNCode] using this
    have := sim_popN (n := 1) (by decide) hpl2 (vm := vm1) (by simpa [compileE_length] using hpc1)
    simpa [compileE_length, opAt, popNCode, Nat.add_assoc] using this
  | bind ti opt pos =>
    simp only [compileS] at hpl ⊢
    have := sim_bind (opt := opt) hwf hpl hpc
    simpa [evalS, atPos_length, Nat.add_assoc, Nat.add_comm] using this
  | block ti ni openPos body npop closePos =>
    obtain ⟨hti, hni, hnp, hbody⟩ := hwf
    simp only [compileS] at hpl ⊢
    simp only [evalS]
    have hD := sim_defblock hti hni hpl.left.left.left hpc
    have hblk : (vm.sem).blocks = vm.blocks := rfl
    by_cases hfull : (vm.sem).blocks.length = blockStackSize
    · simp only [hfull, if_true] at hD ⊢
      obtain ⟨n, vm', hr⟩ := hD
      exact ⟨n, vm', hr⟩
    · simp only [hfull, if_false] at hD ⊢
      cases hct : constStr p ti with
      | none => exact ⟨0, trivial⟩
      | some t =>
        cases hcn : constStr p ni with
        | none => exact ⟨0, trivial⟩
        | some nm =>
          simp only [hct, hcn] at hD ⊢
          obtain ⟨n0, vm0, hr0, hs0, hpc0⟩ := hD
          refine Sim.after hr0 ?_
          rw [← hs0]
          let D := atPos openPos (Op.DEFBLOCK.toByte :: (uvEnc ti ++ uvEnc ni))
          have hlenD : D.length = 1 + (uvEnc ti).length + (uvEnc ni).length := by
            simp [D, atPos_length]; omega
          have hplB : Placed p (pre ++ D) (compileSs body) (popNCode npop closePos ++ opAt .ENDBLOCK closePos ++ post) := by
            have := hpl.left.left.right
            simpa [D, List.append_assoc] using this
          refine Sim.bind (t1 := (pre ++ D ++ compileSs body ++ popNCode npop closePos).length)
            (Sim.bind (t1 := (pre ++ D ++ compileSs body).length) ?_ ?_) ?_
          · have := compileSs_correct p body hbody (pre ++ D) _ vm0 hplB (by simp [hlenD]; omega)
            simpa [List.length_append, Nat.add_assoc] using this
          · intro vm1 s1 _ hs1 hpc1
            subst hs1
            have hplP : Placed p (pre ++ D ++ compileSs body) (popNCode npop closePos) (opAt .ENDBLOCK closePos ++ post) := by
              have := hpl.left.right
              simpa [D, List.append_assoc] using this
            have := sim_popN hnp hplP (vm := vm1) hpc1
            simpa [List.length_append, Nat.add_assoc] using this
          · intro vm2 s2 _ hs2 hpc2
            subst hs2
            have hplE : Placed p (pre ++ D ++ compileSs body ++ popNCode npop closePos) (opAt .ENDBLOCK closePos) post := by
              have := hpl.right
              simpa [D, List.append_assoc] using this
            have := sim_endblock hplE (vm := vm2) hpc2
            simpa [D, List.length_append, atPos_length, opAt, Nat.add_assoc] using this

theorem compileSs_correct (p : Prog) (ss : Stmts) (hwf : ss.WF) :
    ∀ (pre post : PCode) (vm : VM), Placed p pre (compileSs ss) post → vm.pc = pre.length →
      Sim p vm (pre.length + (compileSs ss).length) (evalSs p ss vm.sem) := by
  intro pre post vm hpl hpc
  cases ss with
  | nil => simpa [compileSs, evalSs] using Sim.done (p := p) hpc
  | cons st rest =>
    simp only [compileSs] at hpl ⊢
    simp only [evalSs, List.length_append]
    refine Sim.bind (compileS_correct p st hwf.1 pre _ vm hpl.left hpc) ?_
    intro vm1 s1 _ hs1 hpc1
    subst hs1
    have := compileSs_correct p rest hwf.2 (pre ++ compileS st) post vm1 hpl.right (by simpa using hpc1)
    simpa [List.length_append, Nat.add_assoc] using this
end

end Bclv

namespace Bclv

/-- A compiled program run from the initial state: the VM halts with the outcome the
evaluator gives.  On success the final state is the evaluator's and the halt reason
is `ok` exactly when the operand stack is empty. -/
theorem compileP_correct (p : Prog) (t : Program) (hwf : t.body.WF) (hnp : t.npop < 2 ^ 64)
    (hcode : p.code = (compileP t).map Prod.fst) (hpos : p.positions = (compileP t).map Prod.snd) :
    ∃ n, match evalP p t with
      | .ok s => ∃ vm', vm'.sem = s ∧
          runN p n {} = .halt vm' (if s.stack.isEmpty then .ok
            else .internal (str "internal error: non-empty stack on prog end; tos=" ++ natDec s.stack.length))
      | .err pos msg => ∃ vm', runN p n {} = .halt vm' (.rt (rtText p pos msg))
      | .wrong => True := by
  have hpl : Placed p [] (compileSs t.body ++ popNCode t.npop t.endPos ++ opAt .RET t.endPos) [] := by
    constructor
    · simpa [compileP] using hcode
    · simpa [compileP] using hpos
  have hinit : ({} : VM).sem = ({} : Sem) := rfl
  have h1 : Sim p {} ((compileSs t.body).length + (popNCode t.npop t.endPos).length) (evalP p t) := by
    unfold evalP
    rw [← hinit]
    refine Sim.bind (t1 := (compileSs t.body).length) ?_ ?_
    · have := compileSs_correct p t.body hwf [] _ {} hpl.left.left rfl
      simpa using this
    · intro vm1 s1 _ hs1 hpc1
      subst hs1
      have := sim_popN hnp hpl.left.right (vm := vm1) (by simpa using hpc1)
      simpa using this
  obtain ⟨n, h1⟩ := h1
  cases hr : evalP p t with
  | wrong => exact ⟨0, trivial⟩
  | err pos msg =>
    simp only [hr] at h1
    exact ⟨n, h1⟩
  | ok s =>
    simp only [hr] at h1
    obtain ⟨vm1, hrun, hs, hpc⟩ := h1
    have hplR := hpl.right
    rw [opAt_eq] at hplR
    have hc := hplR.code_eq
    have hdec : decodeAt p vm1.pc = some { op := .RET, next := vm1.pc + 1 } := by
      rw [hpc]
      have := decode0 (A := ([] ++ (compileSs t.body ++ popNCode t.npop t.endPos)).map Prod.fst) .RET rfl (by simpa using hc)
      simpa using this
    refine ⟨n + 1, ?_⟩
    rw [runN_next_then hrun, runN_one, vmStep_exec hdec]
    subst hs
    have hstk : (vm1.sem).stack = vm1.stack := rfl
    simp only [exec, hstk]
    by_cases he : vm1.stack.isEmpty = true
    · simp only [he, if_true]
      exact ⟨_, by simp [VM.sem], rfl⟩
    · simp only [he, if_false]
      exact ⟨_, by simp [VM.sem], rfl⟩

end Bclv
