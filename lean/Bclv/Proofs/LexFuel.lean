import Bclv.Proofs.LexTerm
/-!
# The lexer's inner loop budget is irrelevant once it exceeds the unread input

Every loop of a state function (`acceptRun`, `lexLineComment`'s loop, the identifier loop,
the string loop) consumes at least one byte per iteration that continues, so two budgets
above the number of unread bytes give the same result.  Together with `lexRun_more` (the
outer budget): the lexer model's result does not depend on its budgets once they are large
enough — the budgets are a device for writing the loops as total functions, not part of
the behaviour.
-/
namespace Bclv

section
variable {σ : Type} {P : LexPrims σ} {μ : σ → Nat} (hP : PrimMeas P μ)
include hP

theorem acceptRun_fuel (pred : Rune → Bool) (hpe : pred eofR = false) : ∀ (f f' : Nat) (acc : Bool) (s : σ),
    μ s < f → μ s < f' → acceptRun P pred f acc s = acceptRun P pred f' acc s
  | 0, _, _, _, h, _ => by omega
  | _+1, 0, _, _, _, h => by omega
  | f+1, f'+1, acc, s, h1, h2 => by
    unfold acceptRun
    have hlt := hP.next_lt s
    rcases h : P.next s with ⟨r, s'⟩
    rw [h] at hlt
    dsimp only at hlt ⊢
    split
    · rename_i hp
      have hne : r ≠ eofR := by intro he; rw [he, hpe] at hp; cases hp
      have := hlt hne
      exact acceptRun_fuel pred hpe f f' true s' (by omega) (by omega)
    · rfl

theorem commentLoop_fuel : ∀ (f f' : Nat) (s : σ), μ s < f → μ s < f' → commentLoop P f s = commentLoop P f' s
  | 0, _, _, h, _ => by omega
  | _+1, 0, _, _, h => by omega
  | f+1, f'+1, s, h1, h2 => by
    unfold commentLoop
    have hlt := hP.next_lt s
    rcases h : P.next s with ⟨r, s'⟩
    rw [h] at hlt
    dsimp only at hlt ⊢
    split
    · rfl
    · rename_i hc
      have hne : r ≠ eofR := by intro he; apply hc; rw [he]; decide
      have := hlt hne
      exact commentLoop_fuel f f' s' (by omega) (by omega)

theorem identLoop_fuel : ∀ (f f' : Nat) (s : σ), μ s < f → μ s < f' → identLoop P f s = identLoop P f' s
  | 0, _, _, h, _ => by omega
  | _+1, 0, _, _, h => by omega
  | f+1, f'+1, s, h1, h2 => by
    unfold identLoop
    have hlt := hP.next_lt s
    rcases h : P.next s with ⟨r, s'⟩
    rw [h] at hlt
    dsimp only at hlt ⊢
    split
    · rename_i hp
      have hne : r ≠ eofR := by intro he; rw [he] at hp; revert hp; decide
      have := hlt hne
      exact identLoop_fuel f f' s' (by omega) (by omega)
    · rfl

theorem quoteLoop_fuel : ∀ (f f' : Nat) (s : σ), μ s < f → μ s < f' → quoteLoop P f s = quoteLoop P f' s
  | 0, _, _, h, _ => by omega
  | _+1, 0, _, _, h => by omega
  | f+1, f'+1, s, h1, h2 => by
    unfold quoteLoop
    have hlt := hP.next_lt s
    have hle := hP.next_le s
    rcases h : P.next s with ⟨r, s1⟩
    rw [h] at hlt hle
    have hlt2 : (P.next s1).1 ≠ eofR → μ (P.next s1).2 < μ s1 := hP.next_lt s1
    dsimp only at hlt hle ⊢
    repeat' split
    · rename_i h92 hc
      have hne2 : (P.next s1).1 ≠ eofR := by
        intro he; rw [he] at hc; revert hc; decide
      have h3 := hlt2 hne2
      exact quoteLoop_fuel f f' _ (Nat.lt_of_lt_of_le h3 (Nat.le_trans hle (Nat.le_of_lt_succ h1)))
        (Nat.lt_of_lt_of_le h3 (Nat.le_trans hle (Nat.le_of_lt_succ h2)))
    · rfl
    · rfl
    · rfl
    · rename_i h92 he hq
      have hne : r ≠ eofR := by intro hh; apply he; rw [hh]; decide
      have := hlt hne
      exact quoteLoop_fuel f f' s1 (by omega) (by omega)

theorem stepFuel_space (f f' : Nat) (l : LexSt σ) (h1 : μ l.s < f) (h2 : μ l.s < f') :
    lexStep P f .space l = lexStep P f' .space l := by
  simp only [lexStep]
  rw [acceptRun_fuel hP isSpaceR (by decide) f f' false l.s h1 h2]

theorem stepFuel_comment (f f' : Nat) (l : LexSt σ) (h1 : μ l.s < f) (h2 : μ l.s < f') :
    lexStep P f .comment l = lexStep P f' .comment l := by
  simp only [lexStep]
  rw [commentLoop_fuel hP f f' l.s h1 h2]

theorem stepFuel_ident (f f' : Nat) (l : LexSt σ) (h1 : μ l.s < f) (h2 : μ l.s < f') :
    lexStep P f .ident l = lexStep P f' .ident l := by
  simp only [lexStep]
  rw [identLoop_fuel hP f f' l.s h1 h2]

theorem stepFuel_quote (f f' : Nat) (l : LexSt σ) (h1 : μ l.s < f) (h2 : μ l.s < f') :
    lexStep P f .quote l = lexStep P f' .quote l := by
  simp only [lexStep]
  rw [quoteLoop_fuel hP f f' l.s h1 h2]

theorem stepFuel_hex (f f' : Nat) (l : LexSt σ) (h1 : μ l.s < f) (h2 : μ l.s < f') :
    lexStep P f .hex l = lexStep P f' .hex l := by
  simp only [lexStep]
  rw [acceptRun_fuel hP isHexDigitR (by decide) f f' false l.s h1 h2]

theorem stepFuel_float (f f' : Nat) (l : LexSt σ) (h1 : μ l.s < f) (h2 : μ l.s < f') :
    lexStep P f .float l = lexStep P f' .float l := by
  simp only [lexStep]
  have k1 : ∀ s, μ s ≤ μ l.s → acceptRun P isDigitR f false s = acceptRun P isDigitR f' false s :=
    fun s hs => acceptRun_fuel hP isDigitR (by decide) f f' false s (by omega) (by omega)
  have hA := accept_le hP (fun x => x == 46) l.s
  rw [k1 _ hA]
  have hB : μ (if (accept P (fun x => x == 46) l.s).1 = true then
      acceptRun P isDigitR f' false (accept P (fun x => x == 46) l.s).2 else (true, (accept P (fun x => x == 46) l.s).2)).2 ≤ μ l.s := by
    split
    · exact Nat.le_trans (acceptRun_le hP _ _ _ _) hA
    · exact hA
  have hC := Nat.le_trans (accept_le hP (fun r => r == 101 || r == 69) _) hB
  have hD := Nat.le_trans (accept_le hP (fun r => r == 43 || r == 45) _) hC
  rw [k1 _ hD]

theorem stepFuel_number (f f' : Nat) (l : LexSt σ) (h1 : μ (P.backup l.s) < f) (h2 : μ (P.backup l.s) < f') :
    lexStep P f .number l = lexStep P f' .number l := by
  simp only [lexStep]
  have k1 : ∀ s, μ s ≤ μ (P.backup l.s) → acceptRun P isDigitR f false s = acceptRun P isDigitR f' false s :=
    fun s hs => acceptRun_fuel hP isDigitR (by decide) f f' false s (by omega) (by omega)
  have hA := accept_le hP (fun x => x == 48) (P.backup l.s)
  have hB : μ (if (accept P (fun x => x == 48) (P.backup l.s)).1 = true then
      accept P (fun r => r == 120 || r == 88) (accept P (fun x => x == 48) (P.backup l.s)).2
      else (false, (accept P (fun x => x == 48) (P.backup l.s)).2)).2 ≤ μ (P.backup l.s) := by
    split
    · exact Nat.le_trans (accept_le hP _ _) hA
    · exact hA
  rw [k1 _ hB]

theorem step_mu (f : Nat) (st : LState) (l : LexSt σ) (hJ : NumInv P st l) :
    μ (lexStep P (f+1) st l).2.s ≤ μ l.s ∨ (lexStep P (f+1) st l).1 = .done := by
  cases st with
  | done => left; simp [lexStep]
  | start =>
    rcases step_start hP (f+1) l with h | ⟨h, _⟩
    · exact .inr h
    · exact .inl (Nat.le_of_lt h)
  | space => exact .inl (step_space hP (f+1) l).2
  | comment => exact .inl (step_comment hP (f+1) l).2
  | ident => exact .inl (step_ident hP (f+1) l).2
  | hex => exact .inl (step_hex hP (f+1) l).2
  | quote => exact .inl (step_quote hP (f+1) l).2
  | float => exact .inl (step_float hP (f+1) l).2
  | number =>
    obtain ⟨s0, hl, hd⟩ := hJ rfl
    exact .inl (step_number hP f l s0 hl hd).2

/-- what is known at a state-function boundary, relative to a budget `F` -/
def FInv (P : LexPrims σ) (μ : σ → Nat) (F : Nat) (st : LState) (l : LexSt σ) : Prop :=
  μ l.s < F ∧ (st = .number → ∃ s0, l.s = (P.next s0).2 ∧ isDigitR (P.next s0).1 = true ∧ μ s0 < F)

omit hP in
theorem FInv.num {F : Nat} {st : LState} {l : LexSt σ} (h : FInv P μ F st l) : NumInv P st l :=
  fun hn => by obtain ⟨s0, a, b, _⟩ := h.2 hn; exact ⟨s0, a, b⟩

theorem stepFuel (f f' : Nat) (st : LState) (l : LexSt σ) (h1 : FInv P μ (f+1) st l) (h2 : FInv P μ (f'+1) st l) :
    lexStep P (f+1) st l = lexStep P (f'+1) st l := by
  cases st with
  | done => simp [lexStep]
  | start => simp only [lexStep]
  | space => exact stepFuel_space hP _ _ l h1.1 h2.1
  | comment => exact stepFuel_comment hP _ _ l h1.1 h2.1
  | ident => exact stepFuel_ident hP _ _ l h1.1 h2.1
  | hex => exact stepFuel_hex hP _ _ l h1.1 h2.1
  | quote => exact stepFuel_quote hP _ _ l h1.1 h2.1
  | float => exact stepFuel_float hP _ _ l h1.1 h2.1
  | number =>
    obtain ⟨s0, hl, _, hb⟩ := h1.2 rfl
    obtain ⟨s0', hl', _, hb'⟩ := h2.2 rfl
    -- both ghosts bound the same backed-up cursor
    have k : μ (P.backup l.s) < f + 1 ∧ μ (P.backup l.s) < f' + 1 := by
      constructor
      · have := hP.backup_next s0; rw [← hl] at this; omega
      · have := hP.backup_next s0'; rw [← hl'] at this; omega
    exact stepFuel_number hP _ _ l k.1 k.2

theorem FInv.step {F f : Nat} {st : LState} {l : LexSt σ} (h : FInv P μ F st l) (hst : st ≠ .done)
    (hnd : (lexStep P (f+1) st l).1 ≠ .done) :
    FInv P μ F (lexStep P (f+1) st l).1 (lexStep P (f+1) st l).2 := by
  have hmu := step_mu hP f st l h.num
  rcases hmu with hmu | hd
  · refine ⟨by have := h.1; omega, ?_⟩
    intro hn
    -- `lexNumber` is only entered from the start state
    cases st with
    | start =>
      rcases step_start hP (f+1) l with hd | ⟨_, hnum⟩
      · exact absurd hd hnd
      · obtain ⟨a, b⟩ := hnum hn
        exact ⟨l.s, a, b, h.1⟩
    | done => exact absurd rfl hst
    | space => rw [(step_space hP (f+1) l).1] at hn; cases hn
    | comment => rw [(step_comment hP (f+1) l).1] at hn; cases hn
    | ident => rcases (step_ident hP (f+1) l).1 with h' | h' <;> rw [h'] at hn <;> cases hn
    | hex => rcases (step_hex hP (f+1) l).1 with h' | h' <;> rw [h'] at hn <;> cases hn
    | quote => rcases (step_quote hP (f+1) l).1 with h' | h' <;> rw [h'] at hn <;> cases hn
    | float => rcases (step_float hP (f+1) l).1 with h' | h' <;> rw [h'] at hn <;> cases hn
    | number =>
      obtain ⟨s0, hl, hd, _⟩ := h.2 rfl
      rcases (step_number hP f l s0 hl hd).1 with h' | h' | h' | h' <;> rw [h'] at hn <;> cases hn
  · exact absurd hd hnd

/-- **The inner budget is irrelevant**: two budgets above the number of unread bytes give the
same run. -/
theorem lexRun_fuel (f f' : Nat) : ∀ (n : Nat) (st : LState) (l : LexSt σ), st ≠ .done →
    FInv P μ (f+1) st l → FInv P μ (f'+1) st l → lexRun P (f+1) n st l = lexRun P (f'+1) n st l
  | 0, _, _, _, _, _ => rfl
  | n+1, st, l, hst, h1, h2 => by
    unfold lexRun
    have he := stepFuel hP f f' st l h1 h2
    have i1 := FInv.step hP (f := f) h1 hst
    have i2 := FInv.step hP (f := f') h2 hst
    rw [← he] at i2 ⊢
    rcases hs : lexStep P (f+1) st l with ⟨st1, l1⟩
    rw [hs] at i1 i2
    dsimp only at i1 i2 ⊢
    cases st1 with
    | done => rfl
    | start => exact lexRun_fuel f f' n _ l1 (by simp) (i1 (by simp)) (i2 (by simp))
    | space => exact lexRun_fuel f f' n _ l1 (by simp) (i1 (by simp)) (i2 (by simp))
    | comment => exact lexRun_fuel f f' n _ l1 (by simp) (i1 (by simp)) (i2 (by simp))
    | ident => exact lexRun_fuel f f' n _ l1 (by simp) (i1 (by simp)) (i2 (by simp))
    | number => exact lexRun_fuel f f' n _ l1 (by simp) (i1 (by simp)) (i2 (by simp))
    | hex => exact lexRun_fuel f f' n _ l1 (by simp) (i1 (by simp)) (i2 (by simp))
    | float => exact lexRun_fuel f f' n _ l1 (by simp) (i1 (by simp)) (i2 (by simp))
    | quote => exact lexRun_fuel f f' n _ l1 (by simp) (i1 (by simp)) (i2 (by simp))

end
end Bclv
