import Bclv.Proofs.LexSlice2
import Bclv.Proofs.LexChunk
import Bclv.Proofs.LexTermWhole
/-!
# A token's text is the piece of the source that ends at the token's position (C08)

Through the simulation of the whole-input lexer with itself plus a ghost log of every
(offset, pending text) pair at which a token was cut off: the cursor invariant `SI` (what has
been consumed, the pending text and the unread rest make up the input) shows every logged pair
to be a slice of the input, and the invariant-free walk of `LexSlice2` shows every token to
carry a logged pair.
-/
namespace Bclv

/-- `v` is the piece of `input` that ends at offset `q` -/
def SliceAt (input : Bytes) (q : Nat) (v : Bytes) : Prop :=
  q ≤ input.length ∧ v.length ≤ q ∧ (input.take q).drop (q - v.length) = v

/-- consumed text, pending token text and unread rest make up the input -/
def SI (input : Bytes) (h : Whole) : Prop :=
  ∃ pre, pre ++ h.cur.reverse ++ h.rest = input ∧ h.pos = pre.length + h.cur.length

theorem SI.slice {input : Bytes} {h : Whole} (hs : SI input h) : SliceAt input h.pos h.cur.reverse := by
  obtain ⟨pre, hin, hpos⟩ := hs
  subst hin
  refine ⟨by simp; omega, by simp; omega, ?_⟩
  have : (pre ++ h.cur.reverse ++ h.rest).take h.pos = pre ++ h.cur.reverse := by
    rw [List.take_append_of_le_length (by simp; omega)]
    rw [List.take_of_length_le (by simp; omega)]
  rw [this]
  simp only [List.length_reverse]
  rw [hpos, Nat.add_sub_cancel, List.drop_left]

def SR (input : Bytes) (a : Whole) (b : Whole × CutLog) : Prop :=
  b.1 = a ∧ SI input a ∧ ∀ x ∈ b.2, SliceAt input x.1 x.2
def SRp (input : Bytes) (a : Whole) (b : Whole × CutLog) : Prop := SR input a b ∧ a.width ≤ a.cur.length
def SRm (input : Bytes) (a : Whole) (b : Whole × CutLog) : Prop := SR input a b ∧ a.width ≤ a.rest.length

theorem si_fwd (input : Bytes) (a : Whole) (w : Nat) (hw : w ≤ a.rest.length) (hs : SI input a) :
    SI input { pos := a.pos + w, cur := (moveFwd w a.cur a.rest).1, rest := (moveFwd w a.cur a.rest).2, width := w } := by
  obtain ⟨pre, hin, hpos⟩ := hs
  refine ⟨pre, ?_, ?_⟩
  · simp only [moveFwd_eq]
    rw [← hin]
    simp [List.append_assoc]
  · simp only [moveFwd_eq, List.length_append, List.length_reverse, List.length_take]
    rw [Nat.min_eq_left hw]; omega

theorem si_back (input : Bytes) (a : Whole) (hw : a.width ≤ a.cur.length) (hs : SI input a) :
    SI input { a with pos := a.pos - a.width, cur := (moveFwd a.width a.rest a.cur).2, rest := (moveFwd a.width a.rest a.cur).1 } := by
  obtain ⟨pre, hin, hpos⟩ := hs
  refine ⟨pre, ?_, ?_⟩
  · simp only [moveFwd_eq]
    rw [← hin]
    have : a.cur.reverse = (a.cur.drop a.width).reverse ++ (a.cur.take a.width).reverse := by
      rw [← List.reverse_append, List.take_append_drop]
    rw [this]
    simp [List.append_assoc]
  · simp only [moveFwd_eq, List.length_drop]; omega

theorem sliceSim (input : Bytes) : PrimSim Whole.prims (ghostL Whole.prims) (SR input) (SRp input) (SRm input) where
  rp_r := fun _ _ h => h.1
  rm_r := fun _ _ h => h.1
  next := fun a b h => by
    obtain ⟨hb, hs, hl⟩ := h
    obtain ⟨b1, b2⟩ := b
    simp only at hb; subst hb
    refine ⟨rfl, ?_⟩
    show SRp input (Whole.prims.next b1).2 ((Whole.prims.next b1).2, b2)
    have hw := decodeRune_width_le b1.rest
    simp only [Whole.prims]
    rcases hd : decodeRune b1.rest with ⟨r, w⟩
    rw [hd] at hw
    dsimp only at hw ⊢
    split
    · refine ⟨⟨rfl, ?_, hl⟩, Nat.zero_le _⟩
      obtain ⟨pre, hin, hpos⟩ := hs
      exact ⟨pre, hin, hpos⟩
    · refine ⟨⟨rfl, si_fwd input b1 w hw hs, hl⟩, ?_⟩
      simp only [moveFwd_eq, List.length_append, List.length_reverse, List.length_take]
      rw [Nat.min_eq_left hw]; omega
  backup := fun a b h => by
    obtain ⟨⟨hb, hs, hl⟩, hw⟩ := h
    obtain ⟨b1, b2⟩ := b
    simp only at hb; subst hb
    refine ⟨⟨rfl, ?_, hl⟩, ?_⟩
    · exact si_back input b1 hw hs
    · show b1.width ≤ (moveFwd b1.width b1.rest b1.cur).1.length
      simp only [moveFwd_eq, List.length_append, List.length_reverse, List.length_take]
      rw [Nat.min_eq_left hw]; omega
  unbackup := fun a b h => by
    obtain ⟨⟨hb, hs, hl⟩, hw⟩ := h
    obtain ⟨b1, b2⟩ := b
    simp only at hb; subst hb
    refine ⟨⟨rfl, ?_, hl⟩, ?_⟩
    · have := si_fwd input b1 b1.width hw hs
      obtain ⟨pre, hin, hpos⟩ := this
      exact ⟨pre, hin, hpos⟩
    · show b1.width ≤ (moveFwd b1.width b1.cur b1.rest).1.length
      simp only [moveFwd_eq, List.length_append, List.length_reverse, List.length_take]
      rw [Nat.min_eq_left hw]; omega
  ignore := fun a b h => by
    obtain ⟨hb, hs, hl⟩ := h
    obtain ⟨b1, b2⟩ := b
    simp only at hb; subst hb
    refine ⟨rfl, ?_, ?_⟩
    · obtain ⟨pre, hin, hpos⟩ := hs
      exact ⟨pre ++ b1.cur.reverse, by simpa [Whole.prims] using hin, by simp [Whole.prims]; omega⟩
    · intro x hx
      rcases List.mem_cons.mp hx with rfl | hx
      · exact hs.slice
      · exact hl x hx
  ignore_m := fun a b h => by
    obtain ⟨⟨hb, hs, hl⟩, hw⟩ := h
    obtain ⟨b1, b2⟩ := b
    simp only at hb; subst hb
    refine ⟨⟨rfl, ?_, ?_⟩, hw⟩
    · obtain ⟨pre, hin, hpos⟩ := hs
      exact ⟨pre ++ b1.cur.reverse, by simpa [Whole.prims] using hin, by simp [Whole.prims]; omega⟩
    · intro x hx
      rcases List.mem_cons.mp hx with rfl | hx
      · exact hs.slice
      · exact hl x hx
  current := fun a b h => by rw [← h.1]; rfl
  endPos := fun a b h => by rw [← h.1]; rfl

/-- **Every token that has a text carries exactly the piece of the source that ends at its
recorded position.** -/
theorem token_text_is_slice (input : Bytes) : ∀ t ∈ lexWhole input, t.val = [] ∨ SliceAt input t.pos t.val := by
  have hrel := lexRun_sim (sliceSim input) (input.length + 2) (3 * input.length + 4) .start
    { s := { pos := 0, cur := [], rest := input, width := 0 }, toks := [] }
    { s := ({ pos := 0, cur := [], rest := input, width := 0 }, []), toks := [] }
    ⟨⟨rfl, ⟨[], by simp, by simp⟩, by intro x hx; cases hx⟩, rfl⟩
  have htl := lexRun_tl Whole.prims (fun _ => rfl) (input.length + 2) (3 * input.length + 4) .start
    { s := ({ pos := 0, cur := [], rest := input, width := 0 }, []), toks := [] }
    (by intro t ht; cases ht)
  intro t ht
  unfold lexWhole at ht
  simp only [List.mem_reverse] at ht
  rw [hrel.2] at ht
  rcases htl t ht with h | h
  · exact .inl h
  · exact .inr (hrel.1.2.2 _ h)

end Bclv
