import Bclv.Proofs.Verifier
namespace Bclv

theorem readUv_gt {p : Prog} {pc x nx : Nat} (h : readUv p pc = some (x, nx)) : pc < nx ∧ nx ≤ p.code.length := by
  unfold readUv at h
  split at h
  · rename_i x' rest hd
    simp at h
    have := uvDec_shorter hd
    simp only [List.length_drop] at this
    omega
  · simp at h

theorem readU16_gt {p : Prog} {pc x nx : Nat} (h : readU16 p pc = some (x, nx)) : pc < nx := by
  unfold readU16 at h
  split at h
  · simp at h; omega
  · simp at h

/-- Every instruction is at least one byte long. -/
theorem decodeAt_next_gt {p : Prog} {pc : Nat} {i : Instr} (h : decodeAt p pc = some i) : pc < i.next := by
  unfold decodeAt at h
  cases hb : p.code[pc]? with
  | none => simp [hb] at h
  | some b =>
    cases ho : Op.ofByte b with
    | none => simp [hb, ho] at h
    | some o =>
      simp only [hb, ho, Option.bind_eq_bind, Option.bind_some] at h
      cases o <;> simp only at h
      all_goals first
        | (simp only [Option.pure_def, Option.some.injEq] at h; subst h; simp)
        | (cases hr : readUv p (pc + 1) with
           | none => simp [hr] at h
           | some r =>
             obtain ⟨x, nx⟩ := r
             have hgt := (readUv_gt hr).1
             simp only [hr, Option.bind_some, Option.pure_def] at h
             first
               | (simp only [Option.some.injEq] at h; subst h; simp only; omega)
               | (cases hr2 : readUv p nx with
                  | none => simp [hr2] at h
                  | some r2 =>
                    obtain ⟨y, n2⟩ := r2
                    have hgt2 := (readUv_gt hr2).1
                    simp only [hr2, Option.bind_some, Option.some.injEq] at h
                    subst h; simp only; omega)
               | (cases hc : p.code[nx]? with
                  | none => simp [hc] at h
                  | some c =>
                    simp only [hc, Option.bind_some, Option.some.injEq] at h
                    subst h; simp only; omega))
        | (cases hr : readU16 p (pc + 1) with
           | none => simp [hr] at h
           | some r =>
             obtain ⟨x, nx⟩ := r
             have hgt := readU16_gt hr
             simp only [hr, Option.bind_some, Option.pure_def, Option.some.injEq] at h
             subst h; simp only; omega)

theorem push_next_pc {p : Prog} {vm vm' : VM} {v : Value} (h : push p vm v = .next vm') : vm'.pc = vm.pc := by
  unfold push at h
  split at h
  · unfold rtError at h; split at h <;> simp at h
  · simp at h; subst h; rfl

theorem rtError_not_next {p : Prog} {vm vm' : VM} {msg : Bytes} : rtError p vm msg ≠ .next vm' := by
  unfold rtError; split <;> simp

theorem bindStep_next_pc {p : Prog} {idx opt : Nat} {vm vm' : VM} (h : bindStep p idx opt vm = .next vm') : vm'.pc = vm.pc := by
  unfold bindStep at h
  cases hc : constStr p idx with
  | none => simp [hc] at h
  | some bt =>
    simp only [hc] at h
    repeat' split at h
    all_goals first
      | (exact absurd h rtError_not_next)
      | (simp only [Step.next.injEq] at h; subst h; rfl)

/-- Where control goes: to the next instruction, or (jumps) a distance further on. -/
theorem exec_pc {p : Prog} {i : Instr} {vm vm' : VM} (h : exec p i vm = .next vm') (hl : i.op ≠ .LOOP) :
    vm'.pc = i.next ∨ vm'.pc = i.next + i.a := by
  unfold exec at h
  cases hop : i.op <;> simp only [hop] at h hl
  case LOOP => exact absurd rfl hl
  case BIND =>
    left
    cases hb : vm.binding with
    | none => simp only [hb] at h; exact bindStep_next_pc h
    | some bnd =>
      simp only [hb] at h
      simp only [Nat.add_sub_cancel] at h
      cases hp : p.positions[vm.pc]? with
      | none => simp [hp] at h
      | some pos => simp only [hp] at h; exact bindStep_next_pc h
  all_goals (repeat' split at h)
  all_goals first
    | (exact absurd h rtError_not_next)
    | (left; exact push_next_pc h)
    | (simp only [Step.next.injEq] at h; subst h; first | (left; rfl) | (right; rfl) | (simp only; split <;> simp))
    | (simp at h; done)

theorem flow_not_loop {p : Prog} {i : Instr} {s : St} {succs : List (Nat × St)} (h : flow p i s = some succs) : i.op ≠ .LOOP := by
  intro hl
  simp [flow, hl] at h

/-- In a checked program every step moves strictly forward and stays inside the code. -/
theorem step_forward {p : Prog} {m : DepthMap} (hc : checkMap p m = true) (vm vm' : VM) (hinv : Inv m vm)
    (hs : vmStep p false vm = .next vm') : vm.pc < vm'.pc ∧ vm.pc < p.code.length := by
  obtain ⟨i, succs, hd, hn, hf, _⟩ := checkMap_at hc hinv
  obtain ⟨⟨b, hb, ho⟩, _⟩ := decodeAt_facts hd
  have hlt : vm.pc < p.code.length := (List.getElem?_eq_some_iff.mp hb).1
  unfold vmStep at hs
  simp only [Bool.false_eq_true, if_false, hb, ho, hd] at hs
  have hgt := decodeAt_next_gt hd
  rcases exec_pc hs (flow_not_loop hf) with h | h
  · exact ⟨by omega, hlt⟩
  · exact ⟨by omega, hlt⟩

/-- **Bounded time**: a checked program halts (with its result or a runtime error) within
as many steps as it has code bytes — there are no backward jumps. -/
theorem run_terminates {p : Prog} {m : DepthMap} (hc : checkMap p m = true) :
    ∀ (k : Nat) (vm : VM), Inv m vm → p.code.length ≤ vm.pc + k →
      ∀ vm', vmRun p false (k + 1) vm ≠ .timeout vm'
  | 0, vm, hinv, hk, vm' => by
    obtain ⟨i, succs, hd, _, _, _⟩ := checkMap_at hc hinv
    obtain ⟨⟨b, hb, _⟩, _⟩ := decodeAt_facts hd
    have hlt : vm.pc < p.code.length := (List.getElem?_eq_some_iff.mp hb).1
    omega
  | k+1, vm, hinv, hk, vm' => by
    have hsafe := step_safe hc vm hinv
    unfold vmRun
    cases hst : vmStep p false vm with
    | next vm1 =>
      simp only
      have hf := step_forward hc vm vm1 hinv hst
      rw [hst] at hsafe
      exact run_terminates hc k vm1 hsafe (by omega) vm'
    | halt vm1 h => simp
    | panic vm1 => simp

/-- From the initial machine: at most `code.length + 1` steps. -/
theorem execute_terminates {p : Prog} {m : DepthMap} (hc : checkMap p m = true) (vm' : VM) :
    execute p false (p.code.length + 1) ≠ .timeout vm' :=
  run_terminates hc p.code.length {} (checkMap_init hc) (by simp) vm'

end Bclv
