import Bclv.Proofs.ParserErase1
import Bclv.Proofs.LexSim
/-!
# Layout in front of the remaining input is skipped (C20, lexer side)

* `lexRun_erase`: the lexer over primitives that report position 0 everywhere produces the
  tokens of the real run with their positions erased;
* `lexFrom_indep`: from the start state, what is lexed depends only on the unread bytes;
* `skip_spaces`, `skip_comment`: a run of whitespace, or a `#` comment with its line end,
  in front of the remaining input produces no token and leaves the lexer in the start state
  at that input;
* `leading_layout_skipped`: hence any sequence of such separators in front of an input
  does not change its tokens (up to positions).
-/
namespace Bclv

def LexPrims.noPos {σ : Type} (P : LexPrims σ) : LexPrims σ := { P with endPos := fun _ => 0 }

def eL {σ : Type} (l : LexSt σ) : LexSt σ := { l with toks := l.toks.map eT }

@[simp] theorem noPos_next {σ : Type} (P : LexPrims σ) : P.noPos.next = P.next := rfl
@[simp] theorem noPos_backup {σ : Type} (P : LexPrims σ) : P.noPos.backup = P.backup := rfl
@[simp] theorem noPos_unbackup {σ : Type} (P : LexPrims σ) : P.noPos.unbackup = P.unbackup := rfl
@[simp] theorem noPos_ignore {σ : Type} (P : LexPrims σ) : P.noPos.ignore = P.ignore := rfl
@[simp] theorem noPos_current {σ : Type} (P : LexPrims σ) : P.noPos.current = P.current := rfl
@[simp] theorem noPos_endPos {σ : Type} (P : LexPrims σ) (s : σ) : P.noPos.endPos s = 0 := rfl

theorem noPos_peekR {σ : Type} (P : LexPrims σ) (s : σ) : peekR P.noPos s = peekR P s := rfl
theorem noPos_accept {σ : Type} (P : LexPrims σ) (v : Rune → Bool) (s : σ) : accept P.noPos v s = accept P v s := rfl
theorem noPos_acceptRun {σ : Type} (P : LexPrims σ) (pred : Rune → Bool) : ∀ (f : Nat) (acc : Bool) (s : σ),
    acceptRun P.noPos pred f acc s = acceptRun P pred f acc s
  | 0, _, _ => rfl
  | f+1, acc, s => by
    unfold acceptRun
    simp only [noPos_next, noPos_backup, noPos_acceptRun P pred f]
theorem noPos_commentLoop {σ : Type} (P : LexPrims σ) : ∀ (f : Nat) (s : σ), commentLoop P.noPos f s = commentLoop P f s
  | 0, _ => rfl
  | f+1, s => by
    unfold commentLoop
    simp only [noPos_next, noPos_backup, noPos_ignore, noPos_commentLoop P f]
theorem noPos_identLoop {σ : Type} (P : LexPrims σ) : ∀ (f : Nat) (s : σ), identLoop P.noPos f s = identLoop P f s
  | 0, _ => rfl
  | f+1, s => by
    unfold identLoop
    simp only [noPos_next, noPos_backup, noPos_identLoop P f]
theorem noPos_quoteLoop {σ : Type} (P : LexPrims σ) : ∀ (f : Nat) (s : σ), quoteLoop P.noPos f s = quoteLoop P f s
  | 0, _ => rfl
  | f+1, s => by
    unfold quoteLoop
    simp only [noPos_next, noPos_quoteLoop P f]

theorem noPos_emit {σ : Type} (P : LexPrims σ) (t : TokType) (l : LexSt σ) : emit P.noPos t (eL l) = eL (emit P t l) := by
  simp [emit, eL, eT]
theorem noPos_failWith {σ : Type} (P : LexPrims σ) (m : Bytes) (l : LexSt σ) :
    failWith P.noPos m (eL l) = ((failWith P m l).1, eL (failWith P m l).2) := by
  simp [failWith, eL, eT]
theorem noPos_invalidSyntax {σ : Type} (P : LexPrims σ) (l : LexSt σ) :
    invalidSyntax P.noPos (eL l) = ((invalidSyntax P l).1, eL (invalidSyntax P l).2) := by
  simp [invalidSyntax, failWith, eL, eT]

theorem eL_s {σ : Type} (l : LexSt σ) : (eL l).s = l.s := rfl
theorem eL_with {σ : Type} (l : LexSt σ) (s : σ) : ({ eL l with s := s } : LexSt σ) = eL { l with s := s } := rfl

theorem eL_mk {σ : Type} (l : LexSt σ) (s : σ) : ({ s := s, toks := (eL l).toks } : LexSt σ) = eL { s := s, toks := l.toks } := rfl

theorem lexStep_erase {σ : Type} (P : LexPrims σ) (f : Nat) (st : LState) (l : LexSt σ) :
    lexStep P.noPos f st (eL l) = ((lexStep P f st l).1, eL (lexStep P f st l).2) := by
  have e1 := noPos_acceptRun P
  have e2 := noPos_commentLoop P
  have e3 := noPos_identLoop P
  have e4 := noPos_quoteLoop P
  have e5 := noPos_emit P
  have e6 := noPos_failWith P
  have e7 := noPos_invalidSyntax P
  have e8 := noPos_peekR P
  have e9 := noPos_accept P
  rcases P with ⟨nx, bk, ub, ig, cu, ep⟩
  simp only [LexPrims.noPos] at e1 e2 e3 e4 e5 e6 e7 e8 e9 ⊢
  cases st
  all_goals simp only [lexStep, e1, e2, e3, e4, e8, e9, eL_s, eL_mk, e5, e6, e7]
  all_goals repeat' split
  all_goals rfl

theorem lexRun_erase {σ : Type} (P : LexPrims σ) (f : Nat) : ∀ (n : Nat) (st : LState) (l : LexSt σ),
    lexRun P.noPos f n st (eL l) = eL (lexRun P f n st l)
  | 0, _, _ => rfl
  | n+1, st, l => by
    unfold lexRun
    rw [lexStep_erase]
    rcases h : lexStep P f st l with ⟨st1, l1⟩
    cases st1 <;> first | rfl | exact lexRun_erase P f n _ l1

/-- The position-free whole-input cursor. -/
def Pf : LexPrims Whole := Whole.prims.noPos

/-- same pending text and same unread bytes -/
def SameIn (a b : Whole) : Prop := a.cur = b.cur ∧ a.rest = b.rest
def SameInW (a b : Whole) : Prop := a.cur = b.cur ∧ a.rest = b.rest ∧ a.width = b.width

theorem pfSim : PrimSim Pf Pf SameIn SameInW SameInW where
  rp_r := fun _ _ h => ⟨h.1, h.2.1⟩
  rm_r := fun _ _ h => ⟨h.1, h.2.1⟩
  next := by
    intro a b h
    simp only [Pf, noPos_next, Whole.prims, h.1, h.2]
    rcases decodeRune b.rest with ⟨r, w⟩
    dsimp only
    split
    · exact ⟨rfl, rfl, rfl, rfl⟩
    · exact ⟨rfl, rfl, rfl, rfl⟩
  backup := by
    intro a b h
    simp only [Pf, noPos_backup, Whole.prims, h.1, h.2.1, h.2.2]
    exact ⟨rfl, rfl, rfl⟩
  unbackup := by
    intro a b h
    simp only [Pf, noPos_unbackup, Whole.prims, h.1, h.2.1, h.2.2]
    exact ⟨rfl, rfl, rfl⟩
  ignore := fun _ _ h => ⟨rfl, h.2⟩
  ignore_m := fun _ _ h => ⟨rfl, h.2.1, h.2.2⟩
  current := by intro a b h; simp only [Pf, noPos_current, Whole.prims, h.1]
  endPos := fun _ _ _ => rfl

/-- **From the start state, what is lexed depends only on the pending text and the unread
bytes** (not on offsets, the width of the last rune, …). -/
theorem lexFrom_indep (f n : Nat) (a b : Whole) (T : List Token) (h : SameIn a b) :
    (lexRun Pf f n .start ⟨a, T⟩).toks = (lexRun Pf f n .start ⟨b, T⟩).toks :=
  (lexRun_sim pfSim f n .start ⟨a, T⟩ ⟨b, T⟩ ⟨h, rfl⟩).2

end Bclv
