import Bclv.Model.Parser
/-!
# The grammar the parser accepts (C17, soundness half)

The language as a set of token-kind sequences.  Precedence decides how an expression is
grouped, not whether it is a sentence; what does restrict sentences is where an assignment
may stand: only at the start of an expression (`GExpr`), which is what statements, parentheses
and assignment right-hand sides contain.
-/
namespace Bclv

/-- tokens with an infix rule: the binary operators, `and`, `or` -/
def isInfix (t : TokType) : Prop := (getRule t).inf ≠ none

def isAtom (t : TokType) : Prop :=
  t = .INT ∨ t = .FLOAT ∨ t = .STR ∨ t = .TRUE ∨ t = .FALSE ∨ t = .NIL ∨ t = .IDENT
def isPreOp (t : TokType) : Prop := t = .MINUS ∨ t = .PLUS ∨ t = .NOT

inductive GK where | unit | cond | expr

/-- The expression grammar, one family indexed by the nonterminal:
`unit  ::= {-,+,not}* (literal | name | '(' expr ')')`,
`cond  ::= unit (infix unit)*`,
`expr  ::= (name '=')* cond`. -/
inductive G : GK → List TokType → Prop
  | atom (t : TokType) : isAtom t → G .unit [t]
  | paren (e : List TokType) : G .expr e → G .unit (.LPAREN :: (e ++ [.RPAREN]))
  | pre (o : TokType) (u : List TokType) : isPreOp o → G .unit u → G .unit (o :: u)
  | unit (u : List TokType) : G .unit u → G .cond u
  | bin (c u : List TokType) (op : TokType) : G .cond c → isInfix op → G .unit u → G .cond (c ++ op :: u)
  | cond (c : List TokType) : G .cond c → G .expr c
  | assign (e : List TokType) : G .expr e → G .expr (.IDENT :: .EQ :: e)

abbrev GUnit := G .unit
abbrev GCond := G .cond
abbrev GExpr := G .expr

/-- two conditions joined by an infix operator -/
theorem GCond.join {c : List TokType} (hc : GCond c) (op : TokType) (hop : isInfix op)
    {d : List TokType} (hd : GCond d) : GCond (c ++ op :: d) := by
  have aux : ∀ {k : GK} {d : List TokType}, G k d → k = .cond → GCond (c ++ op :: d) := by
    intro k d h
    induction h with
    | atom t _ => intro hk; cases hk
    | paren e _ _ => intro hk; cases hk
    | pre o u _ _ _ => intro hk; cases hk
    | unit u hu _ => intro _; exact G.bin c u op hc hop hu
    | bin d' u op' _ hop' hu ih _ =>
      intro _
      have := G.bin (c ++ op :: d') u op' (ih rfl) hop' hu
      simpa [List.append_assoc] using this
    | cond c' _ _ => intro hk; cases hk
    | assign e _ _ => intro hk; cases hk
  exact aux hd rfl

/-- a prefix operator in front of a condition belongs to its first unit -/
theorem GCond.pre (o : TokType) (ho : isPreOp o) {c : List TokType} (hc : GCond c) : GCond (o :: c) := by
  have aux : ∀ {k : GK} {d : List TokType}, G k d → k = .cond → GCond (o :: d) := by
    intro k d h
    induction h with
    | atom t _ => intro hk; cases hk
    | paren e _ _ => intro hk; cases hk
    | pre o' u _ _ _ => intro hk; cases hk
    | unit u hu _ => intro _; exact G.unit _ (G.pre o u ho hu)
    | bin d' u op' _ hop' hu ih _ =>
      intro _
      have := G.bin (o :: d') u op' (ih rfl) hop' hu
      simpa using this
    | cond c' _ _ => intro hk; cases hk
    | assign e _ _ => intro hk; cases hk
  exact aux hc rfl

/-! ## statements -/

inductive SK where | stmt (inBlock : Bool) | body

/-- Statements and block bodies:
`stmt ::= var name ['=' expr] | print expr | eval expr | def name [string] '{' body '}'
        | bind name [':' (int | name)] '->' name | expr` (the last only inside a block),
`body ::= (stmt [';'])*`. -/
inductive GS : SK → List TokType → Prop
  | var0 (b : Bool) : GS (.stmt b) [.VAR, .IDENT]
  | var1 (b : Bool) (e : List TokType) : GExpr e → GS (.stmt b) (.VAR :: .IDENT :: .EQ :: e)
  | print (b : Bool) (e : List TokType) : GExpr e → GS (.stmt b) (.PRINT :: e)
  | eval (b : Bool) (e : List TokType) : GExpr e → GS (.stmt b) (.EVAL :: e)
  | block (b : Bool) (nm body : List TokType) : (nm = [] ∨ nm = [.STR]) → GS .body body →
      GS (.stmt b) (.DEF :: .IDENT :: (nm ++ .LCURLY :: (body ++ [.RCURLY])))
  | bind (b : Bool) (sel : List TokType) : (sel = [] ∨ sel = [.COLON, .INT] ∨ sel = [.COLON, .IDENT]) →
      GS (.stmt b) (.BIND :: .IDENT :: (sel ++ [.ARROW, .IDENT]))
  | expr (e : List TokType) : GExpr e → GS (.stmt true) e
  | nil : GS .body []
  | cons (s rest : List TokType) : GS (.stmt true) s → GS .body rest → GS .body (s ++ rest)
  | consSemi (s rest : List TokType) : GS (.stmt true) s → GS .body rest → GS .body (s ++ .SEMICOLON :: rest)

abbrev GStmt (b : Bool) := GS (.stmt b)
abbrev GBody := GS .body

/-- a whole program: toplevel statements, each optionally followed by `;` -/
inductive GProg : List TokType → Prop
  | nil : GProg []
  | cons (s rest : List TokType) : GStmt false s → GProg rest → GProg (s ++ rest)
  | consSemi (s rest : List TokType) : GStmt false s → GProg rest → GProg (s ++ .SEMICOLON :: rest)

end Bclv
