import Bclv.Proofs.ParserFuel4
import Bclv.Proofs.LexTermWhole
import Bclv.Proofs.ParserScoped9
namespace Bclv

/-! ## the parser as a whole -/

theorem TE_init (toks : List Token) (lfs : List Nat) (h : lastEnd toks = true) :
    TE ({ rest := toks, lfs := lfs } : PState) := by
  unfold TE
  cases toks with
  | nil => cases h
  | cons a as => exact h

/-- **The parser never exhausts its step budget** on a token list that ends with a
finalizer (which is what the lexer produces). -/
theorem parse_not_stuck (toks : List Token) (lfs : List Nat) (h : lastEnd toks = true) :
    (parseTokens toks lfs).stuck = false := by
  unfold parseTokens
  simp only [StateT.run]
  have hte := TE_init toks lfs h
  have key : wp (do
      advance
      let body ← topLoop (4 * toks.length + 16)
      let p ← get
      return ({ body, npop := p.locals.length, endPos := p.prev.pos } : Program))
      (fun _ p' => p'.stuck = false) ({ rest := toks, lfs := lfs } : PState) := by
    rw [wp_bind]
    apply wp_mono (advance_wp _ hte)
    intro _ p1 hq1
    rw [wp_bind]
    apply wp_mono (topLoop_fuel _ p1 hq1.1.te (by unfold Fuel; have := hq1.1.le; unfold tm at this ⊢; simp only at this; omega))
    intro body p2 hk2
    rw [wp_bind, wp_get, wp_pure]
    rw [hk2.stuck, hq1.1.stuck]
  exact key

/-- Neither step budget of the front end is ever exhausted: for every input the lexer's
token list ends with a finalizer and the parser's `stuck` flag stays down. -/
theorem front_end_budgets (input : Bytes) :
    lastEnd (lexWhole input) = true ∧
    (parseTokens (lexWhole input) (newlinesFrom 0 input)).stuck = false :=
  ⟨lexWhole_lastEnd input, parse_not_stuck _ _ (lexWhole_lastEnd input)⟩

/-- **Every accepted source text runs to a result or a runtime error** — the statement of
`every_accepted_program_runs` with the step-budget hypothesis discharged. -/
theorem accepted_source_runs (name input : Bytes)
    (hok : (parseTokens (lexWhole input) (newlinesFrom 0 input)).ok = true)
    (hK : (parseTokens (lexWhole input) (newlinesFrom 0 input)).consts.length < 2 ^ 64) :
    ∃ n, ∀ m, n ≤ m →
      (∃ vm', execute (parseWhole name input).prog false m = .done vm' .ok)
      ∨ (∃ vm' text, execute (parseWhole name input).prog false m = .done vm' (.rt text)) :=
  every_accepted_program_runs name input hok (front_end_budgets input).2 hK

end Bclv
