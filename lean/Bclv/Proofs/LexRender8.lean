import Bclv.Proofs.LexRender7
namespace Bclv

theorem lexeme_hex (xb : UInt8) (hs : Bytes) (hx : xb = 120 ∨ xb = 88) (hhs : ∀ b ∈ hs, hexByte b) :
    Lexeme (48 :: xb :: hs) { typ := .INT, val := 48 :: xb :: hs } FHex := by
  refine ⟨by simp, 3, by simp, ?_⟩
  intro f n x T hF hf
  unfold runT
  rw [show St0 ((48 :: xb :: hs) ++ x) = ⟨0, [], 48 :: xb :: (hs ++ x), 0⟩ from rfl,
    hex_steps f n 0 0 xb hs x T hx hhs hF (by simp at hf; omega)]
  exact lexFrom_indepT f n _ _ _ ⟨rfl, rfl⟩

theorem dot_facts : isDigitR (firstRune ((46 : UInt8) :: ([] : Bytes))) = false := by decide

/-- `digits.digits` -/
theorem lexeme_float_frac (ip fd : Bytes) (hip : IsIntText ip) (hfd : digitsText fd) :
    Lexeme (ip ++ 46 :: fd) { typ := .FLOAT, val := ip ++ 46 :: fd } FFloatNoExp := by
  refine ⟨by simp, 3, by simp; have := hfd.1; cases fd with | nil => exact absurd rfl this | cons _ _ => simp; omega, ?_⟩
  intro f n x T hF hf
  have hfr : ∀ r : Bytes, firstRune (46 :: r) = 46 := fun r => firstRune_ascii 46 r (by decide)
  unfold runT
  rw [show St0 ((ip ++ 46 :: fd) ++ x) = ⟨0, [], ip ++ (46 :: (fd ++ x)), 0⟩ from by simp [St0]]
  rw [show n + 3 = (n + 1) + 2 from rfl,
    number_to_float f (n + 1) 0 0 ip (46 :: (fd ++ x)) T hip (by rw [hfr]; decide) (by rw [hfr]; decide)
      (by rw [hfr]; decide) (by simp at hf; omega)]
  rw [lexRun, float_frac_step f (0 + ip.length) _ ip.reverse fd x T hfd hF (by simp at hf; omega)]
  dsimp only
  rw [show ip.reverse.reverse ++ 46 :: fd = ip ++ 46 :: fd from by simp]
  exact lexFrom_indepT f n _ _ _ ⟨rfl, rfl⟩

/-- `digits e[sign]digits` -/
theorem lexeme_float_exp (ip sg ed : Bytes) (eb : UInt8) (hip : IsIntText ip) (heb : isExpByte eb)
    (hsg : isSignText sg) (hed : digitsText ed) :
    Lexeme (ip ++ eb :: (sg ++ ed)) { typ := .FLOAT, val := ip ++ eb :: (sg ++ ed) } FFloatExp := by
  obtain ⟨h80, hE, h46⟩ := expByte_facts eb heb
  refine ⟨by simp, 3, by simp; have := hed.1; cases ed with | nil => exact absurd rfl this | cons _ _ => simp; omega, ?_⟩
  intro f n x T hF hf
  have hfr : ∀ r : Bytes, firstRune (eb :: r) = (eb.toNat : Int) := fun r => firstRune_ascii eb r h80
  have hnd : isDigitR (eb.toNat : Int) = false := by rcases heb with rfl | rfl <;> decide
  have hfl : ((eb.toNat : Int) == 46 || (eb.toNat : Int) == 101 || (eb.toNat : Int) == 69) = true := by
    rcases heb with rfl | rfl <;> decide
  have hnx : ((eb.toNat : Int) == 120 || (eb.toNat : Int) == 88) = false := by rcases heb with rfl | rfl <;> decide
  unfold runT
  rw [show St0 ((ip ++ eb :: (sg ++ ed)) ++ x) = ⟨0, [], ip ++ (eb :: (sg ++ (ed ++ x))), 0⟩ from by simp [St0]]
  rw [show n + 3 = (n + 1) + 2 from rfl,
    number_to_float f (n + 1) 0 0 ip (eb :: (sg ++ (ed ++ x))) T hip (by rw [hfr]; exact hnd) (by rw [hfr]; exact hfl)
      (by rw [hfr]; exact hnx) (by simp at hf; omega)]
  rw [lexRun, float_exp_step f (0 + ip.length) _ ip.reverse sg ed x eb T heb hsg hed hF (by simp at hf; omega)]
  dsimp only
  rw [show ip.reverse.reverse ++ eb :: (sg ++ ed) = ip ++ eb :: (sg ++ ed) from by simp]
  exact lexFrom_indepT f n _ _ _ ⟨rfl, rfl⟩

/-- `digits.digits e[sign]digits` -/
theorem lexeme_float_frac_exp (ip fd sg ed : Bytes) (eb : UInt8) (hip : IsIntText ip) (hfd : digitsText fd)
    (heb : isExpByte eb) (hsg : isSignText sg) (hed : digitsText ed) :
    Lexeme (ip ++ 46 :: (fd ++ eb :: (sg ++ ed))) { typ := .FLOAT, val := ip ++ 46 :: (fd ++ eb :: (sg ++ ed)) } FFloatExp := by
  refine ⟨by simp, 3, by simp; have := hfd.1; cases fd with | nil => exact absurd rfl this | cons _ _ => simp; omega, ?_⟩
  intro f n x T hF hf
  have hfr : ∀ r : Bytes, firstRune (46 :: r) = 46 := fun r => firstRune_ascii 46 r (by decide)
  unfold runT
  rw [show St0 ((ip ++ 46 :: (fd ++ eb :: (sg ++ ed))) ++ x) = ⟨0, [], ip ++ (46 :: (fd ++ eb :: (sg ++ (ed ++ x)))), 0⟩ from by simp [St0]]
  rw [show n + 3 = (n + 1) + 2 from rfl,
    number_to_float f (n + 1) 0 0 ip (46 :: (fd ++ eb :: (sg ++ (ed ++ x)))) T hip (by rw [hfr]; decide) (by rw [hfr]; decide)
      (by rw [hfr]; decide) (by simp at hf; omega)]
  rw [lexRun, float_frac_exp_step f (0 + ip.length) _ ip.reverse fd sg ed x eb T hfd heb hsg hed hF
    (by simp at hf; omega) (by simp at hf; omega)]
  dsimp only
  rw [show ip.reverse.reverse ++ 46 :: (fd ++ eb :: (sg ++ ed)) = ip ++ 46 :: (fd ++ eb :: (sg ++ ed)) from by simp]
  exact lexFrom_indepT f n _ _ _ ⟨rfl, rfl⟩

end Bclv
