import Bclv.Proofs.Group7
/-!
# A token list reads as at most one program shape

`rd_split_unique`: from one position of a token stream an expression reads in one way only,
also as to where it ends.  `stmt_body_unique`: the same for statements and block bodies, by
induction on the length of the stream; `prog_unique` for whole programs.
-/
namespace Bclv

theorem rd_head {n : Nat} {s : Sh} {ts : List TokType} {k : Nat} (h : Rd n s ts k) :
    ∃ t rest, ts = t :: rest ∧ (isAtom t ∨ t = .LPAREN ∨ isPreOp t) := by
  induction h with
  | atom n t k hat => exact ⟨t, [], rfl, .inl hat⟩
  | paren n s ts k _ _ => exact ⟨.LPAREN, _, rfl, .inr (.inl rfl)⟩
  | un n o s ts k hp _ _ _ => exact ⟨o, ts, rfl, .inr (.inr hp)⟩
  | bin n o a b ta tb k _ _ _ _ _ iha _ =>
    obtain ⟨t, rest, rfl, ht⟩ := iha
    exact ⟨t, rest ++ o :: tb, rfl, ht⟩
  | asg s ts k _ _ _ => exact ⟨.IDENT, _, rfl, .inl (by simp [isAtom])⟩

/-- a token an expression can start with -/
def exprStart (t : TokType) : Prop := isAtom t ∨ t = .LPAREN ∨ isPreOp t

theorem exprStart_cases (t : TokType) (h : exprStart t) :
    t ≠ .VAR ∧ t ≠ .PRINT ∧ t ≠ .EVAL ∧ t ≠ .DEF ∧ t ≠ .BIND ∧ t ≠ .RCURLY ∧ t ≠ .SEMICOLON ∧ t.isEnd = false := by
  unfold exprStart isAtom isPreOp at h
  rcases h with (h | h | h | h | h | h | h) | h | (h | h | h) <;> subst h <;> decide

/-- **From one position an expression reads in one way only, also as to where it ends.** -/
theorem rd_split_unique {s s' : Sh} {ts ts' : List TokType} (h : Rd precAssign s ts 0) (h' : Rd precAssign s' ts' 0)
    (c c' : TokType) (r r' : List TokType) (hc : endsExpr c) (hc' : endsExpr c')
    (heq : ts ++ c :: r = ts' ++ c' :: r') : s = s' ∧ ts = ts' ∧ c :: r = c' :: r' := by
  have hx : ¬ precAssign ≤ opPrec c := by rw [hc.1]; decide
  have hx' : ¬ precAssign ≤ opPrec c' := by rw [hc'.1]; decide
  have r1 := rd_run h precAssign (by decide) (Nat.le_refl _) c r hc.1 (fun _ => hc.2) s (c :: r) (R.exit _ _ _ _ hx)
  have r2 := rd_run h' precAssign (by decide) (Nat.le_refl _) c' r' hc'.1 (fun _ => hc'.2) s' (c' :: r') (R.exit _ _ _ _ hx')
  rw [heq] at r1
  obtain ⟨hs, hr⟩ := R_det r1 r2
  refine ⟨hs, ?_, hr⟩
  rw [hr] at heq
  exact List.append_cancel_right heq

theorem rdsf_head {b : Bool} {s : ShS} {ts : List TokType} {c : TokType} (h : RdSF b s ts c) :
    ∃ t rest, ts = t :: rest ∧ t ≠ .RCURLY ∧ t ≠ .SEMICOLON ∧ t.isEnd = false := by
  cases h with
  | var0 => exact ⟨_, _, rfl, by decide, by decide, rfl⟩
  | var1 => exact ⟨_, _, rfl, by decide, by decide, rfl⟩
  | print => exact ⟨_, _, rfl, by decide, by decide, rfl⟩
  | eval => exact ⟨_, _, rfl, by decide, by decide, rfl⟩
  | block => exact ⟨_, _, rfl, by decide, by decide, rfl⟩
  | bind => exact ⟨_, _, rfl, by decide, by decide, rfl⟩
  | expr s e c hr _ =>
    obtain ⟨t, rest, rfl, ht⟩ := rd_head hr
    have := exprStart_cases t ht
    exact ⟨t, rest, rfl, this.2.2.2.2.2.1, this.2.2.2.2.2.2.1, this.2.2.2.2.2.2.2⟩

theorem follow_split (rest : List TokType) (c : TokType) (r : List TokType) :
    ∃ tl, rest ++ c :: r = followOf rest c :: tl := by
  cases rest with
  | nil => exact ⟨r, rfl⟩
  | cons t rs => exact ⟨rs ++ c :: r, rfl⟩

/-- statements and bodies, for streams up to a given length -/
theorem stmt_body_unique : ∀ (N : Nat),
    (∀ (b : Bool) (s s' : ShS) (ts ts' : List TokType) (c c' : TokType) (r r' : List TokType),
      RdSF b s ts c → RdSF b s' ts' c' → ts ++ c :: r = ts' ++ c' :: r' → (ts ++ c :: r).length ≤ N → s = s' ∧ ts = ts') ∧
    (∀ (ss ss' : ShSs) (ts ts' : List TokType) (c c' : TokType) (r r' : List TokType),
      RdBF ss ts c → RdBF ss' ts' c' → ts ++ c :: r = ts' ++ c' :: r' → (ts ++ c :: r).length ≤ N → ss = ss' ∧ ts = ts')
  | 0 => by
    refine ⟨fun b s s' ts ts' c c' r r' _ _ _ hl => ?_, fun ss ss' ts ts' c c' r r' _ _ _ hl => ?_⟩ <;>
      (simp at hl)
  | N+1 => by
    obtain ⟨ihS, ihB⟩ := stmt_body_unique N
    -- statements
    have hS : ∀ (b : Bool) (s s' : ShS) (ts ts' : List TokType) (c c' : TokType) (r r' : List TokType),
        RdSF b s ts c → RdSF b s' ts' c' → ts ++ c :: r = ts' ++ c' :: r' → (ts ++ c :: r).length ≤ N + 1 → s = s' ∧ ts = ts' := by
      intro b s s' ts ts' c c' r r' h h' heq hl
      -- an expression statement starts with a token no keyword statement starts with
      have exprhead : ∀ {s0 : Sh} {e : List TokType}, Rd precAssign s0 e 0 → ∀ {t : TokType} {rest : List TokType} {x : List TokType},
          e ++ x = t :: rest → exprStart t := by
        intro s0 e hr t rest x hx
        obtain ⟨t0, rest0, rfl, ht0⟩ := rd_head hr
        simp at hx; rw [← hx.1]; exact ht0
      cases h with
      | var0 b c hne =>
        cases h' with
        | var0 => exact ⟨rfl, rfl⟩
        | var1 _ _ e _ _ _ => simp at heq; exact absurd heq.1 hne
        | print => simp at heq
        | eval => simp at heq
        | block => simp at heq
        | bind => simp at heq
        | expr s0 e c0 hr _ => exact absurd rfl (exprStart_cases _ (exprhead hr heq.symm)).1
      | var1 b s0 e c hr hc =>
        cases h' with
        | var0 _ _ hne => simp at heq; exact absurd heq.1.symm hne
        | var1 _ s1 e1 _ hr1 hc1 =>
          simp only [List.cons_append, List.cons.injEq, true_and] at heq
          obtain ⟨rfl, rfl, _⟩ := rd_split_unique hr hr1 c c' r r' hc hc1 heq
          exact ⟨rfl, rfl⟩
        | print => simp at heq
        | eval => simp at heq
        | block => simp at heq
        | bind => simp at heq
        | expr s1 e1 c1 hr1 _ => exact absurd rfl (exprStart_cases _ (exprhead hr1 heq.symm)).1
      | print b s0 e c hr hc =>
        cases h' with
        | var0 => simp at heq
        | var1 => simp at heq
        | print _ s1 e1 _ hr1 hc1 =>
          simp only [List.cons_append, List.cons.injEq, true_and] at heq
          obtain ⟨rfl, rfl, _⟩ := rd_split_unique hr hr1 c c' r r' hc hc1 heq
          exact ⟨rfl, rfl⟩
        | eval => simp at heq
        | block => simp at heq
        | bind => simp at heq
        | expr s1 e1 c1 hr1 _ => exact absurd rfl (exprStart_cases _ (exprhead hr1 heq.symm)).2.1
      | eval b s0 e c hr hc =>
        cases h' with
        | var0 => simp at heq
        | var1 => simp at heq
        | print => simp at heq
        | eval _ s1 e1 _ hr1 hc1 =>
          simp only [List.cons_append, List.cons.injEq, true_and] at heq
          obtain ⟨rfl, rfl, _⟩ := rd_split_unique hr hr1 c c' r r' hc hc1 heq
          exact ⟨rfl, rfl⟩
        | block => simp at heq
        | bind => simp at heq
        | expr s1 e1 c1 hr1 _ => exact absurd rfl (exprStart_cases _ (exprhead hr1 heq.symm)).2.2.1
      | block b ss nm body c hnm hbody =>
        cases h' with
        | var0 => simp at heq
        | var1 => simp at heq
        | print => simp at heq
        | eval => simp at heq
        | block _ ss1 nm1 body1 _ hnm1 hbody1 =>
          simp only [List.cons_append, List.cons.injEq, true_and, List.append_assoc] at heq
          have hnmeq : nm = nm1 ∧ body ++ .RCURLY :: c :: r = body1 ++ .RCURLY :: c' :: r' := by
            rcases hnm with rfl | rfl <;> rcases hnm1 with rfl | rfl <;> simp at heq ⊢ <;> exact heq
          obtain ⟨rfl, hb⟩ := hnmeq
          have hlen : (body ++ .RCURLY :: (c :: r)).length ≤ N := by
            simp only [List.length_append, List.length_cons] at hl ⊢; omega
          obtain ⟨rfl, rfl⟩ := ihB ss ss1 body body1 .RCURLY .RCURLY (c :: r) (c' :: r') hbody hbody1 hb hlen
          exact ⟨rfl, rfl⟩
        | bind => simp at heq
        | expr s1 e1 c1 hr1 _ => exact absurd rfl (exprStart_cases _ (exprhead hr1 heq.symm)).2.2.2.1
      | bind b sel c hsel =>
        cases h' with
        | var0 => simp at heq
        | var1 => simp at heq
        | print => simp at heq
        | eval => simp at heq
        | block => simp at heq
        | bind _ sel1 _ hsel1 =>
          simp only [List.cons_append, List.cons.injEq, true_and, List.append_assoc] at heq
          have : sel = sel1 := by
            rcases hsel with rfl | rfl | rfl <;> rcases hsel1 with rfl | rfl | rfl <;> simp at heq ⊢
          subst this
          exact ⟨rfl, rfl⟩
        | expr s1 e1 c1 hr1 _ => exact absurd rfl (exprStart_cases _ (exprhead hr1 heq.symm)).2.2.2.2.1
      | expr s0 e c hr hc =>
        cases h' with
        | var0 => exact absurd rfl (exprStart_cases _ (exprhead hr heq)).1
        | var1 => exact absurd rfl (exprStart_cases _ (exprhead hr heq)).1
        | print => exact absurd rfl (exprStart_cases _ (exprhead hr heq)).2.1
        | eval => exact absurd rfl (exprStart_cases _ (exprhead hr heq)).2.2.1
        | block => exact absurd rfl (exprStart_cases _ (exprhead hr heq)).2.2.2.1
        | bind => exact absurd rfl (exprStart_cases _ (exprhead hr heq)).2.2.2.2.1
        | expr s1 e1 c1 hr1 hc1 =>
          obtain ⟨rfl, rfl, _⟩ := rd_split_unique hr hr1 c c' r r' hc hc1 heq
          exact ⟨rfl, rfl⟩
    refine ⟨hS, ?_⟩
    -- bodies
    intro ss ss' ts ts' c c' r r' h h' heq hl
    -- a body that goes on starts with a statement, which the closing token cannot start
    have noclose : ∀ {s0 : ShS} {t0 : List TokType} {f0 : TokType}, RdSF true s0 t0 f0 → ∀ (cc : TokType) {x y : List TokType},
        (cc = .RCURLY ∨ cc.isEnd = true) → cc :: x = t0 ++ y → False := by
      intro s0 t0 f0 hs cc x y hcc hx
      obtain ⟨t, rest, rfl, h1, _, h3⟩ := rdsf_head hs
      simp at hx
      rcases hcc with rfl | hcc
      · exact h1 hx.1.symm
      · rw [hx.1] at hcc; rw [hcc] at h3; cases h3
    cases h with
    | nil c hc =>
      cases h' with
      | nil => exact ⟨rfl, rfl⟩
      | cons s1 ss1 t1 rest1 _ hs1 _ _ => exact absurd heq (fun hx => noclose hs1 c hc (by simpa [List.append_assoc] using hx))
      | consSemi s1 ss1 t1 rest1 _ hs1 _ => exact absurd heq (fun hx => noclose hs1 c hc (by simpa [List.append_assoc] using hx))
    | cons s0 ss0 t0 rest0 c hs0 hns0 hb0 =>
      obtain ⟨tl0, hsplit0⟩ := follow_split rest0 c r
      cases h' with
      | nil _ hc' => exact absurd heq.symm (fun hx => noclose hs0 c' hc' (by simpa [List.append_assoc] using hx))
      | cons s1 ss1 t1 rest1 _ hs1 hns1 hb1 =>
        obtain ⟨tl1, hsplit1⟩ := follow_split rest1 c' r'
        have heq2 : t0 ++ followOf rest0 c :: tl0 = t1 ++ followOf rest1 c' :: tl1 := by
          rw [← hsplit0, ← hsplit1]; simpa [List.append_assoc] using heq
        have hl2 : (t0 ++ followOf rest0 c :: tl0).length ≤ N + 1 := by
          rw [← hsplit0]; simpa [List.append_assoc] using hl
        obtain ⟨rfl, rfl⟩ := hS true s0 s1 t0 t1 _ _ tl0 tl1 hs0 hs1 heq2 hl2
        have heq3 : rest0 ++ c :: r = rest1 ++ c' :: r' := by
          have := heq; simp only [List.append_assoc] at this; exact List.append_cancel_left this
        obtain ⟨t, trest, rfl, _⟩ := rdsf_head hs0
        have hl3 : (rest0 ++ c :: r).length ≤ N := by
          simp only [List.length_append, List.length_cons] at hl ⊢; omega
        obtain ⟨rfl, rfl⟩ := ihB ss0 ss1 rest0 rest1 c c' r r' hb0 hb1 heq3 hl3
        exact ⟨rfl, rfl⟩
      | consSemi s1 ss1 t1 rest1 _ hs1 hb1 =>
        have heq2 : t0 ++ followOf rest0 c :: tl0 = t1 ++ .SEMICOLON :: (rest1 ++ c' :: r') := by
          rw [← hsplit0]; simpa [List.append_assoc] using heq
        have hl2 : (t0 ++ followOf rest0 c :: tl0).length ≤ N + 1 := by
          rw [← hsplit0]; simpa [List.append_assoc] using hl
        obtain ⟨_, rfl⟩ := hS true s0 s1 t0 t1 _ _ tl0 _ hs0 hs1 heq2 hl2
        have := List.append_cancel_left heq2
        simp only [List.cons.injEq] at this
        exact absurd this.1 hns0
    | consSemi s0 ss0 t0 rest0 c hs0 hb0 =>
      cases h' with
      | nil _ hc' => exact absurd heq.symm (fun hx => noclose hs0 c' hc' (by simpa [List.append_assoc] using hx))
      | cons s1 ss1 t1 rest1 _ hs1 hns1 hb1 =>
        obtain ⟨tl1, hsplit1⟩ := follow_split rest1 c' r'
        have heq2 : t0 ++ .SEMICOLON :: (rest0 ++ c :: r) = t1 ++ followOf rest1 c' :: tl1 := by
          rw [← hsplit1]; simpa [List.append_assoc] using heq
        have hl2 : (t0 ++ .SEMICOLON :: (rest0 ++ c :: r)).length ≤ N + 1 := by
          simpa [List.append_assoc] using hl
        obtain ⟨_, rfl⟩ := hS true s0 s1 t0 t1 _ _ _ tl1 hs0 hs1 heq2 hl2
        have := List.append_cancel_left heq2
        simp only [List.cons.injEq] at this
        exact absurd this.1.symm hns1
      | consSemi s1 ss1 t1 rest1 _ hs1 hb1 =>
        have heq2 : t0 ++ .SEMICOLON :: (rest0 ++ c :: r) = t1 ++ .SEMICOLON :: (rest1 ++ c' :: r') := by
          simpa [List.append_assoc] using heq
        have hl2 : (t0 ++ .SEMICOLON :: (rest0 ++ c :: r)).length ≤ N + 1 := by
          simpa [List.append_assoc] using hl
        obtain ⟨rfl, rfl⟩ := hS true s0 s1 t0 t1 _ _ _ _ hs0 hs1 heq2 hl2
        have heq3 : rest0 ++ c :: r = rest1 ++ c' :: r' := by
          have := List.append_cancel_left heq2
          simpa using this
        obtain ⟨t, trest, rfl, _⟩ := rdsf_head hs0
        have hl3 : (rest0 ++ c :: r).length ≤ N := by
          simp only [List.length_append, List.length_cons] at hl ⊢; omega
        obtain ⟨rfl, rfl⟩ := ihB ss0 ss1 rest0 rest1 c c' r r' hb0 hb1 heq3 hl3
        exact ⟨rfl, rfl⟩

end Bclv
