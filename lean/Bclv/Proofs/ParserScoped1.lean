import Bclv.Model.Parser
import Bclv.Proofs.Progress
/-!
# The parser builds well-scoped trees (for C06)
-/
namespace Bclv

/-- Locals that occupy a stack slot: all but a newest one whose initializer is being parsed. -/
def initCount : List Local → Nat
  | [] => 0
  | l :: rest => if l.depth = -1 then rest.length else rest.length + 1

/-- Invariant of the parser state. -/
structure PI (p : PState) : Prop where
  refs : ∀ name idx, (name, idx) ∈ p.identRefs → p.consts.toList[idx]? = some (.str name)
  pm : p.panicMode = true → p.hadError = true
  tailInit : ∀ l ∈ p.locals.tail, l.depth ≠ -1
  depths : p.hadError = false → p.stuck = false → ∀ l ∈ p.locals, l.depth ≤ (p.depth : Int)
  nloc : p.locals.length ≤ 1024

/-- What an expression-level function may change. -/
structure Ext (p p' : PState) : Prop where
  locals : p'.locals = p.locals
  depth : p'.depth = p.depth
  consts : p.consts.toList <+: p'.consts.toList
  err : p.hadError = true → p'.hadError = true
  stuck : p.stuck = true → p'.stuck = true

theorem Ext.refl (p : PState) : Ext p p := ⟨rfl, rfl, List.prefix_refl _, id, id⟩
theorem Ext.trans {a b c : PState} (h1 : Ext a b) (h2 : Ext b c) : Ext a c :=
  ⟨h2.locals.trans h1.locals, h2.depth.trans h1.depth, h1.consts.trans h2.consts,
   fun h => h2.err (h1.err h), fun h => h2.stuck (h1.stuck h)⟩

/-- no error so far and the fuel has not run out -/
def NE (p : PState) : Prop := p.hadError = false ∧ p.stuck = false

theorem NE.of_ext {p p' : PState} (h : Ext p p') (hne : NE p') : NE p := by
  constructor
  · cases hh : p.hadError with
    | false => rfl
    | true => have := h.err hh; rw [hne.1] at this; cases this
  · cases hh : p.stuck with
    | false => rfl
    | true => have := h.stuck hh; rw [hne.2] at this; cases this

/-- `m` keeps the invariant and only extends the state. -/
structure PresR {α : Type} (m : PM α) : Prop where
  h : ∀ p, PI p → PI (m p).2 ∧ Ext p (m p).2

theorem PresR.pure {α} (a : α) : PresR (pure a : PM α) := ⟨fun p h => ⟨h, Ext.refl p⟩⟩
theorem PresR.bind {α β} {m : PM α} {f : α → PM β} (hm : PresR m) (hf : ∀ a, PresR (f a)) : PresR (m >>= f) :=
  ⟨fun p hp => by
    have h1 := hm.h p hp
    have h2 := (hf (m p).1).h (m p).2 h1.1
    exact ⟨h2.1, h1.2.trans h2.2⟩⟩
theorem PresR.get : PresR (get : PM PState) := ⟨fun p h => ⟨h, Ext.refl p⟩⟩
theorem PresR.ite {α} {c : Prop} [Decidable c] {x y : PM α} (hx : PresR x) (hy : PresR y) : PresR (if c then x else y) := by
  split <;> assumption

/-- a modification that touches none of the fields the invariant and `Ext` look at -/
theorem PresR.modify_frame {g : PState → PState}
    (h1 : ∀ p, (g p).identRefs = p.identRefs) (h2 : ∀ p, (g p).consts = p.consts)
    (h3 : ∀ p, (g p).panicMode = p.panicMode) (h4 : ∀ p, (g p).hadError = p.hadError)
    (h5 : ∀ p, (g p).locals = p.locals) (h6 : ∀ p, (g p).depth = p.depth) (h7 : ∀ p, (g p).stuck = p.stuck) :
    PresR (_root_.modify g : PM Unit) := by
  refine ⟨fun p hp => ?_⟩
  show PI (g p) ∧ Ext p (g p)
  refine ⟨⟨?_, ?_, ?_, ?_, ?_⟩, ⟨h5 p, h6 p, by rw [h2]; exact List.prefix_refl _, by rw [h4]; exact id, by rw [h7]; exact id⟩⟩
  · rw [h1, h2]; exact hp.refs
  · rw [h3, h4]; exact hp.pm
  · rw [h5]; exact hp.tailInit
  · rw [h4, h5, h6, h7]; exact hp.depths
  · rw [h5]; exact hp.nloc

theorem errorAt_presR (t : Token) (msg : Bytes) : PresR (errorAt t msg) := by
  refine ⟨fun p hp => ?_⟩
  show PI _ ∧ Ext p _
  exact ⟨⟨hp.refs, fun _ => rfl, hp.tailInit, fun h => Bool.noConfusion h, hp.nloc⟩, ⟨rfl, rfl, List.prefix_refl _, fun _ => rfl, id⟩⟩

syntax "presr_known" : tactic
macro_rules | `(tactic| presr_known) => `(tactic| exact PresR.pure _)
macro_rules | `(tactic| presr_known) => `(tactic| exact PresR.get)
macro_rules | `(tactic| presr_known) => `(tactic| exact errorAt_presR _ _)

macro "presr" : tactic => `(tactic| repeat' (first
  | assumption
  | presr_known
  | apply PresR.bind
  | apply PresR.ite
  | (apply PresR.modify_frame <;> intro _ <;> rfl)
  | intro _
  | split
  | dsimp only))

theorem errorAtCurrent_presR (msg : Bytes) : PresR (errorAtCurrent msg) := by
  unfold errorAtCurrent; exact PresR.bind PresR.get (fun _ => errorAt_presR _ _)
macro_rules | `(tactic| presr_known) => `(tactic| exact errorAtCurrent_presR _)
theorem error_presR (msg : Bytes) : PresR (error msg) := by
  unfold error; exact PresR.bind PresR.get (fun _ => errorAt_presR _ _)
macro_rules | `(tactic| presr_known) => `(tactic| exact error_presR _)

theorem advanceLoop_presR : ∀ (ts : List Token), PresR (advanceLoop ts)
  | [] => by unfold advanceLoop; presr
  | t :: ts => by
    have := advanceLoop_presR ts
    unfold advanceLoop; presr
macro_rules | `(tactic| presr_known) => `(tactic| exact advanceLoop_presR _)
theorem advance_presR : PresR advance := by unfold advance; presr
macro_rules | `(tactic| presr_known) => `(tactic| exact advance_presR)
theorem check_presR (t : TokType) : PresR (check t) := by unfold check; presr
macro_rules | `(tactic| presr_known) => `(tactic| exact check_presR _)
theorem checkEnd_presR : PresR checkEnd := by unfold checkEnd; presr
macro_rules | `(tactic| presr_known) => `(tactic| exact checkEnd_presR)
theorem consume_presR (t : TokType) (msg : Bytes) : PresR (consume t msg) := by unfold consume; presr
macro_rules | `(tactic| presr_known) => `(tactic| exact consume_presR _ _)
theorem match_presR (t : TokType) : PresR («match» t) := by unfold «match»; presr
macro_rules | `(tactic| presr_known) => `(tactic| exact match_presR _)
theorem matchEnd_presR : PresR matchEnd := by unfold matchEnd; presr
macro_rules | `(tactic| presr_known) => `(tactic| exact matchEnd_presR)
theorem syncLoop_presR : ∀ (f : Nat), PresR (syncLoop f)
  | 0 => by
    unfold syncLoop
    refine ⟨fun p hp => ?_⟩
    show PI _ ∧ Ext p _
    exact ⟨⟨hp.refs, hp.pm, hp.tailInit, fun _ h => Bool.noConfusion h, hp.nloc⟩, ⟨rfl, rfl, List.prefix_refl _, id, fun _ => rfl⟩⟩
  | f+1 => by
    have := syncLoop_presR f
    unfold syncLoop; presr
macro_rules | `(tactic| presr_known) => `(tactic| exact syncLoop_presR _)
theorem sync_presR (f : Nat) : PresR (sync f) := by
  unfold sync
  apply PresR.bind
  · refine ⟨fun p hp => ?_⟩
    show PI _ ∧ Ext p _
    exact ⟨⟨hp.refs, fun h => Bool.noConfusion h, hp.tailInit, hp.depths, hp.nloc⟩, ⟨rfl, rfl, List.prefix_refl _, id, id⟩⟩
  · intro _; exact syncLoop_presR f
macro_rules | `(tactic| presr_known) => `(tactic| exact sync_presR _)
theorem setStuck_presR : PresR setStuck := by
  unfold setStuck
  refine ⟨fun p hp => ?_⟩
  show PI _ ∧ Ext p _
  exact ⟨⟨hp.refs, hp.pm, hp.tailInit, fun _ h => Bool.noConfusion h, hp.nloc⟩, ⟨rfl, rfl, List.prefix_refl _, id, fun _ => rfl⟩⟩
macro_rules | `(tactic| presr_known) => `(tactic| exact setStuck_presR)

end Bclv
