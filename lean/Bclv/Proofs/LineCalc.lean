import Bclv.Model.LineCalc
/-!
# The line calculator computes line and column by their definition
-/
namespace Bclv

/-- number of newline bytes -/
def countNl (bs : Bytes) : Nat := (bs.filter (· = 10)).length

/-- number of bytes since the last newline (or since the start) -/
def sinceNl (bs : Bytes) : Nat := bs.foldl (fun a b => if b = 10 then 0 else a + 1) 0

theorem searchGE_all_lt (l : List Nat) (pos : Nat) (h : ∀ x ∈ l, x < pos) : searchGE l pos = l.length := by
  induction l with
  | nil => rfl
  | cons x xs ih =>
    have hx : ¬ pos ≤ x := by have := h x (by simp); omega
    simp [searchGE, hx, ih (fun y hy => h y (by simp [hy]))]

theorem searchGE_le_length (l : List Nat) (pos : Nat) : searchGE l pos ≤ l.length := by
  induction l with
  | nil => simp [searchGE]
  | cons x xs ih => simp only [searchGE]; split <;> simp <;> omega

theorem searchGE_append (l1 l2 : List Nat) (pos : Nat) (h2 : ∀ x ∈ l2, pos ≤ x) :
    searchGE (l1 ++ l2) pos = searchGE l1 pos := by
  induction l1 with
  | nil =>
    cases l2 with
    | nil => rfl
    | cons y ys => simp [searchGE, h2 y (by simp)]
  | cons x xs ih =>
    simp only [List.cons_append, searchGE]
    split
    · rfl
    · rw [ih]

/-- Entries at or beyond `pos` appended later do not change the answer: the lookup
does not depend on how far the lexer has read ahead. -/
theorem lineColAt_append (l1 l2 : List Nat) (pos : Nat) (h2 : ∀ x ∈ l2, pos ≤ x) :
    lineColAt (l1 ++ l2) pos = lineColAt l1 pos := by
  unfold lineColAt
  rw [searchGE_append l1 l2 pos h2]
  have hle := searchGE_le_length l1 pos
  by_cases hj : searchGE l1 pos = 0
  · simp [hj]
  · simp only [hj, if_false]
    have : searchGE l1 pos - 1 < l1.length := by omega
    simp [List.getD, List.getElem?_append_left this]

theorem newlinesFrom_append (off : Nat) (a b : Bytes) :
    newlinesFrom off (a ++ b) = newlinesFrom off a ++ newlinesFrom (off + a.length) b := by
  induction a generalizing off with
  | nil => simp [newlinesFrom]
  | cons x xs ih =>
    simp only [List.cons_append, newlinesFrom, List.length_cons]
    have e : off + 1 + xs.length = off + (xs.length + 1) := by omega
    split
    · rw [ih, e]; simp
    · rw [ih, e]

theorem newlinesFrom_bounds (off : Nat) (bs : Bytes) : ∀ x ∈ newlinesFrom off bs, off ≤ x ∧ x < off + bs.length := by
  induction bs generalizing off with
  | nil => simp [newlinesFrom]
  | cons b bs ih =>
    intro x hx
    simp only [newlinesFrom] at hx
    split at hx
    · simp only [List.mem_cons] at hx
      rcases hx with rfl | hx
      · simp
      · have := ih (off + 1) x hx; simp; omega
    · have := ih (off + 1) x hx; simp; omega

theorem newlinesFrom_length (off : Nat) (bs : Bytes) : (newlinesFrom off bs).length = countNl bs := by
  induction bs generalizing off with
  | nil => rfl
  | cons b bs ih =>
    simp only [newlinesFrom, countNl, List.filter_cons]
    split <;> simp_all [countNl]

theorem countNl_snoc (s : Bytes) (b : UInt8) : countNl (s ++ [b]) = countNl s + (if b = 10 then 1 else 0) := by
  simp only [countNl, List.filter_append, List.length_append]
  by_cases h : b = 10 <;> simp [h]

theorem sinceNl_snoc (s : Bytes) (b : UInt8) : sinceNl (s ++ [b]) = if b = 10 then 0 else sinceNl s + 1 := by
  simp [sinceNl, List.foldl_append]

theorem snoc_induction {α} {P : List α → Prop} (h0 : P []) (hs : ∀ l a, P l → P (l ++ [a])) : ∀ l, P l := by
  intro l
  have : ∀ n (l : List α), l.length = n → P l := by
    intro n
    induction n with
    | zero =>
      intro l hl
      have : l = [] := List.eq_nil_of_length_eq_zero hl
      subst this; exact h0
    | succ n ih =>
      intro l hl
      have hne : l ≠ [] := by intro h; simp [h] at hl
      rw [← List.dropLast_concat_getLast hne]
      apply hs
      apply ih
      simp [hl]
  exact this _ _ rfl

/-- At the end of a string: line = 1 + newlines, column = 1 + bytes since the last newline. -/
theorem lineColAt_end (s : Bytes) :
    lineColAt (newlinesFrom 0 s) s.length = (1 + countNl s, 1 + sinceNl s) := by
  induction s using snoc_induction with
  | h0 => rfl
  | hs s b ih =>
    rw [newlinesFrom_append]
    have hlen : (s ++ [b]).length = s.length + 1 := by simp
    rw [hlen]
    have hall : ∀ x ∈ newlinesFrom 0 s, x < s.length + 1 := by
      intro x hx; have := newlinesFrom_bounds 0 s x hx; omega
    have hall0 : ∀ x ∈ newlinesFrom 0 s, x < s.length := by
      intro x hx; have := newlinesFrom_bounds 0 s x hx; omega
    unfold lineColAt at ih
    rw [searchGE_all_lt _ _ hall0, newlinesFrom_length] at ih
    by_cases hb : b = 10
    · subst hb
      have hnl : newlinesFrom (0 + s.length) [10] = [s.length] := by simp [newlinesFrom]
      rw [hnl]
      unfold lineColAt
      have hall' : ∀ x ∈ newlinesFrom 0 s ++ [s.length], x < s.length + 1 := by
        intro x hx
        simp only [List.mem_append, List.mem_singleton] at hx
        rcases hx with hx | rfl
        · exact hall x hx
        · omega
      rw [searchGE_all_lt _ _ hall']
      have hl : (newlinesFrom 0 s ++ [s.length]).length = countNl s + 1 := by
        simp [newlinesFrom_length]
      rw [hl, countNl_snoc, sinceNl_snoc]
      have hget : (newlinesFrom 0 s ++ [s.length]).getD (countNl s + 1 - 1) 0 = s.length := by
        have : countNl s + 1 - 1 = (newlinesFrom 0 s).length := by rw [newlinesFrom_length]; omega
        rw [this]
        simp [List.getD]
      dsimp only
      rw [hget]
      simp only [if_true, Nat.add_one_ne_zero, if_false, Prod.mk.injEq]
      omega
    · have hnl : newlinesFrom (0 + s.length) [b] = [] := by simp [newlinesFrom, hb]
      rw [hnl, List.append_nil]
      unfold lineColAt
      rw [searchGE_all_lt _ _ hall, newlinesFrom_length, countNl_snoc, sinceNl_snoc]
      simp only [hb, if_false, Nat.add_zero]
      dsimp only at ih ⊢
      by_cases hz : countNl s = 0
      · simp only [hz, if_true, Prod.mk.injEq] at ih ⊢
        refine ⟨trivial, ?_⟩
        have := ih.2
        omega
      · simp only [hz, if_false, Prod.mk.injEq] at ih ⊢
        have hlt : (newlinesFrom 0 s).getD (countNl s - 1) 0 < s.length := by
          have hm : (newlinesFrom 0 s).getD (countNl s - 1) 0 ∈ newlinesFrom 0 s := by
            simp only [List.getD]
            have : countNl s - 1 < (newlinesFrom 0 s).length := by rw [newlinesFrom_length]; omega
            rw [List.getElem?_eq_getElem this]
            exact List.getElem_mem _
          exact hall0 _ hm
        omega

/-- `lineColAt` on the line table of a source gives, for every offset `p` inside it,
line = 1 + number of newline bytes before `p`, column = 1 + number of bytes between
the preceding newline (or the start) and `p`. -/
theorem lineColAt_spec (src : Bytes) (p : Nat) (hp : p ≤ src.length) :
    lineColAt (newlinesFrom 0 src) p = (1 + countNl (src.take p), 1 + sinceNl (src.take p)) := by
  have hsplit : src = src.take p ++ src.drop p := (List.take_append_drop p src).symm
  have hlen : (src.take p).length = p := by simp; omega
  conv => lhs; rw [hsplit, newlinesFrom_append, hlen]
  rw [lineColAt_append]
  · have := lineColAt_end (src.take p)
    rw [hlen] at this
    exact this
  · intro x hx
    have := newlinesFrom_bounds (0 + p) (src.drop p) x hx
    omega

end Bclv
