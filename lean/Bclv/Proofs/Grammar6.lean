import Bclv.Proofs.Grammar5
import Bclv.Proofs.ParserFuel5
namespace Bclv

/-- **Soundness of the parser with respect to the grammar**: a token list (ending with a
finalizer, without lexical-failure tokens) that the parser accepts is a sentence — the tokens
up to the first finalizer derive from `GProg`. -/
theorem parse_sound (toks : List Token) (lfs : List Nat) (hend : lastEnd toks = true)
    (hnf : ∀ t ∈ toks, t.typ ≠ .FAIL) (hok : (parseTokens toks lfs).ok = true) :
    ∃ body e rest, toks = body ++ e :: rest ∧ e.typ.isEnd = true ∧ GProg (typs body) := by
  have hns := parse_not_stuck toks lfs hend
  have hi0 : GInv ({ rest := toks, lfs := lfs } : PState) :=
    ⟨TE_init toks lfs hend, fun h => Bool.noConfusion h, rfl, hnf⟩
  have hne0 : toks ≠ [] := by intro h; rw [h] at hend; cases hend
  have hrun : wp (do advance; let body ← topLoop (4 * toks.length + 16); let p ← get
                     return ({ body, npop := p.locals.length, endPos := p.prev.pos } : Program))
      (fun _ p' => NE p' → ∃ body e rest, toks = body ++ e :: rest ∧ e.typ.isEnd = true ∧ GProg (typs body))
      ({ rest := toks, lfs := lfs } : PState) := by
    rw [wp_bind]
    have h1 : wp advance (fun _ p1 => GM ({ rest := toks, lfs := lfs } : PState) p1 ∧ p1.depth = 0 ∧
        (p1.hadError = false → toks = p1.cur :: p1.rest)) ({ rest := toks, lfs := lfs } : PState) := by
      refine ⟨advance_gr.h _ hi0, advance_dp.h _, ?_⟩
      have : wp advance (fun _ p' => p'.hadError = false → toks ≠ [] → toks = p'.cur :: p'.rest)
          ({ rest := toks, lfs := lfs } : PState) := by
        unfold advance
        rw [wp_bind, wp_modify, wp_bind, wp_get]
        exact advanceLoop_noerr toks _
      intro h; exact this h hne0
    apply wp_mono h1
    intro _ p1 hq1
    obtain ⟨hg1, hd1, ht1⟩ := hq1
    rw [wp_bind]
    apply wp_mono (topLoop_g _ p1 hg1.inv hd1)
    intro body p2 hq2
    rw [wp_bind, wp_get, wp_pure]
    intro hne
    obtain ⟨b, e, r, htoks, he, hp⟩ := hq2.2 hne
    have hne1 : NE p1 := hq2.1.ne hne
    exact ⟨b, e, r, by rw [ht1 hne1.1, htoks], he, hp⟩
  -- read the flags off the result
  unfold parseTokens at hok hns
  simp only [StateT.run] at hok hns
  apply hrun
  constructor
  · revert hok
    generalize ((advance >>= fun _ => do
      let body ← topLoop (4 * toks.length + 16)
      let p ← get
      pure ({ body := body, npop := p.locals.length, endPos := p.prev.pos } : Program) : PM Program)
      { rest := toks, lfs := lfs }) = r
    obtain ⟨a, q⟩ := r
    intro hok
    show q.hadError = false
    have : (!q.hadError) = true := hok
    cases h : q.hadError <;> simp_all
  · revert hns
    generalize ((advance >>= fun _ => do
      let body ← topLoop (4 * toks.length + 16)
      let p ← get
      pure ({ body := body, npop := p.locals.length, endPos := p.prev.pos } : Program) : PM Program)
      { rest := toks, lfs := lfs }) = r
    obtain ⟨a, q⟩ := r
    intro hns
    exact hns

end Bclv
