import Bclv.Proofs.Group2
/-!
# The leaves of the tree (C20, C01): which constants and slots the parser chooses

`Group1`/`Group2` say which operator stands where (`shape`).  This file says what stands at the
leaves: the part of the parser state that resolution and the constant pool depend on is
`ES` (constants, the de-duplication table, the locals, the block depth); `atomE` is what one
operand token — a literal or a name — makes of it (a resolved operand `RAtom` and the new `ES`),
written as a function of the token's kind and text alone; `atomsE` folds it over a token list.
`exprs_leaves`: whatever the expression parser consumes without reporting an error, the resolved
operands of the tree it returns, in order, and the `ES` it ends in are `atomsE` of the operand
tokens among the consumed ones — parentheses and operators contribute nothing.
-/
namespace Bclv

/-- The part of the parser state that name resolution and the constant pool read and write. -/
structure ES where
  consts : Array Value
  identRefs : List (Bytes × Nat)
  locals : List Local
  depth : Nat

def PState.E (p : PState) : ES := ⟨p.consts, p.identRefs, p.locals, p.depth⟩

/-! ## helpers that leave `ES` alone -/

structure EP {α : Type} (m : PM α) : Prop where
  h : ∀ p, (m p).2.E = p.E

theorem EP.pure {α} (a : α) : EP (pure a : PM α) := ⟨fun _ => rfl⟩
theorem EP.bind {α β} {m : PM α} {f : α → PM β} (hm : EP m) (hf : ∀ a, EP (f a)) : EP (m >>= f) :=
  ⟨fun p => ((hf (m p).1).h (m p).2).trans (hm.h p)⟩
theorem EP.get : EP (get : PM PState) := ⟨fun _ => rfl⟩
theorem EP.ite {α} {c : Prop} [Decidable c] {x y : PM α} (hx : EP x) (hy : EP y) : EP (if c then x else y) := by
  split <;> assumption
theorem EP.modify_frame {g : PState → PState} (h1 : ∀ p, (g p).E = p.E) : EP (_root_.modify g : PM Unit) := ⟨h1⟩

syntax "ep_known" : tactic
macro_rules | `(tactic| ep_known) => `(tactic| with_reducible exact EP.pure _)
macro_rules | `(tactic| ep_known) => `(tactic| with_reducible exact EP.get)
macro "ep" : tactic => `(tactic| repeat' (first
  | assumption
  | ep_known
  | with_reducible apply EP.bind
  | with_reducible apply EP.ite
  | ((with_reducible apply EP.modify_frame) <;> intro _ <;> rfl)
  | intro _
  | split
  | dsimp only))

theorem errorAt_ep (t : Token) (msg : Bytes) : EP (errorAt t msg) := ⟨fun _ => rfl⟩
macro_rules | `(tactic| ep_known) => `(tactic| with_reducible exact errorAt_ep _ _)
theorem errorAtCurrent_ep (msg : Bytes) : EP (errorAtCurrent msg) := by unfold errorAtCurrent; ep
macro_rules | `(tactic| ep_known) => `(tactic| with_reducible exact errorAtCurrent_ep _)
theorem error_ep (msg : Bytes) : EP (error msg) := by unfold error; ep
macro_rules | `(tactic| ep_known) => `(tactic| with_reducible exact error_ep _)
theorem setStuck_ep : EP setStuck := ⟨fun _ => rfl⟩
macro_rules | `(tactic| ep_known) => `(tactic| with_reducible exact setStuck_ep)
theorem advanceLoop_ep : ∀ (ts : List Token), EP (advanceLoop ts)
  | [] => by unfold advanceLoop; ep
  | t :: ts => by have := advanceLoop_ep ts; unfold advanceLoop; ep
macro_rules | `(tactic| ep_known) => `(tactic| with_reducible exact advanceLoop_ep _)
theorem advance_ep : EP advance := by unfold advance; ep
macro_rules | `(tactic| ep_known) => `(tactic| with_reducible exact advance_ep)
theorem check_ep (t : TokType) : EP (check t) := by unfold check; ep
macro_rules | `(tactic| ep_known) => `(tactic| with_reducible exact check_ep _)
theorem consume_ep (t : TokType) (msg : Bytes) : EP (consume t msg) := by unfold consume; ep
macro_rules | `(tactic| ep_known) => `(tactic| with_reducible exact consume_ep _ _)
theorem match_ep (t : TokType) : EP («match» t) := by unfold «match»; ep
macro_rules | `(tactic| ep_known) => `(tactic| with_reducible exact match_ep _)

theorem wp_ep {α} {m : PM α} (hs : EP m) {p : PState} {Q : α → PState → Prop}
    (h : wp m (fun a p' => p'.E = p.E → Q a p') p) : wp m Q p := h (hs.h p)

/-- two facts about one run -/
theorem wp_and {α} {m : PM α} {Q1 Q2 : α → PState → Prop} {p : PState} (h1 : wp m Q1 p) (h2 : wp m Q2 p) :
    wp m (fun a p' => Q1 a p' ∧ Q2 a p') p := ⟨h1, h2⟩

/-! ## what an operand token makes of `ES` -/

def addConstE (v : Value) (s : ES) : Nat × ES := (s.consts.size, { s with consts := s.consts.push v })

def makeConstE (v : Value) (s : ES) : Nat × ES :=
  if v = .str [] then
    match s.identRefs.lookup [] with
    | some idx => (idx, s)
    | none =>
      let r := addConstE v s
      (r.1, { r.2 with identRefs := ([], r.1) :: r.2.identRefs })
  else addConstE v s

def identConstE (name : Bytes) (s : ES) : Nat × ES :=
  match s.identRefs.lookup name with
  | some idx => (idx, s)
  | none =>
    let r := makeConstE (.str name) s
    (r.1, { r.2 with identRefs := (name, r.1) :: r.2.identRefs })

theorem addConst_E (v : Value) (p : PState) :
    ((addConst v) p).1 = (addConstE v p.E).1 ∧ ((addConst v) p).2.E = (addConstE v p.E).2 := ⟨rfl, rfl⟩

theorem makeConst_E (v : Value) (p : PState) :
    ((makeConst v) p).1 = (makeConstE v p.E).1 ∧ ((makeConst v) p).2.E = (makeConstE v p.E).2 := by
  unfold makeConst makeConstE
  by_cases h : v = .str []
  · simp only [h, if_true]
    show (((do
        match (← get).identRefs.lookup [] with
        | some idx => return idx
        | none =>
          let idx ← addConst (.str [])
          modify fun p => { p with identRefs := ([], idx) :: p.identRefs }
          return idx) : PM Nat) p).1 = _ ∧ _
    simp only [bind, StateT.bind, get, getThe, MonadStateOf.get, StateT.get, pure, StateT.pure, PState.E]
    cases hl : p.identRefs.lookup [] with
    | some idx => exact ⟨rfl, rfl⟩
    | none => exact ⟨rfl, rfl⟩
  · simp only [h, if_false]
    exact addConst_E v p

theorem identConst_E (name : Bytes) (p : PState) :
    ((identConst name) p).1 = (identConstE name p.E).1 ∧ ((identConst name) p).2.E = (identConstE name p.E).2 := by
  unfold identConst identConstE
  simp only [bind, StateT.bind, get, getThe, MonadStateOf.get, StateT.get, pure, StateT.pure]
  have hid : p.E.identRefs = p.identRefs := rfl
  rw [hid]
  cases hl : p.identRefs.lookup name with
  | some idx => exact ⟨rfl, rfl⟩
  | none =>
    obtain ⟨h1, h2⟩ := makeConst_E (.str name) p
    show ((makeConst (.str name) p).1 = _) ∧
      (PState.E { (makeConst (.str name) p).2 with
        identRefs := (name, (makeConst (.str name) p).1) :: (makeConst (.str name) p).2.identRefs } = _)
    refine ⟨h1, ?_⟩
    have hc := congrArg ES.consts h2
    have hi := congrArg ES.identRefs h2
    have hl' := congrArg ES.locals h2
    have hd := congrArg ES.depth h2
    simp only [PState.E] at hc hi hl' hd ⊢
    rw [hc, hi, hl', hd, h1]
    rfl

/-- A resolved operand: what a literal or a name has become in the tree. -/
inductive RAtom where
  | lit (l : Lit) | const (i : Nat) | loc (slot : Nat) | fld (i : Nat) | bad
  deriving DecidableEq, Repr

/-- What one operand token makes of the state: a function of its kind and text alone. -/
def atomE (t : TokType) (v : Bytes) (s : ES) : RAtom × ES :=
  match t with
  | .INT =>
    match parseIntLit v with
    | none => (.bad, s)
    | some 0 => (.lit .zero, s)
    | some 1 => (.lit .one, s)
    | some n => let r := makeConstE (.int (Int64.ofNat n)) s; (.const r.1, r.2)
  | .FLOAT =>
    match parseFloatLit v with
    | none => (.bad, s)
    | some b => let r := makeConstE (.float b) s; (.const r.1, r.2)
  | .STR =>
    match unquote v with
    | none => (.bad, s)
    | some x => let r := makeConstE (.str x) s; (.const r.1, r.2)
  | .TRUE => (.lit .tru, s)
  | .FALSE => (.lit .fls, s)
  | .NIL => (.lit .nil, s)
  | .IDENT =>
    match resolveLocal s.locals v with
    | some slot => (.loc slot, s)
    | none => let r := identConstE v s; (.fld r.1, r.2)
  | _ => (.bad, s)

def atomsE : List (TokType × Bytes) → ES → List RAtom × ES
  | [], s => ([], s)
  | (t, v) :: r, s =>
    let a := atomE t v s
    let b := atomsE r a.2
    (a.1 :: b.1, b.2)

theorem atomsE_append (a b : List (TokType × Bytes)) (s s1 s2 : ES) (ra rb : List RAtom)
    (h1 : atomsE a s = (ra, s1)) (h2 : atomsE b s1 = (rb, s2)) : atomsE (a ++ b) s = (ra ++ rb, s2) := by
  induction a generalizing s ra with
  | nil => simp only [atomsE, Prod.mk.injEq] at h1; obtain ⟨rfl, rfl⟩ := h1; simpa using h2
  | cons x xs ih =>
    obtain ⟨t, v⟩ := x
    simp only [atomsE, List.cons_append, Prod.mk.injEq] at h1 ⊢
    obtain ⟨rfl, hs⟩ := h1
    have := ih (atomE t v s).2 (atomsE xs (atomE t v s).2).1 (by rw [← hs])
    rw [this]; exact ⟨rfl, rfl⟩

def isAtomB (t : TokType) : Bool :=
  t == .INT || t == .FLOAT || t == .STR || t == .TRUE || t == .FALSE || t == .NIL || t == .IDENT

/-- The operand tokens among a token list, by kind and text (positions dropped). -/
def atomsOf (sk : List Token) : List (TokType × Bytes) :=
  (sk.filter (fun t => isAtomB t.typ)).map (fun t => (t.typ, t.val))

@[simp] theorem atomsOf_nil : atomsOf [] = [] := rfl
@[simp] theorem atomsOf_append (a b : List Token) : atomsOf (a ++ b) = atomsOf a ++ atomsOf b := by simp [atomsOf]
theorem atomsOf_cons_no (t : Token) (r : List Token) (h : isAtomB t.typ = false) : atomsOf (t :: r) = atomsOf r := by
  simp [atomsOf, h]
theorem atomsOf_cons_yes (t : Token) (r : List Token) (h : isAtomB t.typ = true) :
    atomsOf (t :: r) = (t.typ, t.val) :: atomsOf r := by
  simp [atomsOf, h]

/-- The resolved operands of a tree, from left to right (an assignment's target comes first). -/
def ratoms : Expr → List RAtom
  | .lit l _ => [.lit l]
  | .const i _ => [.const i]
  | .getLocal s _ => [.loc s]
  | .getField i _ => [.fld i]
  | .setLocal s e _ => .loc s :: ratoms e
  | .setField i e _ => .fld i :: ratoms e
  | .un _ e _ => ratoms e
  | .bin _ a b _ => ratoms a ++ ratoms b
  | .and a b _ => ratoms a ++ ratoms b
  | .or a b _ => ratoms a ++ ratoms b
  | .bad => []

/-- what the tokens `sk` make of the state of `p`: the operands `rs`, ending in the state of `p'` -/
def Leaves (sk : List Token) (p : PState) (rs : List RAtom) (p' : PState) : Prop :=
  atomsE (atomsOf sk) p.E = (rs, p'.E)

theorem Leaves.nil (p p' : PState) (h : p'.E = p.E) : Leaves [] p [] p' := by
  unfold Leaves; rw [h]; rfl

theorem Leaves.trans {a b : List Token} {p q r : PState} {ra rb : List RAtom}
    (h1 : Leaves a p ra q) (h2 : Leaves b q rb r) : Leaves (a ++ b) p (ra ++ rb) r := by
  unfold Leaves at *
  rw [atomsOf_append]
  exact atomsE_append _ _ _ _ _ _ _ h1 h2

theorem Leaves.skip {t : Token} {sk : List Token} {p q r : PState} {rs : List RAtom}
    (ht : isAtomB t.typ = false) (hE : q.E = p.E) (h : Leaves sk q rs r) : Leaves (t :: sk) p rs r := by
  unfold Leaves at *
  rw [atomsOf_cons_no _ _ ht, ← hE]; exact h

theorem Leaves.congr_left {sk : List Token} {p q r : PState} {rs : List RAtom}
    (hE : q.E = p.E) (h : Leaves sk q rs r) : Leaves sk p rs r := by
  unfold Leaves at *; rw [← hE]; exact h

theorem Leaves.congr_right {sk : List Token} {p q r : PState} {rs : List RAtom}
    (hE : r.E = q.E) (h : Leaves sk p rs q) : Leaves sk p rs r := by
  unfold Leaves at *; rw [hE]; exact h

theorem infix_not_atom (t : TokType) (h : isInfix t) : isAtomB t = false := by
  unfold isInfix at h
  cases t <;> simp [getRule] at h <;> rfl

def PPpostL (p : PState) : Expr → PState → Prop := fun e p' =>
  GM p p' ∧ (NE p' → ∃ sk, Skips sk p p' ∧ Leaves sk p (ratoms e) p')

def ILpostL (left : Expr) (p : PState) : Expr → PState → Prop := fun e p' =>
  GM p p' ∧ (NE p' → ∃ sk rs, Skips sk p p' ∧ ratoms e = ratoms left ++ rs ∧ Leaves sk p rs p')

/-- the prefix token has been consumed already: it is `p.prev` -/
def PRpostL (p : PState) : Expr → PState → Prop := fun e p' =>
  GM p p' ∧ (NE p' → ∃ sk, Skips sk p p' ∧ Leaves (p.prev :: sk) p (ratoms e) p')

theorem wp_run {α} (m : PM α) (Q : α → PState → Prop) (p : PState) (h : Q (m p).1 (m p).2) : wp m Q p := h

/-- a helper that leaves `ES` alone, as a fact about its run -/
theorem wp_epf {α} {m : PM α} (hs : EP m) (p : PState) : wp m (fun _ p' => p'.E = p.E) p := hs.h p

theorem parsePrecedence_l_step (f : Nat)
    (ihIL : ∀ prec left p, 1 ≤ prec → GInv p → wp (infixLoop prec left f) (ILpostL left p) p)
    (ihPR : ∀ rule ca p, GInv p → (getRule p.prev.typ).pre = some rule → wp (prefixRule rule ca f) (PRpostL p) p)
    (prec : Nat) (p : PState) (hprec : 1 ≤ prec) (hi : GInv p) :
    wp (parsePrecedence prec (f+1)) (PPpostL p) p := by
  unfold parsePrecedence
  rw [wp_bind]
  apply wp_mono (wp_and (advance_cons p hi) (wp_epf advance_ep p))
  intro _ p1 hq1
  obtain ⟨⟨hg1, hprev, hsk1⟩, hE1⟩ := hq1
  rw [wp_bind, wp_get]
  split
  · rw [wp_bind]
    apply wp_mono (error_wp _ p1 hg1.inv)
    intro _ p2 hq2
    rw [wp_pure]
    exact ⟨hg1.trans hq2.1, fun hne => absurd hne (ne_false_of_err hq2.2)⟩
  · rename_i rule hrule
    have hne0 : p.cur.typ.isEnd = false := by
      cases he : p.cur.typ.isEnd with
      | false => rfl
      | true =>
        have := (rule_of_end _ he).1
        rw [hprev] at hrule
        rw [this] at hrule; cases hrule
    rw [wp_bind]
    apply wp_mono (ihPR rule (decide (prec ≤ precAssign)) p1 hg1.inv hrule)
    intro e p2 hq2
    obtain ⟨hg2, hpr⟩ := hq2
    rw [wp_bind]
    apply wp_mono (ihIL prec e p2 hprec hg2.inv)
    intro e' p3 hq3
    obtain ⟨hg3, hil⟩ := hq3
    have fin : ∀ (p3' : PState), p3' = p3 →
        wp (do
          if prec ≤ precAssign then
            if (← «match» .EQ) = true then error (str "invalid assignment target")
          return e') (PPpostL p) p3' := by
      intro p3' hp3
      subst hp3
      have good : PPpostL p e' p3' := by
        refine ⟨(hg1.trans hg2).trans hg3, fun hne3 => ?_⟩
        have hne2 : NE p2 := hg3.ne hne3
        have hne1 : NE p1 := hg2.ne hne2
        obtain ⟨sk2, hs2, hl2⟩ := hpr hne2
        obtain ⟨sk3, rs, hs3, hr3, hl3⟩ := hil hne3
        have hs1 := hsk1 hne1.1 hne0
        refine ⟨[p.cur] ++ sk2 ++ sk3, (hs1.trans hs2).trans hs3, ?_⟩
        rw [hr3]
        have h12 : Leaves ([p.cur] ++ sk2) p (ratoms e) p2 := by
          rw [hprev] at hl2
          exact Leaves.congr_left hE1 hl2
        exact h12.trans hl3
      split
      · rw [wp_bind]
        apply wp_mono (match_cons .EQ (by decide) p3' ((hg1.trans hg2).trans hg3).inv)
        intro b p4 hq4
        obtain ⟨hg4, hf4, _⟩ := hq4
        split
        · rw [wp_bind]
          apply wp_mono (error_wp _ p4 hg4.inv)
          intro _ p5 hq5
          rw [wp_pure]
          exact ⟨(((hg1.trans hg2).trans hg3).trans hg4).trans hq5.1, fun hne => absurd hne (ne_false_of_err hq5.2)⟩
        · rename_i hb
          obtain ⟨rfl, _⟩ := hf4 (by simpa using hb)
          rw [wp_pure]
          exact good
      · rw [wp_pure]
        exact good
    exact fin p3 rfl

theorem infixLoop_l_step (f : Nat)
    (ihPP : ∀ prec p, 1 ≤ prec → GInv p → wp (parsePrecedence prec f) (PPpostL p) p)
    (ihIL : ∀ prec left p, 1 ≤ prec → GInv p → wp (infixLoop prec left f) (ILpostL left p) p)
    (prec : Nat) (left : Expr) (p : PState) (hprec : 1 ≤ prec) (hi : GInv p) :
    wp (infixLoop prec left (f+1)) (ILpostL left p) p := by
  unfold infixLoop
  rw [wp_bind, wp_get]
  split
  · rename_i hcond
    have hinf : isInfix p.cur.typ := infix_of_prec _ (by omega)
    have hna : isAtomB p.cur.typ = false := infix_not_atom _ hinf
    have hne0 : p.cur.typ.isEnd = false := by
      cases he : p.cur.typ.isEnd with
      | false => rfl
      | true => have := (rule_of_end _ he).2; rw [this] at hcond; omega
    rw [wp_bind]
    apply wp_mono (wp_and (advance_cons p hi) (wp_epf advance_ep p))
    intro _ p1 hq1
    obtain ⟨⟨hg1, hprev, hsk1⟩, hE1⟩ := hq1
    rw [wp_bind, wp_get]
    -- once the right operand is parsed, go round again
    have again : ∀ (e : Expr) (p2 : PState), GM p1 p2 →
        (NE p2 → ∃ sk rs, Skips sk p1 p2 ∧ ratoms e = ratoms left ++ rs ∧ Leaves sk p1 rs p2) →
        wp (infixLoop prec e f) (ILpostL left p) p2 := by
      intro e p2 hg2 h2
      apply wp_mono (ihIL prec e p2 hprec hg2.inv)
      intro e' p3 hq3
      refine ⟨(hg1.trans hg2).trans hq3.1, fun hne3 => ?_⟩
      have hne2 : NE p2 := hq3.1.ne hne3
      have hne1 : NE p1 := hg2.ne hne2
      obtain ⟨sk2, rs2, hs2, hr2, hl2⟩ := h2 hne2
      obtain ⟨sk3, rs3, hs3, hr3, hl3⟩ := hq3.2 hne3
      have hs1 := hsk1 hne1.1 hne0
      refine ⟨[p.cur] ++ sk2 ++ sk3, rs2 ++ rs3, (hs1.trans hs2).trans hs3, ?_, ?_⟩
      · rw [hr3, hr2, List.append_assoc]
      · have h12 : Leaves ([p.cur] ++ sk2) p rs2 p2 := Leaves.skip hna hE1 hl2
        exact h12.trans hl3
    dsimp only
    split
    · rename_i hbin
      rw [wp_bind]
      apply wp_mono (ihPP _ p1 (Nat.succ_le_succ (Nat.zero_le _)) hg1.inv)
      intro rhs p2 hq2
      split
      · rename_i op hop
        rw [wp_bind, wp_get, wp_bind, wp_pure]
        apply again _ p2 hq2.1
        intro hne
        obtain ⟨sk, hs, hl⟩ := hq2.2 hne
        exact ⟨sk, ratoms rhs, hs, rfl, hl⟩
      · rename_i hnone
        rw [hprev] at hnone hbin
        obtain ⟨op, hop⟩ := binOpOf_of_binary _ hbin
        rw [hop] at hnone; cases hnone
    · rw [wp_bind, wp_get, wp_bind]
      apply wp_mono (ihPP precAnd p1 (by decide) hg1.inv)
      intro rhs p2 hq2
      split
      · rw [wp_bind]
        apply wp_mono (error_wp _ p2 hq2.1.inv)
        intro _ p3 hq3
        rw [wp_bind, wp_pure]
        exact again _ p3 (hq2.1.trans hq3.1) (fun hne => absurd hne (ne_false_of_err hq3.2))
      · rw [wp_bind, wp_pure]
        apply again _ p2 hq2.1
        intro hne
        obtain ⟨sk, hs, hl⟩ := hq2.2 hne
        exact ⟨sk, ratoms rhs, hs, rfl, hl⟩
    · rw [wp_bind, wp_get, wp_bind]
      apply wp_mono (ihPP precOr p1 (by decide) hg1.inv)
      intro rhs p2 hq2
      split
      · rw [wp_bind]
        apply wp_mono (error_wp _ p2 hq2.1.inv)
        intro _ p3 hq3
        rw [wp_bind, wp_pure]
        exact again _ p3 (hq2.1.trans hq3.1) (fun hne => absurd hne (ne_false_of_err hq3.2))
      · rw [wp_bind, wp_pure]
        apply again _ p2 hq2.1
        intro hne
        obtain ⟨sk, hs, hl⟩ := hq2.2 hne
        exact ⟨sk, ratoms rhs, hs, rfl, hl⟩
    · rename_i hnone
      exfalso
      unfold isInfix at hinf
      rw [hprev] at hnone
      exact hinf hnone
  · rw [wp_pure]
    exact ⟨GM.refl hi, fun _ => ⟨[], [], rfl, by simp, Leaves.nil p p rfl⟩⟩

theorem atom_leaf (t : Token) (p p1 : PState) (a : RAtom) (hat : isAtomB t.typ = true)
    (h : atomE t.typ t.val p.E = (a, p1.E)) : Leaves [t] p [a] p1 := by
  unfold Leaves
  rw [atomsOf_cons_yes _ _ hat]
  simp only [atomsOf_nil, atomsE, h]

theorem prefixRule_l_step (f : Nat)
    (ihPP : ∀ prec p, 1 ≤ prec → GInv p → wp (parsePrecedence prec f) (PPpostL p) p)
    (rule : Prefix) (ca : Bool) (p : PState) (hi : GInv p) (hrule : (getRule p.prev.typ).pre = some rule) :
    wp (prefixRule rule ca (f+1)) (PRpostL p) p := by
  have hcases := pre_cases _ _ hrule
  -- a literal or a name by itself: nothing more is consumed
  have atomic : ∀ (e : Expr) (p1 : PState) (a : RAtom), isAtomB p.prev.typ = true → ratoms e = [a] →
      atomE p.prev.typ p.prev.val p.E = (a, p1.E) → GM p p1 → p1.cur = p.cur → p1.rest = p.rest →
      PRpostL p e p1 := by
    intro e p1 a hat hra hE hg hc hr
    refine ⟨hg, fun _ => ⟨[], by unfold Skips; rw [hc, hr]; rfl, ?_⟩⟩
    rw [hra]
    exact atom_leaf p.prev p p1 a hat hE
  have failed : ∀ (e : Expr) (p1 : PState), GM p p1 → p1.hadError = true → PRpostL p e p1 :=
    fun e p1 hg he => ⟨hg, fun hne => absurd hne (ne_false_of_err he)⟩
  -- a prefix operator or a parenthesis: the token itself is no operand
  have wrapped : isAtomB p.prev.typ = false → ∀ (e e' : Expr) (p1 : PState), ratoms e' = ratoms e → PPpostL p e p1 →
      PRpostL p e' p1 := by
    intro hna e e' p1 hra hq
    refine ⟨hq.1, fun hne => ?_⟩
    obtain ⟨sk, hs, hl⟩ := hq.2 hne
    exact ⟨sk, hs, by rw [hra]; exact Leaves.skip hna rfl hl⟩
  unfold prefixRule
  rw [wp_bind, wp_get]
  cases rule with
  | parens =>
    have htyp : p.prev.typ = .LPAREN := by
      rcases hcases with h | h | h | h | h | h | h | h | h <;> first | exact h.2 | (cases h.1)
    simp only
    rw [wp_bind]
    apply wp_mono (ihPP _ p (by decide) hi)
    intro e p1 hq1
    rw [wp_bind]
    apply wp_mono (wp_and (consume_cons .RPAREN _ (by decide) p1 hq1.1.inv) (wp_epf (consume_ep _ _) p1))
    intro _ p2 hq2
    obtain ⟨hq2, hE2⟩ := hq2
    rw [wp_pure]
    refine ⟨hq1.1.trans hq2.1, fun hne => ?_⟩
    obtain ⟨ht, _, hs2⟩ := hq2.2 hne.1
    obtain ⟨sk1, hs1, hl1⟩ := hq1.2 (hq2.1.ne hne)
    refine ⟨sk1 ++ [p1.cur], hs1.trans hs2, ?_⟩
    have hna : isAtomB p.prev.typ = false := by rw [htyp]; rfl
    have hnr : isAtomB p1.cur.typ = false := by rw [ht]; rfl
    have h2 : Leaves [p1.cur] p1 [] p2 := Leaves.skip hnr rfl (Leaves.nil p1 p2 hE2)
    have := hl1.trans h2
    simp only [List.append_nil] at this
    exact Leaves.skip hna rfl this
  | unary =>
    have hna : isAtomB p.prev.typ = false := by
      rcases hcases with h | h | h | h | h | h | h | h | h <;> first | (cases h.1; done) | skip
      rcases h.2 with h | h <;> rw [h] <;> rfl
    simp only
    rw [wp_bind]
    apply wp_mono (ihPP _ p (by decide) hi)
    intro e p1 hq1
    rw [wp_bind, wp_get, wp_pure]
    exact wrapped hna e _ p1 rfl hq1
  | boolNot =>
    have hna : isAtomB p.prev.typ = false := by
      rcases hcases with h | h | h | h | h | h | h | h | h <;> first | (cases h.1; done) | skip
      rw [h.2]; rfl
    simp only
    rw [wp_bind]
    apply wp_mono (ihPP _ p (by decide) hi)
    intro e p1 hq1
    rw [wp_bind, wp_get, wp_pure]
    exact wrapped hna e _ p1 rfl hq1
  | intLit =>
    have htyp : p.prev.typ = .INT := by
      rcases hcases with h | h | h | h | h | h | h | h | h <;> first | (cases h.1; done) | skip
      exact h.2
    have hat : isAtomB p.prev.typ = true := by rw [htyp]; rfl
    simp only
    split
    · rw [wp_bind]
      apply wp_mono (error_wp _ p hi)
      intro _ p1 hq1
      rw [wp_pure]; exact failed _ p1 hq1.1 hq1.2
    · rename_i h0
      rw [wp_pure]
      exact atomic _ p (.lit .zero) hat rfl (by rw [htyp]; simp only [atomE, h0]) (GM.refl hi) rfl rfl
    · rename_i h1
      rw [wp_pure]
      exact atomic _ p (.lit .one) hat rfl (by rw [htyp]; simp only [atomE, h1]) (GM.refl hi) rfl rfl
    · rename_i n hn0 hn1 hn
      rw [wp_bind]
      apply wp_run
      rw [wp_pure]
      obtain ⟨e1, e2⟩ := makeConst_E (.int (Int64.ofNat n)) p
      have htf := (makeConst_tf (.int (Int64.ofNat n))).h p
      refine atomic _ _ (.const (makeConst (.int (Int64.ofNat n)) p).1) hat rfl ?_ ((makeConst_gr _).h p hi) htf.1 htf.2.1
      rw [htyp]
      simp only [atomE, hn]
      rw [e1, e2]
  | floatLit =>
    have htyp : p.prev.typ = .FLOAT := by
      rcases hcases with h | h | h | h | h | h | h | h | h <;> first | (cases h.1; done) | skip
      exact h.2
    have hat : isAtomB p.prev.typ = true := by rw [htyp]; rfl
    simp only
    split
    · rw [wp_bind]
      apply wp_mono (error_wp _ p hi)
      intro _ p1 hq1
      rw [wp_pure]; exact failed _ p1 hq1.1 hq1.2
    · rename_i b hb
      rw [wp_bind]
      apply wp_run
      rw [wp_pure]
      obtain ⟨e1, e2⟩ := makeConst_E (.float b) p
      have htf := (makeConst_tf (.float b)).h p
      refine atomic _ _ (.const (makeConst (.float b) p).1) hat rfl ?_ ((makeConst_gr _).h p hi) htf.1 htf.2.1
      rw [htyp]
      simp only [atomE, hb]
      rw [e1, e2]
  | stringLit =>
    have htyp : p.prev.typ = .STR := by
      rcases hcases with h | h | h | h | h | h | h | h | h <;> first | (cases h.1; done) | skip
      exact h.2
    have hat : isAtomB p.prev.typ = true := by rw [htyp]; rfl
    simp only
    split
    · rw [wp_bind]
      apply wp_mono (error_wp _ p hi)
      intro _ p1 hq1
      rw [wp_pure]; exact failed _ p1 hq1.1 hq1.2
    · rename_i x hx
      rw [wp_bind]
      apply wp_run
      rw [wp_pure]
      obtain ⟨e1, e2⟩ := makeConst_E (.str x) p
      have htf := (makeConst_tf (.str x)).h p
      refine atomic _ _ (.const (makeConst (.str x) p).1) hat rfl ?_ ((makeConst_gr _).h p hi) htf.1 htf.2.1
      rw [htyp]
      simp only [atomE, hx]
      rw [e1, e2]
  | boolLit =>
    have htyp : p.prev.typ = .TRUE ∨ p.prev.typ = .FALSE := by
      rcases hcases with h | h | h | h | h | h | h | h | h <;> first | (cases h.1; done) | skip
      exact h.2
    simp only; rw [wp_pure]
    rcases htyp with h | h
    · exact atomic _ p (.lit .tru) (by rw [h]; rfl) (by simp [ratoms, h]) (by rw [h]; rfl) (GM.refl hi) rfl rfl
    · exact atomic _ p (.lit .fls) (by rw [h]; rfl) (by simp [ratoms, h]) (by rw [h]; rfl) (GM.refl hi) rfl rfl
  | nilLit =>
    have htyp : p.prev.typ = .NIL := by
      rcases hcases with h | h | h | h | h | h | h | h | h <;> first | (cases h.1; done) | skip
      exact h.2
    simp only; rw [wp_pure]
    exact atomic _ p (.lit .nil) (by rw [htyp]; rfl) rfl (by rw [htyp]; rfl) (GM.refl hi) rfl rfl
  | identRef =>
    have htyp : p.prev.typ = .IDENT := by
      rcases hcases with h | h | h | h | h | h | h | h | h <;> first | (cases h.1; done) | skip
      exact h.2
    have hat : isAtomB p.prev.typ = true := by rw [htyp]; rfl
    simp only
    rw [wp_bind, wp_get]
    -- after the name has been resolved to `a` (state `p1`, nothing consumed): a read, or `= e`
    have assign : ∀ (mk : Expr → Nat → Expr) (alt : Expr) (p1 : PState) (a : RAtom),
        (∀ e n, ratoms (mk e n) = a :: ratoms e) → ratoms alt = [a] →
        atomE p.prev.typ p.prev.val p.E = (a, p1.E) → GM p p1 → p1.cur = p.cur → p1.rest = p.rest →
        wp (do
          if ca = true then
            if (← «match» .EQ) = true then
              let e ← parsePrecedence precAssign f
              return mk e (← get).prev.pos
          return alt) (PRpostL p) p1 := by
      intro mk alt p1 a hmk halt hE hg1 hc1 hr1
      split
      · rw [wp_bind]
        apply wp_mono (wp_and (match_cons .EQ (by decide) p1 hg1.inv) (wp_epf (match_ep _) p1))
        intro b p2 hq2
        obtain ⟨⟨hg2, hf2, ht2⟩, hE2⟩ := hq2
        split
        · rename_i hb
          obtain ⟨heq, _, hs2⟩ := ht2 hb
          rw [wp_bind]
          apply wp_mono (ihPP _ p2 (by decide) hg2.inv)
          intro e p3 hq3
          rw [wp_bind, wp_get, wp_pure]
          refine ⟨(hg1.trans hg2).trans hq3.1, fun hne => ?_⟩
          obtain ⟨sk3, hs3, hl3⟩ := hq3.2 hne
          have hne2 : NE p2 := hq3.1.ne hne
          have hs12 := (hs2 hne2.1).trans hs3
          refine ⟨[p1.cur] ++ sk3, ?_, ?_⟩
          · unfold Skips at hs12 ⊢; rw [← hc1, ← hr1]; exact hs12
          · rw [hmk]
            have h1 : Leaves [p.prev] p [a] p1 := atom_leaf p.prev p p1 a hat hE
            have hneq : isAtomB p1.cur.typ = false := by rw [heq]; rfl
            have h2 : Leaves ([p1.cur] ++ sk3) p1 (ratoms e) p3 := Leaves.skip hneq hE2 hl3
            exact h1.trans h2
        · rename_i hb
          obtain ⟨rfl, _⟩ := hf2 (by simpa using hb)
          rw [wp_pure]
          exact atomic alt p2 a hat halt hE hg1 hc1 hr1
      · rw [wp_pure]
        exact atomic alt p1 a hat halt hE hg1 hc1 hr1
    split
    · rename_i slot hslot
      refine assign _ _ p (.loc slot) (fun _ _ => rfl) rfl ?_ (GM.refl hi) rfl rfl
      rw [htyp]
      have : p.E.locals = p.locals := rfl
      simp only [atomE, this, hslot]
    · rename_i hnone
      split
      · rw [wp_bind]
        apply wp_mono (error_wp _ p hi)
        intro _ p1 hq1
        rw [wp_pure]; exact failed _ p1 hq1.1 hq1.2
      · rw [wp_bind]
        apply wp_run
        obtain ⟨e1, e2⟩ := identConst_E p.prev.val p
        have htf := (identConst_tf p.prev.val).h p
        refine assign _ _ _ (.fld (identConst p.prev.val p).1) (fun _ _ => rfl) rfl ?_ ((identConst_gr _).h p hi) htf.1 htf.2.1
        rw [htyp]
        have : p.E.locals = p.locals := rfl
        simp only [atomE, this, hnone]
        rw [e1, e2]

/-- **The operands of the tree are what the operand tokens make of the state**, for
`parsePrecedence`, the Pratt loop and the prefix rules, whenever no error is reported. -/
theorem exprs_leaves : ∀ (f : Nat),
    (∀ prec p, 1 ≤ prec → GInv p → wp (parsePrecedence prec f) (PPpostL p) p)
    ∧ (∀ prec left p, 1 ≤ prec → GInv p → wp (infixLoop prec left f) (ILpostL left p) p)
    ∧ (∀ rule ca p, GInv p → (getRule p.prev.typ).pre = some rule → wp (prefixRule rule ca f) (PRpostL p) p)
  | 0 => by
    have stuck : ∀ (p p1 : PState), GM p p1 → p1.stuck = true → ¬ NE p1 := fun _ p1 _ h hne => by
      rw [hne.2] at h; cases h
    refine ⟨?_, ?_, ?_⟩
    · intro prec p _ hi
      unfold parsePrecedence
      rw [wp_bind]
      have : wp setStuck (fun _ p' => GM p p' ∧ p'.stuck = true) p := ⟨setStuck_gr.h p hi, rfl⟩
      apply wp_mono this
      intro _ p1 h
      rw [wp_pure]
      exact ⟨h.1, fun hne => absurd hne (stuck p p1 h.1 h.2)⟩
    · intro prec left p _ hi
      unfold infixLoop
      rw [wp_bind]
      have : wp setStuck (fun _ p' => GM p p' ∧ p'.stuck = true) p := ⟨setStuck_gr.h p hi, rfl⟩
      apply wp_mono this
      intro _ p1 h
      rw [wp_pure]
      exact ⟨h.1, fun hne => absurd hne (stuck p p1 h.1 h.2)⟩
    · intro rule ca p hi _
      unfold prefixRule
      rw [wp_bind]
      have : wp setStuck (fun _ p' => GM p p' ∧ p'.stuck = true) p := ⟨setStuck_gr.h p hi, rfl⟩
      apply wp_mono this
      intro _ p1 h
      rw [wp_pure]
      exact ⟨h.1, fun hne => absurd hne (stuck p p1 h.1 h.2)⟩
  | f+1 => by
    obtain ⟨ih1, ih2, ih3⟩ := exprs_leaves f
    exact ⟨fun prec p hp hi => parsePrecedence_l_step f ih2 ih3 prec p hp hi,
           fun prec left p hp hi => infixLoop_l_step f ih1 ih2 prec left p hp hi,
           fun rule ca p hi hr => prefixRule_l_step f ih1 rule ca p hi hr⟩

theorem expr_leaves (f : Nat) (p : PState) (hi : GInv p) : wp (expr f) (PPpostL p) p := by
  unfold expr; exact (exprs_leaves f).1 _ p (by decide) hi

/-! ## a tree is its shape and its operands -/

/-- the tree without its positions -/
def stripE : Expr → Expr
  | .lit l _ => .lit l 0
  | .const i _ => .const i 0
  | .getLocal s _ => .getLocal s 0
  | .getField i _ => .getField i 0
  | .setLocal s e _ => .setLocal s (stripE e) 0
  | .setField i e _ => .setField i (stripE e) 0
  | .un op e _ => .un op (stripE e) 0
  | .bin op a b _ => .bin op (stripE a) (stripE b) 0
  | .and a b _ => .and (stripE a) (stripE b) 0
  | .or a b _ => .or (stripE a) (stripE b) 0
  | .bad => .bad

/-- how many operands a shape has -/
def Sh.width : Sh → Nat
  | .atom => 1
  | .un _ a => a.width
  | .bin _ a b => a.width + b.width
  | .asg a => 1 + a.width
  | .bad => 0

theorem ratoms_length (e : Expr) : (ratoms e).length = (shape e).width := by
  induction e with
  | lit | const | getLocal | getField => rfl
  | setLocal s e _ ih => simp [ratoms, shape, Sh.width, ih]; omega
  | setField i e _ ih => simp [ratoms, shape, Sh.width, ih]; omega
  | un op e _ ih => simpa [ratoms, shape, Sh.width] using ih
  | bin op a b _ iha ihb => simp [ratoms, shape, Sh.width, iha, ihb]
  | and a b _ iha ihb => simp [ratoms, shape, Sh.width, iha, ihb]
  | or a b _ iha ihb => simp [ratoms, shape, Sh.width, iha, ihb]
  | bad => rfl

theorem tokOfUn_inj (a b : UnOp) (h : tokOfUn a = tokOfUn b) : a = b := by
  cases a <;> cases b <;> simp [tokOfUn] at h <;> rfl
theorem tokOfBin_inj (a b : BinOp) (h : tokOfBin a = tokOfBin b) : a = b := by
  cases a <;> cases b <;> simp [tokOfBin] at h <;> rfl
theorem tokOfBin_not_logic (a : BinOp) : tokOfBin a ≠ .AND ∧ tokOfBin a ≠ .OR := by
  cases a <;> simp [tokOfBin]

/-- **Two trees of the same shape with the same operands are the same tree**, positions aside. -/
theorem strip_eq_of_shape_ratoms : ∀ (a b : Expr), shape a = shape b → ratoms a = ratoms b → stripE a = stripE b := by
  intro a
  induction a with
  | lit l _ =>
    intro b hs hr
    cases b <;> simp [shape] at hs <;> simp [ratoms] at hr <;> simp [stripE, hr]
  | const i _ =>
    intro b hs hr
    cases b <;> simp [shape] at hs <;> simp [ratoms] at hr <;> simp [stripE, hr]
  | getLocal s _ =>
    intro b hs hr
    cases b <;> simp [shape] at hs <;> simp [ratoms] at hr <;> simp [stripE, hr]
  | getField i _ =>
    intro b hs hr
    cases b <;> simp [shape] at hs <;> simp [ratoms] at hr <;> simp [stripE, hr]
  | setLocal s e _ ih =>
    intro b hs hr
    cases b <;> simp [shape] at hs <;> simp [ratoms] at hr
    · simp [stripE, hr.1, ih _ hs hr.2]
  | setField i e _ ih =>
    intro b hs hr
    cases b <;> simp [shape] at hs <;> simp [ratoms] at hr
    · simp [stripE, hr.1, ih _ hs hr.2]
  | un op e _ ih =>
    intro b hs hr
    cases b <;> simp [shape] at hs
    · simp only [ratoms] at hr
      simp [stripE, tokOfUn_inj _ _ hs.1, ih _ hs.2 hr]
  | bin op x y _ ihx ihy =>
    intro b hs hr
    cases b <;> simp [shape] at hs
    · rename_i op' x' y' _
      simp only [ratoms] at hr
      have hl : (ratoms x).length = (ratoms x').length := by rw [ratoms_length, ratoms_length, hs.2.1]
      obtain ⟨h1, h2⟩ := List.append_inj hr hl
      simp [stripE, tokOfBin_inj _ _ hs.1, ihx _ hs.2.1 h1, ihy _ hs.2.2 h2]
    · exact absurd hs.1 (tokOfBin_not_logic op).1
    · exact absurd hs.1 (tokOfBin_not_logic op).2
  | and x y _ ihx ihy =>
    intro b hs hr
    cases b <;> simp [shape] at hs
    · rename_i op' _ _ _
      exact absurd hs.1.symm (tokOfBin_not_logic op').1
    · rename_i x' y' _
      simp only [ratoms] at hr
      have hl : (ratoms x).length = (ratoms x').length := by rw [ratoms_length, ratoms_length, hs.1]
      obtain ⟨h1, h2⟩ := List.append_inj hr hl
      simp [stripE, ihx _ hs.1 h1, ihy _ hs.2 h2]
  | or x y _ ihx ihy =>
    intro b hs hr
    cases b <;> simp [shape] at hs
    · rename_i op' _ _ _
      exact absurd hs.1.symm (tokOfBin_not_logic op').2
    · rename_i x' y' _
      simp only [ratoms] at hr
      have hl : (ratoms x).length = (ratoms x').length := by rw [ratoms_length, ratoms_length, hs.1]
      obtain ⟨h1, h2⟩ := List.append_inj hr hl
      simp [stripE, ihx _ hs.1 h1, ihy _ hs.2 h2]
  | bad =>
    intro b hs hr
    cases b <;> simp [shape] at hs
    rfl

end Bclv
