import Bclv.Proofs.ParserScoped7
namespace Bclv

theorem takeWhile_news {α} (P : α → Bool) : ∀ (news rest : List α), (∀ x ∈ news, P x = true) → (∀ y ∈ rest, P y = false) →
    (news ++ rest).takeWhile P = news
  | [], rest, _, hr => by
    cases rest with
    | nil => rfl
    | cons y ys => simp [List.takeWhile, hr y (by simp)]
  | x :: xs, rest, hn, hr => by
    simp only [List.cons_append, List.takeWhile, hn x (by simp)]
    rw [takeWhile_news P xs rest (fun a ha => hn a (by simp [ha])) hr]

theorem mem_tail_drop {α} : ∀ (n : Nat) (l : List α) (x : α), x ∈ (l.drop n).tail → x ∈ l.tail
  | 0, l, x, h => by simpa using h
  | n+1, [], x, h => by simp at h
  | n+1, y :: ys, x, h => by
    simp only [List.drop_succ_cons] at h
    simp only [List.tail_cons]
    have := mem_tail_drop n ys x h
    exact List.mem_of_mem_tail this

theorem endScope_eq (q : PState) : endScope q =
    ((q.locals.takeWhile (fun l => decide (l.depth > ((q.depth - 1 : Nat) : Int)))).length,
     { q with depth := q.depth - 1,
              locals := q.locals.drop (q.locals.takeWhile (fun l => decide (l.depth > ((q.depth - 1 : Nat) : Int)))).length }) := rfl

theorem beginScope_eq (q : PState) : beginScope q = ((), { q with depth := q.depth + 1, depthMax := max q.depthMax (q.depth + 1) }) := rfl

theorem blockStmt_step (f : Nat) (p : PState) (hpi : PI p) (hinit : AllInit p)
    (ihl : ∀ p, PI p → AllInit p → wp (blockLoop f) (QSs p) p) :
    wp (blockStmt (f+1)) (QS p) p := by
  unfold blockStmt
  rw [wp_bind]
  apply wp_pres (consume_presR _ _) hpi (Ext.refl p)
  intro _ p1 hpi1 he1 _
  rw [wp_bind, wp_get]
  split
  · rename_i hpm; rw [wp_pure]; exact QS_of_pm _ hpi1 he1 hinit hpm
  · rw [wp_bind, wp_get]
    -- everything from the opening brace on, for whatever block name was read
    have tail : ∀ (blockName : Bytes) (p2 : PState), PI p2 → Ext p p2 →
        wp (do
          consume .LCURLY (str "expected '{'")
          let ti ← identConst p1.prev.val
          let ni ← makeConst (.str blockName)
          let openPos := (← get).prev.pos
          beginScope
          let body ← blockLoop f
          if !(← get).hadLexFail then consume .RCURLY (str "expected '}'")
          let closePos := (← get).prev.pos
          let npop ← endScope
          return Stmt.block ti ni openPos body npop closePos) (QS p) p2 := by
      intro blockName p2 hpi2 he2
      rw [wp_bind]
      apply wp_pres (consume_presR _ _) hpi2 he2
      intro _ p3 hpi3 he3 _
      rw [wp_bind]
      apply wp_spec (identConst_spec _) hpi3 he3
      intro ti p4 hpi4 he4 _ hti
      rw [wp_bind]
      apply wp_spec (makeConst_spec _) hpi4 he4
      intro ni p5 hpi5 he5 he45 hni
      rw [wp_bind, wp_get, wp_bind]
      -- enter the scope
      show wp _ _ (beginScope p5).2
      rw [beginScope_eq]
      simp only
      generalize hq0 : ({ p5 with depth := p5.depth + 1, depthMax := max p5.depthMax (p5.depth + 1) } : PState) = q0
      have hq0l : q0.locals = p5.locals := by rw [← hq0]
      have hq0d : q0.depth = p5.depth + 1 := by rw [← hq0]
      have hq0c : q0.consts = p5.consts := by rw [← hq0]
      have hq0e : q0.hadError = p5.hadError := by rw [← hq0]
      have hq0s : q0.stuck = p5.stuck := by rw [← hq0]
      have hpiq0 : PI q0 := by
        rw [← hq0]
        refine ⟨hpi5.refs, hpi5.pm, hpi5.tailInit, ?_, hpi5.nloc⟩
        intro h1 h2 l hl
        have := hpi5.depths h1 h2 l hl
        simp only; omega
      have hinitq0 : AllInit q0 := by
        intro l hl; rw [hq0l, he5.locals] at hl; exact hinit l hl
      rw [wp_bind]
      apply wp_mono (ihl q0 hpiq0 hinitq0)
      intro body q1 hq1
      rw [wp_bind, wp_get]
      have fin : ∀ q2, PI q2 → Ext q1 q2 →
          wp (do
            let closePos := (← get).prev.pos
            let npop ← endScope
            return Stmt.block ti ni p5.prev.pos body npop closePos) (QS p) q2 := by
        intro q2 hpi2' he12
        rw [wp_bind, wp_get, wp_bind]
        show wp _ _ (endScope q2).2
        rw [endScope_eq]
        simp only
        rw [wp_pure]
        -- bookkeeping
        have hd2 : q2.depth = p.depth + 1 := by rw [he12.depth, hq1.2.1.depth, hq0d, he5.depth]
        have hdm : q2.depth - 1 = p.depth := by omega
        have hc02 : p.consts.toList <+: q2.consts.toList :=
          (he5.consts.trans (by rw [hq0c]; exact List.prefix_refl _)).trans (hq1.2.1.consts.trans he12.consts)
        have hc52 : p5.consts.toList <+: q2.consts.toList := by
          have : q0.consts.toList <+: q2.consts.toList := hq1.2.1.consts.trans he12.consts
          rwa [hq0c] at this
        -- what the locals look like when nothing has failed
        have hloc : NE q2 → ∃ news, q2.locals = news ++ p.locals ∧ (∀ l ∈ news, l.depth = ((p.depth + 1 : Nat) : Int))
            ∧ (∀ l ∈ p.locals, l.depth ≤ (p.depth : Int)) := by
          intro hne
          have hne1 : NE q1 := NE.of_ext he12 hne
          have hne0 : NE q0 := hq1.2.1.ne hne1
          have hne5 : NE p5 := ⟨by rw [← hq0e]; exact hne0.1, by rw [← hq0s]; exact hne0.2⟩
          have hnep : NE p := NE.of_ext he5 hne5
          obtain ⟨news, hl, hdn⟩ := hq1.2.1.locals hne1
          refine ⟨news, by rw [he12.locals, hl, hq0l, he5.locals], ?_, hpi.depths hnep.1 hnep.2⟩
          intro l hl'
          rw [hdn l hl', hq0d, he5.depth]
        have hn : NE q2 → (q2.locals.takeWhile (fun l => decide (l.depth > ((q2.depth - 1 : Nat) : Int)))).length
            = q2.locals.length - p.locals.length
            ∧ q2.locals.drop (q2.locals.takeWhile (fun l => decide (l.depth > ((q2.depth - 1 : Nat) : Int)))).length = p.locals := by
          intro hne
          obtain ⟨news, hl, hdn, hdp⟩ := hloc hne
          rw [hdm, hl]
          have htw := takeWhile_news (fun l : Local => decide (l.depth > (p.depth : Int))) news p.locals
            (by intro x hx; simp only [decide_eq_true_eq]; rw [hdn x hx]; push_cast; omega)
            (by intro y hy; simp only [decide_eq_false_iff_not]; have := hdp y hy; omega)
          rw [htw]
          simp
        refine ⟨⟨hpi2'.refs, hpi2'.pm, ?_, ?_, ?_⟩, ⟨?_, hc02, ?_, ?_, ?_⟩, ?_, ?_⟩
        · intro x hx; exact hpi2'.tailInit x (mem_tail_drop _ _ x hx)
        · intro h1 h2 x hx
          have hne : NE q2 := ⟨h1, h2⟩
          simp only at hx ⊢
          rw [(hn hne).2] at hx
          rw [hdm]
          obtain ⟨_, _, _, hdp⟩ := hloc hne
          exact hdp x hx
        · simp only [List.length_drop]; have := hpi2'.nloc; omega
        · simp only; exact hdm
        · intro h; exact he12.err (hq1.2.1.err (by rw [hq0e]; exact he5.err h))
        · intro h; exact he12.stuck (hq1.2.1.stuck (by rw [hq0s]; exact he5.stuck h))
        · intro hne
          have hne2 : NE q2 := hne
          exact ⟨[], by simp only [List.nil_append]; exact (hn hne2).2, by simp⟩
        · intro x hx
          have hx2 : x ∈ q2.locals := List.mem_of_mem_drop hx
          rw [he12.locals] at hx2
          exact hq1.2.2.1 x hx2
        · intro hne
          have hne2 : NE q2 := hne
          have hne1 : NE q1 := NE.of_ext he12 hne2
          obtain ⟨hn1, hn2⟩ := hn hne2
          obtain ⟨news, hl, _, _⟩ := hloc hne2
          simp only [ScS]
          refine ⟨isStrAt_mono ((he45.consts).trans hc52) ⟨_, hti⟩, isStrAt_mono hc52 ⟨_, hni⟩, by rw [hn2], ?_⟩
          have hbody := hq1.2.2.2 hne1
          have hB : decide (q0.depth > 0) = true := by rw [hq0d]; simp
          rw [hB, hq0l, he5.locals] at hbody
          have hlen : q1.locals.length = p.locals.length + (q2.locals.length - p.locals.length) := by
            rw [← he12.locals, hl]; simp; omega
          rw [hn1, ← hlen]
          exact ScSs_mono he12.consts _ _ _ _ hbody
      split
      · rw [wp_bind]
        apply wp_pres (consume_presR _ _) hq1.1 (Ext.refl q1)
        intro _ q2 hpi2' he12 _
        exact fin q2 hpi2' he12
      · exact fin q1 hq1.1 (Ext.refl q1)
    -- the optional block name
    rw [wp_bind]
    apply wp_pres (match_presR _) hpi1 he1
    intro b p2 hpi2 he2 _
    dsimp only
    split
    · rw [wp_bind, wp_get]
      split
      · exact tail _ p2 hpi2 he2
      · rw [wp_bind]
        apply wp_pres (error_presR _) hpi2 he2
        intro _ p3 hpi3 he3 _
        exact tail _ p3 hpi3 he3
    · exact tail _ p2 hpi2 he2

end Bclv
