import Bclv.Proofs.ParserErase3
namespace Bclv

/-! ## the emitted bytes do not depend on positions -/

theorem fst_atPos (pos : Nat) (bs : Bytes) : (atPos pos bs).map Prod.fst = bs := by
  simp [atPos, List.map_map, Function.comp_def]

theorem fst_popN (n pos : Nat) : (popNCode n pos).map Prod.fst = (popNCode n 0).map Prod.fst := by
  unfold popNCode
  split
  · rfl
  · split <;> simp [opAt, opArg, fst_atPos]

theorem code_erE : ∀ (e : Expr), (compileE e).map Prod.fst = (compileE (erE e)).map Prod.fst := by
  intro e
  induction e with
  | lit l p => simp [compileE, erE, opAt]
  | const i p => simp [compileE, erE, opArg, fst_atPos]
  | getLocal s p => simp [compileE, erE, opArg, fst_atPos]
  | getField i p => simp [compileE, erE, opArg, fst_atPos]
  | setLocal s e p ih => simp [compileE, erE, opArg, fst_atPos, ih]
  | setField i e p ih => simp [compileE, erE, opArg, fst_atPos, ih]
  | un op e p ih => simp [compileE, erE, opAt, ih]
  | bin op a b p iha ihb => simp [compileE, erE, iha, ihb, List.map_map, Function.comp_def]
  | and a b p iha ihb => simp [compileE, erE, iha, ihb, jumpAt, opAt, fst_atPos, sizeE_erE]
  | or a b p iha ihb => simp [compileE, erE, iha, ihb, jumpAt, opAt, fst_atPos, sizeE_erE]
  | bad => rfl

mutual
theorem code_erS : ∀ (s : Stmt), (compileS s).map Prod.fst = (compileS (erS s)).map Prod.fst
  | .var (some e) _ => by simp only [compileS, erS, Option.map]; exact code_erE e
  | .var none _ => by simp [compileS, erS, opAt]
  | .print e _ => by simp [compileS, erS, opAt, code_erE e]
  | .eval e _ => by simp [compileS, erS, opAt, code_erE e]
  | .block ti ni o body n c => by
    simp only [compileS, erS, List.map_append, fst_atPos, code_erSs body, fst_popN n c]
    simp [opAt]
  | .bind ti opt _ => by simp [compileS, erS, fst_atPos]
  | .bad => rfl
theorem code_erSs : ∀ (ss : Stmts), (compileSs ss).map Prod.fst = (compileSs (erSs ss)).map Prod.fst
  | .nil => rfl
  | .cons s rest => by simp only [compileSs, erSs, List.map_append, code_erS s, code_erSs rest]
end

theorem code_erP (p : Program) : (compileP p).map Prod.fst = (compileP (erP p)).map Prod.fst := by
  simp only [compileP, erP, List.map_append, code_erSs p.body, fst_popN p.npop p.endPos]
  simp [opAt]

/-! ## the parser as a whole -/

/-- **Source positions do not steer the parser.**  Two token lists that agree up to the
recorded offsets (whatever the two line tables are) give the same tree up to positions,
the same constant pool, the same verdict and the same statistics. -/
theorem parse_positions (toks₁ toks₂ : List Token) (lfs₁ lfs₂ : List Nat)
    (h : toks₁.map eT = toks₂.map eT) :
    erP (parseTokens toks₁ lfs₁).prog = erP (parseTokens toks₂ lfs₂).prog ∧
    (parseTokens toks₁ lfs₁).consts = (parseTokens toks₂ lfs₂).consts ∧
    (parseTokens toks₁ lfs₁).ok = (parseTokens toks₂ lfs₂).ok ∧
    (parseTokens toks₁ lfs₁).tokens = (parseTokens toks₂ lfs₂).tokens ∧
    (parseTokens toks₁ lfs₁).localMax = (parseTokens toks₂ lfs₂).localMax ∧
    (parseTokens toks₁ lfs₁).depthMax = (parseTokens toks₂ lfs₂).depthMax := by
  have hrun : ∀ n, HomR erP
      (do advance; let body ← topLoop n; let p ← get
          return ({ body, npop := p.locals.length, endPos := p.prev.pos } : Program))
      (do advance; let body ← topLoop n; let p ← get
          return ({ body, npop := p.locals.length, endPos := p.prev.pos } : Program)) := by
    intro n
    have ht := topLoop_hom n
    apply HomR.bind_id advance_hom
    intro _
    apply HomR.bind ht
    intro b₁ b₂ hb
    apply HomR.get_bind
    intro q₁ q₂ hq
    apply HomR.pure
    simp only [erP, hb, hq.locals]
  have h0 : E ({ rest := toks₁, lfs := lfs₁ } : PState) = E ({ rest := toks₂, lfs := lfs₂ } : PState) := by
    unfold E; simp only [h]
  have hlen : toks₁.length = toks₂.length := by simpa using congrArg List.length h
  obtain ⟨hs, hr⟩ := (hrun (4 * toks₁.length + 16)).h _ _ h0
  have hf := EF.of hs
  unfold parseTokens
  simp only [StateT.run]
  rw [← hlen]
  generalize ((advance >>= fun _ => do
      let body ← topLoop (4 * toks₁.length + 16)
      let p ← get
      pure ({ body := body, npop := p.locals.length, endPos := p.prev.pos } : Program) : PM Program)
      { rest := toks₁, lfs := lfs₁ }) = r₁ at hs hr hf ⊢
  generalize ((advance >>= fun _ => do
      let body ← topLoop (4 * toks₁.length + 16)
      let p ← get
      pure ({ body := body, npop := p.locals.length, endPos := p.prev.pos } : Program) : PM Program)
      { rest := toks₂, lfs := lfs₂ }) = r₂ at hs hr hf ⊢
  obtain ⟨a₁, p₁⟩ := r₁
  obtain ⟨a₂, p₂⟩ := r₂
  exact ⟨hr, by show p₁.consts.toList = p₂.consts.toList; rw [hf.consts],
    by show (!p₁.hadError) = (!p₂.hadError); rw [hf.hadError], hf.tokens, hf.localMax, hf.depthMax⟩

/-- The same at the level of what is emitted: instruction bytes, constants and verdict of
the compiled program depend on the token list only up to the recorded offsets. -/
theorem parse_positions_code (toks₁ toks₂ : List Token) (lfs₁ lfs₂ : List Nat)
    (h : toks₁.map eT = toks₂.map eT) :
    (compileP (parseTokens toks₁ lfs₁).prog).map Prod.fst = (compileP (parseTokens toks₂ lfs₂).prog).map Prod.fst ∧
    (parseTokens toks₁ lfs₁).consts = (parseTokens toks₂ lfs₂).consts ∧
    (parseTokens toks₁ lfs₁).ok = (parseTokens toks₂ lfs₂).ok := by
  obtain ⟨hp, hc, hk, _⟩ := parse_positions toks₁ toks₂ lfs₁ lfs₂ h
  exact ⟨by rw [code_erP, hp, ← code_erP], hc, hk⟩

end Bclv
