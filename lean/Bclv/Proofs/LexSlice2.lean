import Bclv.Proofs.LexSlice1
set_option linter.unusedSectionVars false
set_option linter.unusedVariables false
namespace Bclv
section
variable {σ : Type} (P : LexPrims σ) (hic : ∀ s, P.current (P.ignore s) = [])

macro "glel" : tactic => `(tactic| (
  (try simp only [l_backup, l_unbackup, l_ignore, l_peekR, l_accept, l_acceptRun, l_identLoop, l_quoteLoop, *])
  first
    | exact fun _ h => h
    | exact fun x hx => List.mem_cons_of_mem _ hx))

set_option hygiene false in
macro "tlr" : tactic => `(tactic| first
  | exact TLR.emit P _ l _ (TLR.setS l _ (by glel))
  | exact TLR.fail P hic _ l _ (TLR.setS l _ (by glel))
  | exact TLR.invalid P hic l _ (TLR.setS l _ (by glel))
  | exact TLR.setS l _ (by glel))

include hic

theorem tlr_start (f : Nat) (l : LexSt (σ × CutLog)) : TLR l (lexStep (ghostL P) f .start l).2 := by
  simp only [lexStep]
  rcases h : (ghostL P).next l.s with ⟨r, s⟩
  have hs := l_next P h
  have e1 : (ghostL P).1 l.s = (r, s) := h
  simp only [e1]
  split
  · tlr
  · split
    · rcases h2 : (ghostL P).next s with ⟨r2, s2⟩
      have hs2 := l_next P h2
      have e2 : (ghostL P).1 s = (r2, s2) := h2
      simp only [e2]
      repeat' split
      all_goals tlr
    · repeat' split
      all_goals tlr

theorem tlr_space (f : Nat) (l : LexSt (σ × CutLog)) : TLR l (lexStep (ghostL P) f .space l).2 := by
  simp only [lexStep]
  have := l_acceptRun P isSpaceR f false l.s
  rcases h : acceptRun (ghostL P) isSpaceR f false l.s with ⟨a, s⟩
  rw [h] at this
  dsimp only at this ⊢
  exact TLR.setS l _ (by rw [l_ignore, this]; exact fun x hx => List.mem_cons_of_mem _ hx)

theorem tlr_comment (f : Nat) (l : LexSt (σ × CutLog)) : TLR l (lexStep (ghostL P) f .comment l).2 := by
  simp only [lexStep]
  exact TLR.setS l _ (l_commentLoop P f l.s)

theorem tlr_ident (f : Nat) (l : LexSt (σ × CutLog)) : TLR l (lexStep (ghostL P) f .ident l).2 := by
  simp only [lexStep]
  have h1 := l_identLoop P f l.s
  have h2 := l_peekR P (identLoop (ghostL P) f l.s)
  rcases h : peekR (ghostL P) (identLoop (ghostL P) f l.s) with ⟨r, s⟩
  rw [h] at h2
  dsimp only at h2 ⊢
  repeat' split
  all_goals tlr

theorem tlr_hex (f : Nat) (l : LexSt (σ × CutLog)) : TLR l (lexStep (ghostL P) f .hex l).2 := by
  simp only [lexStep]
  have h1 := l_acceptRun P isHexDigitR f false l.s
  rcases h : acceptRun (ghostL P) isHexDigitR f false l.s with ⟨a, s⟩
  rw [h] at h1
  have h2 := l_peekR P s
  rcases hh : peekR (ghostL P) s with ⟨r, s'⟩
  rw [hh] at h2
  dsimp only at h1 h2 ⊢
  repeat' split
  all_goals tlr

theorem tlr_quote (f : Nat) (l : LexSt (σ × CutLog)) : TLR l (lexStep (ghostL P) f .quote l).2 := by
  simp only [lexStep]
  have h1 := l_quoteLoop P f l.s
  rcases h : quoteLoop (ghostL P) f l.s with ⟨a, s⟩
  rw [h] at h1
  have h2 := l_peekR P s
  rcases hh : peekR (ghostL P) s with ⟨r, s'⟩
  rw [hh] at h2
  dsimp only at h1 h2 ⊢
  repeat' split
  all_goals tlr
end
end Bclv
namespace Bclv
section
variable {σ : Type} (P : LexPrims σ) (hic : ∀ s, P.current (P.ignore s) = [])
include hic

theorem tlr_number (f : Nat) (l : LexSt (σ × CutLog)) : TLR l (lexStep (ghostL P) f .number l).2 := by
  simp only [lexStep]
  have h0 := l_backup P l.s
  have h1 := l_accept P (· == 48) ((ghostL P).backup l.s)
  rcases h : accept (ghostL P) (· == 48) ((ghostL P).backup l.s) with ⟨z, s1⟩
  rw [h] at h1
  dsimp only at h1 ⊢
  have hx : ((if z = true then accept (ghostL P) (fun r => r == 120 || r == 88) s1 else (false, s1)) : Bool × σ × CutLog).2.2 = s1.2 := by
    split
    · exact l_accept P _ s1
    · rfl
  rcases hh : (if z = true then accept (ghostL P) (fun r => r == 120 || r == 88) s1 else (false, s1) : Bool × σ × CutLog) with ⟨x, s2⟩
  rw [hh] at hx
  dsimp only at hx ⊢
  split
  · tlr
  · have h3 := l_acceptRun P isDigitR f false s2
    rcases h3' : acceptRun (ghostL P) isDigitR f false s2 with ⟨a, s3⟩
    rw [h3'] at h3
    have h4 := l_peekR P s3
    rcases h4' : peekR (ghostL P) s3 with ⟨r, s4⟩
    rw [h4'] at h4
    dsimp only at h3 h4 ⊢
    repeat' split
    all_goals tlr

theorem tlr_float (f : Nat) (l : LexSt (σ × CutLog)) : TLR l (lexStep (ghostL P) f .float l).2 := by
  simp only [lexStep]
  have h1 := l_accept P (· == 46) l.s
  rcases h : accept (ghostL P) (· == 46) l.s with ⟨dot, s1⟩
  rw [h] at h1
  dsimp only at h1 ⊢
  have hx : ((if dot = true then acceptRun (ghostL P) isDigitR f false s1 else (true, s1)) : Bool × σ × CutLog).2.2 = s1.2 := by
    split
    · exact l_acceptRun P _ _ _ s1
    · rfl
  rcases hh : (if dot = true then acceptRun (ghostL P) isDigitR f false s1 else (true, s1) : Bool × σ × CutLog) with ⟨ok1, s2⟩
  rw [hh] at hx
  dsimp only at hx ⊢
  split
  · tlr
  · have h3 := l_accept P (fun r => r == 101 || r == 69) s2
    rcases h3' : accept (ghostL P) (fun r => r == 101 || r == 69) s2 with ⟨e, s3⟩
    rw [h3'] at h3
    dsimp only at h3 ⊢
    have hy : ((if e = true then
        (match accept (ghostL P) (fun r => r == 43 || r == 45) s3 with
          | (_, s) => acceptRun (ghostL P) isDigitR f false s)
        else (true, s3)) : Bool × σ × CutLog).2.2 = s3.2 := by
      split
      · have := l_accept P (fun r => r == 43 || r == 45) s3
        rcases hq : accept (ghostL P) (fun r => r == 43 || r == 45) s3 with ⟨q, s'⟩
        rw [hq] at this
        dsimp only at this ⊢
        rw [l_acceptRun]; exact this
      · rfl
    rcases hh2 : (if e = true then
        (match accept (ghostL P) (fun r => r == 43 || r == 45) s3 with
          | (_, s) => acceptRun (ghostL P) isDigitR f false s)
        else (true, s3) : Bool × σ × CutLog) with ⟨ok2, s4⟩
    rw [hh2] at hy
    dsimp only at hy ⊢
    split
    · tlr
    · have h5 := l_peekR P s4
      rcases h5' : peekR (ghostL P) s4 with ⟨r, s5⟩
      rw [h5'] at h5
      dsimp only at h5 ⊢
      repeat' split
      all_goals tlr
end
end Bclv
namespace Bclv
section
variable {σ : Type} (P : LexPrims σ) (hic : ∀ s, P.current (P.ignore s) = [])
include hic

theorem lexStep_tlr (f : Nat) (st : LState) (l : LexSt (σ × CutLog)) : TLR l (lexStep (ghostL P) f st l).2 := by
  cases st with
  | done => simp only [lexStep]; exact TLR.refl l
  | start => exact tlr_start P hic f l
  | space => exact tlr_space P hic f l
  | comment => exact tlr_comment P hic f l
  | ident => exact tlr_ident P hic f l
  | number => exact tlr_number P hic f l
  | hex => exact tlr_hex P hic f l
  | float => exact tlr_float P hic f l
  | quote => exact tlr_quote P hic f l

/-- every token emitted so far has empty text or was cut off at a logged (offset, text) pair -/
def TL (l : LexSt (σ × CutLog)) : Prop := ∀ t ∈ l.toks, t.val = [] ∨ (t.pos, t.val) ∈ l.s.2

omit hic in
theorem TL.step {l l' : LexSt (σ × CutLog)} (h : TL l) (hr : TLR l l') : TL l' := by
  intro t ht
  rcases hr.2 t ht with h1 | h1
  · rcases h t h1 with h2 | h2
    · exact .inl h2
    · exact .inr (hr.1 _ h2)
  · exact h1

theorem lexRun_tl (f : Nat) : ∀ (n : Nat) (st : LState) (l : LexSt (σ × CutLog)), TL l → TL (lexRun (ghostL P) f n st l)
  | 0, _, l, h => by
    unfold lexRun
    intro t ht
    rcases List.mem_cons.mp ht with rfl | ht
    · exact .inl rfl
    · exact h t ht
  | n+1, st, l, h => by
    unfold lexRun
    have hs := TL.step h (lexStep_tlr P hic f st l)
    rcases h1 : lexStep (ghostL P) f st l with ⟨st1, l1⟩
    rw [h1] at hs
    dsimp only at hs ⊢
    cases st1 with
    | done => exact hs
    | start => exact lexRun_tl f n _ l1 hs
    | space => exact lexRun_tl f n _ l1 hs
    | comment => exact lexRun_tl f n _ l1 hs
    | ident => exact lexRun_tl f n _ l1 hs
    | number => exact lexRun_tl f n _ l1 hs
    | hex => exact lexRun_tl f n _ l1 hs
    | float => exact lexRun_tl f n _ l1 hs
    | quote => exact lexRun_tl f n _ l1 hs
end
end Bclv
