import Bclv.Model.Parser
/-!
# Source positions do not steer the parser

`E` forgets every recorded position of a parser state (token offsets, the line table, the
text of the diagnostics).  Two runs of a parser function from states with the same erasure
end in states with the same erasure and return the same result up to positions (`HomR`).
Hence two token lists that differ only in positions give the same tree up to positions, the
same constants and the same verdict.
-/
namespace Bclv

def eT (t : Token) : Token := { t with pos := 0 }
def E (p : PState) : PState :=
  { p with prev := eT p.prev, cur := eT p.cur, rest := p.rest.map eT, log := [], lfs := [] }

/-- what `E p₁ = E p₂` says field by field, oriented as rewrite rules from the first run to the second -/
structure EF (p₁ p₂ : PState) : Prop where
  rest : p₁.rest.map eT = p₂.rest.map eT
  prev : eT p₁.prev = eT p₂.prev
  cur : eT p₁.cur = eT p₂.cur
  prev_typ : p₁.prev.typ = p₂.prev.typ
  prev_val : p₁.prev.val = p₂.prev.val
  prev_err : p₁.prev.err = p₂.prev.err
  cur_typ : p₁.cur.typ = p₂.cur.typ
  cur_val : p₁.cur.val = p₂.cur.val
  cur_err : p₁.cur.err = p₂.cur.err
  hadError : p₁.hadError = p₂.hadError
  hadLexFail : p₁.hadLexFail = p₂.hadLexFail
  panicMode : p₁.panicMode = p₂.panicMode
  identRefs : p₁.identRefs = p₂.identRefs
  consts : p₁.consts = p₂.consts
  locals : p₁.locals = p₂.locals
  depth : p₁.depth = p₂.depth
  tokens : p₁.tokens = p₂.tokens
  localMax : p₁.localMax = p₂.localMax
  depthMax : p₁.depthMax = p₂.depthMax
  stuck : p₁.stuck = p₂.stuck

theorem eT_inj {t₁ t₂ : Token} (h : eT t₁ = eT t₂) : t₁.typ = t₂.typ ∧ t₁.val = t₂.val ∧ t₁.err = t₂.err := by
  have key : ∀ {β : Type} (f : Token → β), f (eT t₁) = f (eT t₂) := fun f => congrArg f h
  exact ⟨key Token.typ, key Token.val, key Token.err⟩

theorem EF.of {p₁ p₂ : PState} (h : E p₁ = E p₂) : EF p₁ p₂ := by
  have key : ∀ {β : Type} (f : PState → β), f (E p₁) = f (E p₂) := fun f => congrArg f h
  have hp : eT p₁.prev = eT p₂.prev := key PState.prev
  have hc : eT p₁.cur = eT p₂.cur := key PState.cur
  exact ⟨key PState.rest, hp, hc, (eT_inj hp).1, (eT_inj hp).2.1, (eT_inj hp).2.2,
    (eT_inj hc).1, (eT_inj hc).2.1, (eT_inj hc).2.2,
    key PState.hadError, key PState.hadLexFail, key PState.panicMode,
    key PState.identRefs, key PState.consts, key PState.locals, key PState.depth,
    key PState.tokens, key PState.localMax, key PState.depthMax, key PState.stuck⟩

theorem EF.to {p₁ p₂ : PState} (h : EF p₁ p₂) : E p₁ = E p₂ := by
  unfold E
  rw [h.rest, h.prev, h.cur, h.hadError, h.hadLexFail, h.panicMode, h.identRefs, h.consts, h.locals, h.depth,
    h.tokens, h.localMax, h.depthMax, h.stuck]

/-- two runs from states with the same erasure: same erasure afterwards, same result up to `e` -/
structure HomR {α : Type} (e : α → α) (m₁ m₂ : PM α) : Prop where
  h : ∀ p₁ p₂, E p₁ = E p₂ → E (m₁ p₁).2 = E (m₂ p₂).2 ∧ e (m₁ p₁).1 = e (m₂ p₂).1

theorem HomR.pure {α} {e : α → α} {a₁ a₂ : α} (h : e a₁ = e a₂) : HomR e (pure a₁ : PM α) (pure a₂) :=
  ⟨fun _ _ hp => ⟨hp, h⟩⟩
theorem HomR.bind {α β} {eA : α → α} {eB : β → β} {m₁ m₂ : PM α} {k₁ k₂ : α → PM β}
    (hm : HomR eA m₁ m₂) (hk : ∀ a₁ a₂, eA a₁ = eA a₂ → HomR eB (k₁ a₁) (k₂ a₂)) : HomR eB (m₁ >>= k₁) (m₂ >>= k₂) :=
  ⟨fun p₁ p₂ hp => (hk _ _ (hm.h p₁ p₂ hp).2).h _ _ (hm.h p₁ p₂ hp).1⟩
theorem HomR.bind_id {α β} {eB : β → β} {m₁ m₂ : PM α} {k₁ k₂ : α → PM β}
    (hm : HomR id m₁ m₂) (hk : ∀ a, HomR eB (k₁ a) (k₂ a)) : HomR eB (m₁ >>= k₁) (m₂ >>= k₂) :=
  HomR.bind hm (fun a₁ a₂ h => by cases (show a₁ = a₂ from h); exact hk a₁)
theorem HomR.get_bind {β} {eB : β → β} {k₁ k₂ : PState → PM β}
    (hk : ∀ q₁ q₂, EF q₁ q₂ → HomR eB (k₁ q₁) (k₂ q₂)) : HomR eB (get >>= k₁) (get >>= k₂) :=
  ⟨fun p₁ p₂ hp => (hk p₁ p₂ (EF.of hp)).h p₁ p₂ hp⟩
theorem HomR.modify {g₁ g₂ : PState → PState} (h : ∀ p₁ p₂, EF p₁ p₂ → E (g₁ p₁) = E (g₂ p₂)) :
    HomR id (modify g₁ : PM Unit) (modify g₂) :=
  ⟨fun p₁ p₂ hp => ⟨h p₁ p₂ (EF.of hp), rfl⟩⟩
theorem HomR.set {s₁ s₂ : PState} (h : E s₁ = E s₂) : HomR id (set s₁ : PM Unit) (set s₂) :=
  ⟨fun _ _ _ => ⟨h, rfl⟩⟩
theorem HomR.ite {α} {e : α → α} {c : Prop} [Decidable c] {x₁ y₁ x₂ y₂ : PM α}
    (hx : HomR e x₁ x₂) (hy : HomR e y₁ y₂) : HomR e (if c then x₁ else y₁) (if c then x₂ else y₂) := by
  split <;> assumption

set_option hygiene false in
/-- rewrite every field of the first state into the field of the second (`hq : EF q₁ q₂`) -/
macro "ef_rw" : tactic => `(tactic| try simp only [hq.prev_typ, hq.prev_val, hq.prev_err, hq.cur_typ, hq.cur_val,
  hq.cur_err, hq.hadError, hq.hadLexFail, hq.panicMode, hq.identRefs, hq.consts, hq.locals, hq.depth,
  hq.tokens, hq.localMax, hq.depthMax, hq.stuck])

set_option hygiene false in
/-- `E (update of q₁) = E (update of q₂)` for the same update (`hq : EF q₁ q₂`) -/
macro "eeq" : tactic => `(tactic| (
  unfold E
  try dsimp only
  try rw [hq.rest]
  try rw [hq.prev]
  try rw [hq.cur]
  try simp only [hq.hadError, hq.hadLexFail, hq.panicMode, hq.identRefs, hq.consts, hq.locals, hq.depth,
    hq.tokens, hq.localMax, hq.depthMax, hq.stuck, hq.prev_typ, hq.cur_typ]))

syntax "homr_known" : tactic
macro_rules | `(tactic| homr_known) => `(tactic| (with_reducible refine HomR.pure ?_); rfl)

set_option hygiene false in
macro "homr" : tactic => `(tactic| repeat' (first
  | assumption
  | homr_known
  | with_reducible apply HomR.ite
  | ((with_reducible apply HomR.get_bind); intro q₁ q₂ hq; ef_rw)
  | with_reducible apply HomR.bind_id
  | intro _
  | dsimp only [id]))

theorem errorAt_hom (t₁ t₂ : Token) (m₁ m₂ : Bytes) : HomR id (errorAt t₁ m₁) (errorAt t₂ m₂) := by
  unfold errorAt
  apply HomR.modify; intro q₁ q₂ hq; eeq
macro_rules | `(tactic| homr_known) => `(tactic| with_reducible exact errorAt_hom _ _ _ _)
theorem errorAtCurrent_hom (m₁ m₂ : Bytes) : HomR id (errorAtCurrent m₁) (errorAtCurrent m₂) := by
  unfold errorAtCurrent; homr
macro_rules | `(tactic| homr_known) => `(tactic| with_reducible exact errorAtCurrent_hom _ _)
theorem error_hom (m₁ m₂ : Bytes) : HomR id (error m₁) (error m₂) := by
  unfold error; homr
macro_rules | `(tactic| homr_known) => `(tactic| with_reducible exact error_hom _ _)

theorem advanceLoop_hom : ∀ (ts₁ ts₂ : List Token), ts₁.map eT = ts₂.map eT → HomR id (advanceLoop ts₁) (advanceLoop ts₂)
  | [], [], _ => by
    unfold advanceLoop
    apply HomR.modify; intro q₁ q₂ hq; eeq
  | [], _ :: _, h => by simp at h
  | _ :: _, [], h => by simp at h
  | t₁ :: ts₁, t₂ :: ts₂, h => by
    simp only [List.map_cons, List.cons.injEq] at h
    obtain ⟨ht, hts⟩ := h
    obtain ⟨htyp, hval, herr⟩ := eT_inj ht
    have ih := advanceLoop_hom ts₁ ts₂ hts
    unfold advanceLoop
    rw [htyp, herr]
    apply HomR.bind_id
    · apply HomR.modify; intro q₁ q₂ hq
      unfold E; dsimp only
      rw [hq.prev, ht, hts]
      simp only [hq.hadError, hq.hadLexFail, hq.panicMode, hq.identRefs, hq.consts, hq.locals, hq.depth,
        hq.tokens, hq.localMax, hq.depthMax, hq.stuck]
    · homr

theorem advance_hom : HomR id advance advance := by
  unfold advance
  apply HomR.bind_id
  · apply HomR.modify; intro q₁ q₂ hq; eeq
  · intro _
    apply HomR.get_bind; intro q₁ q₂ hq
    exact advanceLoop_hom _ _ hq.rest
macro_rules | `(tactic| homr_known) => `(tactic| with_reducible exact advance_hom)
theorem check_hom (t : TokType) : HomR id (check t) (check t) := by unfold check; homr
macro_rules | `(tactic| homr_known) => `(tactic| with_reducible exact check_hom _)
theorem checkEnd_hom : HomR id checkEnd checkEnd := by unfold checkEnd; homr
macro_rules | `(tactic| homr_known) => `(tactic| with_reducible exact checkEnd_hom)
theorem consume_hom (t : TokType) (m₁ m₂ : Bytes) : HomR id (consume t m₁) (consume t m₂) := by unfold consume; homr
macro_rules | `(tactic| homr_known) => `(tactic| with_reducible exact consume_hom _ _ _)
theorem match_hom (t : TokType) : HomR id («match» t) («match» t) := by unfold «match»; homr
macro_rules | `(tactic| homr_known) => `(tactic| with_reducible exact match_hom _)
theorem matchEnd_hom : HomR id matchEnd matchEnd := by unfold matchEnd; homr
macro_rules | `(tactic| homr_known) => `(tactic| with_reducible exact matchEnd_hom)

end Bclv
