import Bclv.Proofs.LexRender2
namespace Bclv

theorem Pf_backup_ascii (p : Nat) (c r : Bytes) (b : UInt8) :
    Pf.backup ⟨p + 1, b :: c, r, 1⟩ = ⟨p, c, b :: r, 1⟩ := by
  show Whole.prims.backup _ = _
  simp [Whole.prims, moveFwd]

/-- a loop over ASCII bytes that satisfy the predicate, ended by a rune that does not -/
theorem acceptRun_ascii (pred : Rune → Bool) : ∀ (bs : Bytes) (f p w : Nat) (acc : Bool) (c x : Bytes),
    (∀ b ∈ bs, b < 0x80 ∧ pred (b.toNat : Int) = true) → pred (firstRune x) = false → bs.length < f →
    acceptRun Pf pred f acc ⟨p, c, bs ++ x, w⟩ =
      (acc || !bs.isEmpty, ⟨p + bs.length, bs.reverse ++ c, x, (decodeRune x).2⟩)
  | [], f, p, w, acc, c, x, _, hF, hf => by
    cases f with
    | zero => simp at hf
    | succ f =>
      show acceptRun Pf pred (f+1) acc ⟨p, c, x, w⟩ = _
      unfold acceptRun
      have hn := Pf_next_eq ⟨p, c, x, w⟩
      have hb := Pf_backup_next ⟨p, c, x, w⟩
      rcases h : Pf.next ⟨p, c, x, w⟩ with ⟨r, s'⟩
      rw [h] at hn hb
      have hr : r = firstRune x := congrArg Prod.fst hn
      dsimp only
      rw [hr, hF]
      simp only [Bool.false_eq_true, if_false]
      rw [hb]; simp
  | b :: bs, f, p, w, acc, c, x, hbs, hF, hf => by
    cases f with
    | zero => simp at hf
    | succ f =>
      have hb := hbs b (by simp)
      show acceptRun Pf pred (f+1) acc ⟨p, c, b :: (bs ++ x), w⟩ = _
      unfold acceptRun
      rw [Pf_next_ascii p w c (bs ++ x) b hb.1]
      dsimp only
      rw [hb.2]
      simp only [if_true]
      rw [acceptRun_ascii pred bs f (p + 1) 1 true (b :: c) x (fun y hy => hbs y (by simp [hy])) hF (by simp at hf; omega)]
      simp [Nat.add_assoc, Nat.add_comm 1]

/-! ## decimal integers -/

def digitByte (b : UInt8) : Prop := isDigitR (b.toNat : Int) = true

theorem digit_range (r : Int) (h : isDigitR r = true) : 48 ≤ r ∧ r ≤ 57 := by
  simp only [isDigitR, Bool.and_eq_true, decide_eq_true_eq] at h
  exact h

theorem digitByte_ascii (b : UInt8) (h : digitByte b) : b < 0x80 := by
  rw [UInt8.lt_iff_toNat_lt]
  have := digit_range (b.toNat : Int) h
  simp; omega

/-- the start state on a digit hands over to `lexNumber` -/
theorem start_on_digit (f : Nat) (s : Whole) (T : List Token) (R : Int) (hR : firstRune s.rest = R)
    (h : isDigitR R = true) :
    lexStep Pf f .start ⟨s, T⟩ = (.number, ⟨(Pf.next s).2, T⟩) := by
  have hr : (Pf.next s).1 = R := by rw [Pf_next_eq]; exact hR
  have hrange := digit_range R h
  obtain ⟨h2, h1⟩ := tables_none R (by omega) (by omega) (by omega) (by omega) (by omega) (by omega)
    (by omega) (by omega) (by omega) (by omega) (by omega) (by omega) (by omega) (by omega)
  have n1 : R ≠ (-1 : Int) := by omega
  have n32 : R ≠ (32 : Int) := by omega
  have n9 : R ≠ (9 : Int) := by omega
  have n11 : R ≠ (11 : Int) := by omega
  have n12 : R ≠ (12 : Int) := by omega
  have n10 : R ≠ (10 : Int) := by omega
  have n13 : R ≠ (13 : Int) := by omega
  have n133 : R ≠ (133 : Int) := by omega
  have n160 : R ≠ (160 : Int) := by omega
  have n35 : R ≠ (35 : Int) := by omega
  have n34 : R ≠ (34 : Int) := by omega
  have n95 : R ≠ (95 : Int) := by omega
  have heof : ((R : Int) == eofR) = false := by simp only [beq_eq_false_iff_ne, eofR]; exact n1
  have hsp : isSpaceR R = false := by
    simp only [isSpaceR, Bool.or_eq_false_iff, beq_eq_false_iff_ne]
    exact ⟨⟨⟨⟨⟨⟨⟨n32, n9⟩, n11⟩, n12⟩, n10⟩, n13⟩, n133⟩, n160⟩
  have h35 : ((R : Int) == 35) = false := by simp only [beq_eq_false_iff_ne]; exact n35
  have h34 : ((R : Int) == 34) = false := by simp only [beq_eq_false_iff_ne]; exact n34
  have hal : (isAlphaR R || (R : Int) == 95) = false := by
    simp only [Bool.or_eq_false_iff, beq_eq_false_iff_ne]
    refine ⟨?_, n95⟩
    simp only [isAlphaR, Bool.or_eq_false_iff, Bool.and_eq_false_iff, decide_eq_false_iff_not]
    constructor
    · left; show ¬ (97 ≤ R); omega
    · left; show ¬ (65 ≤ R); omega
  simp only [lexStep, hr, heof, h2, h1, hsp, h35, h34, hal, h, Bool.false_eq_true, if_false, if_true]

/-- what may follow a decimal integer -/
def FInt (x : Bytes) : Prop :=
  isDigitR (firstRune x) = false ∧ (firstRune x == 46 || firstRune x == 101 || firstRune x == 69) = false ∧
  (firstRune x == 34 || isAlphaR (firstRune x)) = false

def IsIntText (t : Bytes) : Prop := t ≠ [] ∧ ∀ b ∈ t, digitByte b

def intTok (t : Bytes) : Token := { typ := .INT, val := t }

theorem notX_of_digit (r : Int) (h : isDigitR r = true) : (r == 120 || r == 88) = false := by
  have := digit_range r h
  have a : r ≠ 120 := by omega
  have b : r ≠ 88 := by omega
  simp [a, b]

theorem notX_of_notAlpha (r : Int) (h : isAlphaR r = false) : (r == 120 || r == 88) = false := by
  simp only [isAlphaR, Bool.or_eq_false_iff, Bool.and_eq_false_iff, decide_eq_false_iff_not] at h
  have h' : (¬ (97 ≤ r) ∨ ¬ (r ≤ 122)) ∧ (¬ (65 ≤ r) ∨ ¬ (r ≤ 90)) := h
  have a : r ≠ 120 := by omega
  have b : r ≠ 88 := by omega
  simp [a, b]

/-- **Decimal integers**: `lexStart`, `lexNumber` turn the digits into an `tINT` token. -/
theorem int_steps (f n p w : Nat) (t x : Bytes) (T : List Token) (hid : IsIntText t) (hF : FInt x)
    (hf : t.length < f) :
    lexRun Pf f (n + 2) .start ⟨⟨p, [], t ++ x, w⟩, T⟩
      = lexRun Pf f n .start ⟨⟨p + t.length, [], x, (decodeRune x).2⟩, intTok t :: T⟩ := by
  obtain ⟨hne, hdig⟩ := hid
  cases t with
  | nil => exact absurd rfl hne
  | cons b bs =>
  have hb := hdig b (by simp)
  have hb80 := digitByte_ascii b hb
  have hbs : ∀ y ∈ bs, y < 0x80 ∧ isDigitR (y.toNat : Int) = true :=
    fun y hy => ⟨digitByte_ascii y (hdig y (by simp [hy])), hdig y (by simp [hy])⟩
  rw [lexRun, start_on_digit f ⟨p, [], (b :: bs) ++ x, w⟩ T (b.toNat : Int)
    (by simp only [List.cons_append]; exact firstRune_ascii b _ hb80) hb]
  dsimp only
  rw [lexRun]
  simp only [List.cons_append]
  rw [Pf_next_ascii p w [] (bs ++ x) b hb80]
  simp only [lexStep]
  rw [Pf_backup_ascii p [] (bs ++ x) b]
  unfold accept
  rw [Pf_next_ascii p 1 [] (bs ++ x) b hb80]
  dsimp only
  by_cases h48 : ((b.toNat : Int) == 48) = true
  · simp only [h48, if_true, Bool.true_and]
    -- after a leading 0 the next rune is not `x`
    have hnx : ((Pf.next ⟨p + 1, [b], bs ++ x, 1⟩).1 == 120 || (Pf.next ⟨p + 1, [b], bs ++ x, 1⟩).1 == 88) = false := by
      rw [Pf_next_eq]
      dsimp only
      cases bs with
      | nil =>
        simp only [List.nil_append]
        have : isAlphaR (firstRune x) = false := by
          have := hF.2.2
          simp only [Bool.or_eq_false_iff] at this
          exact this.2
        exact notX_of_notAlpha _ this
      | cons d ds =>
        have hd := hbs d (by simp)
        simp only [List.cons_append]
        rw [firstRune_ascii d _ hd.1]
        exact notX_of_digit _ hd.2
    simp only [hnx, Bool.false_eq_true, if_false]
    rw [Pf_backup_next]
    dsimp only
    have := acceptRun_ascii isDigitR bs f (p + 1) ((decodeRune (bs ++ x)).2) false [b] x hbs hF.1 (by simp at hf; omega)
    rw [this]
    dsimp only
    rw [peekR_eq]
    dsimp only
    rw [hF.2.1, hF.2.2]
    simp only [Bool.false_eq_true, if_false, emit, intTok]
    congr 2
    · simp [Pf, LexPrims.noPos, Whole.prims]; omega
    · simp [Pf, LexPrims.noPos, Whole.prims]
  · simp only [h48, Bool.false_eq_true, if_false, Bool.false_and]
    rw [Pf_backup_ascii p [] (bs ++ x) b]
    have := acceptRun_ascii isDigitR (b :: bs) f p 1 false [] x
      (fun y hy => by
        rcases List.mem_cons.mp hy with rfl | hy
        · exact ⟨hb80, hb⟩
        · exact hbs y hy) hF.1 hf
    simp only [List.cons_append] at this
    rw [this]
    dsimp only
    rw [peekR_eq]
    dsimp only
    rw [hF.2.1, hF.2.2]
    simp only [Bool.false_eq_true, if_false, emit, intTok]
    congr 2 <;> simp [Pf, LexPrims.noPos, Whole.prims]

end Bclv
