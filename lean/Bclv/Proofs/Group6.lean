import Bclv.Proofs.Group2
import Bclv.Proofs.Group5
namespace Bclv

theorem wp_any' {α} (m : PM α) (p : PState) (Q : α → PState → Prop) (h : ∀ a p', Q a p') : wp m Q p := h _ _

theorem error_sets (msg : Bytes) (p : PState) : ((error msg) p).2.hadError = true := rfl

/-- after an expression at the lowest level the token ahead is not `=` (it would have been
reported as an invalid assignment target) -/
theorem pp_follow_ne_eq (prec : Nat) (hp : prec ≤ precAssign) : ∀ (f : Nat) (p : PState),
    wp (parsePrecedence prec f) (fun _ p' => NE p' → p'.cur.typ ≠ .EQ) p
  | 0, p => by
    unfold parsePrecedence
    rw [wp_bind]
    have h : wp setStuck (fun _ p' => p'.stuck = true) p := rfl
    apply wp_mono h; intro _ p1 hs
    rw [wp_pure]
    intro hne
    rw [hne.2] at hs; cases hs
  | f+1, p => by
    unfold parsePrecedence
    rw [wp_bind]
    apply wp_any'; intro _ p1
    rw [wp_bind, wp_get]
    split
    · rw [wp_bind]
      have h : wp (error (str "expected expression")) (fun _ p' => p'.hadError = true) p1 := rfl
      apply wp_mono h; intro _ p2 hs
      rw [wp_pure]
      intro hne
      rw [hne.1] at hs; cases hs
    · rw [wp_bind]
      apply wp_any'; intro e p2
      rw [wp_bind]
      apply wp_any'; intro e' p3
      simp only [hp, if_true]
      rw [wp_bind]
      unfold «match» check
      rw [wp_bind, wp_bind, wp_get, wp_pure]
      split
      · rename_i hc
        rw [wp_bind]
        apply wp_any'; intro _ p4
        rw [wp_pure]
        simp only [if_true]
        rw [wp_bind]
        have h : wp (error (str "invalid assignment target")) (fun _ p' => p'.hadError = true) p4 := rfl
        apply wp_mono h; intro _ p5 hs
        rw [wp_pure]
        intro hne
        rw [hne.1] at hs; cases hs
      · rename_i hc
        rw [wp_pure]
        simp only [Bool.false_eq_true, if_false]
        rw [wp_pure]
        intro _
        simpa using hc

theorem skips_unique {sk sk' : List Token} {p q : PState} (h : Skips sk p q) (h' : Skips sk' p q) : sk = sk' := by
  unfold Skips at h h'
  exact List.append_cancel_right (h.symm.trans h')

/-- **The parser's tree is the only reading**: any shape the tokens consumed by `expr` read as,
by the precedence table, is the shape of the tree `expr` returned. -/
theorem expr_shape_unique (f : Nat) (p : PState) (hi : GInv p) (hne : NE (expr f p).2)
    (sk : List Token) (hs : Skips sk p (expr f p).2) (s' : Sh) (hr : Rd precAssign s' (typs sk) 0) :
    s' = shape (expr f p).1 := by
  obtain ⟨sk0, hs0, hr0, hlt⟩ := (expr_rd f p hi).2 hne
  have hz : fprec (expr f p).2 = 0 := by unfold precAssign at hlt; omega
  rw [hz] at hr0
  have := skips_unique hs hs0
  subst this
  have hfol : (expr f p).2.cur.typ ≠ .EQ := by
    have := pp_follow_ne_eq precAssign (Nat.le_refl _) f p
    exact this hne
  exact rd_unique hr hr0 (by decide) (by decide) (expr f p).2.cur.typ hz (fun _ => hfol)

end Bclv
