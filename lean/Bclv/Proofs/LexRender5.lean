import Bclv.Proofs.LexRender4
namespace Bclv

def St0 (a : Bytes) : Whole := ⟨0, [], a, 0⟩

/-- tokens (newest first) lexed from the start state with `a` unread and `T` already emitted -/
def runT (f n : Nat) (a : Bytes) (T : List Token) : List Token := (lexRun Pf f n .start ⟨St0 a, T⟩).toks

theorem runT_more (f k n : Nat) (a : Bytes) (T : List Token) (hn : 3 * a.length + 1 ≤ n) :
    runT (f+1) (n + k) a T = runT (f+1) n a T := by
  unfold runT
  rw [lexRun_more Pf.meas f k n .start _ (by simp) (fun h => by cases h) (by simp only [lexPot, St0]; exact hn)]

theorem lexFrom_indepT (f n : Nat) (a b : Whole) (T : List Token) (h : SameIn a b) :
    (lexRun Pf f n .start ⟨a, T⟩).toks = (lexRun Pf f n .start ⟨b, T⟩).toks :=
  (lexRun_sim pfSim f n .start ⟨a, T⟩ ⟨b, T⟩ ⟨h, rfl⟩).2

/-- one separator in front of the unread input, with tokens already emitted -/
theorem skip1_runT (f n : Nat) (a : Bytes) (T : List Token) (hn : 3 * a.length + 1 ≤ n) (hf : a.length ≤ f) :
    runT (f+1) (n + 2) a T = runT (f+1) (n + 2) (skip1 (f+1) a) T := by
  have hle := skip1_le (f+1) a
  rw [runT_more f 2 n (skip1 (f+1) a) T (by omega)]
  unfold skip1 at hle ⊢
  by_cases hsp : (decodeRune a).2 ≠ 0 ∧ isSpaceR (decodeRune a).1 = true
  · rw [if_pos hsp] at hle ⊢
    unfold runT
    rw [lexRun, start_on_space (f+1) (St0 a) T hsp.1 hsp.2]
    dsimp only
    rw [lexRun]
    simp only [lexStep]
    have hrest := acceptRun_spaces (f+1) false (Pf.next (St0 a)).2
    rw [Pf_next_rest] at hrest
    exact lexFrom_indepT (f+1) n _ _ T ⟨rfl, hrest⟩
  · rw [if_neg hsp] at hle ⊢
    by_cases hh : (decodeRune a).2 ≠ 0 ∧ (decodeRune a).1 = 35
    · rw [if_pos hh] at hle ⊢
      unfold runT
      rw [lexRun, start_on_hash (f+1) (St0 a) T hh.1 hh.2]
      dsimp only
      rw [lexRun]
      simp only [lexStep]
      have hrest := commentLoop_rest (f+1) (Pf.next (St0 a)).2
      rw [Pf_next_rest] at hrest
      have hcur : (commentLoop Pf (f+1) (Pf.next (St0 a)).2).cur = [] := by
        apply commentLoop_cur
        rw [Pf_next_rest]; simp only [St0, List.length_drop]; omega
      exact lexFrom_indepT (f+1) n _ _ T ⟨hcur, hrest⟩
    · rw [if_neg hh]
      exact runT_more f 2 n a T hn

def skipN (f : Nat) : Nat → Bytes → Bytes
  | 0, a => a
  | k+1, a => skipN f k (skip1 f a)

theorem skipN_le (f : Nat) : ∀ (k : Nat) (a : Bytes), (skipN f k a).length ≤ a.length
  | 0, _ => Nat.le_refl _
  | k+1, a => Nat.le_trans (skipN_le f k _) (skip1_le f a)

theorem skipN_runT (f : Nat) : ∀ (k n : Nat) (a : Bytes) (T : List Token), 3 * a.length + 1 ≤ n → a.length ≤ f →
    runT (f+1) (n + 2) a T = runT (f+1) (n + 2) (skipN (f+1) k a) T
  | 0, _, _, _, _, _ => rfl
  | k+1, n, a, T, hn, hf => by
    have hle := skip1_le (f+1) a
    rw [skip1_runT f n a T hn hf]
    exact skipN_runT f k n (skip1 (f+1) a) T (by omega) (by omega)

/-- `t` is the text of the token `tok`: followed by anything `F` admits, the lexer turns it into
`tok` in `k` state functions and is back in its start state behind it -/
def Lexeme (t : Bytes) (tok : Token) (F : Bytes → Prop) : Prop :=
  t ≠ [] ∧ ∃ k, k ≤ t.length + 1 ∧ ∀ (f n : Nat) (x : Bytes) (T : List Token), F x → t.length < f →
    runT f (n + k) (t ++ x) T = runT f n x (tok :: T)

theorem lexeme_ident (t : Bytes) (h : IsIdentText t) : Lexeme t (identTok t) FIdent := by
  refine ⟨by obtain ⟨b, bs, rfl, _⟩ := h; simp, 2, by obtain ⟨b, bs, rfl, _⟩ := h; simp, ?_⟩
  intro f n x T hF hf
  unfold runT
  rw [show St0 (t ++ x) = ⟨0, [], t ++ x, 0⟩ from rfl, ident_steps f n 0 0 t x T h hF hf]
  exact lexFrom_indepT f n _ _ _ ⟨rfl, rfl⟩

theorem lexeme_int (t : Bytes) (h : IsIntText t) : Lexeme t (intTok t) FInt := by
  refine ⟨h.1, 2, by cases t with | nil => exact absurd rfl h.1 | cons _ _ => simp, ?_⟩
  intro f n x T hF hf
  unfold runT
  rw [show St0 (t ++ x) = ⟨0, [], t ++ x, 0⟩ from rfl, int_steps f n 0 0 t x T h hF hf]
  exact lexFrom_indepT f n _ _ _ ⟨rfl, rfl⟩

theorem lexeme_str (body : Bytes) (h : ∀ b ∈ body, plainByte b) :
    Lexeme (strText body) { typ := .STR, val := strText body } FStr := by
  refine ⟨by simp [strText], 2, by simp [strText], ?_⟩
  intro f n x T hF hf
  unfold runT
  rw [show St0 (strText body ++ x) = ⟨0, [], strText body ++ x, 0⟩ from rfl,
    str_steps f n 0 0 body x T h hF (by simp [strText] at hf; omega)]
  exact lexFrom_indepT f n _ _ _ ⟨rfl, rfl⟩

theorem lexeme_op1 (b : UInt8) (typ : TokType) (hb : b < 0x80) (h2 : twoRuneOf (b.toNat : Int) = none)
    (h1 : oneRuneOf (b.toNat : Int) = some typ) : Lexeme [b] { typ := typ, val := [b] } (fun _ => True) := by
  refine ⟨by simp, 1, by simp, ?_⟩
  intro f n x T _ _
  unfold runT
  rw [show St0 ([b] ++ x) = ⟨0, [], b :: x, 0⟩ from rfl, op1_steps f n 0 0 b typ x T hb h2 h1]
  exact lexFrom_indepT f n _ _ _ ⟨rfl, rfl⟩

theorem lexeme_op2first (b : UInt8) (want : Nat) (t2 t1 : TokType) (hb : b < 0x80)
    (h2 : twoRuneOf (b.toNat : Int) = some (want, t2)) (h1 : oneRuneOf (b.toNat : Int) = some t1) :
    Lexeme [b] { typ := t1, val := [b] } (fun x => (firstRune x == (want : Int)) = false) := by
  refine ⟨by simp, 1, by simp, ?_⟩
  intro f n x T hF _
  unfold runT
  rw [show St0 ([b] ++ x) = ⟨0, [], b :: x, 0⟩ from rfl, op2first_steps f n 0 0 b want t2 t1 x T hb h2 h1 hF]
  exact lexFrom_indepT f n _ _ _ ⟨rfl, rfl⟩

theorem lexeme_op2 (b c : UInt8) (t2 : TokType) (hb : b < 0x80) (hc : c < 0x80)
    (h2 : twoRuneOf (b.toNat : Int) = some (c.toNat, t2)) : Lexeme [b, c] { typ := t2, val := [b, c] } (fun _ => True) := by
  refine ⟨by simp, 1, by simp, ?_⟩
  intro f n x T _ _
  unfold runT
  rw [show St0 ([b, c] ++ x) = ⟨0, [], b :: c :: x, 0⟩ from rfl, op2_steps f n 0 0 b c t2 x T hb hc h2]
  exact lexFrom_indepT f n _ _ _ ⟨rfl, rfl⟩

/-- `a` reads as the tokens `toks`: after any layout comes the text of the first token,
followed by something that ends it, and so on; at the end only layout remains. -/
inductive Lexes (f : Nat) : List Token → Bytes → Prop
  | done (a : Bytes) (k : Nat) : skipN f k a = [] → Lexes f [] a
  | tok (a : Bytes) (k : Nat) (t x : Bytes) (tok : Token) (F : Bytes → Prop) (rest : List Token) :
      Lexeme t tok F → skipN f k a = t ++ x → F x → Lexes f rest x → Lexes f (tok :: rest) a

def eofTok : Token := { typ := .EOF }

theorem runT_empty (f n : Nat) (T : List Token) : runT f (n + 1) [] T = eofTok :: T := by
  unfold runT
  rw [lexRun]
  have e1 : Pf.next (St0 []) = (eofR, { St0 [] with width := 0 }) := by
    rw [Pf_next_eq]; simp [firstRune, decodeRune, St0]
  simp only [lexStep, e1]
  simp [emit, eofTok, Pf, LexPrims.noPos, Whole.prims, St0]

theorem lexes_runT (F : Nat) : ∀ (toks : List Token) (a : Bytes), Lexes (F+1) toks a → ∀ (T : List Token) (N : Nat),
    a.length ≤ F → 3 * a.length + 4 ≤ N → runT (F+1) N a T = eofTok :: (toks.reverse ++ T) := by
  intro toks a h
  induction h with
  | done a k hk =>
    intro T N hf hN
    obtain ⟨n, rfl⟩ : ∃ n, N = n + 2 := ⟨N - 2, by omega⟩
    rw [skipN_runT F k n a T (by omega) hf, hk]
    simpa using runT_empty (F+1) (n+1) T
  | tok a k t x tok Fo rest hlex hk hFx _ ih =>
    intro T N hf hN
    obtain ⟨n, rfl⟩ : ∃ n, N = n + 2 := ⟨N - 2, by omega⟩
    have hle := skipN_le (F+1) k a
    rw [skipN_runT F k n a T (by omega) hf, hk]
    obtain ⟨hne, kk, hkk, hsteps⟩ := hlex
    have hlen : (t ++ x).length ≤ a.length := by rw [← hk]; exact hle
    have htpos : 0 < t.length := by cases t with | nil => exact absurd rfl hne | cons _ _ => simp
    simp only [List.length_append] at hlen
    obtain ⟨m, hm⟩ : ∃ m, n + 2 = m + kk := ⟨n + 2 - kk, by omega⟩
    rw [hm, hsteps (F+1) m x T hFx (by omega)]
    rw [ih (tok :: T) m (by omega) (by omega)]
    simp

end Bclv
