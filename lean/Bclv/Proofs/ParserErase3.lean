import Bclv.Proofs.ParserErase2
namespace Bclv

set_option hygiene false in
macro "homx" : tactic => `(tactic| repeat' (first
  | assumption
  | homr_known
  | (rw [sizeE_of_erE ‹erE _ = erE _›])
  | with_reducible apply HomR.ite
  | ((with_reducible apply HomR.get_bind); intro q₁ q₂ hq; ef_rw)
  | (with_reducible apply HomR.bind (eA := erE))
  | (with_reducible apply HomR.bind (eA := erS))
  | (with_reducible apply HomR.bind (eA := erSs))
  | (with_reducible apply HomR.bind_id)
  | with_reducible apply HomR.forIn
  | ((with_reducible apply HomR.modify); intro q₁ q₂ hq; eeq)
  | ((with_reducible apply HomR.set); eeq)
  | ((with_reducible refine HomR.pure ?_); simp only [erE, erS, erSs, Option.map, *])
  | intro _
  | split
  | dsimp only [id]))

set_option hygiene false in
macro_rules | `(tactic| homr_known) => `(tactic| exact ihP _)
set_option hygiene false in
macro_rules | `(tactic| homr_known) => `(tactic| exact ihR _ _)
set_option hygiene false in
macro_rules | `(tactic| homr_known) => `(tactic| (apply ihI; simp only [erE, *]))

theorem exprs_hom : ∀ (f : Nat),
    (∀ prec, HomR erE (parsePrecedence prec f) (parsePrecedence prec f)) ∧
    (∀ prec l₁ l₂, erE l₁ = erE l₂ → HomR erE (infixLoop prec l₁ f) (infixLoop prec l₂ f)) ∧
    (∀ rule ca, HomR erE (prefixRule rule ca f) (prefixRule rule ca f))
  | 0 => by
    refine ⟨?_, ?_, ?_⟩
    · intro prec; unfold parsePrecedence; homx
    · intro prec l₁ l₂ h; unfold infixLoop; homx
    · intro rule ca; unfold prefixRule; homx
  | f+1 => by
    obtain ⟨ihP, ihI, ihR⟩ := exprs_hom f
    refine ⟨?_, ?_, ?_⟩
    · intro prec
      unfold parsePrecedence
      have hP := ihP
      have hI : ∀ prec (l₁ l₂ : Expr), erE l₁ = erE l₂ → HomR erE (infixLoop prec l₁ f) (infixLoop prec l₂ f) := ihI
      homx
    · intro prec l₁ l₂ hl
      unfold infixLoop
      homx
    · intro rule ca
      unfold prefixRule
      homx

theorem expr_hom (f : Nat) : HomR erE (expr f) (expr f) := (exprs_hom f).1 _

theorem erS_var_some (e₁ e₂ : Expr) (h : erE e₁ = erE e₂) (n₁ n₂ : Nat) :
    erS (Stmt.var (some e₁) n₁) = erS (Stmt.var (some e₂) n₂) := by simp only [erS, Option.map, h]

theorem varDecl_hom (f : Nat) : HomR erS (varDecl f) (varDecl f) := by
  have he := expr_hom f
  unfold varDecl
  homx

theorem syncLoop_hom : ∀ (f : Nat), HomR id (syncLoop f) (syncLoop f)
  | 0 => by unfold syncLoop; homx
  | f+1 => by
    have ih := syncLoop_hom f
    unfold syncLoop
    homx

theorem sync_hom (f : Nat) : HomR id (sync f) (sync f) := by
  have := syncLoop_hom f
  unfold sync; homx

theorem stmts_hom : ∀ (f : Nat),
    HomR erS (decl f) (decl f) ∧ HomR erS (stmt f) (stmt f) ∧
    HomR erS (blockStmt f) (blockStmt f) ∧ HomR erSs (blockLoop f) (blockLoop f)
  | 0 => by
    refine ⟨?_, ?_, ?_, ?_⟩
    · unfold decl; homx
    · unfold stmt; homx
    · unfold blockStmt; homx
    · unfold blockLoop; homx
  | f+1 => by
    obtain ⟨ihD, ihS, ihB, ihL⟩ := stmts_hom f
    have he := expr_hom f
    have hv := varDecl_hom f
    have hs := sync_hom f
    refine ⟨?_, ?_, ?_, ?_⟩
    · unfold decl; homx
    · unfold stmt; homx
    · unfold blockStmt; homx
    · unfold blockLoop; homx

theorem topLoop_hom : ∀ (f : Nat), HomR erSs (topLoop f) (topLoop f)
  | 0 => by unfold topLoop; homx
  | f+1 => by
    have ih := topLoop_hom f
    have hd := (stmts_hom f).1
    unfold topLoop
    homx

end Bclv
