import Bclv.Proofs.Group3
import Bclv.Proofs.Grammar7
namespace Bclv

/-- **An accepted token list reads as the program tree the parser returns**: the tokens up to
the first finalizer are, statement by statement and operator by operator, a reading of that
tree's shape. -/
theorem parse_reads (toks : List Token) (lfs : List Nat) (hend : lastEnd toks = true)
    (hnf : ∀ t ∈ toks, t.typ ≠ .FAIL) (hok : (parseTokens toks lfs).ok = true) :
    ∃ body e rest, toks = body ++ e :: rest ∧ e.typ.isEnd = true ∧
      RdProg (shapeSs (parseTokens toks lfs).prog.body) (typs body) := by
  have hns := parse_not_stuck toks lfs hend
  have hi0 : GInv ({ rest := toks, lfs := lfs } : PState) :=
    ⟨TE_init toks lfs hend, fun h => Bool.noConfusion h, rfl, hnf⟩
  have hne0 : toks ≠ [] := by intro h; rw [h] at hend; cases hend
  have hrun : wp (do advance; let body ← topLoop (4 * toks.length + 16); let p ← get
                     return ({ body, npop := p.locals.length, endPos := p.prev.pos } : Program))
      (fun prog p' => NE p' → ∃ body e rest, toks = body ++ e :: rest ∧ e.typ.isEnd = true ∧
        RdProg (shapeSs prog.body) (typs body))
      ({ rest := toks, lfs := lfs } : PState) := by
    rw [wp_bind]
    have h1 : wp advance (fun _ p1 => GM ({ rest := toks, lfs := lfs } : PState) p1 ∧ p1.depth = 0 ∧
        (p1.hadError = false → toks = p1.cur :: p1.rest)) ({ rest := toks, lfs := lfs } : PState) := by
      refine ⟨advance_gr.h _ hi0, advance_dp.h _, ?_⟩
      have : wp advance (fun _ p' => p'.hadError = false → toks ≠ [] → toks = p'.cur :: p'.rest)
          ({ rest := toks, lfs := lfs } : PState) := by
        unfold advance
        rw [wp_bind, wp_modify, wp_bind, wp_get]
        exact advanceLoop_noerr toks _
      intro h; exact this h hne0
    apply wp_mono h1
    intro _ p1 hq1
    obtain ⟨hg1, hd1, ht1⟩ := hq1
    rw [wp_bind]
    apply wp_mono (topLoop_rd _ p1 hg1.inv hd1)
    intro body p2 hq2
    rw [wp_bind, wp_get, wp_pure]
    intro hne
    obtain ⟨b, e, r, htoks, he, hp⟩ := hq2.2 hne
    have hne1 : NE p1 := hq2.1.ne hne
    exact ⟨b, e, r, by rw [ht1 hne1.1, htoks], he, hp⟩
  unfold parseTokens at hok hns ⊢
  simp only [StateT.run] at hok hns ⊢
  unfold wp at hrun
  revert hok hns hrun
  generalize ((advance >>= fun _ => do
    let body ← topLoop (4 * toks.length + 16)
    let p ← get
    pure ({ body := body, npop := p.locals.length, endPos := p.prev.pos } : Program) : PM Program)
    { rest := toks, lfs := lfs }) = r
  obtain ⟨a, q⟩ := r
  intro hok hns hrun
  apply hrun
  constructor
  · show q.hadError = false
    have : (!q.hadError) = true := hok
    cases h : q.hadError <;> simp_all
  · exact hns

/-- **From source text**: if the parser accepts what the lexer makes of an input, the token
kinds before the final `tEOF` read as the shape of the program tree — every statement, every
optional `;`, every operator grouped by the precedence table. -/
theorem source_reads (a : Bytes) (hok : (parseTokens (lexWhole a) (newlinesFrom 0 a)).ok = true) :
    ∃ body e, lexWhole a = body ++ [e] ∧ e.typ = .EOF ∧
      RdProg (shapeSs (parseTokens (lexWhole a) (newlinesFrom 0 a)).prog.body) (typs body) := by
  obtain ⟨body, e, hbe, he, _⟩ := source_sound a hok
  obtain ⟨pre, e0, htoks, he0, hpre, _⟩ := lexWhole_shape a
  have hlast := lexWhole_lastEnd a
  -- the two decompositions are the same one
  have hsame : pre = body ∧ e0 = e := by
    have := htoks.symm.trans hbe
    have h1 := List.append_inj' this rfl
    exact ⟨h1.1, by simpa using h1.2⟩
  obtain ⟨rfl, rfl⟩ := hsame
  have hnf : ∀ t ∈ lexWhole a, t.typ ≠ .FAIL := by
    intro t ht
    rw [htoks] at ht
    rcases List.mem_append.mp ht with ht | ht
    · intro h; have := hpre t ht; rw [h] at this; cases this
    · simp at ht; rw [ht, he]; intro h; cases h
  obtain ⟨body', e', rest, hsplit, he', hprog⟩ := parse_reads (lexWhole a) (newlinesFrom 0 a) hlast hnf hok
  rw [htoks] at hsplit
  obtain ⟨hb, _, _⟩ := split_at_first_end pre e0 body' e' rest hpre he' hsplit
  exact ⟨pre, e0, htoks, he, by rw [← hb]; exact hprog⟩

end Bclv
