import Bclv.Proofs.LexRender8
namespace Bclv

/-! ## string literals with escapes -/

/-- what may stand between the quotes: plain bytes, and a backslash followed by any ASCII byte
but a line feed -/
inductive StrBody : Bytes → Prop
  | nil : StrBody []
  | plain (b : UInt8) (rest : Bytes) : plainByte b → StrBody rest → StrBody (b :: rest)
  | esc (c : UInt8) (rest : Bytes) : c < 0x80 → c ≠ 10 → StrBody rest → StrBody (92 :: c :: rest)

theorem esc_tests (c : UInt8) (h80 : c < 0x80) (h10 : c ≠ 10) :
    ((c.toNat : Int) != eofR && (c.toNat : Int) != 10) = true := by
  have d : c.toNat ≠ 10 := fun e => h10 (UInt8.toNat_inj.mp e)
  have d' : (c.toNat : Int) ≠ 10 := by omega
  have e' : (c.toNat : Int) ≠ -1 := by omega
  simp only [Bool.and_eq_true, bne_iff_ne, ne_eq, eofR]
  exact ⟨e', d'⟩

theorem quoteLoop_body : ∀ (body : Bytes), StrBody body → ∀ (f p w : Nat) (c x : Bytes), body.length < f →
    quoteLoop Pf f ⟨p, c, body ++ 34 :: x, w⟩ = (true, ⟨p + body.length + 1, 34 :: (body.reverse ++ c), x, 1⟩) := by
  intro body h
  induction h with
  | nil =>
    intro f p w c x hf
    exact quoteLoop_ascii [] f p w c x (by simp) hf
  | plain b rest hb _ ih =>
    intro f p w c x hf
    cases f with
    | zero => simp at hf
    | succ f =>
      obtain ⟨t92, teof, t34⟩ := plain_tests b hb
      show quoteLoop Pf (f+1) ⟨p, c, b :: (rest ++ 34 :: x), w⟩ = _
      unfold quoteLoop
      rw [Pf_next_ascii p w c (rest ++ 34 :: x) b hb.1]
      dsimp only
      rw [t92]
      simp only [Bool.false_eq_true, if_false]
      rw [teof, t34]
      simp only [Bool.false_eq_true, if_false]
      rw [ih f (p + 1) 1 (b :: c) x (by simp at hf; omega)]
      simp [Nat.add_assoc, Nat.add_comm 1]
  | esc e rest h80 h10 _ ih =>
    intro f p w c x hf
    cases f with
    | zero => simp at hf
    | succ f =>
      show quoteLoop Pf (f+1) ⟨p, c, 92 :: e :: (rest ++ 34 :: x), w⟩ = _
      unfold quoteLoop
      rw [Pf_next_ascii p w c (e :: (rest ++ 34 :: x)) 92 (by decide)]
      dsimp only
      have e2 := Pf_next_ascii (p + 1) 1 (92 :: c) (rest ++ 34 :: x) e h80
      have e3 := esc_tests e h80 h10
      have e4 := ih f (p + 1 + 1) 1 (e :: 92 :: c) x (by simp at hf; omega)
      simp only [show ((((92 : UInt8).toNat : Int) : Rune) == 92) = true from by decide, if_true, e2, e3, e4]
      simp [Nat.add_assoc, Nat.add_comm 1]; omega

/-- **String literals**: the bytes between the quotes — escapes included — reach the token's
text one for one; nothing in there is layout. -/
theorem lexeme_str_esc (body : Bytes) (h : StrBody body) :
    Lexeme (strText body) { typ := .STR, val := strText body } FStr := by
  refine ⟨by simp [strText], 2, by simp [strText], ?_⟩
  intro f n x T hF hf
  unfold runT strText
  simp only [List.cons_append, List.append_assoc, List.singleton_append, List.nil_append]
  rw [show St0 (34 :: (body ++ 34 :: x)) = ⟨0, [], 34 :: (body ++ 34 :: x), 0⟩ from rfl]
  rw [show n + 2 = (n + 1) + 1 from rfl, lexRun,
    start_on_quote f ⟨0, [], 34 :: (body ++ 34 :: x), 0⟩ T (firstRune_ascii 34 _ (by decide))]
  dsimp only
  rw [lexRun]
  have e1 := Pf_next_ascii 0 0 [] (body ++ 34 :: x) 34 (by decide)
  have e2 := quoteLoop_body body h f (0 + 1) 1 [34] x (by simp [strText] at hf; omega)
  have e3 := peekR_eq ⟨0 + 1 + body.length + 1, 34 :: (body.reverse ++ [34]), x, 1⟩
  have hF' : isAlphaNumR (firstRune x) = false := hF
  simp only [lexStep, e1, e2, e3, hF', Bool.not_true, Bool.false_eq_true, if_false, emit]
  have : (lexRun Pf f n .start ⟨Pf.ignore ⟨0 + 1 + body.length + 1, 34 :: (body.reverse ++ [34]), x, (decodeRune x).2⟩,
      { typ := .STR, val := Pf.current ⟨0 + 1 + body.length + 1, 34 :: (body.reverse ++ [34]), x, (decodeRune x).2⟩,
        pos := Pf.endPos ⟨0 + 1 + body.length + 1, 34 :: (body.reverse ++ [34]), x, (decodeRune x).2⟩ } :: T⟩).toks
      = (lexRun Pf f n .start ⟨St0 x, { typ := .STR, val := 34 :: (body ++ [34]) } :: T⟩).toks := by
    have hv : Pf.current ⟨0 + 1 + body.length + 1, 34 :: (body.reverse ++ [34]), x, (decodeRune x).2⟩ = 34 :: (body ++ [34]) := by
      simp [Pf, LexPrims.noPos, Whole.prims]
    rw [hv]
    exact lexFrom_indepT f n _ _ _ ⟨rfl, rfl⟩
  exact this

end Bclv
