import Bclv.Proofs.LexSim
import Bclv.Proofs.Utf8
/-!
# The sliding-window lexer on chunks computes the tokens of the whole input (C07)

`Win` is the port of the Go lexer's window (`input/start/pos/posShift/width`, refilled from
the pending chunks exactly as `lexer.next` does); `Whole` reads the whole input.  They
simulate each other (`winWholeSim`), so by `lexRun_sim` the tokens are the same for every
way of cutting the input into chunks — inside a token, inside a multi-byte rune, with
empty chunks anywhere.
-/
namespace Bclv

theorem moveFwd_eq : ∀ (n : Nat) (a b : Bytes), moveFwd n a b = ((b.take n).reverse ++ a, b.drop n)
  | 0, a, b => by simp [moveFwd]
  | n+1, a, [] => by simp [moveFwd]
  | n+1, a, x :: b => by
    rw [moveFwd, moveFwd_eq n (x :: a) b]
    simp [List.take_succ_cons, List.reverse_cons]

/-- The abstract cursor of a window: position, pending token text, unread bytes. -/
def WR (w : Win) (h : Whole) : Prop :=
  w.start ≤ w.pos ∧ w.pos ≤ w.input.length ∧ h.pos = w.pos + w.posShift
  ∧ h.cur.reverse = (w.input.drop w.start).take (w.pos - w.start)
  ∧ h.rest = w.input.drop w.pos ++ w.pending.flatten ∧ h.width = w.width

def WRp (w : Win) (h : Whole) : Prop := WR w h ∧ w.width ≤ w.pos - w.start
def WRm (w : Win) (h : Whole) : Prop := WR w h ∧ w.pos + w.width ≤ w.input.length

theorem wr_ignore (w : Win) (h : Whole) (hr : WR w h) : WR (Win.prims.ignore w) (Whole.prims.ignore h) := by
  obtain ⟨h1, h2, h3, h4, h5, h6⟩ := hr
  refine ⟨Nat.le_refl _, h2, h3, ?_, h5, h6⟩
  simp [Win.prims, Whole.prims]

theorem wr_current (w : Win) (h : Whole) (hr : WR w h) : Win.prims.current w = Whole.prims.current h := by
  obtain ⟨h1, h2, h3, h4, h5, h6⟩ := hr
  simp [Win.prims, Whole.prims, h4]

theorem wr_endPos (w : Win) (h : Whole) (hr : WR w h) : Win.prims.endPos w = Whole.prims.endPos h := by
  obtain ⟨h1, h2, h3, h4, h5, h6⟩ := hr
  simp [Win.prims, Whole.prims, h3]

/-- the bytes between two offsets of a list -/
theorem take_drop_split (l : Bytes) (a b : Nat) (hab : a ≤ b) (hb : b ≤ l.length) :
    (l.drop a).take (b - a) ++ l.drop b = l.drop a := by
  have : l.drop b = (l.drop a).drop (b - a) := by rw [List.drop_drop]; congr 1; omega
  rw [this, List.take_append_drop]

theorem wr_backup (w : Win) (h : Whole) (hr : WRp w h) : WRm (Win.prims.backup w) (Whole.prims.backup h) := by
  obtain ⟨input, start, pos, posShift, width, pending, lfs⟩ := w
  obtain ⟨hpos, cur, rest, hwidth⟩ := h
  obtain ⟨⟨h1, h2, h3, h4, h5, h6⟩, hw⟩ := hr
  simp only at h1 h2 h3 h4 h5 h6 hw
  subst h6
  have hcurlen : cur.length = pos - start := by
    have := congrArg List.length h4
    simp at this; omega
  have hcur : cur = ((input.drop start).take (pos - start)).reverse := by
    rw [← h4, List.reverse_reverse]
  simp only [Win.prims, Whole.prims, moveFwd_eq, WRm, WR]
  refine ⟨⟨by omega, by omega, by omega, ?_, ?_, trivial⟩, by omega⟩
  · -- the pending text loses its last `width` bytes
    rw [hcur, List.drop_reverse, List.reverse_reverse, List.take_take]
    simp only [List.length_take, List.length_drop]
    congr 1
    omega
  · -- those bytes are unread again
    rw [h5, ← List.append_assoc]
    congr 1
    rw [hcur, List.take_reverse, List.reverse_reverse]
    simp only [List.length_take, List.length_drop]
    have e1 : min (pos - start) (input.length - start) = pos - start := by omega
    rw [e1, List.drop_take, List.drop_drop]
    have e2 : start + (pos - start - hwidth) = pos - hwidth := by omega
    have e3 : pos - start - (pos - start - hwidth) = pos - (pos - hwidth) := by omega
    rw [e2, e3]
    exact take_drop_split input (pos - hwidth) pos (by omega) h2

theorem wr_unbackup (w : Win) (h : Whole) (hr : WRm w h) : WRp (Win.prims.unbackup w) (Whole.prims.unbackup h) := by
  obtain ⟨input, start, pos, posShift, width, pending, lfs⟩ := w
  obtain ⟨hpos, cur, rest, hwidth⟩ := h
  obtain ⟨⟨h1, h2, h3, h4, h5, h6⟩, hw⟩ := hr
  simp only at h1 h2 h3 h4 h5 h6 hw
  subst h6
  simp only [Win.prims, Whole.prims, moveFwd_eq, WRp, WR]
  have htake : rest.take hwidth = (input.drop pos).take hwidth := by
    rw [h5, List.take_append_of_le_length (by simp; omega)]
  refine ⟨⟨by omega, by omega, by omega, ?_, ?_, trivial⟩, by omega⟩
  · rw [List.reverse_append, List.reverse_reverse, h4, htake]
    have e : pos + hwidth - start = (pos - start) + hwidth := by omega
    rw [e, List.take_add, List.drop_drop, show start + (pos - start) = pos by omega]
  · rw [h5, List.drop_append_of_le_length (by simp; omega), List.drop_drop]

/-! ### refilling the window -/

/-- Refilling changes the window, not what it stands for. -/
theorem wr_refill : ∀ (f : Nat) (w : Win) (h : Whole), WR w h → WR (Win.refill f w) h ∧ (Win.refill f w).width = w.width
  | 0, w, h, hr => ⟨hr, rfl⟩
  | f+1, w, h, hr => by
    unfold Win.refill
    split
    · cases hp : w.pending with
      | nil =>
        simp only
        split
        · exact ⟨hr, rfl⟩
        · split
          · exact ⟨hr, rfl⟩
          · obtain ⟨h1, h2, h3, h4, h5, h6⟩ := hr
            refine ⟨⟨Nat.zero_le _, by simp; omega, by simp; omega, ?_, ?_, h6⟩, rfl⟩
            · simpa using h4
            · simp only [hp, List.flatten_nil, List.append_nil, List.drop_drop] at h5 ⊢
              rw [h5]; congr 1; omega
      | cons c cs =>
        simp only
        obtain ⟨h1, h2, h3, h4, h5, h6⟩ := hr
        have hr' : WR { w with input := w.input.drop w.start ++ c, posShift := w.posShift + w.start,
                               lfs := w.lfs ++ newlinesFrom (w.posShift + w.start + (w.input.length - w.start)) c,
                               pos := w.pos - w.start, start := 0, pending := cs } h := by
          refine ⟨Nat.zero_le _, by simp; omega, by simp; omega, ?_, ?_, h6⟩
          · simp only [List.drop_zero, Nat.sub_zero]
            rw [List.take_append_of_le_length (by simp; omega)]
            exact h4
          · simp only
            rw [List.drop_append_of_le_length (by simp; omega), List.drop_drop, h5, hp]
            simp only [List.flatten_cons, List.append_assoc]
            congr 2
            omega
        have := wr_refill f _ h hr'
        exact ⟨this.1, by rw [this.2]⟩
    · exact ⟨hr, rfl⟩

/-- With enough fuel, refilling ends with a complete rune at the cursor or with nothing
more to receive. -/
theorem refill_done : ∀ (f : Nat) (w : Win), w.pending.length < f →
    (Win.refill f w).pending = [] ∨
    ((Win.refill f w).pos < (Win.refill f w).input.length ∧ fullRune ((Win.refill f w).input.drop (Win.refill f w).pos) = true)
  | 0, w, hf => by omega
  | f+1, w, hf => by
    unfold Win.refill
    split
    · cases hp : w.pending with
      | nil =>
        simp only
        split
        · exact .inl hp
        · split
          · exact .inl hp
          · exact .inl rfl
      | cons c cs =>
        simp only
        apply refill_done f
        simp only [hp, List.length_cons] at hf
        simp only; omega
    · rename_i hc
      right
      simp only [Bool.or_eq_true, decide_eq_true_eq, Bool.not_eq_true', not_or, Bool.not_eq_false, Nat.not_le] at hc
      exact ⟨hc.1, hc.2⟩

theorem wr_next (w : Win) (h : Whole) (hr : WR w h) :
    (Win.prims.next w).1 = (Whole.prims.next h).1 ∧ WRp (Win.prims.next w).2 (Whole.prims.next h).2 := by
  have hrf := wr_refill (w.pending.length + 1) w h hr
  have hdone := refill_done (w.pending.length + 1) w (Nat.lt_succ_self _)
  simp only [Win.prims]
  generalize Win.refill (w.pending.length + 1) w = w' at hrf hdone
  obtain ⟨⟨h1, h2, h3, h4, h5, h6⟩, hwid⟩ := hrf
  -- the decoder sees the same rune in the window as in the whole rest
  have hdec : decodeRune h.rest = decodeRune (w'.input.drop w'.pos) := by
    rw [h5]
    rcases hdone with hp | ⟨_, hfull⟩
    · rw [hp]; simp
    · exact decodeRune_append_full _ _ hfull
  simp only [Whole.prims, hdec]
  have hwle := decodeRune_width_le (w'.input.drop w'.pos)
  simp only [List.length_drop] at hwle
  by_cases hz : (decodeRune (w'.input.drop w'.pos)).2 = 0
  · simp only [hz, if_true]
    exact ⟨by first | rfl | trivial, ⟨h1, h2, h3, h4, h5, rfl⟩, Nat.zero_le _⟩
  · simp only [hz, if_false, moveFwd_eq]
    refine ⟨by first | rfl | trivial, ⟨by simp only; omega, by simp only; omega, by simp only; omega, ?_, ?_, rfl⟩, by simp only; omega⟩
    · simp only
      have htake : h.rest.take (decodeRune (w'.input.drop w'.pos)).2 = (w'.input.drop w'.pos).take (decodeRune (w'.input.drop w'.pos)).2 := by
        rw [h5, List.take_append_of_le_length (by simp; omega)]
      rw [List.reverse_append, List.reverse_reverse, h4, htake]
      have e : w'.pos + (decodeRune (w'.input.drop w'.pos)).2 - w'.start = (w'.pos - w'.start) + (decodeRune (w'.input.drop w'.pos)).2 := by omega
      rw [e, List.take_add, List.drop_drop, show w'.start + (w'.pos - w'.start) = w'.pos by omega]
    · simp only
      rw [h5, List.drop_append_of_le_length (by simp; omega), List.drop_drop]

/-- The window lexer and the whole-input lexer simulate each other. -/
theorem winWholeSim : PrimSim Win.prims Whole.prims WR WRp WRm where
  rp_r := fun _ _ h => h.1
  rm_r := fun _ _ h => h.1
  next := wr_next
  backup := wr_backup
  unbackup := wr_unbackup
  ignore := wr_ignore
  ignore_m := fun w h hr => ⟨wr_ignore w h hr.1, by
    have := hr.2
    simpa [Win.prims] using this⟩
  current := wr_current
  endPos := wr_endPos

theorem sum_lengths (chunks : List Bytes) : (chunks.map List.length).sum = chunks.flatten.length := by
  rw [List.length_flatten]

/-- **Chunk independence of the lexer**: however the input is cut into chunks (inside a
token, inside a multi-byte rune, with empty chunks anywhere), the sliding-window lexer
emits exactly the tokens — types, texts, error messages and positions — that the lexer
emits on the whole input. -/
theorem lex_chunk_indep (chunks : List Bytes) : (lexChunks chunks).1 = lexWhole chunks.flatten := by
  unfold lexChunks lexWhole
  simp only [sum_lengths]
  congr 1
  apply (lexRun_sim winWholeSim _ _ .start _ _ _).2
  exact ⟨⟨Nat.le_refl _, Nat.zero_le _, rfl, rfl, rfl, rfl⟩, rfl⟩

end Bclv
