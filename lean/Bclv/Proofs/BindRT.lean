import Bclv.Proofs.Bind
/-! # Round trip: entries that fit are all stored; flat structs -/
namespace Bclv.Bind
open Bclv

/-- What the round trip needs of one entry: it is a plain value whose key resolves to the
top-level field `i`, exported, of the value's own type. -/
structure EntryFits (id : Nat) (tfs : TFields) (tagged : List (List Char × Nat)) (it : Item) (i : Nat) (g : GV) : Prop where
  isVal : ∃ k x, it = .val k x ∧ x ≠ .nil ∧
    ∃ hd t, lookupField id tfs tagged (chars k) = some ⟨[i], hd, t⟩ ∧ hd.exported = true ∧ assign x t = some g

theorem overlaps_single (i j : Nat) : overlaps [j] [i] = (j == i) := by simp [overlaps]

/-- Every entry that fits is stored; the pass succeeds; fields no entry aims at keep their
value. -/
theorem setItems_succeeds (copy : Ty → GV → Block → Outcome) (id : Nat) (n : List Char) (tfs : TFields)
    (tagged : List (List Char × Nat)) :
    ∀ (items : List Item) (idx : Item → Nat) (val : Item → GV) (st : BState),
      HasTy st.v (.struct id n tfs) →
      (∀ it ∈ items, EntryFits id tfs tagged it (idx it) (val it)) →
      (items.map idx).Nodup →
      (∀ p ∈ st.stored, ∃ j, p = [j] ∧ j ∉ items.map idx) →
      ∃ v', setItems copy id tfs tagged items st = .ok v' ∧ HasTy v' (.struct id n tfs)
        ∧ (∀ it ∈ items, getPath v' [idx it] = .ok (val it))
        ∧ (∀ j, j ∉ items.map idx → getPath v' [j] = getPath st.v [j])
  | [], idx, val, st, hv, _, _, _ => ⟨st.v, rfl, hv, by simp, fun _ _ => rfl⟩
  | it :: rest, idx, val, st, hv, hfit, hnd, hst => by
    obtain ⟨k, x, hit, hx, hd, t, hl, hex, ha⟩ := (hfit it (by simp)).isVal
    have hvalid := lookupField_valid id n tfs tagged _ _ hl
    simp only at hvalid
    -- the field can be read (a one-step path never meets a nil embedded pointer)
    have hget : ∃ old, getPath st.v [idx it] = .ok old := by
      rcases getPath_valid hvalid st.v hv with ⟨fv, hg, _⟩ | hg
      · exact ⟨fv, hg⟩
      · cases hsv : st.v with
        | struct vals => rw [hsv, getPath_one] at hg; cases hgg : vals.get? (idx it) <;> rw [hgg] at hg <;> cases hg
        | _ => rw [hsv] at hv; cases hv
    obtain ⟨old, hold⟩ := hget
    have hnocoll : (st.stored.any fun p => overlaps p [idx it]) = false := by
      rw [List.any_eq_false]
      intro p hp
      obtain ⟨j, rfl, hj⟩ := hst p hp
      rw [overlaps_single]
      have : j ≠ idx it := fun h => hj (by simp [h])
      simpa using this
    have hstep : setItem copy id tfs tagged st it
        = .ok { v := setPath st.v [idx it] (val it), stored := st.stored ++ [[idx it]] } := by
      subst hit
      simp only [setItem, Item.key, hl, hex, hx, hnocoll, hold, ha]
      simp
    simp only [List.map_cons, List.nodup_cons] at hnd
    obtain ⟨hv1, hread⟩ := setPath_valid hvalid st.v (val it) hv (assign_typed ha) ⟨old, hold⟩
    have hst' : ∀ p ∈ st.stored ++ [[idx it]], ∃ j, p = [j] ∧ j ∉ rest.map idx := by
      intro p hp
      simp only [List.mem_append, List.mem_singleton] at hp
      rcases hp with hp | rfl
      · obtain ⟨j, rfl, hj⟩ := hst p hp
        exact ⟨j, rfl, fun h => hj (by simp [h])⟩
      · exact ⟨idx it, rfl, hnd.1⟩
    obtain ⟨v', hrun, hty, hall, hframe⟩ := setItems_succeeds copy id n tfs tagged rest idx val
      { v := setPath st.v [idx it] (val it), stored := st.stored ++ [[idx it]] } hv1
      (fun it' h' => hfit it' (by simp [h'])) hnd.2 hst'
    refine ⟨v', by unfold setItems; rw [hstep]; exact hrun, hty, ?_, ?_⟩
    · intro it' hit'
      simp only [List.mem_cons] at hit'
      rcases hit' with rfl | hit'
      · rw [hframe (idx it') hnd.1]; exact hread
      · exact hall it' hit'
    · intro j hj
      simp only [List.map_cons, List.mem_cons, not_or] at hj
      rw [hframe j hj.2]
      exact getPath_setPath_frame [idx it] st.v [j] (val it) (by rw [overlaps_single]; simpa using Ne.symm hj.1)


/-- A struct type without embedded fields and without `bcl` tags. -/
def flat : TFields → Bool
  | .nil => true
  | .cons h _ r => !h.embedded && h.tag.isEmpty && flat r

def NoMatch (m : List Char → Bool) (fs : TFields) : Prop :=
  ∀ j h t, fs.get? j = some (h, t) → m h.name = false

theorem scanFields_flat_none (m : List Char → Bool) (c : Nat) (pfx : List Nat) :
    ∀ (rest : TFields) (i : Nat) (acc : Acc), flat rest = true → NoMatch m rest →
      scanFields m c pfx rest i acc = some acc
  | .nil, _, _, _, _ => rfl
  | .cons h t r, i, acc, hf, hn => by
    simp only [flat, Bool.and_eq_true, Bool.not_eq_true'] at hf
    have hm : m h.name = false := hn 0 h t rfl
    unfold scanFields
    simp only [hm, hf.1.1]
    simp only [Bool.false_eq_true, if_false]
    exact scanFields_flat_none m c pfx r (i + 1) acc hf.2 (fun j h' t' hg => hn (j + 1) h' t' hg)

theorem scanFields_flat_one (m : List Char → Bool) (c : Nat) (hc : c ≤ 1) (pfx : List Nat) :
    ∀ (rest : TFields) (i : Nat) (acc : Acc) (k : Nat) (h : FieldHdr) (t : Ty), flat rest = true →
      rest.get? k = some (h, t) → m h.name = true →
      (∀ j h' t', j ≠ k → rest.get? j = some (h', t') → m h'.name = false) → acc.res = none →
      scanFields m c pfx rest i acc = some { acc with res := some ⟨pfx ++ [i + k], h, t⟩ }
  | .nil, _, _, k, _, _, _, hg, _, _, _ => by simp [TFields.get?] at hg
  | .cons h0 t0 r, i, acc, k, h, t, hf, hg, hm, hu, hres => by
    simp only [flat, Bool.and_eq_true, Bool.not_eq_true'] at hf
    cases k with
    | zero =>
      simp only [TFields.get?, Option.some.injEq, Prod.mk.injEq] at hg
      obtain ⟨rfl, rfl⟩ := hg
      unfold scanFields
      have hc' : ¬ (c > 1) := by intro hgt; exact absurd hgt (Nat.not_lt.mpr hc)
      simp only [hm, if_true, hres, Option.isSome_none, Bool.or_false, decide_eq_true_eq, hc', if_false]
      have := scanFields_flat_none m c pfx r (i + 1) { acc with res := some ⟨pfx ++ [i], h0, t0⟩ } hf.2
        (fun j h' t' hgj => hu (j + 1) h' t' (by omega) hgj)
      simpa using this
    | succ k =>
      simp only [TFields.get?] at hg
      have hm0 : m h0.name = false := hu 0 h0 t0 (by omega) rfl
      unfold scanFields
      simp only [hm0, hf.1.1, Bool.false_eq_true, if_false]
      have := scanFields_flat_one m c hc pfx r (i + 1) acc k h t hf.2 hg hm
        (fun j h' t' hj hgj => hu (j + 1) h' t' (by omega) hgj) hres
      rw [this, show i + 1 + k = i + (k + 1) by omega]

/-- In a flat struct a name that exactly one field matches resolves to that field. -/
theorem fieldByNameFunc_flat (id : Nat) (fs : TFields) (m : List Char → Bool) (fuel : Nat) (k : Nat) (h : FieldHdr) (t : Ty)
    (hf : flat fs = true) (hg : fs.get? k = some (h, t)) (hm : m h.name = true)
    (hu : ∀ j h' t', j ≠ k → fs.get? j = some (h', t') → m h'.name = false) :
    fieldByNameFunc id fs m (fuel + 1) = some ⟨[k], h, t⟩ := by
  unfold fieldByNameFunc fieldByNameLoop
  simp only [List.isEmpty_cons, Bool.false_eq_true, if_false]
  unfold scanLevel
  simp only [List.contains_nil, Bool.false_eq_true, if_false]
  have := scanFields_flat_one m (cnt [] id) (by simp [cnt]) [] fs 0 {} k h t hf hg hm hu rfl
  rw [this]
  simp [scanLevel]

theorem fieldByNameFunc_flat_none (id : Nat) (fs : TFields) (m : List Char → Bool) (fuel : Nat)
    (hf : flat fs = true) (hn : NoMatch m fs) : fieldByNameFunc id fs m (fuel + 1) = none := by
  unfold fieldByNameFunc fieldByNameLoop
  simp only [List.isEmpty_cons, Bool.false_eq_true, if_false]
  unfold scanLevel
  simp only [List.contains_nil, Bool.false_eq_true, if_false]
  rw [scanFields_flat_none m _ [] fs 0 {} hf hn]
  simp only [scanLevel]
  cases fuel with
  | zero => rfl
  | succ f => simp [fieldByNameLoop]

theorem taggedOf_flat : ∀ (fs : TFields) (i : Nat) (acc : List (List Char × Nat)), flat fs = true → taggedOf fs i acc = acc
  | .nil, _, _, _ => rfl
  | .cons h t r, i, acc, hf => by
    simp only [flat, Bool.and_eq_true] at hf
    unfold taggedOf
    simp only [hf.1.2, if_true]
    exact taggedOf_flat r (i + 1) acc hf.2

/-- No two fields of the struct are spelled alike under the matching rule. -/
def DistinctNames (fs : TFields) : Prop :=
  ∀ j j' h h' t t', j ≠ j' → fs.get? j = some (h, t) → fs.get? j' = some (h', t') → unsnake h.name ≠ unsnake h'.name

/-- **Round trip for a flat struct.**  The struct type has exported fields of the four
supported kinds (or any other types: they are simply not aimed at), no embedded fields, no
tags, no two field names alike under the rule, and no field the rule takes for `Name`;
the block is unnamed and carries, in any order, entries whose keys are spellings of
distinct fields with values of those fields' types.  Then `Bind` succeeds, every entry's
value is in its field, and every other field keeps what it had. -/
theorem roundtrip_flat (fuel id : Nat) (n : List Char) (fs : TFields) (v : GV) (bt : Bytes) (fields : Fields)
    (idx : Item → Nat) (val : Item → GV)
    (hv : HasTy v (.struct id n fs)) (hflat : flat fs = true) (hdist : DistinctNames fs)
    (hexp : ∀ j h t, fs.get? j = some (h, t) → h.exported = true)
    (htn : n = [] ∨ unsnakeEq n (chars bt) = true)
    (hnoName : NoMatch (fun s => unsnakeEq s (cutDot "Name".toList)) fs)
    (hkeys : ((Fields.items fields).map Item.key).Nodup)
    (hidx : ((Fields.items fields).map idx).Nodup)
    (hent : ∀ it ∈ Fields.items fields, ∃ k x h t, it = .val k x ∧ x ≠ .nil ∧ fs.get? (idx it) = some (h, t)
        ∧ unsnakeEq h.name (cutDot (chars k)) = true ∧ assign x t = some (val it)) :
    ∃ v', copyBlock (fuel + 1) (.struct id n fs) v (.mk bt [] fields) = .ok v' ∧ HasTy v' (.struct id n fs)
      ∧ (∀ it ∈ Fields.items fields, getPath v' [idx it] = .ok (val it))
      ∧ (∀ j, j ∉ (Fields.items fields).map idx → getPath v' [j] = getPath v [j]) := by
  have htag : taggedOf fs 0 [] = [] := taggedOf_flat fs 0 [] hflat
  -- every entry fits
  have hfit : ∀ it ∈ sortedItems fields, EntryFits id fs [] it (idx it) (val it) := by
    intro it hit
    obtain ⟨k, x, h, t, rfl, hx, hg, hm, ha⟩ := hent it ((mem_sortedItems fields it).mp hit)
    refine ⟨k, x, rfl, hx, h, t, ?_, hexp _ h t hg, ha⟩
    unfold lookupField
    simp only [List.isEmpty_nil, if_true]
    apply fieldByNameFunc_flat id fs _ 63 _ h t hflat hg hm
    intro j h' t' hj hgj
    cases hu : unsnakeEq h'.name (cutDot (chars k)) with
    | false => rfl
    | true =>
      exfalso
      apply hdist j (idx (.val k x)) h' h t' t hj hgj hg
      simp only [unsnakeEq, beq_iff_eq] at hu hm
      rw [hu, hm]
  have hperm := foldr_insert_perm (Fields.items fields)
  have hnd : ((sortedItems fields).map idx).Nodup := (hperm.map idx).symm.nodup hidx
  unfold copyBlock
  simp only
  have hname : (!n.isEmpty && !unsnakeEq n (chars bt)) = false := by
    rcases htn with rfl | h
    · rfl
    · rw [h]; simp
  rw [hname, htag]
  simp only [Bool.false_eq_true, if_false]
  have hsn : setName id fs [] v [] = .ok { v } := by
    unfold setName lookupField
    simp only [List.isEmpty_nil, if_true]
    rw [fieldByNameFunc_flat_none id fs _ 63 hflat (by
      intro j h t hg
      have := hnoName j h t hg
      simpa [cutDot] using this)]
  rw [hsn]
  simp only
  obtain ⟨v', hrun, hty, hall, hframe⟩ := setItems_succeeds (copyBlock fuel) id n fs [] (sortedItems fields) idx val { v } hv hfit hnd
    (by intro p hp; simp at hp)
  refine ⟨v', hrun, hty, fun it hit => hall it ((mem_sortedItems fields it).mpr hit), ?_⟩
  intro j hj
  apply hframe j
  intro hj'
  apply hj
  obtain ⟨it, hit, rfl⟩ := List.mem_map.mp hj'
  exact List.mem_map.mpr ⟨it, (mem_sortedItems fields it).mp hit, rfl⟩


end Bclv.Bind
