import Bclv.Model.DumpW
import Bclv.Proofs.DumpLoad
/-!
# `Dump` through the buffered writer produces exactly `dump p`

`dumpW_spec`: for every program the sequence of `Write` calls never indexes past the scratch
slice, the destination receives non-empty writes, and their concatenation is `dump p`.
-/
namespace Bclv.Buf
open Bclv

theorem uvEnc_length_le (x : Nat) : (uvEnc x).length ≤ 9 := by
  unfold uvEnc
  repeat' split
  all_goals simp [beBytes_length]

theorem valueEnc_length_le (v : Value) :
    (valueEnc v).length ≤ 10 + (match v with | .str b => b.length | _ => 0) := by
  cases v with
  | nil => simp [valueEnc]
  | bool b => simp [valueEnc]
  | int i => have := uvEnc_length_le i.toUInt64.toNat; simp [valueEnc]; omega
  | float b => simp [valueEnc, beBytes_length]
  | str s => have := uvEnc_length_le s.length; simp [valueEnc]; omega

/-- The buffer never exceeds its capacity and the destination never sees an empty write. -/
def Wr.Inv (w : Wr) : Prop := w.buf.length ≤ wrCap ∧ ∀ c ∈ w.out, c ≠ []

theorem Wr.write_total (w : Wr) (p : Bytes) : (w.write p).total = w.total ++ p := by
  unfold Wr.write Wr.total
  simp only
  split
  · simp
  · split
    · rename_i h; simp [h]
    · split
      · simp only [List.flatten_append, List.flatten_cons, List.flatten_nil, List.append_nil, List.append_assoc]
        rw [List.take_append_drop]
      · simp only [List.flatten_append, List.flatten_cons, List.flatten_nil, List.append_nil, List.append_assoc]
        rw [List.take_append_drop]

theorem mem_snoc_ne_nil {out : List Bytes} {x : Bytes} (h : ∀ c ∈ out, c ≠ []) (hx : x ≠ []) :
    ∀ c ∈ out ++ [x], c ≠ [] := by
  intro c hc
  rcases List.mem_append.mp hc with hc | hc
  · exact h c hc
  · simp at hc; rw [hc]; exact hx

theorem Wr.write_inv (w : Wr) (p : Bytes) (h : w.Inv) : (w.write p).Inv := by
  obtain ⟨h1, h2⟩ := h
  unfold Wr.write Wr.Inv
  simp only
  split
  · refine ⟨?_, h2⟩
    simp only [List.length_append]; omega
  · rename_i hp
    split
    · rename_i hb
      refine ⟨h1, mem_snoc_ne_nil h2 ?_⟩
      intro e; rw [e] at hp; simp at hp
    · rename_i hb
      have hne : w.buf ++ p.take (wrCap - w.buf.length) ≠ [] := by
        intro e; exact hb (List.append_eq_nil_iff.mp e).1
      split
      · rename_i hl
        exact ⟨hl, mem_snoc_ne_nil h2 hne⟩
      · rename_i hl
        refine ⟨by simp, mem_snoc_ne_nil (mem_snoc_ne_nil h2 hne) ?_⟩
        intro e; rw [e] at hl; simp at hl

theorem Wr.flush_total (w : Wr) : w.flush.out.flatten = w.total := by
  unfold Wr.flush Wr.total
  split
  · rename_i h; simp [h]
  · simp

theorem Wr.flush_out (w : Wr) (h : w.Inv) : ∀ c ∈ w.flush.out, c ≠ [] := by
  unfold Wr.flush
  split
  · exact h.2
  · rename_i hb; exact mem_snoc_ne_nil h.2 hb

theorem put_spec (s : DumpSt) (enc : Bytes) (h : enc.length ≤ s.plen) :
    s.put enc = some { s with w := s.w.write enc } := by
  unfold DumpSt.put; simp [h]

theorem putAll_spec {α} (enc : α → Bytes) : ∀ (as : List α) (s : DumpSt), s.w.Inv →
    (∀ a ∈ as, (enc a).length ≤ s.plen) →
    ∃ s', DumpSt.putAll enc s as = some s' ∧ s'.plen = s.plen ∧ s'.w.Inv
      ∧ s'.w.total = s.w.total ++ encList enc as := by
  intro as
  induction as with
  | nil => intro s hi _; exact ⟨s, rfl, rfl, hi, by simp [encList]⟩
  | cons a as ih =>
    intro s hi hl
    unfold DumpSt.putAll
    rw [put_spec s (enc a) (hl a (List.mem_cons_self ..))]
    obtain ⟨s', e, hp, hi', ht⟩ := ih { s with w := s.w.write (enc a) } (Wr.write_inv _ _ hi)
      (fun b hb => hl b (List.mem_cons_of_mem _ hb))
    refine ⟨s', e, hp, hi', ?_⟩
    rw [ht]; simp only [Wr.write_total, encList, List.append_assoc]

theorem putConsts_spec : ∀ (vs : List Value) (s : DumpSt), s.w.Inv → 10 ≤ s.plen →
    ∃ s', DumpSt.putConsts s vs = some s' ∧ 10 ≤ s'.plen ∧ s'.w.Inv
      ∧ s'.w.total = s.w.total ++ encList valueEnc vs := by
  intro vs
  induction vs with
  | nil => intro s hi hp; exact ⟨s, rfl, hp, hi, by simp [encList]⟩
  | cons v vs ih =>
    intro s hi hp
    unfold DumpSt.putConsts
    generalize hs1 : s.grow v = s1
    have hw : s1.w = s.w := by
      subst hs1; cases v <;> try rfl
      simp only [DumpSt.grow]; split <;> rfl
    have hfit : (valueEnc v).length ≤ s1.plen ∧ 10 ≤ s1.plen := by
      have hv := valueEnc_length_le v
      subst hs1
      cases v with
      | str b =>
        simp only at hv
        simp only [DumpSt.grow]
        split
        · simp only; omega
        · omega
      | nil => simp only [DumpSt.grow] at hv ⊢; omega
      | bool _ => simp only [DumpSt.grow] at hv ⊢; omega
      | int _ => simp only [DumpSt.grow] at hv ⊢; omega
      | float _ => simp only [DumpSt.grow] at hv ⊢; omega
    rw [put_spec s1 _ hfit.1]
    obtain ⟨s', e, hp', hi', ht⟩ := ih { s1 with w := s1.w.write (valueEnc v) }
      (Wr.write_inv _ _ (by rw [hw]; exact hi)) hfit.2
    refine ⟨s', e, hp', hi', ?_⟩
    rw [ht]; simp only [Wr.write_total, encList, List.append_assoc, hw]

/-- **`Dump` through the buffered writer**: it never indexes past its scratch slice, every
write the destination receives is non-empty, and together they are `dump p`. -/
theorem dumpW_spec (p : Prog) :
    ∃ out, dumpW p = some out ∧ out.flatten = dump p ∧ ∀ c ∈ out, c ≠ [] := by
  unfold dumpW
  have h9 : ∀ x, (uvEnc x).length ≤ scratchSize := fun x => by
    have := uvEnc_length_le x; unfold scratchSize; omega
  -- header
  let s0 : DumpSt := { w := ({} : Wr).write (magic ++ [verMajor, verMinor]) }
  have i0 : s0.w.Inv := Wr.write_inv _ _ ⟨by simp [wrCap], by simp⟩
  have t0 : s0.w.total = magic ++ [verMajor, verMinor] := by
    show (({} : Wr).write _).total = _
    rw [Wr.write_total]; rfl
  -- name
  have e1 := put_spec s0 (uvEnc p.name.length) (h9 _)
  let s1 : DumpSt := { s0 with w := (s0.w.write (uvEnc p.name.length)).write p.name }
  have i1 : s1.w.Inv := Wr.write_inv _ _ (Wr.write_inv _ _ i0)
  -- code
  have e2 := put_spec s1 (uvEnc p.code.length) (h9 _)
  let s2 : DumpSt := { s1 with w := (s1.w.write (uvEnc p.code.length)).write p.code }
  have i2 : s2.w.Inv := Wr.write_inv _ _ (Wr.write_inv _ _ i1)
  -- constants
  have e3 := put_spec s2 (uvEnc p.consts.length) (h9 _)
  obtain ⟨s3, e3', hp3, i3, t3⟩ := putConsts_spec p.consts { s2 with w := s2.w.write (uvEnc p.consts.length) }
    (Wr.write_inv _ _ i2) (by show 10 ≤ scratchSize; decide)
  -- positions
  have h9' : ∀ x, (uvEnc x).length ≤ s3.plen := fun x => by have := uvEnc_length_le x; omega
  have e4 := put_spec s3 (uvEnc p.positions.length) (h9' _)
  obtain ⟨s4, e4', hp4, i4, t4⟩ := putAll_spec uvEnc p.positions { s3 with w := s3.w.write (uvEnc p.positions.length) }
    (Wr.write_inv _ _ i3) (fun x _ => h9' x)
  -- line table
  have h9'' : ∀ x, (uvEnc x).length ≤ s4.plen := fun x => by rw [hp4]; exact h9' x
  have e5 := put_spec s4 (uvEnc p.lfs.length) (h9'' _)
  obtain ⟨s5, e5', hp5, i5, t5⟩ := putAll_spec uvEnc p.lfs { s4 with w := s4.w.write (uvEnc p.lfs.length) }
    (Wr.write_inv _ _ i4) (fun x _ => h9'' x)
  refine ⟨s5.w.flush.out, ?_, ?_, Wr.flush_out _ i5⟩
  · simp only [bind, Option.bind, pure]
    rw [e1]; simp only
    rw [e2]; simp only
    rw [e3]; simp only
    rw [e3']; simp only
    rw [e4]; simp only
    rw [e4']; simp only
    rw [e5]; simp only
    rw [e5']
  · rw [Wr.flush_total, t5, Wr.write_total, t4, Wr.write_total, t3, Wr.write_total]
    show ((s1.w.write (uvEnc p.code.length)).write p.code).total ++ _ ++ _ ++ _ ++ _ ++ _ ++ _ = _
    rw [Wr.write_total, Wr.write_total]
    show ((s0.w.write (uvEnc p.name.length)).write p.name).total ++ _ ++ _ ++ _ ++ _ ++ _ ++ _ ++ _ ++ _ = _
    rw [Wr.write_total, Wr.write_total, t0]
    simp [dump, magic]

end Bclv.Buf
