import Bclv.Proofs.Group1
/-!
# The reading relation determines the shape

`Rd` (Group1) is written as a tree grammar.  Here the same reading is written operationally,
as the steps of a precedence-climbing reader over token kinds (`R`, one indexed family for the
three mutually recursive judgements), which is deterministic by inspection of the token ahead
(`R_det`).  Every `Rd` derivation is a run of that reader (`rd_run`, by induction on the
derivation, in continuation form).  Hence `rd_unique`: a token sequence followed by a token
that does not extend it reads as at most one shape.
-/
namespace Bclv

inductive RMode where
  | P (n : Nat)              -- an expression at level n, then the loop
  | L (n : Nat) (left : Sh)  -- the loop at level n with the tree built so far
  | U (ca : Bool)            -- one operand

/-- `R mode ts s rest`: reading `ts` in the given mode yields the shape `s` and leaves `rest` -/
inductive R : RMode → List TokType → Sh → List TokType → Prop
  | expr (n : Nat) (ts r1 r2 : List TokType) (u s : Sh) : R (.U (decide (n ≤ precAssign))) ts u r1 → R (.L n u) r1 s r2 →
      R (.P n) ts s r2
  | step (n : Nat) (left b s : Sh) (c : TokType) (rest r1 r2 : List TokType) : isInfix c → n ≤ opPrec c →
      R (.P (rp c)) rest b r1 → R (.L n (.bin c left b)) r1 s r2 → R (.L n left) (c :: rest) s r2
  | exit (n : Nat) (left : Sh) (c : TokType) (rest : List TokType) : ¬ n ≤ opPrec c →
      R (.L n left) (c :: rest) left (c :: rest)
  | atom (ca : Bool) (t : TokType) (rest : List TokType) : isAtom t →
      ¬ (t = .IDENT ∧ ca = true ∧ rest.head? = some .EQ) → R (.U ca) (t :: rest) .atom rest
  | paren (ca : Bool) (rest r1 : List TokType) (s : Sh) : R (.P precAssign) rest s (.RPAREN :: r1) →
      R (.U ca) (.LPAREN :: rest) s r1
  | pre (ca : Bool) (o : TokType) (rest r1 : List TokType) (s : Sh) : isPreOp o → R (.P (pp o)) rest s r1 →
      R (.U ca) (o :: rest) (.un o s) r1
  | asg (rest r1 : List TokType) (s : Sh) : R (.P precAssign) rest s r1 →
      R (.U true) (.IDENT :: .EQ :: rest) (.asg s) r1

theorem atom_not_pre (t : TokType) (h : isAtom t) : ¬ isPreOp t := by
  unfold isAtom at h; unfold isPreOp
  rcases h with h | h | h | h | h | h | h <;> subst h <;> simp
theorem atom_not_lparen (t : TokType) (h : isAtom t) : t ≠ .LPAREN := by
  unfold isAtom at h
  rcases h with h | h | h | h | h | h | h <;> subst h <;> simp
theorem pre_not_lparen (t : TokType) (h : isPreOp t) : t ≠ .LPAREN := by
  unfold isPreOp at h
  rcases h with h | h | h <;> subst h <;> simp
theorem pre_not_ident (t : TokType) (h : isPreOp t) : t ≠ .IDENT := by
  unfold isPreOp at h
  rcases h with h | h | h <;> subst h <;> simp

/-- **The reader is deterministic.** -/
theorem R_det {m : RMode} {ts : List TokType} {s r} (h1 : R m ts s r) : ∀ {s' r'}, R m ts s' r' → s = s' ∧ r = r' := by
  induction h1 with
  | expr n ts r1 r2 u s _ _ ihu ihl =>
    intro s' r' h2
    cases h2 with
    | expr _ _ r1' _ u' _ hu' hl' =>
      obtain ⟨rfl, rfl⟩ := ihu hu'
      exact ihl hl'
  | step n left b s c rest r1 r2 hinf hle _ _ ihp ihl =>
    intro s' r' h2
    cases h2 with
    | step _ _ b' _ _ _ r1' _ _ _ hp' hl' =>
      obtain ⟨rfl, rfl⟩ := ihp hp'
      exact ihl hl'
    | exit _ _ _ _ hn => exact absurd hle hn
  | exit n left c rest hn =>
    intro s' r' h2
    cases h2 with
    | step _ _ _ _ _ _ _ _ _ hle _ _ => exact absurd hle hn
    | exit => exact ⟨rfl, rfl⟩
  | atom ca t rest hat hne =>
    intro s' r' h2
    cases h2 with
    | atom => exact ⟨rfl, rfl⟩
    | paren => exact absurd rfl (atom_not_lparen _ hat)
    | pre _ _ _ _ _ hp _ => exact absurd hp (atom_not_pre _ hat)
    | asg => exact absurd ⟨rfl, rfl, rfl⟩ hne
  | paren ca rest r1 s _ ih =>
    intro s' r' h2
    cases h2 with
    | atom _ _ _ hat _ => exact absurd rfl (atom_not_lparen _ hat)
    | paren _ _ _ _ hp' =>
      obtain ⟨rfl, h⟩ := ih hp'
      exact ⟨rfl, by simpa using h⟩
    | pre _ _ _ _ _ hp _ => exact absurd rfl (pre_not_lparen _ hp)
  | pre ca o rest r1 s hpre _ ih =>
    intro s' r' h2
    cases h2 with
    | atom _ _ _ hat _ => exact absurd hpre (atom_not_pre _ hat)
    | paren => exact absurd rfl (pre_not_lparen _ hpre)
    | pre _ _ _ _ _ _ hp' =>
      obtain ⟨rfl, rfl⟩ := ih hp'
      exact ⟨rfl, rfl⟩
    | asg => exact absurd rfl (pre_not_ident _ hpre)
  | asg rest r1 s _ ih =>
    intro s' r' h2
    cases h2 with
    | atom _ _ _ _ hne => exact absurd ⟨rfl, rfl, rfl⟩ hne
    | pre _ _ _ _ _ hp _ => exact absurd rfl (pre_not_ident _ hp)
    | asg _ _ _ hp' =>
      obtain ⟨rfl, rfl⟩ := ih hp'
      exact ⟨rfl, rfl⟩

theorem rp_ge_two (o : TokType) (h : isInfix o) : 2 ≤ rp o ∧ 2 ≤ lp o ∧ 2 ≤ opPrec o ∧ o ≠ .EQ := by
  unfold isInfix at h
  cases o <;> simp [getRule] at h <;> simp [rp, lp, opPrec, isLogic, getRule]

theorem pp_ge (o : TokType) : 4 ≤ pp o := by unfold pp precNot precUnary; split <;> omega

/-- **Every derivation of the reading relation is a run of the reader**, in continuation form:
whatever the level-`n` loop makes of the rest with the shape `s` in hand, reading at level `n`
from the start of `ts` makes the same. -/
theorem rd_run {m : Nat} {s : Sh} {ts : List TokType} {k : Nat} (h : Rd m s ts k) :
    ∀ (n : Nat), 1 ≤ n → n ≤ m → ∀ (c : TokType) (rest : List TokType), opPrec c = k → (n ≤ precAssign → c ≠ .EQ) →
      ∀ s2 r2, R (.L n s) (c :: rest) s2 r2 → R (.P n) (ts ++ c :: rest) s2 r2 := by
  induction h with
  | atom m t k hat =>
    intro n _ _ c rest _ hceq s2 r2 hl
    refine R.expr n _ (c :: rest) r2 .atom s2 (R.atom _ t _ hat ?_) hl
    rintro ⟨_, hca, hhead⟩
    exact hceq (by simpa using hca) (by simpa using hhead)
  | paren m s ts k _ ih =>
    intro n _ _ c rest _ _ s2 r2 hl
    refine R.expr n _ (c :: rest) r2 s s2 (R.paren _ _ _ s ?_) hl
    have := ih precAssign (by decide) (Nat.le_refl _) .RPAREN (c :: rest) rfl (fun _ => by decide) s (.RPAREN :: c :: rest)
      (R.exit _ _ _ _ (by decide))
    simpa [List.append_assoc] using this
  | un m o s ts k hpre _ hlt ih =>
    intro n _ _ c rest hk _ s2 r2 hl
    refine R.expr n _ (c :: rest) r2 (.un o s) s2 (R.pre _ o _ _ s hpre ?_) hl
    have h4 := pp_ge o
    exact ih (pp o) (by omega) (Nat.le_refl _) c rest hk (fun h => by unfold precAssign at h; omega) s (c :: rest)
      (R.exit _ _ _ _ (by rw [hk]; omega))
  | bin m o a b ta tb k hinf hm _ _ hlt iha ihb =>
    intro n hn1 hnm c rest hk _ s2 r2 hl
    obtain ⟨h2r, h2l, h2p, hoeq⟩ := rp_ge_two o hinf
    have hlp : opPrec o ≤ lp o := by unfold lp; split <;> omega
    have hb := ihb (rp o) (by omega) (Nat.le_refl _) c rest hk (fun h => by unfold precAssign at h; omega) b (c :: rest)
      (R.exit _ _ _ _ (by rw [hk]; omega))
    have := iha n hn1 (by omega) o (tb ++ c :: rest) rfl (fun _ => hoeq) s2 r2
      (R.step n a b s2 o _ (c :: rest) r2 hinf (by omega) hb hl)
    simpa [List.append_assoc] using this
  | asg s ts k _ hlt ih =>
    intro n hn1 hnm c rest hk hceq s2 r2 hl
    have hn : n = precAssign := by unfold precAssign at hnm ⊢; omega
    subst hn
    refine R.expr _ _ (c :: rest) r2 (.asg s) s2 ?_ hl
    have := ih precAssign (by decide) (Nat.le_refl _) c rest hk hceq s (c :: rest) (R.exit _ _ _ _ (by rw [hk]; omega))
    exact R.asg _ _ s this

/-- **A token sequence reads as at most one shape**: at a level `n`, followed by a token `c`
that binds less tightly than `n` (and is not `=` where an assignment could stand). -/
theorem rd_unique {n : Nat} {s s' : Sh} {ts : List TokType} {k : Nat} (h : Rd n s ts k) (h' : Rd n s' ts k)
    (hn : 1 ≤ n) (hk : k < n) (c : TokType) (hc : opPrec c = k) (hceq : n ≤ precAssign → c ≠ .EQ) : s = s' := by
  have hx : ¬ n ≤ opPrec c := by rw [hc]; omega
  have r1 := rd_run h n hn (Nat.le_refl _) c [] hc hceq s [c] (R.exit _ _ _ _ hx)
  have r2 := rd_run h' n hn (Nat.le_refl _) c [] hc hceq s' [c] (R.exit _ _ _ _ hx)
  exact (R_det r1 r2).1

/-- a reading stays a reading at any lower level -/
theorem rd_level_mono {m : Nat} {s : Sh} {ts : List TokType} {k : Nat} (h : Rd m s ts k) :
    ∀ n, 1 ≤ n → n ≤ m → Rd n s ts k := by
  induction h with
  | atom m t k hat => intro n _ _; exact Rd.atom n t k hat
  | paren m s ts k hin _ => intro n _ _; exact Rd.paren n s ts k hin
  | un m o s ts k hpre hin hlt _ => intro n _ _; exact Rd.un n o s ts k hpre hin hlt
  | bin m o a b ta tb k hinf hm ha hb hlt _ _ => intro n _ hn; exact Rd.bin n o a b ta tb k hinf (by omega) ha hb hlt
  | asg s ts k hin hlt _ =>
    intro n h1 hn
    have : n = precAssign := by unfold precAssign at hn ⊢; omega
    subst this; exact Rd.asg s ts k hin hlt

/-- …and whatever follows, as long as it binds no tighter -/
theorem rd_follow_mono {m : Nat} {s : Sh} {ts : List TokType} {k : Nat} (h : Rd m s ts k) :
    ∀ k', k' ≤ k → Rd m s ts k' := by
  induction h with
  | atom m t k hat => intro k' _; exact Rd.atom m t k' hat
  | paren m s ts k hin _ => intro k' _; exact Rd.paren m s ts k' hin
  | un m o s ts k hpre _ hlt ih => intro k' hk; exact Rd.un m o s ts k' hpre (ih k' hk) (by omega)
  | bin m o a b ta tb k hinf hm ha _ hlt _ ihb => intro k' hk; exact Rd.bin m o a b ta tb k' hinf hm ha (ihb k' hk) (by omega)
  | asg s ts k _ hlt ih => intro k' hk; exact Rd.asg s ts k' (ih k' hk) (by omega)

/-- **Parentheses around anything that reads as a shape read as that shape, anywhere.** -/
theorem rd_paren_any {m : Nat} {s : Sh} {ts : List TokType} {k : Nat} (h : Rd m s ts k) (hm : 1 ≤ m) (n k' : Nat) :
    Rd n s (.LPAREN :: (ts ++ [.RPAREN])) k' :=
  Rd.paren n s ts k' (rd_follow_mono (rd_level_mono h precAssign (by decide) (by unfold precAssign; omega)) 0 (Nat.zero_le _))

end Bclv
