import Bclv.Proofs.Group1
namespace Bclv

/-- the precedence of the token ahead -/
def fprec (p : PState) : Nat := opPrec p.cur.typ

def PPpostT (prec : Nat) (p : PState) : Expr → PState → Prop := fun e p' =>
  GM p p' ∧ (NE p' → ∃ sk, Skips sk p p' ∧ Rd prec (shape e) (typs sk) (fprec p') ∧ fprec p' < prec)

def ILpostT (prec : Nat) (L : List TokType) (p : PState) : Expr → PState → Prop := fun e p' =>
  GM p p' ∧ (NE p' → ∃ sk, Skips sk p p' ∧ Rd prec (shape e) (L ++ typs sk) (fprec p') ∧ fprec p' < prec)

def PRpostT (ca : Bool) (p : PState) : Expr → PState → Prop := fun e p' =>
  GM p p' ∧ (NE p' → ∃ sk, Skips sk p p' ∧
    ((∀ n, Rd n (shape e) (p.prev.typ :: typs sk) (fprec p')) ∨
     (ca = true ∧ Rd precAssign (shape e) (p.prev.typ :: typs sk) (fprec p') ∧ fprec p' = 0)))

theorem parsePrecedence_t_step (f : Nat)
    (ihIL : ∀ prec left L p, 1 ≤ prec → GInv p → (NE p → LeftOK prec (shape left) L (fprec p)) →
      wp (infixLoop prec left f) (ILpostT prec L p) p)
    (ihPR : ∀ rule ca p, GInv p → (getRule p.prev.typ).pre = some rule → wp (prefixRule rule ca f) (PRpostT ca p) p)
    (prec : Nat) (p : PState) (hprec : 1 ≤ prec) (hi : GInv p) :
    wp (parsePrecedence prec (f+1)) (PPpostT prec p) p := by
  unfold parsePrecedence
  rw [wp_bind]
  apply wp_mono (advance_cons p hi)
  intro _ p1 hq1
  obtain ⟨hg1, hprev, hsk1⟩ := hq1
  rw [wp_bind, wp_get]
  split
  · rw [wp_bind]
    apply wp_mono (error_wp _ p1 hg1.inv)
    intro _ p2 hq2
    rw [wp_pure]
    exact ⟨hg1.trans hq2.1, fun hne => absurd hne (ne_false_of_err hq2.2)⟩
  · rename_i rule hrule
    have hne0 : p.cur.typ.isEnd = false := by
      cases he : p.cur.typ.isEnd with
      | false => rfl
      | true =>
        have := (rule_of_end _ he).1
        rw [hprev] at hrule
        rw [this] at hrule; cases hrule
    rw [wp_bind]
    apply wp_mono (ihPR rule (decide (prec ≤ precAssign)) p1 hg1.inv hrule)
    intro e p2 hq2
    obtain ⟨hg2, hpr⟩ := hq2
    have fin : ∀ (e' : Expr) (p3 : PState), GM p p3 →
        (NE p3 → ∃ sk, Skips sk p p3 ∧ Rd prec (shape e') (typs sk) (fprec p3) ∧ fprec p3 < prec) →
        wp (do
          if prec ≤ precAssign then
            if (← «match» .EQ) = true then error (str "invalid assignment target")
          return e') (PPpostT prec p) p3 := by
      intro e' p3 hg3 h3
      split
      · rw [wp_bind]
        apply wp_mono (match_cons .EQ (by decide) p3 hg3.inv)
        intro b p4 hq4
        obtain ⟨hg4, hf4, _⟩ := hq4
        split
        · rw [wp_bind]
          apply wp_mono (error_wp _ p4 hg4.inv)
          intro _ p5 hq5
          rw [wp_pure]
          exact ⟨(hg3.trans hg4).trans hq5.1, fun hne => absurd hne (ne_false_of_err hq5.2)⟩
        · rename_i hb
          obtain ⟨rfl, _⟩ := hf4 (by simpa using hb)
          rw [wp_pure]
          exact ⟨hg3, h3⟩
      · rw [wp_pure]
        exact ⟨hg3, h3⟩
    by_cases hne2 : NE p2
    · obtain ⟨sk2, hs2, halt⟩ := hpr hne2
      have hne1 : NE p1 := hg2.ne hne2
      have hs1 := hsk1 hne1.1 hne0
      rw [wp_bind]
      apply wp_mono (ihIL prec e (p1.prev.typ :: typs sk2) p2 hprec hg2.inv (fun _ => by
        rcases halt with h | ⟨hca, h, hstop⟩
        · exact ⟨h _, fun c _ _ _ => h _⟩
        · have hp1 : prec = precAssign := by
            have : prec ≤ precAssign := by simpa using hca
            unfold precAssign at this ⊢; omega
          refine ⟨by rw [hp1]; exact h, fun c _ _ hle => ?_⟩
          rw [hstop] at hle; omega))
      intro e' p3 hq3
      obtain ⟨hg3, hil⟩ := hq3
      apply fin e' p3 ((hg1.trans hg2).trans hg3)
      intro hne3
      obtain ⟨sk3, hs3, hr3, hstop3⟩ := hil hne3
      refine ⟨[p.cur] ++ sk2 ++ sk3, (hs1.trans hs2).trans hs3, ?_, hstop3⟩
      have htoks : typs ([p.cur] ++ sk2 ++ sk3) = (p1.prev.typ :: typs sk2) ++ typs sk3 := by
        rw [hprev]; simp
      rw [htoks]
      exact hr3
    · rw [wp_bind]
      apply wp_mono (ihIL prec e [] p2 hprec hg2.inv (fun h => absurd h hne2))
      intro e' p3 hq3
      apply fin e' p3 ((hg1.trans hg2).trans hq3.1)
      intro hne3
      exact absurd (hq3.1.ne hne3) hne2

theorem rp_binary (c : TokType) (h : (getRule c).inf = some .binary) : rp c = (getRule c).prec + 1 := by
  unfold rp; rw [(binary_not_logic c h).1]; rfl

theorem infixLoop_t_step (f : Nat)
    (ihPP : ∀ prec p, 1 ≤ prec → GInv p → wp (parsePrecedence prec f) (PPpostT prec p) p)
    (ihIL : ∀ prec left L p, 1 ≤ prec → GInv p → (NE p → LeftOK prec (shape left) L (fprec p)) →
      wp (infixLoop prec left f) (ILpostT prec L p) p)
    (prec : Nat) (left : Expr) (L : List TokType) (p : PState) (hprec : 1 ≤ prec) (hi : GInv p)
    (hL : NE p → LeftOK prec (shape left) L (fprec p)) :
    wp (infixLoop prec left (f+1)) (ILpostT prec L p) p := by
  unfold infixLoop
  rw [wp_bind, wp_get]
  split
  · rename_i hcond
    have hinf : isInfix p.cur.typ := infix_of_prec _ (by omega)
    have hne0 : p.cur.typ.isEnd = false := by
      cases he : p.cur.typ.isEnd with
      | false => rfl
      | true => have := (rule_of_end _ he).2; rw [this] at hcond; omega
    have hLc : NE p → Rd (lp p.cur.typ) (shape left) L (opPrec p.cur.typ) :=
      fun hne => (hL hne).2 p.cur.typ hinf rfl hcond
    rw [wp_bind]
    apply wp_mono (advance_cons p hi)
    intro _ p1 hq1
    obtain ⟨hg1, hprev, hsk1⟩ := hq1
    rw [wp_bind, wp_get]
    -- once the right operand is parsed, go round again
    have again : ∀ (e : Expr) (p2 : PState), GM p1 p2 →
        (NE p2 → ∃ sk b, Skips sk p1 p2 ∧ Rd (rp p.cur.typ) b (typs sk) (fprec p2) ∧ fprec p2 < rp p.cur.typ ∧
          shape e = .bin p.cur.typ (shape left) b) →
        wp (infixLoop prec e f) (ILpostT prec L p) p2 := by
      intro e p2 hg2 h2
      by_cases hne2 : NE p2
      · obtain ⟨sk2, b, hs2, hr2, hlt2, hsh⟩ := h2 hne2
        have hne1 : NE p1 := hg2.ne hne2
        have hnep : NE p := hg1.ne hne1
        have hs1 := hsk1 hne1.1 hne0
        have hL' : LeftOK prec (shape e) (L ++ p.cur.typ :: typs sk2) (fprec p2) := by
          rw [hsh]
          refine ⟨Rd.bin prec _ _ _ _ _ _ hinf hcond (hLc hnep) hr2 hlt2, fun c2 hc2 hk _ => ?_⟩
          exact Rd.bin (lp c2) _ _ _ _ _ _ hinf (lp_le_of_follow _ c2 hinf hc2 (by rw [hk]; exact hlt2)) (hLc hnep) hr2 hlt2
        apply wp_mono (ihIL prec e (L ++ p.cur.typ :: typs sk2) p2 hprec hg2.inv (fun _ => hL'))
        intro e' p3 hq3
        refine ⟨(hg1.trans hg2).trans hq3.1, fun hne3 => ?_⟩
        obtain ⟨sk3, hs3, hr3, hstop⟩ := hq3.2 hne3
        refine ⟨[p.cur] ++ sk2 ++ sk3, (hs1.trans hs2).trans hs3, ?_, hstop⟩
        simpa [List.append_assoc] using hr3
      · apply wp_mono (ihIL prec e [] p2 hprec hg2.inv (fun h => absurd h hne2))
        intro e' p3 hq3
        exact ⟨(hg1.trans hg2).trans hq3.1, fun hne3 => absurd (hq3.1.ne hne3) hne2⟩
    dsimp only
    split
    · rename_i hbin
      rw [hprev] at hbin
      rw [wp_bind]
      apply wp_mono (ihPP _ p1 (Nat.succ_le_succ (Nat.zero_le _)) hg1.inv)
      intro rhs p2 hq2
      have h2 : ∀ op, binOpOf p.cur.typ = some op → ∀ pos, NE p2 → ∃ sk b, Skips sk p1 p2 ∧ Rd (rp p.cur.typ) b (typs sk) (fprec p2) ∧
          fprec p2 < rp p.cur.typ ∧ shape (Expr.bin op left rhs pos) = .bin p.cur.typ (shape left) b := by
        intro op hop pos hne
        obtain ⟨sk, hs, hk, hlt⟩ := hq2.2 hne
        rw [hprev] at hk hlt
        have hrp := rp_binary _ hbin
        exact ⟨sk, shape rhs, hs, by rw [hrp]; exact hk, by rw [hrp]; exact hlt, by simp only [shape, tokOfBin_binOpOf _ _ hop]⟩
      split
      · rename_i op hop
        rw [hprev] at hop
        rw [wp_bind, wp_get, wp_bind, wp_pure]; exact again _ p2 hq2.1 (h2 op hop _)
      · rename_i hnone
        rw [hprev] at hnone
        obtain ⟨op, hop⟩ := binOpOf_of_binary _ hbin
        rw [hop] at hnone; cases hnone
    · rename_i hand
      rw [hprev] at hand
      have hc : p.cur.typ = .AND := logic_of_and _ hand
      rw [wp_bind, wp_get, wp_bind]
      apply wp_mono (ihPP precAnd p1 (by decide) hg1.inv)
      intro rhs p2 hq2
      split
      · rw [wp_bind]
        apply wp_mono (error_wp _ p2 hq2.1.inv)
        intro _ p3 hq3
        rw [wp_bind, wp_pure]
        exact again _ p3 (hq2.1.trans hq3.1) (fun hne => absurd hne (ne_false_of_err hq3.2))
      · rw [wp_bind, wp_pure]
        apply again _ p2 hq2.1
        intro hne
        obtain ⟨sk, hs, hk, hlt⟩ := hq2.2 hne
        refine ⟨sk, shape rhs, hs, ?_, ?_, ?_⟩
        · rw [hc]; exact hk
        · rw [hc]; exact hlt
        · rw [hc]; rfl
    · rename_i hor
      rw [hprev] at hor
      have hc : p.cur.typ = .OR := logic_of_or _ hor
      rw [wp_bind, wp_get, wp_bind]
      apply wp_mono (ihPP precOr p1 (by decide) hg1.inv)
      intro rhs p2 hq2
      split
      · rw [wp_bind]
        apply wp_mono (error_wp _ p2 hq2.1.inv)
        intro _ p3 hq3
        rw [wp_bind, wp_pure]
        exact again _ p3 (hq2.1.trans hq3.1) (fun hne => absurd hne (ne_false_of_err hq3.2))
      · rw [wp_bind, wp_pure]
        apply again _ p2 hq2.1
        intro hne
        obtain ⟨sk, hs, hk, hlt⟩ := hq2.2 hne
        refine ⟨sk, shape rhs, hs, ?_, ?_, ?_⟩
        · rw [hc]; exact hk
        · rw [hc]; exact hlt
        · rw [hc]; rfl
    · rename_i hnone
      exfalso
      unfold isInfix at hinf
      rw [hprev] at hnone
      exact hinf hnone
  · rename_i hcond
    rw [wp_pure]
    refine ⟨GM.refl hi, fun hne => ⟨[], rfl, ?_, by unfold fprec opPrec; omega⟩⟩
    simpa using (hL hne).1

theorem prefixRule_t_step (f : Nat)
    (ihPP : ∀ prec p, 1 ≤ prec → GInv p → wp (parsePrecedence prec f) (PPpostT prec p) p)
    (rule : Prefix) (ca : Bool) (p : PState) (hi : GInv p) (hrule : (getRule p.prev.typ).pre = some rule) :
    wp (prefixRule rule ca (f+1)) (PRpostT ca p) p := by
  have hcases := pre_cases _ _ hrule
  -- a literal or a name by itself
  have atomic : isAtom p.prev.typ → ∀ (e : Expr) (p1 : PState), shape e = .atom → GM p p1 → p1.cur = p.cur → p1.rest = p.rest →
      PRpostT ca p e p1 := by
    intro hat e p1 hsh hg hc hr
    refine ⟨hg, fun _ => ⟨[], by unfold Skips; rw [hc, hr]; rfl, .inl (fun n => ?_)⟩⟩
    rw [hsh]
    simpa using Rd.atom n _ (fprec p1) hat
  have failed : ∀ (e : Expr) (p1 : PState), GM p p1 → p1.hadError = true → PRpostT ca p e p1 :=
    fun e p1 hg he => ⟨hg, fun hne => absurd hne (ne_false_of_err he)⟩
  unfold prefixRule
  rw [wp_bind, wp_get]
  cases rule with
  | parens =>
    have htyp : p.prev.typ = .LPAREN := by
      rcases hcases with h | h | h | h | h | h | h | h | h <;> first | exact h.2 | (cases h.1)
    simp only
    rw [wp_bind]
    apply wp_mono (ihPP _ p (by decide) hi)
    intro e p1 hq1
    rw [wp_bind]
    apply wp_mono (consume_cons .RPAREN _ (by decide) p1 hq1.1.inv)
    intro _ p2 hq2
    rw [wp_pure]
    refine ⟨hq1.1.trans hq2.1, fun hne => ?_⟩
    obtain ⟨ht, _, hs2⟩ := hq2.2 hne.1
    obtain ⟨sk1, hs1, hk1, hlt1⟩ := hq1.2 (hq2.1.ne hne)
    have hz : fprec p1 = 0 := by unfold precAssign at hlt1; omega
    rw [hz] at hk1
    refine ⟨sk1 ++ [p1.cur], hs1.trans hs2, .inl (fun n => ?_)⟩
    rw [htyp]
    have := Rd.paren n _ _ (fprec p2) hk1
    simpa [ht] using this
  | unary =>
    have htyp : p.prev.typ = .MINUS ∨ p.prev.typ = .PLUS := by
      rcases hcases with h | h | h | h | h | h | h | h | h <;> first | (cases h.1; done) | skip
      exact h.2
    simp only
    rw [wp_bind]
    apply wp_mono (ihPP _ p (by decide) hi)
    intro e p1 hq1
    rw [wp_bind, wp_get, wp_pure]
    refine ⟨hq1.1, fun hne => ?_⟩
    obtain ⟨sk1, hs1, hk1, hlt1⟩ := hq1.2 hne
    refine ⟨sk1, hs1, .inl (fun n => ?_)⟩
    rcases htyp with h | h
    · have := Rd.un n .MINUS _ _ _ (by simp [isPreOp]) hk1 hlt1
      simpa [shape, tokOfUn, h] using this
    · have := Rd.un n .PLUS _ _ _ (by simp [isPreOp]) hk1 hlt1
      simpa [shape, tokOfUn, h] using this
  | boolNot =>
    have htyp : p.prev.typ = .NOT := by
      rcases hcases with h | h | h | h | h | h | h | h | h <;> first | (cases h.1; done) | skip
      exact h.2
    simp only
    rw [wp_bind]
    apply wp_mono (ihPP _ p (by decide) hi)
    intro e p1 hq1
    rw [wp_bind, wp_get, wp_pure]
    refine ⟨hq1.1, fun hne => ?_⟩
    obtain ⟨sk1, hs1, hk1, hlt1⟩ := hq1.2 hne
    refine ⟨sk1, hs1, .inl (fun n => ?_)⟩
    have := Rd.un n .NOT _ _ _ (by simp [isPreOp]) hk1 hlt1
    simpa [shape, tokOfUn, htyp] using this
  | intLit =>
    have hat : isAtom p.prev.typ := by
      rcases hcases with h | h | h | h | h | h | h | h | h <;> first | (cases h.1; done) | skip
      rw [h.2]; simp [isAtom]
    simp only
    split
    · rw [wp_bind]
      apply wp_mono (error_wp _ p hi)
      intro _ p1 hq1
      rw [wp_pure]; exact failed _ p1 hq1.1 hq1.2
    · rw [wp_pure]; exact atomic hat _ p rfl (GM.refl hi) rfl rfl
    · rw [wp_pure]; exact atomic hat _ p rfl (GM.refl hi) rfl rfl
    · rw [wp_bind]
      apply wp_tf (makeConst_gr _) (makeConst_tf _) hi
      intro idx p1 hg hc hr _
      rw [wp_pure]; exact atomic hat _ p1 rfl hg hc hr
  | floatLit =>
    have hat : isAtom p.prev.typ := by
      rcases hcases with h | h | h | h | h | h | h | h | h <;> first | (cases h.1; done) | skip
      rw [h.2]; simp [isAtom]
    simp only
    split
    · rw [wp_bind]
      apply wp_mono (error_wp _ p hi)
      intro _ p1 hq1
      rw [wp_pure]; exact failed _ p1 hq1.1 hq1.2
    · rw [wp_bind]
      apply wp_tf (makeConst_gr _) (makeConst_tf _) hi
      intro idx p1 hg hc hr _
      rw [wp_pure]; exact atomic hat _ p1 rfl hg hc hr
  | stringLit =>
    have hat : isAtom p.prev.typ := by
      rcases hcases with h | h | h | h | h | h | h | h | h <;> first | (cases h.1; done) | skip
      rw [h.2]; simp [isAtom]
    simp only
    split
    · rw [wp_bind]
      apply wp_mono (error_wp _ p hi)
      intro _ p1 hq1
      rw [wp_pure]; exact failed _ p1 hq1.1 hq1.2
    · rw [wp_bind]
      apply wp_tf (makeConst_gr _) (makeConst_tf _) hi
      intro idx p1 hg hc hr _
      rw [wp_pure]; exact atomic hat _ p1 rfl hg hc hr
  | boolLit =>
    have hat : isAtom p.prev.typ := by
      rcases hcases with h | h | h | h | h | h | h | h | h <;> first | (cases h.1; done) | skip
      rcases h.2 with h | h <;> rw [h] <;> simp [isAtom]
    simp only; rw [wp_pure]; exact atomic hat _ p rfl (GM.refl hi) rfl rfl
  | nilLit =>
    have hat : isAtom p.prev.typ := by
      rcases hcases with h | h | h | h | h | h | h | h | h <;> first | (cases h.1; done) | skip
      rw [h.2]; simp [isAtom]
    simp only; rw [wp_pure]; exact atomic hat _ p rfl (GM.refl hi) rfl rfl
  | identRef =>
    have htyp : p.prev.typ = .IDENT := by
      rcases hcases with h | h | h | h | h | h | h | h | h <;> first | (cases h.1; done) | skip
      exact h.2
    have hat : isAtom p.prev.typ := by rw [htyp]; simp [isAtom]
    simp only
    rw [wp_bind, wp_get]
    have assign : ∀ (mk : Expr → Nat → Expr) (alt : Expr) (p1 : PState), (∀ e n, shape (mk e n) = .asg (shape e)) →
        shape alt = .atom → GM p p1 → p1.cur = p.cur → p1.rest = p.rest →
        wp (do
          if ca = true then
            if (← «match» .EQ) = true then
              let e ← parsePrecedence precAssign f
              return mk e (← get).prev.pos
          return alt) (PRpostT ca p) p1 := by
      intro mk alt p1 hmk halt hg1 hc1 hr1
      split
      · rename_i hca
        rw [wp_bind]
        apply wp_mono (match_cons .EQ (by decide) p1 hg1.inv)
        intro b p2 hq2
        obtain ⟨hg2, hf2, ht2⟩ := hq2
        split
        · rename_i hb
          obtain ⟨heq, _, hs2⟩ := ht2 hb
          rw [wp_bind]
          apply wp_mono (ihPP _ p2 (by decide) hg2.inv)
          intro e p3 hq3
          rw [wp_bind, wp_get, wp_pure]
          refine ⟨(hg1.trans hg2).trans hq3.1, fun hne => ?_⟩
          obtain ⟨sk3, hs3, hk3, hstop⟩ := hq3.2 hne
          have hne2 : NE p2 := hq3.1.ne hne
          have hs12 := (hs2 hne2.1).trans hs3
          refine ⟨[p1.cur] ++ sk3, ?_, .inr ⟨hca, ?_, by unfold precAssign at hstop; omega⟩⟩
          · unfold Skips at hs12 ⊢; rw [← hc1, ← hr1]; exact hs12
          · rw [htyp, hmk]
            have := Rd.asg _ _ _ hk3 hstop
            simpa [heq] using this
        · rename_i hb
          obtain ⟨rfl, _⟩ := hf2 (by simpa using hb)
          rw [wp_pure]
          exact atomic hat _ p2 halt hg1 hc1 hr1
      · rw [wp_pure]
        exact atomic hat _ p1 halt hg1 hc1 hr1
    split
    · exact assign _ _ p (fun _ _ => rfl) rfl (GM.refl hi) rfl rfl
    · split
      · rw [wp_bind]
        apply wp_mono (error_wp _ p hi)
        intro _ p1 hq1
        rw [wp_pure]; exact failed _ p1 hq1.1 hq1.2
      · rw [wp_bind]
        apply wp_tf (identConst_gr _) (identConst_tf _) hi
        intro idx p1 hg hc hr _
        exact assign _ _ p1 (fun _ _ => rfl) rfl hg hc hr

/-- **What the expression parser consumes reads as the tree it returns**, by the precedence
table: for `parsePrecedence`, the Pratt loop and the prefix rules, whenever no error is
reported. -/
theorem exprs_rd : ∀ (f : Nat),
    (∀ prec p, 1 ≤ prec → GInv p → wp (parsePrecedence prec f) (PPpostT prec p) p)
    ∧ (∀ prec left L p, 1 ≤ prec → GInv p → (NE p → LeftOK prec (shape left) L (fprec p)) →
        wp (infixLoop prec left f) (ILpostT prec L p) p)
    ∧ (∀ rule ca p, GInv p → (getRule p.prev.typ).pre = some rule → wp (prefixRule rule ca f) (PRpostT ca p) p)
  | 0 => by
    have stuck : ∀ (p p1 : PState), GM p p1 → p1.stuck = true → ¬ NE p1 := fun _ p1 _ h hne => by
      rw [hne.2] at h; cases h
    refine ⟨?_, ?_, ?_⟩
    · intro prec p _ hi
      unfold parsePrecedence
      rw [wp_bind]
      have : wp setStuck (fun _ p' => GM p p' ∧ p'.stuck = true) p := ⟨setStuck_gr.h p hi, rfl⟩
      apply wp_mono this
      intro _ p1 h
      rw [wp_pure]
      exact ⟨h.1, fun hne => absurd hne (stuck p p1 h.1 h.2)⟩
    · intro prec left L p _ hi _
      unfold infixLoop
      rw [wp_bind]
      have : wp setStuck (fun _ p' => GM p p' ∧ p'.stuck = true) p := ⟨setStuck_gr.h p hi, rfl⟩
      apply wp_mono this
      intro _ p1 h
      rw [wp_pure]
      exact ⟨h.1, fun hne => absurd hne (stuck p p1 h.1 h.2)⟩
    · intro rule ca p hi _
      unfold prefixRule
      rw [wp_bind]
      have : wp setStuck (fun _ p' => GM p p' ∧ p'.stuck = true) p := ⟨setStuck_gr.h p hi, rfl⟩
      apply wp_mono this
      intro _ p1 h
      rw [wp_pure]
      exact ⟨h.1, fun hne => absurd hne (stuck p p1 h.1 h.2)⟩
  | f+1 => by
    obtain ⟨ih1, ih2, ih3⟩ := exprs_rd f
    exact ⟨fun prec p hp hi => parsePrecedence_t_step f ih2 ih3 prec p hp hi,
           fun prec left L p hp hi hL => infixLoop_t_step f ih1 ih2 prec left L p hp hi hL,
           fun rule ca p hi hr => prefixRule_t_step f ih1 rule ca p hi hr⟩

/-- an expression as the statement parser calls for it -/
theorem expr_rd (f : Nat) (p : PState) (hi : GInv p) : wp (expr f) (PPpostT precAssign p) p := by
  unfold expr; exact (exprs_rd f).1 _ p (by decide) hi

end Bclv
