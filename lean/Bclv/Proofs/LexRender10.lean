import Bclv.Proofs.LexRender9
/-!
# String literals with arbitrary bytes between the quotes (C20)

UTF-8 facts (`decodeRune_facts`: a rune takes at least one byte; one that starts with a non-ASCII
byte is no ASCII rune; every further byte it takes is a continuation byte), then the scanning
loop of `lexQuote` on any bytes but `"`, `\\` and line feed — multi-byte characters and invalid
UTF-8 included: they all reach the token's text one for one.
-/
namespace Bclv

theorem utf8First_lo (b : UInt8) (sz : Nat) (lo hi : UInt8) (h : utf8First b = some (sz, lo, hi)) :
    0x80 ≤ lo.toNat ∧ hi.toNat ≤ 0xBF ∧ 0xC2 ≤ b.toNat ∧ (sz = 2 → b.toNat ≤ 0xDF) ∧
    (sz = 3 → b.toNat ≤ 0xEF ∧ ((b.toNat = 0xE0 ∧ lo.toNat = 0xA0) ∨ 0xE1 ≤ b.toNat)) ∧
    (sz = 4 → b.toNat ≤ 0xF4 ∧ ((b.toNat = 0xF0 ∧ lo.toNat = 0x90) ∨ 0xF1 ≤ b.toNat)) := by
  unfold utf8First at h
  repeat' split at h
  all_goals (first | (cases h; done) | skip)
  all_goals (simp only [Option.some.injEq, Prod.mk.injEq] at h; obtain ⟨rfl, rfl, rfl⟩ := h)
  all_goals simp only [UInt8.lt_iff_toNat_lt, UInt8.le_iff_toNat_le, ← UInt8.toNat_inj] at *
  all_goals (simp only [UInt8.reduceToNat] at *; refine ⟨by omega, by omega, by omega, ?_, ?_, ?_⟩ <;> intro hh <;> first | omega | exact ⟨by omega, .inl ⟨by omega, trivial⟩⟩ | exact ⟨by omega, .inr (by omega)⟩)

theorem isCont_ge (b : UInt8) (h : isCont b = true) : 0x80 ≤ b.toNat := by
  unfold isCont at h
  simp only [Bool.and_eq_true, decide_eq_true_eq, UInt8.le_iff_toNat_le, UInt8.reduceToNat] at h
  exact h.1

/-- what decoding one rune does: at least one byte; a rune that starts with a non-ASCII byte is not
an ASCII rune; every further byte it takes is a continuation byte -/
theorem decodeRune_facts (b0 : UInt8) (rest : Bytes) :
    1 ≤ (decodeRune (b0 :: rest)).2 ∧
    (0x80 ≤ b0.toNat → (0x80 : Int) ≤ (decodeRune (b0 :: rest)).1) ∧
    (∀ y ∈ rest.take ((decodeRune (b0 :: rest)).2 - 1), 0x80 ≤ y.toNat) := by
  simp only [decodeRune]
  split
  · split
    · rename_i h; simp only [UInt8.lt_iff_toNat_lt, UInt8.reduceToNat] at h
      exact ⟨Nat.le_refl _, fun hh => by omega, by simp⟩
    · exact ⟨Nat.le_refl _, fun _ => by simp [runeError], by simp⟩
  · rename_i sz lo hi hf
    obtain ⟨hlo, hhi, hb, h2, h3, h4⟩ := utf8First_lo b0 sz lo hi hf
    have err : (1 ≤ ((runeError, 1) : Rune × Nat).2 ∧ (0x80 ≤ b0.toNat → (0x80 : Int) ≤ ((runeError, 1) : Rune × Nat).1) ∧
        ∀ y ∈ rest.take (((runeError, 1) : Rune × Nat).2 - 1), 0x80 ≤ y.toNat) :=
      ⟨Nat.le_refl _, fun _ => by simp [runeError], by simp⟩
    cases rest with
    | nil => exact ⟨Nat.le_refl _, fun _ => by simp [runeError], by simp⟩
    | cons b1 r1 =>
      dsimp only
      split
      · exact err
      · split
        · exact err
        · rename_i hr1
          simp only [Bool.or_eq_true, decide_eq_true_eq, not_or, UInt8.not_lt, UInt8.le_iff_toNat_le] at hr1
          have hb1 : 0x80 ≤ b1.toNat := by omega
          split
          · rename_i hsz
            have := h2 hsz
            refine ⟨by simp, fun _ => ?_, ?_⟩
            · show (128 : Int) ≤ ((b0.toNat % 32 * 64 + b1.toNat % 64 : Nat) : Int)
              omega
            · intro y hy; simp at hy; rw [hy]; exact hb1
          · cases r1 with
            | nil => exact err
            | cons b2 r2 =>
              dsimp only
              split
              · exact err
              · rename_i hc2
                have hb2 : 0x80 ≤ b2.toNat := isCont_ge b2 (by simpa using hc2)
                split
                · rename_i hsz
                  obtain ⟨hub, hcase⟩ := h3 hsz
                  refine ⟨by simp, fun _ => ?_, ?_⟩
                  · show (128 : Int) ≤ ((b0.toNat % 16 * 4096 + b1.toNat % 64 * 64 + b2.toNat % 64 : Nat) : Int)
                    have hb1u : b1.toNat < 256 := b1.toNat_lt
                    rcases hcase with ⟨h0, hl⟩ | h0 <;> omega
                  · intro y hy; simp at hy; rcases hy with rfl | rfl <;> assumption
                · cases r2 with
                  | nil => exact err
                  | cons b3 r3 =>
                    dsimp only
                    split
                    · exact err
                    · rename_i hc3
                      have hb3 : 0x80 ≤ b3.toNat := isCont_ge b3 (by simpa using hc3)
                      have hsz : sz = 4 := by
                        rcases utf8First_size b0 sz lo hi hf with h | h | h <;> omega
                      obtain ⟨hub, hcase⟩ := h4 hsz
                      refine ⟨by simp, fun _ => ?_, ?_⟩
                      · show (128 : Int) ≤ ((b0.toNat % 8 * 262144 + b1.toNat % 64 * 4096 + b2.toNat % 64 * 64 + b3.toNat % 64 : Nat) : Int)
                        have hb1u : b1.toNat < 256 := b1.toNat_lt
                        rcases hcase with ⟨h0, hl⟩ | h0 <;> omega
                      · intro y hy; simp at hy; rcases hy with rfl | rfl | rfl <;> assumption


/-- a byte that may stand inside a string literal as itself: anything but `"`, `\` and line feed -/
def strByte (b : UInt8) : Prop := b ≠ 34 ∧ b ≠ 92 ∧ b ≠ 10

theorem strByte_rune (b : UInt8) (rest : Bytes) (h : strByte b) :
    ((decodeRune (b :: rest)).1 == 92) = false ∧
    (((decodeRune (b :: rest)).1 == eofR) || ((decodeRune (b :: rest)).1 == 10)) = false ∧
    ((decodeRune (b :: rest)).1 == 34) = false := by
  by_cases hb : b < 0x80
  · rw [decodeRune_ascii b rest hb]
    obtain ⟨h34, h92, h10⟩ := h
    have a : b.toNat ≠ 34 := fun e => h34 (UInt8.toNat_inj.mp e)
    have c : b.toNat ≠ 92 := fun e => h92 (UInt8.toNat_inj.mp e)
    have d : b.toNat ≠ 10 := fun e => h10 (UInt8.toNat_inj.mp e)
    have a' : (b.toNat : Int) ≠ 34 := by omega
    have c' : (b.toNat : Int) ≠ 92 := by omega
    have d' : (b.toNat : Int) ≠ 10 := by omega
    have e' : (b.toNat : Int) ≠ -1 := by omega
    simp only [beq_eq_false_iff_ne, Bool.or_eq_false_iff, eofR]
    exact ⟨c', ⟨e', d'⟩, a'⟩
  · have hge : 0x80 ≤ b.toNat := by
      simp only [UInt8.lt_iff_toNat_lt, UInt8.reduceToNat] at hb; omega
    have := (decodeRune_facts b rest).2.1 hge
    have a' : (decodeRune (b :: rest)).1 ≠ (34 : Int) := fun h => by rw [h] at this; exact absurd this (by decide)
    have c' : (decodeRune (b :: rest)).1 ≠ (92 : Int) := fun h => by rw [h] at this; exact absurd this (by decide)
    have d' : (decodeRune (b :: rest)).1 ≠ (10 : Int) := fun h => by rw [h] at this; exact absurd this (by decide)
    have e' : (decodeRune (b :: rest)).1 ≠ (-1 : Int) := fun h => by rw [h] at this; exact absurd this (by decide)
    simp only [beq_eq_false_iff_ne, Bool.or_eq_false_iff, eofR]
    exact ⟨c', ⟨e', d'⟩, a'⟩

theorem quoteLoop_bytes : ∀ (n : Nat) (body : Bytes), body.length = n → ∀ (f p w : Nat) (c x : Bytes),
    (∀ b ∈ body, strByte b) → body.length < f →
    quoteLoop Pf f ⟨p, c, body ++ 34 :: x, w⟩ = (true, ⟨p + body.length + 1, 34 :: (body.reverse ++ c), x, 1⟩) := by
  intro n
  induction n using Nat.strongRecOn with
  | _ n ih =>
    intro body hn f p w c x hb hf
    cases body with
    | nil =>
      cases f with
      | zero => simp at hf
      | succ f =>
        show quoteLoop Pf (f+1) ⟨p, c, 34 :: x, w⟩ = _
        unfold quoteLoop
        rw [Pf_next_ascii p w c x 34 (by decide)]
        simp [eofR]
    | cons b body' =>
      cases f with
      | zero => simp at hf
      | succ f =>
        have hsb := hb b (by simp)
        obtain ⟨t92, teof, t34⟩ := strByte_rune b (body' ++ 34 :: x) hsb
        obtain ⟨hw1, _, hcont⟩ := decodeRune_facts b (body' ++ 34 :: x)
        -- the rune does not reach the closing quote
        have hwd : (decodeRune (b :: (body' ++ 34 :: x))).2 - 1 ≤ body'.length := by
          apply Nat.le_of_not_lt
          intro hlt
          have hmem : (34 : UInt8) ∈ (body' ++ 34 :: x).take ((decodeRune (b :: (body' ++ 34 :: x))).2 - 1) := by
            rw [List.take_append]
            apply List.mem_append_right
            have : 0 < (decodeRune (b :: (body' ++ 34 :: x))).2 - 1 - body'.length := by omega
            obtain ⟨k, hk⟩ : ∃ k, (decodeRune (b :: (body' ++ 34 :: x))).2 - 1 - body'.length = k + 1 := ⟨_, (Nat.succ_pred_eq_of_pos this).symm⟩
            rw [hk]; simp
          have := hcont 34 hmem
          simp at this
        generalize hd : decodeRune (b :: (body' ++ 34 :: x)) = d at t92 teof t34 hw1 hwd
        obtain ⟨r, wd⟩ := d
        simp only at t92 teof t34 hw1 hwd
        show quoteLoop Pf (f+1) ⟨p, c, b :: (body' ++ 34 :: x), w⟩ = _
        unfold quoteLoop
        rw [Pf_next_eq]
        simp only [firstRune, hd]
        have hwd0 : wd ≠ 0 := by omega
        simp only [hwd0, if_false]
        rw [t92]
        simp only [Bool.false_eq_true, if_false]
        rw [teof, t34]
        simp only [Bool.false_eq_true, if_false]
        have hle : wd ≤ (b :: body').length := by simp; omega
        have htake : (b :: (body' ++ 34 :: x)).take wd = (b :: body').take wd := by
          rw [show b :: (body' ++ 34 :: x) = (b :: body') ++ 34 :: x by simp, List.take_append_of_le_length hle]
        have hdrop : (b :: (body' ++ 34 :: x)).drop wd = (b :: body').drop wd ++ 34 :: x := by
          rw [show b :: (body' ++ 34 :: x) = (b :: body') ++ 34 :: x by simp, List.drop_append_of_le_length hle]
        rw [htake, hdrop]
        have hlen : ((b :: body').drop wd).length < n := by
          rw [← hn]; simp only [List.length_drop, List.length_cons]; omega
        rw [ih _ hlen ((b :: body').drop wd) rfl f (p + wd) wd _ x
          (fun y hy => hb y (List.mem_of_mem_drop hy)) (by simp only [List.length_drop, List.length_cons] at hf ⊢; omega)]
        congr 2
        · simp only [List.length_drop, List.length_cons] at hle ⊢; omega
        · rw [← List.append_assoc, ← List.reverse_append, List.take_append_drop]

/-- what may stand between the quotes: any byte but `"`, `\` and line feed as itself (multi-byte
characters and invalid UTF-8 included), and a backslash followed by any ASCII byte but a line feed -/
inductive StrBodyB : Bytes → Prop
  | nil : StrBodyB []
  | plain (b : UInt8) (rest : Bytes) : strByte b → StrBodyB rest → StrBodyB (b :: rest)
  | esc (c : UInt8) (rest : Bytes) : c < 0x80 → c ≠ 10 → StrBodyB rest → StrBodyB (92 :: c :: rest)

/-- continuation bytes at the front of a body are plain bytes -/
theorem strBodyB_drop : ∀ (k : Nat) (body : Bytes), StrBodyB body → (∀ y ∈ body.take k, 0x80 ≤ y.toNat) → StrBodyB (body.drop k)
  | 0, _, h, _ => by simpa using h
  | k+1, [], h, _ => by simpa using h
  | k+1, b :: rest, h, hc => by
    have hb : 0x80 ≤ b.toNat := hc b (by simp)
    cases h with
    | plain _ _ _ hr => exact strBodyB_drop k rest hr (fun y hy => hc y (by simp [hy]))
    | esc c rest' _ _ _ => simp at hb

theorem quoteLoop_bodyB : ∀ (n : Nat) (body : Bytes), body.length = n → StrBodyB body → ∀ (f p w : Nat) (c x : Bytes),
    body.length < f →
    quoteLoop Pf f ⟨p, c, body ++ 34 :: x, w⟩ = (true, ⟨p + body.length + 1, 34 :: (body.reverse ++ c), x, 1⟩) := by
  intro n
  induction n using Nat.strongRecOn with
  | _ n ih =>
    intro body hn h f p w c x hf
    cases h with
    | nil => exact quoteLoop_bytes 0 [] rfl f p w c x (by simp) hf
    | esc e rest h80 h10 hr =>
      cases f with
      | zero => simp at hf
      | succ f =>
        show quoteLoop Pf (f+1) ⟨p, c, 92 :: e :: (rest ++ 34 :: x), w⟩ = _
        unfold quoteLoop
        rw [Pf_next_ascii p w c (e :: (rest ++ 34 :: x)) 92 (by decide)]
        dsimp only
        have e2 := Pf_next_ascii (p + 1) 1 (92 :: c) (rest ++ 34 :: x) e h80
        have e3 := esc_tests e h80 h10
        have e4 := ih rest.length (by rw [← hn]; simp; omega) rest rfl hr f (p + 1 + 1) 1 (e :: 92 :: c) x (by simp at hf; omega)
        simp only [show ((((92 : UInt8).toNat : Int) : Rune) == 92) = true from by decide, if_true, e2, e3, e4]
        simp [Nat.add_assoc, Nat.add_comm 1]; omega
    | plain b body' hsb hr =>
      cases f with
      | zero => simp at hf
      | succ f =>
        obtain ⟨t92, teof, t34⟩ := strByte_rune b (body' ++ 34 :: x) hsb
        obtain ⟨hw1, _, hcont⟩ := decodeRune_facts b (body' ++ 34 :: x)
        have hwd : (decodeRune (b :: (body' ++ 34 :: x))).2 - 1 ≤ body'.length := by
          apply Nat.le_of_not_lt
          intro hlt
          have hmem : (34 : UInt8) ∈ (body' ++ 34 :: x).take ((decodeRune (b :: (body' ++ 34 :: x))).2 - 1) := by
            rw [List.take_append]
            apply List.mem_append_right
            have : 0 < (decodeRune (b :: (body' ++ 34 :: x))).2 - 1 - body'.length := by omega
            obtain ⟨k, hk⟩ : ∃ k, (decodeRune (b :: (body' ++ 34 :: x))).2 - 1 - body'.length = k + 1 := ⟨_, (Nat.succ_pred_eq_of_pos this).symm⟩
            rw [hk]; simp
          have := hcont 34 hmem
          simp at this
        have hcont' : ∀ y ∈ body'.take ((decodeRune (b :: (body' ++ 34 :: x))).2 - 1), 0x80 ≤ y.toNat := by
          intro y hy
          apply hcont y
          rw [List.take_append_of_le_length hwd]; exact hy
        generalize hd : decodeRune (b :: (body' ++ 34 :: x)) = d at t92 teof t34 hw1 hwd hcont'
        obtain ⟨r, wd⟩ := d
        simp only at t92 teof t34 hw1 hwd hcont'
        show quoteLoop Pf (f+1) ⟨p, c, b :: (body' ++ 34 :: x), w⟩ = _
        unfold quoteLoop
        rw [Pf_next_eq]
        simp only [firstRune, hd]
        have hwd0 : wd ≠ 0 := by omega
        simp only [hwd0, if_false]
        rw [t92]
        simp only [Bool.false_eq_true, if_false]
        rw [teof, t34]
        simp only [Bool.false_eq_true, if_false]
        have hle : wd ≤ (b :: body').length := by simp; omega
        have htake : (b :: (body' ++ 34 :: x)).take wd = (b :: body').take wd := by
          rw [show b :: (body' ++ 34 :: x) = (b :: body') ++ 34 :: x by simp, List.take_append_of_le_length hle]
        have hdrop : (b :: (body' ++ 34 :: x)).drop wd = (b :: body').drop wd ++ 34 :: x := by
          rw [show b :: (body' ++ 34 :: x) = (b :: body') ++ 34 :: x by simp, List.drop_append_of_le_length hle]
        rw [htake, hdrop]
        have hlen : ((b :: body').drop wd).length < n := by
          rw [← hn]; simp only [List.length_drop, List.length_cons]; omega
        have hrest : StrBodyB ((b :: body').drop wd) := by
          obtain ⟨k, rfl⟩ : ∃ k, wd = k + 1 := ⟨wd - 1, by omega⟩
          simp only [List.drop_succ_cons]
          exact strBodyB_drop k body' hr (by simpa using hcont')
        rw [ih _ hlen ((b :: body').drop wd) rfl hrest f (p + wd) wd _ x
          (by simp only [List.length_drop, List.length_cons] at hf ⊢; omega)]
        congr 2
        · simp only [List.length_drop, List.length_cons] at hle ⊢; omega
        · rw [← List.append_assoc, ← List.reverse_append, List.take_append_drop]

/-- **String literals, any bytes**: whatever stands between the quotes — multi-byte characters,
invalid UTF-8, escapes — reaches the token's text one for one; nothing in there is layout. -/
theorem lexeme_str_bytes (body : Bytes) (h : StrBodyB body) :
    Lexeme (strText body) { typ := .STR, val := strText body } FStr := by
  refine ⟨by simp [strText], 2, by simp [strText], ?_⟩
  intro f n x T hF hf
  unfold runT strText
  simp only [List.cons_append, List.append_assoc, List.singleton_append, List.nil_append]
  rw [show St0 (34 :: (body ++ 34 :: x)) = ⟨0, [], 34 :: (body ++ 34 :: x), 0⟩ from rfl]
  rw [show n + 2 = (n + 1) + 1 from rfl, lexRun,
    start_on_quote f ⟨0, [], 34 :: (body ++ 34 :: x), 0⟩ T (firstRune_ascii 34 _ (by decide))]
  dsimp only
  rw [lexRun]
  have e1 := Pf_next_ascii 0 0 [] (body ++ 34 :: x) 34 (by decide)
  have e2 := quoteLoop_bodyB _ body rfl h f (0 + 1) 1 [34] x (by simp [strText] at hf; omega)
  have e3 := peekR_eq ⟨0 + 1 + body.length + 1, 34 :: (body.reverse ++ [34]), x, 1⟩
  have hF' : isAlphaNumR (firstRune x) = false := hF
  simp only [lexStep, e1, e2, e3, hF', Bool.not_true, Bool.false_eq_true, if_false, emit]
  have : (lexRun Pf f n .start ⟨Pf.ignore ⟨0 + 1 + body.length + 1, 34 :: (body.reverse ++ [34]), x, (decodeRune x).2⟩,
      { typ := .STR, val := Pf.current ⟨0 + 1 + body.length + 1, 34 :: (body.reverse ++ [34]), x, (decodeRune x).2⟩,
        pos := Pf.endPos ⟨0 + 1 + body.length + 1, 34 :: (body.reverse ++ [34]), x, (decodeRune x).2⟩ } :: T⟩).toks
      = (lexRun Pf f n .start ⟨St0 x, { typ := .STR, val := 34 :: (body ++ [34]) } :: T⟩).toks := by
    have hv : Pf.current ⟨0 + 1 + body.length + 1, 34 :: (body.reverse ++ [34]), x, (decodeRune x).2⟩ = 34 :: (body ++ [34]) := by
      simp [Pf, LexPrims.noPos, Whole.prims]
    rw [hv]
    exact lexFrom_indepT f n _ _ _ ⟨rfl, rfl⟩
  exact this

/-- non-vacuity: `"é\t世"` with its multi-byte characters -/
example : StrBodyB [195, 169, 92, 116, 228, 184, 150] :=
  .plain _ _ (by unfold strByte; decide) (.plain _ _ (by unfold strByte; decide) (.esc _ _ (by decide) (by decide)
    (.plain _ _ (by unfold strByte; decide) (.plain _ _ (by unfold strByte; decide) (.plain _ _ (by unfold strByte; decide) .nil)))))

end Bclv
