/-!
# Happens-before, locksets and message passing (C12)

A trace is a list of events of goroutines: memory accesses, mutex acquire/release,
channel send/receive (a receive names the send it got its message from).  Happens-before
is the least transitive relation containing program order, release→later-acquire of the
same mutex and send→its receive.  Two theorems, for *every* trace (every schedule):

* `lockset_ordered`: two accesses made while holding the same mutex are ordered by
  happens-before — no data race on a location all of whose accesses hold its mutex;
* `message_ordered`: an access before a send is ordered before an access after the
  matching receive — a value written before it is handed over a channel is not raced on.

`Spec/Access.lean` instantiates them with the regenerated access table of the library.
-/
namespace Bclv.Race

inductive Kind where
  | acc (loc : Nat) (write : Bool)
  | acq (m : Nat)
  | rel (m : Nat)
  | snd (c : Nat)
  | rcv (c : Nat) (from_ : Nat)      -- position of the matching send in the trace
  deriving DecidableEq, Repr

structure Ev where
  g : Nat
  k : Kind
  deriving DecidableEq, Repr

abbrev Trace := List Ev

/-- Who holds mutex `m` after the events of `tr`, oldest first. -/
def stepHolder (m : Nat) (h : Option Nat) (e : Ev) : Option Nat :=
  match e.k with
  | .acq m' => if m' = m then some e.g else h
  | .rel m' => if m' = m then none else h
  | _ => h

def holder (m : Nat) (tr : Trace) : Option Nat := tr.foldl (stepHolder m) none

/-- Mutex discipline of the runtime: an acquire succeeds only on a free mutex, a release
is done by the holder. -/
def LockOK (tr : Trace) : Prop :=
  ∀ (i : Nat) (e : Ev), tr[i]? = some e →
    (∀ m, e.k = .acq m → holder m (tr.take i) = none) ∧
    (∀ m, e.k = .rel m → holder m (tr.take i) = some e.g)

inductive HB (tr : Trace) : Nat → Nat → Prop
  | po {i j : Nat} {a b : Ev} : i < j → tr[i]? = some a → tr[j]? = some b → a.g = b.g → HB tr i j
  | lock {i j : Nat} {a b : Ev} {m : Nat} : i < j → tr[i]? = some a → tr[j]? = some b →
      a.k = .rel m → b.k = .acq m → HB tr i j
  | msg {i j : Nat} {a b : Ev} {c : Nat} : i < j → tr[i]? = some a → tr[j]? = some b →
      a.k = .snd c → b.k = .rcv c i → HB tr i j
  | trans {i j k : Nat} : HB tr i k → HB tr k j → HB tr i j

theorem holder_take_succ (m : Nat) (tr : Trace) (i : Nat) (e : Ev) (h : tr[i]? = some e) :
    holder m (tr.take (i + 1)) = stepHolder m (holder m (tr.take i)) e := by
  unfold holder
  rw [List.take_add_one, h]
  simp [List.foldl_append]

/-- The acquire that made `g` the holder: the last lock operation on `m` before `j`. -/
theorem last_acquire (m : Nat) (tr : Trace) : ∀ (j : Nat) (g : Nat), j ≤ tr.length →
    holder m (tr.take j) = some g →
    ∃ l e, l < j ∧ tr[l]? = some e ∧ e.g = g ∧ e.k = .acq m ∧
      ∀ t e', l < t → t < j → tr[t]? = some e' → e'.k ≠ .rel m := by
  intro j
  induction j with
  | zero => intro g _ h; simp [holder] at h
  | succ j ih =>
    intro g hj h
    have hlt : j < tr.length := hj
    have he : tr[j]? = some tr[j] := List.getElem?_eq_getElem hlt
    rw [holder_take_succ m tr j _ he] at h
    cases hk : (tr[j]).k with
    | acq m' =>
      by_cases hm : m' = m
      · subst hm
        simp [stepHolder, hk] at h
        exact ⟨j, tr[j], Nat.lt_succ_self j, he, h, hk, fun t e' h1 h2 _ => by omega⟩
      · simp [stepHolder, hk, hm] at h
        obtain ⟨l, e, hl, hle, hg, hkk, hno⟩ := ih g (by omega) h
        refine ⟨l, e, by omega, hle, hg, hkk, ?_⟩
        intro t e' h1 h2 ht
        by_cases htj : t = j
        · subst htj; rw [he] at ht; cases ht; rw [hk]; simp
        · exact hno t e' h1 (by omega) ht
    | rel m' =>
      by_cases hm : m' = m
      · subst hm; simp [stepHolder, hk] at h
      · simp [stepHolder, hk, hm] at h
        obtain ⟨l, e, hl, hle, hg, hkk, hno⟩ := ih g (by omega) h
        refine ⟨l, e, by omega, hle, hg, hkk, ?_⟩
        intro t e' h1 h2 ht
        by_cases htj : t = j
        · subst htj; rw [he] at ht; cases ht; rw [hk]; simp; exact hm
        · exact hno t e' h1 (by omega) ht
    | acc x w =>
      simp [stepHolder, hk] at h
      obtain ⟨l, e, hl, hle, hg, hkk, hno⟩ := ih g (by omega) h
      refine ⟨l, e, by omega, hle, hg, hkk, ?_⟩
      intro t e' h1 h2 ht
      by_cases htj : t = j
      · subst htj; rw [he] at ht; cases ht; rw [hk]; simp
      · exact hno t e' h1 (by omega) ht
    | snd c =>
      simp [stepHolder, hk] at h
      obtain ⟨l, e, hl, hle, hg, hkk, hno⟩ := ih g (by omega) h
      refine ⟨l, e, by omega, hle, hg, hkk, ?_⟩
      intro t e' h1 h2 ht
      by_cases htj : t = j
      · subst htj; rw [he] at ht; cases ht; rw [hk]; simp
      · exact hno t e' h1 (by omega) ht
    | rcv c f =>
      simp [stepHolder, hk] at h
      obtain ⟨l, e, hl, hle, hg, hkk, hno⟩ := ih g (by omega) h
      refine ⟨l, e, by omega, hle, hg, hkk, ?_⟩
      intro t e' h1 h2 ht
      by_cases htj : t = j
      · subst htj; rw [he] at ht; cases ht; rw [hk]; simp
      · exact hno t e' h1 (by omega) ht

/-- While nobody releases `m`, its holder stays. -/
theorem holder_stays (m : Nat) (tr : Trace) (hok : LockOK tr) (i g : Nat)
    (hi : holder m (tr.take i) = some g) : ∀ (d : Nat), i + d ≤ tr.length →
    (∀ t e', i ≤ t → t < i + d → tr[t]? = some e' → e'.k ≠ .rel m) →
    holder m (tr.take (i + d)) = some g := by
  intro d
  induction d with
  | zero => intro _ _; simpa using hi
  | succ d ih =>
    intro hle hno
    have hprev := ih (by omega) (fun t e' h1 h2 => hno t e' h1 (by omega))
    have hlt : i + d < tr.length := by omega
    have he : tr[i + d]? = some tr[i + d] := List.getElem?_eq_getElem hlt
    have : i + (d + 1) = (i + d) + 1 := by omega
    rw [this, holder_take_succ m tr (i + d) _ he, hprev]
    cases hk : (tr[i + d]).k with
    | acq m' =>
      by_cases hm : m' = m
      · subst hm
        have := (hok (i + d) _ he).1 m' hk
        rw [hprev] at this; simp at this
      · simp [stepHolder, hk, hm]
    | rel m' =>
      by_cases hm : m' = m
      · subst hm
        exact absurd hk (hno (i + d) _ (by omega) (by omega) he)
      · simp [stepHolder, hk, hm]
    | acc x w => simp [stepHolder, hk]
    | snd c => simp [stepHolder, hk]
    | rcv c f => simp [stepHolder, hk]

/-- The first release of `m` at or after `i` and before `j`, if there is one. -/
theorem first_release (m : Nat) (tr : Trace) (i : Nat) : ∀ (d : Nat),
    (∃ t e', i ≤ t ∧ t < i + d ∧ tr[t]? = some e' ∧ e'.k = .rel m) →
    ∃ k e, i ≤ k ∧ k < i + d ∧ tr[k]? = some e ∧ e.k = .rel m ∧
      ∀ t e', i ≤ t → t < k → tr[t]? = some e' → e'.k ≠ .rel m := by
  intro d
  induction d with
  | zero => intro ⟨t, _, h1, h2, _⟩; omega
  | succ d ih =>
    intro ⟨t, e', h1, h2, h3, h4⟩
    by_cases hex : ∃ t e', i ≤ t ∧ t < i + d ∧ tr[t]? = some e' ∧ e'.k = .rel m
    · obtain ⟨k, e, a, b, c, dd, f⟩ := ih hex
      exact ⟨k, e, a, by omega, c, dd, f⟩
    · have ht : t = i + d := by
        apply Classical.byContradiction
        intro hne
        exact hex ⟨t, e', h1, by omega, h3, h4⟩
      subst ht
      refine ⟨i + d, e', h1, by omega, h3, h4, ?_⟩
      intro t2 e2 a b c hk
      exact hex ⟨t2, e2, a, b, c, hk⟩

/-- **Lockset theorem.**  In any trace that respects the mutex discipline, two accesses
made by goroutines that hold the same mutex `m` at the time are ordered by
happens-before. -/
theorem lockset_ordered (tr : Trace) (hok : LockOK tr) (m i j : Nat) (a b : Ev) (hij : i < j)
    (hi : tr[i]? = some a) (hj : tr[j]? = some b)
    (ha : ∃ x w, a.k = .acc x w) (_hb : ∃ x w, b.k = .acc x w)
    (hhi : holder m (tr.take i) = some a.g) (hhj : holder m (tr.take j) = some b.g) :
    HB tr i j := by
  by_cases hg : a.g = b.g
  · exact .po hij hi hj hg
  · have hjl : j < tr.length := by
      rcases Nat.lt_or_ge j tr.length with h | h
      · exact h
      · rw [List.getElem?_eq_none h] at hj; simp at hj
    -- somebody released `m` between the two accesses
    have hrel : ∃ t e', i ≤ t ∧ t < i + (j - i) ∧ tr[t]? = some e' ∧ e'.k = .rel m := by
      apply Classical.byContradiction
      intro hno
      have := holder_stays m tr hok i a.g hhi (j - i) (by omega)
        (fun t e' h1 h2 h3 hk => hno ⟨t, e', h1, h2, h3, hk⟩)
      have hji : i + (j - i) = j := by omega
      rw [hji, hhj] at this
      exact hg (Option.some.inj this).symm
    obtain ⟨k, ek, hik, hkj, hek, hkk, hfirst⟩ := first_release m tr i (j - i) hrel
    have hkj' : k < j := by omega
    -- it was the first holder who released
    have hhk : holder m (tr.take k) = some a.g := by
      have := holder_stays m tr hok i a.g hhi (k - i) (by omega)
        (fun t e' h1 h2 h3 => hfirst t e' h1 (by omega) h3)
      have hki : i + (k - i) = k := by omega
      rwa [hki] at this
    have hkg : ek.g = a.g := by
      have := (hok k ek hek).2 m hkk
      rw [hhk] at this
      exact (Option.some.inj this).symm
    have hik' : i < k := by
      rcases Nat.lt_or_ge i k with h | h
      · exact h
      · have : k = i := by omega
        subst this
        rw [hi] at hek; cases hek
        obtain ⟨x, w, hx⟩ := ha
        rw [hx] at hkk; cases hkk
    -- the second goroutine's acquire comes after that release
    obtain ⟨l, el, hlj, hel, hlg, hlk, hnorel⟩ := last_acquire m tr j b.g (by omega) hhj
    have hkl : k < l := by
      rcases Nat.lt_or_ge k l with h | h
      · exact h
      · rcases Nat.lt_or_ge l k with h2 | h2
        · exact absurd hkk (hnorel k ek h2 hkj' hek)
        · have : l = k := by omega
          subst this
          rw [hek] at hel; cases hel
          rw [hkk] at hlk; cases hlk
    exact .trans (.po hik' hi hek hkg.symm) (.trans (.lock hkl hek hel hkk hlk) (.po hlj hel hj hlg))

/-- **Message passing.**  An access that precedes a send in its goroutine happens before
an access that follows the matching receive in the receiving goroutine. -/
theorem message_ordered (tr : Trace) (i s r j : Nat) (a es er b : Ev) (c : Nat)
    (h1 : i < s) (h2 : s < r) (h3 : r < j)
    (hi : tr[i]? = some a) (hs : tr[s]? = some es) (hr : tr[r]? = some er) (hj : tr[j]? = some b)
    (hsk : es.k = .snd c) (hrk : er.k = .rcv c s) (hga : a.g = es.g) (hgb : er.g = b.g) :
    HB tr i j :=
  .trans (.po h1 hi hs hga) (.trans (.msg h2 hs hr hsk hrk) (.po h3 hr hj hgb))

/-- Accesses of one goroutine are ordered (a location only one goroutine touches is not
raced on). -/
theorem confined_ordered (tr : Trace) (i j : Nat) (a b : Ev) (hij : i < j)
    (hi : tr[i]? = some a) (hj : tr[j]? = some b) (hg : a.g = b.g) : HB tr i j :=
  .po hij hi hj hg

/-! non-vacuity: the lexer adds a line feed under the mutex, the parser looks one up -/
def exTrace : Trace :=
  [⟨1, .acq 0⟩, ⟨1, .acc 7 true⟩, ⟨1, .rel 0⟩, ⟨2, .acq 0⟩, ⟨2, .acc 7 false⟩, ⟨2, .rel 0⟩]

example : holder 0 (exTrace.take 1) = some 1 ∧ holder 0 (exTrace.take 4) = some 2 := by decide

end Bclv.Race
