import Bclv.Proofs.ParserScoped6
namespace Bclv

theorem QSs_nil {p0 p : PState} (hpi : PI p) (he : Ext p0 p) (hinit : AllInit p0) : QSs p0 .nil p :=
  ⟨hpi, he.toS, by intro l hl; rw [he.locals] at hl; exact hinit l hl, fun _ => by simp only [ScSs]; rw [he.locals]⟩

/-- one statement followed by the rest of a statement list -/
theorem QSs_cons {p0 p1 p2 p3 : PState} {s : Stmt} {rest : Stmts}
    (h1 : QS p0 s p1) (he : Ext p1 p2) (h2 : QSs p2 rest p3) : QSs p0 (.cons s rest) p3 := by
  refine ⟨h2.1, (h1.2.1.trans_ext he).trans h2.2.1, h2.2.2.1, fun hne => ?_⟩
  have hne2 : NE p2 := h2.2.1.ne hne
  have hne1 : NE p1 := NE.of_ext he hne2
  have hs1 := h1.2.2.2 hne1
  have hs2 := h2.2.2.2 hne
  simp only [ScSs]
  refine ⟨p1.locals.length, ScS_mono (he.consts.trans h2.2.1.consts) _ _ _ _ hs1, ?_⟩
  rw [he.locals, he.depth, h1.2.1.depth] at hs2
  exact hs2

theorem blockLoop_step (f : Nat) (p : PState) (hpi : PI p) (hinit : AllInit p)
    (ihd : ∀ p, PI p → AllInit p → wp (decl f) (QS p) p)
    (ihl : ∀ p, PI p → AllInit p → wp (blockLoop f) (QSs p) p) :
    wp (blockLoop (f+1)) (QSs p) p := by
  unfold blockLoop
  rw [wp_bind]
  apply wp_pres (check_presR _) hpi (Ext.refl p)
  intro b1 p1 hpi1 he1 _
  rw [wp_bind]
  apply wp_pres checkEnd_presR hpi1 he1
  intro b2 p2 hpi2 he2 _
  have hinit2 : AllInit p2 := by intro l hl; rw [he2.locals] at hl; exact hinit l hl
  split
  · rw [wp_pure]; exact QSs_nil hpi2 he2 hinit
  · rw [wp_bind]
    apply wp_mono (ihd p2 hpi2 hinit2)
    intro s p3 hq3
    have hq3' : QS p s p3 := by
      refine ⟨hq3.1, he2.toS.trans hq3.2.1, hq3.2.2.1, fun hne => ?_⟩
      have := hq3.2.2.2 hne
      rw [he2.locals, he2.depth] at this
      exact this
    have tail : ∀ p4, PI p4 → Ext p3 p4 →
        wp (do let _ ← «match» .SEMICOLON; let rest ← blockLoop f; return Stmts.cons s rest) (QSs p) p4 := by
      intro p4 hpi4 he34
      rw [wp_bind]
      apply wp_pres (match_presR _) hpi4 (Ext.refl p4)
      intro _ p5 hpi5 he45 _
      have hinit5 : AllInit p5 := by
        intro l hl; rw [he45.locals, he34.locals] at hl; exact hq3.2.2.1 l hl
      rw [wp_bind]
      apply wp_mono (ihl p5 hpi5 hinit5)
      intro rest p6 hq6
      rw [wp_pure]
      exact QSs_cons hq3' (he34.trans he45) hq6
    rw [wp_bind, wp_get]
    dsimp only
    split
    · rw [wp_bind]
      apply wp_pres advance_presR hq3.1 (Ext.refl p3)
      intro _ p4 hpi4 he34 _
      exact tail p4 hpi4 he34
    · exact tail p3 hq3.1 (Ext.refl p3)

end Bclv
