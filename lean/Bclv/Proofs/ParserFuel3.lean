import Bclv.Proofs.ParserFuel2
namespace Bclv

theorem rule_of_end (t : TokType) (h : t.isEnd = true) : (getRule t).pre = none ∧ (getRule t).prec = 0 := by
  cases t <;> first | (simp [TokType.isEnd, TokType.toNat] at h; done) | exact ⟨rfl, rfl⟩

/-- the step-budget condition: four steps per token still to come, plus `c` -/
def Fuel (c f : Nat) (p : PState) : Prop := 4 * tm p + c ≤ f

theorem parsePrecedence_fuel_step (f : Nat)
    (ihIL : ∀ prec left p, 1 ≤ prec → TE p → Fuel 1 f p → wp (infixLoop prec left f) (fun _ p' => Tk p p') p)
    (ihPR : ∀ rule ca p, TE p → Fuel 3 f p → wp (prefixRule rule ca f) (fun _ p' => Tk p p') p)
    (prec : Nat) (p : PState) (hprec : 1 ≤ prec) (hte : TE p) (hf : Fuel 1 (f+1) p) :
    wp (parsePrecedence prec (f+1)) (fun _ p' => Tk p p' ∧ (p.cur.typ.isEnd = false → tm p' < tm p)) p := by
  unfold parsePrecedence
  rw [wp_bind]
  apply wp_mono (advance_wp p hte)
  intro _ p1 hq1
  obtain ⟨hk1, hlt1, hprev⟩ := hq1
  rw [wp_bind, wp_get]
  split
  · -- no prefix rule
    rw [wp_bind]
    apply wp_tk (error_tkr _) hk1.te
    intro _ p2 hk2
    rw [wp_pure]
    exact ⟨hk1.trans hk2, fun hne => Nat.lt_of_le_of_lt hk2.le (hlt1 hne)⟩
  · rename_i rule hrule
    -- the token just consumed has a prefix rule, so it was not a finalizer
    have hne : p.cur.typ.isEnd = false := by
      cases he : p.cur.typ.isEnd with
      | false => rfl
      | true =>
        have := (rule_of_end _ he).1
        rw [hprev] at hrule
        rw [this] at hrule; cases hrule
    have hlt := hlt1 hne
    unfold Fuel at hf
    rw [wp_bind]
    apply wp_mono (ihPR rule _ p1 hk1.te (by unfold Fuel; omega))
    intro e p2 hk2
    rw [wp_bind]
    apply wp_mono (ihIL prec e p2 hprec hk2.te (by unfold Fuel; have := hk2.le; omega))
    intro e' p3 hk3
    have hk03 : Tk p p3 := (hk1.trans hk2).trans hk3
    have hlt3 : tm p3 < tm p := by have := hk2.le; have := hk3.le; omega
    split
    · rw [wp_bind]
      apply wp_tk (match_tkr _) hk3.te
      intro b p4 hk4
      split
      · rw [wp_bind]
        apply wp_tk (error_tkr _) hk4.te
        intro _ p5 hk5
        rw [wp_pure]
        exact ⟨(hk03.trans hk4).trans hk5, fun _ => by have := hk4.le; have := hk5.le; omega⟩
      · rw [wp_pure]
        exact ⟨hk03.trans hk4, fun _ => by have := hk4.le; omega⟩
    · rw [wp_pure]
      exact ⟨hk03, fun _ => hlt3⟩

theorem infixLoop_fuel_step (f : Nat)
    (ihPP : ∀ prec p, 1 ≤ prec → TE p → Fuel 1 f p →
      wp (parsePrecedence prec f) (fun _ p' => Tk p p' ∧ (p.cur.typ.isEnd = false → tm p' < tm p)) p)
    (ihIL : ∀ prec left p, 1 ≤ prec → TE p → Fuel 1 f p → wp (infixLoop prec left f) (fun _ p' => Tk p p') p)
    (prec : Nat) (left : Expr) (p : PState) (hprec : 1 ≤ prec) (hte : TE p) (hf : Fuel 1 (f+1) p) :
    wp (infixLoop prec left (f+1)) (fun _ p' => Tk p p') p := by
  unfold infixLoop
  rw [wp_bind, wp_get]
  split
  · rename_i hcond
    -- the operator is not a finalizer (those have precedence 0)
    have hne : p.cur.typ.isEnd = false := by
      cases he : p.cur.typ.isEnd with
      | false => rfl
      | true => have := (rule_of_end _ he).2; rw [this] at hcond; omega
    rw [wp_bind]
    apply wp_mono (advance_wp p hte)
    intro _ p1 hq1
    obtain ⟨hk1, hlt1, _⟩ := hq1
    have hlt := hlt1 hne
    unfold Fuel at hf
    have hf1 : Fuel 1 f p1 := by unfold Fuel; omega
    rw [wp_bind, wp_get]
    -- every branch parses an operand (or nothing) and goes round again with less to do
    have again : ∀ (e : Expr) (p2 : PState), Tk p1 p2 → wp (infixLoop prec e f) (fun _ p' => Tk p p') p2 := by
      intro e p2 hk2
      apply wp_mono (ihIL prec e p2 hprec hk2.te (by unfold Fuel; have := hk2.le; omega))
      intro _ p3 hk3
      exact (hk1.trans hk2).trans hk3
    dsimp only
    split
    · rw [wp_bind]
      apply wp_mono (ihPP _ p1 (by omega) hk1.te hf1)
      intro rhs p2 hq2
      split
      · exact again _ p2 hq2.1
      · exact again _ p2 hq2.1
    · rw [wp_bind, wp_get, wp_bind]
      apply wp_mono (ihPP precAnd p1 (by decide) hk1.te hf1)
      intro rhs p2 hq2
      split
      · rw [wp_bind]
        apply wp_tk (error_tkr _) hq2.1.te
        intro _ p3 hk3
        exact again _ p3 (hq2.1.trans hk3)
      · exact again _ p2 hq2.1
    · rw [wp_bind, wp_get, wp_bind]
      apply wp_mono (ihPP precOr p1 (by decide) hk1.te hf1)
      intro rhs p2 hq2
      split
      · rw [wp_bind]
        apply wp_tk (error_tkr _) hq2.1.te
        intro _ p3 hk3
        exact again _ p3 (hq2.1.trans hk3)
      · exact again _ p2 hq2.1
    · exact again _ p1 (Tk.refl hk1.te)
  · rw [wp_pure]; exact Tk.refl hte

theorem prefixRule_fuel_step (f : Nat)
    (ihPP : ∀ prec p, 1 ≤ prec → TE p → Fuel 1 f p →
      wp (parsePrecedence prec f) (fun _ p' => Tk p p' ∧ (p.cur.typ.isEnd = false → tm p' < tm p)) p)
    (rule : Prefix) (ca : Bool) (p : PState) (hte : TE p) (hf : Fuel 3 (f+1) p) :
    wp (prefixRule rule ca (f+1)) (fun _ p' => Tk p p') p := by
  have hf1 : Fuel 1 f p := by unfold Fuel at hf ⊢; omega
  -- an operand parsed from any later state
  have sub : ∀ (prec : Nat) (p1 : PState), 1 ≤ prec → Tk p p1 →
      wp (parsePrecedence prec f) (fun _ p' => Tk p p') p1 := by
    intro prec p1 hp hk
    apply wp_mono (ihPP prec p1 hp hk.te (by unfold Fuel at hf1 ⊢; have := hk.le; omega))
    intro _ p2 hq
    exact hk.trans hq.1
  unfold prefixRule
  rw [wp_bind, wp_get]
  cases rule with
  | parens =>
    simp only
    rw [wp_bind]
    apply wp_mono (sub _ p (by decide) (Tk.refl hte))
    intro e p1 hk1
    rw [wp_bind]
    apply wp_tk (consume_tkr _ _) hk1.te
    intro _ p2 hk2
    rw [wp_pure]
    exact hk1.trans hk2
  | unary =>
    simp only
    rw [wp_bind]
    apply wp_mono (sub _ p (by decide) (Tk.refl hte))
    intro e p1 hk1
    rw [wp_bind, wp_get, wp_pure]
    exact hk1
  | boolNot =>
    simp only
    rw [wp_bind]
    apply wp_mono (sub _ p (by decide) (Tk.refl hte))
    intro e p1 hk1
    rw [wp_bind, wp_get, wp_pure]
    exact hk1
  | intLit =>
    simp only
    split
    · rw [wp_bind]
      apply wp_tk (error_tkr _) hte
      intro _ p1 hk1
      rw [wp_pure]; exact hk1
    · rw [wp_pure]; exact Tk.refl hte
    · rw [wp_pure]; exact Tk.refl hte
    · rw [wp_bind]
      apply wp_tk (makeConst_tkr _) hte
      intro _ p1 hk1
      rw [wp_pure]; exact hk1
  | floatLit =>
    simp only
    split
    · rw [wp_bind]
      apply wp_tk (error_tkr _) hte
      intro _ p1 hk1
      rw [wp_pure]; exact hk1
    · rw [wp_bind]
      apply wp_tk (makeConst_tkr _) hte
      intro _ p1 hk1
      rw [wp_pure]; exact hk1
  | stringLit =>
    simp only
    split
    · rw [wp_bind]
      apply wp_tk (error_tkr _) hte
      intro _ p1 hk1
      rw [wp_pure]; exact hk1
    · rw [wp_bind]
      apply wp_tk (makeConst_tkr _) hte
      intro _ p1 hk1
      rw [wp_pure]; exact hk1
  | boolLit => simp only; rw [wp_pure]; exact Tk.refl hte
  | nilLit => simp only; rw [wp_pure]; exact Tk.refl hte
  | identRef =>
    simp only
    rw [wp_bind, wp_get]
    -- `x = e`: the rest of an assignment, from whatever state follows the name
    have assign : ∀ (mk : Expr → Nat → Expr) (alt : Expr) (p1 : PState), Tk p p1 →
        wp (do
          if ca = true then
            if (← «match» .EQ) = true then
              let e ← parsePrecedence precAssign f
              return mk e (← get).prev.pos
          return alt) (fun _ p' => Tk p p') p1 := by
      intro mk alt p1 hk1
      split
      · rw [wp_bind]
        apply wp_tk (match_tkr _) hk1.te
        intro b p2 hk2
        split
        · rw [wp_bind]
          apply wp_mono (sub _ p2 (by decide) (hk1.trans hk2))
          intro e p3 hk3
          rw [wp_bind, wp_get, wp_pure]
          exact hk3
        · rw [wp_pure]; exact hk1.trans hk2
      · rw [wp_pure]; exact hk1
    split
    · exact assign _ _ p (Tk.refl hte)
    · split
      · rw [wp_bind]
        apply wp_tk (error_tkr _) hte
        intro _ p1 hk1
        rw [wp_pure]; exact hk1
      · rw [wp_bind]
        apply wp_tk (identConst_tkr _) hte
        intro idx p1 hk1
        exact assign _ _ p1 hk1

/-- **Expressions never exhaust the step budget** when given four steps per remaining token. -/
theorem exprs_fuel : ∀ (f : Nat),
    (∀ prec p, 1 ≤ prec → TE p → Fuel 1 f p →
      wp (parsePrecedence prec f) (fun _ p' => Tk p p' ∧ (p.cur.typ.isEnd = false → tm p' < tm p)) p)
    ∧ (∀ prec left p, 1 ≤ prec → TE p → Fuel 1 f p → wp (infixLoop prec left f) (fun _ p' => Tk p p') p)
    ∧ (∀ rule ca p, TE p → Fuel 3 f p → wp (prefixRule rule ca f) (fun _ p' => Tk p p') p)
  | 0 => by
    refine ⟨?_, ?_, ?_⟩
    · intro prec p _ _ hf; unfold Fuel at hf; omega
    · intro prec left p _ _ hf; unfold Fuel at hf; omega
    · intro rule ca p _ hf; unfold Fuel at hf; omega
  | f+1 => by
    obtain ⟨ih1, ih2, ih3⟩ := exprs_fuel f
    exact ⟨fun prec p hp hte hf => parsePrecedence_fuel_step f ih2 ih3 prec p hp hte hf,
           fun prec left p hp hte hf => infixLoop_fuel_step f ih1 ih2 prec left p hp hte hf,
           fun rule ca p hte hf => prefixRule_fuel_step f ih1 rule ca p hte hf⟩

theorem expr_fuel (f : Nat) (p : PState) (hte : TE p) (hf : Fuel 1 f p) :
    wp (expr f) (fun _ p' => Tk p p' ∧ (p.cur.typ.isEnd = false → tm p' < tm p)) p := by
  unfold expr; exact (exprs_fuel f).1 _ p (by decide) hte hf

end Bclv
