import Bclv.Spec.Format
import Bclv.Proofs.DumpLoad
/-!
# The documented layout and the code agree (C14)
-/
namespace Bclv.Format
open Bclv

/-! ## what `Dump` writes is a file of the format -/

theorem varint_uvEnc (x : Nat) (hx : x < 2 ^ 64) : Varint x (uvEnc x) := by
  have be : ∀ n, 3 ≤ n → n ≤ 8 → x < 256 ^ n → Varint x (UInt8.ofNat (247 + n) :: beBytes n x) := by
    intro n h3 h8 hlt
    have := Varint.be n (beBytes n x) h3 h8 (beBytes_length n x)
    rw [beVal_beBytes n x hlt] at this
    exact this
  unfold uvEnc
  split
  · rename_i h
    have := Varint.one (UInt8.ofNat x) (by rw [u8_le_iff, u8_toNat_ofNat _ (by omega)]; show x ≤ 240; omega)
    rw [u8_toNat_ofNat _ (by omega)] at this
    exact this
  split
  · rename_i h0 h
    have hb : (x - 240) / 256 + 241 < 256 := by omega
    have := Varint.two (UInt8.ofNat ((x - 240) / 256 + 241)) (UInt8.ofNat ((x - 240) % 256))
      (by rw [u8_le_iff, u8_toNat_ofNat _ hb]; show 241 ≤ _; omega)
      (by rw [u8_le_iff, u8_toNat_ofNat _ hb]; show _ ≤ 248; omega)
    rw [u8_toNat_ofNat _ hb, u8_toNat_ofNat _ (by omega)] at this
    have e : 240 + 256 * ((x - 240) / 256 + 241 - 241) + (x - 240) % 256 = x := by omega
    rw [e] at this
    exact this
  split
  · rename_i h0 h1 h
    have := Varint.three (UInt8.ofNat ((x - 2288) / 256)) (UInt8.ofNat ((x - 2288) % 256))
    rw [u8_toNat_ofNat _ (by omega), u8_toNat_ofNat _ (by omega)] at this
    have e : 2288 + 256 * ((x - 2288) / 256) + (x - 2288) % 256 = x := by omega
    rw [e] at this
    exact this
  split
  · exact be 3 (by omega) (by omega) (by omega)
  split
  · exact be 4 (by omega) (by omega) (by omega)
  split
  · exact be 5 (by omega) (by omega) (by omega)
  split
  · exact be 6 (by omega) (by omega) (by omega)
  split
  · exact be 7 (by omega) (by omega) (by omega)
  · exact be 8 (by omega) (by omega) (by omega)

theorem val_valueEnc (v : Value) (hv : v.WF) : Val v (valueEnc v) := by
  cases v with
  | nil => exact Val.nil
  | bool b => exact Val.bool b
  | int i => exact Val.int i _ (varint_uvEnc _ i.toUInt64.toNat_lt)
  | float b => exact Val.float b _ (beBytes_length 8 _) (beVal_beBytes 8 _ (by have := b.toNat_lt; omega))
  | str s => exact Val.str s _ (varint_uvEnc _ hv)

theorem many_encList {α} (R : α → Bytes → Prop) (enc : α → Bytes) :
    ∀ (xs : List α), (∀ x ∈ xs, R x (enc x)) → Many R xs (encList enc xs)
  | [], _ => Many.nil
  | x :: xs, h => Many.cons x xs _ _ (h x (List.mem_cons_self ..))
      (many_encList R enc xs (fun y hy => h y (List.mem_cons_of_mem _ hy)))

/-- **Newly written dumps follow the documented layout.** -/
theorem dump_encodes (p : Prog) (h : p.WF) : Encodes p (dump p) := by
  refine ⟨_, _, _, _, _, ⟨_, varint_uvEnc _ h.name, rfl⟩, ⟨_, varint_uvEnc _ h.code, rfl⟩,
    ⟨_, _, varint_uvEnc _ h.nconsts, many_encList Val valueEnc _ (fun v hv => val_valueEnc v (h.consts v hv)), rfl⟩,
    ⟨_, _, varint_uvEnc _ h.npos, many_encList Varint uvEnc _ (fun x hx => varint_uvEnc x (h.pos x hx)), rfl⟩,
    ⟨_, _, varint_uvEnc _ h.nlfs, many_encList Varint uvEnc _ (fun x hx => varint_uvEnc x (h.lfs x hx)), rfl⟩, ?_⟩
  simp [dump, magic, verMajor, verMinor]

/-! ## the loader reads every file of the format -/

/-- `p` reads the bytes `e` as `a`, whatever follows. -/
def Reads {α} (p : P α) (e : Bytes) (a : α) : Prop := ∀ r, p (e ++ r) = .ok a r

theorem Reads.pure {α} (a : α) : Reads (pure a : P α) [] a := fun _ => rfl

theorem Reads.bind {α β} {p : P α} {f : α → P β} {e1 e2 : Bytes} {a : α} {b : β}
    (h1 : Reads p e1 a) (h2 : Reads (f a) e2 b) : Reads (p >>= f) (e1 ++ e2) b := by
  intro r
  show P.bind p f (e1 ++ e2 ++ r) = _
  unfold P.bind
  rw [List.append_assoc, h1]
  exact h2 r

theorem Reads.label {α} {p : P α} {e : Bytes} {a : α} (msg : String) (h : Reads p e a) : Reads (label msg p) e a := by
  intro r; unfold Bclv.label; rw [h r]

theorem reads_varint {x : Nat} {e : Bytes} (h : Varint x e) : Reads pUv e x := by
  intro r
  unfold pUv
  have e240 : (240 : UInt8).toNat = 240 := rfl
  have e241 : (241 : UInt8).toNat = 241 := rfl
  have e248 : (248 : UInt8).toNat = 248 := rfl
  cases h with
  | one a0 h0 =>
    simp [uvDec, uvLen, h0]
  | two a0 a1 h1 h2 =>
    have hn : ¬ a0 ≤ 240 := by rw [u8_le_iff] at h1 ⊢; omega
    have hl : ¬ (r.length + 1 + 1 < 2) := by omega
    simp [uvDec, uvLen, hn, h2, hl]
  | three a1 a2 =>
    have hl : ¬ (r.length + 1 + 1 + 1 < 3) := by omega
    simp [uvDec, uvLen, hl]
  | be n bs h3 h8 hl =>
    have hcases : n = 3 ∨ n = 4 ∨ n = 5 ∨ n = 6 ∨ n = 7 ∨ n = 8 := by omega
    have key : ∀ (a0 : UInt8), ¬ a0 ≤ 240 → ¬ a0 ≤ 248 → a0 ≠ 249 → a0.toNat - 246 = n + 1 →
        uvDec (a0 :: bs ++ r) = some (beVal bs, r) := by
      intro a0 n1 n2 n3 hlen
      simp only [List.cons_append, uvDec, uvLen, n1, n2, n3, if_false, hlen, List.length_append, hl]
      have : ¬ (n + r.length + 1 < n + 1) := by omega
      simp only [this, if_false, Nat.add_sub_cancel]
      rw [List.take_append_of_le_length (by omega), List.drop_append_of_le_length (by omega)]
      rw [List.take_of_length_le (by omega), List.drop_of_length_le (by omega)]
      simp
    rcases hcases with rfl | rfl | rfl | rfl | rfl | rfl
    all_goals rw [key _ (by decide) (by decide) (by decide) (by decide)]

theorem reads_take (s : Bytes) : Reads (pTake s.length) s s := by
  intro r; unfold pTake; simp

theorem reads_sized {s e : Bytes} (msg1 msg2 : String) (h : Sized s e) {β} {f : Bytes → P β} {e2 : Bytes} {b : β}
    (h2 : Reads (f s) e2 b) :
    Reads (do let n ← label msg1 pUv; let x ← label msg2 (pTake n); f x) (e ++ e2) b := by
  obtain ⟨el, hv, rfl⟩ := h
  have := Reads.bind (Reads.label msg1 (reads_varint hv))
    (f := fun n => do let x ← label msg2 (pTake n); f x)
    (Reads.bind (Reads.label msg2 (reads_take s)) h2)
  simpa [List.append_assoc] using this

theorem reads_val {v : Value} {e : Bytes} (h : Val v e) : Reads pValue e v := by
  intro r
  cases h with
  | nil => rfl
  | int i e hv =>
    have := reads_varint hv r
    simp only [pValue, List.cons_append]
    show (do let x ← pUv; pure (Value.int (UInt64.ofNat x).toInt64) : P Value) (e ++ r) = _
    show P.bind pUv _ (e ++ r) = _
    unfold P.bind; rw [this]
    show Dec.ok (Value.int (UInt64.ofNat i.toUInt64.toNat).toInt64) r = _
    simp
  | float b e hl hb =>
    simp only [pValue, List.cons_append]
    show P.bind (pTake 8) _ (e ++ r) = _
    unfold P.bind
    have : pTake 8 (e ++ r) = .ok e r := by rw [← hl]; exact reads_take e r
    rw [this]
    show Dec.ok (Value.float (UInt64.ofNat (beVal e))) r = _
    rw [hb]; simp
  | str s e hv =>
    simp only [pValue, List.cons_append]
    have h1 := Reads.bind (reads_varint hv) (f := fun k => do let s ← pTake k; pure (Value.str s))
      (Reads.bind (reads_take s) (Reads.pure (Value.str s)))
    have := h1 r
    simpa [List.append_assoc] using this
  | bool b =>
    cases b <;> rfl

theorem reads_many {α} {R : α → Bytes → Prop} {p : P α} (what : String) (hp : ∀ a e, R a e → Reads p e a) :
    ∀ {xs : List α} {es : Bytes}, Many R xs es → ∀ i, Reads (pMany what p xs.length i) es xs := by
  intro xs es h
  induction h with
  | nil => intro i; exact Reads.pure []
  | cons a as e es ha _ ih =>
    intro i
    have := Reads.bind (Reads.label (s!"{what}[{i}]") (hp a e ha))
      (f := fun a => do let as ← pMany what p as.length (i+1); pure (a :: as))
      (Reads.bind (ih (i+1)) (f := fun as' => (pure (a :: as') : P (List α))) (Reads.pure (a :: as)))
    simpa [pMany] using this

theorem reads_counted {α} {R : α → Bytes → Prop} {p : P α} (msg what : String) (hp : ∀ a e, R a e → Reads p e a)
    {xs : List α} {e : Bytes} (h : Counted R xs e) {β} {f : List α → P β} {e2 : Bytes} {b : β}
    (h2 : Reads (f xs) e2 b) :
    Reads (do let n ← label msg pUv; let x ← pMany what p n 0; f x) (e ++ e2) b := by
  obtain ⟨ec, es, hv, hm, rfl⟩ := h
  have := Reads.bind (Reads.label msg (reads_varint hv))
    (f := fun n => do let x ← pMany what p n 0; f x)
    (Reads.bind (reads_many what hp hm 0) h2)
  simpa [List.append_assoc] using this

theorem reads_header : Reads pHeader [0xFC, 0x6C, 1, 1] () := by
  intro r
  simp [pHeader, magic, verMajor, verMinor]

/-- **An independent reading of the layout recovers exactly the program**: every byte string
that is a version 1.1 file of `p` by the documented layout — with any admissible spelling of
its variable-length integers — is loaded as `p`, trailing bytes ignored. -/
theorem load_of_encodes (p : Prog) (bs trailing : Bytes) (h : Encodes p bs) : load (bs ++ trailing) = .ok p := by
  obtain ⟨n, c, k, ps, ls, hn, hc, hk, hps, hls, rfl⟩ := h
  have body : Reads pProg ([0xFC, 0x6C, 1, 1] ++ (n ++ (c ++ (k ++ (ps ++ (ls ++ [])))))) p := by
    unfold pProg
    refine Reads.bind reads_header ?_
    refine reads_sized _ _ hn ?_
    refine reads_sized _ _ hc ?_
    refine reads_counted _ _ (fun a e h => reads_val h) hk ?_
    refine reads_counted _ _ (fun a e h => reads_varint h) hps ?_
    refine reads_counted _ _ (fun a e h => reads_varint h) hls ?_
    exact Reads.pure _
  have := body trailing
  unfold load
  simp only [List.append_nil, List.append_assoc] at this ⊢
  rw [this]

/-- **The format is unambiguous**: a byte string is a file of at most one program. -/
theorem encodes_unique (p q : Prog) (bs : Bytes) (hp : Encodes p bs) (hq : Encodes q bs) : p = q := by
  have h1 := load_of_encodes p bs [] hp
  have h2 := load_of_encodes q bs [] hq
  rw [h1] at h2
  cases h2; rfl

end Bclv.Format
