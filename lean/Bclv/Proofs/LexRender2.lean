import Bclv.Proofs.LexRender1
namespace Bclv

/-- a rune that is not in the one- and two-rune token tables -/
theorem tables_none (r : Int) (h1 : r ≠ 61) (h2 : r ≠ 33) (h3 : r ≠ 60) (h4 : r ≠ 62) (h5 : r ≠ 45)
    (h6 : r ≠ 123) (h7 : r ≠ 125) (h8 : r ≠ 40) (h9 : r ≠ 41) (h10 : r ≠ 43) (h11 : r ≠ 42) (h12 : r ≠ 47)
    (h13 : r ≠ 58) (h14 : r ≠ 59) : twoRuneOf r = none ∧ oneRuneOf r = none := by
  constructor
  · unfold twoRuneOf
    rw [Option.map_eq_none_iff, List.find?_eq_none]
    intro x hx
    simp only [twoRuneTable, List.mem_cons, List.not_mem_nil, or_false] at hx
    rcases hx with rfl | rfl | rfl | rfl | rfl <;> simp <;> omega
  · unfold oneRuneOf
    rw [Option.map_eq_none_iff, List.find?_eq_none]
    intro x hx
    simp only [oneRuneTable, List.mem_cons, List.not_mem_nil, or_false] at hx
    rcases hx with rfl | rfl | rfl | rfl | rfl | rfl | rfl | rfl | rfl | rfl | rfl | rfl | rfl <;> simp <;> omega

theorem alpha_range (r : Int) (h : isAlphaR r = true ∨ r = 95) : (97 ≤ r ∧ r ≤ 122) ∨ (65 ≤ r ∧ r ≤ 90) ∨ r = 95 := by
  rcases h with h | h
  · simp only [isAlphaR, Bool.or_eq_true, Bool.and_eq_true, decide_eq_true_eq] at h
    rcases h with h | h
    · exact .inl h
    · exact .inr (.inl h)
  · exact .inr (.inr h)

/-- the start state on a letter or `_` hands over to `lexIdent` -/
theorem start_on_alpha (f : Nat) (s : Whole) (T : List Token) (R : Int) (hR : firstRune s.rest = R)
    (h : isAlphaR R = true ∨ R = 95) :
    lexStep Pf f .start ⟨s, T⟩ = (.ident, ⟨(Pf.next s).2, T⟩) := by
  have hr : (Pf.next s).1 = R := by rw [Pf_next_eq]; exact hR
  have hrange := alpha_range R h
  obtain ⟨h2, h1⟩ := tables_none R (by omega) (by omega) (by omega) (by omega) (by omega) (by omega)
    (by omega) (by omega) (by omega) (by omega) (by omega) (by omega) (by omega) (by omega)
  have n1 : R ≠ (-1 : Int) := by omega
  have n32 : R ≠ (32 : Int) := by omega
  have n9 : R ≠ (9 : Int) := by omega
  have n11 : R ≠ (11 : Int) := by omega
  have n12 : R ≠ (12 : Int) := by omega
  have n10 : R ≠ (10 : Int) := by omega
  have n13 : R ≠ (13 : Int) := by omega
  have n133 : R ≠ (133 : Int) := by omega
  have n160 : R ≠ (160 : Int) := by omega
  have n35 : R ≠ (35 : Int) := by omega
  have n34 : R ≠ (34 : Int) := by omega
  have heof : ((R : Int) == eofR) = false := by simp only [beq_eq_false_iff_ne, eofR]; exact n1
  have hsp : isSpaceR R = false := by
    simp only [isSpaceR, Bool.or_eq_false_iff, beq_eq_false_iff_ne]
    exact ⟨⟨⟨⟨⟨⟨⟨n32, n9⟩, n11⟩, n12⟩, n10⟩, n13⟩, n133⟩, n160⟩
  have h35 : ((R : Int) == 35) = false := by simp only [beq_eq_false_iff_ne]; exact n35
  have h34 : ((R : Int) == 34) = false := by simp only [beq_eq_false_iff_ne]; exact n34
  have hal : (isAlphaR R || (R : Int) == 95) = true := by
    rcases h with h | h
    · rw [h]; rfl
    · rw [h]; decide
  simp only [lexStep, hr, heof, h2, h1, hsp, h35, h34, hal, Bool.false_eq_true, if_false, if_true]

/-- an identifier character as a byte -/
def idByte (b : UInt8) : Prop := isAlphaNumR (b.toNat : Int) = true ∨ b = 95

theorem alnum_le (r : Int) (h : isAlphaNumR r = true) : 48 ≤ r ∧ r ≤ 122 := by
  simp only [isAlphaNumR, isAlphaR, isDigitR, Bool.or_eq_true, Bool.and_eq_true, decide_eq_true_eq] at h
  have h' : ((97 ≤ r ∧ r ≤ 122) ∨ (65 ≤ r ∧ r ≤ 90)) ∨ (48 ≤ r ∧ r ≤ 57) := h
  omega

theorem idByte_ascii (b : UInt8) (h : idByte b) : b < 0x80 := by
  rw [UInt8.lt_iff_toNat_lt]
  rcases h with h | h
  · have := alnum_le (b.toNat : Int) h
    simp; omega
  · rw [h]; decide

theorem idByte_pred (b : UInt8) (h : idByte b) : (isAlphaNumR (b.toNat : Int) || (b.toNat : Int) == 95) = true := by
  rcases h with h | h
  · rw [h]; rfl
  · rw [h]; decide

/-- what may follow an identifier without being part of it (or spoiling it) -/
def FIdent (x : Bytes) : Prop :=
  (isAlphaNumR (firstRune x) || firstRune x == 95) = false ∧ (firstRune x == 34) = false

/-- the identifier loop reads exactly the identifier characters -/
theorem identLoop_ascii : ∀ (bs : Bytes) (f p w : Nat) (c x : Bytes), (∀ b ∈ bs, idByte b) → FIdent x → bs.length < f →
    identLoop Pf f ⟨p, c, bs ++ x, w⟩ = ⟨p + bs.length, bs.reverse ++ c, x, (decodeRune x).2⟩
  | [], f, p, w, c, x, _, hF, hf => by
    cases f with
    | zero => simp at hf
    | succ f =>
      show identLoop Pf (f+1) ⟨p, c, x, w⟩ = _
      unfold identLoop
      have hn := Pf_next_eq ⟨p, c, x, w⟩
      have hb := Pf_backup_next ⟨p, c, x, w⟩
      rcases h : Pf.next ⟨p, c, x, w⟩ with ⟨r, s'⟩
      rw [h] at hn hb
      have hr : r = firstRune x := congrArg Prod.fst hn
      dsimp only
      rw [hr, hF.1]
      simp only [Bool.false_eq_true, if_false]
      rw [hb]; simp
  | b :: bs, f, p, w, c, x, hbs, hF, hf => by
    cases f with
    | zero => simp at hf
    | succ f =>
      have hb := hbs b (by simp)
      show identLoop Pf (f+1) ⟨p, c, b :: (bs ++ x), w⟩ = _
      unfold identLoop
      rw [Pf_next_ascii p w c (bs ++ x) b (idByte_ascii b hb)]
      dsimp only
      rw [idByte_pred b hb]
      simp only [if_true]
      rw [identLoop_ascii bs f (p + 1) 1 (b :: c) x (fun y hy => hbs y (by simp [hy])) hF (by simp at hf; omega)]
      simp [Nat.add_assoc, Nat.add_comm 1]

/-- an identifier or keyword text: a letter or `_`, then letters, digits, `_` -/
def IsIdentText (t : Bytes) : Prop :=
  ∃ b bs, t = b :: bs ∧ (isAlphaR (b.toNat : Int) = true ∨ b = 95) ∧ ∀ y ∈ bs, idByte y

def identTok (t : Bytes) : Token := { typ := (keywordOf t).getD .IDENT, val := t }

/-- **Identifiers and keywords**: two state functions turn the text into its token and leave
the lexer in the start state right behind it. -/
theorem ident_steps (f n p w : Nat) (t x : Bytes) (T : List Token) (hid : IsIdentText t) (hF : FIdent x)
    (hf : t.length < f) :
    lexRun Pf f (n + 2) .start ⟨⟨p, [], t ++ x, w⟩, T⟩
      = lexRun Pf f n .start ⟨⟨p + t.length, [], x, (decodeRune x).2⟩, identTok t :: T⟩ := by
  obtain ⟨b, bs, rfl, hb, hbs⟩ := hid
  have hb80 : b < 0x80 := idByte_ascii b (by
    rcases hb with h | h
    · left; simp only [isAlphaNumR, h, Bool.true_or]
    · right; exact h)
  rw [lexRun, start_on_alpha f ⟨p, [], (b :: bs) ++ x, w⟩ T (b.toNat : Int)
    (by simp only [List.cons_append]; exact firstRune_ascii b _ hb80)
    (by rcases hb with h | h
        · exact .inl h
        · right; rw [h]; decide)]
  dsimp only
  rw [lexRun]
  simp only [lexStep, List.cons_append]
  rw [Pf_next_ascii p w [] (bs ++ x) b hb80]
  dsimp only
  rw [identLoop_ascii bs f (p + 1) 1 [b] x hbs hF (by simp at hf; omega)]
  rw [peekR_eq]
  dsimp only
  rw [hF.2]
  simp only [Bool.false_eq_true, if_false]
  have hcur : Pf.current ⟨p + 1 + bs.length, bs.reverse ++ [b], x, (decodeRune x).2⟩ = b :: bs := by
    show (bs.reverse ++ [b]).reverse = b :: bs
    simp
  simp only [hcur]
  cases hk : keywordOf (b :: bs) with
  | none =>
    simp only [identTok, hk, Option.getD_none, emit, hcur]
    congr 2
    simp [Pf, LexPrims.noPos, Whole.prims]; omega
  | some k =>
    simp only [identTok, hk, Option.getD_some, emit, hcur]
    congr 2
    simp [Pf, LexPrims.noPos, Whole.prims]; omega

end Bclv
