import Bclv.Proofs.LexLayout3
/-!
# Token texts: what the lexer makes of a lexeme followed by something that ends it (C20)
-/
namespace Bclv

/-- the rune `next` reports for unread bytes `x` -/
def firstRune (x : Bytes) : Rune := if (decodeRune x).2 = 0 then eofR else (decodeRune x).1

theorem Pf_next_eq (s : Whole) : Pf.next s =
    (firstRune s.rest,
      if (decodeRune s.rest).2 = 0 then { s with width := 0 }
      else { pos := s.pos + (decodeRune s.rest).2, cur := (s.rest.take (decodeRune s.rest).2).reverse ++ s.cur,
             rest := s.rest.drop (decodeRune s.rest).2, width := (decodeRune s.rest).2 }) := by
  show Whole.prims.next s = _
  simp only [Whole.prims, firstRune]
  rcases hd : decodeRune s.rest with ⟨r, w⟩
  dsimp only
  split
  · rfl
  · simp only [moveFwd_fst, moveFwd_snd]

theorem moveFwd_back2 (n : Nat) (c r : Bytes) (h : n ≤ r.length) :
    (moveFwd n (moveFwd n c r).2 (moveFwd n c r).1).2 = c := by
  rw [moveFwd_snd, moveFwd_fst]
  rw [List.drop_append_of_le_length (by simp; omega)]
  simp [List.drop_eq_nil_of_le, Nat.min_eq_left h]

/-- a `backup` right after a `next` restores the cursor (and remembers the width) -/
theorem Pf_backup_next (s : Whole) : Pf.backup (Pf.next s).2 = { s with width := (decodeRune s.rest).2 } := by
  show Whole.prims.backup (Whole.prims.next s).2 = _
  simp only [Whole.prims]
  have hw := decodeRune_width_le s.rest
  rcases hd : decodeRune s.rest with ⟨r, w⟩
  rw [hd] at hw
  dsimp only at hw ⊢
  split
  · rename_i h0; subst h0; simp [moveFwd]
  · dsimp only
    have h1 := moveFwd_back w s.cur s.rest hw
    have h2 := moveFwd_back2 w s.cur s.rest hw
    cases s with
    | mk pos cur rest width =>
      simp only at h1 h2 ⊢
      rw [h1, h2]
      simp

theorem peekR_eq (s : Whole) : peekR Pf s = (firstRune s.rest, { s with width := (decodeRune s.rest).2 }) := by
  unfold peekR
  rw [← Pf_backup_next s, Pf_next_eq]

/-- ASCII bytes decode to themselves -/
theorem decodeRune_ascii (b : UInt8) (r : Bytes) (h : b < 0x80) : decodeRune (b :: r) = ((b.toNat : Int), 1) := by
  have : utf8First b = none := by
    unfold utf8First
    have : b < 0xC2 := by
      rw [UInt8.lt_iff_toNat_lt] at h ⊢
      simp at h ⊢; omega
    simp [this]
  simp only [decodeRune, this, h, if_true]

theorem firstRune_ascii (b : UInt8) (r : Bytes) (h : b < 0x80) : firstRune (b :: r) = (b.toNat : Int) := by
  unfold firstRune; rw [decodeRune_ascii b r h]; simp

theorem Pf_next_ascii (p w : Nat) (c r : Bytes) (b : UInt8) (h : b < 0x80) :
    Pf.next ⟨p, c, b :: r, w⟩ = ((b.toNat : Int), ⟨p + 1, b :: c, r, 1⟩) := by
  rw [Pf_next_eq]
  simp only [firstRune, decodeRune_ascii b r h]
  simp

end Bclv
