import Bclv.Model.Bind
/-!
# The binder model: typing, index paths, `FieldByNameFunc` returns walkable paths
-/
namespace Bclv.Bind
open Bclv

/-! ## typing of values -/

mutual
inductive HasTy : GV → Ty → Prop
  | int (i) : HasTy (.int i) (.basic .int)
  | float (b) : HasTy (.float b) (.basic .float)
  | str (s) : HasTy (.str s) (.basic .str)
  | bool (b) : HasTy (.bool b) (.basic .bool)
  | boxed (v) : HasTy (.boxed v) .iface
  | opaque (k) : HasTy .opaque (.other k)
  | struct {vals fs} (id n) : HasTys vals fs → HasTy (.struct vals) (.struct id n fs)
  | nilptr (t) : HasTy .nilptr (.ptr t)
  | ptr {v t} : HasTy v t → HasTy (.ptr v) (.ptr t)
  | slice {vals t} : HasTyAll vals t → HasTy (.slice vals) (.slice t)
inductive HasTys : GVs → TFields → Prop
  | nil : HasTys .nil .nil
  | cons {v t vs fs} (h) : HasTy v t → HasTys vs fs → HasTys (.cons v vs) (.cons h t fs)
inductive HasTyAll : GVs → Ty → Prop
  | nil (t) : HasTyAll .nil t
  | cons {v vs t} : HasTy v t → HasTyAll vs t → HasTyAll (.cons v vs) t
end

mutual
theorem zero_hasTy : ∀ (t : Ty), HasTy (zero t) t
  | .basic .int => .int _
  | .basic .float => .float _
  | .basic .str => .str _
  | .basic .bool => .bool _
  | .iface => .boxed _
  | .other k => .opaque k
  | .struct id n fs => by unfold zero; exact .struct id n (zeros_hasTys fs)
  | .ptr t => .nilptr t
  | .slice t => by unfold zero; exact .slice (.nil t)
theorem zeros_hasTys : ∀ (fs : TFields), HasTys (zeros fs) fs
  | .nil => .nil
  | .cons h t r => by unfold zeros; exact .cons h (zero_hasTy t) (zeros_hasTys r)
end

theorem hasTys_get : ∀ (vals : GVs) (fs : TFields), HasTys vals fs →
    ∀ (i : Nat) (hd : FieldHdr) (t : Ty), fs.get? i = some (hd, t) → ∃ v, vals.get? i = some v ∧ HasTy v t
  | _, .nil, _, i, hd, t, hg => by simp [TFields.get?] at hg
  | .nil, .cons _ _ _, h, _, _, _, _ => by cases h
  | .cons v vs, .cons h0 t0 fs, h, i, hd, t, hg => by
    cases h with
    | cons _ hv hvs =>
      cases i with
      | zero => simp [TFields.get?] at hg; obtain ⟨_, rfl⟩ := hg; exact ⟨_, rfl, hv⟩
      | succ i => simp only [TFields.get?] at hg; simpa [GVs.get?] using hasTys_get vs fs hvs i hd t hg

theorem hasTys_set : ∀ (vals : GVs) (fs : TFields), HasTys vals fs →
    ∀ (i : Nat) (hd : FieldHdr) (t : Ty) (x : GV), fs.get? i = some (hd, t) → HasTy x t → HasTys (vals.set i x) fs
  | _, .nil, _, i, hd, t, _, hg, _ => by simp [TFields.get?] at hg
  | .nil, .cons _ _ _, h, _, _, _, _, _, _ => by cases h
  | .cons v vs, .cons h0 t0 fs, h, i, hd, t, x, hg, hx => by
    cases h with
    | cons _ hv hvs =>
      cases i with
      | zero => simp [TFields.get?] at hg; obtain ⟨_, rfl⟩ := hg; exact .cons h0 hx hvs
      | succ i => simp only [TFields.get?] at hg; exact .cons h0 hv (hasTys_set vs fs hvs i hd t x hg hx)

theorem get_set_same : ∀ (vals : GVs) (i : Nat) (x : GV), (∃ v, vals.get? i = some v) → (vals.set i x).get? i = some x
  | .nil, _, _, h => by simp [GVs.get?] at h
  | .cons _ _, 0, _, _ => by simp [GVs.set, GVs.get?]
  | .cons _ r, i+1, x, h => by simpa [GVs.set, GVs.get?] using get_set_same r i x (by simpa [GVs.get?] using h)

theorem get_set_other : ∀ (vals : GVs) (i j : Nat) (x : GV), i ≠ j → (vals.set i x).get? j = vals.get? j
  | .nil, _, _, _, _ => by simp [GVs.set]
  | .cons _ _, 0, 0, _, h => absurd rfl h
  | .cons _ _, 0, j+1, _, _ => by simp [GVs.set, GVs.get?]
  | .cons _ _, i+1, 0, _, _ => by simp [GVs.set, GVs.get?]
  | .cons _ r, i+1, j+1, x, h => by simpa [GVs.set, GVs.get?] using get_set_other r i j x (by omega)

/-! ## index paths a type admits -/

/-- `ValidPath root p t`: following the field indexes `p` from the struct type `root`
(stepping through embedded structs and embedded pointers to structs) ends at a field of
type `t`. -/
inductive ValidPath : Ty → List Nat → Ty → Prop
  | last {id n fs i hd t} : fs.get? i = some (hd, t) → ValidPath (.struct id n fs) [i] t
  | stepStruct {id n fs i hd id' n' fs' j rest t} : fs.get? i = some (hd, .struct id' n' fs') →
      ValidPath (.struct id' n' fs') (j :: rest) t → ValidPath (.struct id n fs) (i :: j :: rest) t
  | stepPtr {id n fs i hd id' n' fs' j rest t} : fs.get? i = some (hd, .ptr (.struct id' n' fs')) →
      ValidPath (.struct id' n' fs') (j :: rest) t → ValidPath (.struct id n fs) (i :: j :: rest) t

theorem validPath_ne_nil {root p t} (h : ValidPath root p t) : p ≠ [] := by
  cases h <;> simp

/-- A valid path can be extended by a field of the struct (or pointed-to struct) it ends in. -/
theorem validPath_extend {root : Ty} {p : List Nat} {t : Ty} (h : ValidPath root p t) :
    ∀ (sid : Nat) (sf : TFields) (j : Nat) (hd : FieldHdr) (t' : Ty),
      embeddedStruct t = some (sid, sf) → sf.get? j = some (hd, t') → ValidPath root (p ++ [j]) t' := by
  induction h with
  | last hg =>
    intro sid sf j hd t' he hj
    rename_i id n fs i hd0 t0
    cases t0 with
    | struct id' n' fs' =>
      simp [embeddedStruct] at he; obtain ⟨rfl, rfl⟩ := he
      exact .stepStruct hg (.last hj)
    | ptr e =>
      cases e with
      | struct id' n' fs' =>
        simp [embeddedStruct] at he; obtain ⟨rfl, rfl⟩ := he
        exact .stepPtr hg (.last hj)
      | _ => simp [embeddedStruct] at he
    | _ => simp [embeddedStruct] at he
  | stepStruct hg _ ih =>
    intro sid sf j hd t' he hj
    exact .stepStruct hg (ih sid sf j hd t' he hj)
  | stepPtr hg _ ih =>
    intro sid sf j hd t' he hj
    exact .stepPtr hg (ih sid sf j hd t' he hj)

/-! ## walking and writing along valid paths -/

theorem getPath_one (vals : GVs) (i : Nat) :
    getPath (.struct vals) [i] = match vals.get? i with | none => .error .bad | some fv => .ok fv := by
  unfold getPath; cases vals.get? i <;> rfl

theorem getPath_step (vals : GVs) (i j : Nat) (rest : List Nat) :
    getPath (.struct vals) (i :: j :: rest) =
      match vals.get? i with
      | none => .error .bad
      | some .nilptr => .error .nilEmbedded
      | some (.ptr inner) => getPath inner (j :: rest)
      | some other => getPath other (j :: rest) := by
  rw [getPath]
  cases h : vals.get? i with
  | none => rfl
  | some fv => cases fv <;> rfl

theorem setPath_one (vals : GVs) (i : Nat) (x : GV) :
    setPath (.struct vals) [i] x = match vals.get? i with | none => .struct vals | some _ => .struct (vals.set i x) := by
  unfold setPath; cases vals.get? i <;> rfl

theorem setPath_step (vals : GVs) (i j : Nat) (rest : List Nat) (x : GV) :
    setPath (.struct vals) (i :: j :: rest) x =
      match vals.get? i with
      | none => .struct vals
      | some (.ptr inner) => .struct (vals.set i (.ptr (setPath inner (j :: rest) x)))
      | some other => .struct (vals.set i (setPath other (j :: rest) x)) := by
  rw [setPath]
  cases h : vals.get? i with
  | none => rfl
  | some fv => cases fv <;> rfl

/-- Walking a valid path in a well-typed value never goes wrong: it ends at a value of
the field's type, or stops at a nil embedded pointer. -/
theorem getPath_valid {root : Ty} {p : List Nat} {t : Ty} (hp : ValidPath root p t) :
    ∀ (v : GV), HasTy v root →
      (∃ fv, getPath v p = .ok fv ∧ HasTy fv t) ∨ getPath v p = .error .nilEmbedded := by
  induction hp with
  | last hg =>
    intro v hv
    cases hv with
    | struct _ _ hvs =>
      obtain ⟨fv, hget, hty⟩ := hasTys_get _ _ hvs _ _ _ hg
      left; exact ⟨fv, by rw [getPath_one, hget], hty⟩
  | stepStruct hg _ ih =>
    intro v hv
    cases hv with
    | struct _ _ hvs =>
      obtain ⟨fv, hget, hty⟩ := hasTys_get _ _ hvs _ _ _ hg
      rw [getPath_step, hget]
      cases hty with
      | struct _ _ hin => exact ih _ (.struct _ _ hin)
  | stepPtr hg _ ih =>
    intro v hv
    cases hv with
    | struct _ _ hvs =>
      obtain ⟨fv, hget, hty⟩ := hasTys_get _ _ hvs _ _ _ hg
      rw [getPath_step, hget]
      cases hty with
      | nilptr => right; rfl
      | ptr hin => exact ih _ hin

/-- Writing a value of the field's type at a walkable valid path keeps the target
well typed and is read back. -/
theorem setPath_valid {root : Ty} {p : List Nat} {t : Ty} (hp : ValidPath root p t) :
    ∀ (v : GV) (x : GV), HasTy v root → HasTy x t → (∃ old, getPath v p = .ok old) →
      HasTy (setPath v p x) root ∧ getPath (setPath v p x) p = .ok x := by
  induction hp with
  | last hg =>
    intro v x hv hx _
    cases hv with
    | struct _ _ hvs =>
      obtain ⟨fv, hget, _⟩ := hasTys_get _ _ hvs _ _ _ hg
      rw [setPath_one, hget]
      exact ⟨.struct _ _ (hasTys_set _ _ hvs _ _ _ x hg hx), by rw [getPath_one, get_set_same _ _ _ ⟨fv, hget⟩]⟩
  | stepStruct hg _ ih =>
    intro v x hv hx hold
    cases hv with
    | struct _ _ hvs =>
      obtain ⟨fv, hget, hty⟩ := hasTys_get _ _ hvs _ _ _ hg
      rw [getPath_step, hget] at hold
      rw [setPath_step, hget]
      cases hty with
      | struct _ _ hin =>
        obtain ⟨h1, h2⟩ := ih _ x (.struct _ _ hin) hx hold
        refine ⟨.struct _ _ (hasTys_set _ _ hvs _ _ _ _ hg h1), ?_⟩
        rw [getPath_step, get_set_same _ _ _ ⟨_, hget⟩]
        cases hs : setPath (GV.struct _) _ x with
        | struct vs => rw [hs] at h2; exact h2
        | _ => rw [hs] at h1; cases h1
  | stepPtr hg _ ih =>
    intro v x hv hx hold
    cases hv with
    | struct _ _ hvs =>
      obtain ⟨fv, hget, hty⟩ := hasTys_get _ _ hvs _ _ _ hg
      rw [getPath_step, hget] at hold
      rw [setPath_step, hget]
      cases hty with
      | nilptr => obtain ⟨_, ho⟩ := hold; cases ho
      | ptr hin =>
        obtain ⟨h1, h2⟩ := ih _ x hin hx hold
        refine ⟨.struct _ _ (hasTys_set _ _ hvs _ _ _ _ hg (.ptr h1)), ?_⟩
        rw [getPath_step, get_set_same _ _ _ ⟨_, hget⟩]
        exact h2

/-! ## `FieldByNameFunc` returns walkable paths -/

/-- Every field of the struct with fields `sf`, reached at index prefix `idx`, has a valid path. -/
def Reaches (root : Ty) (idx : List Nat) (sf : TFields) : Prop :=
  ∀ j hd t, sf.get? j = some (hd, t) → ValidPath root (idx ++ [j]) t

structure AccOK (root : Ty) (acc : Acc) : Prop where
  res : ∀ f, acc.res = some f → ValidPath root f.index f.ty
  next : ∀ s, s ∈ acc.next → Reaches root s.index s.fields

theorem reaches_root (id : Nat) (n : List Char) (fs : TFields) : Reaches (.struct id n fs) [] fs := by
  intro j hd t hg; exact .last hg

theorem reaches_child {root : Ty} {pfx : List Nat} {full : TFields} (hr : Reaches root pfx full)
    {i : Nat} {hd : FieldHdr} {ty : Ty} (hg : full.get? i = some (hd, ty))
    {sid : Nat} {sf : TFields} (he : embeddedStruct ty = some (sid, sf)) : Reaches root (pfx ++ [i]) sf := by
  intro j hd' t' hj
  exact validPath_extend (hr i hd ty hg) sid sf j hd' t' he hj

theorem scanFields_ok (root : Ty) (m : List Char → Bool) (tcount : Nat) (pfx : List Nat) (full : TFields)
    (hr : Reaches root pfx full) :
    ∀ (rest : TFields) (i : Nat) (acc acc' : Acc),
      (∀ k, rest.get? k = full.get? (i + k)) → AccOK root acc →
      scanFields m tcount pfx rest i acc = some acc' → AccOK root acc'
  | .nil, i, acc, acc', _, hok, h => by
    simp [scanFields] at h; subst h; exact hok
  | .cons hd ty rest, i, acc, acc', hsuf, hok, h => by
    have hget : full.get? i = some (hd, ty) := by
      have := hsuf 0; simp [TFields.get?] at this; exact this.symm
    have hsuf' : ∀ k, rest.get? k = full.get? (i + 1 + k) := by
      intro k; have := hsuf (k + 1); simp only [TFields.get?] at this
      rw [this]; congr 1; omega
    unfold scanFields at h
    split at h
    · split at h
      · simp at h
      · refine scanFields_ok root m tcount pfx full hr rest (i + 1) _ acc' hsuf' ?_ h
        refine ⟨fun f hf => ?_, hok.next⟩
        simp only [Option.some.injEq] at hf; subst hf; exact hr i hd ty hget
    · split at h
      · exact scanFields_ok root m tcount pfx full hr rest (i + 1) acc acc' hsuf' hok h
      · rename_i sid sf hemb
        have he : embeddedStruct ty = some (sid, sf) := by
          split at hemb
          · exact hemb
          · simp at hemb
        split at h
        · exact scanFields_ok root m tcount pfx full hr rest (i + 1) acc acc' hsuf' hok h
        · split at h
          · refine scanFields_ok root m tcount pfx full hr rest (i + 1) _ acc' hsuf' ?_ h
            exact ⟨hok.res, hok.next⟩
          · refine scanFields_ok root m tcount pfx full hr rest (i + 1) _ acc' hsuf' ?_ h
            refine ⟨hok.res, ?_⟩
            intro s hs
            simp only [List.mem_append, List.mem_singleton] at hs
            rcases hs with hs | hs
            · exact hok.next s hs
            · subst hs; exact reaches_child hr hget he

theorem scanLevel_ok (root : Ty) (m : List Char → Bool) (count : List (Nat × Nat)) :
    ∀ (cur : List Scan) (visited : List Nat) (acc acc' : Acc) (visited' : List Nat),
      (∀ s, s ∈ cur → Reaches root s.index s.fields) → AccOK root acc →
      scanLevel m count cur visited acc = some (acc', visited') → AccOK root acc'
  | [], visited, acc, acc', visited', _, hok, h => by
    simp [scanLevel] at h; obtain ⟨rfl, _⟩ := h; exact hok
  | s :: rest, visited, acc, acc', visited', hcur, hok, h => by
    unfold scanLevel at h
    split at h
    · exact scanLevel_ok root m count rest visited acc acc' visited' (fun s' hs' => hcur s' (by simp [hs'])) hok h
    · split at h
      · simp at h
      · rename_i acc1 hsf
        have h1 := scanFields_ok root m _ s.index s.fields (hcur s (by simp)) s.fields 0 acc acc1
          (fun k => by simp) hok hsf
        exact scanLevel_ok root m count rest _ acc1 acc' visited' (fun s' hs' => hcur s' (by simp [hs'])) h1 h

theorem fieldByNameLoop_ok (root : Ty) (m : List Char → Bool) :
    ∀ (fuel : Nat) (cur : List Scan) (count : List (Nat × Nat)) (visited : List Nat) (f : Found),
      (∀ s, s ∈ cur → Reaches root s.index s.fields) →
      fieldByNameLoop m fuel cur count visited = some f → ValidPath root f.index f.ty
  | 0, _, _, _, _, _, h => by simp [fieldByNameLoop] at h
  | fuel+1, cur, count, visited, f, hcur, h => by
    unfold fieldByNameLoop at h
    split at h
    · simp at h
    · split at h
      · simp at h
      · rename_i acc visited' hl
        have hacc := scanLevel_ok root m count cur visited {} acc visited' hcur
          ⟨fun f hf => by simp at hf, fun s hs => by simp at hs⟩ hl
        split at h
        · rename_i r hr
          simp at h; subst h
          exact hacc.res r hr
        · exact fieldByNameLoop_ok root m fuel acc.next acc.nextCount visited' f hacc.next h

/-- **`FieldByNameFunc` returns an index path the type admits.** -/
theorem fieldByNameFunc_valid (id : Nat) (n : List Char) (fs : TFields) (m : List Char → Bool) (fuel : Nat) (f : Found)
    (h : fieldByNameFunc id fs m fuel = some f) : ValidPath (.struct id n fs) f.index f.ty := by
  unfold fieldByNameFunc at h
  apply fieldByNameLoop_ok (.struct id n fs) m fuel _ _ _ f _ h
  intro s hs
  simp at hs; subst hs
  exact reaches_root id n fs

/-- The field lookup of `setField` (tag table, then the name rule) returns a valid path. -/
theorem lookupField_valid (id : Nat) (n : List Char) (fs : TFields) (tagged : List (List Char × Nat)) (name : List Char) (f : Found)
    (h : lookupField id fs tagged name = some f) : ValidPath (.struct id n fs) f.index f.ty := by
  unfold lookupField at h
  split at h
  · rename_i i _
    cases hg : fs.get? i with
    | none => simp [hg] at h
    | some p =>
      obtain ⟨hd, t⟩ := p
      simp [hg] at h; subst h
      exact .last hg
  · exact fieldByNameFunc_valid id n fs _ _ f h

/-! ## the binder keeps the target well typed and never reaches a panic -/

def Outcome.Typed (ty : Ty) : Outcome → Prop
  | .ok v => HasTy v ty
  | .err v _ => HasTy v ty
  | .panic => False

/-- What is assumed of the binder for nested blocks (one level less). -/
def CopyOK (copy : Ty → GV → Block → Outcome) (D : Nat) : Prop :=
  ∀ ty v b, HasTy v ty → blockDepth b ≤ D → (copy ty v b).Typed ty

theorem assign_typed {x : Value} {ty : Ty} {gx : GV} (h : assign x ty = some gx) : HasTy gx ty := by
  cases x <;> cases ty <;> simp [assign] at h <;> (try (rename_i k; cases k <;> simp [assign] at h)) <;>
    first
    | (subst h; constructor)
    | skip

def Item.depthLe (D : Nat) : Item → Prop
  | .val _ _ => True
  | .child _ b => blockDepth b ≤ D

def StepTyped (root : Ty) : Except Outcome BState → Prop
  | .ok st => HasTy st.v root
  | .error o => o.Typed root

theorem setItem_typed (copy : Ty → GV → Block → Outcome) (D : Nat) (hc : CopyOK copy D)
    (id : Nat) (n : List Char) (tfs : TFields) (tagged : List (List Char × Nat)) (st : BState) (it : Item)
    (hv : HasTy st.v (.struct id n tfs)) (hd : it.depthLe D) :
    StepTyped (.struct id n tfs) (setItem copy id tfs tagged st it) := by
  unfold setItem
  cases hl : lookupField id tfs tagged (chars it.key) with
  | none => exact hv
  | some f =>
    have hvalid := lookupField_valid id n tfs tagged _ f hl
    simp only
    split
    · exact hv
    · cases it with
      | val k x =>
        simp only
        split
        · exact hv
        · split
          · exact hv
          · rcases getPath_valid hvalid st.v hv with ⟨fv, hg, hfv⟩ | hg
            · rw [hg]; simp only
              cases ha : assign x f.ty with
              | none => exact hv
              | some gx => exact (setPath_valid hvalid st.v gx hv (assign_typed ha) ⟨fv, hg⟩).1
            · rw [hg]; exact hv
      | child k b =>
        simp only
        split
        · exact hv
        · rcases getPath_valid hvalid st.v hv with ⟨fv, hg, hfv⟩ | hg
          · rw [hg]; simp only
            have hcb := hc f.ty fv b hfv hd
            cases hcopy : copy f.ty fv b with
            | ok fv' =>
              rw [hcopy] at hcb
              exact (setPath_valid hvalid st.v fv' hv hcb ⟨fv, hg⟩).1
            | err fv' e =>
              rw [hcopy] at hcb
              exact (setPath_valid hvalid st.v fv' hv hcb ⟨fv, hg⟩).1
            | panic => rw [hcopy] at hcb; exact hcb
          · rw [hg]; exact hv

theorem setItems_typed (copy : Ty → GV → Block → Outcome) (D : Nat) (hc : CopyOK copy D)
    (id : Nat) (n : List Char) (tfs : TFields) (tagged : List (List Char × Nat)) :
    ∀ (items : List Item) (st : BState), HasTy st.v (.struct id n tfs) → (∀ it ∈ items, it.depthLe D) →
      (setItems copy id tfs tagged items st).Typed (.struct id n tfs)
  | [], st, hv, _ => hv
  | it :: rest, st, hv, hd => by
    unfold setItems
    have h1 := setItem_typed copy D hc id n tfs tagged st it hv (hd it (by simp))
    cases hs : setItem copy id tfs tagged st it with
    | error o => rw [hs] at h1; exact h1
    | ok st' =>
      rw [hs] at h1
      exact setItems_typed copy D hc id n tfs tagged rest st' h1 (fun it' h' => hd it' (by simp [h']))

theorem setName_typed (id : Nat) (n : List Char) (tfs : TFields) (tagged : List (List Char × Nat)) (v : GV) (bname : Bytes)
    (hv : HasTy v (.struct id n tfs)) : StepTyped (.struct id n tfs) (setName id tfs tagged v bname) := by
  unfold setName
  cases hl : lookupField id tfs tagged "Name".toList with
  | none => simp only; split <;> exact hv
  | some f =>
    have hvalid := lookupField_valid id n tfs tagged _ f hl
    simp only
    split
    · exact hv
    · rcases getPath_valid hvalid v hv with ⟨fv, hg, hfv⟩ | hg
      · rw [hg]; simp only
        cases ha : assign (.str bname) f.ty with
        | none => exact hv
        | some gx => exact (setPath_valid hvalid v gx hv (assign_typed ha) ⟨fv, hg⟩).1
      · rw [hg]; exact hv

/-- membership survives the insertion sort -/
theorem mem_insertItem (x y : Item) : ∀ (l : List Item), y ∈ insertItem x l ↔ y = x ∨ y ∈ l
  | [] => by simp [insertItem]
  | z :: zs => by
    unfold insertItem
    split
    · simp [mem_insertItem x y zs]; constructor
      · rintro (h | h | h) <;> simp [h]
      · rintro (h | h | h) <;> simp [h]
    · simp

theorem mem_sortedItems (fs : Fields) (y : Item) : y ∈ sortedItems fs ↔ y ∈ Fields.items fs := by
  unfold sortedItems
  induction Fields.items fs with
  | nil => simp
  | cons x xs ih => simp [List.foldr, mem_insertItem, ih]

theorem items_depth : ∀ (fs : Fields) (it : Item), it ∈ Fields.items fs → it.depthLe (fieldsDepth fs)
  | .nil, it, h => by simp [Fields.items] at h
  | .val k v rest, it, h => by
    simp only [Fields.items, List.mem_cons] at h
    rcases h with h | h
    · subst h; trivial
    · have := items_depth rest it h
      cases it with
      | val => trivial
      | child k' b => simp only [Item.depthLe, fieldsDepth] at this ⊢; exact this
  | .child k b rest, it, h => by
    simp only [Fields.items, List.mem_cons] at h
    rcases h with h | h
    · subst h; simp only [Item.depthLe, fieldsDepth]; omega
    · have := items_depth rest it h
      cases it with
      | val => trivial
      | child k' b' => simp only [Item.depthLe, fieldsDepth] at this ⊢; omega

/-- **The binder on one block**: with enough fuel for the nesting of the block it never
reaches a panic, and the target stays well typed whether it succeeds or fails. -/
theorem copyBlock_typed : ∀ (fuel : Nat), CopyOK (copyBlock (fuel + 1)) fuel
  | fuel, ty, v, .mk btyp bname fields, hv, hd => by
    unfold copyBlock
    cases ty with
    | struct id sname tfs =>
      simp only
      split
      · exact hv
      · have hn := setName_typed id sname tfs (taggedOf tfs 0 []) v bname hv
        cases hs : setName id tfs (taggedOf tfs 0 []) v bname with
        | error o => rw [hs] at hn; exact hn
        | ok st =>
          rw [hs] at hn
          simp only
          cases fuel with
          | zero =>
            -- depth ≤ 0 is impossible for a block
            simp [blockDepth] at hd
          | succ f =>
            have hcopy : CopyOK (copyBlock (f + 1)) f := copyBlock_typed f
            apply setItems_typed (copyBlock (f + 1)) f hcopy id sname tfs _ (sortedItems fields) st hn
            intro it hit
            have h1 := items_depth fields it ((mem_sortedItems fields it).mp hit)
            simp only [blockDepth] at hd
            cases it with
            | val => trivial
            | child k b => simp only [Item.depthLe] at h1 ⊢; omega
    | _ => exact hv

/-! ## writes at non-overlapping paths do not disturb each other -/

theorem overlaps_symm : ∀ (a b : List Nat), overlaps a b = overlaps b a
  | [], [] => rfl
  | [], _ :: _ => rfl
  | _ :: _, [] => rfl
  | x :: xs, y :: ys => by
    simp only [overlaps]
    rw [overlaps_symm xs ys]
    cases h : x == y <;> cases h' : y == x <;> simp_all

theorem setPath_struct_shape (vals : GVs) : ∀ (p : List Nat) (x : GV), p ≠ [] → ∃ vals', setPath (.struct vals) p x = .struct vals'
  | [], _, h => absurd rfl h
  | [i], x, _ => by rw [setPath_one]; cases vals.get? i <;> exact ⟨_, rfl⟩
  | i :: j :: rest, x, _ => by
    rw [setPath_step]
    cases h : vals.get? i with
    | none => exact ⟨_, rfl⟩
    | some fv => cases fv <;> exact ⟨_, rfl⟩

theorem setPath_nonstruct (v : GV) (p : List Nat) (x : GV) (hp : p ≠ []) (hv : ∀ vals, v ≠ .struct vals) : setPath v p x = v := by
  cases p with
  | nil => exact absurd rfl hp
  | cons i rest => cases v <;> first | rfl | exact absurd rfl (hv _)

/-- The head index decides everything `getPath` looks at first. -/
theorem getPath_congr_head (vals vals' : GVs) (j : Nat) (q : List Nat) (h : vals'.get? j = vals.get? j) :
    getPath (.struct vals') (j :: q) = getPath (.struct vals) (j :: q) := by
  cases q with
  | nil => rw [getPath_one, getPath_one, h]
  | cons j2 q' => rw [getPath_step, getPath_step, h]

/-- **Frame**: storing at a path leaves every non-overlapping path as it was. -/
theorem getPath_setPath_frame : ∀ (p : List Nat) (v : GV) (q : List Nat) (x : GV),
    overlaps p q = false → getPath (setPath v p x) q = getPath v q
  | [], _, q, _, h => by simp [overlaps] at h
  | _ :: _, _, [], _, h => by simp [overlaps] at h
  | i :: p', v, j :: q', x, h => by
    cases v with
    | struct vals =>
      by_cases hij : i = j
      · subst hij
        have h' : overlaps p' q' = false := by simpa [overlaps] using h
        cases p' with
        | nil => simp [overlaps] at h'
        | cons i2 p'' =>
          cases q' with
          | nil => simp [overlaps] at h'
          | cons j2 q'' =>
            rw [setPath_step]
            cases hg : vals.get? i with
            | none => rfl
            | some fv =>
              have ih := getPath_setPath_frame (i2 :: p'') 
              cases fv with
              | ptr inner =>
                simp only
                rw [getPath_step, get_set_same _ _ _ ⟨_, hg⟩, getPath_step, hg]
                exact ih inner (j2 :: q'') x h'
              | struct vs =>
                simp only
                obtain ⟨vals', hshape⟩ := setPath_struct_shape vs (i2 :: p'') x (by simp)
                rw [getPath_step, get_set_same _ _ _ ⟨_, hg⟩, getPath_step, hg, hshape]
                simp only
                rw [← hshape]
                exact ih (.struct vs) (j2 :: q'') x h'
              | nilptr =>
                simp only
                rw [setPath_nonstruct .nilptr (i2 :: p'') x (by simp) (by intro vals hh; cases hh)]
                rw [getPath_step, get_set_same _ _ _ ⟨_, hg⟩, getPath_step, hg]
              | int a =>
                simp only
                rw [setPath_nonstruct (.int a) (i2 :: p'') x (by simp) (by intro vals hh; cases hh)]
                rw [getPath_step, get_set_same _ _ _ ⟨_, hg⟩, getPath_step, hg]
              | float a =>
                simp only
                rw [setPath_nonstruct (.float a) (i2 :: p'') x (by simp) (by intro vals hh; cases hh)]
                rw [getPath_step, get_set_same _ _ _ ⟨_, hg⟩, getPath_step, hg]
              | str a =>
                simp only
                rw [setPath_nonstruct (.str a) (i2 :: p'') x (by simp) (by intro vals hh; cases hh)]
                rw [getPath_step, get_set_same _ _ _ ⟨_, hg⟩, getPath_step, hg]
              | bool a =>
                simp only
                rw [setPath_nonstruct (.bool a) (i2 :: p'') x (by simp) (by intro vals hh; cases hh)]
                rw [getPath_step, get_set_same _ _ _ ⟨_, hg⟩, getPath_step, hg]
              | boxed a =>
                simp only
                rw [setPath_nonstruct (.boxed a) (i2 :: p'') x (by simp) (by intro vals hh; cases hh)]
                rw [getPath_step, get_set_same _ _ _ ⟨_, hg⟩, getPath_step, hg]
              | «opaque» =>
                simp only
                rw [setPath_nonstruct .opaque (i2 :: p'') x (by simp) (by intro vals hh; cases hh)]
                rw [getPath_step, get_set_same _ _ _ ⟨_, hg⟩, getPath_step, hg]
              | slice a =>
                simp only
                rw [setPath_nonstruct (.slice a) (i2 :: p'') x (by simp) (by intro vals hh; cases hh)]
                rw [getPath_step, get_set_same _ _ _ ⟨_, hg⟩, getPath_step, hg]
      · -- different heads: only position `i` of the struct changes
        obtain ⟨vals', hshape⟩ := setPath_struct_shape vals (i :: p') x (by simp)
        rw [hshape]
        apply getPath_congr_head
        -- vals' differs from vals at most at i
        cases p' with
        | nil =>
          rw [setPath_one] at hshape
          cases hg : vals.get? i with
          | none => rw [hg] at hshape; simp at hshape; subst hshape; rfl
          | some fv => rw [hg] at hshape; simp at hshape; subst hshape; exact get_set_other _ _ _ _ hij
        | cons i2 p'' =>
          rw [setPath_step] at hshape
          cases hg : vals.get? i with
          | none => rw [hg] at hshape; simp at hshape; subst hshape; rfl
          | some fv =>
            rw [hg] at hshape
            cases fv <;> simp at hshape <;> subst hshape <;> exact get_set_other _ _ _ _ hij
    | int a => rfl
    | float a => rfl
    | str a => rfl
    | bool a => rfl
    | boxed a => rfl
    | «opaque» => rfl
    | nilptr => rfl
    | ptr a => rfl
    | slice a => rfl

/-- A value stored at a walkable path is read back from it. -/
theorem getPath_setPath_same : ∀ (p : List Nat) (v : GV) (x : GV),
    (∃ old, getPath v p = .ok old) → getPath (setPath v p x) p = .ok x
  | [], v, x, _ => by simp [setPath, getPath]
  | [i], v, x, h => by
    cases v with
    | struct vals =>
      rw [getPath_one] at h
      cases hg : vals.get? i with
      | none => rw [hg] at h; obtain ⟨_, h⟩ := h; cases h
      | some fv => rw [setPath_one, hg]; simp only; rw [getPath_one, get_set_same _ _ _ ⟨_, hg⟩]
    | _ => obtain ⟨_, h⟩ := h; simp [getPath] at h
  | i :: j :: rest, v, x, h => by
    cases v with
    | struct vals =>
      rw [getPath_step] at h
      rw [setPath_step]
      cases hg : vals.get? i with
      | none => rw [hg] at h; obtain ⟨_, h⟩ := h; cases h
      | some fv =>
        rw [hg] at h
        cases fv with
        | ptr inner =>
          simp only at h ⊢
          rw [getPath_step, get_set_same _ _ _ ⟨_, hg⟩]
          exact getPath_setPath_same (j :: rest) inner x h
        | struct vs =>
          simp only at h ⊢
          obtain ⟨vals', hshape⟩ := setPath_struct_shape vs (j :: rest) x (by simp)
          rw [getPath_step, get_set_same _ _ _ ⟨_, hg⟩, hshape]
          simp only
          rw [← hshape]
          exact getPath_setPath_same (j :: rest) (.struct vs) x h
        | nilptr => obtain ⟨_, h⟩ := h; cases h
        | int a => obtain ⟨_, h⟩ := h; simp [getPath] at h
        | float a => obtain ⟨_, h⟩ := h; simp [getPath] at h
        | str a => obtain ⟨_, h⟩ := h; simp [getPath] at h
        | bool a => obtain ⟨_, h⟩ := h; simp [getPath] at h
        | boxed a => obtain ⟨_, h⟩ := h; simp [getPath] at h
        | «opaque» => obtain ⟨_, h⟩ := h; simp [getPath] at h
        | slice a => obtain ⟨_, h⟩ := h; simp [getPath] at h
    | _ => obtain ⟨_, h⟩ := h; simp [getPath] at h

/-! ## what a successful call has stored -/

/-- What one entry asks for: the value a plain entry holds, or the outcome of binding a
nested block into the field's previous value. -/
def Item.Wrote (copy : Ty → GV → Block → Outcome) (fty : Ty) (prev : GV) (g : GV) : Item → Prop
  | .val _ x => x ≠ .nil ∧ assign x fty = some g
  | .child _ b => copy fty prev b = .ok g

theorem setItem_ok_effect (copy : Ty → GV → Block → Outcome) (id : Nat) (tfs : TFields)
    (tagged : List (List Char × Nat)) (st st' : BState) (it : Item)
    (h : setItem copy id tfs tagged st it = .ok st') :
    ∃ f prev g, lookupField id tfs tagged (chars it.key) = some f ∧ f.hdr.exported = true
      ∧ (∀ p ∈ st.stored, overlaps p f.index = false)
      ∧ getPath st.v f.index = .ok prev
      ∧ st'.v = setPath st.v f.index g ∧ st'.stored = st.stored ++ [f.index]
      ∧ it.Wrote copy f.ty prev g := by
  unfold setItem at h
  cases hl : lookupField id tfs tagged (chars it.key) with
  | none => simp [hl] at h
  | some f =>
    simp only [hl] at h
    split at h
    · simp at h
    · rename_i hex
      have hex' : f.hdr.exported = true := by simpa using hex
      cases it with
      | val k x =>
        simp only at h
        split at h
        · simp at h
        · rename_i hnil
          split at h
          · simp at h
          · rename_i hov
            have hov' : ∀ p ∈ st.stored, overlaps p f.index = false := by
              intro p hp
              cases ho : overlaps p f.index with
              | false => rfl
              | true => exact absurd (List.any_eq_true.mpr ⟨p, hp, ho⟩) hov
            cases hg : getPath st.v f.index with
            | error e => rw [hg] at h; cases e <;> simp at h
            | ok prev =>
              rw [hg] at h; simp only at h
              cases ha : assign x f.ty with
              | none => rw [ha] at h; simp at h
              | some gx =>
                rw [ha] at h; simp only [Except.ok.injEq] at h; subst h
                exact ⟨f, prev, gx, rfl, hex', hov', hg, rfl, rfl, hnil, ha⟩
      | child k b =>
        simp only at h
        split at h
        · simp at h
        · rename_i hov
          have hov' : ∀ p ∈ st.stored, overlaps p f.index = false := by
            intro p hp
            cases ho : overlaps p f.index with
            | false => rfl
            | true => exact absurd (List.any_eq_true.mpr ⟨p, hp, ho⟩) hov
          cases hg : getPath st.v f.index with
          | error e => rw [hg] at h; cases e <;> simp at h
          | ok prev =>
            rw [hg] at h; simp only at h
            cases hc : copy f.ty prev b with
            | ok fv' =>
              rw [hc] at h; simp only [Except.ok.injEq] at h; subst h
              exact ⟨f, prev, fv', rfl, hex', hov', hg, rfl, rfl, hc⟩
            | err fv' e => rw [hc] at h; simp at h
            | panic => rw [hc] at h; simp at h

theorem setItem_error_not_ok (copy : Ty → GV → Block → Outcome) (id : Nat) (tfs : TFields)
    (tagged : List (List Char × Nat)) (st : BState) (it : Item) (v : GV) :
    setItem copy id tfs tagged st it ≠ .error (.ok v) := by
  unfold setItem
  cases lookupField id tfs tagged (chars it.key) with
  | none => simp
  | some f =>
    simp only
    split
    · simp
    · cases it with
      | val k x =>
        simp only
        split
        · simp
        · split
          · simp
          · cases getPath st.v f.index with
            | error e => cases e <;> simp
            | ok prev => simp only; cases assign x f.ty <;> simp
      | child k b =>
        simp only
        split
        · simp
        · cases getPath st.v f.index with
          | error e => cases e <;> simp
          | ok prev => simp only; cases copy f.ty prev b <;> simp

/-- What has been stored so far is still there: path (recorded in `stored`) and value. -/
def Kept (st : BState) (W : List (List Nat × GV)) : Prop :=
  ∀ pg ∈ W, pg.1 ∈ st.stored ∧ getPath st.v pg.1 = .ok pg.2

/-- **A successful pass over the entries has stored every one of them, and they are all
still there at the end** (no entry overwrites another: the collision check). -/
theorem setItems_ok_stores (copy : Ty → GV → Block → Outcome) (id : Nat) (tfs : TFields)
    (tagged : List (List Char × Nat)) :
    ∀ (items : List Item) (st : BState) (v' : GV) (W : List (List Nat × GV)), Kept st W →
      setItems copy id tfs tagged items st = .ok v' →
      (∀ pg ∈ W, getPath v' pg.1 = .ok pg.2) ∧
      ∀ it ∈ items, ∃ f prev g, lookupField id tfs tagged (chars it.key) = some f ∧ f.hdr.exported = true
        ∧ getPath v' f.index = .ok g ∧ it.Wrote copy f.ty prev g
  | [], st, v', W, hk, h => by
    simp [setItems] at h; subst h
    exact ⟨fun pg hpg => (hk pg hpg).2, fun it hit => by simp at hit⟩
  | it :: rest, st, v', W, hk, h => by
    unfold setItems at h
    cases hs : setItem copy id tfs tagged st it with
    | error o =>
      rw [hs] at h; simp only at h; subst h
      exact absurd hs (setItem_error_not_ok copy id tfs tagged st it v')
    | ok st' =>
      rw [hs] at h; simp only at h
      obtain ⟨f, prev, g, hl, hex, hov, hget, hv, hstored, hw⟩ := setItem_ok_effect copy id tfs tagged st st' it hs
      have hk' : Kept st' (W ++ [(f.index, g)]) := by
        intro pg hpg
        simp only [List.mem_append, List.mem_singleton] at hpg
        rcases hpg with hpg | hpg
        · have := hk pg hpg
          refine ⟨by rw [hstored]; simp [this.1], ?_⟩
          rw [hv, getPath_setPath_frame f.index st.v pg.1 g (by rw [overlaps_symm]; exact hov pg.1 this.1)]
          exact this.2
        · subst hpg
          refine ⟨by rw [hstored]; simp, ?_⟩
          rw [hv]; exact getPath_setPath_same f.index st.v g ⟨prev, hget⟩
      obtain ⟨h1, h2⟩ := setItems_ok_stores copy id tfs tagged rest st' v' _ hk' h
      refine ⟨fun pg hpg => h1 pg (by simp [hpg]), ?_⟩
      intro it' hit'
      simp only [List.mem_cons] at hit'
      rcases hit' with rfl | hit'
      · exact ⟨f, prev, g, hl, hex, h1 (f.index, g) (by simp), hw⟩
      · exact h2 it' hit'

/-! ## the order in which a block's fields are enumerated -/

theorem bytesLt_irrefl : ∀ (a : Bytes), bytesLt a a = false
  | [] => rfl
  | x :: xs => by simp [bytesLt, bytesLt_irrefl xs, UInt8.lt_irrefl]

theorem bytesLt_trans : ∀ (a b c : Bytes), bytesLt a b = true → bytesLt b c = true → bytesLt a c = true
  | [], [], _, h, _ => by simp [bytesLt] at h
  | [], _ :: _, [], _, h => by simp [bytesLt] at h
  | [], _ :: _, _ :: _, _, _ => rfl
  | _ :: _, [], _, h, _ => by simp [bytesLt] at h
  | _ :: _, _ :: _, [], _, h => by simp [bytesLt] at h
  | x :: xs, y :: ys, z :: zs, h1, h2 => by
    simp only [bytesLt, Bool.or_eq_true, decide_eq_true_eq, Bool.and_eq_true, beq_iff_eq] at h1 h2 ⊢
    rcases h1 with h1 | ⟨rfl, h1⟩
    · rcases h2 with h2 | ⟨rfl, h2⟩
      · exact .inl (UInt8.lt_trans h1 h2)
      · exact .inl h1
    · rcases h2 with h2 | ⟨rfl, h2⟩
      · exact .inl h2
      · exact .inr ⟨rfl, bytesLt_trans xs ys zs h1 h2⟩

theorem bytesLt_total : ∀ (a b : Bytes), a ≠ b → bytesLt a b = true ∨ bytesLt b a = true
  | [], [], h => absurd rfl h
  | [], _ :: _, _ => .inl rfl
  | _ :: _, [], _ => .inr rfl
  | x :: xs, y :: ys, h => by
    simp only [bytesLt, Bool.or_eq_true, decide_eq_true_eq, Bool.and_eq_true, beq_iff_eq]
    by_cases hxy : x = y
    · subst hxy
      have : xs ≠ ys := fun h' => h (by rw [h'])
      rcases bytesLt_total xs ys this with h1 | h1
      · exact .inl (.inr ⟨rfl, h1⟩)
      · exact .inr (.inr ⟨rfl, h1⟩)
    · rcases UInt8.lt_or_lt_of_ne hxy with h1 | h1
      · exact .inl (.inl h1)
      · exact .inr (.inl h1)

theorem bytesLt_asymm (a b : Bytes) (h1 : bytesLt a b = true) (h2 : bytesLt b a = true) : False := by
  have := bytesLt_trans a b a h1 h2
  rw [bytesLt_irrefl] at this; cases this

def ItemLt (a b : Item) : Prop := bytesLt a.key b.key = true

theorem insertItem_perm (x : Item) : ∀ (l : List Item), (insertItem x l).Perm (x :: l)
  | [] => by simp [insertItem]
  | y :: ys => by
    unfold insertItem
    split
    · exact ((insertItem_perm x ys).cons y).trans (List.Perm.swap x y ys)
    · exact List.Perm.refl _

theorem insertItem_sorted (x : Item) : ∀ (l : List Item), l.Pairwise ItemLt → (∀ y ∈ l, y.key ≠ x.key) →
    (insertItem x l).Pairwise ItemLt
  | [], _, _ => by simp [insertItem]
  | y :: ys, hs, hne => by
    unfold insertItem
    have hs' := List.pairwise_cons.mp hs
    split
    · rename_i hlt
      apply List.pairwise_cons.mpr
      refine ⟨?_, insertItem_sorted x ys hs'.2 (fun z hz => hne z (by simp [hz]))⟩
      intro z hz
      have hz' := (List.Perm.mem_iff (insertItem_perm x ys)).mp hz
      simp only [List.mem_cons] at hz'
      rcases hz' with rfl | hz'
      · exact hlt
      · exact hs'.1 z hz'
    · rename_i hnlt
      have hxy : ItemLt x y := by
        rcases bytesLt_total x.key y.key (fun h => hne y (by simp) h.symm) with h | h
        · exact h
        · exact absurd h hnlt
      apply List.pairwise_cons.mpr
      refine ⟨?_, hs⟩
      intro z hz
      simp only [List.mem_cons] at hz
      rcases hz with rfl | hz
      · exact hxy
      · exact bytesLt_trans _ _ _ hxy (hs'.1 z hz)

theorem foldr_insert_perm : ∀ (l : List Item), (l.foldr insertItem []).Perm l
  | [] => by simp
  | x :: xs => by
    simp only [List.foldr]
    exact (insertItem_perm x _).trans ((foldr_insert_perm xs).cons x)

theorem foldr_insert_sorted : ∀ (l : List Item), (l.map Item.key).Nodup → (l.foldr insertItem []).Pairwise ItemLt
  | [], _ => by simp
  | x :: xs, hn => by
    simp only [List.foldr]
    simp only [List.map_cons, List.nodup_cons] at hn
    apply insertItem_sorted x _ (foldr_insert_sorted xs hn.2)
    intro y hy hk
    have hy' := (List.Perm.mem_iff (foldr_insert_perm xs)).mp hy
    exact hn.1 (by rw [← hk]; exact List.mem_map_of_mem hy')

/-- **The order in which a block's fields are enumerated does not matter** (a Go map has
none): two field lists with the same entries under distinct keys give the same sorted
sequence, hence the same binder run. -/
theorem sortedItems_perm (fs fs' : Fields) (hp : (Fields.items fs).Perm (Fields.items fs'))
    (hn : ((Fields.items fs).map Item.key).Nodup) : sortedItems fs = sortedItems fs' := by
  unfold sortedItems
  have hn' : ((Fields.items fs').map Item.key).Nodup := (hp.map Item.key).nodup hn
  apply List.Perm.eq_of_pairwise (le := ItemLt)
  · intro a b _ _ h1 h2; exact (bytesLt_asymm _ _ h1 h2).elim
  · exact foldr_insert_sorted _ hn
  · exact foldr_insert_sorted _ hn'
  · exact (foldr_insert_perm _).trans (hp.trans (foldr_insert_perm _).symm)

theorem copyBlock_order_independent (fuel : Nat) (ty : Ty) (v : GV) (bt bn : Bytes) (fs fs' : Fields)
    (hp : (Fields.items fs).Perm (Fields.items fs')) (hn : ((Fields.items fs).map Item.key).Nodup) :
    copyBlock fuel ty v (.mk bt bn fs) = copyBlock fuel ty v (.mk bt bn fs') := by
  cases fuel with
  | zero => rfl
  | succ f =>
    unfold copyBlock
    rw [sortedItems_perm fs fs' hp hn]


end Bclv.Bind
