import Bclv.Proofs.ParserInv
/-!
# Every diagnostic is the line for a token of the input

The invariant `TInv T lfs`: the tokens the parser holds (`prev`, `cur`, the unread ones) are
tokens of the list `T`, and every diagnostic written so far is `diagLine lfs t msg` for a token
`t` of `T` — the position printed is the recorded position of a token, the text quoted is that
token's text.  Kept by every parser function (`TPres`, the framework of `ParserInv` with this
invariant).
-/
namespace Bclv
variable {T : List Token} {lfs : List Nat}

/-- the line the parser writes for an error at token `t` -/
def diagLine (lfs : List Nat) (t : Token) (msg : Bytes) : Bytes :=
  let at_ : Bytes := match t.typ with
    | .EOF => str " at end"
    | .ERR | .FAIL => []
    | _ => str " at '" ++ t.val ++ str "'"
  str "line " ++ fmtPos lfs t.pos ++ str ": error" ++ at_ ++ str ": " ++ msg ++ str "\n"

/-- the tokens the parser holds are tokens of the list `T`, the line table is `lfs`, and every
diagnostic written so far is the line for one of the tokens of `T` -/
def TInv (T : List Token) (lfs : List Nat) (p : PState) : Prop :=
  p.lfs = lfs ∧ p.prev ∈ T ∧ p.cur ∈ T ∧ (∀ t ∈ p.rest, t ∈ T) ∧ ∀ e ∈ p.log, ∃ t ∈ T, ∃ msg, e = diagLine lfs t msg

/-- `m` keeps the invariant. -/
structure TPres (T : List Token) (lfs : List Nat) {α : Type} (m : PM α) : Prop where
  h : ∀ p, TInv T lfs p → TInv T lfs (m p).2

theorem TPres.pure {α} (a : α) : TPres T lfs (pure a : PM α) := ⟨fun _ h => h⟩
theorem TPres.bind {α β} {m : PM α} {f : α → PM β} (hm : TPres T lfs m) (hf : ∀ a, TPres T lfs (f a)) : TPres T lfs (m >>= f) :=
  ⟨fun p hp => (hf _).h _ (hm.h p hp)⟩
theorem TPres.get : TPres T lfs (get : PM PState) := ⟨fun _ h => h⟩
theorem TPres.modify {g : PState → PState} (hg : ∀ p, TInv T lfs p → TInv T lfs (g p)) : TPres T lfs (_root_.modify g : PM Unit) := ⟨fun p hp => hg p hp⟩
theorem TPres.ite {α} {c : Prop} [Decidable c] {x y : PM α} (hx : TPres T lfs x) (hy : TPres T lfs y) : TPres T lfs (if c then x else y) := by
  split <;> assumption

theorem diag_mem {p : PState} {t : Token} (hp : TInv T lfs p) (ht : t ∈ T) (msg : Bytes) :
    TInv T lfs ((errorAt t msg) p).2 := by
  obtain ⟨h1, h2, h3, h4, h5⟩ := hp
  refine ⟨h1, h2, h3, h4, ?_⟩
  intro e he
  have : ((errorAt t msg) p).2.log = diagLine p.lfs t msg :: p.log := rfl
  rw [this] at he
  rcases List.mem_cons.mp he with rfl | he
  · exact ⟨t, ht, msg, by rw [h1]⟩
  · exact h5 e he

theorem errorAtCurrent_tp (msg : Bytes) : TPres T lfs (errorAtCurrent msg) :=
  ⟨fun p hp => diag_mem hp hp.2.2.1 msg⟩

theorem error_tp (msg : Bytes) : TPres T lfs (error msg) :=
  ⟨fun p hp => diag_mem hp hp.2.1 msg⟩

theorem advanceLoop_tp : ∀ (ts : List Token), (∀ t ∈ ts, t ∈ T) → TPres T lfs (advanceLoop ts)
  | [], _ => by
    unfold advanceLoop
    refine TPres.modify (fun p h => ?_)
    obtain ⟨h1, h2, h3, h4, h5⟩ := h
    exact ⟨h1, h2, h3, (fun t ht => nomatch ht), h5⟩
  | t :: ts, hts => by
    unfold advanceLoop
    refine TPres.bind (TPres.modify (fun p h => ?_)) (fun _ => ?_)
    · obtain ⟨h1, h2, h3, h4, h5⟩ := h
      exact ⟨h1, h2, hts t (by simp), fun x hx => hts x (by simp [hx]), h5⟩
    split
    · exact TPres.bind (errorAtCurrent_tp _) (fun _ => advanceLoop_tp ts (fun x hx => hts x (by simp [hx])))
    · exact TPres.pure _

theorem advance_tp : TPres T lfs advance :=
  ⟨fun p hp => by
    have h1 : TInv T lfs { p with prev := p.cur } := ⟨hp.1, hp.2.2.1, hp.2.2.1, hp.2.2.2.1, hp.2.2.2.2⟩
    exact (advanceLoop_tp p.rest hp.2.2.2.1).h _ h1⟩

/-- lemmas about already-treated functions are registered here -/
syntax "tp_known" : tactic
macro_rules | `(tactic| tp_known) => `(tactic| exact TPres.pure _)
macro_rules | `(tactic| tp_known) => `(tactic| exact TPres.get)
macro_rules | `(tactic| tp_known) => `(tactic| exact errorAtCurrent_tp _)
macro_rules | `(tactic| tp_known) => `(tactic| exact error_tp _)
macro_rules | `(tactic| tp_known) => `(tactic| exact advance_tp)

theorem TPres.modify_frame {g : PState → PState} (h0 : ∀ p, (g p).lfs = p.lfs) (h1 : ∀ p, (g p).prev = p.prev)
    (h2 : ∀ p, (g p).cur = p.cur) (h3 : ∀ p, (g p).rest = p.rest) (h4 : ∀ p, (g p).log = p.log) :
    TPres T lfs (_root_.modify g : PM Unit) := by
  refine ⟨fun p hp => ?_⟩
  show TInv T lfs (g p)
  unfold TInv at *
  rw [h0, h1, h2, h3, h4]; exact hp

theorem TPres.forIn {α β : Type} (l : List α) (f : α → β → PM (ForInStep β)) (hf : ∀ a b, TPres T lfs (f a b)) :
    ∀ (init : β), TPres T lfs (forIn l init f) := by
  induction l with
  | nil => intro init; simp only [List.forIn_nil]; exact TPres.pure _
  | cons x xs ih =>
    intro init
    simp only [List.forIn_cons]
    apply TPres.bind (hf x init)
    intro r
    cases r with
    | done b => exact TPres.pure _
    | yield b => exact ih b

macro "tpres" : tactic => `(tactic| repeat' (first
  | assumption
  | tp_known
  | apply TPres.bind
  | apply TPres.ite
  | apply TPres.forIn
  | (apply TPres.modify_frame <;> intro _ <;> rfl)
  | intro _
  | split
  | dsimp only))

theorem check_tp (t : TokType) : TPres T lfs (check t) := by unfold check; tpres
macro_rules | `(tactic| tp_known) => `(tactic| exact check_tp _)
theorem checkEnd_tp : TPres T lfs checkEnd := by unfold checkEnd; tpres
macro_rules | `(tactic| tp_known) => `(tactic| exact checkEnd_tp)
theorem consume_tp (t : TokType) (msg : Bytes) : TPres T lfs (consume t msg) := by unfold consume; tpres
macro_rules | `(tactic| tp_known) => `(tactic| exact consume_tp _ _)
theorem match_tp (t : TokType) : TPres T lfs («match» t) := by unfold «match»; tpres
macro_rules | `(tactic| tp_known) => `(tactic| exact match_tp _)
theorem matchEnd_tp : TPres T lfs matchEnd := by unfold matchEnd; tpres
macro_rules | `(tactic| tp_known) => `(tactic| exact matchEnd_tp)

theorem syncLoop_tp : ∀ (f : Nat), TPres T lfs (syncLoop f)
  | 0 => by unfold syncLoop; tpres
  | f+1 => by
    unfold syncLoop
    have := syncLoop_tp f
    tpres
macro_rules | `(tactic| tp_known) => `(tactic| exact syncLoop_tp _)
theorem sync_tp (f : Nat) : TPres T lfs (sync f) := by unfold sync; tpres
macro_rules | `(tactic| tp_known) => `(tactic| exact sync_tp _)

theorem addConst_tp (v : Value) : TPres T lfs (addConst v) :=
  ⟨fun p hp => by
    simp only [addConst, bind, StateT.bind, get, getThe, MonadStateOf.get, StateT.get, set, StateT.set, pure, StateT.pure]
    exact hp⟩
macro_rules | `(tactic| tp_known) => `(tactic| exact addConst_tp _)

theorem makeConst_tp (v : Value) : TPres T lfs (makeConst v) := by unfold makeConst; tpres
macro_rules | `(tactic| tp_known) => `(tactic| exact makeConst_tp _)
theorem identConst_tp (n : Bytes) : TPres T lfs (identConst n) := by unfold identConst; tpres
macro_rules | `(tactic| tp_known) => `(tactic| exact identConst_tp _)
theorem beginScope_tp : TPres T lfs beginScope := by unfold beginScope; tpres
macro_rules | `(tactic| tp_known) => `(tactic| exact beginScope_tp)
theorem endScope_tp : TPres T lfs endScope :=
  ⟨fun p hp => by
    simp only [endScope, bind, StateT.bind, get, getThe, MonadStateOf.get, StateT.get, set, StateT.set, pure, StateT.pure]
    exact hp⟩
macro_rules | `(tactic| tp_known) => `(tactic| exact endScope_tp)
theorem addLocal_tp (n : Bytes) : TPres T lfs (addLocal n) := by unfold addLocal; tpres
macro_rules | `(tactic| tp_known) => `(tactic| exact addLocal_tp _)
theorem markInitialized_tp : TPres T lfs markInitialized := by
  unfold markInitialized
  apply TPres.modify
  intro p hp
  split <;> exact hp
macro_rules | `(tactic| tp_known) => `(tactic| exact markInitialized_tp)
theorem setStuck_tp : TPres T lfs setStuck := by unfold setStuck; tpres
macro_rules | `(tactic| tp_known) => `(tactic| exact setStuck_tp)

theorem declVar_tp : TPres T lfs declVar := by
  unfold declVar
  tpres
macro_rules | `(tactic| tp_known) => `(tactic| exact declVar_tp)

set_option maxHeartbeats 2000000 in
theorem bindSel_tp : TPres T lfs bindSel := by
  unfold bindSel
  tpres
macro_rules | `(tactic| tp_known) => `(tactic| exact bindSel_tp)
theorem bindTarget_tp (m : Bytes) : TPres T lfs (bindTarget m) := by
  unfold bindTarget
  tpres
macro_rules | `(tactic| tp_known) => `(tactic| exact bindTarget_tp _)
set_option maxHeartbeats 2000000 in
theorem bindStmt_tp : TPres T lfs bindStmt := by
  unfold bindStmt
  tpres

macro_rules | `(tactic| tp_known) => `(tactic| exact bindStmt_tp)

set_option maxHeartbeats 8000000 in
/-- expressions: the three mutually recursive functions, by induction on the fuel -/
theorem expr_tp_all : ∀ (f : Nat),
    (∀ prec, TPres T lfs (parsePrecedence prec f)) ∧ (∀ prec left, TPres T lfs (infixLoop prec left f))
    ∧ (∀ rule ca, TPres T lfs (prefixRule rule ca f))
  | 0 => by
    refine ⟨fun prec => ?_, fun prec left => ?_, fun rule ca => ?_⟩
    · unfold parsePrecedence; tpres
    · unfold infixLoop; tpres
    · unfold prefixRule; tpres
  | f+1 => by
    obtain ⟨ih1, ih2, ih3⟩ := expr_tp_all f
    refine ⟨fun prec => ?_, fun prec left => ?_, fun rule ca => ?_⟩
    · unfold parsePrecedence
      tpres
      all_goals first | exact ih1 _ | exact ih2 _ _ | exact ih3 _ _ | skip
    · unfold infixLoop
      tpres
      all_goals first | exact ih1 _ | exact ih2 _ _ | exact ih3 _ _ | skip
    · unfold prefixRule
      cases rule <;> (tpres <;> first | exact ih1 _ | exact ih2 _ _ | exact ih3 _ _ | skip)

theorem expr_tp (f : Nat) : TPres T lfs (expr f) := by unfold expr; exact (expr_tp_all f).1 _
macro_rules | `(tactic| tp_known) => `(tactic| exact expr_tp _)

set_option maxHeartbeats 2000000 in
theorem varDecl_tp (f : Nat) : TPres T lfs (varDecl f) := by unfold varDecl; tpres
macro_rules | `(tactic| tp_known) => `(tactic| exact varDecl_tp _)

set_option maxHeartbeats 8000000 in
theorem stmt_tp_all : ∀ (f : Nat),
    TPres T lfs (decl f) ∧ TPres T lfs (stmt f) ∧ TPres T lfs (blockStmt f) ∧ TPres T lfs (blockLoop f)
  | 0 => by
    refine ⟨?_, ?_, ?_, ?_⟩
    · unfold decl; tpres
    · unfold stmt; tpres
    · unfold blockStmt; tpres
    · unfold blockLoop; tpres
  | f+1 => by
    obtain ⟨ih1, ih2, ih3, ih4⟩ := stmt_tp_all f
    refine ⟨?_, ?_, ?_, ?_⟩
    · unfold decl; tpres
    · unfold stmt; tpres
    · unfold blockStmt; tpres
    · unfold blockLoop; tpres

theorem decl_tp (f : Nat) : TPres T lfs (decl f) := (stmt_tp_all f).1
macro_rules | `(tactic| tp_known) => `(tactic| exact decl_tp _)

theorem topLoop_tp : ∀ (f : Nat), TPres T lfs (topLoop f)
  | 0 => by unfold topLoop; tpres
  | f+1 => by
    have := topLoop_tp f
    unfold topLoop; tpres


/-- the token the parser holds before it has read anything -/
def noToken : Token := { typ := .FAIL }

/-- **Every diagnostic is the line for a token of the input**: the position it prints is the
recorded position of a token, the text it quotes is that token's text (`noToken`, the
placeholder the parser starts with, is never reported on, which this theorem does not say). -/
theorem diagnostics_are_token_lines (toks : List Token) (lfs : List Nat) :
    ∃ entries : List Bytes, (parseTokens toks lfs).log = entries.flatten ∧
      ∀ e ∈ entries, ∃ t ∈ noToken :: toks, ∃ msg, e = diagLine lfs t msg := by
  have hrun : TPres (noToken :: toks) lfs (do advance; let body ← topLoop (4 * toks.length + 16); let p ← get; return ({ body, npop := p.locals.length, endPos := p.prev.pos } : Program)) := by
    have := topLoop_tp (T := noToken :: toks) (lfs := lfs) (4 * toks.length + 16)
    tpres
  have hinv := hrun.h { rest := toks, lfs := lfs }
    ⟨rfl, by simp [noToken], by simp [noToken], fun t ht => by simp [ht], fun e he => by cases he⟩
  simp only [parseTokens, StateT.run]
  generalize ((do advance; let body ← topLoop (4 * toks.length + 16); let p ← get; return ({ body, npop := p.locals.length, endPos := p.prev.pos } : Program)) : PM Program) { rest := toks, lfs := lfs } = res at hinv ⊢
  obtain ⟨prog, pst⟩ := res
  exact ⟨pst.log.reverse, rfl, fun e he => hinv.2.2.2.2 e (by simpa using he)⟩

end Bclv
