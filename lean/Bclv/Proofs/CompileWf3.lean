import Bclv.Proofs.CompileWf2
namespace Bclv

/-! ## the keys of the map are strictly increasing -/

def KeysIn (m : DepthMap) (lo hi : Nat) : Prop :=
  m.Pairwise (fun a b => a.1 < b.1) ∧ ∀ x ∈ m, lo ≤ x.1 ∧ x.1 < hi

theorem KeysIn.nil (lo hi : Nat) : KeysIn [] lo hi := ⟨List.Pairwise.nil, by simp⟩
theorem KeysIn.single (o : Nat) (s : St) (hi : Nat) (h : o < hi) : KeysIn [(o, s)] o hi :=
  ⟨List.pairwise_singleton _ _, by intro x hx; simp only [List.mem_singleton] at hx; subst hx; exact ⟨Nat.le_refl _, h⟩⟩
theorem KeysIn.append {m₁ m₂ : DepthMap} {lo mid hi : Nat} (h₁ : KeysIn m₁ lo mid) (h₂ : KeysIn m₂ mid hi)
    (hlm : lo ≤ mid) (hmh : mid ≤ hi) : KeysIn (m₁ ++ m₂) lo hi := by
  refine ⟨List.pairwise_append.mpr ⟨h₁.1, h₂.1, ?_⟩, ?_⟩
  · intro a ha b hb
    have := (h₁.2 a ha).2; have := (h₂.2 b hb).1; omega
  · intro x hx
    rcases List.mem_append.mp hx with hx | hx
    · have := h₁.2 x hx; omega
    · have := h₂.2 x hx; omega
theorem KeysIn.weaken {m : DepthMap} {lo hi lo' hi' : Nat} (h : KeysIn m lo hi) (h1 : lo' ≤ lo) (h2 : hi ≤ hi') :
    KeysIn m lo' hi' :=
  ⟨h.1, fun x hx => by have := h.2 x hx; omega⟩
theorem KeysIn.cons {m : DepthMap} {o mid hi : Nat} (s : St) (h : KeysIn m mid hi) (h1 : o < mid) (h2 : mid ≤ hi) :
    KeysIn ((o, s) :: m) o hi :=
  KeysIn.append (m₁ := [(o, s)]) (KeysIn.single o s mid h1) h (by omega) h2

theorem opsMap_keys (op : BinOp) (o : Nat) (s : St) : KeysIn (opsMap op o s) o (o + op.ops.length) := by
  cases op <;> simp only [opsMap, BinOp.ops, List.length_cons, List.length_nil]
  all_goals first
    | exact KeysIn.single _ _ _ (by omega)
    | exact KeysIn.cons _ (KeysIn.single _ _ _ (by omega)) (by omega) (by omega)

theorem mapE_keys : ∀ (e : Expr) (o : Nat) (s : St), KeysIn (mapE e o s) o (o + sizeE e) := by
  intro e
  induction e with
  | lit l p => intro o s; exact KeysIn.single _ _ _ (by simp [sizeE])
  | const i p => intro o s; exact KeysIn.single _ _ _ (by simp [sizeE]; omega)
  | getLocal i p => intro o s; exact KeysIn.single _ _ _ (by simp [sizeE]; omega)
  | getField i p => intro o s; exact KeysIn.single _ _ _ (by simp [sizeE]; omega)
  | setLocal i e p ih =>
    intro o s; simp only [mapE, sizeE]
    exact KeysIn.append (ih o s) (KeysIn.single _ _ _ (by omega)) (by omega) (by omega)
  | setField i e p ih =>
    intro o s; simp only [mapE, sizeE]
    exact KeysIn.append (ih o s) (KeysIn.single _ _ _ (by omega)) (by omega) (by omega)
  | un op e p ih =>
    intro o s; simp only [mapE, sizeE]
    exact KeysIn.append (ih o s) (KeysIn.single _ _ _ (by omega)) (by omega) (by omega)
  | bin op a b p iha ihb =>
    intro o s; simp only [mapE, sizeE]
    refine KeysIn.append (iha o s) (KeysIn.append (ihb _ _) ?_ (by omega) ?_) (by omega) (by omega)
    · have := opsMap_keys op (o + sizeE a + sizeE b) s
      exact this.weaken (Nat.le_refl _) (by omega)
    · omega
  | and a b p iha ihb =>
    intro o s; simp only [mapE, sizeE]
    refine KeysIn.append (iha o s) (KeysIn.append (mid := o + sizeE a + 4) ?_ ((ihb _ _).weaken (Nat.le_refl _) (by omega))
      (by omega) (by omega)) (by omega) (by omega)
    exact KeysIn.cons _ (KeysIn.single _ _ _ (by omega)) (by omega) (by omega)
  | or a b p iha ihb =>
    intro o s; simp only [mapE, sizeE]
    refine KeysIn.append (iha o s) (KeysIn.append (mid := o + sizeE a + 7) ?_ ((ihb _ _).weaken (Nat.le_refl _) (by omega))
      (by omega) (by omega)) (by omega) (by omega)
    exact KeysIn.cons _ (KeysIn.cons _ (KeysIn.single _ _ _ (by omega)) (by omega) (by omega)) (by omega) (by omega)
  | bad => intro o s; exact KeysIn.nil _ _

theorem popMap_keys (n o : Nat) (s : St) : KeysIn (popMap n o s) o (o + (popNCode n 0).length) := by
  unfold popMap
  split
  · exact KeysIn.nil _ _
  · rename_i h
    refine KeysIn.single _ _ _ ?_
    rw [popNCode_length]; simp only [h, if_false]; split <;> omega

mutual
theorem mapS_keys : ∀ (st : Stmt) (o : Nat) (s : St), KeysIn (mapS st o s) o (o + (compileS st).length)
  | .var (some e) _, o, s => by simp only [mapS, compileS, compileE_length]; exact mapE_keys e o s
  | .var none _, o, s => by simp only [mapS, compileS, opAt]; exact KeysIn.single _ _ _ (by simp)
  | .print e _, o, s => by
    simp only [mapS, compileS, List.length_append, compileE_length, opAt, List.length_cons, List.length_nil]
    exact KeysIn.append (mapE_keys e o s) (KeysIn.single _ _ _ (by omega)) (by omega) (by omega)
  | .eval e _, o, s => by
    simp only [mapS, compileS, List.length_append, compileE_length, opAt, List.length_cons, List.length_nil]
    exact KeysIn.append (mapE_keys e o s) (KeysIn.single _ _ _ (by omega)) (by omega) (by omega)
  | .block ti ni op body npop cp, o, s => by
    have hlh : (atPos op (Op.DEFBLOCK.toByte :: (uvEnc ti ++ uvEnc ni))).length = 1 + (uvEnc ti).length + (uvEnc ni).length := by
      simp [atPos]; omega
    simp only [mapS, compileS, List.length_append, hlh, popLen npop cp, opAt, List.length_cons, List.length_nil]
    refine KeysIn.cons s (mid := o + 1 + (uvEnc ti).length + (uvEnc ni).length) ?_ (by omega) (by omega)
    refine KeysIn.append (mapSs_keys body _ _) (KeysIn.append (popMap_keys npop _ _) (KeysIn.single _ _ _ (by omega))
      (by omega) (by omega)) (by omega) (by omega)
  | .bind ti opt _, o, s => by
    simp only [mapS, compileS]; exact KeysIn.single _ _ _ (by simp [atPos])
  | .bad, o, s => by simp only [mapS]; exact KeysIn.nil _ _
theorem mapSs_keys : ∀ (ss : Stmts) (o : Nat) (s : St), KeysIn (mapSs ss o s) o (o + (compileSs ss).length)
  | .nil, o, s => by simp only [mapSs]; exact KeysIn.nil _ _
  | .cons st rest, o, s => by
    simp only [mapSs, compileSs, List.length_append]
    exact KeysIn.append (mapS_keys st o s) ((mapSs_keys rest _ _).weaken (Nat.le_refl _) (by omega)) (by omega) (by omega)
end

theorem mapP_keys (t : Program) : KeysIn (mapP t) 0 ((compileP t).length) := by
  unfold mapP compileP
  simp only [List.length_append, popLen t.npop t.endPos, opAt, List.length_cons, List.length_nil]
  have h1 := mapSs_keys t.body 0 ⟨0, 0⟩
  simp only [Nat.zero_add] at h1
  exact KeysIn.append h1 (KeysIn.append (popMap_keys _ _ _) (KeysIn.single _ _ _ (by omega)) (by omega) (by omega))
    (by omega) (by omega)

/-- with strictly increasing keys, every entry is what `lookup` finds -/
theorem lookup_of_sorted : ∀ (m : DepthMap), m.Pairwise (fun a b => a.1 < b.1) → ∀ x ∈ m, m.lookup x.1 = some x.2
  | [], _, x, hx => by simp at hx
  | (k, v) :: m, hp, x, hx => by
    rw [List.pairwise_cons] at hp
    rcases List.mem_cons.mp hx with rfl | hx
    · simp [List.lookup]
    · have hlt := hp.1 x hx
      have : (x.1 == k) = false := by simp; omega
      simp only [List.lookup, this]
      exact lookup_of_sorted m hp.2 x hx

def lk (m : DepthMap) : Nat → Option St := fun pc => m.lookup pc

/-- **Programs**: every entry of the program's map passes the local check against `lookup`. -/
theorem mapP_ok (p : Prog) (t : Program) (hK : p.consts.length < 2 ^ 64) (hpl : Placed p [] (compileP t) [])
    (hsc : ScP p.consts t) : ∀ x ∈ mapP t, EntryOK p (lk (mapP t)) x.1 x.2 := by
  have hM : ∀ x ∈ mapP t, lk (mapP t) x.1 = some x.2 := lookup_of_sorted _ (mapP_keys t).1
  unfold ScP at hsc
  have hnp : t.npop ≤ 1024 := by have := ScSs_bound _ t.body false 0 t.npop hsc (by omega); omega
  simp only [compileP] at hpl
  have hpb := hpl.left.left
  have hpp := hpl.left.right
  have hpr := hpl.right
  have hMr : lk (mapP t) ((compileSs t.body).length + (popNCode t.npop 0).length) = some ⟨0, 0⟩ :=
    hM (_, _) (by unfold mapP; simp)
  have hMp : lk (mapP t) (compileSs t.body).length = some ⟨t.npop, 0⟩ := by
    by_cases h0 : t.npop = 0
    · have : (popNCode t.npop 0).length = 0 := by rw [popNCode_length]; simp [h0]
      rw [this, Nat.add_zero] at hMr
      rw [hMr, h0]
    · exact hM (_, _) (by unfold mapP; simp [popMap, h0])
  intro x hx
  have hx' := hx
  unfold mapP at hx'
  simp only [List.mem_append, List.mem_singleton] at hx'
  rcases hx' with hx' | hx' | hx'
  · have := mapSs_ok p (lk (mapP t)) hK t.body false 0 t.npop [] _ ⟨0, 0⟩ hpb hsc rfl (by omega) (by simp)
      (fun y hy => hM y (by unfold mapP; exact List.mem_append_left _ hy))
      (by simpa using hMp) x hx'
    exact this
  · have := popN_ok (M := lk (mapP t)) (s := ⟨t.npop, 0⟩) hpp (Nat.le_refl _) (by omega)
      (by simpa using hMr) x (by simpa using hx')
    exact this
  · subst hx'
    have hl : ([] ++ (compileSs t.body ++ popNCode t.npop t.endPos)).length
        = (compileSs t.body).length + (popNCode t.npop 0).length := by
      simp [popLen t.npop t.endPos]
    rw [← hl]
    refine ok_op0 hpr rfl (succs := []) ?_ (by simp)
    have hcl := hpl.len
    simp only [flow]
    have : ([] ++ (compileSs t.body ++ popNCode t.npop t.endPos)).length + 1 = p.code.length := by
      rw [hcl]; simp [opAt]; omega
    rw [this]; simp

/-- from the propositional entry check to the boolean checker -/
theorem checkMap_of_entries (p : Prog) (m : DepthMap) (h0 : m.lookup 0 = some ⟨0, 0⟩)
    (hpos : p.positions.length = p.code.length) (h : ∀ x ∈ m, EntryOK p (lk m) x.1 x.2) : checkMap p m = true := by
  unfold checkMap
  simp only [Bool.and_eq_true, beq_iff_eq, List.all_eq_true]
  refine ⟨⟨h0, hpos⟩, ?_⟩
  intro x hx
  obtain ⟨i, succs, hd, hn, hf, hs⟩ := h x hx
  obtain ⟨pc, s⟩ := x
  simp only [hd, hf, Bool.and_eq_true, decide_eq_true_eq, List.all_eq_true, beq_iff_eq]
  exact ⟨hn, fun e he => hs e he⟩

/-- **The compiler's output passes the bytecode checker**: for every well-scoped tree,
the explicit depth map satisfies `checkMap` on the compiled program. -/
theorem compileP_wf (p : Prog) (t : Program) (hK : p.consts.length < 2 ^ 64)
    (hcode : p.code = (compileP t).map Prod.fst) (hpos : p.positions = (compileP t).map Prod.snd)
    (hsc : ScP p.consts t) : checkMap p (mapP t) = true := by
  have hpl : Placed p [] (compileP t) [] := ⟨by simpa using hcode, by simpa using hpos⟩
  have hM : ∀ x ∈ mapP t, lk (mapP t) x.1 = some x.2 := lookup_of_sorted _ (mapP_keys t).1
  refine checkMap_of_entries p (mapP t) ?_ (by rw [hcode, hpos]; simp) (mapP_ok p t hK hpl hsc)
  -- offset 0 carries depth 0/0
  unfold ScP at hsc
  have hex : lk (mapP t) (0 + (compileSs t.body).length) = some { (⟨0, 0⟩ : St) with d := t.npop } := by
    by_cases h0 : t.npop = 0
    · have hl : (popNCode t.npop 0).length = 0 := by rw [popNCode_length]; simp [h0]
      have := hM ((compileSs t.body).length + (popNCode t.npop 0).length, ⟨0, 0⟩) (by unfold mapP; simp)
      rw [hl, Nat.add_zero] at this
      simp only [Nat.zero_add]
      rw [this, h0]
    · have := hM ((compileSs t.body).length, ⟨t.npop, 0⟩) (by unfold mapP; simp [popMap, h0])
      simpa using this
  exact entrySs p.consts (lk (mapP t)) t.body false 0 t.npop 0 ⟨0, 0⟩ hsc rfl
    (fun y hy => hM y (by unfold mapP; exact List.mem_append_left _ hy)) hex

end Bclv
