import Bclv.Verifier
/-!
# Soundness of the bytecode verifier

If `checkMap p m` holds, every execution of the VM on `p` stays inside the map:
at each step the program counter is a boundary of `m` and the operand and block
depths are the ones `m` assigns.  Consequently the VM never reaches `panic`
(no read outside code, constants or stack, no failed type assertion) and never
ends in the "non-empty stack" internal error.
-/
namespace Bclv

def Inv (m : DepthMap) (vm : VM) : Prop :=
  m.lookup vm.pc = some ⟨vm.stack.length, vm.blocks.length⟩

/-- What a step may do when the invariant holds. -/
def Safe (m : DepthMap) : Step → Prop
  | .next vm' => Inv m vm'
  | .halt _ h => ∀ t, h ≠ .internal t
  | .panic _ => False

theorem lookup_mem {m : DepthMap} {k : Nat} {s : St} (h : m.lookup k = some s) : (k, s) ∈ m := by
  induction m with
  | nil => simp [List.lookup] at h
  | cons e es ih =>
    obtain ⟨k', s'⟩ := e
    simp only [List.lookup] at h
    split at h
    · rename_i heq
      have : k = k' := by simpa using heq
      subst this
      simp at h; subst h; simp
    · exact List.mem_cons_of_mem _ (ih h)

theorem checkMap_pos {p : Prog} {m : DepthMap} (h : checkMap p m = true) :
    p.positions.length = p.code.length := by
  simp only [checkMap, Bool.and_eq_true] at h
  simpa using h.1.2

theorem checkMap_at {p : Prog} {m : DepthMap} (h : checkMap p m = true) {pc : Nat} {s : St}
    (hl : m.lookup pc = some s) :
    ∃ i succs, decodeAt p pc = some i ∧ i.next ≤ p.code.length ∧ flow p i s = some succs
      ∧ ∀ e ∈ succs, m.lookup e.1 = some e.2 := by
  simp only [checkMap, Bool.and_eq_true, List.all_eq_true] at h
  have := h.2 (pc, s) (lookup_mem hl)
  simp only at this
  split at this
  · simp at this
  · rename_i i hi
    simp only [Bool.and_eq_true, decide_eq_true_eq] at this
    obtain ⟨hn, hrest⟩ := this
    split at hrest
    · simp at hrest
    · rename_i succs hs
      refine ⟨i, succs, hi, hn, hs, ?_⟩
      intro e he
      have := List.all_eq_true.mp hrest e he
      simpa using this

theorem uvDec_shorter {bs rest : Bytes} {x : Nat} (h : uvDec bs = some (x, rest)) : rest.length < bs.length := by
  cases bs with
  | nil => simp [uvDec] at h
  | cons b0 tl =>
    simp only [uvDec] at h
    split at h
    · simp at h
    · split at h
      · simp at h; obtain ⟨_, rfl⟩ := h; simp
      · split at h
        · split at h
          · simp at h; obtain ⟨_, rfl⟩ := h; simp; omega
          · simp at h
        · split at h
          · split at h
            · simp at h; obtain ⟨_, rfl⟩ := h; simp; omega
            · simp at h
          · simp at h; obtain ⟨_, rfl⟩ := h; simp; omega

theorem readUv_pos {p : Prog} {pc x nx : Nat} (h : readUv p pc = some (x, nx)) : 1 ≤ nx := by
  unfold readUv at h
  split at h
  · rename_i x' rest hd
    simp at h
    have := uvDec_shorter hd
    have hl : (p.code.drop pc).length ≤ p.code.length := by simp
    omega
  · simp at h

theorem decodeAt_facts {p : Prog} {pc : Nat} {i : Instr} (h : decodeAt p pc = some i) :
    (∃ b, p.code[pc]? = some b ∧ Op.ofByte b = some i.op) ∧ 1 ≤ i.next := by
  unfold decodeAt at h
  cases hb : p.code[pc]? with
  | none => simp [hb] at h
  | some b =>
    cases ho : Op.ofByte b with
    | none => simp [hb, ho] at h
    | some o =>
      simp only [hb, ho, Option.bind_eq_bind, Option.bind_some] at h
      have key : i.op = o ∧ 1 ≤ i.next := by
        cases o <;> simp only at h
        all_goals first
          | (simp only [Option.pure_def, Option.some.injEq] at h; subst h; exact ⟨rfl, by simp⟩)
          | (cases hr : readUv p (pc + 1) with
             | none => simp [hr] at h
             | some r =>
               obtain ⟨x, nx⟩ := r
               simp only [hr, Option.bind_some, Option.pure_def] at h
               first
                 | (simp only [Option.some.injEq] at h; subst h; exact ⟨rfl, readUv_pos hr⟩)
                 | (cases hr2 : readUv p nx with
                    | none => simp [hr2] at h
                    | some r2 =>
                      obtain ⟨y, n2⟩ := r2
                      simp only [hr2, Option.bind_some, Option.some.injEq] at h
                      subst h; exact ⟨rfl, readUv_pos hr2⟩)
                 | (cases hc : p.code[nx]? with
                    | none => simp [hc] at h
                    | some c =>
                      simp only [hc, Option.bind_some, Option.some.injEq] at h
                      subst h; exact ⟨rfl, by simp⟩))
          | (cases hr : readU16 p (pc + 1) with
             | none => simp [hr] at h
             | some r =>
               obtain ⟨x, nx⟩ := r
               simp only [hr, Option.bind_some, Option.pure_def, Option.some.injEq] at h
               subst h
               refine ⟨rfl, ?_⟩
               unfold readU16 at hr
               split at hr
               · simp only [Option.some.injEq, Prod.mk.injEq] at hr
                 have := hr.2
                 show 1 ≤ nx
                 omega
               · simp at hr)
      exact ⟨⟨b, rfl, by rw [key.1]; exact ho⟩, key.2⟩

end Bclv

namespace Bclv

theorem rtError_safe {p : Prog} {m : DepthMap} (vm : VM) (msg : Bytes)
    (h1 : 1 ≤ vm.pc) (h2 : vm.pc ≤ p.positions.length) : Safe m (rtError p vm msg) := by
  unfold rtError
  have : vm.pc - 1 < p.positions.length := by omega
  rw [List.getElem?_eq_getElem this]
  intro t h; cases h

theorem push_safe {p : Prog} {m : DepthMap} (vm : VM) (v : Value)
    (h1 : 1 ≤ vm.pc) (h2 : vm.pc ≤ p.positions.length)
    (hl : m.lookup vm.pc = some ⟨vm.stack.length + 1, vm.blocks.length⟩) : Safe m (push p vm v) := by
  unfold push
  split
  · exact rtError_safe vm _ h1 h2
  · simpa [Safe, Inv] using hl

theorem setNth_length {α} (l : List α) (n : Nat) (a : α) : (setNth l n a).length = l.length := by
  induction l generalizing n with
  | nil => rfl
  | cons x xs ih => cases n <;> simp [setNth, ih]

theorem exec_safe {p : Prog} {m : DepthMap} (hc : checkMap p m = true) (vm : VM)
    (i : Instr) (succs : List (Nat × St))
    (hd : decodeAt p vm.pc = some i) (hn : i.next ≤ p.code.length)
    (hf : flow p i ⟨vm.stack.length, vm.blocks.length⟩ = some succs)
    (hs : ∀ e ∈ succs, m.lookup e.1 = some e.2) :
    Safe m (exec p i vm) := by
  have hpos := checkMap_pos hc
  obtain ⟨⟨b, hb, _⟩, hn1⟩ := decodeAt_facts hd
  have hpcl : vm.pc < p.code.length := by
    have := List.getElem?_eq_some_iff.mp hb
    exact this.1
  have hnp : i.next ≤ p.positions.length := by omega
  cases hop : i.op <;> simp only [flow, hop] at hf <;> simp only [exec, hop]
  case NOP =>
    simp at hf; subst hf
    simpa [Safe, Inv] using hs _ List.mem_cons_self
  case RET =>
    split at hf
    · rename_i hcond
      simp only [Bool.and_eq_true, decide_eq_true_eq] at hcond
      have : vm.stack.isEmpty = true := by
        have := hcond.1.1
        exact List.isEmpty_iff.mpr (List.eq_nil_of_length_eq_zero this)
      simp [this, Safe]
    · simp at hf
  case CONST =>
    split at hf
    · rename_i hlt
      simp at hf; subst hf
      rw [List.getElem?_eq_getElem hlt]
      exact push_safe _ _ (by simpa using hn1) (by simpa using hnp) (by simpa using hs _ List.mem_cons_self)
    · simp at hf
  case ZERO | ONE | TRUE | FALSE | NIL =>
    simp at hf; subst hf
    exact push_safe _ _ (by simpa using hn1) (by simpa using hnp) (by simpa using hs _ List.mem_cons_self)
  case EQ | LT | GT | ADD | SUB | MUL | DIV =>
    split at hf
    · rename_i hlt
      simp at hf; subst hf
      have hl := hs _ List.mem_cons_self
      match hst : vm.stack with
      | [] => simp [hst] at hlt
      | [_] => simp [hst] at hlt
      | bv :: av :: rest =>
        simp only [ArOp.ofOp]
        split
        · simp only [hst, List.length_cons] at hl
          simpa [Safe, Inv] using hl
        · exact rtError_safe _ _ (by simpa using hn1) (by simpa using hnp)
    · simp at hf
  case NEG =>
    split at hf
    · rename_i hlt
      simp at hf; subst hf
      have hl := hs _ List.mem_cons_self
      match hst : vm.stack with
      | [] => simp [hst] at hlt
      | v :: rest =>
        simp only [hst, List.length_cons] at hl
        cases v <;> first
          | (simpa [Safe, Inv] using hl)
          | exact rtError_safe _ _ (by simpa using hn1) (by simpa using hnp)
    · simp at hf
  case UNPLUS =>
    split at hf
    · rename_i hlt
      simp at hf; subst hf
      have hl := hs _ List.mem_cons_self
      match hst : vm.stack with
      | [] => simp [hst] at hlt
      | v :: rest =>
        simp only [hst, List.length_cons] at hl
        simp only [hst]
        split
        · simpa [Safe, Inv] using hl
        · exact rtError_safe _ _ (by simpa using hn1) (by simpa using hnp)
    · simp at hf
  case NOT =>
    split at hf
    · rename_i hlt
      simp at hf; subst hf
      have hl := hs _ List.mem_cons_self
      match hst : vm.stack with
      | [] => simp [hst] at hlt
      | v :: rest =>
        simp only [hst, List.length_cons] at hl
        simpa [Safe, Inv] using hl
    · simp at hf
  case JUMP =>
    simp at hf; subst hf
    simpa [Safe, Inv] using hs _ List.mem_cons_self
  case LOOP => simp at hf
  case JFALSE =>
    split at hf
    · rename_i hlt
      simp at hf; subst hf
      have hl1 := hs (i.next, _) List.mem_cons_self
      have hl2 := hs (i.next + i.a, _) (List.mem_cons_of_mem _ List.mem_cons_self)
      match hst : vm.stack with
      | [] => simp [hst] at hlt
      | v :: rest =>
        simp only [hst, List.length_cons] at hl1 hl2
        simp only [Safe, Inv]
        split
        · simpa using hl2
        · simpa using hl1
    · simp at hf
  case POP =>
    split at hf
    · rename_i hlt
      simp at hf; subst hf
      have hl := hs _ List.mem_cons_self
      match hst : vm.stack with
      | [] => simp [hst] at hlt
      | v :: rest =>
        simp only [hst, List.length_cons] at hl
        simpa [Safe, Inv] using hl
    · simp at hf
  case POPN =>
    split at hf
    · rename_i hlt
      simp at hf; subst hf
      have hl := hs _ List.mem_cons_self
      simp only [hlt, if_true]
      simpa [Safe, Inv] using hl
    · simp at hf
  case PRINT =>
    split at hf
    · rename_i hlt
      simp at hf; subst hf
      have hl := hs _ List.mem_cons_self
      match hst : vm.stack with
      | [] => simp [hst] at hlt
      | v :: rest =>
        simp only [hst, List.length_cons] at hl
        simpa [Safe, Inv] using hl
    · simp at hf
  case GETLOCAL =>
    split at hf
    · rename_i hlt
      simp at hf; subst hf
      simp only [hlt, if_true]
      exact push_safe _ _ (by simpa using hn1) (by simpa using hnp) (by simpa using hs _ List.mem_cons_self)
    · simp at hf
  case SETLOCAL =>
    split at hf
    · rename_i hlt
      simp at hf; subst hf
      have hl := hs _ List.mem_cons_self
      match hst : vm.stack with
      | [] => simp [hst] at hlt
      | v :: rest =>
        simp only [hst] at hlt
        simp only [hlt, if_true]
        simp only [hst] at hl
        simpa [Safe, Inv, setNth_length] using hl
    · simp at hf
  case DEFBLOCK =>
    split at hf
    · rename_i hcond
      simp at hf; subst hf
      have hl := hs _ List.mem_cons_self
      simp only [Bool.and_eq_true, isStrConst, Option.isSome_iff_exists] at hcond
      obtain ⟨⟨t, ht⟩, ⟨n, hn'⟩⟩ := hcond
      split
      · exact rtError_safe _ _ (by simp) (by simp; omega)
      · simp only [ht, hn']
        simpa [Safe, Inv] using hl
    · simp at hf
  case ENDBLOCK =>
    split at hf
    · rename_i hlt
      simp at hf; subst hf
      have hl := hs _ List.mem_cons_self
      match hbl : vm.blocks with
      | [] => simp [hbl] at hlt
      | [b1] =>
        simp only [hbl, List.length_cons, List.length_nil] at hl
        simpa [Safe, Inv] using hl
      | child :: parent :: rest =>
        simp only [hbl, List.length_cons] at hl
        simp only
        split
        · simpa [Safe, Inv] using hl
        · exact rtError_safe _ _ (by simpa using hn1) (by simpa using hnp)
    · simp at hf
  case GETFIELD =>
    split at hf
    · rename_i hcond
      simp at hf; subst hf
      simp only [Bool.and_eq_true, isStrConst, Option.isSome_iff_exists, decide_eq_true_eq] at hcond
      obtain ⟨⟨name, hname⟩, hb1⟩ := hcond
      simp only [hname]
      have hne : vm.blocks.isEmpty = false := by
        cases hbl : vm.blocks with
        | nil => simp [hbl] at hb1
        | cons _ _ => rfl
      simp only [hne, Bool.false_eq_true, if_false]
      split
      · exact push_safe _ _ (by simpa using hn1) (by simpa using hnp) (by simpa using hs _ List.mem_cons_self)
      · exact rtError_safe _ _ (by simpa using hn1) (by simpa using hnp)
    · simp at hf
  case SETFIELD =>
    split at hf
    · rename_i hcond
      simp at hf; subst hf
      have hl := hs _ List.mem_cons_self
      simp only [Bool.and_eq_true, isStrConst, Option.isSome_iff_exists, decide_eq_true_eq] at hcond
      obtain ⟨⟨⟨name, hname⟩, hb1⟩, hd1⟩ := hcond
      match hbl : vm.blocks, hst : vm.stack with
      | [], _ => simp [hbl] at hb1
      | _ :: _, [] => simp [hst] at hd1
      | top :: brest, v :: srest =>
        simp only [hname]
        simp only [hbl, hst, List.length_cons] at hl
        split
        · exact rtError_safe _ _ (by simpa using hn1) (by simpa using hnp)
        · simpa [Safe, Inv] using hl
    · simp at hf
  case BIND =>
    split at hf
    · rename_i hcond
      simp at hf; subst hf
      have hl := hs _ List.mem_cons_self
      simp only [isStrConst, Option.isSome_iff_exists] at hcond
      obtain ⟨bt, hbt⟩ := hcond
      have hposs : ∃ pos, p.positions[vm.pc + 1 - 1]? = some pos := by
        have : vm.pc + 1 - 1 < p.positions.length := by omega
        exact ⟨_, List.getElem?_eq_getElem this⟩
      obtain ⟨pos, hpos'⟩ := hposs
      simp only [hpos']
      have main : ∀ (vm' : VM), vm'.pc = i.next → vm'.stack = vm.stack → vm'.blocks = vm.blocks →
          Safe m (bindStep p i.a i.b vm') := by
        intro vm' hpc hst hbl
        have hrt : ∀ msg, Safe m (rtError p vm' msg) :=
          fun msg => rtError_safe _ _ (by rw [hpc]; exact hn1) (by rw [hpc]; exact hnp)
        have hnx : ∀ bnd, Safe m (.next { vm' with binding := bnd }) := by
          intro bnd
          simp only [Safe, Inv, hpc, hst, hbl]
          exact hl
        unfold bindStep
        simp only [hbt]
        repeat' split
        all_goals first | exact hrt _ | exact hnx _
      cases hbn : vm.binding with
      | none => exact main _ rfl rfl rfl
      | some _ => exact main _ rfl rfl rfl
    · simp at hf

end Bclv

namespace Bclv

theorem step_safe {p : Prog} {m : DepthMap} (hc : checkMap p m = true) (vm : VM) (hinv : Inv m vm) :
    Safe m (vmStep p false vm) := by
  obtain ⟨i, succs, hd, hn, hf, hs⟩ := checkMap_at hc hinv
  obtain ⟨⟨b, hb, ho⟩, _⟩ := decodeAt_facts hd
  unfold vmStep
  simp only [Bool.false_eq_true, if_false, hb, ho, hd]
  exact exec_safe hc vm i succs hd hn hf hs

/-- Along every execution of a checked program the invariant holds; the run never
panics and never ends in the non-empty-stack internal error. -/
theorem run_safe {p : Prog} {m : DepthMap} (hc : checkMap p m = true) :
    ∀ (n : Nat) (vm : VM), Inv m vm →
      match vmRun p false n vm with
      | .panic _ => False
      | .done _ h => ∀ t, h ≠ .internal t
      | .timeout vm' => Inv m vm' := by
  intro n
  induction n with
  | zero => intro vm hinv; simpa [vmRun] using hinv
  | succ n ih =>
    intro vm hinv
    have hs := step_safe hc vm hinv
    unfold vmRun
    cases hst : vmStep p false vm with
    | next vm' => simp only [hst, Safe] at hs; exact ih vm' hs
    | halt vm' h => simp only [hst, Safe] at hs; exact hs
    | panic vm' => simp only [hst, Safe] at hs

theorem checkMap_init {p : Prog} {m : DepthMap} (hc : checkMap p m = true) : Inv m {} := by
  simp only [checkMap, Bool.and_eq_true] at hc
  have := hc.1.1
  simpa [Inv] using this

theorem verify_checkMap {p : Prog} {v : VerifyOk} (h : verify p = some v) : ∃ m, checkMap p m = true := by
  unfold verify at h
  split at h
  · simp at h
  · rename_i m _
    split at h
    · exact ⟨m, by assumption⟩
    · simp at h

end Bclv
