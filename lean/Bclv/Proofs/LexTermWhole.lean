import Bclv.Proofs.LexTerm
import Bclv.Proofs.Utf8
import Bclv.Proofs.ParserFuel1
namespace Bclv

theorem moveFwd_snd : ∀ (n : Nat) (c r : Bytes), (moveFwd n c r).2 = r.drop n
  | 0, c, r => by simp [moveFwd]
  | n+1, c, [] => by simp [moveFwd]
  | n+1, c, b :: r => by simp [moveFwd, moveFwd_snd n]

theorem moveFwd_fst : ∀ (n : Nat) (c r : Bytes), (moveFwd n c r).1 = (r.take n).reverse ++ c
  | 0, c, r => by simp [moveFwd]
  | n+1, c, [] => by simp [moveFwd]
  | n+1, c, b :: r => by simp [moveFwd, moveFwd_fst n]

theorem moveFwd_back (n : Nat) (c r : Bytes) (h : n ≤ r.length) :
    (moveFwd n (moveFwd n c r).2 (moveFwd n c r).1).1 = r := by
  rw [moveFwd_fst, moveFwd_snd, moveFwd_fst]
  have : ((r.take n).reverse ++ c).take n = (r.take n).reverse := by
    rw [List.take_append_of_le_length (by simp; omega)]
    rw [List.take_of_length_le (by simp only [List.length_reverse, List.length_take]; exact Nat.min_le_left _ _)]
  rw [this]
  simp

theorem decodeRune_ne_eof (b : Bytes) : (decodeRune b).1 ≠ eofR := by
  have h : 0 ≤ (decodeRune b).1 := by
    unfold decodeRune
    repeat' split
    all_goals first | exact Int.natCast_nonneg _ | (simp [runeError])
  intro he; rw [he] at h; simp [eofR] at h

/-- `next` as a function of the unread bytes -/
theorem Whole.next_rest (s : Whole) :
    (Whole.prims.next s).2.rest = s.rest.drop (decodeRune s.rest).2 := by
  simp only [Whole.prims]
  rcases hd : decodeRune s.rest with ⟨r, w⟩
  dsimp only
  split
  · rename_i h; simp [h]
  · simp only [moveFwd_snd]

theorem Whole.next_rune (s : Whole) :
    (Whole.prims.next s).1 = if (decodeRune s.rest).2 = 0 then eofR else (decodeRune s.rest).1 := by
  simp only [Whole.prims]
  rcases hd : decodeRune s.rest with ⟨r, w⟩
  dsimp only
  split <;> rfl

theorem Whole.backup_next_rest (s : Whole) :
    (Whole.prims.backup (Whole.prims.next s).2).rest = s.rest := by
  simp only [Whole.prims]
  have hw := decodeRune_width_le s.rest
  rcases hd : decodeRune s.rest with ⟨r, w⟩
  rw [hd] at hw
  dsimp only at hw ⊢
  split
  · simp [moveFwd]
  · dsimp only
    exact moveFwd_back w s.cur s.rest hw

theorem Whole.meas : PrimMeas Whole.prims (fun s => s.rest.length) := by
  have hnl : ∀ s : Whole, (Whole.prims.next s).2.rest.length ≤ s.rest.length := by
    intro s; rw [Whole.next_rest]; simp
  refine ⟨hnl, ?_, ?_, ?_, ?_, ?_, ?_⟩
  · intro s hne
    rw [Whole.next_rune] at hne
    have hw := decodeRune_width_le s.rest
    show (Whole.prims.next s).2.rest.length < s.rest.length
    rw [Whole.next_rest]
    split at hne
    · exact absurd rfl hne
    · simp only [List.length_drop]; omega
  · intro s
    show (Whole.prims.backup (Whole.prims.next s).2).rest.length ≤ s.rest.length
    rw [Whole.backup_next_rest]; exact Nat.le_refl _
  · intro s
    rw [Whole.next_rune, Whole.next_rune, Whole.backup_next_rest]
  · intro s
    show (Whole.prims.next (Whole.prims.backup (Whole.prims.next s).2)).2.rest.length ≤ (Whole.prims.next s).2.rest.length
    rw [Whole.next_rest, Whole.next_rest, Whole.backup_next_rest]
    exact Nat.le_refl _
  · intro s
    show (Whole.prims.unbackup s).rest.length ≤ s.rest.length
    simp only [Whole.prims, moveFwd_snd, List.length_drop]; omega
  · intro s; rfl

theorem lastEnd_append (xs : List Token) (a : Token) : lastEnd (xs ++ [a]) = a.typ.isEnd := by
  induction xs with
  | nil => rfl
  | cons x xs ih =>
    cases xs with
    | nil => exact ih
    | cons y ys => exact ih

theorem lastEnd_of_head {σ : Type} (r : LexSt σ) (h : endOrFuel (headTyp r)) : lastEnd r.toks.reverse = true := by
  unfold endOrFuel headTyp at h
  cases ht : r.toks with
  | nil => rw [ht] at h; simp at h
  | cons a as =>
    rw [ht] at h
    simp only [List.reverse_cons]
    rw [lastEnd_append]
    rcases h with h | h <;> (simp at h; rw [h]; rfl)

/-- **The lexer ends every token list with a finalizer** (`tEOF` or `tFAIL`): its step
budget is never exhausted. -/
theorem lexWhole_lastEnd (input : Bytes) : lastEnd (lexWhole input) = true := by
  unfold lexWhole
  exact lastEnd_of_head _ (lexRun_ends Whole.meas (input.length + 1) (3 * input.length + 4) .start
    { s := { pos := 0, cur := [], rest := input, width := 0 }, toks := [] } (by simp)
    (fun h => by cases h) (by simp only [lexPot]; omega))

end Bclv
